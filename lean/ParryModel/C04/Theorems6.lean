import ParryModel.C04.Theorems1
import ParryModel.C04.Theorems3
import ParryModel.C04.ModelGlue
/-!
# C04 property theorems, part 6: the boolean forms `intersects_local_ray` / `intersects_ray`

Clause "`None` means the ray segment `[0, max_toi]` does not meet the shape" read through the boolean forms of the trait:
the default `intersects_local_ray` is `cast_local_ray(ray, max_toi, true).is_some()`, so it is `true` EXACTLY when the segment
`{origin + s·dir : 0 ≤ s ≤ max_toi}` meets the (solid) shape; `intersects_ray` is the same for the posed shape; the
`BoundingSphere` override is the ball form on the translated ray.  Every direction length; no unit-direction assumption.
-/
namespace C04
open Model

variable {K : Type} [Field K] [LinearOrder K] [IsStrictOrderedRing K] (sq : K → K)

/-- the segment `[0, max]` of the curve `pt` meets `S` -/
def SegMeets {α : Type} (S : α → Prop) (pt : K → α) (max : K) : Prop := ∃ t, 0 ≤ t ∧ t ≤ max ∧ S (pt t)

/-- a first-hit result is `Some` exactly when the segment meets the set -/
theorem firstHit_isSome_iff {α : Type} (S : α → Prop) (pt : K → α) (max : K) (r : Option K) (h : FirstHit S pt max r) :
    r.isSome = true ↔ SegMeets S pt max := by
  cases r with
  | none =>
    simp only [Option.isSome_none, Bool.false_eq_true, false_iff]
    rintro ⟨t, t0, tm, ht⟩
    exact h t t0 tm ht
  | some t =>
    simp only [Option.isSome_some, true_iff]
    exact ⟨t, h.1, h.2.1, h.2.2.1⟩

/-- **`Ball::intersects_local_ray`** is true iff the segment meets the ball (any non-zero direction) -/
theorem ball_intersects_iff (hs : LawfulSqrt sq) (s : Ball K) (ray : Ray3 K) (max : K) :
    letI := fieldNum K sq
    0 < ray.d.normSq →
    (s.intersectsLocalRay ray max = true ↔ SegMeets s.Mem3 (rayPt sq ray) max) := by
  intro ha
  exact firstHit_isSome_iff _ _ _ _ (ball_cast_solid_firstHit sq hs s ray max ha)

/-- **`BoundingSphere::intersects_local_ray`** (the crate's only override) is true iff the segment meets the ball of
radius `r` about `center` -/
theorem bsphere_intersects_iff (hs : LawfulSqrt sq) (c : V3 K) (r : K) (ray : Ray3 K) (max : K) :
    letI := fieldNum K sq
    0 < ray.d.normSq →
    (bsphereIntersectsLocalRay c r ray max = true ↔
      SegMeets (fun p => (Ball.mk r).Mem3 (p.sub c)) (rayPt sq ray) max) := by
  intro ha
  have h := ball_intersects_iff sq hs (Ball.mk r) (@Ray3.translate K (fieldNum K sq) ray (@V3.neg K (fieldNum K sq) c)) max ha
  have e : ∀ t, rayPt sq (@Ray3.translate K (fieldNum K sq) ray (@V3.neg K (fieldNum K sq) c)) t =
      @V3.sub K (fieldNum K sq) (rayPt sq ray t) c := by
    intro t
    simp only [rayPt, Ray3.pointAt, Ray3.translate, V3.add, V3.sub, V3.smul, V3.neg]
    congr 1 <;> ring
  simp only [bsphereIntersectsLocalRay]
  rw [h]
  simp only [SegMeets, e]

/-! ## `BoundingSphere` (`ray_bounding_sphere.rs`): the ball casts on the ray translated by `-center` -/

private theorem rayPt_translate (c : V3 K) (ray : Ray3 K) (t : K) :
    rayPt sq (@Ray3.translate K (fieldNum K sq) ray (@V3.neg K (fieldNum K sq) c)) t =
      @V3.sub K (fieldNum K sq) (rayPt sq ray t) c := by
  simp only [rayPt, Ray3.pointAt, Ray3.translate, V3.add, V3.sub, V3.smul, V3.neg]
  congr 1 <;> ring

private theorem origin_translate (c : V3 K) (ray : Ray3 K) :
    (@Ray3.translate K (fieldNum K sq) ray (@V3.neg K (fieldNum K sq) c)).o = @V3.sub K (fieldNum K sq) ray.o c := by
  simp only [Ray3.translate, V3.add, V3.sub, V3.neg]
  congr 1 <;> ring

private theorem bsphere_toi (c : V3 K) (r : K) (ray : Ray3 K) (max : K) (solid : Bool) :
    (@bsphereCastLocalRayAndGetNormal K (fieldNum K sq) c r ray max solid).map (·.toi) =
      @Ball.castLocalRay K (fieldNum K sq) (Ball.mk r)
        (@Ray3.translate K (fieldNum K sq) ray (@V3.neg K (fieldNum K sq) c)) max solid := by
  simp only [bsphereCastLocalRayAndGetNormal]
  exact ball_getNormal_toi sq _ _ max solid

/-- **`BoundingSphere::cast_local_ray[_and_get_normal]`, solid**: first hit of the ball of radius `r` about `center` on
`[0, max_toi]`, any non-zero direction -/
theorem bsphere_cast_solid_firstHit (hs : LawfulSqrt sq) (c : V3 K) (r : K) (ray : Ray3 K) (max : K) :
    letI := fieldNum K sq
    0 < ray.d.normSq →
    FirstHit (fun p => (Ball.mk r).Mem3 (p.sub c)) (rayPt sq ray) max
      ((bsphereCastLocalRayAndGetNormal c r ray max true).map (·.toi)) := by
  intro ha
  rw [bsphere_toi]
  have h := ball_cast_solid_firstHit sq hs (Ball.mk r)
    (@Ray3.translate K (fieldNum K sq) ray (@V3.neg K (fieldNum K sq) c)) max ha
  revert h
  cases (@Ball.castLocalRay K (fieldNum K sq) (Ball.mk r)
    (@Ray3.translate K (fieldNum K sq) ray (@V3.neg K (fieldNum K sq) c)) max true) <;>
    simp only [FirstHit, rayPt_translate] <;> exact id

/-- **`BoundingSphere` cast, origin outside (both `solid` flags)**: first hit, and a reported time is `> 0` -/
theorem bsphere_cast_outside_firstHit (hs : LawfulSqrt sq) (c : V3 K) (r : K) (ray : Ray3 K) (max : K) (solid : Bool) :
    letI := fieldNum K sq
    0 < ray.d.normSq → ¬ (Ball.mk r).Mem3 (ray.o.sub c) →
    FirstHit (fun p => (Ball.mk r).Mem3 (p.sub c)) (rayPt sq ray) max
      ((bsphereCastLocalRayAndGetNormal c r ray max solid).map (·.toi)) ∧
    ∀ t, (bsphereCastLocalRayAndGetNormal c r ray max solid).map (·.toi) = some t → 0 < t := by
  intro ha hout
  rw [bsphere_toi]
  have hout' : ¬ @Ball.Mem3 K (fieldNum K sq) (Ball.mk r)
      (@Ray3.translate K (fieldNum K sq) ray (@V3.neg K (fieldNum K sq) c)).o := by
    rw [origin_translate]; exact hout
  obtain ⟨h, h2⟩ := ball_cast_outside_firstHit sq hs (Ball.mk r)
    (@Ray3.translate K (fieldNum K sq) ray (@V3.neg K (fieldNum K sq) c)) max solid ha hout'
  refine ⟨?_, fun t ht => (h2 t ht).1⟩
  revert h
  cases (@Ball.castLocalRay K (fieldNum K sq) (Ball.mk r)
    (@Ray3.translate K (fieldNum K sq) ray (@V3.neg K (fieldNum K sq) c)) max solid) <;>
    simp only [FirstHit, rayPt_translate] <;> exact id

/-- **`BoundingSphere` cast, `solid = false`, origin inside**: a reported time is `≤ max_toi` and is the exit parameter
(`[0, t]` inside the ball, everything later outside); `None` ⇒ the whole segment stays inside -/
theorem bsphere_cast_nonsolid_inside (hs : LawfulSqrt sq) (c : V3 K) (r : K) (ray : Ray3 K) (max : K) :
    letI := fieldNum K sq
    0 < ray.d.normSq → (Ball.mk r).Mem3 (ray.o.sub c) →
    match (bsphereCastLocalRayAndGetNormal c r ray max false).map (·.toi) with
    | some t => t ≤ max ∧ ExitHit (fun p => (Ball.mk r).Mem3 (p.sub c)) (rayPt sq ray) t
    | none => ∀ u, 0 ≤ u → u ≤ max → (Ball.mk r).Mem3 ((rayPt sq ray u).sub c) := by
  intro ha hin
  rw [bsphere_toi]
  have hin' : @Ball.Mem3 K (fieldNum K sq) (Ball.mk r)
      (@Ray3.translate K (fieldNum K sq) ray (@V3.neg K (fieldNum K sq) c)).o := by
    rw [origin_translate]; exact hin
  have h := ball_cast_nonsolid_inside sq hs (Ball.mk r)
    (@Ray3.translate K (fieldNum K sq) ray (@V3.neg K (fieldNum K sq) c)) max ha hin'
  revert h
  cases (@Ball.castLocalRay K (fieldNum K sq) (Ball.mk r)
    (@Ray3.translate K (fieldNum K sq) ray (@V3.neg K (fieldNum K sq) c)) max false) with
  | none => simp only [rayPt_translate]; exact fun h => h.1
  | some t => simp only [ExitHit, rayPt_translate]; exact fun h => ⟨h.1, h.2.2⟩

/-- **`Aabb::intersects_local_ray`** is true iff the segment meets the box (zero direction components allowed) -/
theorem aabb_intersects_iff (big : K) (b : Aabb K) (ray : Ray3 K) (max : K) (hv : AabbValid b)
    (hmax0 : 0 ≤ max) (hmaxb : max ≤ big) :
    letI := fieldNum K sq
    (b.intersectsLocalRay big ray max = true ↔ SegMeets (AabbMem b) (rayPt sq ray) max) :=
  firstHit_isSome_iff _ _ _ _ (aabb_cast_solid_firstHit sq big b ray max hv hmax0 hmaxb)

/-- **`Cuboid::intersects_local_ray`** -/
theorem cuboid_intersects_iff (big : K) (s : Cuboid3 K) (ray : Ray3 K) (max : K)
    (hhe : 0 ≤ s.he.x ∧ 0 ≤ s.he.y ∧ 0 ≤ s.he.z) (hmax0 : 0 ≤ max) (hmaxb : max ≤ big) :
    letI := fieldNum K sq
    (s.intersectsLocalRay big ray max = true ↔ SegMeets s.Mem (rayPt sq ray) max) :=
  firstHit_isSome_iff _ _ _ _ (cuboid_cast_solid_firstHit sq big s ray max hhe hmax0 hmaxb)

/-- **`Cuboid::intersects_ray`** (posed): true iff the world segment meets the posed cuboid `{p : m⁻¹·p ∈ cuboid}` -/
theorem cuboid_intersectsRay_iff (big : K) (s : Cuboid3 K) (m : Iso3 K) (ray : Ray3 K) (max : K)
    (hhe : 0 ≤ s.he.x ∧ 0 ≤ s.he.y ∧ 0 ≤ s.he.z) (hmax0 : 0 ≤ max) (hmaxb : max ≤ big) :
    letI := fieldNum K sq
    (s.intersectsRay big m ray max = true ↔ SegMeets (fun p => s.Mem (m.invAct p)) (rayPt sq ray) max) :=
  firstHit_isSome_iff _ _ _ _ (cuboid_posed_solid_firstHit sq big s m ray max hhe hmax0 hmaxb)

/-- **`Ball::intersects_ray`** (posed, unit quaternion) -/
theorem ball_intersectsRay_iff (hs : LawfulSqrt sq) (s : Ball K) (m : Iso3 K) (ray : Ray3 K) (max : K)
    (hq : m.qi * m.qi + m.qj * m.qj + m.qk * m.qk + m.qw * m.qw = 1) :
    letI := fieldNum K sq
    0 < ray.d.normSq →
    (s.intersectsRay m ray max = true ↔ SegMeets (fun p => s.Mem3 (m.invAct p)) (rayPt sq ray) max) := by
  intro ha
  have hd : 0 < @V3.normSq K (fieldNum K sq) (@Ray3.invTransform K (fieldNum K sq) ray m).d := by
    show 0 < @V3.dot K (fieldNum K sq) (@Iso3.invRot K (fieldNum K sq) m ray.d) (@Iso3.invRot K (fieldNum K sq) m ray.d)
    rw [invRot_dot sq m _ _ hq]; exact ha
  have h := ball_cast_solid_firstHit sq hs s (@Ray3.invTransform K (fieldNum K sq) ray m) max hd
  exact firstHit_isSome_iff _ _ _ _ ((firstHit_posed sq _ m ray max _).1 h)

/-- **`HalfSpace::intersects_local_ray`** (through the default `cast_local_ray`; parallel-ray behaviour corrected) -/
theorem halfspace_intersects_iff (s : HalfSpace3 K) (ray : Ray3 K) (max : K) (hmax : 0 ≤ max) :
    letI := fieldNum K sq
    (s.intersectsLocalRay ray max = true ↔ SegMeets s.Mem (rayPt sq ray) max) :=
  firstHit_isSome_iff _ _ _ _ (halfspace_cast_solid_firstHit sq s ray max hmax)

/-- **`HalfSpace::intersects_ray`** (posed) -/
theorem halfspace_intersectsRay_iff (s : HalfSpace3 K) (m : Iso3 K) (ray : Ray3 K) (max : K) (hmax : 0 ≤ max) :
    letI := fieldNum K sq
    (s.intersectsRay m ray max = true ↔ SegMeets (fun p => s.Mem (m.invAct p)) (rayPt sq ray) max) :=
  firstHit_isSome_iff _ _ _ _
    ((firstHit_posed sq _ m ray max _).1 (halfspace_cast_solid_firstHit sq s (@Ray3.invTransform K (fieldNum K sq) ray m) max hmax))

/-! ## 2-D crate: posed `Ball` and `Cuboid` (default `cast_ray`): posed = local ∘ inverse transform -/

/-- the point of the inverse-transformed 2-D ray is the inverse transform of the point (any complex number `re + i·im`,
unit or not: `inverse_transform_point/vector` are linear) -/
theorem rayPt2_invTransform (m : Iso2 K) (ray : Ray2 K) (s : K) :
    letI := fieldNum K sq
    rayPt2 sq (ray.invTransform m) s = m.invAct (rayPt2 sq ray s) := by
  simp only [rayPt2, Ray2.pointAt, Ray2.invTransform, Iso2.invAct, Iso2.invRot, V2.add, V2.sub, V2.smul]
  congr 1 <;> ring

theorem firstHit_posed2 (S : V2 K → Prop) (m : Iso2 K) (ray : Ray2 K) (max : K) (r : Option K) :
    letI := fieldNum K sq
    FirstHit S (rayPt2 sq (ray.invTransform m)) max r ↔ FirstHit (fun p => S (m.invAct p)) (rayPt2 sq ray) max r := by
  cases r <;> simp only [FirstHit, rayPt2_invTransform]

/-- **2-D `Cuboid::cast_ray`, solid**: first hit of the posed rectangle `{p : m⁻¹·p ∈ cuboid}` along the world ray, time in
units of the world direction (any length) -/
theorem cuboid2_posed_solid_firstHit (big : K) (s : Cuboid2 K) (m : Iso2 K) (ray : Ray2 K) (max : K)
    (hhe : 0 ≤ s.he.x ∧ 0 ≤ s.he.y) (hmax0 : 0 ≤ max) (hmaxb : max ≤ big) :
    letI := fieldNum K sq
    FirstHit (fun p => s.Mem (m.invAct p)) (rayPt2 sq ray) max (s.castRay big m ray max true) :=
  (firstHit_posed2 sq _ m ray max _).1
    (cuboid2_cast_solid_firstHit sq big s (@Ray2.invTransform K (fieldNum K sq) ray m) max hhe hmax0 hmaxb)

/-- **2-D `Ball::cast_ray`, solid** (unit complex rotation, non-zero world direction) -/
theorem ball2_posed_solid_firstHit (hs : LawfulSqrt sq) (b : Ball K) (m : Iso2 K) (ray : Ray2 K) (max : K)
    (hq : m.re * m.re + m.im * m.im = 1) :
    letI := fieldNum K sq
    0 < ray.d.normSq →
    FirstHit (fun p => b.Mem2 (m.invAct p)) (rayPt2 sq ray) max (b.castRay2 m ray max true) := by
  intro ha
  have hd : 0 < @V2.normSq K (fieldNum K sq) (@Ray2.invTransform K (fieldNum K sq) ray m).d := by
    have e : @V2.normSq K (fieldNum K sq) (@Ray2.invTransform K (fieldNum K sq) ray m).d =
        (m.re * m.re + m.im * m.im) * @V2.normSq K (fieldNum K sq) ray.d := by
      simp only [Ray2.invTransform, Iso2.invRot, V2.normSq, V2.dot]; ring
    rw [e, hq, one_mul]; exact ha
  exact (firstHit_posed2 sq _ m ray max _).1
    (ball2_cast_solid_firstHit sq hs b (@Ray2.invTransform K (fieldNum K sq) ray m) max hd)

/-- the posed normal forms report the time of the local normal forms on the inverse-transformed ray (default
`cast_ray_and_get_normal`; the normal is rotated back) -/
theorem posed2_normal_toi (big : K) (b : Ball K) (s : Cuboid2 K) (m : Iso2 K) (ray : Ray2 K) (max : K) (solid : Bool) :
    letI := fieldNum K sq
    (b.castRayAndGetNormal2 m ray max solid).map (·.toi) =
        (b.castLocalRayAndGetNormal2 (ray.invTransform m) max solid).map (·.toi) ∧
    (s.castRayAndGetNormal big m ray max solid).map (·.toi) =
        (s.castLocalRayAndGetNormal big (ray.invTransform m) max solid).map (·.toi) := by
  constructor
  · simp only [Ball.castRayAndGetNormal2, Option.map_map]; rfl
  · simp only [Cuboid2.castRayAndGetNormal, Option.map_map]; rfl

/-! ## 2-D ball: the normal (transferred from the 3-D theorem through the embedding `z = 0`) -/

/-- embedding of a 2-D hit -/
def embHit (h : Hit2 K) : Hit3 K := { toi := h.toi, n := emb3 h.n, fkind := h.fkind, fidx := h.fidx }

/-- **2-D `ray_toi_and_normal_with_ball` = the 3-D function on the embedded problem** (time, inside flag and normal; the
embedded normal has `z = 0`) -/
theorem ball2_normal_eq_embed (c : V2 K) (r : K) (ray : Ray2 K) (solid : Bool) :
    letI := fieldNum K sq
    (rayToiAndNormalWithBall2 c r ray solid).1 = (rayToiAndNormalWithBall (emb3 c) r (embRay ray) solid).1 ∧
    (rayToiAndNormalWithBall2 c r ray solid).2.map embHit = (rayToiAndNormalWithBall (emb3 c) r (embRay ray) solid).2 := by
  simp only [rayToiAndNormalWithBall2, rayToiAndNormalWithBall]
  rw [← ball2_toi_eq_embed]
  rcases @rayToiWithBall2 K (fieldNum K sq) c r ray solid with ⟨ins, inter⟩
  refine ⟨rfl, ?_⟩
  cases inter with
  | none => rfl
  | some t =>
    simp only [Option.map_some, embHit, Option.some.injEq]
    cases ins <;>
      simp only [embRay, emb3, V2.normalize, V3.normalize, V2.sdiv, V3.sdiv, V2.norm, V3.norm, V2.normSq, V3.normSq, V2.dot,
        V3.dot, V2.add, V3.add, V2.sub, V3.sub, V2.smul, V3.smul, V2.neg, V3.neg, zero_mul, mul_zero, add_zero, sub_self,
        zero_div, neg_zero, Bool.false_eq_true, if_false, if_true]

/-- **2-D ball normal** (transferred from `ball_normal_spec`): whenever the 2-D `ray_toi_and_normal_with_ball` reports a
hit that is not the "solid, origin inside, toi = 0" case, the normal is the unit radial vector at the hit point —
outward for an origin outside, inward for the exit of a non-solid cast — and faces the ray (`n·d ≤ 0`); the time is the one
of `ray_toi_with_ball`.  `r > 0`, any non-zero direction. -/
theorem ball2_normal_spec (hs : LawfulSqrt sq) (c : V2 K) (r : K) (ray : Ray2 K) (solid : Bool) :
    letI := fieldNum K sq
    0 < r → 0 < ray.d.normSq →
    ∀ h, (rayToiAndNormalWithBall2 c r ray solid).2 = some h →
      (rayToiWithBall2 c r ray solid).2 = some h.toi ∧
      (¬ ((rayToiWithBall2 c r ray solid).1 = true ∧ solid = true) →
        h.n.smul r = (if (rayToiWithBall2 c r ray solid).1 then ((rayPt2 sq ray h.toi).sub c).neg
                      else (rayPt2 sq ray h.toi).sub c) ∧
        h.n.normSq = 1 ∧ h.n.dot ray.d ≤ 0) := by
  intro hr ha h hh
  obtain ⟨_, e2⟩ := ball2_normal_eq_embed sq c r ray solid
  have ha3 : 0 < @V3.normSq K (fieldNum K sq) (embRay ray).d := by
    simp only [embRay, emb3, V3.normSq, V3.dot, mul_zero, add_zero]; exact ha
  have h3 : (@rayToiAndNormalWithBall K (fieldNum K sq) (emb3 c) r (embRay ray) solid).2 = some (embHit h) := by
    rw [← e2, hh]; rfl
  obtain ⟨s1, _, s3⟩ := ball_normal_spec sq hs (emb3 c) r (embRay ray) solid hr ha3 (embHit h) h3
  rw [← ball2_toi_eq_embed] at s1 s3
  refine ⟨s1, fun hn => ?_⟩
  obtain ⟨n1, n2, n3⟩ := s3 hn
  refine ⟨?_, ?_, ?_⟩
  · have hx := congrArg V3.x n1
    have hy := congrArg V3.y n1
    revert hx hy
    cases (@rayToiWithBall2 K (fieldNum K sq) c r ray solid).1 <;>
      simp only [embHit, emb3, embRay, rayPt, rayPt2, Ray3.pointAt, Ray2.pointAt, V3.smul, V3.add, V3.sub, V3.neg, V2.smul,
        V2.add, V2.sub, V2.neg, Bool.false_eq_true, if_false, if_true] <;>
      intro hx hy <;> congr 1
  · simpa only [embHit, emb3, V3.normSq, V2.normSq, V3.dot, V2.dot, mul_zero, add_zero] using n2
  · simpa only [embHit, emb3, embRay, V3.dot, V2.dot, mul_zero, add_zero] using n3

/-- non-vacuity (over `ℚ`, `sqrt` not needed for the box): the segment from `(3,0,0)` along `(-1,0,0)` up to `max = 2` meets
the unit cube (at `t = 2`), up to `max = 1` it does not; hypotheses `0 ≤ he`, `0 ≤ max ≤ big` hold -/
example : letI := fieldNum ℚ id
    (Cuboid3.mk (⟨1, 1, 1⟩ : V3 ℚ)).intersectsLocalRay 1000 ⟨⟨3, 0, 0⟩, ⟨-1, 0, 0⟩⟩ 2 = true ∧
    (Cuboid3.mk (⟨1, 1, 1⟩ : V3 ℚ)).intersectsLocalRay 1000 ⟨⟨3, 0, 0⟩, ⟨-1, 0, 0⟩⟩ 1 = false := by
  constructor <;> simp only [Cuboid3.intersectsLocalRay, Cuboid3.castLocalRay, Aabb.castLocalRay, slabStep, neq, V3.neg,
    fieldNum_nmin, fieldNum_nmax] <;> norm_num

end C04
