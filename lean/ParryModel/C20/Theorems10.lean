import ParryModel.C20.Lemmas
import ParryModel.C14.Model
import ParryModel.C20.Theorems9
set_option linter.style.haveILetI false
set_option linter.unusedSimpArgs false
set_option linter.unusedSectionVars false
set_option linter.unusedVariables false
/-!
# C20 definedness theorems, part 10: `clip_segment_segment_with_normal` (2-D) — total

The 2-D clipping helper behind `PolygonalFeature::face_face_contacts` / `contact_manifold_pfm_pfm` and the capsule–capsule
manifold divides, in each of its four branches, by the projected extent of one of the two segments on the tangent
`(-n.y, n.x)`.  Every one of these divisions goes through `utils::inv` (`0` at `0`), so — unlike its sibling
`clip_segment_segment` (`defined_clipSegmentSegment`, which needs two hypotheses and has the NaN witness
`clipSegmentSegment_perpendicular_nan`) — the function is defined for **every** finite input: zero-length segments, segments
parallel to the normal (zero extent on the tangent), a degenerate abscissa exactly on an end of the other range, a zero
normal.  Same shape as the other parts: `f (lift x) = lift (f x)`.
-/
namespace C20
open Model C14

variable {K : Type} [Field K] [LinearOrder K] [IsStrictOrderedRing K] (sq : K → K)

def liftClipPt (c : ClipPt K) : ClipPt (Opt K sq) := ⟨lift2 c.p1, lift2 c.p2⟩
def liftClipPtPair (r : ClipPt K × ClipPt K) : ClipPt (Opt K sq) × ClipPt (Opt K sq) := (liftClipPt sq r.1, liftClipPt sq r.2)

@[optsimp] private theorem liftClipPt_mk (a b : V2 K) :
    (⟨lift2 a, lift2 b⟩ : ClipPt (Opt K sq)) = liftClipPt sq ⟨a, b⟩ := id rfl

/-- **C20 (`utils::inv`)**: the guarded inverse is defined everywhere (`0` at `0`). -/
theorem defined_c14_inv0 (x : K) : letI := fieldNum K sq; (inv0 (val x) : Opt K sq) = val (inv0 x) := by
  letI := fieldNum K sq
  simp only [inv0, optsimp]
  opt_steps

/-- **C20 (lower clip point)**: both branches multiply by `inv0` of a range length — defined for every input, in
particular for `r11 = r10` and `r21 = r20` (zero extent on the tangent). -/
theorem defined_c14_clipLo (r10 r11 r20 r21 : K) (s10 s11 s20 s21 : V2 K) : letI := fieldNum K sq
    clipLo (val r10 : Opt K sq) (val r11) (val r20) (val r21) (lift2 s10) (lift2 s11) (lift2 s20) (lift2 s21)
      = liftClipPt sq (clipLo r10 r11 r20 r21 s10 s11 s20 s21) := by
  letI := fieldNum K sq
  simp only [clipLo, optsimp, defined_c14_inv0, apply_ite (liftClipPt sq)]

/-- **C20 (upper clip point)**: as `defined_c14_clipLo`. -/
theorem defined_c14_clipHi (r10 r11 r20 r21 : K) (s10 s11 s20 s21 : V2 K) : letI := fieldNum K sq
    clipHi (val r10 : Opt K sq) (val r11) (val r20) (val r21) (lift2 s10) (lift2 s11) (lift2 s20) (lift2 s21)
      = liftClipPt sq (clipHi r10 r11 r20 r21 s10 s11 s20 s21) := by
  letI := fieldNum K sq
  simp only [clipHi, optsimp, defined_c14_inv0, apply_ite (liftClipPt sq)]

theorem defined_c14_clipOrdered (r10 r11 r20 r21 : K) (s10 s11 s20 s21 : V2 K) : letI := fieldNum K sq
    clipOrdered (val r10 : Opt K sq) (val r11) (val r20) (val r21) (lift2 s10) (lift2 s11) (lift2 s20) (lift2 s21)
      = (clipOrdered r10 r11 r20 r21 s10 s11 s20 s21).map (liftClipPtPair sq) := by
  letI := fieldNum K sq
  simp only [clipOrdered, defined_c14_clipLo, defined_c14_clipHi, optsimp]
  split_ifs <;> rfl

/-- **C20 (`clip_segment_segment_with_normal`, 2-D)**: defined for EVERY finite pair of segments and every finite normal
(unit or not, zero included) — no hypothesis.  Zero-length segments and segments parallel to the normal have zero extent on
the tangent; the barycentric coordinate is then `(…) * inv(0) = 0`, never `0/0`. -/
theorem defined_c14_clipSegSegWithNormal (a1 b1 a2 b2 n : V2 K) : letI := fieldNum K sq
    clipSegSegWithNormal (lift2 a1 : V2 (Opt K sq)) (lift2 b1) (lift2 a2) (lift2 b2) (lift2 n)
      = (clipSegSegWithNormal a1 b1 a2 b2 n).map (liftClipPtPair sq) := by
  letI := fieldNum K sq
  simp only [clipSegSegWithNormal, optsimp, defined_c14_clipOrdered]
  split_ifs <;> rfl

/-! ## `ContactManifold::try_update_contacts_eps` and `find_deepest_contact` (warm-start route) — total -/

@[optsimp] private theorem liftMContact3_p1 (c : Contact3 K) : (liftMContact3 sq c).p1 = lift3 c.p1 := id rfl
@[optsimp] private theorem liftMContact3_p2 (c : Contact3 K) : (liftMContact3 sq c).p2 = lift3 c.p2 := id rfl
@[optsimp] private theorem liftMContact3_dist (c : Contact3 K) : (liftMContact3 sq c).dist = val c.dist := id rfl
@[optsimp] private theorem liftMContact2_p1 (c : Contact2 K) : (liftMContact2 sq c).p1 = lift2 c.p1 := id rfl
@[optsimp] private theorem liftMContact2_p2 (c : Contact2 K) : (liftMContact2 sq c).p2 = lift2 c.p2 := id rfl
@[optsimp] private theorem liftMContact2_dist (c : Contact2 K) : (liftMContact2 sq c).dist = val c.dist := id rfl

def liftBL3 (r : Bool × List (Contact3 K)) : Bool × List (Contact3 (Opt K sq)) := (r.1, r.2.map (liftMContact3 sq))
def liftBL2 (r : Bool × List (Contact2 K)) : Bool × List (Contact2 (Opt K sq)) := (r.1, r.2.map (liftMContact2 sq))
def liftBM3 (r : Bool × Manifold3 K) : Bool × Manifold3 (Opt K sq) := (r.1, liftManifold3 sq r.2)
def liftBM2 (r : Bool × Manifold2 K) : Bool × Manifold2 (Opt K sq) := (r.1, liftManifold2 sq r.2)

/-- **C20 (the point loop of `try_update_contacts_eps`, 3-D)**: products, sums, two comparisons per tracked contact — defined
for every finite pose (any quaternion), normal (unit or not, zero), threshold and list of tracked contacts. -/
theorem defined_c14_tucLoop3 (pos12 : Iso3 K) (n1 : V3 K) (dsq : K) (l : List (Contact3 K)) : letI := fieldNum K sq
    tucLoop3 (liftIso3 pos12 : Iso3 (Opt K sq)) (lift3 n1) (val dsq) (l.map (liftMContact3 sq))
      = liftBL3 sq (tucLoop3 pos12 n1 dsq l) := by
  letI := fieldNum K sq
  induction l with
  | nil => rfl
  | cons pt rest ih =>
    simp only [List.map_cons, tucLoop3, optsimp, ih]
    split_ifs <;> rfl

/-- **C20 (the point loop of `try_update_contacts_eps`, 2-D)** -/
theorem defined_c14_tucLoop2 (pos12 : Iso2 K) (n1 : V2 K) (dsq : K) (l : List (Contact2 K)) : letI := fieldNum K sq
    tucLoop2 (liftIso2 pos12 : Iso2 (Opt K sq)) (lift2 n1) (val dsq) (l.map (liftMContact2 sq))
      = liftBL2 sq (tucLoop2 pos12 n1 dsq l) := by
  letI := fieldNum K sq
  induction l with
  | nil => rfl
  | cons pt rest ih =>
    simp only [List.map_cons, tucLoop2, optsimp, ih]
    split_ifs <;> rfl

/-- **C20 (`ContactManifold::try_update_contacts_eps`, 3-D and 2-D)**: defined for EVERY finite relative pose, manifold
(empty, zero normals, zero distances) and pair of thresholds — the warm-start route of every manifold generator never produces
a NaN from finite data. -/
theorem defined_c14_tuc (pos12 : Iso3 K) (m : Manifold3 K) (pos12' : Iso2 K) (m' : Manifold2 K) (thr dsq : K) :
    letI := fieldNum K sq
    tuc3 (liftIso3 pos12 : Iso3 (Opt K sq)) (liftManifold3 sq m) (val thr) (val dsq) = liftBM3 sq (tuc3 pos12 m thr dsq) ∧
    tuc2 (liftIso2 pos12' : Iso2 (Opt K sq)) (liftManifold2 sq m') (val thr) (val dsq) = liftBM2 sq (tuc2 pos12' m' thr dsq) := by
  letI := fieldNum K sq
  refine ⟨?_, ?_⟩
  · obtain ⟨pts, n1, n2⟩ := m
    have e : liftManifold3 sq ⟨pts, n1, n2⟩ = ⟨pts.map (liftMContact3 sq), lift3 n1, lift3 n2⟩ := rfl
    rw [e]
    simp only [tuc3, List.isEmpty_map, liftIso3_rot, lift3_dot, val_neg, val_lt, defined_c14_tucLoop3]
    split_ifs <;> rfl
  · obtain ⟨pts, n1, n2⟩ := m'
    have e : liftManifold2 sq ⟨pts, n1, n2⟩ = ⟨pts.map (liftMContact2 sq), lift2 n1, lift2 n2⟩ := rfl
    rw [e]
    simp only [tuc2, List.isEmpty_map, liftIso2_rot, lift2_dot, val_neg, val_lt, defined_c14_tucLoop2]
    split_ifs <;> rfl

private theorem deepestGo_lift (best : Nat) (bestD : K) (i : Nat) (l : List K) : letI := fieldNum K sq
    deepestGo best (val bestD : Opt K sq) i (l.map val) = deepestGo best bestD i l := by
  letI := fieldNum K sq
  induction l generalizing best bestD i with
  | nil => rfl
  | cons d ds ih =>
    simp only [List.map_cons, deepestGo, optsimp]
    split_ifs <;> exact ih _ _ _

/-- **C20 (`find_deepest_contact`)**: comparisons only — the index chosen on finite distances is the one of the exact
evaluation (ties: the first). -/
theorem defined_c14_deepest (l : List K) : letI := fieldNum K sq
    deepest (l.map (val : K → Opt K sq)) = deepest l := by
  letI := fieldNum K sq
  cases l with
  | nil => rfl
  | cons d ds =>
    simp only [List.map_cons, deepest]
    exact congrArg some (deepestGo_lift sq 0 d 0 (d :: ds))

/-! ## 2-D capsule–capsule manifold (`contact_manifold_capsule_capsule`) -/

def liftPairKK (r : K × K) : Opt K sq × Opt K sq := (val r.1, val r.2)
@[optsimp] private theorem liftPairKK_mk (a b : K) : ((val a, val b) : Opt K sq × Opt K sq) = liftPairKK sq (a, b) := id rfl
@[optsimp] private theorem liftPairKK_1 (r : K × K) : (liftPairKK sq r).1 = val r.1 := id rfl
@[optsimp] private theorem liftPairKK_2 (r : K × K) : (liftPairKK sq r).2 = val r.2 := id rfl

/-- the `ulps_eq!` test is a parameter of the C14 model; the NaN-propagating one must agree with the exact one on finite values -/
def UlpsAgree (uo : Opt K sq → Opt K sq → Bool) (u : K → K → Bool) : Prop := ∀ x y, uo (val x) (val y) = u x y

/-- **C20 (`na::clamp(x, 0, 1)`)** -/
theorem defined_c14_clamp01 (x : K) : letI := fieldNum K sq; (clamp01 (val x) : Opt K sq) = val (clamp01 x) := by
  letI := fieldNum K sq
  simp only [clamp01, optsimp]
  split_ifs <;> rfl

private theorem eps_pos : (0 : K) < ((mkRat 1 4503599627370496 : ℚ) : K) := lit_pos 1 _ (by norm_num) (by norm_num)

/-- **C20 (segment–segment closest parameters, 2-D manifold copy)**: every division is by a squared length or a Gram
determinant that the enclosing branch has just found `> EPSILON` — defined for zero-length, parallel, identical and crossing
segments. -/
theorem defined_c14_segSegParams2 (uo : Opt K sq → Opt K sq → Bool) (u : K → K → Bool) (hu : UlpsAgree sq uo u)
    (a1 b1 a2 b2 : V2 K) : letI := fieldNum K sq
    segSegParams2 uo (lift2 a1 : V2 (Opt K sq)) (lift2 b1) (lift2 a2) (lift2 b2)
      = liftPairKK sq (segSegParams2 u a1 b1 a2 b2) := by
  letI := fieldNum K sq
  have he := eps_pos (K := K)
  simp only [segSegParams2, epsilon, optsimp, fieldNum_lit, defined_c14_clamp01]
  generalize (b1.sub a1).normSq = a
  generalize (b2.sub a2).normSq = e
  generalize (b2.sub a2).dot (a1.sub a2) = f
  generalize (b1.sub a1).dot (a1.sub a2) = c
  generalize (b1.sub a1).dot (b2.sub a2) = b
  generalize ((mkRat 1 4503599627370496 : ℚ) : K) = eps at he
  by_cases h1 : a ≤ eps
  · by_cases h2 : e ≤ eps
    · simp only [h1, h2, and_self, if_true]
    · have e0 : e ≠ 0 := by intro h; rw [h] at h2; exact h2 he.le
      simp only [h1, h2, and_false, if_false, if_true, if_neg e0, optsimp, defined_c14_clamp01] <;> try rfl
  · have a0 : a ≠ 0 := by intro h; rw [h] at h1; exact h1 he.le
    by_cases h2 : e ≤ eps
    · simp only [h1, h2, false_and, if_false, if_true, if_neg a0, optsimp, defined_c14_clamp01] <;> try rfl
    · have e0 : e ≠ 0 := by intro h; rw [h] at h2; exact h2 he.le
      simp only [h1, h2, false_and, if_false, if_neg a0, if_neg e0, optsimp, defined_c14_clamp01, hu _ _]
      by_cases h3 : eps < a * e - b * b
      · have d0 : a * e - b * b ≠ 0 := by intro h; rw [h] at h3; exact absurd h3 (not_lt.mpr he.le)
        cases hb : u (a * e) (b * b) <;>
          simp only [h3, hb, true_and, and_true, and_false, Bool.not_false, Bool.not_true, if_true, if_false, if_neg d0, if_neg e0,
            if_neg a0, optsimp, defined_c14_clamp01, Bool.false_eq_true, reduceCtorEq] <;>
          try (split_ifs <;> rfl)
      · cases hb : u (a * e) (b * b) <;>
          simp only [h3, hb, false_and, and_false, Bool.not_false, Bool.not_true, if_true, if_false, if_neg e0,
            if_neg a0, optsimp, defined_c14_clamp01, Bool.false_eq_true, reduceCtorEq] <;>
          try (split_ifs <;> rfl)

/-- **C20 (`SegmentPointLocation::barycentric_coordinates`)** -/
theorem defined_c14_bcoords (x : K) : letI := fieldNum K sq; (bcoords (val x) : Opt K sq × Opt K sq) = liftPairKK sq (bcoords x) := by
  letI := fieldNum K sq
  simp only [bcoords, optsimp, apply_ite (liftPairKK sq)]

/-- **C20 (`a * bc[0] + b * bc[1]`)** -/
theorem defined_c14_baryPoint2 (a b : V2 K) (bc : K × K) : letI := fieldNum K sq
    baryPoint2 (lift2 a : V2 (Opt K sq)) (lift2 b) (liftPairKK sq bc) = lift2 (baryPoint2 a b bc) := by
  letI := fieldNum K sq
  simp only [baryPoint2, optsimp]

/-- **C20 (`Unit::try_new(v, min_norm)`)**: `v / sqrt |v|²` only when `|v|² > min_norm²`; defined for every vector at
which the square-root operation does not vanish above that threshold. -/
theorem defined_c14_tryNew2 {θ : K} (hs : SqrtPos sq θ) (v : V2 K) (mn : K) (hθ : θ ≤ mn * mn) : letI := fieldNum K sq
    tryNew2 (lift2 v : V2 (Opt K sq)) (val mn) = (tryNew2 v mn).map lift2 := by
  letI := fieldNum K sq
  simp only [tryNew2, optsimp]
  by_cases h : mn * mn < v.normSq
  · have hn : sq v.normSq ≠ 0 := hs.ne (lt_of_le_of_lt hθ h)
    have hnn : ¬ v.normSq < 0 := not_lt.mpr (normSq2_nonneg (sq := sq) v)
    simp only [if_pos h, if_neg hnn, if_neg hn, optsimp]
  · simp only [if_neg h, optsimp]

def liftVVV2 (r : V2 K × V2 K × V2 K) : V2 (Opt K sq) × V2 (Opt K sq) × V2 (Opt K sq) := (lift2 r.1, lift2 r.2.1, lift2 r.2.2)

/-- **C20 (closest axis points and normal of the 2-D capsule–capsule manifold)**: `try_new(p2 − p1, EPSILON)` else `+y` —
defined for crossing / touching axes (`p1 = p2`), zero-length axes, identical capsules. -/
theorem defined_c14_capsuleAxisPoints2 {θ : K} (hs : SqrtPos sq θ)
    (hθ : letI := fieldNum K sq; θ ≤ (epsilon : K) * epsilon)
    (uo : Opt K sq → Opt K sq → Bool) (u : K → K → Bool) (hu : UlpsAgree sq uo u) (a1 b1 a2 b2 : V2 K) :
    letI := fieldNum K sq
    capsuleAxisPoints2 uo (lift2 a1 : V2 (Opt K sq)) (lift2 b1) (lift2 a2) (lift2 b2)
      = liftVVV2 sq (capsuleAxisPoints2 u a1 b1 a2 b2) := by
  letI := fieldNum K sq
  have he : (epsilon : Opt K sq) = val (epsilon : K) := rfl
  simp only [capsuleAxisPoints2, defined_c14_segSegParams2 sq uo u hu, optsimp, defined_c14_bcoords, defined_c14_baryPoint2, he,
    defined_c14_tryNew2 sq hs _ _ hθ]
  cases tryNew2 ((baryPoint2 a2 b2 (bcoords (segSegParams2 u a1 b1 a2 b2).2)).sub
      (baryPoint2 a1 b1 (bcoords (segSegParams2 u a1 b1 a2 b2).1))) epsilon <;> rfl

private theorem map_ite' {α β : Type} (f : α → β) {c : Prop} {inst : Decidable c} (x y : α) :
    f (@ite α c inst x y) = @ite β c inst (f x) (f y) := by split_ifs <;> rfl

/-- **C20 (second contact of the 2-D capsule–capsule manifold)**: two `try_new(·, EPSILON)`, two dot-product tests against
`cos/sin(π/8)`, then `clip_segment_segment_with_normal` (total) — defined for every input; zero-length axes give no second
contact. -/
theorem defined_c14_secondContact2 {θ : K} (hs : SqrtPos sq θ)
    (hθ : letI := fieldNum K sq; θ ≤ (epsilon : K) * epsilon)
    (pos12 : Iso2 K) (a1 b1 a2 b2 lp1 n1 : V2 K) : letI := fieldNum K sq
    secondContact2 (liftIso2 pos12 : Iso2 (Opt K sq)) (lift2 a1) (lift2 b1) (lift2 a2) (lift2 b2) (lift2 lp1) (lift2 n1)
      = (secondContact2 pos12 a1 b1 a2 b2 lp1 n1).map (liftMContact2 sq) := by
  letI := fieldNum K sq
  have he : (epsilon : Opt K sq) = val (epsilon : K) := rfl
  have hcos : (cosFracPi8 : Opt K sq) = val (cosFracPi8 : K) := rfl
  have hsin : (sinFracPi8 : Opt K sq) = val (sinFracPi8 : K) := rfl
  simp only [secondContact2, optsimp, he, defined_c14_tryNew2 sq hs _ _ hθ, defined_c14_clipSegSegWithNormal]
  cases tryNew2 (b1.sub a1) epsilon with
  | none => rfl
  | some d1 =>
    cases tryNew2 (b2.sub a2) epsilon with
    | none => rfl
    | some d2 =>
      simp only [Option.map_some, hcos, hsin, optsimp]
      cases clipSegSegWithNormal a1 b1 a2 b2 n1 with
      | none => simp only [Option.map_none, map_ite' (List.map (liftMContact2 sq)), ite_self, List.map_nil]
      | some r =>
        obtain ⟨ca, cb⟩ := r
        have e1 : liftClipPtPair sq (ca, cb) = (liftClipPt sq ca, liftClipPt sq cb) := rfl
        have e2 : (liftClipPt sq ca).p1 = lift2 ca.p1 := rfl
        have e3 : (liftClipPt sq ca).p2 = lift2 ca.p2 := rfl
        have e4 : (liftClipPt sq cb).p1 = lift2 cb.p1 := rfl
        have e5 : (liftClipPt sq cb).p2 = lift2 cb.p2 := rfl
        simp only [Option.map_some, e1, e2, e3, e4, e5, optsimp, map_ite' (List.map (liftMContact2 sq)), List.map_nil]
        opt_tree

/-- **C20 (`local_p1 += n1 * r1; local_p2 += n2 * r2; dist -= r1 + r2`)** -/
theorem defined_c14_applyRadii2 (n1 n2 : V2 K) (r1 r2 : K) (c : Contact2 K) : letI := fieldNum K sq
    applyRadii2 (lift2 n1 : V2 (Opt K sq)) (lift2 n2) (val r1) (val r2) (liftMContact2 sq c)
      = liftMContact2 sq (applyRadii2 n1 n2 r1 r2 c) := by
  letI := fieldNum K sq
  simp only [applyRadii2, optsimp]

/-- **C20 (`contact_manifold_capsule_capsule`, 2-D)**: the whole generator is defined for EVERY pair of finite capsules —
zero-length axes (a capsule that is a disc), coincident / crossing / parallel / identical axes, zero radii, any relative pose
and prediction — given only that the square-root operation does not vanish above `EPSILON²` (`θ = 0` for a lawful root). -/
theorem defined_c14_capsuleCapsule2 {θ : K} (hs : SqrtPos sq θ)
    (hθ : letI := fieldNum K sq; θ ≤ (epsilon : K) * epsilon)
    (uo : Opt K sq → Opt K sq → Bool) (u : K → K → Bool) (hu : UlpsAgree sq uo u)
    (pos12 : Iso2 K) (a1 b1 : V2 K) (r1 : K) (a2 b2 : V2 K) (r2 pred : K) (m : Manifold2 K) : letI := fieldNum K sq
    capsuleCapsule2 uo (liftIso2 pos12 : Iso2 (Opt K sq)) (lift2 a1) (lift2 b1) (val r1) (lift2 a2) (lift2 b2) (val r2) (val pred)
        (liftManifold2 sq m)
      = liftManifold2 sq (capsuleCapsule2 u pos12 a1 b1 r1 a2 b2 r2 pred m) := by
  letI := fieldNum K sq
  have e1 : ∀ r : V2 K × V2 K × V2 K, (liftVVV2 sq r).1 = lift2 r.1 := fun _ => rfl
  have e2 : ∀ r : V2 K × V2 K × V2 K, (liftVVV2 sq r).2.1 = lift2 r.2.1 := fun _ => rfl
  have e3 : ∀ r : V2 K × V2 K × V2 K, (liftVVV2 sq r).2.2 = lift2 r.2.2 := fun _ => rfl
  have hm : ∀ (l : List (Contact2 K)) (n1 n2 : V2 K),
      List.map (applyRadii2 (lift2 n1 : V2 (Opt K sq)) (lift2 n2) (val r1) (val r2)) (l.map (liftMContact2 sq))
        = (l.map (applyRadii2 n1 n2 r1 r2)).map (liftMContact2 sq) := by
    intro l n1 n2
    rw [List.map_map, List.map_map]
    exact List.map_congr_left fun c _ => defined_c14_applyRadii2 sq n1 n2 r1 r2 c
  simp only [capsuleCapsule2, optsimp, defined_c14_capsuleAxisPoints2 sq hs hθ uo u hu, e1, e2, e3,
    defined_c14_secondContact2 sq hs hθ]
  rw [map_ite' (liftManifold2 sq)]
  refine ite_congr' (fun _ => ?_) (fun _ => ?_)
  · have hc : ∀ (c : Contact2 K) (l : List (Contact2 K)),
        (liftMContact2 sq c :: l.map (liftMContact2 sq)) = (c :: l).map (liftMContact2 sq) := fun _ _ => rfl
    rw [hc, hm]; rfl
  · rfl

/-- non-vacuity of the hypotheses of `defined_c14_capsuleCapsule2` / `defined_c14_secondContact2` /
`defined_c14_capsuleAxisPoints2`: over `ℚ` with the (positive on positives) operation `sq x = x`, threshold `θ = 0`, and the
exact-equality `ulps` test on both sides. -/
example : SqrtPos (fun x : ℚ => x) 0 ∧
    (letI := fieldNum ℚ (fun x : ℚ => x); (0 : ℚ) ≤ (epsilon : ℚ) * epsilon) ∧
    UlpsAgree (K := ℚ) (fun x : ℚ => x)
      (fun a b => match a, b with | some x, some y => decide (x = y) | _, _ => false) (fun x y => decide (x = y)) :=
  ⟨fun _ h => h, mul_self_nonneg _, fun _ _ => rfl⟩

end C20
