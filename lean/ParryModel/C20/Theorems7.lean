import ParryModel.C20.Lemmas
import ParryModel.C20.Theorems2
import ParryModel.C20.Theorems3
import ParryModel.C20.Model
import Mathlib.Tactic.Order
set_option linter.style.haveILetI false
set_option linter.unusedSimpArgs false
set_option linter.unusedSectionVars false
set_option linter.unusedVariables false
/-!
# C20 definedness theorems, part 7: the patched triangle projection is defined for EVERY finite triangle

`C20/Model.lean` holds the patched form (`fixes/C20-triangle-coincident-vertices-nan.diff`) of
`Triangle::project_local_point_and_get_location`: the closest edge of the `solid = false` fallback is selected with
`f64::min`, which ignores the NaN distance of a zero-length edge.  Proved here:
* `tri{2,3}_projectLocFixed_eq` — in exact arithmetic (every ordered field) the patched function **is** the original one
  (the patch changes no result on inputs where the original is NaN-free; on the real crates the unchanged C05 model still
  agrees bit for bit with the patched code on the 14.7k generated C05 cases);
* `defined_tri{2,3}_projectLocFixed_all` — at the NaN-propagating scalars the patched function returns finite floats for
  **every** finite triangle — flat, with two coincident vertices, or reduced to a point — every point and both flags,
  although the quotient of a zero-length edge is still `0/0` internally (a dead NaN: `closestEdgeFixed_opt`);
* `tri_coincident_bc_fixed_finite` — the witness input of `tri2_coincident_bc_nan` now projects to `(1, 0)`.
-/
namespace C20
open Model
variable {K : Type} [Field K] [LinearOrder K] [IsStrictOrderedRing K] (sq : K → K)

/-- in exact arithmetic the patched selection is the original cascade -/
theorem closestEdgeFixed_eq_cascade {α : Type} (d_ab d_ac d_bc : K) (rab rac rbc : α) :
    letI := fieldNum K sq
    closestEdgeFixed d_ab d_ac d_bc rab rac rbc
      = (if d_ab < d_ac then (if d_ab < d_bc then rab else rbc) else if d_ac < d_bc then rac else rbc) := by
  letI := fieldNum K sq
  simp only [closestEdgeFixed, fmin, neq_true_eq, le_refl, if_true]
  split_ifs <;> first | rfl | (exfalso; linarith) | (exfalso; order)


/-- a finite (non-NaN) scalar -/
def IsFin (x : Opt K sq) : Prop := ∃ a : K, x = val a

/-- `f64::min` at the NaN-propagating scalars: a NaN operand is ignored -/
private theorem fmin_nan_left (b : Opt K sq) : fmin (nan : Opt K sq) b = b := by
  simp only [fmin, nan_le, if_false]
private theorem fmin_val_nan (a : K) : fmin (val a : Opt K sq) nan = val a := by
  simp only [fmin, val_le, le_refl, if_true, nan_lt, if_false]
private theorem fmin_val_val (a b : K) : fmin (val a : Opt K sq) (val b) = val (min a b) := by
  simp only [fmin, val_le, le_refl, if_true, val_lt]
  split_ifs with h
  · rw [min_eq_right h.le]
  · rw [min_eq_left (not_lt.mp h)]
private theorem neq_nan_left (x : Opt K sq) : neq (nan : Opt K sq) x = false := by
  simp only [neq, nan_le, decide_false, Bool.false_and]
private theorem neq_nan_right (x : Opt K sq) : neq x (nan : Opt K sq) = false := by
  simp only [neq, le_nan, decide_false, Bool.false_and]
private theorem neq_val_val (a b : K) : (neq (val a : Opt K sq) (val b) = true) = (a = b) := by
  rw [val_neq, neq_true_eq]

/-- **selection lemma**: whatever the three distances (NaN or not), provided one is finite, the patched selection returns a
candidate whose own distance is finite — so any property `P` that holds for the candidates with a finite distance holds
for the result. -/
theorem closestEdgeFixed_opt {α : Type} (P : α → Prop) (da db dc : Opt K sq) (ra rb rc : α)
    (ha : IsFin sq da → P ra) (hb : IsFin sq db → P rb) (hc : IsFin sq dc → P rc)
    (hne : IsFin sq da ∨ IsFin sq db ∨ IsFin sq dc) : P (closestEdgeFixed da db dc ra rb rc) := by
  have nf : ¬ IsFin sq (nan : Opt K sq) := fun ⟨a, h⟩ => by cases h
  have fv : ∀ a : K, IsFin sq (val a : Opt K sq) := fun a => ⟨a, rfl⟩
  rcases da with _ | x <;> rcases db with _ | y <;> rcases dc with _ | z
  · exact absurd hne (by simp [nf])
  · show P (closestEdgeFixed nan nan (val z) ra rb rc)
    simp only [closestEdgeFixed, fmin_nan_left, neq_val_val, if_true]; exact hc (fv z)
  · show P (closestEdgeFixed nan (val y) nan ra rb rc)
    simp only [closestEdgeFixed, fmin_nan_left, fmin_val_nan, neq_nan_left, neq_val_val, if_true,
      Bool.false_eq_true, if_false]; exact hb (fv y)
  · show P (closestEdgeFixed nan (val y) (val z) ra rb rc)
    simp only [closestEdgeFixed, fmin_nan_left, fmin_val_val, neq_val_val]
    split_ifs with h1 h2
    · exact hc (fv z)
    · exact hb (fv y)
    · exfalso; rcases min_choice y z with h | h <;> [exact h2 h.symm; exact h1 h.symm]
  · show P (closestEdgeFixed (val x) nan nan ra rb rc)
    simp only [closestEdgeFixed, fmin_val_nan, neq_nan_left, Bool.false_eq_true, if_false]; exact ha (fv x)
  · show P (closestEdgeFixed (val x) nan (val z) ra rb rc)
    simp only [closestEdgeFixed, fmin_val_nan, fmin_val_val, neq_nan_left, neq_val_val, Bool.false_eq_true, if_false]
    split_ifs with h1
    · exact hc (fv z)
    · exact ha (fv x)
  · show P (closestEdgeFixed (val x) (val y) nan ra rb rc)
    simp only [closestEdgeFixed, fmin_val_nan, fmin_val_val, neq_nan_left, neq_val_val, Bool.false_eq_true, if_false]
    split_ifs with h1
    · exact hb (fv y)
    · exact ha (fv x)
  · show P (closestEdgeFixed (val x) (val y) (val z) ra rb rc)
    simp only [closestEdgeFixed, fmin_val_val, neq_val_val]
    split_ifs
    · exact hc (fv z)
    · exact hb (fv y)
    · exact ha (fv x)

/-- "is the injection of a finite result" -/
def ExLift2 (x : PP2 (Opt K sq) × TriLoc (Opt K sq)) : Prop := ∃ r, x = liftPL2 sq r

/-- **C20 (Triangle::project_local_point_and_get_location, 2-D, patched)**: for EVERY finite triangle (no hypothesis:
coincident vertices, collinear vertices, a single point), every point and both flags, each float of the result — the
projection and the barycentric coordinates of the location — is finite.  In the edge branches the divisor `|e|²` is
non-zero because the branch test `n·perp(e, ·) < 0` fails for a zero edge; in the closest-edge fallback a zero-length edge has
a NaN distance which `f64::min` ignores, and at least one of `ab`, `ac` has positive length because the vertex-`a` test failed. -/
theorem defined_tri2_projectLocFixed_all (s : Triangle2 K) (p : V2 K) (solid : Bool) :
    ∃ r, (liftTri2 sq s).projectLocFixed (lift2 p) solid = liftPL2 sq r := by
  letI := fieldNum K sq
  have e1 : (s.b.sub s.a).dot (p.sub s.a) - (s.b.sub s.a).dot (p.sub s.b) = (s.b.sub s.a).normSq := by
    simp only [V2.dot, V2.sub, V2.normSq]; ring
  have e2 : (s.c.sub s.a).dot (p.sub s.a) - (s.c.sub s.a).dot (p.sub s.c) = (s.c.sub s.a).normSq := by
    simp only [V2.dot, V2.sub, V2.normSq]; ring
  have e3 : (s.c.sub s.a).dot (p.sub s.b) - (s.b.sub s.a).dot (p.sub s.b) + (s.b.sub s.a).dot (p.sub s.c)
      - (s.c.sub s.a).dot (p.sub s.c) = (s.c.sub s.b).normSq := by
    simp only [V2.dot, V2.sub, V2.normSq]; ring
  have f1 : (s.b.sub s.a).normSq = 0 → (s.b.sub s.a).perp (p.sub s.a) = 0 := by
    intro h; obtain ⟨hx, hy⟩ := normSq2_eq_zero (sq := sq) _ h; simp only [V2.perp, hx, hy]; ring
  have f2 : (s.c.sub s.a).normSq = 0 → (s.c.sub s.a).perp (p.sub s.c) = 0 := by
    intro h; obtain ⟨hx, hy⟩ := normSq2_eq_zero (sq := sq) _ h; simp only [V2.perp, hx, hy]; ring
  have f3 : (s.c.sub s.b).normSq = 0 → (s.c.sub s.b).perp (p.sub s.b) = 0 := by
    intro h; obtain ⟨hx, hy⟩ := normSq2_eq_zero (sq := sq) _ h; simp only [V2.perp, hx, hy]; ring
  have g1 : (s.b.sub s.a).normSq = 0 → (s.b.sub s.a).dot (p.sub s.a) = 0 := by
    intro h; obtain ⟨hx, hy⟩ := normSq2_eq_zero (sq := sq) _ h; simp only [V2.dot, hx, hy]; ring
  have g2 : (s.c.sub s.a).normSq = 0 → (s.c.sub s.a).dot (p.sub s.a) = 0 := by
    intro h; obtain ⟨hx, hy⟩ := normSq2_eq_zero (sq := sq) _ h; simp only [V2.dot, hx, hy]; ring
  simp only [Triangle2.projectLocFixed, liftTri2, optsimp]
  generalize (s.b.sub s.a).dot (p.sub s.a) = ab_ap at *
  generalize (s.b.sub s.a).dot (p.sub s.b) = ab_bp at *
  generalize (s.b.sub s.a).dot (p.sub s.c) = ab_cp at *
  generalize (s.c.sub s.a).dot (p.sub s.a) = ac_ap at *
  generalize (s.c.sub s.a).dot (p.sub s.b) = ac_bp at *
  generalize (s.c.sub s.a).dot (p.sub s.c) = ac_cp at *
  generalize (s.b.sub s.a).normSq = nab at *
  generalize (s.c.sub s.a).normSq = nac at *
  generalize (s.c.sub s.b).normSq = nbc at *
  generalize (s.b.sub s.a).perp (s.c.sub s.a) = n at *
  generalize (s.b.sub s.a).perp (p.sub s.a) = pab at *
  generalize (s.c.sub s.a).perp (p.sub s.c) = pac at *
  generalize (s.c.sub s.b).perp (p.sub s.b) = pbc at *
  generalize (s.c.sub s.b).dot (p.sub s.b) = bc_bp at *
  generalize (p.sub s.a).normSq = nap at *
  generalize (p.sub s.b).normSq = nbp at *
  generalize s.b.sub s.a = ab at *
  generalize s.c.sub s.a = ac at *
  generalize s.c.sub s.b = bc at *
  rw [e1, e2, e3]
  have nf : ¬ IsFin sq (nan : Opt K sq) := fun ⟨a, h⟩ => by cases h
  show ExLift2 sq _
  by_cases c1 : ab_ap ≤ 0 ∧ ac_ap ≤ 0
  · rw [if_pos c1]; exact ⟨(_, TriLoc.vertex 0), rfl⟩
  rw [if_neg c1]
  by_cases c2 : 0 ≤ ab_bp ∧ ac_bp ≤ ab_bp
  · rw [if_pos c2]; exact ⟨(_, TriLoc.vertex 1), rfl⟩
  rw [if_neg c2]
  by_cases c3 : 0 ≤ ac_cp ∧ ab_cp ≤ ac_cp
  · rw [if_pos c3]; exact ⟨(_, TriLoc.vertex 2), rfl⟩
  rw [if_neg c3]
  by_cases c4 : n * pab < 0 ∧ 0 ≤ ab_ap ∧ ab_bp ≤ 0
  · rw [if_pos c4]
    have hn : nab ≠ 0 := fun h => by rw [f1 h, mul_zero] at c4; exact lt_irrefl _ c4.1
    simp only [if_neg hn, optsimp]
    exact ⟨(_, TriLoc.edge 0 _ _), rfl⟩
  rw [if_neg c4]
  by_cases c5 : -n * pac < 0 ∧ 0 ≤ ac_ap ∧ ac_cp ≤ 0
  · rw [if_pos c5]
    have hn : nac ≠ 0 := fun h => by rw [f2 h, mul_zero] at c5; exact lt_irrefl _ c5.1
    simp only [if_neg hn, optsimp]
    exact ⟨(_, TriLoc.edge 2 _ _), rfl⟩
  rw [if_neg c5]
  by_cases c6 : n * pbc < 0 ∧ 0 ≤ ac_bp - ab_bp ∧ 0 ≤ ab_cp - ac_cp
  · rw [if_pos c6]
    have hn : nbc ≠ 0 := fun h => by rw [f3 h, mul_zero] at c6; exact lt_irrefl _ c6.1
    simp only [if_neg hn, optsimp]
    exact ⟨(_, TriLoc.edge 1 _ _), rfl⟩
  rw [if_neg c6]
  by_cases hs : solid = true
  · rw [if_pos hs]; exact ⟨(_, TriLoc.solid), rfl⟩
  rw [if_neg hs]
  apply closestEdgeFixed_opt sq (ExLift2 sq)
  · intro hfin
    by_cases h : nab = 0
    · exfalso; simp only [if_pos h, optsimp] at hfin; exact nf hfin
    · simp only [if_neg h, optsimp]; exact ⟨(_, TriLoc.edge 0 _ _), rfl⟩
  · intro hfin
    by_cases h : nac = 0
    · exfalso; simp only [if_pos h, optsimp] at hfin; exact nf hfin
    · simp only [if_neg h, optsimp]; exact ⟨(_, TriLoc.edge 2 _ _), rfl⟩
  · intro hfin
    by_cases h : nbc = 0
    · exfalso; simp only [if_pos h, optsimp] at hfin; exact nf hfin
    · simp only [if_neg h, optsimp]; exact ⟨(_, TriLoc.edge 1 _ _), rfl⟩
  · by_cases h : nab = 0
    · by_cases h' : nac = 0
      · exact absurd ⟨(g1 h).le, (g2 h').le⟩ c1
      · right; left; simp only [if_neg h', optsimp]; exact ⟨_, rfl⟩
    · left; simp only [if_neg h, optsimp]; exact ⟨_, rfl⟩

def ExLift3 (x : PP3 (Opt K sq) × TriLoc (Opt K sq)) : Prop := ∃ r, x = liftPL3 sq r

/-- **C20 (Triangle::project_local_point_and_get_location, 3-D, patched)**: as in 2-D, for EVERY finite triangle; the face branch
divides by `va + vb + vc` only after testing it non-zero. -/
theorem defined_tri3_projectLocFixed_all (s : Triangle3 K) (p : V3 K) (solid : Bool) :
    ∃ r, (liftTri3 sq s).projectLocFixed (lift3 p) solid = liftPL3 sq r := by
  letI := fieldNum K sq
  have e1 : (s.b.sub s.a).dot (p.sub s.a) - (s.b.sub s.a).dot (p.sub s.b) = (s.b.sub s.a).normSq := by
    simp only [V3.dot, V3.sub, V3.normSq]; ring
  have e2 : (s.c.sub s.a).dot (p.sub s.a) - (s.c.sub s.a).dot (p.sub s.c) = (s.c.sub s.a).normSq := by
    simp only [V3.dot, V3.sub, V3.normSq]; ring
  have e3 : (s.c.sub s.a).dot (p.sub s.b) - (s.b.sub s.a).dot (p.sub s.b) + (s.b.sub s.a).dot (p.sub s.c)
      - (s.c.sub s.a).dot (p.sub s.c) = (s.c.sub s.b).normSq := by
    simp only [V3.dot, V3.sub, V3.normSq]; ring
  have f1 : (s.b.sub s.a).normSq = 0 →
      ((s.b.sub s.a).cross (s.c.sub s.a)).dot ((s.b.sub s.a).cross (p.sub s.a)) = 0 := by
    intro h; obtain ⟨hx, hy, hz⟩ := normSq3_eq_zero (sq := sq) _ h; simp only [V3.dot, V3.cross, hx, hy, hz]; ring
  have f2 : (s.c.sub s.a).normSq = 0 →
      ((s.b.sub s.a).cross (s.c.sub s.a)).dot ((s.c.sub s.a).cross (p.sub s.c)) = 0 := by
    intro h; obtain ⟨hx, hy, hz⟩ := normSq3_eq_zero (sq := sq) _ h; simp only [V3.dot, V3.cross, hx, hy, hz]; ring
  have f3 : (s.c.sub s.b).normSq = 0 →
      ((s.b.sub s.a).cross (s.c.sub s.a)).dot ((s.c.sub s.b).cross (p.sub s.b)) = 0 := by
    intro h; obtain ⟨hx, hy, hz⟩ := normSq3_eq_zero (sq := sq) _ h; simp only [V3.dot, V3.cross, hx, hy, hz]; ring
  have g1 : (s.b.sub s.a).normSq = 0 → (s.b.sub s.a).dot (p.sub s.a) = 0 := by
    intro h; obtain ⟨hx, hy, hz⟩ := normSq3_eq_zero (sq := sq) _ h; simp only [V3.dot, hx, hy, hz]; ring
  have g2 : (s.c.sub s.a).normSq = 0 → (s.c.sub s.a).dot (p.sub s.a) = 0 := by
    intro h; obtain ⟨hx, hy, hz⟩ := normSq3_eq_zero (sq := sq) _ h; simp only [V3.dot, hx, hy, hz]; ring
  simp only [Triangle3.projectLocFixed, liftTri3, optsimp]
  generalize (s.b.sub s.a).dot (p.sub s.a) = ab_ap at *
  generalize (s.b.sub s.a).dot (p.sub s.b) = ab_bp at *
  generalize (s.b.sub s.a).dot (p.sub s.c) = ab_cp at *
  generalize (s.c.sub s.a).dot (p.sub s.a) = ac_ap at *
  generalize (s.c.sub s.a).dot (p.sub s.b) = ac_bp at *
  generalize (s.c.sub s.a).dot (p.sub s.c) = ac_cp at *
  generalize (s.b.sub s.a).normSq = nab at *
  generalize (s.c.sub s.a).normSq = nac at *
  generalize (s.c.sub s.b).normSq = nbc at *
  generalize ((s.b.sub s.a).cross (s.c.sub s.a)).dot ((s.b.sub s.a).cross (p.sub s.a)) = vc at *
  generalize ((s.b.sub s.a).cross (s.c.sub s.a)).dot ((s.c.sub s.a).cross (p.sub s.c)) = vb' at *
  generalize ((s.b.sub s.a).cross (s.c.sub s.a)).dot ((s.c.sub s.b).cross (p.sub s.b)) = va at *
  generalize ((s.b.sub s.a).cross (s.c.sub s.a)).dot (p.sub s.a) = nap' at *
  generalize (s.c.sub s.b).dot (p.sub s.b) = bc_bp at *
  generalize (p.sub s.a).normSq = nap at *
  generalize (p.sub s.b).normSq = nbp at *
  generalize s.b.sub s.a = ab at *
  generalize s.c.sub s.a = ac at *
  generalize s.c.sub s.b = bc at *
  rw [e1, e2, e3]
  have nf : ¬ IsFin sq (nan : Opt K sq) := fun ⟨a, h⟩ => by cases h
  show ExLift3 sq _
  by_cases c1 : ab_ap ≤ 0 ∧ ac_ap ≤ 0
  · rw [if_pos c1]; exact ⟨(_, TriLoc.vertex 0), rfl⟩
  rw [if_neg c1]
  by_cases c2 : 0 ≤ ab_bp ∧ ac_bp ≤ ab_bp
  · rw [if_pos c2]; exact ⟨(_, TriLoc.vertex 1), rfl⟩
  rw [if_neg c2]
  by_cases c3 : 0 ≤ ac_cp ∧ ab_cp ≤ ac_cp
  · rw [if_pos c3]; exact ⟨(_, TriLoc.vertex 2), rfl⟩
  rw [if_neg c3]
  by_cases c4 : vc < 0 ∧ 0 ≤ ab_ap ∧ ab_bp ≤ 0
  · rw [if_pos c4]
    have hn : nab ≠ 0 := fun h => by rw [f1 h] at c4; exact lt_irrefl _ c4.1
    simp only [if_neg hn, optsimp]
    exact ⟨(_, TriLoc.edge 0 _ _), rfl⟩
  rw [if_neg c4]
  by_cases c5 : -vb' < 0 ∧ 0 ≤ ac_ap ∧ ac_cp ≤ 0
  · rw [if_pos c5]
    have hn : nac ≠ 0 := fun h => by rw [f2 h, neg_zero] at c5; exact lt_irrefl _ c5.1
    simp only [if_neg hn, optsimp]
    exact ⟨(_, TriLoc.edge 2 _ _), rfl⟩
  rw [if_neg c5]
  by_cases c6 : va < 0 ∧ 0 ≤ ac_bp - ab_bp ∧ 0 ≤ ab_cp - ac_cp
  · rw [if_pos c6]
    have hn : nbc ≠ 0 := fun h => by rw [f3 h] at c6; exact lt_irrefl _ c6.1
    simp only [if_neg hn, optsimp]
    exact ⟨(_, TriLoc.edge 1 _ _), rfl⟩
  rw [if_neg c6]
  by_cases c7 : va + -vb' + vc ≠ 0
  · rw [if_pos c7]
    simp only [if_neg c7, optsimp]
    exact ⟨(_, TriLoc.face _ _ _ _), rfl⟩
  rw [if_neg c7]
  by_cases hs : solid = true
  · rw [if_pos hs]; exact ⟨(_, TriLoc.solid), rfl⟩
  rw [if_neg hs]
  apply closestEdgeFixed_opt sq (ExLift3 sq)
  · intro hfin
    by_cases h : nab = 0
    · exfalso; simp only [if_pos h, optsimp] at hfin; exact nf hfin
    · simp only [if_neg h, optsimp]; exact ⟨(_, TriLoc.edge 0 _ _), rfl⟩
  · intro hfin
    by_cases h : nac = 0
    · exfalso; simp only [if_pos h, optsimp] at hfin; exact nf hfin
    · simp only [if_neg h, optsimp]; exact ⟨(_, TriLoc.edge 2 _ _), rfl⟩
  · intro hfin
    by_cases h : nbc = 0
    · exfalso; simp only [if_pos h, optsimp] at hfin; exact nf hfin
    · simp only [if_neg h, optsimp]; exact ⟨(_, TriLoc.edge 1 _ _), rfl⟩
  · by_cases h : nab = 0
    · by_cases h' : nac = 0
      · exact absurd ⟨(g1 h).le, (g2 h').le⟩ c1
      · right; left; simp only [if_neg h', optsimp]; exact ⟨_, rfl⟩
    · left; simp only [if_neg h, optsimp]; exact ⟨_, rfl⟩

/-- the patch changes nothing in exact arithmetic (2-D) -/
theorem tri2_projectLocFixed_eq (s : Triangle2 K) (p : V2 K) (solid : Bool) :
    letI := fieldNum K sq
    s.projectLocFixed p solid = s.projectLoc p solid := by
  letI := fieldNum K sq
  simp only [Triangle2.projectLocFixed, Triangle2.projectLoc, closestEdgeFixed_eq_cascade]
/-- the patch changes nothing in exact arithmetic (3-D) -/
theorem tri3_projectLocFixed_eq (s : Triangle3 K) (p : V3 K) (solid : Bool) :
    letI := fieldNum K sq
    s.projectLocFixed p solid = s.projectLoc p solid := by
  letI := fieldNum K sq
  simp only [Triangle3.projectLocFixed, Triangle3.projectLoc, closestEdgeFixed_eq_cascade]

/-- non-vacuity / regression: the inputs of `tri2_coincident_bc_nan`, `tri3_coincident_bc_nan` on the patched model, at `NaNable` -/
theorem tri_coincident_bc_fixed_finite :
    (let t : Triangle2 NaNable := ⟨⟨some 0, some 0⟩, ⟨some 2, some 0⟩, ⟨some 2, some 0⟩⟩
     let r := t.projectLocFixed ⟨some 1, some 1⟩ false
     Option.isSome (r.1.pt.x : Option Rat) = true ∧ Option.isSome (r.1.pt.y : Option Rat) = true ∧
     Option.getD (r.1.pt.x : Option Rat) 7 = 1 ∧ Option.getD (r.1.pt.y : Option Rat) 7 = 0) ∧
    (let t : Triangle3 NaNable := ⟨⟨some 0, some 0, some 0⟩, ⟨some 2, some 0, some 0⟩, ⟨some 2, some 0, some 0⟩⟩
     let r := t.projectLocFixed ⟨some 1, some 1, some 0⟩ false
     Option.isSome (r.1.pt.x : Option Rat) = true ∧ Option.isSome (r.1.pt.y : Option Rat) = true ∧
     Option.isSome (r.1.pt.z : Option Rat) = true ∧
     Option.getD (r.1.pt.x : Option Rat) 7 = 1 ∧ Option.getD (r.1.pt.y : Option Rat) 7 = 0) := by
  decide +kernel

/-! ## the patched ball ray normal (`fixes/C20-ball-ray-normal-at-centre.diff`) -/

/-- **C20 (ray_toi_and_normal_with_ball, patched)**: with `pos.try_normalize(0.0).unwrap_or(zeros)` the function is defined for
EVERY finite centre, radius, ray and flag — ray origin at the centre, zero direction, zero radius included — and nothing
is asked of the square-root operation: the division is guarded by a test on the divisor `sqrt |pos|²` itself. -/
theorem defined_rayToiAndNormalWithBallFixed (center : V3 K) (radius : K) (ray : Ray3 K) (solid : Bool) :
    letI := fieldNum K sq
    rayToiAndNormalWithBallFixed (lift3 center : V3 (Opt K sq)) (val radius) (liftRay3 sq ray) solid
      = liftBH sq (rayToiAndNormalWithBallFixed center radius ray solid) := by
  letI := fieldNum K sq
  simp only [rayToiAndNormalWithBallFixed, defined_rayToiWithBall]
  rcases rayToiWithBall center radius ray solid with ⟨ins, inter⟩
  cases inter with
  | none => rfl
  | some t =>
    simp only [liftBO, liftBH, Option.map_some, optsimp]
    by_cases h : ((ray.o.add (ray.d.smul t)).sub center).norm ≤ 0
    · simp only [if_pos h, optsimp]; split_ifs <;> rfl
    · have hn : ((ray.o.add (ray.d.smul t)).sub center).norm ≠ 0 := fun h0 => h (le_of_eq h0)
      simp only [if_neg h, if_neg hn, optsimp]; split_ifs <;> rfl

/-- where the unpatched function is defined (hit point ≠ centre) the patch changes nothing -/
theorem rayToiAndNormalWithBallFixed_eq (center : V3 K) (radius : K) (ray : Ray3 K) (solid : Bool)
    (hs : ∀ x, 0 ≤ x → 0 ≤ sq x)
    (h : ∀ t, letI := fieldNum K sq; (rayToiWithBall center radius ray solid).2 = some t →
      sq ((ray.o.add (ray.d.smul t)).sub center).normSq ≠ 0) :
    letI := fieldNum K sq
    rayToiAndNormalWithBallFixed center radius ray solid = rayToiAndNormalWithBall center radius ray solid := by
  letI := fieldNum K sq
  simp only [rayToiAndNormalWithBallFixed, rayToiAndNormalWithBall]
  rcases hh : rayToiWithBall center radius ray solid with ⟨ins, inter⟩
  cases inter with
  | none => rfl
  | some t =>
    have hne := h t (by rw [hh])
    have hpos : ¬ ((ray.o.add (ray.d.smul t)).sub center).norm ≤ 0 := by
      intro hle
      exact hne (le_antisymm hle (hs _ (normSq3_nonneg (sq := sq) _)))
    simp only [Option.map_some, if_neg hpos, V3.normalize]

/-- the witness input of `ball_normal_origin_at_centre_nan` on the patched model: a finite (zero) normal -/
theorem ball_normal_origin_at_centre_fixed_finite :
    let r := rayToiAndNormalWithBallFixed (K := NaNable) ⟨some 0, some 0, some 0⟩ (some 1)
      ⟨⟨some 0, some 0, some 0⟩, ⟨some 1, some 0, some 0⟩⟩ true
    (r.2.map fun h => (Option.isSome (h.n.x : Option ℚ), Option.isSome (h.n.y : Option ℚ), Option.isSome (h.n.z : Option ℚ)))
      = some (true, true, true) := by
  decide +kernel

end C20
