import ParryModel.C20.Lemmas
import ParryModel.C05.Model
set_option linter.style.haveILetI false
set_option linter.unusedSimpArgs false
set_option linter.unusedSectionVars false
set_option linter.unusedVariables false
/-!
# C20 definedness theorems, part 2: the point-projection models of C05

Every theorem has the shape `f (lift x) = lift (f x)`: the left-hand side is the model function evaluated with
NaN-propagating scalars `Opt K sq` (`x / 0 = NaN`, `sqrt` of a negative `= NaN`, comparisons with NaN false) on *finite*
input, the right-hand side is the same function at the lawful field instance, injected by `some`.  So on the stated
inputs no division by zero and no square root of a negative number reaches the output, every output float is finite,
and the flags / locations are those of the exact evaluation.  Hypotheses are only what is really needed
(none at all for segments, triangles, boxes and half-spaces: **every** finite input, including zero-length segments,
flat or point-like triangles, points on features).
-/
namespace C20
open Model

variable {K : Type} [Field K] [LinearOrder K] [IsStrictOrderedRing K] (sq : K → K)

/-! ### liftings of the C05 data types -/
def liftPP3 (p : PP3 K) : PP3 (Opt K sq) := ⟨p.inside, lift3 p.pt⟩
def liftPP2 (p : PP2 K) : PP2 (Opt K sq) := ⟨p.inside, lift2 p.pt⟩
def liftSegLoc : SegLoc K → SegLoc (Opt K sq)
  | .vertex i => .vertex i
  | .edge a b => .edge (val a) (val b)
def liftTriLoc : TriLoc K → TriLoc (Opt K sq)
  | .vertex i => .vertex i
  | .edge i a b => .edge i (val a) (val b)
  | .face i a b c => .face i (val a) (val b) (val c)
  | .solid => .solid
def liftSeg3 (s : Segment3 K) : Segment3 (Opt K sq) := ⟨lift3 s.a, lift3 s.b⟩
def liftSeg2 (s : Segment2 K) : Segment2 (Opt K sq) := ⟨lift2 s.a, lift2 s.b⟩
def liftBall (s : Ball K) : Ball (Opt K sq) := ⟨val s.r⟩

@[optsimp] private theorem relEq_val (a b : K) :
    letI := fieldNum K sq; relEq (val a : Opt K sq) (val b) = relEq a b := by
  unfold relEq
  simp only [val_neq, val_sub, val_nabs, eps, val_lit, val_le, val_lt, val_mul, val_ite]
  rfl
@[optsimp] private theorem relEq3_lift (a b : V3 K) :
    letI := fieldNum K sq; V3.relEq (lift3 a : V3 (Opt K sq)) (lift3 b) = V3.relEq a b := by
  simp only [V3.relEq, lift3_x, lift3_y, lift3_z, relEq_val]
@[optsimp] private theorem relEq2_lift (a b : V2 K) :
    letI := fieldNum K sq; V2.relEq (lift2 a : V2 (Opt K sq)) (lift2 b) = V2.relEq a b := by
  simp only [V2.relEq, lift2_x, lift2_y, relEq_val]
@[optsimp] private theorem beq3_lift (a b : V3 K) :
    letI := fieldNum K sq; V3.beq (lift3 a : V3 (Opt K sq)) (lift3 b) = V3.beq a b := rfl
@[optsimp] private theorem beq2_lift (a b : V2 K) :
    letI := fieldNum K sq; V2.beq (lift2 a : V2 (Opt K sq)) (lift2 b) = V2.beq a b := rfl
@[optsimp] private theorem isZero3_lift (a : V3 K) :
    letI := fieldNum K sq; V3.isZero (lift3 a : V3 (Opt K sq)) = V3.isZero a := rfl
@[optsimp] private theorem isZero2_lift (a : V2 K) :
    letI := fieldNum K sq; V2.isZero (lift2 a : V2 (Opt K sq)) = V2.isZero a := rfl

/-! ## Segment -/

/-- **C20 (Segment::project_local_point_and_get_location, 3-D)**: defined for *every* finite segment and point —
including the zero-length segment `a = b` (then `ab·ap = 0 ≤ 0`, vertex branch) and points on the segment or its
end points: the only division, `ab·ap / |ab|²`, is reached only when `0 < ab·ap < |ab|²`. -/
theorem defined_seg3_projectLoc (s : Segment3 K) (p : V3 K) :
    letI := fieldNum K sq
    (liftSeg3 sq s).projectLoc (lift3 p)
      = (liftPP3 sq (s.projectLoc p).1, liftSegLoc sq (s.projectLoc p).2) := by
  letI := fieldNum K sq
  simp only [Segment3.projectLoc, liftSeg3, optsimp]
  split_ifs with h1 h2 h3
  · rfl
  · rfl
  · exfalso; linarith
  · simp only [optsimp]; rfl

end C20
