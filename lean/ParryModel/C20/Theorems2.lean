import ParryModel.C20.Lemmas
import ParryModel.C05.Model
set_option linter.style.haveILetI false
set_option linter.unusedSimpArgs false
set_option linter.unusedSectionVars false
set_option linter.unusedVariables false
/-!
# C20 definedness theorems, part 2: the point-projection models of C05

Every theorem has the shape `f (lift x) = lift (f x)`: the left-hand side is the model function evaluated with
NaN-propagating scalars `Opt K sq` (`x / 0 = NaN`, `sqrt` of a negative `= NaN`, comparisons with NaN false) on *finite*
input, the right-hand side is the same function at the lawful field instance, injected by `some`.  So on the stated
inputs no division by zero and no square root of a negative number reaches the output, every output float is finite,
and the flags / locations are those of the exact evaluation.  Hypotheses are only what is really needed
(none at all for segments, triangles, boxes and half-spaces: **every** finite input, including zero-length segments,
flat or point-like triangles, points on features).
-/
namespace C20
open Model

variable {K : Type} [Field K] [LinearOrder K] [IsStrictOrderedRing K] (sq : K → K)

/-! ### liftings of the C05 data types -/
def liftPP3 (p : PP3 K) : PP3 (Opt K sq) := ⟨p.inside, lift3 p.pt⟩
def liftPP2 (p : PP2 K) : PP2 (Opt K sq) := ⟨p.inside, lift2 p.pt⟩
def liftSegLoc : SegLoc K → SegLoc (Opt K sq)
  | .vertex i => .vertex i
  | .edge a b => .edge (val a) (val b)
def liftTriLoc : TriLoc K → TriLoc (Opt K sq)
  | .vertex i => .vertex i
  | .edge i a b => .edge i (val a) (val b)
  | .face i a b c => .face i (val a) (val b) (val c)
  | .solid => .solid
def liftSeg3 (s : Segment3 K) : Segment3 (Opt K sq) := ⟨lift3 s.a, lift3 s.b⟩
def liftSeg2 (s : Segment2 K) : Segment2 (Opt K sq) := ⟨lift2 s.a, lift2 s.b⟩
def liftBall (s : Ball K) : Ball (Opt K sq) := ⟨val s.r⟩

@[optsimp] private theorem relEq_val (a b : K) :
    letI := fieldNum K sq; relEq (val a : Opt K sq) (val b) = relEq a b := by
  unfold relEq
  simp only [val_neq, val_sub, val_nabs, eps, val_lit, val_le, val_lt, val_mul, val_ite]
  rfl
@[optsimp] private theorem relEq3_lift (a b : V3 K) :
    letI := fieldNum K sq; V3.relEq (lift3 a : V3 (Opt K sq)) (lift3 b) = V3.relEq a b := by
  simp only [V3.relEq, lift3_x, lift3_y, lift3_z, relEq_val]
@[optsimp] private theorem relEq2_lift (a b : V2 K) :
    letI := fieldNum K sq; V2.relEq (lift2 a : V2 (Opt K sq)) (lift2 b) = V2.relEq a b := by
  simp only [V2.relEq, lift2_x, lift2_y, relEq_val]
@[optsimp] private theorem beq3_lift (a b : V3 K) :
    letI := fieldNum K sq; V3.beq (lift3 a : V3 (Opt K sq)) (lift3 b) = V3.beq a b := id rfl
@[optsimp] private theorem beq2_lift (a b : V2 K) :
    letI := fieldNum K sq; V2.beq (lift2 a : V2 (Opt K sq)) (lift2 b) = V2.beq a b := id rfl
@[optsimp] private theorem isZero3_lift (a : V3 K) :
    letI := fieldNum K sq; V3.isZero (lift3 a : V3 (Opt K sq)) = V3.isZero a := id rfl
@[optsimp] private theorem isZero2_lift (a : V2 K) :
    letI := fieldNum K sq; V2.isZero (lift2 a : V2 (Opt K sq)) = V2.isZero a := id rfl

/-! ## Segment -/

/-- **C20 (Segment::project_local_point_and_get_location, 3-D)**: defined for *every* finite segment and point —
including the zero-length segment `a = b` (then `ab·ap = 0 ≤ 0`, vertex branch) and points on the segment or its
end points: the only division, `ab·ap / |ab|²`, is reached only when `0 < ab·ap < |ab|²`. -/
theorem defined_seg3_projectLoc (s : Segment3 K) (p : V3 K) :
    letI := fieldNum K sq
    (liftSeg3 sq s).projectLoc (lift3 p)
      = (liftPP3 sq (s.projectLoc p).1, liftSegLoc sq (s.projectLoc p).2) := by
  letI := fieldNum K sq
  simp only [Segment3.projectLoc, liftSeg3, optsimp]
  split_ifs with h1 h2 h3
  · rfl
  · rfl
  · exfalso; linarith
  · simp only [optsimp]; rfl

/-- **C20 (Segment::project_local_point_and_get_location, 2-D)**: defined for every finite segment and point. -/
theorem defined_seg2_projectLoc (s : Segment2 K) (p : V2 K) :
    letI := fieldNum K sq
    (liftSeg2 sq s).projectLoc (lift2 p)
      = (liftPP2 sq (s.projectLoc p).1, liftSegLoc sq (s.projectLoc p).2) := by
  letI := fieldNum K sq
  simp only [Segment2.projectLoc, liftSeg2, optsimp]
  split_ifs with h1 h2 h3
  · rfl
  · rfl
  · exfalso; linarith
  · simp only [optsimp]; rfl

/-- **C20 (Segment::project_local_point)**, 3-D and 2-D, any `solid` flag. -/
theorem defined_seg3_project (s : Segment3 K) (p : V3 K) (solid : Bool) :
    letI := fieldNum K sq
    (liftSeg3 sq s).project (lift3 p) solid = liftPP3 sq (s.project p solid) := by
  simp only [Segment3.project, defined_seg3_projectLoc]
theorem defined_seg2_project (s : Segment2 K) (p : V2 K) (solid : Bool) :
    letI := fieldNum K sq
    (liftSeg2 sq s).project (lift2 p) solid = liftPP2 sq (s.project p solid) := by
  simp only [Segment2.project, defined_seg2_projectLoc]

/-! ## Ball -/

/-- **C20 (Ball::project_local_point, 3-D, as fixed in /repo)**: defined for every radius (any sign), every point —
**including the centre** (`|p|² = 0`: the fallback `(0, r, 0)` is returned; the pinned tree divided `r / sqrt 0`) —
and both `solid` flags.  The only requirement is on the square-root *operation*: it must not vanish at the non-zero
`|p|²` (`hu`: no underflow below the threshold `θ` of `SqrtPos`; trivially true for `θ = 0`, see `noUnderflow_zero`). -/
theorem defined_ball_project3 {θ : K} (hs : SqrtPos sq θ) (s : Ball K) (p : V3 K) (solid : Bool)
    (hu : letI := fieldNum K sq; p.normSq = 0 ∨ θ < p.normSq) :
    letI := fieldNum K sq
    (liftBall sq s).project3 (lift3 p) solid = liftPP3 sq (s.project3 p solid) := by
  letI := fieldNum K sq
  simp only [Ball.project3, liftBall, optsimp, neq_iff]
  split_ifs with h1 h2 h3
  · rfl
  · rfl
  · exfalso; exact absurd (normSq3_nonneg (sq := sq) p) (not_le.mpr h3)
  · have hne : sq p.normSq ≠ 0 := by
      rcases hu with hu | hu
      · exact absurd hu h2
      · exact hs.ne hu
    simp only [optsimp, if_neg hne]; rfl

/-- **C20 (Ball::project_local_point, 2-D)**: as `defined_ball_project3`. -/
theorem defined_ball_project2 {θ : K} (hs : SqrtPos sq θ) (s : Ball K) (p : V2 K) (solid : Bool)
    (hu : letI := fieldNum K sq; p.normSq = 0 ∨ θ < p.normSq) :
    letI := fieldNum K sq
    (liftBall sq s).project2 (lift2 p) solid = liftPP2 sq (s.project2 p solid) := by
  letI := fieldNum K sq
  simp only [Ball.project2, liftBall, optsimp, neq_iff]
  split_ifs with h1 h2 h3
  · rfl
  · rfl
  · exfalso; exact absurd (normSq2_nonneg (sq := sq) p) (not_le.mpr h3)
  · have hne : sq p.normSq ≠ 0 := by
      rcases hu with hu | hu
      · exact absurd hu h2
      · exact hs.ne hu
    simp only [optsimp, if_neg hne]; rfl

/-- **C20 (Ball::distance_to_local_point / contains_local_point)**: defined for every finite input (`sqrt` is applied
to a sum of squares; no division). -/
theorem defined_ball_distance3 (s : Ball K) (p : V3 K) (solid : Bool) :
    letI := fieldNum K sq
    (liftBall sq s).distance3 (lift3 p) solid = val (s.distance3 p solid) ∧
    (liftBall sq s).contains3 (lift3 p) = s.contains3 p := by
  letI := fieldNum K sq
  refine ⟨?_, ?_⟩
  · simp only [Ball.distance3, liftBall, optsimp]
    split_ifs <;> rfl
  · simp only [Ball.contains3, liftBall, optsimp]
theorem defined_ball_distance2 (s : Ball K) (p : V2 K) (solid : Bool) :
    letI := fieldNum K sq
    (liftBall sq s).distance2 (lift2 p) solid = val (s.distance2 p solid) ∧
    (liftBall sq s).contains2 (lift2 p) = s.contains2 p := by
  letI := fieldNum K sq
  refine ⟨?_, ?_⟩
  · simp only [Ball.distance2, liftBall, optsimp]
    split_ifs <;> rfl
  · simp only [Ball.contains2, liftBall, optsimp]

/-! ## HalfSpace -/

/-- **C20 (HalfSpace::project_local_point / distance / contains, 3-D)**: no division, no square root: defined for every
finite normal (unit or not) and point. -/
theorem defined_halfspace3 (n p : V3 K) (solid : Bool) :
    letI := fieldNum K sq
    (HalfSpace3.mk (lift3 n : V3 (Opt K sq))).project (lift3 p) solid = liftPP3 sq ((HalfSpace3.mk n).project p solid) ∧
    (HalfSpace3.mk (lift3 n : V3 (Opt K sq))).distance (lift3 p) solid = val ((HalfSpace3.mk n).distance p solid) ∧
    (HalfSpace3.mk (lift3 n : V3 (Opt K sq))).contains (lift3 p) = (HalfSpace3.mk n).contains p := by
  letI := fieldNum K sq
  refine ⟨?_, ?_, ?_⟩
  · simp only [HalfSpace3.project, optsimp]; split_ifs <;> rfl
  · simp only [HalfSpace3.distance, optsimp]; split_ifs <;> rfl
  · simp only [HalfSpace3.contains, optsimp]
theorem defined_halfspace2 (n p : V2 K) (solid : Bool) :
    letI := fieldNum K sq
    (HalfSpace2.mk (lift2 n : V2 (Opt K sq))).project (lift2 p) solid = liftPP2 sq ((HalfSpace2.mk n).project p solid) ∧
    (HalfSpace2.mk (lift2 n : V2 (Opt K sq))).distance (lift2 p) solid = val ((HalfSpace2.mk n).distance p solid) ∧
    (HalfSpace2.mk (lift2 n : V2 (Opt K sq))).contains (lift2 p) = (HalfSpace2.mk n).contains p := by
  letI := fieldNum K sq
  refine ⟨?_, ?_, ?_⟩
  · simp only [HalfSpace2.project, optsimp]; split_ifs <;> rfl
  · simp only [HalfSpace2.distance, optsimp]; split_ifs <;> rfl
  · simp only [HalfSpace2.contains, optsimp]

/-! ## Aabb / Cuboid -/

def liftBest (st : BestSt K) : BestSt (Opt K sq) := (st.1.map val, st.2.1, st.2.2)

private theorem aabbStep_lift (mp pm : K) (i : Nat) (st : BestSt K) :
    letI := fieldNum K sq
    aabbStep (val mp : Opt K sq) (val pm) i (liftBest sq st) = liftBest sq (aabbStep mp pm i st) := by
  letI := fieldNum K sq
  obtain ⟨o, b, n⟩ := st
  cases o <;> simp only [aabbStep, liftBest, Option.map, optsimp] <;> split_ifs <;> rfl

private theorem liftBest_getD (st : BestSt K) :
    (liftBest sq st).1.getD (val 0) = val (st.1.getD 0) := by
  obtain ⟨o, b, n⟩ := st
  cases o <;> rfl

private theorem liftBest_21 (st : BestSt K) : (liftBest sq st).2.1 = st.2.1 := rfl
private theorem liftBest_22 (st : BestSt K) : (liftBest sq st).2.2 = st.2.2 := rfl

/-- **C20 (Aabb::project_local_point, 3-D; both flags)**: no division or square root at all — defined for every finite
box (even `mins > maxs`) and point, including points on faces, edges, vertices and the centre. -/
theorem defined_aabb_project3 (mins maxs p : V3 K) (solid : Bool) :
    letI := fieldNum K sq
    aabbDoProject3 (lift3 mins : V3 (Opt K sq)) (lift3 maxs) (lift3 p) solid
      = ((aabbDoProject3 mins maxs p solid).1, lift3 (aabbDoProject3 mins maxs p solid).2.1,
          lift3 (aabbDoProject3 mins maxs p solid).2.2) := by
  letI := fieldNum K sq
  have e : ((none, false, 0) : BestSt (Opt K sq)) = liftBest sq (none, false, 0) := rfl
  simp only [aabbDoProject3, optsimp, e, aabbStep_lift, liftBest_getD, liftBest_21, liftBest_22]
  split_ifs <;> opt_leaf

theorem defined_aabb_project2 (mins maxs p : V2 K) (solid : Bool) :
    letI := fieldNum K sq
    aabbDoProject2 (lift2 mins : V2 (Opt K sq)) (lift2 maxs) (lift2 p) solid
      = ((aabbDoProject2 mins maxs p solid).1, lift2 (aabbDoProject2 mins maxs p solid).2.1,
          lift2 (aabbDoProject2 mins maxs p solid).2.2) := by
  letI := fieldNum K sq
  have e : ((none, false, 0) : BestSt (Opt K sq)) = liftBest sq (none, false, 0) := rfl
  simp only [aabbDoProject2, optsimp, e, aabbStep_lift, liftBest_getD, liftBest_21, liftBest_22]
  split_ifs <;> opt_leaf

/-- **C20 (Cuboid::project_local_point / distance_to_local_point, 3-D)**: defined for every finite half-extents (any
sign, zero included: a flat or point-like box) and every point. -/
theorem defined_cuboid3_project (he p : V3 K) (solid : Bool) :
    letI := fieldNum K sq
    (Cuboid3.mk (lift3 he : V3 (Opt K sq))).project (lift3 p) solid = liftPP3 sq ((Cuboid3.mk he).project p solid) ∧
    (Cuboid3.mk (lift3 he : V3 (Opt K sq))).distance (lift3 p) solid = val ((Cuboid3.mk he).distance p solid) := by
  letI := fieldNum K sq
  refine ⟨?_, ?_⟩
  · simp only [Cuboid3.project, aabbProject3, optsimp, defined_aabb_project3]; rfl
  · simp only [Cuboid3.distance, aabbDistance3, aabbProject3, optsimp, defined_aabb_project3]
    split_ifs <;> rfl
theorem defined_cuboid2_project (he p : V2 K) (solid : Bool) :
    letI := fieldNum K sq
    (Cuboid2.mk (lift2 he : V2 (Opt K sq))).project (lift2 p) solid = liftPP2 sq ((Cuboid2.mk he).project p solid) ∧
    (Cuboid2.mk (lift2 he : V2 (Opt K sq))).distance (lift2 p) solid = val ((Cuboid2.mk he).distance p solid) := by
  letI := fieldNum K sq
  refine ⟨?_, ?_⟩
  · simp only [Cuboid2.project, aabbProject2, optsimp, defined_aabb_project2]; rfl
  · simp only [Cuboid2.distance, aabbDistance2, aabbProject2, optsimp, defined_aabb_project2]
    split_ifs <;> rfl

/-! ## Capsule -/

def liftCapsule3 (s : Capsule3 K) : Capsule3 (Opt K sq) := ⟨lift3 s.a, lift3 s.b, val s.r⟩
def liftCapsule2 (s : Capsule2 K) : Capsule2 (Opt K sq) := ⟨lift2 s.a, lift2 s.b, val s.r⟩
@[optsimp] private theorem liftSeg3_mk (a b : V3 K) : (⟨lift3 a, lift3 b⟩ : Segment3 (Opt K sq)) = liftSeg3 sq ⟨a, b⟩ := id rfl
@[optsimp] private theorem liftSeg2_mk (a b : V2 K) : (⟨lift2 a, lift2 b⟩ : Segment2 (Opt K sq)) = liftSeg2 sq ⟨a, b⟩ := id rfl
@[optsimp] private theorem liftPP3_pt (p : PP3 K) : (liftPP3 sq p).pt = lift3 p.pt := id rfl
@[optsimp] private theorem liftPP3_inside (p : PP3 K) : (liftPP3 sq p).inside = p.inside := id rfl
@[optsimp] private theorem liftPP2_pt (p : PP2 K) : (liftPP2 sq p).pt = lift2 p.pt := id rfl
@[optsimp] private theorem liftPP2_inside (p : PP2 K) : (liftPP2 sq p).inside = p.inside := id rfl
@[optsimp] private theorem liftPP3_mk (b : Bool) (v : V3 K) : (⟨b, lift3 v⟩ : PP3 (Opt K sq)) = liftPP3 sq ⟨b, v⟩ := id rfl
@[optsimp] private theorem liftPP2_mk (b : Bool) (v : V2 K) : (⟨b, lift2 v⟩ : PP2 (Opt K sq)) = liftPP2 sq ⟨b, v⟩ := id rfl

private theorem eps_pos : letI := fieldNum K sq; (0 : K) < eps := lit_pos 1 _ (by decide) (by decide)
private theorem eps2_pos : letI := fieldNum K sq; (0 : K) < eps * eps := mul_pos (eps_pos sq) (eps_pos sq)

@[optsimp] private theorem eps_val : letI := fieldNum K sq; (eps : Opt K sq) = val (eps : K) := id rfl

/-- `Vector3::orthonormal_basis()[0]`: the divisor `sign + z` is `≥ 1` or `< -1`, never zero — defined for every vector. -/
private theorem orthoBasis0_lift (v : V3 K) :
    letI := fieldNum K sq
    orthoBasis0 (lift3 v : V3 (Opt K sq)) = lift3 (orthoBasis0 v) := by
  letI := fieldNum K sq
  simp only [orthoBasis0, optsimp]
  opt_steps
  all_goals first | rfl | (exfalso; linarith)

/-- **C20 (Capsule::project_local_point, 3-D)**: defined for every finite capsule — **including a zero-length axis
`a = b` and radius `0`** — every point — **including points on the axis** (the code then picks an arbitrary
orthogonal direction, or `+y` when the axis is shorter than `ε`) — and both flags: each normalisation divides by the
square root of a quantity the code has just tested to be `> ε²`.  `hθ`: the square-root operation does not vanish
above `ε² = 2⁻¹⁰⁴` (true for a lawful square root, `θ = 0`). -/
theorem defined_capsule3_project {θ : K} (hs : SqrtPos sq θ)
    (hθ : letI := fieldNum K sq; θ ≤ (eps : K) * eps) (s : Capsule3 K) (p : V3 K) (solid : Bool) :
    letI := fieldNum K sq
    (liftCapsule3 sq s).project (lift3 p) solid = liftPP3 sq (s.project p solid) := by
  letI := fieldNum K sq
  simp only [Capsule3.project, liftCapsule3, optsimp, defined_seg3_project, orthoBasis0_lift]
  repeat' (first | split_ifs | (simp only [optsimp, orthoBasis0_lift]))
  all_goals
    first
    | rfl
    | (exfalso; linarith [eps2_pos sq])
    | (exfalso; exact absurd (by assumption) (hs.ne (lt_of_le_of_lt hθ (by assumption))))
    | (exfalso; simp only [optsimp] at *; tauto)

/-- **C20 (Capsule::project_local_point, 2-D)**: as `defined_capsule3_project` (the fallback direction on the axis is
the segment normal `(d.y, -d.x)`, normalised only when its squared length exceeds `ε²`). -/
theorem defined_capsule2_project {θ : K} (hs : SqrtPos sq θ)
    (hθ : letI := fieldNum K sq; θ ≤ (eps : K) * eps) (s : Capsule2 K) (p : V2 K) (solid : Bool) :
    letI := fieldNum K sq
    (liftCapsule2 sq s).project (lift2 p) solid = liftPP2 sq (s.project p solid) := by
  letI := fieldNum K sq
  simp only [Capsule2.project, liftCapsule2, optsimp, defined_seg2_project]
  opt_steps
  all_goals
    first
    | rfl
    | (exfalso; linarith [eps2_pos sq])
    | (exfalso; exact absurd (by assumption) (hs.ne (lt_of_le_of_lt hθ (by assumption))))
    | (exfalso; simp only [optsimp] at *; tauto)

/-! ## Cylinder, Cone -/

def liftCylinder (s : Cylinder K) : Cylinder (Opt K sq) := ⟨val s.hh, val s.r⟩
def liftCone (s : Cone K) : Cone (Opt K sq) := ⟨val s.hh, val s.r⟩

/-- **C20 (Cylinder::project_local_point, as fixed in /repo)**: defined for every finite half-height and radius (any
sign, zero included), every point — **including points on the axis** (`planar ≤ ε`: the direction `(1, 0)` is used
instead of a normalisation), on the caps, on the rim — and both flags.  The divisor `planar = sqrt(x² + z²)` is used
only after the test `planar > ε > 0`, so nothing is required of the square-root operation. -/
theorem defined_cylinder_project (s : Cylinder K) (p : V3 K) (solid : Bool) :
    letI := fieldNum K sq
    (liftCylinder sq s).project (lift3 p) solid = liftPP3 sq (s.project p solid) := by
  letI := fieldNum K sq
  simp only [Cylinder.project, liftCylinder, optsimp]
  opt_steps
  all_goals
    first
    | rfl
    | (exfalso; linarith [eps_pos sq])
    | (exfalso; simp only [optsimp] at *; tauto)

/-- **C20 (Cone::project_local_point)**: defined for every finite half-height and radius (any sign, zero included: a
needle or a disc), every point — **including the apex, points on the axis, on the base and on the rim** — and both
flags.  The only divisions are the guarded normalisation `planar > ε` and the segment projection onto the generatrix
(`defined_seg3_projectLoc`, total). -/
theorem defined_cone_project (s : Cone K) (p : V3 K) (solid : Bool) :
    letI := fieldNum K sq
    (liftCone sq s).project (lift3 p) solid = liftPP3 sq (s.project p solid) := by
  letI := fieldNum K sq
  simp only [Cone.project, liftCone, optsimp]
  repeat' (first | split_ifs | (simp only [optsimp, defined_seg3_project]))
  all_goals
    first
    | rfl
    | (exfalso; linarith [eps_pos sq])
    | (exfalso; simp only [optsimp, defined_seg3_project] at *; tauto)

/-! ## Triangle -/

def liftTri2 (s : Triangle2 K) : Triangle2 (Opt K sq) := ⟨lift2 s.a, lift2 s.b, lift2 s.c⟩
def liftTri3 (s : Triangle3 K) : Triangle3 (Opt K sq) := ⟨lift3 s.a, lift3 s.b, lift3 s.c⟩

def liftPL3 (r : PP3 K × TriLoc K) : PP3 (Opt K sq) × TriLoc (Opt K sq) := (liftPP3 sq r.1, liftTriLoc sq r.2)
def liftPL2 (r : PP2 K × TriLoc K) : PP2 (Opt K sq) × TriLoc (Opt K sq) := (liftPP2 sq r.1, liftTriLoc sq r.2)
/-- **C20 (Triangle::project_local_point_and_get_location, 2-D)**: defined for every triangle whose three vertices are
pairwise distinct — **flat (collinear) triangles included** — every point (on vertices, edges, inside) and both flags.
In the three edge branches the divisor `|e|²` is non-zero because the branch test `n · perp(e, ·) < 0` fails for a
zero edge; in the interior `solid = false` branch the three divisors are exactly `|ab|²`, `|ac|²`, `|bc|²`, which is
where the hypothesis is used (see `tri2_coincident_vertices_nan_intermediate` for what happens otherwise). -/
theorem defined_tri2_projectLoc (s : Triangle2 K) (p : V2 K) (solid : Bool)
    (hab : letI := fieldNum K sq; (s.b.sub s.a).normSq ≠ 0)
    (hac : letI := fieldNum K sq; (s.c.sub s.a).normSq ≠ 0)
    (hbc : letI := fieldNum K sq; (s.c.sub s.b).normSq ≠ 0) :
    letI := fieldNum K sq
    (liftTri2 sq s).projectLoc (lift2 p) solid
      = liftPL2 sq (s.projectLoc p solid) := by
  letI := fieldNum K sq
  have e1 : (s.b.sub s.a).dot (p.sub s.a) - (s.b.sub s.a).dot (p.sub s.b) = (s.b.sub s.a).normSq := by
    simp only [V2.dot, V2.sub, V2.normSq]; ring
  have e2 : (s.c.sub s.a).dot (p.sub s.a) - (s.c.sub s.a).dot (p.sub s.c) = (s.c.sub s.a).normSq := by
    simp only [V2.dot, V2.sub, V2.normSq]; ring
  have e3 : (s.c.sub s.a).dot (p.sub s.b) - (s.b.sub s.a).dot (p.sub s.b) + (s.b.sub s.a).dot (p.sub s.c)
      - (s.c.sub s.a).dot (p.sub s.c) = (s.c.sub s.b).normSq := by
    simp only [V2.dot, V2.sub, V2.normSq]; ring
  simp only [Triangle2.projectLoc, liftTri2, optsimp, apply_ite (liftPL2 sq)]
  generalize (s.b.sub s.a).dot (p.sub s.a) = ab_ap at *
  generalize (s.b.sub s.a).dot (p.sub s.b) = ab_bp at *
  generalize (s.b.sub s.a).dot (p.sub s.c) = ab_cp at *
  generalize (s.c.sub s.a).dot (p.sub s.a) = ac_ap at *
  generalize (s.c.sub s.a).dot (p.sub s.b) = ac_bp at *
  generalize (s.c.sub s.a).dot (p.sub s.c) = ac_cp at *
  generalize (s.b.sub s.a).normSq = nab at *
  generalize (s.c.sub s.a).normSq = nac at *
  generalize (s.c.sub s.b).normSq = nbc at *
  generalize (s.b.sub s.a).perp (s.c.sub s.a) = n at *
  generalize (s.b.sub s.a).perp (p.sub s.a) = pab at *
  generalize (s.c.sub s.a).perp (p.sub s.c) = pac at *
  generalize (s.c.sub s.b).perp (p.sub s.b) = pbc at *
  generalize (s.c.sub s.b).dot (p.sub s.b) = bc_bp at *
  generalize (p.sub s.a).normSq = nap at *
  generalize (p.sub s.b).normSq = nbp at *
  generalize s.b.sub s.a = ab at *
  generalize s.c.sub s.a = ac at *
  generalize s.c.sub s.b = bc at *
  have d1 : ab_ap - ab_bp ≠ 0 := e1 ▸ hab
  have d2 : ac_ap - ac_cp ≠ 0 := e2 ▸ hac
  have d3 : ac_bp - ab_bp + ab_cp - ac_cp ≠ 0 := e3 ▸ hbc
  simp only [if_neg d1, if_neg d2, if_neg d3, if_neg hab, if_neg hac, if_neg hbc, optsimp]
  opt_tree

/-- **C20 (Triangle::project_local_point_and_get_location, 3-D)**: defined for every triangle whose three vertices are
pairwise distinct — **flat (collinear) triangles included** — every point and both flags.  The face branch divides by
`va + vb + vc = |n|²` only after testing it non-zero; for a flat triangle the code falls through to the same
edge-distance comparison as in 2-D, whose divisors are `|ab|²`, `|ac|²`, `|bc|²`. -/
theorem defined_tri3_projectLoc (s : Triangle3 K) (p : V3 K) (solid : Bool)
    (hab : letI := fieldNum K sq; (s.b.sub s.a).normSq ≠ 0)
    (hac : letI := fieldNum K sq; (s.c.sub s.a).normSq ≠ 0)
    (hbc : letI := fieldNum K sq; (s.c.sub s.b).normSq ≠ 0) :
    letI := fieldNum K sq
    (liftTri3 sq s).projectLoc (lift3 p) solid = liftPL3 sq (s.projectLoc p solid) := by
  letI := fieldNum K sq
  have e1 : (s.b.sub s.a).dot (p.sub s.a) - (s.b.sub s.a).dot (p.sub s.b) = (s.b.sub s.a).normSq := by
    simp only [V3.dot, V3.sub, V3.normSq]; ring
  have e2 : (s.c.sub s.a).dot (p.sub s.a) - (s.c.sub s.a).dot (p.sub s.c) = (s.c.sub s.a).normSq := by
    simp only [V3.dot, V3.sub, V3.normSq]; ring
  have e3 : (s.c.sub s.a).dot (p.sub s.b) - (s.b.sub s.a).dot (p.sub s.b) + (s.b.sub s.a).dot (p.sub s.c)
      - (s.c.sub s.a).dot (p.sub s.c) = (s.c.sub s.b).normSq := by
    simp only [V3.dot, V3.sub, V3.normSq]; ring
  simp only [Triangle3.projectLoc, liftTri3, optsimp, apply_ite (liftPL3 sq)]
  generalize (s.b.sub s.a).dot (p.sub s.a) = ab_ap at *
  generalize (s.b.sub s.a).dot (p.sub s.b) = ab_bp at *
  generalize (s.b.sub s.a).dot (p.sub s.c) = ab_cp at *
  generalize (s.c.sub s.a).dot (p.sub s.a) = ac_ap at *
  generalize (s.c.sub s.a).dot (p.sub s.b) = ac_bp at *
  generalize (s.c.sub s.a).dot (p.sub s.c) = ac_cp at *
  generalize (s.b.sub s.a).normSq = nab at *
  generalize (s.c.sub s.a).normSq = nac at *
  generalize (s.c.sub s.b).normSq = nbc at *
  have d1 : ab_ap - ab_bp ≠ 0 := e1 ▸ hab
  have d2 : ac_ap - ac_cp ≠ 0 := e2 ▸ hac
  have d3 : ac_bp - ab_bp + ab_cp - ac_cp ≠ 0 := e3 ▸ hbc
  simp only [if_neg d1, if_neg d2, if_neg d3, if_neg hab, if_neg hac, if_neg hbc, optsimp]
  opt_tree
  all_goals (simp only [if_neg (by assumption : ¬ _ = (0 : K)), optsimp]; try rfl)

/-! ### Finding: two coincident vertices `b = c` give a NaN projection (pinned tree and current /repo)

`Triangle::project_local_point(_, solid = false)` on the degenerate ("flat") triangle `a = (0,0)`, `b = c = (2,0)` and
the point `(1,1)`: no vertex or edge region matches (all three `perp` tests are `0 < 0`), the code falls through to
"project on the closest edge", computes `u = 0/0` for the zero-length edge `bc`, both comparisons with the NaN
distance are false and the final `else` selects `bc`: the result is `b + bc * NaN`.
Replayed on the real crates (`C05 tri2_loc … 0 | 1 nan nan E 1 nan nan`, `tri3_loc` likewise); patch in
`fixes/C20-triangle-coincident-vertices-nan.diff`.  With `a = b` or `a = c` the NaN edge is never selected. -/

/-- the witness, at `NaNable` itself: the returned point and the edge coordinates are NaN -/
theorem tri2_coincident_bc_nan :
    let t : Triangle2 NaNable := ⟨⟨some 0, some 0⟩, ⟨some 2, some 0⟩, ⟨some 2, some 0⟩⟩
    let r := t.projectLoc ⟨some 1, some 1⟩ false
    Option.isSome (r.1.pt.x : Option Rat) = false ∧ Option.isSome (r.1.pt.y : Option Rat) = false := by
  decide +kernel
/-- same in 3-D (`a = 0`, `b = c = 2 e_x`, `p = (1,1,0)`) -/
theorem tri3_coincident_bc_nan :
    let t : Triangle3 NaNable := ⟨⟨some 0, some 0, some 0⟩, ⟨some 2, some 0, some 0⟩, ⟨some 2, some 0, some 0⟩⟩
    let r := t.projectLoc ⟨some 1, some 1, some 0⟩ false
    Option.isSome (r.1.pt.x : Option Rat) = false := by
  decide +kernel
/-- `a = b` and `a = c` (same point, same flag): the output is finite although an intermediate quotient is `0/0` -/
theorem tri2_coincident_ab_ac_finite :
    (let t : Triangle2 NaNable := ⟨⟨some 0, some 0⟩, ⟨some 0, some 0⟩, ⟨some 2, some 0⟩⟩
     let r := t.projectLoc ⟨some 1, some 1⟩ false
     Option.isSome (r.1.pt.x : Option Rat) = true ∧ Option.isSome (r.1.pt.y : Option Rat) = true) ∧
    (let t : Triangle2 NaNable := ⟨⟨some 0, some 0⟩, ⟨some 2, some 0⟩, ⟨some 0, some 0⟩⟩
     let r := t.projectLoc ⟨some 1, some 1⟩ false
     Option.isSome (r.1.pt.x : Option Rat) = true ∧ Option.isSome (r.1.pt.y : Option Rat) = true) := by
  decide +kernel

end C20
