import ParryModel.Field
import ParryModel.Shapes
import ParryModel.C20.Attr
set_option linter.style.haveILetI false
set_option linter.unusedSimpArgs false
set_option linter.unusedSectionVars false
/-!
# C20 infrastructure: NaN-propagating scalars over an arbitrary ordered field

`Opt K sq = Option K` with `none` = NaN/±inf: `x / 0 = none`, `sqrt` of a negative = `none`, every operation on `none`
is `none`, every comparison with `none` is false (IEEE).  `NaNable` of `Num.lean` is the instance `K = ℚ`,
`sq = ` the rational square-root approximation (`Opt.nanable_eq`).

The definedness theorems of `C20/Theorems*.lean` have the shape

    f (lift x) = lift (f x)            -- left: model at `Opt K sq`;  right: model at the lawful field `fieldNum K sq`

i.e. on finite input the NaN-propagating evaluation never meets a division by zero or the square root of a negative
number in any value that reaches the output (every output float is `some`), and it takes the same branches and returns
the same numbers as the total field evaluation about which the other properties' theorems speak.
-/
namespace C20
open Model

/-- NaN-propagating scalars over `K` with square-root operation `sq` (`none` = NaN / ±inf). -/
def Opt (K : Type) (_sq : K → K) : Type := Option K

section
variable {K : Type} [Field K] [LinearOrder K] [IsStrictOrderedRing K] {sq : K → K}

namespace Opt
def lt' (a b : Opt K sq) : Prop := match a, b with
  | some x, some y => x < y
  | _, _ => False
def le' (a b : Opt K sq) : Prop := match a, b with
  | some x, some y => x ≤ y
  | _, _ => False
instance : (a b : Opt K sq) → Decidable (lt' a b)
  | some x, some y => inferInstanceAs (Decidable (x < y))
  | none, _ => isFalse (by simp [lt'])
  | some _, none => isFalse (by simp [lt'])
instance : (a b : Opt K sq) → Decidable (le' a b)
  | some x, some y => inferInstanceAs (Decidable (x ≤ y))
  | none, _ => isFalse (by simp [le'])
  | some _, none => isFalse (by simp [le'])
end Opt

instance instNumOpt : Num (Opt K sq) where
  add a b := match a, b with | some x, some y => some (x + y) | _, _ => none
  sub a b := match a, b with | some x, some y => some (x - y) | _, _ => none
  mul a b := match a, b with | some x, some y => some (x * y) | _, _ => none
  div a b := match a, b with
    | some x, some y => if y = 0 then none else some (x / y)
    | _, _ => none
  neg a := match a with | some x => some (-x) | none => none
  lt := Opt.lt'
  le := Opt.le'
  zero := some 0
  one := some 1
  sqrt a := match a with
    | some x => if x < 0 then none else some (sq x)
    | none => none
  ofRat q := some (q : K)
  decLt a b := inferInstanceAs (Decidable (Opt.lt' a b))
  decLe a b := inferInstanceAs (Decidable (Opt.le' a b))

/-- a finite value -/
@[reducible] def val (x : K) : Opt K sq := some x
/-- NaN -/
@[reducible] def nan : Opt K sq := none

@[optsimp] theorem val_add (a b : K) : (val a + val b : Opt K sq) = val (a + b) := id rfl
@[optsimp] theorem val_sub (a b : K) : (val a - val b : Opt K sq) = val (a - b) := id rfl
@[optsimp] theorem val_mul (a b : K) : (val a * val b : Opt K sq) = val (a * b) := id rfl
@[optsimp] theorem val_neg (a : K) : (-(val a) : Opt K sq) = val (-a) := id rfl
@[optsimp] theorem val_zero : (0 : Opt K sq) = val 0 := id rfl
@[optsimp] theorem val_one : (1 : Opt K sq) = val 1 := id rfl
/-- comparisons of finite values are the field's comparisons (stated at the `fieldNum` instance so that both sides of a
definedness theorem carry syntactically the same propositions and `Decidable` instances) -/
@[optsimp] theorem val_lt (a b : K) : ((val a : Opt K sq) < val b) = (letI := fieldNum K sq; a < b) := id rfl
@[optsimp] theorem val_le (a b : K) : ((val a : Opt K sq) ≤ val b) = (letI := fieldNum K sq; a ≤ b) := id rfl
/-- `decide p = true` as the proposition, for *any* `Decidable` instance (the instance is an ordinary implicit argument,
so that `simp` does not insist on the canonical one: rewriting `val a ≤ val b` to `a ≤ b` by `rfl` keeps the instance) -/
@[optsimp] theorem decide_eq_true_eq' {p : Prop} {inst : Decidable p} : (@decide p inst = true) = p := by simp
@[optsimp] theorem decide_eq_false_eq' {p : Prop} {inst : Decidable p} : (@decide p inst = false) = ¬ p := by simp
attribute [optsimp] Bool.and_eq_true Bool.or_eq_true Bool.not_eq_true' Bool.not_eq_true Bool.true_eq_false
  Bool.false_eq_true if_true if_false and_true true_and Bool.true_and Bool.and_true Bool.false_and Bool.and_false
  Bool.true_or Bool.or_true Bool.false_or Bool.or_false Bool.not_true Bool.not_false
/-- every comparison with NaN is false -/
@[optsimp] theorem nan_lt (x : Opt K sq) : ((nan : Opt K sq) < x) = False := by cases x <;> exact id rfl
@[optsimp] theorem lt_nan (x : Opt K sq) : (x < (nan : Opt K sq)) = False := by cases x <;> exact id rfl
@[optsimp] theorem nan_le (x : Opt K sq) : ((nan : Opt K sq) ≤ x) = False := by cases x <;> exact id rfl
@[optsimp] theorem le_nan (x : Opt K sq) : (x ≤ (nan : Opt K sq)) = False := by cases x <;> exact id rfl
/-- NaN propagates through the arithmetic operations -/
@[optsimp] theorem nan_add (x : Opt K sq) : (nan + x : Opt K sq) = nan := by cases x <;> exact id rfl
@[optsimp] theorem add_nan (x : Opt K sq) : (x + nan : Opt K sq) = nan := by cases x <;> exact id rfl
@[optsimp] theorem nan_sub (x : Opt K sq) : (nan - x : Opt K sq) = nan := by cases x <;> exact id rfl
@[optsimp] theorem sub_nan (x : Opt K sq) : (x - nan : Opt K sq) = nan := by cases x <;> exact id rfl
@[optsimp] theorem nan_mul (x : Opt K sq) : (nan * x : Opt K sq) = nan := by cases x <;> exact id rfl
@[optsimp] theorem mul_nan (x : Opt K sq) : (x * nan : Opt K sq) = nan := by cases x <;> exact id rfl
@[optsimp] theorem nan_div (x : Opt K sq) : (nan / x : Opt K sq) = nan := by cases x <;> exact id rfl
@[optsimp] theorem div_nan (x : Opt K sq) : (x / nan : Opt K sq) = nan := by cases x <;> exact id rfl
@[optsimp] theorem neg_nan : (-(nan : Opt K sq)) = nan := id rfl
/-- division: NaN exactly when the divisor is zero -/
@[optsimp] theorem val_div (a b : K) : (val a / val b : Opt K sq) = if b = 0 then nan else val (a / b) := id rfl
theorem val_div_ne (a b : K) (h : b ≠ 0) : (val a / val b : Opt K sq) = val (a / b) := by
  rw [val_div, if_neg h]
/-- the sign test `1 / x < 0` (reads the sign bit of a zero at `Float`): `1/0 = NaN` compares false, as `1/0 = 0` does in a field -/
@[optsimp] theorem val_one_div_lt_zero (x : K) :
    ((val 1 / val x : Opt K sq) < val 0) = (letI := fieldNum K sq; (1 : K) / x < 0) := by
  by_cases h : x = 0
  · subst h
    have e : (val 1 / val 0 : Opt K sq) = nan := by rw [val_div, if_pos rfl]
    rw [e, nan_lt]; simp
  · rw [val_div_ne _ _ h, val_lt]
/-- square root: NaN exactly when the argument is negative -/
@[optsimp] theorem val_sqrt (a : K) : (Num.sqrt (val a) : Opt K sq) = if a < 0 then nan else val (sq a) := id rfl
theorem val_sqrt_nonneg (a : K) (h : 0 ≤ a) : (Num.sqrt (val a) : Opt K sq) = val (sq a) := by
  rw [val_sqrt, if_neg (not_lt.mpr h)]
@[optsimp] theorem val_ofRat (q : ℚ) : (Num.ofRat q : Opt K sq) = val (q : K) := id rfl
@[optsimp] theorem val_lit (n : Int) (d : Nat) : (lit n d : Opt K sq) = val ((mkRat n d : ℚ) : K) := id rfl
@[optsimp] theorem val_two : letI := fieldNum K sq; (two : Opt K sq) = val (two : K) := id rfl

theorem val_ite (c : Prop) [Decidable c] (x y : K) :
    (if c then val x else val y : Opt K sq) = val (if c then x else y) := by split_ifs <;> rfl
@[optsimp] theorem val_nmin (a b : K) : letI := fieldNum K sq; (nmin (val a) (val b) : Opt K sq) = val (nmin a b) := by
  unfold nmin
  by_cases h : b < a
  · rw [if_pos (show (val b : Opt K sq) < val a from h), if_pos h]
  · rw [if_neg (show ¬ (val b : Opt K sq) < val a from h), if_neg h]
@[optsimp] theorem val_nmax (a b : K) : letI := fieldNum K sq; (nmax (val a) (val b) : Opt K sq) = val (nmax a b) := by
  unfold nmax
  by_cases h : a < b
  · rw [if_pos (show (val a : Opt K sq) < val b from h), if_pos h]
  · rw [if_neg (show ¬ (val a : Opt K sq) < val b from h), if_neg h]
@[optsimp] theorem val_nabs (a : K) : letI := fieldNum K sq; (nabs (val a) : Opt K sq) = val (nabs a) := by
  unfold nabs
  by_cases h : a < 0
  · rw [if_pos (show (val a : Opt K sq) < 0 from h), if_pos h]; rfl
  · rw [if_neg (show ¬ (val a : Opt K sq) < 0 from h), if_neg h]
@[optsimp] theorem val_nclamp (x lo hi : K) :
    letI := fieldNum K sq; (nclamp (val x) (val lo) (val hi) : Opt K sq) = val (nclamp x lo hi) := by
  unfold nclamp
  by_cases h : x < lo
  · rw [if_pos (show (val x : Opt K sq) < val lo from h), if_pos h]
  · rw [if_neg (show ¬ (val x : Opt K sq) < val lo from h), if_neg h]
    by_cases h2 : hi < x
    · rw [if_pos (show (val hi : Opt K sq) < val x from h2), if_pos h2]
    · rw [if_neg (show ¬ (val hi : Opt K sq) < val x from h2), if_neg h2]
@[optsimp] theorem val_neq (a b : K) : letI := fieldNum K sq; neq (val a : Opt K sq) (val b) = neq a b := id rfl

/-- close a leaf of a definedness proof: both sides are syntactically the same after pushing `val`/`lift` outward -/
macro "opt_leaf" : tactic => `(tactic| first | rfl | (simp only [optsimp] <;> rfl))

/-- alternate `split_ifs` and `simp only [optsimp]` until neither makes progress (divisions and square roots unfold to
`if divisor = 0 then nan else …`, which can only be evaluated after the enclosing branch is known) -/
macro "opt_steps" : tactic => `(tactic| repeat' (first | split_ifs | (simp only [optsimp])))

/-- `ite` congruence for equal conditions, whatever the two `Decidable` instances -/
theorem ite_congr' {α : Sort _} {c : Prop} {i1 i2 : Decidable c} {x y u v : α}
    (h₂ : c → x = u) (h₃ : ¬c → y = v) : @ite α c i1 x y = @ite α c i2 u v := by
  by_cases h : c
  · rw [if_pos h, if_pos h]; exact h₂ h
  · rw [if_neg h, if_neg h]; exact h₃ h

/-- descend simultaneously through two parallel `if` trees (linear in the size of the term, unlike `split_ifs`) -/
macro "opt_tree" : tactic => `(tactic| repeat' (first | rfl | refine ite_congr' (fun _ => ?_) (fun _ => ?_)))

attribute [optsimp] fieldNum_sqrt

/-! ## vectors -/

/-- inject a finite vector -/
def lift2 (v : V2 K) : V2 (Opt K sq) := ⟨val v.x, val v.y⟩
def lift3 (v : V3 K) : V3 (Opt K sq) := ⟨val v.x, val v.y, val v.z⟩

@[optsimp] theorem lift3_mk (a b c : K) : (⟨val a, val b, val c⟩ : V3 (Opt K sq)) = lift3 ⟨a, b, c⟩ := id rfl
@[optsimp] theorem lift2_mk (a b : K) : (⟨val a, val b⟩ : V2 (Opt K sq)) = lift2 ⟨a, b⟩ := id rfl
@[optsimp] theorem lift3_x (v : V3 K) : (lift3 v : V3 (Opt K sq)).x = val v.x := id rfl
@[optsimp] theorem lift3_y (v : V3 K) : (lift3 v : V3 (Opt K sq)).y = val v.y := id rfl
@[optsimp] theorem lift3_z (v : V3 K) : (lift3 v : V3 (Opt K sq)).z = val v.z := id rfl
@[optsimp] theorem lift2_x (v : V2 K) : (lift2 v : V2 (Opt K sq)).x = val v.x := id rfl
@[optsimp] theorem lift2_y (v : V2 K) : (lift2 v : V2 (Opt K sq)).y = val v.y := id rfl

section V3
variable (a b : V3 K) (s : K)
@[optsimp] theorem lift3_add : letI := fieldNum K sq; (lift3 a : V3 (Opt K sq)).add (lift3 b) = lift3 (a.add b) := id rfl
@[optsimp] theorem lift3_sub : letI := fieldNum K sq; (lift3 a : V3 (Opt K sq)).sub (lift3 b) = lift3 (a.sub b) := id rfl
@[optsimp] theorem lift3_neg : letI := fieldNum K sq; (lift3 a : V3 (Opt K sq)).neg = lift3 a.neg := id rfl
@[optsimp] theorem lift3_smul : letI := fieldNum K sq; (lift3 a : V3 (Opt K sq)).smul (val s) = lift3 (a.smul s) := id rfl
@[optsimp] theorem lift3_cmul : letI := fieldNum K sq; (lift3 a : V3 (Opt K sq)).cmul (lift3 b) = lift3 (a.cmul b) := id rfl
@[optsimp] theorem lift3_dot : letI := fieldNum K sq; (lift3 a : V3 (Opt K sq)).dot (lift3 b) = val (a.dot b) := id rfl
@[optsimp] theorem lift3_normSq : letI := fieldNum K sq; (lift3 a : V3 (Opt K sq)).normSq = val a.normSq := id rfl
@[optsimp] theorem lift3_cross : letI := fieldNum K sq; (lift3 a : V3 (Opt K sq)).cross (lift3 b) = lift3 (a.cross b) := id rfl
@[optsimp] theorem lift3_zero : letI := fieldNum K sq; (V3.zero : V3 (Opt K sq)) = lift3 V3.zero := id rfl
@[optsimp] theorem lift3_inf : letI := fieldNum K sq; (lift3 a : V3 (Opt K sq)).inf (lift3 b) = lift3 (a.inf b) := by
  simp only [V3.inf, lift3, val_nmin]
@[optsimp] theorem lift3_sup : letI := fieldNum K sq; (lift3 a : V3 (Opt K sq)).sup (lift3 b) = lift3 (a.sup b) := by
  simp only [V3.sup, lift3, val_nmax]
@[optsimp] theorem lift3_abs : letI := fieldNum K sq; (lift3 a : V3 (Opt K sq)).abs = lift3 a.abs := by
  simp only [V3.abs, lift3, val_nabs]
@[optsimp] theorem lift3_get (i : Nat) : (lift3 a : V3 (Opt K sq)).get i = val (a.get i) := by
  simp only [V3.get, lift3]; split_ifs <;> rfl
@[optsimp] theorem lift3_set (i : Nat) : (lift3 a : V3 (Opt K sq)).set i (val s) = lift3 (a.set i s) := by
  simp only [V3.set, lift3]; split_ifs <;> rfl
@[optsimp] theorem lift3_center : letI := fieldNum K sq; (lift3 a : V3 (Opt K sq)).center (lift3 b) = lift3 (a.center b) := id rfl
theorem normSq3_nonneg : letI := fieldNum K sq; 0 ≤ a.normSq := by
  simp only [V3.normSq, V3.dot]; nlinarith [mul_self_nonneg a.x, mul_self_nonneg a.y, mul_self_nonneg a.z]
/-- `norm` is always defined: the argument of the square root is a sum of squares -/
@[optsimp] theorem lift3_norm : letI := fieldNum K sq; (lift3 a : V3 (Opt K sq)).norm = val a.norm := by
  simp only [V3.norm, lift3_normSq]; exact val_sqrt_nonneg _ (normSq3_nonneg a)
/-- componentwise division: NaN exactly when the divisor is zero -/
@[optsimp] theorem lift3_sdiv_ite : letI := fieldNum K sq;
    (lift3 a : V3 (Opt K sq)).sdiv (val s) = if s = 0 then ⟨nan, nan, nan⟩ else lift3 (a.sdiv s) := by
  simp only [V3.sdiv, lift3, val_div]; split_ifs <;> rfl
theorem lift3_sdiv (h : s ≠ 0) : letI := fieldNum K sq; (lift3 a : V3 (Opt K sq)).sdiv (val s) = lift3 (a.sdiv s) := by
  simp only [V3.sdiv, lift3, val_div_ne _ _ h]
end V3

section V2
variable (a b : V2 K) (s : K)
@[optsimp] theorem lift2_add : letI := fieldNum K sq; (lift2 a : V2 (Opt K sq)).add (lift2 b) = lift2 (a.add b) := id rfl
@[optsimp] theorem lift2_sub : letI := fieldNum K sq; (lift2 a : V2 (Opt K sq)).sub (lift2 b) = lift2 (a.sub b) := id rfl
@[optsimp] theorem lift2_neg : letI := fieldNum K sq; (lift2 a : V2 (Opt K sq)).neg = lift2 a.neg := id rfl
@[optsimp] theorem lift2_smul : letI := fieldNum K sq; (lift2 a : V2 (Opt K sq)).smul (val s) = lift2 (a.smul s) := id rfl
@[optsimp] theorem lift2_cmul : letI := fieldNum K sq; (lift2 a : V2 (Opt K sq)).cmul (lift2 b) = lift2 (a.cmul b) := id rfl
@[optsimp] theorem lift2_dot : letI := fieldNum K sq; (lift2 a : V2 (Opt K sq)).dot (lift2 b) = val (a.dot b) := id rfl
@[optsimp] theorem lift2_normSq : letI := fieldNum K sq; (lift2 a : V2 (Opt K sq)).normSq = val a.normSq := id rfl
@[optsimp] theorem lift2_perp : letI := fieldNum K sq; (lift2 a : V2 (Opt K sq)).perp (lift2 b) = val (a.perp b) := id rfl
@[optsimp] theorem lift2_zero : letI := fieldNum K sq; (V2.zero : V2 (Opt K sq)) = lift2 V2.zero := id rfl
@[optsimp] theorem lift2_inf : letI := fieldNum K sq; (lift2 a : V2 (Opt K sq)).inf (lift2 b) = lift2 (a.inf b) := by
  simp only [V2.inf, lift2, val_nmin]
@[optsimp] theorem lift2_sup : letI := fieldNum K sq; (lift2 a : V2 (Opt K sq)).sup (lift2 b) = lift2 (a.sup b) := by
  simp only [V2.sup, lift2, val_nmax]
@[optsimp] theorem lift2_abs : letI := fieldNum K sq; (lift2 a : V2 (Opt K sq)).abs = lift2 a.abs := by
  simp only [V2.abs, lift2, val_nabs]
@[optsimp] theorem lift2_get (i : Nat) : (lift2 a : V2 (Opt K sq)).get i = val (a.get i) := by
  simp only [V2.get, lift2]; split_ifs <;> rfl
@[optsimp] theorem lift2_set (i : Nat) : (lift2 a : V2 (Opt K sq)).set i (val s) = lift2 (a.set i s) := by
  simp only [V2.set, lift2]; split_ifs <;> rfl
@[optsimp] theorem lift2_center : letI := fieldNum K sq; (lift2 a : V2 (Opt K sq)).center (lift2 b) = lift2 (a.center b) := id rfl
theorem normSq2_nonneg : letI := fieldNum K sq; 0 ≤ a.normSq := by
  simp only [V2.normSq, V2.dot]; nlinarith [mul_self_nonneg a.x, mul_self_nonneg a.y]
@[optsimp] theorem lift2_norm : letI := fieldNum K sq; (lift2 a : V2 (Opt K sq)).norm = val a.norm := by
  simp only [V2.norm, lift2_normSq]; exact val_sqrt_nonneg _ (normSq2_nonneg a)
@[optsimp] theorem lift2_sdiv_ite : letI := fieldNum K sq;
    (lift2 a : V2 (Opt K sq)).sdiv (val s) = if s = 0 then ⟨nan, nan⟩ else lift2 (a.sdiv s) := by
  simp only [V2.sdiv, lift2, val_div]; split_ifs <;> rfl
theorem lift2_sdiv (h : s ≠ 0) : letI := fieldNum K sq; (lift2 a : V2 (Opt K sq)).sdiv (val s) = lift2 (a.sdiv s) := by
  simp only [V2.sdiv, lift2, val_div_ne _ _ h]
end V2

theorem neq_iff (a b : K) : letI := fieldNum K sq; neq a b = true ↔ a = b := by
  simp only [neq, Bool.and_eq_true, decide_eq_true_eq]
  exact ⟨fun ⟨h1, h2⟩ => le_antisymm h1 h2, fun h => ⟨h.le, h.ge⟩⟩

theorem normSq3_eq_zero (v : V3 K) (h : letI := fieldNum K sq; v.normSq = 0) : v.x = 0 ∧ v.y = 0 ∧ v.z = 0 := by
  simp only [V3.normSq, V3.dot] at h
  have hx : v.x * v.x = 0 := by nlinarith [mul_self_nonneg v.x, mul_self_nonneg v.y, mul_self_nonneg v.z]
  have hy : v.y * v.y = 0 := by nlinarith [mul_self_nonneg v.x, mul_self_nonneg v.y, mul_self_nonneg v.z]
  have hz : v.z * v.z = 0 := by nlinarith [mul_self_nonneg v.x, mul_self_nonneg v.y, mul_self_nonneg v.z]
  exact ⟨mul_self_eq_zero.mp hx, mul_self_eq_zero.mp hy, mul_self_eq_zero.mp hz⟩
theorem normSq2_eq_zero (v : V2 K) (h : letI := fieldNum K sq; v.normSq = 0) : v.x = 0 ∧ v.y = 0 := by
  simp only [V2.normSq, V2.dot] at h
  have hx : v.x * v.x = 0 := by nlinarith [mul_self_nonneg v.x, mul_self_nonneg v.y]
  have hy : v.y * v.y = 0 := by nlinarith [mul_self_nonneg v.x, mul_self_nonneg v.y]
  exact ⟨mul_self_eq_zero.mp hx, mul_self_eq_zero.mp hy⟩
/-- `f64::EPSILON` and friends are positive -/
theorem lit_pos (n : Int) (d : Nat) (hn : 0 < n) (hd : 0 < d) : (0 : K) < ((mkRat n d : ℚ) : K) := by
  have : (0 : ℚ) < mkRat n d := by
    rw [Rat.mkRat_eq_div]; exact div_pos (by exact_mod_cast hn) (by exact_mod_cast hd)
  exact_mod_cast this

/-! ## isometries -/

def liftIso3 (m : Iso3 K) : Iso3 (Opt K sq) := ⟨val m.qi, val m.qj, val m.qk, val m.qw, lift3 m.t⟩
def liftIso2 (m : Iso2 K) : Iso2 (Opt K sq) := ⟨val m.re, val m.im, lift2 m.t⟩

section Iso
variable (m n : Iso3 K) (m2 n2 : Iso2 K) (v : V3 K) (v2 : V2 K)
@[optsimp] theorem liftIso3_mk (a b c d : K) (t : V3 K) :
    (⟨val a, val b, val c, val d, lift3 t⟩ : Iso3 (Opt K sq)) = liftIso3 ⟨a, b, c, d, t⟩ := id rfl
@[optsimp] theorem liftIso2_mk (a b : K) (t : V2 K) :
    (⟨val a, val b, lift2 t⟩ : Iso2 (Opt K sq)) = liftIso2 ⟨a, b, t⟩ := id rfl
@[optsimp] theorem liftIso3_t : (liftIso3 m : Iso3 (Opt K sq)).t = lift3 m.t := id rfl
@[optsimp] theorem liftIso3_qi : (liftIso3 m : Iso3 (Opt K sq)).qi = val m.qi := id rfl
@[optsimp] theorem liftIso3_qj : (liftIso3 m : Iso3 (Opt K sq)).qj = val m.qj := id rfl
@[optsimp] theorem liftIso3_qk : (liftIso3 m : Iso3 (Opt K sq)).qk = val m.qk := id rfl
@[optsimp] theorem liftIso3_qw : (liftIso3 m : Iso3 (Opt K sq)).qw = val m.qw := id rfl
@[optsimp] theorem liftIso3_qv : letI := fieldNum K sq; (liftIso3 m : Iso3 (Opt K sq)).qv = lift3 m.qv := id rfl
@[optsimp] theorem liftIso2_t : (liftIso2 m2 : Iso2 (Opt K sq)).t = lift2 m2.t := id rfl
@[optsimp] theorem liftIso2_re : (liftIso2 m2 : Iso2 (Opt K sq)).re = val m2.re := id rfl
@[optsimp] theorem liftIso2_im : (liftIso2 m2 : Iso2 (Opt K sq)).im = val m2.im := id rfl
@[optsimp] theorem liftIso3_rot : letI := fieldNum K sq;
    (liftIso3 m : Iso3 (Opt K sq)).rot (lift3 v) = lift3 (m.rot v) := id rfl
@[optsimp] theorem liftIso3_invRot : letI := fieldNum K sq;
    (liftIso3 m : Iso3 (Opt K sq)).invRot (lift3 v) = lift3 (m.invRot v) := id rfl
@[optsimp] theorem liftIso3_act : letI := fieldNum K sq;
    (liftIso3 m : Iso3 (Opt K sq)).act (lift3 v) = lift3 (m.act v) := id rfl
@[optsimp] theorem liftIso3_invAct : letI := fieldNum K sq;
    (liftIso3 m : Iso3 (Opt K sq)).invAct (lift3 v) = lift3 (m.invAct v) := id rfl
@[optsimp] theorem liftIso3_inverse : letI := fieldNum K sq;
    (liftIso3 m : Iso3 (Opt K sq)).inverse = liftIso3 m.inverse := id rfl
@[optsimp] theorem liftIso3_mul : letI := fieldNum K sq;
    (liftIso3 m : Iso3 (Opt K sq)).mul (liftIso3 n) = liftIso3 (m.mul n) := id rfl
@[optsimp] theorem liftIso3_invMul : letI := fieldNum K sq;
    (liftIso3 m : Iso3 (Opt K sq)).invMul (liftIso3 n) = liftIso3 (m.invMul n) := id rfl
@[optsimp] theorem liftIso3_identity : letI := fieldNum K sq;
    (Iso3.identity : Iso3 (Opt K sq)) = liftIso3 Iso3.identity := id rfl
@[optsimp] theorem liftIso2_rot : letI := fieldNum K sq;
    (liftIso2 m2 : Iso2 (Opt K sq)).rot (lift2 v2) = lift2 (m2.rot v2) := id rfl
@[optsimp] theorem liftIso2_invRot : letI := fieldNum K sq;
    (liftIso2 m2 : Iso2 (Opt K sq)).invRot (lift2 v2) = lift2 (m2.invRot v2) := id rfl
@[optsimp] theorem liftIso2_act : letI := fieldNum K sq;
    (liftIso2 m2 : Iso2 (Opt K sq)).act (lift2 v2) = lift2 (m2.act v2) := id rfl
@[optsimp] theorem liftIso2_invAct : letI := fieldNum K sq;
    (liftIso2 m2 : Iso2 (Opt K sq)).invAct (lift2 v2) = lift2 (m2.invAct v2) := id rfl
@[optsimp] theorem liftIso2_inverse : letI := fieldNum K sq;
    (liftIso2 m2 : Iso2 (Opt K sq)).inverse = liftIso2 m2.inverse := id rfl
@[optsimp] theorem liftIso2_mul : letI := fieldNum K sq;
    (liftIso2 m2 : Iso2 (Opt K sq)).mul (liftIso2 n2) = liftIso2 (m2.mul n2) := id rfl
@[optsimp] theorem liftIso2_invMul : letI := fieldNum K sq;
    (liftIso2 m2 : Iso2 (Opt K sq)).invMul (liftIso2 n2) = liftIso2 (m2.invMul n2) := id rfl
@[optsimp] theorem liftIso2_identity : letI := fieldNum K sq;
    (Iso2.identity : Iso2 (Opt K sq)) = liftIso2 Iso2.identity := id rfl
end Iso

/-- `normalize`: defined exactly when the square-root operation does not vanish at `|v|²` -/
theorem lift3_normalize (v : V3 K) (h : letI := fieldNum K sq; sq v.normSq ≠ 0) : letI := fieldNum K sq;
    (lift3 v : V3 (Opt K sq)).normalize = lift3 v.normalize := by
  simp only [V3.normalize]; rw [lift3_norm]; simp only [V3.norm, fieldNum_sqrt, lift3_sdiv_ite, if_neg h]
theorem lift2_normalize (v : V2 K) (h : letI := fieldNum K sq; sq v.normSq ≠ 0) : letI := fieldNum K sq;
    (lift2 v : V2 (Opt K sq)).normalize = lift2 v.normalize := by
  simp only [V2.normalize]; rw [lift2_norm]; simp only [V2.norm, fieldNum_sqrt, lift2_sdiv_ite, if_neg h]

/-- lifting of optional results -/
@[optsimp] theorem option_map_some' {α β : Type} (f : α → β) (a : α) : Option.map f (some a) = some (f a) := rfl
@[optsimp] theorem option_map_none' {α β : Type} (f : α → β) : Option.map f (none : Option α) = none := rfl

theorem neq_false_iff (a b : K) : letI := fieldNum K sq; neq a b = false ↔ a ≠ b := by
  rw [← Bool.not_eq_true, neq_iff]
@[optsimp] theorem neq_true_eq (a b : K) : letI := fieldNum K sq; (neq a b = true) = (a = b) := propext (neq_iff a b)
@[optsimp] theorem neq_false_eq (a b : K) : letI := fieldNum K sq; (neq a b = false) = (a ≠ b) :=
  propext (neq_false_iff a b)

/-! ## square roots that are divided by -/

/-- the square-root operation is positive above the threshold `θ` (`θ = 0` for a lawful square root; `θ = 2⁻⁸⁰` for the
rational approximation behind `NaNable`, which returns `0` on smaller non-square arguments) -/
def SqrtPos (sq : K → K) (θ : K) : Prop := ∀ x, θ < x → 0 < sq x

theorem SqrtPos.ne {θ : K} (h : SqrtPos sq θ) {x : K} (hx : θ < x) : sq x ≠ 0 := ne_of_gt (h x hx)

/-- with `θ = 0` every "no underflow" hypothesis `x = 0 ∨ θ < x` on a non-negative quantity holds -/
theorem noUnderflow_zero {x : K} (h : 0 ≤ x) : x = 0 ∨ (0 : K) < x := by
  rcases eq_or_lt_of_le h with h | h
  · exact Or.inl h.symm
  · exact Or.inr h

end
end C20
