import ParryModel.Field
import ParryModel.C04.ModelComposite
set_option linter.unusedVariables false
set_option linter.unusedSimpArgs false
/-!
# C20, part 13: termination (fuel adequacy) of the cell walk of the 3-D `HeightField` ray cast

`HeightField::cast_local_ray_and_get_normal` walks from cell to cell in an unbounded `loop`; the model
(`C04/ModelComposite.lean`, `HeightField3.walk`) gives it `nrows + ncols` units of fuel.  "No hang" is proved here: the
column index moves by `+1` exactly when `0 < dir.x` and by `−1` otherwise, the row index likewise with `dir.z`, and a step
is taken only to a cell inside the grid — so the potential

    μ(i, j) = (if 0 < dir.x then ncols − 1 − j else j) + (if 0 < dir.z then nrows − 1 − i else i)

drops by one per iteration and any fuel above it gives the same result.  Over the lawless `Num`: also for NaN rays, NaN heights.
-/
namespace C20
open Model Model.HeightField3

variable {K : Type} [Num K]

/-- the potential of a cell for a given ray -/
def hfMu (h : HeightField3 K) (ray : Ray3 K) (c : Nat × Nat) : Nat :=
  (if 0 < ray.d.x then h.nc - 1 - c.2 else c.2) + (if 0 < ray.d.z then h.nr - 1 - c.1 else c.1)

/-- a step of the walk goes to a cell of strictly smaller potential -/
theorem nextCell_decreases (big : K) (h : HeightField3 K) (ray : Ray3 K) (maxT : K) (ci cj : Nat) (c : Nat × Nat)
    (hn : h.nextCell big ray maxT ci cj = some c) : hfMu h ray c < hfMu h ray (ci, cj) := by
  unfold HeightField3.nextCell at hn
  simp only at hn
  split_ifs at hn with h1 h2 h3 h4 h5 h6 h7 h8 h9 <;> simp only [Option.some.injEq, reduceCtorEq] at hn
  all_goals try (exfalso; simp at *; done)
  all_goals (split_ifs at hn with hb <;> simp only [Option.some.injEq, reduceCtorEq] at hn)
  all_goals (subst hn; simp only [hfMu]; split_ifs <;> omega)

/-- **C20 (termination of the 3-D height-field ray walk)**: the `loop` leaves through a hit or one of its own `break`s, never
through the fuel — any two amounts of fuel above the potential of the current cell give the same result.  Every height
field (any sizes, removed cells), ray (zero / NaN direction included), `max_toi`, `solid`. -/
theorem hfWalk_fuel_adequate (big : K) (h : HeightField3 K) (ray : Ray3 K) (maxToi : K) (solid : Bool) (maxT : K) :
    ∀ (fuel fuel' : Nat) (c : Nat × Nat), hfMu h ray c < fuel → hfMu h ray c < fuel' →
      walk big h ray maxToi solid maxT fuel c = walk big h ray maxToi solid maxT fuel' c := by
  intro fuel
  induction fuel with
  | zero => intro fuel' c hc; omega
  | succ n ih =>
    intro fuel' c hc hc'
    cases fuel' with
    | zero => omega
    | succ n' =>
      obtain ⟨ci, cj⟩ := c
      simp only [walk]
      cases hfCellCast (h.trianglesAt ci cj).1 (h.trianglesAt ci cj).2 ray maxToi solid with
      | some r => rfl
      | none =>
        simp only
        cases hnx : h.nextCell big ray maxT ci cj with
        | none => rfl
        | some c' =>
          have hd := nextCell_decreases big h ray maxT ci cj c' hnx
          exact ih n' c' (by omega) (by omega)

/-- **the cap of the model is adequate**: from any start cell of the grid (`i ≤ nrows − 1`, `j ≤ ncols − 1`; `closest_cell_at_point`
clamps to it) the potential is below `nrows + ncols`; more fuel changes nothing. -/
theorem hfWalk_cap_adequate (big : K) (h : HeightField3 K) (ray : Ray3 K) (maxToi : K) (solid : Bool) (maxT : K)
    (c : Nat × Nat) (hi : c.1 ≤ h.nr - 1) (hj : c.2 ≤ h.nc - 1) (hr : 0 < h.nr) (hcn : 0 < h.nc) (extra : Nat) :
    walk big h ray maxToi solid maxT (h.nr + h.nc + extra) c = walk big h ray maxToi solid maxT (h.nr + h.nc) c := by
  have hm : hfMu h ray c < h.nr + h.nc := by
    simp only [hfMu]; split_ifs <;> omega
  exact hfWalk_fuel_adequate big h ray maxToi solid maxT _ _ c (by omega) hm

end C20
