import ParryModel.C20.Lemmas
import ParryModel.C01.Lemmas
set_option linter.style.haveILetI false
set_option linter.unusedSimpArgs false
set_option linter.unusedSectionVars false
set_option linter.unusedVariables false
/-!
# C20 definedness theorems, part 8: the closed-form distance / closest-point kernels of C01

Same shape as `Theorems2`: `f (lift x) = lift (f x)` with the left side at the NaN-propagating scalars `Opt K sq` and the right
side at the lawful field instance (`fieldNum K sq`, `C01.fieldBits K`).  `copysign` / `ulps_eq!` are the class `NumBits`; at
`Opt K sq` they propagate NaN (`optBits`).
-/
namespace C20
open Model Model.Dist

variable {K : Type} [Field K] [LinearOrder K] [IsStrictOrderedRing K] (sq : K → K)

/-- the bit-level primitives at the NaN-propagating scalars: NaN in, NaN out (`ulps_eq!` with a NaN is false) -/
instance optBits : NumBits (Opt K sq) where
  copysign mag sgn := match mag, sgn with
    | some m, some s => some (if s < 0 then -|m| else |m|)
    | _, _ => none
  ulpsEq a b := match a, b with
    | some x, some y => decide (|x - y| ≤ ((mkRat 1 4503599627370496 : ℚ) : K))
    | _, _ => false

@[optsimp] private theorem val_copysign (m s : K) :
    letI := C01.fieldBits K
    (copysign (val m : Opt K sq) (val s)) = val (copysign m s) := id rfl
@[optsimp] private theorem val_ulpsEq (a b : K) :
    letI := C01.fieldBits K
    (ulpsEq (val a : Opt K sq) (val b)) = ulpsEq a b := id rfl
@[optsimp] private theorem eps_val' : letI := fieldNum K sq; (Dist.eps : Opt K sq) = val (Dist.eps : K) := id rfl
@[optsimp] private theorem realMax_val : letI := fieldNum K sq; (Dist.realMax : Opt K sq) = val (Dist.realMax : K) := id rfl
private theorem eps_pos' : letI := fieldNum K sq; (0 : K) < Dist.eps := lit_pos 1 _ (by decide) (by decide)

/-- lifting of `ClosestPoints` -/
def liftDistCP3 : CP (V3 K) → CP (V3 (Opt K sq))
  | .intersecting => .intersecting
  | .within a b => .within (lift3 a) (lift3 b)
  | .disjoint => .disjoint
def liftDistCP2 : CP (V2 K) → CP (V2 (Opt K sq))
  | .intersecting => .intersecting
  | .within a b => .within (lift2 a) (lift2 b)
  | .disjoint => .disjoint

/-! ## ball / ball -/

/-- **C20 (distance_ball_ball)**: defined for every finite radii (any sign) and centre — coincident centres, touching and
overlapping balls included (the square root is taken of a sum of squares; no division). -/
theorem defined_c01_distanceBallBall (r1 r2 : K) (c3 : V3 K) (c2 : V2 K) :
    letI := fieldNum K sq
    distanceBallBall (val r1 : Opt K sq) (val r2) (lift3 c3) = val (distanceBallBall r1 r2 c3) ∧
    distanceBallBall2 (val r1 : Opt K sq) (val r2) (lift2 c2) = val (distanceBallBall2 r1 r2 c2) := by
  letI := fieldNum K sq
  refine ⟨?_, ?_⟩
  · simp only [distanceBallBall, optsimp]
    opt_steps
    all_goals first | rfl | (exfalso; linarith [normSq3_nonneg (sq := sq) c3])
  · simp only [distanceBallBall2, optsimp]
    opt_steps
    all_goals first | rfl | (exfalso; linarith [normSq2_nonneg (sq := sq) c2])

/-- **C20 (closest_points_ball_ball, 3-D)**: for radii with `r1 + r2 ≥ 0` (in particular the valid `r1, r2 ≥ 0`, zero
included), every finite relative pose (any quaternion) and margin — **coincident centres included**: the direction is
normalised only when `|delta| > r1 + r2 ≥ 0`, so the divisor `sqrt |delta|²` is non-zero by the branch test itself
(nothing is asked of the square-root operation).  `none` is the documented `assert!(margin >= 0)`. -/
theorem defined_c01_closestPointsBallBall (pos12 : Iso3 K) (r1 r2 margin : K) (hr : 0 ≤ r1 + r2) :
    letI := fieldNum K sq
    closestPointsBallBall (liftIso3 pos12 : Iso3 (Opt K sq)) (val r1) (val r2) (val margin)
      = (closestPointsBallBall pos12 r1 r2 margin).map (liftDistCP3 sq) := by
  letI := fieldNum K sq
  simp only [closestPointsBallBall, optsimp]
  opt_steps
  all_goals first | rfl | (exfalso; simp only [V3.norm, optsimp] at *; linarith)

theorem defined_c01_closestPointsBallBall2 (pos12 : Iso2 K) (r1 r2 margin : K) (hr : 0 ≤ r1 + r2) :
    letI := fieldNum K sq
    closestPointsBallBall2 (liftIso2 pos12 : Iso2 (Opt K sq)) (val r1) (val r2) (val margin)
      = (closestPointsBallBall2 pos12 r1 r2 margin).map (liftDistCP2 sq) := by
  letI := fieldNum K sq
  simp only [closestPointsBallBall2, optsimp]
  opt_steps
  all_goals first | rfl | (exfalso; simp only [V2.norm, optsimp] at *; linarith)

/-! ## support maps, half-space kernels -/

/-- **C20 (Cuboid::local_support_point / support_point)**: `copysign` only: defined for every half-extents, every pose and
**every direction, zero included**. -/
theorem defined_c01_cuboidSupport (he dir : V3 K) (m : Iso3 K) (he2 dir2 : V2 K) (m2 : Iso2 K) :
    letI := fieldNum K sq; letI := C01.fieldBits K
    cuboidSupport (lift3 he : V3 (Opt K sq)) (liftIso3 m) (lift3 dir) = lift3 (cuboidSupport he m dir) ∧
    cuboidSupport2 (lift2 he2 : V2 (Opt K sq)) (liftIso2 m2) (lift2 dir2) = lift2 (cuboidSupport2 he2 m2 dir2) := by
  letI := fieldNum K sq; letI := C01.fieldBits K
  refine ⟨?_, ?_⟩
  · simp only [cuboidSupport, cuboidLocalSupport, optsimp]
  · simp only [cuboidSupport2, cuboidLocalSupport2, optsimp]

/-- **C20 (Ball::support_point)**: `translation + normalize(dir) * r` is defined exactly when the square-root operation does
not vanish at `|dir|²` (a non-zero direction whose squared norm does not underflow; for the zero direction it is `0/0`,
see `c01_ballSupport_zero_dir_nan`); `support_point_toward` (already-unit direction) is defined for every input. -/
theorem defined_c01_ballSupport (r : K) (m : Iso3 K) (dir : V3 K) (m2 : Iso2 K) (dir2 : V2 K)
    (h3 : letI := fieldNum K sq; sq dir.normSq ≠ 0) (h2 : letI := fieldNum K sq; sq dir2.normSq ≠ 0) :
    letI := fieldNum K sq
    ballSupport (val r : Opt K sq) (liftIso3 m) (lift3 dir) = lift3 (ballSupport r m dir) ∧
    ballSupportToward (val r : Opt K sq) (liftIso3 m) (lift3 dir) = lift3 (ballSupportToward r m dir) ∧
    ballSupport2 (val r : Opt K sq) (liftIso2 m2) (lift2 dir2) = lift2 (ballSupport2 r m2 dir2) ∧
    ballSupportToward2 (val r : Opt K sq) (liftIso2 m2) (lift2 dir2) = lift2 (ballSupportToward2 r m2 dir2) := by
  letI := fieldNum K sq
  refine ⟨?_, ?_, ?_, ?_⟩
  · simp only [ballSupport, ballSupportToward, V3.norm, optsimp, if_neg h3, if_neg (not_lt.mpr (normSq3_nonneg (sq := sq) dir))]
  · simp only [ballSupportToward, optsimp]
  · simp only [ballSupport2, ballSupportToward2, V2.norm, optsimp, if_neg h2, if_neg (not_lt.mpr (normSq2_nonneg (sq := sq) dir2))]
  · simp only [ballSupportToward2, optsimp]

/-- the zero direction: `Ball::support_point(m, 0)` is `0/0` (documented precondition of `support_point`: a non-zero direction) -/
theorem c01_ballSupport_zero_dir_nan :
    Option.isSome ((ballSupport (K := NaNable) (some 1) Iso3.identity ⟨some 0, some 0, some 0⟩).x : Option ℚ) = false := by
  decide +kernel

/-- **C20 (distance / closest_points half-space vs support map)**: for ANY support function that is itself defined on the
query direction (hypotheses `hT`, `hS`: e.g. `defined_c01_cuboidSupport`, `defined_c01_ballSupport`), the half-space
kernels only add dot products, one `max` and rigid motions: defined for every finite normal (unit or not), pose and margin,
touching and penetrating configurations included. -/
theorem defined_c01_halfspaceSupportMap
    (suppT : Iso3 (Opt K sq) → V3 (Opt K sq) → V3 (Opt K sq)) (suppT' : Iso3 K → V3 K → V3 K)
    (supp : Iso3 (Opt K sq) → V3 (Opt K sq) → V3 (Opt K sq)) (supp' : Iso3 K → V3 K → V3 K)
    (pos12 : Iso3 K) (n : V3 K) (margin : K)
    (hT : letI := fieldNum K sq; suppT (liftIso3 pos12) (lift3 n.neg) = lift3 (suppT' pos12 n.neg))
    (hS : letI := fieldNum K sq; supp (liftIso3 pos12) (lift3 n.neg) = lift3 (supp' pos12 n.neg)) :
    letI := fieldNum K sq
    distanceHalfspaceSupportMap suppT (liftIso3 pos12) (lift3 n) = val (distanceHalfspaceSupportMap suppT' pos12 n) ∧
    closestPointsHalfspaceSupportMap supp (liftIso3 pos12) (lift3 n) (val margin)
      = (closestPointsHalfspaceSupportMap supp' pos12 n margin).map (liftDistCP3 sq) := by
  letI := fieldNum K sq
  refine ⟨?_, ?_⟩
  · simp only [distanceHalfspaceSupportMap, optsimp, hT]
  · simp only [closestPointsHalfspaceSupportMap, optsimp, hS]
    opt_steps
    all_goals rfl

theorem defined_c01_halfspaceSupportMap2
    (suppT : Iso2 (Opt K sq) → V2 (Opt K sq) → V2 (Opt K sq)) (suppT' : Iso2 K → V2 K → V2 K)
    (supp : Iso2 (Opt K sq) → V2 (Opt K sq) → V2 (Opt K sq)) (supp' : Iso2 K → V2 K → V2 K)
    (pos12 : Iso2 K) (n : V2 K) (margin : K)
    (hT : letI := fieldNum K sq; suppT (liftIso2 pos12) (lift2 n.neg) = lift2 (suppT' pos12 n.neg))
    (hS : letI := fieldNum K sq; supp (liftIso2 pos12) (lift2 n.neg) = lift2 (supp' pos12 n.neg)) :
    letI := fieldNum K sq
    distanceHalfspaceSupportMap2 suppT (liftIso2 pos12) (lift2 n) = val (distanceHalfspaceSupportMap2 suppT' pos12 n) ∧
    closestPointsHalfspaceSupportMap2 supp (liftIso2 pos12) (lift2 n) (val margin)
      = (closestPointsHalfspaceSupportMap2 supp' pos12 n margin).map (liftDistCP2 sq) := by
  letI := fieldNum K sq
  refine ⟨?_, ?_⟩
  · simp only [distanceHalfspaceSupportMap2, optsimp, hT]
  · simp only [closestPointsHalfspaceSupportMap2, optsimp, hS]
    opt_steps
    all_goals rfl

/-! ## line / line, segment / segment -/

def lift3KKB (r : K × K × Bool) : Opt K sq × Opt K sq × Bool := (val r.1, val r.2.1, r.2.2)
def liftKK (r : K × K) : Opt K sq × Opt K sq := (val r.1, val r.2)

/-- **C20 (closest_points_line_line_parameters_eps, 3-D and 2-D)**: defined for every finite input and every `eps ≥ 0` —
**zero directions, parallel and identical lines included**: each divisor (`|d1|²`, `|d2|²`, the Gram determinant) is used
only in the branch where it was tested `> eps`. -/
theorem defined_c01_lineLineParams (o1 d1 o2 d2 : V3 K) (p1 e1 p2 e2 : V2 K) (eps : K) (he : 0 ≤ eps) :
    letI := fieldNum K sq; letI := C01.fieldBits K
    lineLineParams3 (lift3 o1 : V3 (Opt K sq)) (lift3 d1) (lift3 o2) (lift3 d2) (val eps)
      = lift3KKB sq (lineLineParams3 o1 d1 o2 d2 eps) ∧
    lineLineParams2 (lift2 p1 : V2 (Opt K sq)) (lift2 e1) (lift2 p2) (lift2 e2) (val eps)
      = lift3KKB sq (lineLineParams2 p1 e1 p2 e2 eps) := by
  letI := fieldNum K sq; letI := C01.fieldBits K
  refine ⟨?_, ?_⟩
  · simp only [lineLineParams3, lineLineParamsGen, optsimp]
    opt_steps
    all_goals first | rfl | (exfalso; linarith) | (exfalso; simp only [optsimp] at *; tauto) | (exfalso; simp_all)
  · simp only [lineLineParams2, lineLineParamsGen, optsimp]
    opt_steps
    all_goals first | rfl | (exfalso; linarith) | (exfalso; simp only [optsimp] at *; tauto) | (exfalso; simp_all)

@[optsimp] private theorem clamp01_val (x : K) :
    letI := fieldNum K sq; clamp01 (val x : Opt K sq) = val (clamp01 x) := by
  letI := fieldNum K sq
  simp only [clamp01, optsimp]
  split_ifs <;> rfl

/-- the scalar core of `segSegParamsGen`: a function of the five dot products -/
def segSegCore {K' : Type} [Num K'] [NumBits K'] (a e f c b : K') : K' × K' :=
  if a ≤ Dist.eps ∧ e ≤ Dist.eps then (0, 0)
  else if a ≤ Dist.eps then (0, clamp01 (f / e))
  else
    if e ≤ Dist.eps then (clamp01 (-c / a), 0)
    else
      let ae := a * e
      let bb := b * b
      let denom := ae - bb
      let s := if Dist.eps < denom ∧ !(ulpsEq ae bb) then clamp01 ((b * f - c * e) / denom) else 0
      let t := (b * s + f) / e
      if t < 0 then (clamp01 (-c / a), 0)
      else if 1 < t then (clamp01 ((b - c) / a), 1)
      else (s, t)

private theorem segSegParamsGen_eq_core {K' V : Type} [Num K'] [NumBits K'] (sub : V → V → V) (dot : V → V → K') (a1 b1 a2 b2 : V) :
    segSegParamsGen sub dot a1 b1 a2 b2
      = segSegCore (dot (sub b1 a1) (sub b1 a1)) (dot (sub b2 a2) (sub b2 a2)) (dot (sub b2 a2) (sub a1 a2))
          (dot (sub b1 a1) (sub a1 a2)) (dot (sub b1 a1) (sub b2 a2)) := rfl


private theorem segSegCore_lift (a e f c b : K) :
    letI := fieldNum K sq; letI := C01.fieldBits K
    segSegCore (val a : Opt K sq) (val e) (val f) (val c) (val b) = liftKK sq (segSegCore a e f c b) := by
  letI := fieldNum K sq; letI := C01.fieldBits K
  have hp : (0 : K) < Dist.eps := lit_pos 1 _ (by decide) (by decide)
  by_cases ha : a ≤ Dist.eps <;> by_cases he : e ≤ Dist.eps
  · simp only [segSegCore, optsimp, ha, he, and_self, if_true]; rfl
  · have hne : e ≠ 0 := fun h => he (h ▸ hp.le)
    simp only [segSegCore, optsimp, ha, he, and_false, if_false, if_true, if_neg hne]; rfl
  · have hna : a ≠ 0 := fun h => ha (h ▸ hp.le)
    simp only [segSegCore, optsimp, ha, he, false_and, if_false, if_true, if_neg hna]; rfl
  · have hna : a ≠ 0 := fun h => ha (h ▸ hp.le)
    have hne : e ≠ 0 := fun h => he (h ▸ hp.le)
    simp only [segSegCore, optsimp, ha, he, false_and, if_false, if_neg hna, if_neg hne]
    by_cases hd : Dist.eps < a * e - b * b ∧ ulpsEq (a * e) (b * b) = false
    · have hdn : a * e - b * b ≠ 0 := fun h => by rw [h] at hd; exact absurd hd.1 (not_lt.mpr hp.le)
      simp only [if_pos hd, if_neg hdn, optsimp, if_neg hne]
      split_ifs <;> rfl
    · simp only [if_neg hd, optsimp, if_neg hne]
      split_ifs <;> rfl

/-- **C20 (parameters of closest_points_segment_segment_with_locations_nD)**: defined for every pair of finite segments —
**zero-length segments (one or both), parallel, collinear, identical, perpendicular and crossing segments included**.
Divisors: `|d1|²`, `|d2|²` only in branches where they exceed `ε`; the Gram determinant only when it exceeds `ε`. -/
theorem defined_c01_segSegParams (a1 b1 a2 b2 : V3 K) (p1 q1 p2 q2 : V2 K) :
    letI := fieldNum K sq; letI := C01.fieldBits K
    segSegParamsGen V3.sub V3.dot (lift3 a1 : V3 (Opt K sq)) (lift3 b1) (lift3 a2) (lift3 b2)
      = liftKK sq (segSegParamsGen V3.sub V3.dot a1 b1 a2 b2) ∧
    segSegParamsGen V2.sub V2.dot (lift2 p1 : V2 (Opt K sq)) (lift2 q1) (lift2 p2) (lift2 q2)
      = liftKK sq (segSegParamsGen V2.sub V2.dot p1 q1 p2 q2) := by
  letI := fieldNum K sq; letI := C01.fieldBits K
  refine ⟨?_, ?_⟩
  · rw [segSegParamsGen_eq_core, segSegParamsGen_eq_core]
    simp only [lift3_sub, lift3_dot]
    exact segSegCore_lift sq _ _ _ _ _
  · rw [segSegParamsGen_eq_core, segSegParamsGen_eq_core]
    simp only [lift2_sub, lift2_dot]
    exact segSegCore_lift sq _ _ _ _ _

@[optsimp] private theorem pointAt3_lift (a b : V3 K) (s : K) :
    letI := fieldNum K sq; pointAt3 (lift3 a : V3 (Opt K sq)) (lift3 b) (val s) = lift3 (pointAt3 a b s) := by
  letI := fieldNum K sq
  simp only [pointAt3, optsimp]; split_ifs <;> rfl
@[optsimp] private theorem pointAt2_lift (a b : V2 K) (s : K) :
    letI := fieldNum K sq; pointAt2 (lift2 a : V2 (Opt K sq)) (lift2 b) (val s) = lift2 (pointAt2 a b s) := by
  letI := fieldNum K sq
  simp only [pointAt2, optsimp]; split_ifs <;> rfl

/-- **C20 (closest_points_segment_segment, 3-D and 2-D)**: defined for every pair of finite segments, every finite relative
pose (any quaternion / complex number) and every margin: zero-length, parallel, identical, crossing segments included. -/
theorem defined_c01_closestPointsSegmentSegment (pos12 : Iso3 K) (a1 b1 a2 b2 : V3 K)
    (pos12' : Iso2 K) (p1 q1 p2 q2 : V2 K) (margin : K) :
    letI := fieldNum K sq; letI := C01.fieldBits K
    closestPointsSegmentSegment (liftIso3 pos12 : Iso3 (Opt K sq)) (lift3 a1) (lift3 b1) (lift3 a2) (lift3 b2) (val margin)
      = liftDistCP3 sq (closestPointsSegmentSegment pos12 a1 b1 a2 b2 margin) ∧
    closestPointsSegmentSegment2 (liftIso2 pos12' : Iso2 (Opt K sq)) (lift2 p1) (lift2 q1) (lift2 p2) (lift2 q2) (val margin)
      = liftDistCP2 sq (closestPointsSegmentSegment2 pos12' p1 q1 p2 q2 margin) := by
  letI := fieldNum K sq; letI := C01.fieldBits K
  refine ⟨?_, ?_⟩
  · simp only [closestPointsSegmentSegment, optsimp, (defined_c01_segSegParams sq _ _ _ _ p1 q1 p2 q2).1, liftKK]
    split_ifs <;> rfl
  · simp only [closestPointsSegmentSegment2, optsimp, (defined_c01_segSegParams sq a1 b1 a2 b2 _ _ _ _).2, liftKK]
    split_ifs <;> rfl


/-! ## cuboid / cuboid SAT -/

def liftKV3 (r : K × V3 K) : Opt K sq × V3 (Opt K sq) := (val r.1, lift3 r.2)
def liftKV2 (r : K × V2 K) : Opt K sq × V2 (Opt K sq) := (val r.1, lift2 r.2)
@[optsimp] private theorem liftKV3_mk (a : K) (v : V3 K) : ((val a, lift3 v) : Opt K sq × V3 (Opt K sq)) = liftKV3 sq (a, v) := id rfl
@[optsimp] private theorem liftKV2_mk (a : K) (v : V2 K) : ((val a, lift2 v) : Opt K sq × V2 (Opt K sq)) = liftKV2 sq (a, v) := id rfl
@[optsimp] private theorem liftKV3_1 (r : K × V3 K) : (liftKV3 sq r).1 = val r.1 := id rfl
@[optsimp] private theorem liftKV2_1 (r : K × V2 K) : (liftKV2 sq r).1 = val r.1 := id rfl
@[optsimp] private theorem ith3_lift (i : Nat) (v : K) :
    letI := fieldNum K sq; ith3 i (val v : Opt K sq) = lift3 (ith3 i v) := by
  letI := fieldNum K sq
  simp only [ith3, optsimp]
@[optsimp] private theorem ith2_lift (i : Nat) (v : K) :
    letI := fieldNum K sq; ith2 i (val v : Opt K sq) = lift2 (ith2 i v) := by
  letI := fieldNum K sq
  simp only [ith2, optsimp]

@[optsimp] private theorem cuboidLocalSupport_lift (he d : V3 K) :
    letI := fieldNum K sq; letI := C01.fieldBits K
    cuboidLocalSupport (lift3 he : V3 (Opt K sq)) (lift3 d) = lift3 (cuboidLocalSupport he d) := by
  letI := fieldNum K sq; letI := C01.fieldBits K
  simp only [cuboidLocalSupport, optsimp]
@[optsimp] private theorem cuboidLocalSupport2_lift (he d : V2 K) :
    letI := fieldNum K sq; letI := C01.fieldBits K
    cuboidLocalSupport2 (lift2 he : V2 (Opt K sq)) (lift2 d) = lift2 (cuboidLocalSupport2 he d) := by
  letI := fieldNum K sq; letI := C01.fieldBits K
  simp only [cuboidLocalSupport2, optsimp]

private theorem satOnewayStep_lift (he1 he2 : V3 K) (pos12 : Iso3 K) (best : K × V3 K) (i : Nat) :
    letI := fieldNum K sq; letI := C01.fieldBits K
    satOnewayStep (lift3 he1 : V3 (Opt K sq)) (lift3 he2) (liftIso3 pos12) (liftKV3 sq best) i
      = liftKV3 sq (satOnewayStep he1 he2 pos12 best i) := by
  letI := fieldNum K sq; letI := C01.fieldBits K
  simp only [satOnewayStep, optsimp]
  split_ifs <;> rfl
private theorem satOnewayStep2_lift (he1 he2 : V2 K) (pos12 : Iso2 K) (best : K × V2 K) (i : Nat) :
    letI := fieldNum K sq; letI := C01.fieldBits K
    satOnewayStep2 (lift2 he1 : V2 (Opt K sq)) (lift2 he2) (liftIso2 pos12) (liftKV2 sq best) i
      = liftKV2 sq (satOnewayStep2 he1 he2 pos12 best i) := by
  letI := fieldNum K sq; letI := C01.fieldBits K
  simp only [satOnewayStep2, optsimp]
  split_ifs <;> rfl

/-- **C20 (cuboid_cuboid_find_local_separating_normal_oneway, 3-D and 2-D)**: only `copysign`, products and comparisons:
defined for every finite half-extents and relative pose — **identical boxes and coincident centres included** (the sign of a
zero translation component is `+`). -/
theorem defined_c01_satCuboidCuboidOneway (he1 he2 : V3 K) (pos12 : Iso3 K) (g1 g2 : V2 K) (pos12' : Iso2 K) :
    letI := fieldNum K sq; letI := C01.fieldBits K
    satCuboidCuboidOneway (lift3 he1 : V3 (Opt K sq)) (lift3 he2) (liftIso3 pos12)
      = liftKV3 sq (satCuboidCuboidOneway he1 he2 pos12) ∧
    satCuboidCuboidOneway2 (lift2 g1 : V2 (Opt K sq)) (lift2 g2) (liftIso2 pos12')
      = liftKV2 sq (satCuboidCuboidOneway2 g1 g2 pos12') := by
  letI := fieldNum K sq; letI := C01.fieldBits K
  refine ⟨?_, ?_⟩
  · simp only [satCuboidCuboidOneway, List.foldl, optsimp, satOnewayStep_lift]
  · simp only [satCuboidCuboidOneway2, List.foldl, optsimp, satOnewayStep2_lift]

private theorem satSeparationWrtLine_lift (he1 he2 : V3 K) (pos12 : Iso3 K) (axis : V3 K) :
    letI := fieldNum K sq; letI := C01.fieldBits K
    satSeparationWrtLine (lift3 he1 : V3 (Opt K sq)) (lift3 he2) (liftIso3 pos12) (lift3 axis)
      = liftKV3 sq (satSeparationWrtLine he1 he2 pos12 axis) := by
  letI := fieldNum K sq; letI := C01.fieldBits K
  simp only [satSeparationWrtLine, optsimp]

/-- one step of the fold of `cuboid_cuboid_find_local_separating_edge_twoway` -/
private theorem satEdgeStep_lift (he1 he2 : V3 K) (pos12 : Iso3 K) (best : K × V3 K) (axis1 : V3 K) :
    letI := fieldNum K sq; letI := C01.fieldBits K
    (if (val Dist.eps : Opt K sq) < val axis1.norm then
       if (liftKV3 sq best).1 <
           (satSeparationWrtLine (lift3 he1 : V3 (Opt K sq)) (lift3 he2) (liftIso3 pos12)
             ((lift3 axis1).sdiv (val axis1.norm))).1
       then satSeparationWrtLine (lift3 he1 : V3 (Opt K sq)) (lift3 he2) (liftIso3 pos12)
             ((lift3 axis1).sdiv (val axis1.norm))
       else liftKV3 sq best
     else liftKV3 sq best)
    = liftKV3 sq
      (if Dist.eps < axis1.norm then
         if best.1 < (satSeparationWrtLine he1 he2 pos12 (axis1.sdiv axis1.norm)).1
         then satSeparationWrtLine he1 he2 pos12 (axis1.sdiv axis1.norm) else best
       else best) := by
  letI := fieldNum K sq; letI := C01.fieldBits K
  have hp := eps_pos' sq
  by_cases h : Dist.eps < axis1.norm
  · have hn : axis1.norm ≠ 0 := fun h0 => by rw [h0] at h; exact absurd h (not_lt.mpr hp.le)
    simp only [optsimp, if_pos h, if_neg hn, satSeparationWrtLine_lift]
    split_ifs <;> rfl
  · simp only [optsimp, if_neg h]

private theorem satEdgeFold_lift (he1 he2 : V3 K) (pos12 : Iso3 K) (axes : List (V3 K)) (best : K × V3 K) :
    letI := fieldNum K sq; letI := C01.fieldBits K
    (axes.map (lift3 (sq := sq))).foldl (fun best axis1 =>
      let norm1 := axis1.norm
      if Dist.eps < norm1 then
        let r := satSeparationWrtLine (lift3 he1 : V3 (Opt K sq)) (lift3 he2) (liftIso3 pos12) (axis1.sdiv norm1)
        if best.1 < r.1 then r else best
      else best) (liftKV3 sq best)
    = liftKV3 sq (axes.foldl (fun best axis1 =>
      let norm1 := axis1.norm
      if Dist.eps < norm1 then
        let r := satSeparationWrtLine he1 he2 pos12 (axis1.sdiv norm1)
        if best.1 < r.1 then r else best
      else best) best) := by
  letI := fieldNum K sq; letI := C01.fieldBits K
  induction axes generalizing best with
  | nil => rfl
  | cons a t ih =>
    simp only [List.map_cons, List.foldl_cons]
    rw [← ih]
    congr 1
    simp only [lift3_norm, eps_val']
    exact satEdgeStep_lift sq he1 he2 pos12 best a

/-- **C20 (cuboid_cuboid_find_local_separating_edge_twoway)**: each of the nine candidate axes is normalised only when its
norm exceeds `ε`: defined for every finite half-extents and relative pose (any quaternion) — **aligned boxes (all cross
products zero), identical boxes** included. -/
theorem defined_c01_satCuboidCuboidEdgeTwoway (he1 he2 : V3 K) (pos12 : Iso3 K) :
    letI := fieldNum K sq; letI := C01.fieldBits K
    satCuboidCuboidEdgeTwoway (lift3 he1 : V3 (Opt K sq)) (lift3 he2) (liftIso3 pos12)
      = liftKV3 sq (satCuboidCuboidEdgeTwoway he1 he2 pos12) := by
  letI := fieldNum K sq; letI := C01.fieldBits K
  have key := satEdgeFold_lift sq he1 he2 pos12
    [⟨0, -(pos12.rot ⟨1, 0, 0⟩).z, (pos12.rot ⟨1, 0, 0⟩).y⟩, ⟨(pos12.rot ⟨1, 0, 0⟩).z, 0, -(pos12.rot ⟨1, 0, 0⟩).x⟩,
     ⟨-(pos12.rot ⟨1, 0, 0⟩).y, (pos12.rot ⟨1, 0, 0⟩).x, 0⟩,
     ⟨0, -(pos12.rot ⟨0, 1, 0⟩).z, (pos12.rot ⟨0, 1, 0⟩).y⟩, ⟨(pos12.rot ⟨0, 1, 0⟩).z, 0, -(pos12.rot ⟨0, 1, 0⟩).x⟩,
     ⟨-(pos12.rot ⟨0, 1, 0⟩).y, (pos12.rot ⟨0, 1, 0⟩).x, 0⟩,
     ⟨0, -(pos12.rot ⟨0, 0, 1⟩).z, (pos12.rot ⟨0, 0, 1⟩).y⟩, ⟨(pos12.rot ⟨0, 0, 1⟩).z, 0, -(pos12.rot ⟨0, 0, 1⟩).x⟩,
     ⟨-(pos12.rot ⟨0, 0, 1⟩).y, (pos12.rot ⟨0, 0, 1⟩).x, 0⟩] (-Dist.realMax, V3.zero)
  simp only [satCuboidCuboidEdgeTwoway, List.map, optsimp] at key ⊢
  exact key

end C20
