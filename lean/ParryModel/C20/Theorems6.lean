import ParryModel.C20.Lemmas
import ParryModel.C20.Theorems2
import Mathlib.Data.Nat.Sqrt
import Mathlib.Algebra.Order.Floor.Ring
import Mathlib.Data.Rat.Floor
set_option linter.style.haveILetI false
set_option linter.unusedSimpArgs false
set_option linter.unusedSectionVars false
set_option linter.unusedVariables false
/-!
# C20 definedness theorems, part 6: the link to `NaNable`, and the generic wrappers of C05

`NaNable = Option ℚ` of `Num.lean` **is** the instance `Opt ℚ ratSqrt` of `C20/Lemmas.lean` (`nanable_inst_eq`), where `ratSqrt` is the
square-root operation of the `Rat` instance (exact on perfect squares, otherwise `⌊√(x·2⁸⁰)⌋ / 2⁴⁰`).  That operation is
non-negative everywhere and positive above `2⁻⁸⁰` (`ratSqrt_pos`), so every `defined_f` theorem specialises to `NaNable`
with `θ = 2⁻⁸⁰` (`nanable_transfer`; examples below).  Below `2⁻⁸⁰` the approximation returns `0` on non-squares, so at
`NaNable` itself `x / sqrt x` can be NaN for tiny positive `x` — an artefact of the rational approximation, not of
parry (`nanable_sqrt_artefact_capsule`); this is why the theorems are stated for an arbitrary ordered field and
square-root operation with the explicit hypothesis `SqrtPos sq θ` (`θ = 0` for a lawful square root).
-/
namespace C20
open Model

/-- the square-root operation of the `Rat` instance of `Num.lean` -/
def ratSqrt (x : ℚ) : ℚ := (Num.sqrt x : ℚ)

/-- **`NaNable` is `Opt ℚ ratSqrt`**: the two `Num` instances on `Option ℚ` are equal. -/
theorem nanable_inst_eq : (instNumNaNable : Num NaNable) = (instNumOpt : Num (Opt ℚ ratSqrt)) := by
  unfold instNumNaNable instNumOpt
  have hlt : (NaNable.lt' : NaNable → NaNable → Prop) = (Opt.lt' : Opt ℚ ratSqrt → Opt ℚ ratSqrt → Prop) := by
    funext a b; cases a <;> cases b <;> rfl
  have hle : (NaNable.le' : NaNable → NaNable → Prop) = (Opt.le' : Opt ℚ ratSqrt → Opt ℚ ratSqrt → Prop) := by
    funext a b; cases a <;> cases b <;> rfl
  congr 1
  all_goals first
    | rfl
    | (congr 1; funext a b; cases a <;> cases b <;> rfl)
    | (congr 1; funext a; cases a <;> rfl)
    | skip
  case e_7 => exact congrArg LT.mk hlt
  case e_8 => exact congrArg LE.mk hle
  case e_11 =>
    funext a
    cases a with
    | none => rfl
    | some x =>
      by_cases h : x < 0
      · exact (if_pos h).trans (if_pos h).symm
      · refine (if_neg h).trans (Eq.trans ?_ (if_neg h).symm)
        show _ = some (ratSqrt x)
        unfold ratSqrt
        show _ = some (match Rat.sqrtExact? x with | some r => r | none => Rat.sqrtApprox x)
        cases Rat.sqrtExact? x <;> rfl
  case e_13 =>
    apply Function.hfunext rfl; intro a a' ha; cases ha
    apply Function.hfunext rfl; intro b b' hb; cases hb
    apply Subsingleton.helim
    cases a <;> cases b <;> rfl
  case e_14 =>
    apply Function.hfunext rfl; intro a a' ha; cases ha
    apply Function.hfunext rfl; intro b b' hb; cases hb
    apply Subsingleton.helim
    cases a <;> cases b <;> rfl

/-- transfer of any statement about the model at `Opt ℚ ratSqrt` to `NaNable` -/
theorem nanable_transfer (P : Num (Option ℚ) → Prop) (h : P (instNumOpt : Num (Opt ℚ ratSqrt))) :
    P (instNumNaNable : Num NaNable) := nanable_inst_eq ▸ h

theorem ratSqrt_nonneg (x : ℚ) : 0 ≤ ratSqrt x := by
  unfold ratSqrt
  show 0 ≤ (match Rat.sqrtExact? x with | some r => r | none => Rat.sqrtApprox x)
  cases h : Rat.sqrtExact? x with
  | none =>
    show 0 ≤ Rat.sqrtApprox x
    unfold Rat.sqrtApprox
    split_ifs
    · exact le_refl _
    · positivity
  | some r =>
    show 0 ≤ r
    unfold Rat.sqrtExact? at h
    split_ifs at h with h1
    simp only [] at h
    split_ifs at h with h2
    simp only [Option.some.injEq] at h
    rw [← h]; positivity

/-- the rational square root of `Num.lean` is positive above `2⁻⁸⁰` -/
theorem ratSqrt_pos : SqrtPos ratSqrt ((1 : ℚ) / 2 ^ 80) := by
  intro x hx
  have hx0 : 0 < x := lt_trans (by positivity) hx
  unfold ratSqrt
  show 0 < (match Rat.sqrtExact? x with | some r => r | none => Rat.sqrtApprox x)
  cases h : Rat.sqrtExact? x with
  | none =>
    show 0 < Rat.sqrtApprox x
    unfold Rat.sqrtApprox
    rw [if_neg (not_le.mpr hx0)]
    have h1 : (1 : ℚ) ≤ x * ((2 ^ 80 : ℕ) : ℚ) := by
      have : (0 : ℚ) < 2 ^ 80 := by positivity
      rw [div_lt_iff₀ this] at hx
      push_cast; linarith
    have h2 : (1 : ℤ) ≤ ⌊x * ((2 ^ 80 : ℕ) : ℚ)⌋ := Int.le_floor.mpr (by exact_mod_cast h1)
    have h3 : 0 < (x * ((2 ^ 80 : ℕ) : ℚ)).floor.toNat := by
      have : (x * ((2 ^ 80 : ℕ) : ℚ)).floor = ⌊x * ((2 ^ 80 : ℕ) : ℚ)⌋ := rfl
      rw [this]; omega
    have h4 : 0 < Nat.sqrt (x * ((2 ^ 80 : ℕ) : ℚ)).floor.toNat := Nat.sqrt_pos.mpr h3
    have h5 : (0 : ℚ) < (Nat.sqrt (x * ((2 ^ 80 : ℕ) : ℚ)).floor.toNat : ℚ) := by exact_mod_cast h4
    exact div_pos h5 (by positivity)
  | some r =>
    show 0 < r
    unfold Rat.sqrtExact? at h
    split_ifs at h with h1
    simp only [] at h
    split_ifs at h with h2
    · simp only [Option.some.injEq] at h
      rw [← h]
      have hn : 0 < x.num.toNat := by
        have : 0 < x.num := Rat.num_pos.mpr hx0
        omega
      have hsn : 0 < Nat.sqrt x.num.toNat := Nat.sqrt_pos.mpr hn
      have hsd : 0 < Nat.sqrt x.den := Nat.sqrt_pos.mpr x.den_pos
      exact div_pos (by exact_mod_cast hsn) (by exact_mod_cast hsd)


/-! ## Specialisations to `NaNable` (samples: every theorem of `Theorems2`–`Theorems5` transfers the same way) -/

/-- `Segment::project_local_point_and_get_location` at `NaNable`: every finite segment (zero length included) and point. -/
theorem nanable_defined_seg3_projectLoc (s : Segment3 ℚ) (p : V3 ℚ) :
    @Segment3.projectLoc NaNable instNumNaNable (liftSeg3 ratSqrt s) (lift3 (sq := ratSqrt) p)
      = (liftPP3 ratSqrt (@Segment3.projectLoc ℚ (fieldNum ℚ ratSqrt) s p).1,
         liftSegLoc ratSqrt (@Segment3.projectLoc ℚ (fieldNum ℚ ratSqrt) s p).2) :=
  nanable_transfer (fun inst => @Segment3.projectLoc (Option ℚ) inst (liftSeg3 ratSqrt s) (lift3 (sq := ratSqrt) p)
      = (liftPP3 ratSqrt (@Segment3.projectLoc ℚ (fieldNum ℚ ratSqrt) s p).1,
         liftSegLoc ratSqrt (@Segment3.projectLoc ℚ (fieldNum ℚ ratSqrt) s p).2))
    (defined_seg3_projectLoc ratSqrt s p)

/-- `Ball::project_local_point` at `NaNable`: every radius, both flags, the centre included; `|p|²` either `0` or above
the `2⁻⁸⁰` resolution of the rational square root. -/
theorem nanable_defined_ball_project3 (s : Ball ℚ) (p : V3 ℚ) (solid : Bool)
    (hu : @V3.normSq ℚ (fieldNum ℚ ratSqrt) p = 0 ∨ (1 : ℚ) / 2 ^ 80 < @V3.normSq ℚ (fieldNum ℚ ratSqrt) p) :
    @Ball.project3 NaNable instNumNaNable (liftBall ratSqrt s) (lift3 (sq := ratSqrt) p) solid
      = liftPP3 ratSqrt (@Ball.project3 ℚ (fieldNum ℚ ratSqrt) s p solid) :=
  nanable_transfer (fun inst => @Ball.project3 (Option ℚ) inst (liftBall ratSqrt s) (lift3 (sq := ratSqrt) p) solid
      = liftPP3 ratSqrt (@Ball.project3 ℚ (fieldNum ℚ ratSqrt) s p solid))
    (defined_ball_project3 ratSqrt ratSqrt_pos s p solid hu)

/-- `Cone::project_local_point` and `Cylinder::project_local_point` at `NaNable`: every finite input (apex, axis, rim, base). -/
theorem nanable_defined_cone_cylinder_project (hh r : ℚ) (p : V3 ℚ) (solid : Bool) :
    @Cone.project NaNable instNumNaNable (liftCone ratSqrt ⟨hh, r⟩) (lift3 (sq := ratSqrt) p) solid
      = liftPP3 ratSqrt (@Cone.project ℚ (fieldNum ℚ ratSqrt) ⟨hh, r⟩ p solid) ∧
    @Cylinder.project NaNable instNumNaNable (liftCylinder ratSqrt ⟨hh, r⟩) (lift3 (sq := ratSqrt) p) solid
      = liftPP3 ratSqrt (@Cylinder.project ℚ (fieldNum ℚ ratSqrt) ⟨hh, r⟩ p solid) :=
  nanable_transfer (fun inst =>
      @Cone.project (Option ℚ) inst (liftCone ratSqrt ⟨hh, r⟩) (lift3 (sq := ratSqrt) p) solid
        = liftPP3 ratSqrt (@Cone.project ℚ (fieldNum ℚ ratSqrt) ⟨hh, r⟩ p solid) ∧
      @Cylinder.project (Option ℚ) inst (liftCylinder ratSqrt ⟨hh, r⟩) (lift3 (sq := ratSqrt) p) solid
        = liftPP3 ratSqrt (@Cylinder.project ℚ (fieldNum ℚ ratSqrt) ⟨hh, r⟩ p solid))
    ⟨defined_cone_project ratSqrt ⟨hh, r⟩ p solid, defined_cylinder_project ratSqrt ⟨hh, r⟩ p solid⟩

/-- 3-D `Triangle::project_local_point_and_get_location` at `NaNable`: pairwise distinct vertices (flat triangles included). -/
theorem nanable_defined_tri3_projectLoc (s : Triangle3 ℚ) (p : V3 ℚ) (solid : Bool)
    (hab : s.b ≠ s.a) (hac : s.c ≠ s.a) (hbc : s.c ≠ s.b) :
    @Triangle3.projectLoc NaNable instNumNaNable (liftTri3 ratSqrt s) (lift3 (sq := ratSqrt) p) solid
      = liftPL3 ratSqrt (@Triangle3.projectLoc ℚ (fieldNum ℚ ratSqrt) s p solid) := by
  have ne : ∀ u v : V3 ℚ, u ≠ v → @V3.normSq ℚ (fieldNum ℚ ratSqrt) (@V3.sub ℚ (fieldNum ℚ ratSqrt) u v) ≠ 0 := by
    intro u v huv h0
    obtain ⟨hx, hy, hz⟩ := normSq3_eq_zero (sq := ratSqrt) _ h0
    apply huv
    cases u; cases v
    simp only [V3.sub] at hx hy hz
    simp only [V3.mk.injEq]
    exact ⟨by linarith, by linarith, by linarith⟩
  exact nanable_transfer (fun inst =>
      @Triangle3.projectLoc (Option ℚ) inst (liftTri3 ratSqrt s) (lift3 (sq := ratSqrt) p) solid
        = liftPL3 ratSqrt (@Triangle3.projectLoc ℚ (fieldNum ℚ ratSqrt) s p solid))
    (defined_tri3_projectLoc ratSqrt s p solid (ne _ _ hab) (ne _ _ hac) (ne _ _ hbc))

/-- **artefact of the rational square root, not of parry**: a capsule along `x`, radius 1, and the point
`(1/2, 2⁻⁴², 2⁻⁴²)` at squared distance `2⁻⁸³ > ε² = 2⁻¹⁰⁴` from the axis: `Rat.sqrtApprox (2⁻⁸³) = ⌊√(2⁻³)⌋ / 2⁴⁰ = 0`, so the
`NaNable` evaluation divides by zero, whereas `√(2⁻⁸³) > 0` (and the binary64 square root of any positive double is
positive).  This is the reason for the threshold `θ` in `SqrtPos`; `defined_capsule3_project` needs `θ ≤ ε²`. -/
theorem nanable_sqrt_artefact_capsule :
    let c : Capsule3 NaNable := ⟨⟨some 0, some 0, some 0⟩, ⟨some 1, some 0, some 0⟩, some 1⟩
    let p : V3 NaNable := ⟨some (1/2), some (1 / 2 ^ 42), some (1 / 2 ^ 42)⟩
    Option.isSome ((c.project p false).pt.y : Option ℚ) = false := by
  decide +kernel

/-! ## C05: features, default methods and posed forms (generic in the shape's `project_local_point`) -/

variable {K : Type} [Field K] [LinearOrder K] [IsStrictOrderedRing K] (sq : K → K)

private theorem liftSeg2_a (s : Segment2 K) : (liftSeg2 sq s).a = lift2 s.a := id rfl
private theorem liftSeg2_b (s : Segment2 K) : (liftSeg2 sq s).b = lift2 s.b := id rfl

/-- **C20 (Segment / Triangle `project_local_point_and_get_feature`)**: the feature is computed from the location and
one `perp` sign test — defined whenever the location is (every segment; triangles with distinct vertices). -/
theorem defined_seg_projectFeature (s3 : Segment3 K) (p3 : V3 K) (s2 : Segment2 K) (p2 : V2 K) :
    letI := fieldNum K sq
    (liftSeg3 sq s3).projectFeature (lift3 p3) = (liftPP3 sq (s3.projectFeature p3).1, (s3.projectFeature p3).2) ∧
    (liftSeg2 sq s2).projectFeature (lift2 p2) = (liftPP2 sq (s2.projectFeature p2).1, (s2.projectFeature p2).2) := by
  letI := fieldNum K sq
  refine ⟨?_, ?_⟩
  · simp only [Segment3.projectFeature, defined_seg3_projectLoc]
    cases (s3.projectLoc p3).2 <;> rfl
  · simp only [Segment2.projectFeature, defined_seg2_projectLoc, liftSeg2_a, liftSeg2_b, optsimp]
    cases h : (s2.projectLoc p2).2 with
    | vertex i => simp only [liftSegLoc]
    | edge a b =>
      simp only [liftSegLoc, optsimp]

/-- **C20 (default `distance_to_local_point`, `project_local_point_with_max_dist`, `contains_local_point`,
`project_point`, `distance_to_point`, `contains_point`)**: for ANY shape whose `project_local_point` is defined
(hypothesis `h`), the default methods of `PointQuery` and the posed forms are defined for every finite point, finite
isometry (unit or not) and `max_dist`: they only add a `norm` (square root of a sum of squares) and rigid motions. -/
theorem defined_pointQuery_defaults3
    (proj : V3 (Opt K sq) → Bool → PP3 (Opt K sq)) (proj' : V3 K → Bool → PP3 K)
    (h : ∀ p solid, proj (lift3 p) solid = liftPP3 sq (proj' p solid))
    (m : Iso3 K) (p : V3 K) (solid : Bool) (maxDist : K) :
    letI := fieldNum K sq
    defaultDistance3 proj (lift3 p) solid = val (defaultDistance3 proj' p solid) ∧
    defaultMaxDist3 proj (lift3 p) solid (val maxDist) = (defaultMaxDist3 proj' p solid maxDist).map (liftPP3 sq) ∧
    defaultContains3 proj (lift3 p) = defaultContains3 proj' p ∧
    posedProject3 proj (liftIso3 m) (lift3 p) solid = liftPP3 sq (posedProject3 proj' m p solid) ∧
    posedDistance3 (defaultDistance3 proj) (liftIso3 m) (lift3 p) solid
      = val (posedDistance3 (defaultDistance3 proj') m p solid) ∧
    posedContains3 (defaultContains3 proj) (liftIso3 m) (lift3 p) = posedContains3 (defaultContains3 proj') m p := by
  letI := fieldNum K sq
  refine ⟨?_, ?_, ?_, ?_, ?_, ?_⟩
  · simp only [defaultDistance3, h, optsimp]; split_ifs <;> rfl
  · simp only [defaultMaxDist3, h, optsimp]; split_ifs <;> rfl
  · simp only [defaultContains3, h, optsimp]
  · simp only [posedProject3, PP3.transformBy, h, optsimp]
  · simp only [posedDistance3, defaultDistance3, h, optsimp]; split_ifs <;> rfl
  · simp only [posedContains3, defaultContains3, h, optsimp]

theorem defined_pointQuery_defaults2
    (proj : V2 (Opt K sq) → Bool → PP2 (Opt K sq)) (proj' : V2 K → Bool → PP2 K)
    (h : ∀ p solid, proj (lift2 p) solid = liftPP2 sq (proj' p solid))
    (m : Iso2 K) (p : V2 K) (solid : Bool) (maxDist : K) :
    letI := fieldNum K sq
    defaultDistance2 proj (lift2 p) solid = val (defaultDistance2 proj' p solid) ∧
    defaultMaxDist2 proj (lift2 p) solid (val maxDist) = (defaultMaxDist2 proj' p solid maxDist).map (liftPP2 sq) ∧
    defaultContains2 proj (lift2 p) = defaultContains2 proj' p ∧
    posedProject2 proj (liftIso2 m) (lift2 p) solid = liftPP2 sq (posedProject2 proj' m p solid) ∧
    posedDistance2 (defaultDistance2 proj) (liftIso2 m) (lift2 p) solid
      = val (posedDistance2 (defaultDistance2 proj') m p solid) ∧
    posedContains2 (defaultContains2 proj) (liftIso2 m) (lift2 p) = posedContains2 (defaultContains2 proj') m p := by
  letI := fieldNum K sq
  refine ⟨?_, ?_, ?_, ?_, ?_, ?_⟩
  · simp only [defaultDistance2, h, optsimp]; split_ifs <;> rfl
  · simp only [defaultMaxDist2, h, optsimp]; split_ifs <;> rfl
  · simp only [defaultContains2, h, optsimp]
  · simp only [posedProject2, PP2.transformBy, h, optsimp]
  · simp only [posedDistance2, defaultDistance2, h, optsimp]; split_ifs <;> rfl
  · simp only [posedContains2, defaultContains2, h, optsimp]

end C20
