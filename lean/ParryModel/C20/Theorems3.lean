import ParryModel.C20.Lemmas
import ParryModel.C20.Theorems2
import ParryModel.C04.Model
import ParryModel.C04.Lemmas
import ParryModel.C15.Model
import ParryModel.C17.Model
set_option linter.style.haveILetI false
set_option linter.unusedSimpArgs false
set_option linter.unusedSectionVars false
set_option linter.unusedVariables false
set_option linter.unusedTactic false
/-!
# C20 definedness theorems, part 3: the closed-form ray casts of C04, the 2-D segment intersection of C15, the
splitting / clipping functions of C17

Shape of every theorem: `f (lift x) = lift (f x)` — the model function evaluated with NaN-propagating scalars on finite
input equals the injection of its evaluation in the lawful field (see `C20/Lemmas.lean`).  Findings (finite input on
which an output float is NaN) are recorded as `decide +kernel` witnesses at `NaNable`:
`ball_normal_origin_at_centre_nan`, `ball_normal_zero_dir_at_centre_nan`, `ball_normal_zero_radius_nan` (C04, current
/repo), `halfspace_pinned_parallel_undefined` / `halfspace_pinned_not_defined` (pinned tree only; fixed in /repo),
`clipSegmentSegment_perpendicular_nan` (C17, current /repo).
-/
namespace C20
open Model

variable {K : Type} [Field K] [LinearOrder K] [IsStrictOrderedRing K] (sq : K → K)

/-! ### liftings of the C04 data types -/
def liftRay3 (r : Ray3 K) : Ray3 (Opt K sq) := ⟨lift3 r.o, lift3 r.d⟩
def liftRay2 (r : Ray2 K) : Ray2 (Opt K sq) := ⟨lift2 r.o, lift2 r.d⟩
def liftHit3 (h : Hit3 K) : Hit3 (Opt K sq) := ⟨val h.toi, lift3 h.n, h.fkind, h.fidx⟩
def liftHit2 (h : Hit2 K) : Hit2 (Opt K sq) := ⟨val h.toi, lift2 h.n, h.fkind, h.fidx⟩
/-- result of `ray_toi_with_ball` -/
def liftBO (r : Bool × Option K) : Bool × Option (Opt K sq) := (r.1, r.2.map val)
/-- result of `ray_toi_and_normal_with_ball` -/
def liftBH (r : Bool × Option (Hit3 K)) : Bool × Option (Hit3 (Opt K sq)) := (r.1, r.2.map (liftHit3 sq))
def liftAabb (b : Aabb K) : Aabb (Opt K sq) := ⟨lift3 b.mins, lift3 b.maxs⟩
/-- `(tmin, tmax)` of the slab loop -/
def liftPair (st : K × K) : Opt K sq × Opt K sq := (val st.1, val st.2)
def liftClipSt (s : ClipSt K) : ClipSt (Opt K sq) := ⟨val s.tmin, val s.tmax, s.nearSide, s.farSide, s.nearDiag, s.farDiag⟩
def liftClipEnd (e : ClipEnd K) : ClipEnd (Opt K sq) := ⟨val e.t, lift3 e.n, e.side⟩
def liftClipRes : ClipRes K → ClipRes (Opt K sq)
  | .none => .none
  | .some n f => .some (liftClipEnd sq n) (liftClipEnd sq f)

@[optsimp] private theorem liftRay3_o (r : Ray3 K) : (liftRay3 sq r).o = lift3 r.o := id rfl
@[optsimp] private theorem liftRay3_d (r : Ray3 K) : (liftRay3 sq r).d = lift3 r.d := id rfl
@[optsimp] private theorem liftRay3_mk (o d : V3 K) : (⟨lift3 o, lift3 d⟩ : Ray3 (Opt K sq)) = liftRay3 sq ⟨o, d⟩ := id rfl
@[optsimp] private theorem liftRay2_o (r : Ray2 K) : (liftRay2 sq r).o = lift2 r.o := id rfl
@[optsimp] private theorem liftRay2_d (r : Ray2 K) : (liftRay2 sq r).d = lift2 r.d := id rfl
@[optsimp] private theorem liftRay2_mk (o d : V2 K) : (⟨lift2 o, lift2 d⟩ : Ray2 (Opt K sq)) = liftRay2 sq ⟨o, d⟩ := id rfl
@[optsimp] private theorem liftHit3_toi (h : Hit3 K) : (liftHit3 sq h).toi = val h.toi := id rfl
@[optsimp] private theorem liftHit3_n (h : Hit3 K) : (liftHit3 sq h).n = lift3 h.n := id rfl
@[optsimp] private theorem liftHit3_mk (t : K) (n : V3 K) (a b : Nat) :
    ({ toi := val t, n := lift3 n, fkind := a, fidx := b } : Hit3 (Opt K sq)) = liftHit3 sq ⟨t, n, a, b⟩ := id rfl
@[optsimp] private theorem liftHit2_toi (h : Hit2 K) : (liftHit2 sq h).toi = val h.toi := id rfl
@[optsimp] private theorem liftHit2_n (h : Hit2 K) : (liftHit2 sq h).n = lift2 h.n := id rfl
@[optsimp] private theorem liftHit2_mk (t : K) (n : V2 K) (a b : Nat) :
    ({ toi := val t, n := lift2 n, fkind := a, fidx := b } : Hit2 (Opt K sq)) = liftHit2 sq ⟨t, n, a, b⟩ := id rfl
@[optsimp] private theorem liftBO_2 (r : Bool × Option K) : (liftBO sq r).2 = r.2.map val := id rfl
@[optsimp] private theorem liftBH_2 (r : Bool × Option (Hit3 K)) : (liftBH sq r).2 = r.2.map (liftHit3 sq) := id rfl
@[optsimp] private theorem liftBall_r (s : Ball K) : (liftBall sq s).r = val s.r := id rfl
@[optsimp] private theorem liftHit3_transformBy (h : Hit3 K) (m : Iso3 K) :
    letI := fieldNum K sq
    (liftHit3 sq h).transformBy (liftIso3 m) = liftHit3 sq (h.transformBy m) := id rfl
@[optsimp] private theorem liftHit2_transformBy (h : Hit2 K) (m : Iso2 K) :
    letI := fieldNum K sq
    (liftHit2 sq h).transformBy (liftIso2 m) = liftHit2 sq (h.transformBy m) := id rfl
@[optsimp] private theorem liftRay3_invTransform (r : Ray3 K) (m : Iso3 K) :
    letI := fieldNum K sq
    (liftRay3 sq r).invTransform (liftIso3 m) = liftRay3 sq (r.invTransform m) := id rfl
@[optsimp] private theorem liftRay2_invTransform (r : Ray2 K) (m : Iso2 K) :
    letI := fieldNum K sq
    (liftRay2 sq r).invTransform (liftIso2 m) = liftRay2 sq (r.invTransform m) := id rfl
@[optsimp] private theorem liftRay3_translate (r : Ray3 K) (v : V3 K) :
    letI := fieldNum K sq
    (liftRay3 sq r).translate (lift3 v) = liftRay3 sq (r.translate v) := id rfl
@[optsimp] private theorem liftPair_1 (st : K × K) : (liftPair sq st).1 = val st.1 := id rfl
@[optsimp] private theorem liftPair_2 (st : K × K) : (liftPair sq st).2 = val st.2 := id rfl
private theorem liftPair_mk (a b : K) : ((val a, val b) : Opt K sq × Opt K sq) = liftPair sq (a, b) := id rfl
@[optsimp] private theorem liftAabb_mins (b : Aabb K) : (liftAabb sq b).mins = lift3 b.mins := id rfl
@[optsimp] private theorem liftAabb_maxs (b : Aabb K) : (liftAabb sq b).maxs = lift3 b.maxs := id rfl
@[optsimp] private theorem liftAabb_mk (a b : V3 K) : (⟨lift3 a, lift3 b⟩ : Aabb (Opt K sq)) = liftAabb sq ⟨a, b⟩ := id rfl
@[optsimp] private theorem liftClipSt_tmin (s : ClipSt K) : (liftClipSt sq s).tmin = val s.tmin := id rfl
@[optsimp] private theorem liftClipSt_tmax (s : ClipSt K) : (liftClipSt sq s).tmax = val s.tmax := id rfl
private theorem liftClipSt_mk (a b : K) (ns fs : Int) (nd fd : Bool) :
    (⟨val a, val b, ns, fs, nd, fd⟩ : ClipSt (Opt K sq)) = liftClipSt sq ⟨a, b, ns, fs, nd, fd⟩ := id rfl

private theorem filter_toi (o : Option K) (m : K) :
    letI := fieldNum K sq
    (o.map val : Option (Opt K sq)).filter (fun t => decide (t ≤ val m)) = (o.filter fun t => decide (t ≤ m)).map val := by
  letI := fieldNum K sq
  cases o with
  | none => rfl
  | some t =>
    simp only [Option.map, Option.filter, optsimp]
    split_ifs <;> rfl
private theorem filter_hit3 (o : Option (Hit3 K)) (m : K) :
    letI := fieldNum K sq
    (o.map (liftHit3 sq)).filter (fun h => decide (h.toi ≤ val m))
      = (o.filter fun h => decide (h.toi ≤ m)).map (liftHit3 sq) := by
  letI := fieldNum K sq
  cases o with
  | none => rfl
  | some t =>
    simp only [Option.map, Option.filter, optsimp]
    split_ifs <;> rfl
private theorem map_transformBy3 (o : Option (Hit3 K)) (m : Iso3 K) :
    letI := fieldNum K sq
    (o.map (liftHit3 sq)).map (fun h => h.transformBy (liftIso3 m))
      = (o.map (fun h => h.transformBy m)).map (liftHit3 sq) := by
  cases o <;> rfl
private theorem map_transformBy2 (o : Option (Hit2 K)) (m : Iso2 K) :
    letI := fieldNum K sq
    (o.map (liftHit2 sq)).map (fun h => h.transformBy (liftIso2 m))
      = (o.map (fun h => h.transformBy m)).map (liftHit2 sq) := by
  cases o <;> rfl

/-- is this NaN-propagating scalar finite? -/
def fin? (x : NaNable) : Bool := Option.isSome (x : Option Rat)
/-- finiteness pattern `(toi, n.x, n.y, n.z)` of an optional 3-D hit -/
def hitFin (h : Option (Hit3 NaNable)) : Option (Bool × Bool × Bool × Bool) :=
  h.map fun h => (fin? h.toi, fin? h.n.x, fin? h.n.y, fin? h.n.z)
/-- finiteness pattern `(toi, n.x, n.y)` of an optional 2-D hit -/
def hitFin2 (h : Option (Hit2 NaNable)) : Option (Bool × Bool × Bool) :=
  h.map fun h => (fin? h.toi, fin? h.n.x, fin? h.n.y)

/-! ## Ball (`ray_ball.rs`) -/

/-- **C20 (ray_toi_with_ball)**: defined for **every** finite centre, radius (any sign, zero included) and ray —
including the zero direction (`a = 0` is tested first), an origin on the sphere or at the centre, tangent rays
(`delta = 0`) — and both `solid` flags: the square root is taken of `delta` only after the test `delta < 0` failed, and
the divisor `a = |dir|²` has been tested non-zero.  Nothing is asked of the square-root operation. -/
theorem defined_rayToiWithBall (center : V3 K) (radius : K) (ray : Ray3 K) (solid : Bool) :
    letI := fieldNum K sq
    rayToiWithBall (lift3 center : V3 (Opt K sq)) (val radius) (liftRay3 sq ray) solid
      = liftBO sq (rayToiWithBall center radius ray solid) := by
  letI := fieldNum K sq
  simp only [rayToiWithBall, optsimp, apply_ite (liftBO sq)]
  by_cases ha : ray.d.normSq = 0
  · simp only [if_pos ha]; opt_tree
  · simp only [if_neg ha, optsimp]
    opt_tree
    rename_i h1 h2
    simp only [if_neg h2, if_neg ha, optsimp]
    opt_tree

/-- **C20 (Ball::cast_local_ray)**: defined for every finite radius, ray (zero direction included), `max_toi`, flag. -/
theorem defined_ball_castLocalRay (s : Ball K) (ray : Ray3 K) (maxToi : K) (solid : Bool) :
    letI := fieldNum K sq
    (liftBall sq s).castLocalRay (liftRay3 sq ray) (val maxToi) solid = (s.castLocalRay ray maxToi solid).map val := by
  letI := fieldNum K sq
  simp only [Ball.castLocalRay, optsimp, defined_rayToiWithBall, filter_toi]

/-- **C20 (ray_toi_and_normal_with_ball)**: the normal is `(origin + dir * toi − centre).normalize()`, so the result is
defined exactly when the square root of the squared distance of the hit point to the centre does not vanish
(`hpos`, the direct hypothesis; `ball_hit_ne_centre` derives it, for a lawful square root, from
"radius ≠ 0, and origin ≠ centre when the cast is solid or the direction is zero").  When `hpos` fails the real code
returns a NaN normal: see `ball_normal_origin_at_centre_nan` below. -/
theorem defined_rayToiAndNormalWithBall (center : V3 K) (radius : K) (ray : Ray3 K) (solid : Bool)
    (hpos : letI := fieldNum K sq
      ∀ t, (rayToiWithBall center radius ray solid).2 = some t → sq ((ray.pointAt t).sub center).normSq ≠ 0) :
    letI := fieldNum K sq
    rayToiAndNormalWithBall (lift3 center : V3 (Opt K sq)) (val radius) (liftRay3 sq ray) solid
      = liftBH sq (rayToiAndNormalWithBall center radius ray solid) := by
  letI := fieldNum K sq
  simp only [rayToiAndNormalWithBall, defined_rayToiWithBall]
  generalize rayToiWithBall center radius ray solid = r at hpos
  obtain ⟨b, o⟩ := r
  cases o with
  | none => rfl
  | some t =>
    have h := hpos t rfl
    simp only [Ray3.pointAt] at h
    simp only [liftBO, liftBH, optsimp, lift3_normalize _ h]
    split_ifs <;> simp only [optsimp]

private theorem lawful_ne_zero {sq : K → K} (hl : LawfulSqrt sq) {x : K} (hx : 0 ≤ x) (h : x ≠ 0) : sq x ≠ 0 := by
  intro h0; apply h; rw [← hl.sq_mul x hx, h0, mul_zero]

/-- with an exact square root `s² = delta`, both roots of the ball quadratic give a hit point on the sphere -/
private theorem ball_hit_on_sphere (o d c : V3 K) (r s t : K) :
    letI := fieldNum K sq
    d.normSq ≠ 0 →
    s * s = (o.sub c).dot d * (o.sub c).dot d - d.normSq * ((o.sub c).normSq - r * r) →
    (t = (-(o.sub c).dot d - s) / d.normSq ∨ t = (-(o.sub c).dot d + s) / d.normSq) →
    ((o.add (d.smul t)).sub c).normSq = r * r := by
  letI := fieldNum K sq
  intro ha hs ht
  have key : d.normSq * (((o.add (d.smul t)).sub c).normSq - r * r) = 0 := by
    rcases ht with ht | ht
    · have e1 : d.normSq * t = -(o.sub c).dot d - s := by rw [ht]; field_simp
      obtain ⟨ox, oy, oz⟩ := o; obtain ⟨dx, dy, dz⟩ := d; obtain ⟨cx, cy, cz⟩ := c
      simp only [V3.normSq, V3.dot, V3.sub, V3.add, V3.smul] at *
      linear_combination ((dx*dx+dy*dy+dz*dz) * t + ((ox - cx) * dx + (oy - cy) * dy + (oz - cz) * dz) - s) * e1 + hs
    · have e1 : d.normSq * t = -(o.sub c).dot d + s := by rw [ht]; field_simp
      obtain ⟨ox, oy, oz⟩ := o; obtain ⟨dx, dy, dz⟩ := d; obtain ⟨cx, cy, cz⟩ := c
      simp only [V3.normSq, V3.dot, V3.sub, V3.add, V3.smul] at *
      linear_combination ((dx*dx+dy*dy+dz*dz) * t + ((ox - cx) * dx + (oy - cy) * dy + (oz - cz) * dz) + s) * e1 + hs
  rcases mul_eq_zero.mp key with h | h
  · exact absurd h ha
  · linarith

/-- **the hypothesis `hpos` of `defined_rayToiAndNormalWithBall`, characterised for a lawful square root**: the hit
point differs from the centre as soon as the radius is non-zero and — only when the cast can return `toi = 0` from
inside, i.e. `solid = true` or a zero direction — the origin is not the centre.  (A non-solid cast from the centre
itself with a non-zero direction is covered: it exits through the sphere.) -/
theorem ball_hit_ne_centre (hl : LawfulSqrt sq) (center : V3 K) (radius : K) (ray : Ray3 K) (solid : Bool)
    (hr : radius ≠ 0)
    (ho : letI := fieldNum K sq; solid = true ∨ ray.d.normSq = 0 → (ray.o.sub center).normSq ≠ 0) :
    letI := fieldNum K sq
    ∀ t, (rayToiWithBall center radius ray solid).2 = some t → sq ((ray.pointAt t).sub center).normSq ≠ 0 := by
  letI := fieldNum K sq
  intro t ht
  apply lawful_ne_zero hl (normSq3_nonneg _)
  have h0 : ((ray.pointAt 0).sub center).normSq = (ray.o.sub center).normSq := by
    obtain ⟨⟨ox, oy, oz⟩, ⟨dx, dy, dz⟩⟩ := ray
    simp only [Ray3.pointAt, V3.add, V3.smul, mul_zero, add_zero]
  have hrr : radius * radius ≠ 0 := mul_ne_zero hr hr
  simp only [rayToiWithBall, neq_true_eq, fieldNum_sqrt] at ht
  split_ifs at ht with h1 h2 h3 h4 h5 h6
  · obtain rfl := Option.some.inj ht; rw [h0]; exact ho (Or.inr h1)
  · obtain rfl := Option.some.inj ht; rw [h0]; exact ho (Or.inl h6)
  · rw [Ray3.pointAt, ball_hit_on_sphere sq ray.o ray.d center radius _ t h1 (hl.sq_mul _ (not_lt.mp h4))
      (Or.inr (Option.some.inj ht).symm)]
    exact hrr
  · rw [Ray3.pointAt, ball_hit_on_sphere sq ray.o ray.d center radius _ t h1 (hl.sq_mul _ (not_lt.mp h4))
      (Or.inl (Option.some.inj ht).symm)]
    exact hrr

/-- **C20 (ray_toi_and_normal_with_ball, lawful square root)**: defined for every finite centre, non-zero radius and
ray — zero direction, tangent rays, origin on the sphere, non-solid cast from the centre included — provided the origin
is not the centre when `solid = true` or the direction is zero. -/
theorem defined_rayToiAndNormalWithBall_lawful (hl : LawfulSqrt sq) (center : V3 K) (radius : K) (ray : Ray3 K)
    (solid : Bool) (hr : radius ≠ 0)
    (ho : letI := fieldNum K sq; solid = true ∨ ray.d.normSq = 0 → (ray.o.sub center).normSq ≠ 0) :
    letI := fieldNum K sq
    rayToiAndNormalWithBall (lift3 center : V3 (Opt K sq)) (val radius) (liftRay3 sq ray) solid
      = liftBH sq (rayToiAndNormalWithBall center radius ray solid) :=
  defined_rayToiAndNormalWithBall sq center radius ray solid (ball_hit_ne_centre sq hl center radius ray solid hr ho)

/-- **C20 (Ball::cast_local_ray_and_get_normal)**: defined whenever the returned hit point is not the centre (`hpos`,
see `defined_rayToiAndNormalWithBall`); any `max_toi`, both flags. -/
theorem defined_ball_castLocalRayAndGetNormal (s : Ball K) (ray : Ray3 K) (maxToi : K) (solid : Bool)
    (hpos : letI := fieldNum K sq
      ∀ t, (rayToiWithBall V3.zero s.r ray solid).2 = some t → sq (ray.pointAt t).normSq ≠ 0) :
    letI := fieldNum K sq
    (liftBall sq s).castLocalRayAndGetNormal (liftRay3 sq ray) (val maxToi) solid
      = (s.castLocalRayAndGetNormal ray maxToi solid).map (liftHit3 sq) := by
  letI := fieldNum K sq
  have hz : ∀ v : V3 K, v.sub V3.zero = v := by
    intro v; obtain ⟨x, y, z⟩ := v; simp only [V3.sub, V3.zero, sub_zero]
  have hpos' : ∀ t, (rayToiWithBall V3.zero s.r ray solid).2 = some t →
      sq ((ray.pointAt t).sub V3.zero).normSq ≠ 0 := by
    intro t ht; rw [hz]; exact hpos t ht
  simp only [Ball.castLocalRayAndGetNormal, optsimp, defined_rayToiAndNormalWithBall sq _ _ _ _ hpos', filter_hit3]

/-- **C20 (Ball::cast_local_ray_and_get_normal, lawful square root)**: defined for every non-zero radius and every ray
whose origin is not the centre when `solid = true` or the direction is zero. -/
theorem defined_ball_castLocalRayAndGetNormal_lawful (hl : LawfulSqrt sq) (s : Ball K) (ray : Ray3 K) (maxToi : K)
    (solid : Bool) (hr : s.r ≠ 0)
    (ho : letI := fieldNum K sq; solid = true ∨ ray.d.normSq = 0 → ray.o.normSq ≠ 0) :
    letI := fieldNum K sq
    (liftBall sq s).castLocalRayAndGetNormal (liftRay3 sq ray) (val maxToi) solid
      = (s.castLocalRayAndGetNormal ray maxToi solid).map (liftHit3 sq) := by
  letI := fieldNum K sq
  have hz : ∀ v : V3 K, v.sub V3.zero = v := by
    intro v; obtain ⟨x, y, z⟩ := v; simp only [V3.sub, V3.zero, sub_zero]
  refine defined_ball_castLocalRayAndGetNormal sq s ray maxToi solid ?_
  intro t ht
  have := ball_hit_ne_centre sq hl V3.zero s.r ray solid hr (by rw [hz]; exact ho) t ht
  rwa [hz] at this

/-- **C20 (RayCast::cast_ray_and_get_normal for Ball)**: any isometry (unit quaternion or not). -/
theorem defined_ball_castRayAndGetNormal (s : Ball K) (m : Iso3 K) (ray : Ray3 K) (maxToi : K) (solid : Bool)
    (hpos : letI := fieldNum K sq
      ∀ t, (rayToiWithBall V3.zero s.r (ray.invTransform m) solid).2 = some t →
        sq ((ray.invTransform m).pointAt t).normSq ≠ 0) :
    letI := fieldNum K sq
    (liftBall sq s).castRayAndGetNormal (liftIso3 m) (liftRay3 sq ray) (val maxToi) solid
      = (s.castRayAndGetNormal m ray maxToi solid).map (liftHit3 sq) := by
  letI := fieldNum K sq
  simp only [Ball.castRayAndGetNormal, optsimp, defined_ball_castLocalRayAndGetNormal sq _ _ _ _ hpos,
    map_transformBy3]

/-- **C20 (BoundingSphere::cast_local_ray_and_get_normal)** -/
theorem defined_bsphereCastLocalRayAndGetNormal (center : V3 K) (r : K) (ray : Ray3 K) (maxToi : K) (solid : Bool)
    (hpos : letI := fieldNum K sq
      ∀ t, (rayToiWithBall V3.zero r (ray.translate center.neg) solid).2 = some t →
        sq ((ray.translate center.neg).pointAt t).normSq ≠ 0) :
    letI := fieldNum K sq
    bsphereCastLocalRayAndGetNormal (lift3 center : V3 (Opt K sq)) (val r) (liftRay3 sq ray) (val maxToi) solid
      = (bsphereCastLocalRayAndGetNormal center r ray maxToi solid).map (liftHit3 sq) := by
  letI := fieldNum K sq
  have e : (Ball.mk (val r) : Ball (Opt K sq)) = liftBall sq ⟨r⟩ := rfl
  simp only [bsphereCastLocalRayAndGetNormal, optsimp, e, defined_ball_castLocalRayAndGetNormal sq ⟨r⟩ _ _ _ hpos]

/-! ### Finding: `Ball::cast_local_ray_and_get_normal` returns a NaN normal when the hit point is the centre

`ray_toi_and_normal_with_ball` normalises `origin + dir * toi − centre` unconditionally.  A `solid` cast whose origin is
exactly the ball centre returns `toi = 0` and the normal `0/0`; likewise a zero-direction ray at the centre (either
flag) and a ray through the centre of a zero-radius ball.  Replayed on the real crate:
`C04 ball_normal 3ff0000000000000 0 0 0 3ff0000000000000 0 0 4024000000000000 1` ↦ `some 0000000000000000 nan nan nan f0`.
The other solid-from-inside casts (`Aabb`, `HalfSpace`) return the zero normal. -/

/-- unit ball, ray from the centre along `+x`, `solid = true`: toi `0` (finite), normal NaN -/
theorem ball_normal_origin_at_centre_nan :
    hitFin ((Ball.mk (K := NaNable) (some 1)).castLocalRayAndGetNormal
      ⟨⟨some 0, some 0, some 0⟩, ⟨some 1, some 0, some 0⟩⟩ (some 10) true) = some (true, false, false, false) := by
  decide +kernel
/-- the same origin with `solid = false` is fine (the ray exits through the sphere) -/
theorem ball_normal_origin_at_centre_nonsolid_finite :
    hitFin ((Ball.mk (K := NaNable) (some 1)).castLocalRayAndGetNormal
      ⟨⟨some 0, some 0, some 0⟩, ⟨some 1, some 0, some 0⟩⟩ (some 10) false) = some (true, true, true, true) := by
  decide +kernel
/-- zero direction, origin at the centre, `solid = false`: NaN normal (zero direction elsewhere inside is finite) -/
theorem ball_normal_zero_dir_at_centre_nan :
    hitFin ((Ball.mk (K := NaNable) (some 1)).castLocalRayAndGetNormal
      ⟨⟨some 0, some 0, some 0⟩, ⟨some 0, some 0, some 0⟩⟩ (some 10) false) = some (true, false, false, false) ∧
    hitFin ((Ball.mk (K := NaNable) (some 1)).castLocalRayAndGetNormal
      ⟨⟨some (1/2), some 0, some 0⟩, ⟨some 0, some 0, some 0⟩⟩ (some 10) false) = some (true, true, true, true) := by
  decide +kernel
/-- zero radius, ray through the centre: toi `2` with a NaN normal (both flags) -/
theorem ball_normal_zero_radius_nan :
    hitFin ((Ball.mk (K := NaNable) (some 0)).castLocalRayAndGetNormal
      ⟨⟨some (-2), some 0, some 0⟩, ⟨some 1, some 0, some 0⟩⟩ (some 10) true) = some (true, false, false, false) ∧
    hitFin ((Ball.mk (K := NaNable) (some 0)).castLocalRayAndGetNormal
      ⟨⟨some (-2), some 0, some 0⟩, ⟨some 1, some 0, some 0⟩⟩ (some 10) false) = some (true, false, false, false) := by
  decide +kernel

/-! ## Aabb / Cuboid: the slab test (`ray_aabb.rs`) -/

/-- **C20 (one axis of Aabb::cast_local_ray)**: `1 / dir[i]` is computed only after `dir[i] != 0`: defined for every
finite input, including `dir[i] = 0`, an origin on a face (`o = mn`), a flat slab (`mn = mx`), an inverted one. -/
theorem defined_slabStep (mn mx o d : K) (st : K × K) :
    letI := fieldNum K sq
    slabStep (val mn : Opt K sq) (val mx) (val o) (val d) (liftPair sq st)
      = (slabStep mn mx o d st).map (liftPair sq) := by
  letI := fieldNum K sq
  simp only [slabStep, optsimp, liftPair_mk]
  by_cases hd : d = 0
  · simp only [if_pos hd]; split_ifs <;> rfl
  · simp only [if_neg hd, optsimp, val_ite, liftPair_mk]
    split_ifs <;> rfl

/-- **C20 (Aabb::cast_local_ray)**: defined for **every** finite box (flat, point-like, inverted), ray (zero direction,
axis-parallel, origin on a face / edge / vertex / inside), `max_toi`, `big = Real::MAX` and both flags. -/
theorem defined_aabb_castLocalRay (big : K) (b : Aabb K) (ray : Ray3 K) (maxToi : K) (solid : Bool) :
    letI := fieldNum K sq
    (liftAabb sq b).castLocalRay (val big) (liftRay3 sq ray) (val maxToi) solid
      = (b.castLocalRay big ray maxToi solid).map val := by
  letI := fieldNum K sq
  simp only [Aabb.castLocalRay, optsimp, liftPair_mk, defined_slabStep]
  generalize slabStep b.mins.x b.maxs.x ray.o.x ray.d.x (0, big) = r0
  cases r0 with
  | none => rfl
  | some s0 =>
    simp only [optsimp, defined_slabStep]
    generalize slabStep b.mins.y b.maxs.y ray.o.y ray.d.y s0 = r1
    cases r1 with
    | none => rfl
    | some s1 =>
      simp only [optsimp, defined_slabStep]
      generalize slabStep b.mins.z b.maxs.z ray.o.z ray.d.z s1 = r2
      cases r2 with
      | none => rfl
      | some s2 =>
        obtain ⟨tmin, tmax⟩ := s2
        simp only [liftPair, optsimp, val_ite]
        split_ifs <;> rfl

/-- **C20 (Aabb::cast_local_ray as on the pinned tree)**: the version kept in the model for the record (`tmax` starts at
`max_toi`) is equally free of unguarded divisions: every finite input. -/
theorem defined_aabb_castLocalRayPinned (b : Aabb K) (ray : Ray3 K) (maxToi : K) (solid : Bool) :
    letI := fieldNum K sq
    (liftAabb sq b).castLocalRayPinned (liftRay3 sq ray) (val maxToi) solid
      = (b.castLocalRayPinned ray maxToi solid).map val := by
  letI := fieldNum K sq
  simp only [Aabb.castLocalRayPinned, optsimp, liftPair_mk, defined_slabStep]
  generalize slabStep b.mins.x b.maxs.x ray.o.x ray.d.x (0, maxToi) = r0
  cases r0 with
  | none => rfl
  | some s0 =>
    simp only [optsimp, defined_slabStep]
    generalize slabStep b.mins.y b.maxs.y ray.o.y ray.d.y s0 = r1
    cases r1 with
    | none => rfl
    | some s1 =>
      simp only [optsimp, defined_slabStep]
      generalize slabStep b.mins.z b.maxs.z ray.o.z ray.d.z s1 = r2
      cases r2 with
      | none => rfl
      | some s2 =>
        obtain ⟨tmin, tmax⟩ := s2
        simp only [liftPair, optsimp, val_ite]
        split_ifs <;> rfl

/-- **C20 (Cuboid::cast_local_ray, RayCast::cast_ray for Cuboid)**: every finite half-extents (zero, negative), pose,
ray, `max_toi`, flag. -/
theorem defined_cuboid3_castLocalRay (big : K) (he : V3 K) (ray : Ray3 K) (maxToi : K) (solid : Bool) :
    letI := fieldNum K sq
    (Cuboid3.mk (lift3 he : V3 (Opt K sq))).castLocalRay (val big) (liftRay3 sq ray) (val maxToi) solid
      = ((Cuboid3.mk he).castLocalRay big ray maxToi solid).map val := by
  letI := fieldNum K sq
  simp only [Cuboid3.castLocalRay, optsimp, defined_aabb_castLocalRay]
theorem defined_cuboid3_castRay (big : K) (he : V3 K) (m : Iso3 K) (ray : Ray3 K) (maxToi : K) (solid : Bool) :
    letI := fieldNum K sq
    (Cuboid3.mk (lift3 he : V3 (Opt K sq))).castRay (val big) (liftIso3 m) (liftRay3 sq ray) (val maxToi) solid
      = ((Cuboid3.mk he).castRay big m ray maxToi solid).map val := by
  letI := fieldNum K sq
  simp only [Cuboid3.castRay, optsimp, defined_cuboid3_castLocalRay]

/-! ## Aabb / Cuboid: `clip_aabb_line` and the normals -/

/-- the near-end update of `clipStep` -/
private def clipNear {K : Type} [Num K] (i : Nat) (flip : Bool) (near : K) (st : ClipSt K) : ClipSt K :=
  if st.tmin < near then
    { st with tmin := near, nearSide := if flip then -((i : Int) + 1) else (i : Int) + 1, nearDiag := false }
  else if neq near st.tmin then { st with nearDiag := true } else st
/-- the far-end update of `clipStep` -/
private def clipFar {K : Type} [Num K] (i : Nat) (flip : Bool) (far : K) (st1 : ClipSt K) : ClipSt K :=
  if far < st1.tmax then
    { st1 with tmax := far, farSide := if !flip then -((i : Int) + 1) else (i : Int) + 1, farDiag := false }
  else if neq far st1.tmax then { st1 with farDiag := true } else st1

private theorem clipStep_eq {K : Type} [Num K] (i : Nat) (mn mx o d : K) (st : ClipSt K) :
    clipStep i mn mx o d st =
      if neq d 0 then (if o < mn ∨ mx < o then none else some st)
      else
        let st2 := clipFar i (decide ((mx - o) * (1 / d) < (mn - o) * (1 / d)))
          (if decide ((mx - o) * (1 / d) < (mn - o) * (1 / d)) then (mn - o) * (1 / d) else (mx - o) * (1 / d))
          (clipNear i (decide ((mx - o) * (1 / d) < (mn - o) * (1 / d)))
            (if decide ((mx - o) * (1 / d) < (mn - o) * (1 / d)) then (mx - o) * (1 / d) else (mn - o) * (1 / d)) st)
        if st2.tmax < st2.tmin then none else some st2 := rfl

private theorem clipNear_lift (i : Nat) (flip : Bool) (near : K) (st : ClipSt K) :
    letI := fieldNum K sq
    clipNear i flip (val near : Opt K sq) (liftClipSt sq st) = liftClipSt sq (clipNear i flip near st) := by
  letI := fieldNum K sq
  simp only [clipNear, optsimp]
  split_ifs <;> rfl
private theorem clipFar_lift (i : Nat) (flip : Bool) (far : K) (st : ClipSt K) :
    letI := fieldNum K sq
    clipFar i flip (val far : Opt K sq) (liftClipSt sq st) = liftClipSt sq (clipFar i flip far st) := by
  letI := fieldNum K sq
  simp only [clipFar, optsimp]
  split_ifs <;> rfl

/-- **C20 (one axis of clip_aabb_line)**: as `defined_slabStep`: every finite input. -/
theorem defined_clipStep (i : Nat) (mn mx o d : K) (st : ClipSt K) :
    letI := fieldNum K sq
    clipStep i (val mn : Opt K sq) (val mx) (val o) (val d) (liftClipSt sq st)
      = (clipStep i mn mx o d st).map (liftClipSt sq) := by
  letI := fieldNum K sq
  simp only [clipStep_eq, optsimp]
  by_cases hd : d = 0
  · simp only [if_pos hd]; split_ifs <;> rfl
  · simp only [if_neg hd, optsimp, val_ite, clipNear_lift, clipFar_lift]
    split_ifs <;> rfl

@[optsimp] private theorem axisVec_lift (k : Int) (v : K) :
    letI := fieldNum K sq
    axisVec k (val v : Opt K sq) = lift3 (axisVec k v) := by
  simp only [axisVec]; split_ifs <;> rfl

/-- **C20 (clip_aabb_line)**: defined for every finite box (flat, point-like, inverted), origin (on faces, edges,
vertices, inside) and direction — **the zero direction included**.  The only normalisation, the "diagonal" normal
`-dir.normalize()`, is taken when a `near`/`far` parameter of one axis *ties* with the running `tmin`/`tmax` (the line
goes through an edge or a vertex of the box, or two faces coincide in a flat box); a tie can only be recorded on an axis
with `dir[i] ≠ 0`, so `dir ≠ 0` is then guaranteed and the normal is defined as soon as the square-root operation does
not vanish at `|dir|²` (`hu`: no underflow below the threshold of `SqrtPos`; automatic for `θ = 0`,
`noUnderflow_zero`).  For `dir = 0` all three axes take the `dir[i] == 0` branch and no flag is ever set. -/
theorem defined_clipAabbLine {θ : K} (hs : SqrtPos sq θ) (big : K) (b : Aabb K) (o d : V3 K)
    (hu : letI := fieldNum K sq; d.normSq = 0 ∨ θ < d.normSq) :
    letI := fieldNum K sq
    clipAabbLine (val big : Opt K sq) (liftAabb sq b) (lift3 o) (lift3 d) = liftClipRes sq (clipAabbLine big b o d) := by
  letI := fieldNum K sq
  rcases hu with hu | hu
  · obtain ⟨dx, dy, dz⟩ := d
    obtain ⟨h1, h2, h3⟩ := normSq3_eq_zero (sq := sq) _ hu
    simp only at h1 h2 h3
    subst h1 h2 h3
    simp only [clipAabbLine, clipStep, optsimp, if_pos]
    split_ifs <;> rfl
  · have hne : sq d.normSq ≠ 0 := hs.ne hu
    simp only [clipAabbLine, optsimp, liftClipSt_mk, defined_clipStep, lift3_normalize _ hne]
    generalize clipStep 0 b.mins.x b.maxs.x o.x d.x _ = r0
    cases r0 with
    | none => rfl
    | some s0 =>
      simp only [optsimp, defined_clipStep]
      generalize clipStep 1 b.mins.y b.maxs.y o.y d.y s0 = r1
      cases r1 with
      | none => rfl
      | some s1 =>
        simp only [optsimp, defined_clipStep]
        generalize clipStep 2 b.mins.z b.maxs.z o.z d.z s1 = r2
        cases r2 with
        | none => rfl
        | some s2 =>
          obtain ⟨tmin, tmax, ns, fs, nd, fd⟩ := s2
          simp only [liftClipSt, liftClipRes, optsimp]
          split_ifs <;> rfl

/-- the diagonal normal is reachable and finite: cube `[-1,1]³`, ray from `(-2,-2,0)` along `(1,1,0)` enters through the
edge `x = y = -1` (`near_diag`), normal `-(1,1,0)/√2`; the zero direction from inside the box (solid) yields `toi = 0`
with the zero normal, no NaN. -/
theorem aabb_diag_normal_finite :
    hitFin ((Aabb.mk (K := NaNable) ⟨some (-1), some (-1), some (-1)⟩ ⟨some 1, some 1, some 1⟩).castLocalRayAndGetNormal
      (some 1000000) ⟨⟨some (-2), some (-2), some 0⟩, ⟨some 1, some 1, some 0⟩⟩ (some 10) true)
        = some (true, true, true, true) ∧
    (match clipAabbLine (K := NaNable) (some 1000000) ⟨⟨some (-1), some (-1), some (-1)⟩, ⟨some 1, some 1, some 1⟩⟩
        ⟨some (-2), some (-2), some 0⟩ ⟨some 1, some 1, some 0⟩ with
      | .none => false
      | .some near _ => decide (near.n.x < 0) && decide (near.n.y < 0)) = true ∧
    hitFin ((Aabb.mk (K := NaNable) ⟨some (-1), some (-1), some (-1)⟩ ⟨some 1, some 1, some 1⟩).castLocalRayAndGetNormal
      (some 1000000) ⟨⟨some 0, some 0, some 0⟩, ⟨some 0, some 0, some 0⟩⟩ (some 10) true)
        = some (true, true, true, true) := by
  decide +kernel

@[optsimp] private theorem liftClipEnd_t (e : ClipEnd K) : (liftClipEnd sq e).t = val e.t := id rfl
@[optsimp] private theorem liftClipEnd_n (e : ClipEnd K) : (liftClipEnd sq e).n = lift3 e.n := id rfl
@[optsimp] private theorem liftClipEnd_side (e : ClipEnd K) : (liftClipEnd sq e).side = e.side := id rfl

/-- **C20 (Aabb::cast_local_ray_and_get_normal)**: defined for every finite box, ray (zero direction, origin on the
boundary or inside, rays through edges and vertices), `max_toi` and both flags, under the no-underflow hypothesis of
`defined_clipAabbLine` on `|dir|²`. -/
theorem defined_aabb_castLocalRayAndGetNormal {θ : K} (hs : SqrtPos sq θ) (big : K) (b : Aabb K) (ray : Ray3 K)
    (maxToi : K) (solid : Bool) (hu : letI := fieldNum K sq; ray.d.normSq = 0 ∨ θ < ray.d.normSq) :
    letI := fieldNum K sq
    (liftAabb sq b).castLocalRayAndGetNormal (val big) (liftRay3 sq ray) (val maxToi) solid
      = (b.castLocalRayAndGetNormal big ray maxToi solid).map (liftHit3 sq) := by
  letI := fieldNum K sq
  simp only [Aabb.castLocalRayAndGetNormal, optsimp, defined_clipAabbLine sq hs _ _ _ _ hu]
  generalize clipAabbLine big b ray.o ray.d = r
  cases r with
  | none => rfl
  | some near far =>
    simp only [liftClipRes, optsimp]
    split_ifs <;> rfl

/-- **C20 (Cuboid::cast_local_ray_and_get_normal)**: every finite half-extents (zero and negative included). -/
theorem defined_cuboid3_castLocalRayAndGetNormal {θ : K} (hs : SqrtPos sq θ) (big : K) (he : V3 K) (ray : Ray3 K)
    (maxToi : K) (solid : Bool) (hu : letI := fieldNum K sq; ray.d.normSq = 0 ∨ θ < ray.d.normSq) :
    letI := fieldNum K sq
    (Cuboid3.mk (lift3 he : V3 (Opt K sq))).castLocalRayAndGetNormal (val big) (liftRay3 sq ray) (val maxToi) solid
      = ((Cuboid3.mk he).castLocalRayAndGetNormal big ray maxToi solid).map (liftHit3 sq) := by
  letI := fieldNum K sq
  simp only [Cuboid3.castLocalRayAndGetNormal, optsimp, defined_aabb_castLocalRayAndGetNormal sq hs _ _ _ _ _ hu]

/-- **C20 (RayCast::cast_ray_and_get_normal for Cuboid)**: any pose; the no-underflow hypothesis is on the direction
in the local frame (`= |dir|²` for a unit quaternion). -/
theorem defined_cuboid3_castRayAndGetNormal {θ : K} (hs : SqrtPos sq θ) (big : K) (he : V3 K) (m : Iso3 K)
    (ray : Ray3 K) (maxToi : K) (solid : Bool)
    (hu : letI := fieldNum K sq; (m.invRot ray.d).normSq = 0 ∨ θ < (m.invRot ray.d).normSq) :
    letI := fieldNum K sq
    (Cuboid3.mk (lift3 he : V3 (Opt K sq))).castRayAndGetNormal (val big) (liftIso3 m) (liftRay3 sq ray) (val maxToi) solid
      = ((Cuboid3.mk he).castRayAndGetNormal big m ray maxToi solid).map (liftHit3 sq) := by
  letI := fieldNum K sq
  have hu' : (ray.invTransform m).d.normSq = 0 ∨ θ < (ray.invTransform m).d.normSq := hu
  simp only [Cuboid3.castRayAndGetNormal, optsimp,
    defined_cuboid3_castLocalRayAndGetNormal sq hs _ _ (ray.invTransform m) _ _ hu', map_transformBy3]

/-! ## HalfSpace (`ray_halfspace.rs`) -/

/-- **C20 (HalfSpace::cast_local_ray_and_get_normal, as fixed in /repo)**: defined for every finite normal (unit or
not, zero included), ray, `max_toi` and flag — **including rays parallel to the boundary plane and rays lying in it**
(`normal·dir == 0` is tested before the division). -/
theorem defined_halfspace3_castLocalRayAndGetNormal (n : V3 K) (ray : Ray3 K) (maxToi : K) (solid : Bool) :
    letI := fieldNum K sq
    (HalfSpace3.mk (lift3 n : V3 (Opt K sq))).castLocalRayAndGetNormal (liftRay3 sq ray) (val maxToi) solid
      = ((HalfSpace3.mk n).castLocalRayAndGetNormal ray maxToi solid).map (liftHit3 sq) := by
  letI := fieldNum K sq
  simp only [HalfSpace3.castLocalRayAndGetNormal, optsimp]
  by_cases hd : n.dot ray.d = 0
  · simp only [if_pos hd]; split_ifs <;> rfl
  · simp only [if_neg hd, optsimp]
    split_ifs <;> rfl

/-- **C20 (RayCast::cast_ray_and_get_normal for HalfSpace)** -/
theorem defined_halfspace3_castRayAndGetNormal (n : V3 K) (m : Iso3 K) (ray : Ray3 K) (maxToi : K) (solid : Bool) :
    letI := fieldNum K sq
    (HalfSpace3.mk (lift3 n : V3 (Opt K sq))).castRayAndGetNormal (liftIso3 m) (liftRay3 sq ray) (val maxToi) solid
      = ((HalfSpace3.mk n).castRayAndGetNormal m ray maxToi solid).map (liftHit3 sq) := by
  letI := fieldNum K sq
  simp only [HalfSpace3.castRayAndGetNormal, optsimp, defined_halfspace3_castLocalRayAndGetNormal, map_transformBy3]

/-! ### The pinned-tree `HalfSpace::cast_local_ray_and_get_normal` (no parallel-ray guard) is *not* defined

`castLocalRayAndGetNormalPinned` divides `normal·(−origin)` by `normal·dir` unconditionally.  For a ray lying in the
boundary plane this is `0/0`: the NaN-propagating evaluation answers `None` (both comparisons with NaN are false) while
the exact evaluation (and the fixed code) answers `Some(toi = 0)`; for a parallel ray strictly inside (`solid = false`)
it is `x/0` (`+inf` at `f64`, reported as a hit at infinity when `max_toi = +inf`). -/

/-- witnesses at `NaNable` (left) against the exact `Rat` evaluation (right) and the fixed model -/
theorem halfspace_pinned_parallel_undefined :
    -- ray lying in the boundary plane `y = 0` of the half-space with normal `+y`
    ((HalfSpace3.mk (K := NaNable) ⟨some 0, some 1, some 0⟩).castLocalRayAndGetNormalPinned
        ⟨⟨some 0, some 0, some 0⟩, ⟨some 1, some 0, some 0⟩⟩ (some 10) false).isSome = false ∧
    ((HalfSpace3.mk (K := Rat) ⟨0, 1, 0⟩).castLocalRayAndGetNormalPinned ⟨⟨0, 0, 0⟩, ⟨1, 0, 0⟩⟩ 10 false).isSome = true ∧
    hitFin ((HalfSpace3.mk (K := NaNable) ⟨some 0, some 1, some 0⟩).castLocalRayAndGetNormal
        ⟨⟨some 0, some 0, some 0⟩, ⟨some 1, some 0, some 0⟩⟩ (some 10) false) = some (true, true, true, true) ∧
    -- parallel ray strictly inside, `solid = false`
    ((HalfSpace3.mk (K := NaNable) ⟨some 0, some 1, some 0⟩).castLocalRayAndGetNormalPinned
        ⟨⟨some 0, some (-1), some 0⟩, ⟨some 1, some 0, some 0⟩⟩ (some 10) false).isSome = false ∧
    ((HalfSpace3.mk (K := Rat) ⟨0, 1, 0⟩).castLocalRayAndGetNormalPinned ⟨⟨0, -1, 0⟩, ⟨1, 0, 0⟩⟩ 10 false).isSome = true := by
  decide +kernel

/-- the definedness equation fails for the pinned version, over every ordered field: ray in the plane `y = 0`. -/
theorem halfspace_pinned_not_defined :
    letI := fieldNum K sq
    (HalfSpace3.mk (lift3 ⟨0, 1, 0⟩ : V3 (Opt K sq))).castLocalRayAndGetNormalPinned
        (liftRay3 sq ⟨⟨0, 0, 0⟩, ⟨1, 0, 0⟩⟩) (val 1) false
      ≠ ((HalfSpace3.mk (⟨0, 1, 0⟩ : V3 K)).castLocalRayAndGetNormalPinned ⟨⟨0, 0, 0⟩, ⟨1, 0, 0⟩⟩ 1 false).map
          (liftHit3 sq) := by
  letI := fieldNum K sq
  simp [HalfSpace3.castLocalRayAndGetNormalPinned, optsimp, V3.dot, V3.neg]

/-! ## Triangle, 3-D (`ray_triangle.rs`) -/

/-- result of `local_ray_intersection_with_triangle`: the intersection and the barycentric coordinates -/
def liftHitBary (r : Hit3 K × V3 K) : Hit3 (Opt K sq) × V3 (Opt K sq) := (liftHit3 sq r.1, lift3 r.2)

private theorem nabs_ne_zero (d : K) (h : d ≠ 0) : letI := fieldNum K sq; nabs d ≠ 0 := by
  letI := fieldNum K sq
  unfold nabs; split_ifs
  · exact neg_ne_zero.mpr h
  · exact h

/-- **C20 (local_ray_intersection_with_triangle)**: defined for every finite triangle — **degenerate ones included**:
for a flat or point-like triangle `n = ab × ac = 0`, hence `d = n·dir = 0` and the function returns `None` before any
division — and every ray (zero direction, parallel to the plane, origin in the plane or on the triangle).  The
divisions `1/|d|` and the normalisation of `n` are reached only with `d ≠ 0`, i.e. `n ≠ 0`; the normal is defined as soon
as the square-root operation does not vanish at `|n|²` (`hu`, automatic for `θ = 0`). -/
theorem defined_localRayIntersectionWithTriangle {θ : K} (hs : SqrtPos sq θ) (a b c : V3 K) (ray : Ray3 K)
    (hu : letI := fieldNum K sq;
      ((b.sub a).cross (c.sub a)).normSq = 0 ∨ θ < ((b.sub a).cross (c.sub a)).normSq) :
    letI := fieldNum K sq
    localRayIntersectionWithTriangle (lift3 a : V3 (Opt K sq)) (lift3 b) (lift3 c) (liftRay3 sq ray)
      = (localRayIntersectionWithTriangle a b c ray).map (liftHitBary sq) := by
  letI := fieldNum K sq
  simp only [localRayIntersectionWithTriangle, optsimp]
  generalize (b.sub a).cross (c.sub a) = n at *
  by_cases hd : n.dot ray.d = 0
  · simp only [if_pos hd]; rfl
  · have hn : n.normSq ≠ 0 := by
      intro h0
      obtain ⟨h1, h2, h3⟩ := normSq3_eq_zero (sq := sq) _ h0
      apply hd; simp only [V3.dot, h1, h2, h3, zero_mul, add_zero]
    have hne : sq n.normSq ≠ 0 := by
      rcases hu with hu | hu
      · exact absurd hu hn
      · exact hs.ne hu
    simp only [if_neg hd, if_neg (nabs_ne_zero sq _ hd), lift3_normalize _ hne, optsimp]
    split_ifs <;> rfl

@[optsimp] private theorem liftHitBary_1 (r : Hit3 K × V3 K) : (liftHitBary sq r).1 = liftHit3 sq r.1 := id rfl

/-- **C20 (Triangle::cast_local_ray_and_get_normal)**: as `defined_localRayIntersectionWithTriangle`, any `max_toi`. -/
theorem defined_triangle3_castLocalRayAndGetNormal {θ : K} (hs : SqrtPos sq θ) (s : Triangle3 K) (ray : Ray3 K)
    (maxToi : K) (solid : Bool)
    (hu : letI := fieldNum K sq;
      ((s.b.sub s.a).cross (s.c.sub s.a)).normSq = 0 ∨ θ < ((s.b.sub s.a).cross (s.c.sub s.a)).normSq) :
    letI := fieldNum K sq
    (liftTri3 sq s).castLocalRayAndGetNormal (liftRay3 sq ray) (val maxToi) solid
      = (s.castLocalRayAndGetNormal ray maxToi solid).map (liftHit3 sq) := by
  letI := fieldNum K sq
  simp only [Triangle3.castLocalRayAndGetNormal, liftTri3, defined_localRayIntersectionWithTriangle sq hs _ _ _ _ hu]
  generalize localRayIntersectionWithTriangle s.a s.b s.c ray = r
  cases r with
  | none => rfl
  | some x =>
    obtain ⟨inter, bary⟩ := x
    simp only [liftHitBary, optsimp]
    split_ifs <;> rfl

/-! ## Segment, 2-D (`ray_support_map.rs`, `closest_points_line_line.rs`) -/

/-- `ulps_eq!` on NaN-propagating scalars: false as soon as one operand is NaN, else the exact-arithmetic clause
`|a − b| ≤ ε` of `C04.fieldUlps` -/
@[reducible] def optUlps : UlpsEq (Opt K sq) where
  ulpsEq a b := match a, b with
    | some x, some y => decide (|x - y| ≤ C04.epsK K)
    | _, _ => false

@[optsimp] private theorem ulpsEq_val (a b : K) :
    @UlpsEq.ulpsEq (Opt K sq) (optUlps sq) (val a) (val b) = @UlpsEq.ulpsEq K (C04.fieldUlps K) a b := id rfl

/-- result `(s, t, parallel)` of `closest_points_line_line_parameters_eps` -/
def liftCP (r : K × K × Bool) : Opt K sq × Opt K sq × Bool := (val r.1, val r.2.1, r.2.2)

/-- **C20 (closest_points_line_line_parameters_eps, 2-D)**: defined for every finite pair of lines and every threshold
`eps ≥ 0` — **zero directions** (`a ≤ eps` and/or `e ≤ eps`: the corresponding parameter is set to `0` without
dividing), **parallel and identical lines** (`denom ≤ eps` or `ulps_eq!(ae, bb)`: `s = 0` without dividing).  Each
divisor (`a`, `e`, `denom`) has been tested `> eps ≥ 0`.  (With a negative `eps` the tests no longer protect the
divisions: `eps = -1`, `d1 = d2 = 0` gives `f / 0`.)  Left: `ulps_eq!` on NaN-propagating scalars (`optUlps`); right:
the exact-arithmetic instance `C04.fieldUlps` used by the C04 theorems. -/
theorem defined_closestPointsLineLineParametersEps2 (o1 d1 o2 d2 : V2 K) (eps : K) (heps : 0 ≤ eps) :
    letI := fieldNum K sq
    @closestPointsLineLineParametersEps2 (Opt K sq) _ (optUlps sq) (lift2 o1) (lift2 d1) (lift2 o2) (lift2 d2) (val eps)
      = liftCP sq (@closestPointsLineLineParametersEps2 K _ (C04.fieldUlps K) o1 d1 o2 d2 eps) := by
  letI := fieldNum K sq
  simp only [closestPointsLineLineParametersEps2, optsimp, apply_ite (liftCP sq)]
  opt_tree
  · rename_i h1 h2
    have he : d2.normSq ≠ 0 := by
      intro h0; apply h1; exact ⟨h2, by rw [h0]; exact heps⟩
    simp only [if_neg he]; rfl
  · rename_i h1 h2 h3
    have ha : d1.normSq ≠ 0 := by
      intro h0; apply h2; rw [h0]; exact heps
    simp only [if_neg ha]; rfl
  · rename_i h1 h2 h3
    have he : d2.normSq ≠ 0 := by
      intro h0; apply h3; rw [h0]; exact heps
    generalize hp : (decide (d1.normSq * d2.normSq - d1.dot d2 * d1.dot d2 ≤ eps) ||
      @UlpsEq.ulpsEq K (C04.fieldUlps K) (d1.normSq * d2.normSq) (d1.dot d2 * d1.dot d2)) = par
    cases par with
    | true => simp only [optsimp, if_neg he, Bool.true_eq_false, if_false]; rfl
    | false =>
      have hden : d1.normSq * d2.normSq - d1.dot d2 * d1.dot d2 ≠ 0 := by
        intro h0
        rw [Bool.or_eq_false_iff, decide_eq_false_iff_not, h0] at hp
        exact hp.1 heps
      simp only [optsimp, if_neg he, if_neg hden, if_true]; rfl

@[optsimp] private theorem liftSeg2_a (s : Segment2 K) : (liftSeg2 sq s).a = lift2 s.a := id rfl
@[optsimp] private theorem liftSeg2_b (s : Segment2 K) : (liftSeg2 sq s).b = lift2 s.b := id rfl
@[optsimp] private theorem defaultEps_val : letI := fieldNum K sq; (defaultEps : Opt K sq) = val (defaultEps : K) := id rfl
private theorem defaultEps_pos : letI := fieldNum K sq; (0 : K) < defaultEps := lit_pos 1 _ (by decide) (by decide)

/-- **C20 (Segment::normal, 2-D, `unwrap_or(zeros)`)**: `Unit::try_new(v, ε)` divides by `sqrt(|v|²)` only after
`|v|² > ε²`: defined for every finite segment, **zero-length included** (zero normal).  `hθ`: the square-root operation
does not vanish above `ε² = 2⁻¹⁰⁴` (true for a lawful square root, `θ = 0`). -/
theorem defined_segment2_normalOrZero {θ : K} (hs : SqrtPos sq θ)
    (hθ : letI := fieldNum K sq; θ ≤ (defaultEps : K) * defaultEps) (s : Segment2 K) :
    letI := fieldNum K sq
    (liftSeg2 sq s).normalOrZero = lift2 s.normalOrZero := by
  letI := fieldNum K sq
  simp only [Segment2.normalOrZero, optsimp]
  split_ifs with h1 h2
  all_goals first
    | rfl
    | (exfalso; exact absurd (normSq2_nonneg (sq := sq) _) (not_le.mpr (by assumption)))
    | (rw [lift2_sdiv _ _ (hs.ne (lt_of_le_of_lt hθ h1))])

/-- `parallel = true` is only returned when both squared lengths exceed `eps` -/
private theorem cp_parallel_pos (o1 d1 o2 d2 : V2 K) (eps : K) :
    letI := fieldNum K sq
    (@closestPointsLineLineParametersEps2 K _ (C04.fieldUlps K) o1 d1 o2 d2 eps).2.2 = true → eps < d1.normSq := by
  letI := fieldNum K sq
  simp only [closestPointsLineLineParametersEps2]
  split_ifs with h1 h2 h3
  all_goals first
    | (intro _; exact not_le.mp h2)
    | (intro h; exact absurd h (by simp))

/-- **C20 (Segment::cast_local_ray_and_get_normal, 2-D)**: defined for **every** finite segment, ray, `max_toi` and flag:
zero-length segments (`e ≤ ε`: not "parallel", `t = 0`, zero normal), the zero direction (`a ≤ ε`: `s = 0`), rays
parallel to or lying on the segment (the collinear branch divides by `|dir|²`, which is `> ε` whenever `parallel` is
reported — `cp_parallel_pos`), rays through an end point. -/
theorem defined_segment2_castLocalRayAndGetNormal {θ : K} (hs : SqrtPos sq θ)
    (hθ : letI := fieldNum K sq; θ ≤ (defaultEps : K) * defaultEps) (s : Segment2 K) (ray : Ray2 K) (maxToi : K)
    (solid : Bool) :
    letI := fieldNum K sq
    @Segment2.castLocalRayAndGetNormal (Opt K sq) _ (optUlps sq) (liftSeg2 sq s) (liftRay2 sq ray) (val maxToi) solid
      = (@Segment2.castLocalRayAndGetNormal K _ (C04.fieldUlps K) s ray maxToi solid).map (liftHit2 sq) := by
  letI := fieldNum K sq
  have hpar := cp_parallel_pos sq ray.o ray.d s.a (s.b.sub s.a) defaultEps
  simp only [Segment2.castLocalRayAndGetNormal, optsimp,
    defined_closestPointsLineLineParametersEps2 sq _ _ _ _ _ (le_of_lt (defaultEps_pos sq)),
    defined_segment2_normalOrZero sq hs hθ]
  generalize @closestPointsLineLineParametersEps2 K _ (C04.fieldUlps K) ray.o ray.d s.a (s.b.sub s.a) defaultEps = r at *
  obtain ⟨sp, tp, par⟩ := r
  cases par with
  | false =>
    simp only [liftCP, optsimp]
    split_ifs <;> rfl
  | true =>
    have hd : ray.d.normSq ≠ 0 := ne_of_gt (lt_trans (defaultEps_pos sq) (hpar rfl))
    simp only [liftCP, optsimp, if_neg hd]
    split_ifs <;> rfl

/-- **C20 (RayCast::cast_ray_and_get_normal for Segment, 2-D)**: any pose. -/
theorem defined_segment2_castRayAndGetNormal {θ : K} (hs : SqrtPos sq θ)
    (hθ : letI := fieldNum K sq; θ ≤ (defaultEps : K) * defaultEps) (s : Segment2 K) (m : Iso2 K) (ray : Ray2 K)
    (maxToi : K) (solid : Bool) :
    letI := fieldNum K sq
    @Segment2.castRayAndGetNormal (Opt K sq) _ (optUlps sq) (liftSeg2 sq s) (liftIso2 m) (liftRay2 sq ray) (val maxToi) solid
      = (@Segment2.castRayAndGetNormal K _ (C04.fieldUlps K) s m ray maxToi solid).map (liftHit2 sq) := by
  letI := fieldNum K sq
  simp only [Segment2.castRayAndGetNormal, optsimp, defined_segment2_castLocalRayAndGetNormal sq hs hθ,
    map_transformBy2]

/-- `ulps_eq!` at `NaNable` (for the concrete checks below) -/
@[reducible] def nanUlps : UlpsEq NaNable where
  ulpsEq a b := match a, b with
    | some x, some y => decide (x - y ≤ (mkRat 1 4503599627370496 : ℚ)) && decide (y - x ≤ (mkRat 1 4503599627370496 : ℚ))
    | _, _ => false

/-- concrete degenerate inputs at `NaNable`: zero-length segment hit by a ray, zero direction, a ray lying on the
segment, a ray parallel to it — every returned float is finite (the zero-direction ray is reported as a hit at
`toi = 0` although its origin is not on the segment: finite, but see the report) -/
theorem segment2_degenerate_finite :
    hitFin2 (@Segment2.castLocalRayAndGetNormal NaNable _ nanUlps ⟨⟨some 1, some 0⟩, ⟨some 1, some 0⟩⟩
      ⟨⟨some 0, some 0⟩, ⟨some 1, some 0⟩⟩ (some 10) true) = some (true, true, true) ∧
    hitFin2 (@Segment2.castLocalRayAndGetNormal NaNable _ nanUlps ⟨⟨some 1, some (-1)⟩, ⟨some 1, some 1⟩⟩
      ⟨⟨some 0, some 0⟩, ⟨some 0, some 0⟩⟩ (some 10) true) = some (true, true, true) ∧
    hitFin2 (@Segment2.castLocalRayAndGetNormal NaNable _ nanUlps ⟨⟨some 1, some 0⟩, ⟨some 2, some 0⟩⟩
      ⟨⟨some 0, some 0⟩, ⟨some 1, some 0⟩⟩ (some 10) true) = some (true, true, true) ∧
    hitFin2 (@Segment2.castLocalRayAndGetNormal NaNable _ nanUlps ⟨⟨some 1, some 1⟩, ⟨some 2, some 1⟩⟩
      ⟨⟨some 0, some 0⟩, ⟨some 1, some 0⟩⟩ (some 10) true) = none := by
  decide +kernel

/-! # C15: 2-D segment intersection (`utils/segments_intersection.rs`) -/

def liftSegLoc15 : Model.C15.SegLoc K → Model.C15.SegLoc (Opt K sq)
  | .onVertex i => .onVertex i
  | .onEdge u v => .onEdge (val u) (val v)
def liftSegInter15 : Model.C15.SegInter K → Model.C15.SegInter (Opt K sq)
  | .point a b => .point (liftSegLoc15 sq a) (liftSegLoc15 sq b)
  | .segment a b c d => .segment (liftSegLoc15 sq a) (liftSegLoc15 sq b) (liftSegLoc15 sq c) (liftSegLoc15 sq d)

@[optsimp] private theorem orientation2d_lift (a b c : V2 K) (eps : K) :
    letI := fieldNum K sq
    Model.C15.orientation2d (lift2 a : V2 (Opt K sq)) (lift2 b) (lift2 c) (val eps) = Model.C15.orientation2d a b c eps := by
  letI := fieldNum K sq
  simp only [Model.C15.orientation2d, optsimp]

/-- **C20 (segments_intersection::between)**: the divisor `b.x − a.x` (resp. `b.y − a.y`) is used only in the branch
`a.x != b.x` (resp. `a.y != b.y`): defined for every finite triple, **including `a = b`** (third branch, no division). -/
theorem defined_between (a b c : V2 K) :
    letI := fieldNum K sq
    Model.C15.between (lift2 a : V2 (Opt K sq)) (lift2 b) (lift2 c) = (Model.C15.between a b c).map (liftSegLoc15 sq) := by
  letI := fieldNum K sq
  simp only [Model.C15.between, optsimp, apply_ite (Option.map (liftSegLoc15 sq))]
  opt_tree
  all_goals first
    | (have h : a.x ≠ b.x := by assumption
       have h1 : b.x - a.x ≠ 0 := sub_ne_zero.mpr (Ne.symm h)
       have h2 : a.x - b.x ≠ 0 := sub_ne_zero.mpr h
       simp only [if_neg h1, if_neg h2, optsimp]; rfl)
    | (have h : a.y ≠ b.y := by assumption
       have h1 : b.y - a.y ≠ 0 := sub_ne_zero.mpr (Ne.symm h)
       have h2 : a.y - b.y ≠ 0 := sub_ne_zero.mpr h
       simp only [if_neg h1, if_neg h2, optsimp]; rfl)

/-- **C20 (parallel_intersection)**: every finite input — identical, collinear-overlapping, collinear-disjoint and
zero-length segments — and every `eps`. -/
theorem defined_parallelIntersection (a b c d : V2 K) (eps : K) :
    letI := fieldNum K sq
    Model.C15.parallelIntersection (lift2 a : V2 (Opt K sq)) (lift2 b) (lift2 c) (lift2 d) (val eps)
      = (Model.C15.parallelIntersection a b c d eps).map (liftSegInter15 sq) := by
  letI := fieldNum K sq
  simp only [Model.C15.parallelIntersection, optsimp, defined_between]
  split_ifs
  · rfl
  · generalize Model.C15.between a b c = r1
    generalize Model.C15.between a b d = r2
    generalize Model.C15.between c d a = r3
    generalize Model.C15.between c d b = r4
    cases r1 <;> cases r2 <;> cases r3 <;> cases r4 <;> rfl

@[optsimp] private theorem epsMach_val : letI := fieldNum K sq; (Model.C15.epsMach : Opt K sq) = val (Model.C15.epsMach : K) := id rfl
@[optsimp] private theorem ulpsEqZero_lift (x : K) :
    letI := fieldNum K sq
    Model.C15.ulpsEqZero (val x : Opt K sq) = Model.C15.ulpsEqZero x := by
  letI := fieldNum K sq
  simp only [Model.C15.ulpsEqZero, optsimp, val_ite]
@[optsimp] private theorem locOfParam_lift (x : K) :
    letI := fieldNum K sq
    Model.C15.locOfParam (val x : Opt K sq) = liftSegLoc15 sq (Model.C15.locOfParam x) := by
  letI := fieldNum K sq
  simp only [Model.C15.locOfParam, optsimp]
  split_ifs <;> rfl
private theorem epsMach_pos : letI := fieldNum K sq; (0 : K) < Model.C15.epsMach := lit_pos 1 _ (by decide) (by decide)

@[optsimp] private theorem segDenom_lift (a b c d : V2 K) :
    letI := fieldNum K sq
    Model.C15.segDenom (lift2 a : V2 (Opt K sq)) (lift2 b) (lift2 c) (lift2 d) = val (Model.C15.segDenom a b c d) := id rfl

/-- **C20 (segments_intersection2d)**: defined for **every** finite pair of segments and every `eps` (any sign):
`s = num / denom`, `t = num' / denom` are computed only when neither `|denom| < eps` nor `ulps_eq!(denom, 0)` holds, and
the latter is true for `denom = 0`; so identical, collinear, parallel and zero-length segments all go to
`parallel_intersection` (`defined_parallelIntersection`), touching end points give `s, t ∈ {0, 1}` (finite). -/
theorem defined_segmentsIntersection2d (a b c d : V2 K) (eps : K) :
    letI := fieldNum K sq
    Model.C15.segmentsIntersection2d (lift2 a : V2 (Opt K sq)) (lift2 b) (lift2 c) (lift2 d) (val eps)
      = (Model.C15.segmentsIntersection2d a b c d eps).map (liftSegInter15 sq) := by
  letI := fieldNum K sq
  simp only [Model.C15.segmentsIntersection2d, optsimp, defined_parallelIntersection,
    apply_ite (Option.map (liftSegInter15 sq))]
  refine ite_congr' (fun _ => rfl) (fun h1 => ?_)
  have hden : Model.C15.segDenom a b c d ≠ 0 := by
    intro h0
    apply h1; right
    simp only [Model.C15.ulpsEqZero, h0, lt_irrefl, if_false, sub_zero, decide_eq_true_eq]
    exact le_of_lt (epsMach_pos sq)
  simp only [if_neg hden, optsimp]
  split_ifs <;> rfl

/-! # C17: splitting and clipping -/

@[optsimp] private theorem f64Eps_val : letI := fieldNum K sq; (f64Eps : Opt K sq) = val (f64Eps : K) := id rfl
@[optsimp] private theorem relEqZero_lift (x : K) :
    letI := fieldNum K sq
    relEqZero (val x : Opt K sq) = relEqZero x := by
  letI := fieldNum K sq
  simp only [relEqZero, optsimp, val_ite]

def liftSplitSeg3 : Split (Segment3 K) → Split (Segment3 (Opt K sq))
  | .pair a b => .pair (liftSeg3 sq a) (liftSeg3 sq b)
  | .negative => .negative
  | .positive => .positive
def liftSplitRes (r : Split (Segment3 K) × Option (V3 K × K)) : Split (Segment3 (Opt K sq)) × Option (V3 (Opt K sq) × Opt K sq) :=
  (liftSplitSeg3 sq r.1, r.2.map fun p => (lift3 p.1, val p.2))
@[optsimp] private theorem liftSeg3_a (s : Segment3 K) : (liftSeg3 sq s).a = lift3 s.a := id rfl
@[optsimp] private theorem liftSeg3_b (s : Segment3 K) : (liftSeg3 sq s).b = lift3 s.b := id rfl

private theorem relEqZero_zero : letI := fieldNum K sq; relEqZero (0 : K) = true := by
  letI := fieldNum K sq
  simp [relEqZero, neq]

/-- **C20 (Segment::local_split_and_get_intersection)**: `bcoord = a / b` is computed *before* the test
`relative_eq!(b, 0)`; for a segment parallel to the plane (`b = 0`, in particular a **zero-length segment**) it is `x/0`
or `0/0` — an intermediate NaN/inf that never reaches the output: `relative_eq!(0, 0)` is true and the `||` chain
short-circuits to the no-cut branch, which does not use `bcoord`.  So the *observable* result is defined for every
finite segment, axis (unit or not, zero included), `bias` and `epsilon` (any sign); `dir.norm()` is a square root of a
sum of squares. -/
theorem defined_segment3_localSplit (s : Segment3 K) (n : V3 K) (bias eps : K) :
    letI := fieldNum K sq
    (liftSeg3 sq s).localSplit (lift3 n) (val bias) (val eps) = liftSplitRes sq (s.localSplit n bias eps) := by
  letI := fieldNum K sq
  simp only [Segment3.localSplit, optsimp, apply_ite (liftSplitRes sq)]
  by_cases hb : n.dot (s.b.sub s.a) = 0
  · simp only [hb, relEqZero_zero, optsimp, true_or, if_true]
    opt_tree
  · simp only [if_neg hb, optsimp]
    opt_tree

def liftClipPts (c : ClipPts K) : ClipPts (Opt K sq) := ⟨lift2 c.p1, lift2 c.p2, c.f1, c.f2⟩
def liftClipPair (r : ClipPts K × ClipPts K) : ClipPts (Opt K sq) × ClipPts (Opt K sq) := (liftClipPts sq r.1, liftClipPts sq r.2)

/-- **C20 (clip_segment_segment)**: defined when `seg1` has non-zero length (`h1`) and — `h2` — the projection of `seg2`
on the line of `seg1` is not a single point that falls exactly on an end point of `seg1` (parameters `0` or `|seg1|²`).
So: parallel, overlapping, identical, touching and disjoint segments are covered, a `seg2` perpendicular to `seg1` whose
foot is strictly inside `seg1` or outside `seg1` is covered (`None` outside), `seg1 = seg2` is covered.  When `h1` or
`h2` fails the code divides `0/0`: see `clipSegmentSegment_perpendicular_nan`. -/
theorem defined_clipSegmentSegment (a1 b1 a2 b2 : V2 K)
    (h1 : letI := fieldNum K sq; (b1.sub a1).normSq ≠ 0)
    (h2 : letI := fieldNum K sq; (a2.sub a1).dot (b1.sub a1) = (b2.sub a1).dot (b1.sub a1) →
      (a2.sub a1).dot (b1.sub a1) ≠ 0 ∧ (a2.sub a1).dot (b1.sub a1) ≠ (b1.sub a1).normSq) :
    letI := fieldNum K sq
    clipSegmentSegment (lift2 a1 : V2 (Opt K sq)) (lift2 b1) (lift2 a2) (lift2 b2)
      = (clipSegmentSegment a1 b1 a2 b2).map (liftClipPair sq) := by
  letI := fieldNum K sq
  have hsq : ¬ (b1.sub a1).normSq < 0 := not_lt.mpr (normSq2_nonneg (sq := sq) _)
  simp only [clipSegmentSegment, optsimp, hsq, decide_false, if_false, Bool.false_eq_true]
  generalize (b1.sub a1).normSq = sqn at *
  generalize (a2.sub a1).dot (b1.sub a1) = r20 at *
  generalize (b2.sub a1).dot (b1.sub a1) = r21 at *
  have hs0 : sqn - 0 ≠ 0 := by rw [sub_zero]; exact h1
  have key : ∀ (lo hi : K) (p q : V2 K) (f g : Nat), lo ≤ hi → (lo = hi → lo ≠ 0 ∧ lo ≠ sqn) →
      (if val sqn < (val lo : Opt K sq) ∨ (val hi : Opt K sq) < val 0 then none
       else some
        (if (val 0 : Opt K sq) < val lo then
            ({ p1 := (lift2 a1).add ((lift2 (b1.sub a1)).smul ((val lo - val 0) / val (sqn - 0))),
               p2 := lift2 p, f1 := 1, f2 := f } : ClipPts (Opt K sq))
          else
            { p1 := lift2 a1,
              p2 := (lift2 p).add (((lift2 q).sub (lift2 p)).smul ((val 0 - val lo) / (val hi - val lo))),
              f1 := 0, f2 := 1 },
          if (val hi : Opt K sq) < val sqn then
            ({ p1 := (lift2 a1).add ((lift2 (b1.sub a1)).smul ((val hi - val 0) / val (sqn - 0))),
               p2 := lift2 q, f1 := 1, f2 := g } : ClipPts (Opt K sq))
          else
            { p1 := lift2 b1,
              p2 := (lift2 p).add (((lift2 q).sub (lift2 p)).smul ((val sqn - val lo) / (val hi - val lo))),
              f1 := 2, f2 := 1 })) =
      Option.map (liftClipPair sq)
        (if sqn < lo ∨ hi < 0 then none
         else some
          (if 0 < lo then
              { p1 := a1.add ((b1.sub a1).smul ((lo - 0) / (sqn - 0))), p2 := p, f1 := 1, f2 := f }
            else
              { p1 := a1, p2 := p.add ((q.sub p).smul ((0 - lo) / (hi - lo))), f1 := 0, f2 := 1 },
            if hi < sqn then
              { p1 := a1.add ((b1.sub a1).smul ((hi - 0) / (sqn - 0))), p2 := q, f1 := 1, f2 := g }
            else
              { p1 := b1, p2 := p.add ((q.sub p).smul ((sqn - lo) / (hi - lo))), f1 := 2, f2 := 1 })) := by
    intro lo hi p q f g hle hne
    simp only [optsimp, if_neg hs0]
    split_ifs with c1 c2 c3 c2 c3
    all_goals first
      | rfl
      | (have hd : hi - lo ≠ 0 := by
           intro h0
           have e : lo = hi := by linarith
           obtain ⟨n1, n2⟩ := hne e
           push Not at c1
           rcases lt_trichotomy lo 0 with h | h | h
           · linarith [c1.2]
           · exact n1 h
           · rcases lt_trichotomy lo sqn with h' | h' | h'
             · linarith
             · exact n2 h'
             · linarith [c1.1]
         exfalso; exact hd (by assumption))
  by_cases hsw : r21 < r20
  · simp only [if_pos hsw]
    exact key r21 r20 b2 a2 2 0 (le_of_lt hsw) (fun e => by
      obtain ⟨n1, n2⟩ := h2 e.symm; exact ⟨e ▸ n1, e ▸ n2⟩)
  · simp only [if_neg hsw]
    exact key r20 r21 a2 b2 0 2 (not_lt.mp hsw) h2

/-! ## `clip_aabb_line` and the `Aabb::clip_*` functions (C17 transliteration) -/

def liftAabb3c (b : Aabb3 K) : Aabb3 (Opt K sq) := ⟨lift3 b.mins, lift3 b.maxs⟩
@[optsimp] private theorem liftAabb3c_mins (b : Aabb3 K) : (liftAabb3c sq b).mins = lift3 b.mins := id rfl
@[optsimp] private theorem liftAabb3c_maxs (b : Aabb3 K) : (liftAabb3c sq b).maxs = lift3 b.maxs := id rfl
def liftClipState (s : ClipState K) : ClipState (Opt K sq) := ⟨val s.tmin, val s.tmax, s.nearSide, s.farSide, s.nearDiag, s.farDiag⟩
@[optsimp] private theorem liftClipState_tmin (s : ClipState K) : (liftClipState sq s).tmin = val s.tmin := id rfl
@[optsimp] private theorem liftClipState_tmax (s : ClipState K) : (liftClipState sq s).tmax = val s.tmax := id rfl

private def clipNearC {K : Type} [Num K] (i : Fin 3) (flip : Bool) (near : K) (st : ClipState K) : ClipState K :=
  if st.tmin < near then
    { st with tmin := near, nearSide := if flip then -((i.val : Int) + 1) else (i.val : Int) + 1, nearDiag := false }
  else if neq near st.tmin then { st with nearDiag := true } else st
private def clipFarC {K : Type} [Num K] (i : Fin 3) (flip : Bool) (far : K) (st1 : ClipState K) : ClipState K :=
  if far < st1.tmax then
    { st1 with tmax := far, farSide := if !flip then -((i.val : Int) + 1) else (i.val : Int) + 1, farDiag := false }
  else if neq far st1.tmax then { st1 with farDiag := true } else st1
private theorem clipUpdate_eq {K : Type} [Num K] (st : ClipState K) (near far : K) (flip : Bool) (i : Fin 3) :
    clipUpdate st near far flip i =
      (let st2 := clipFarC i flip far (clipNearC i flip near st)
       if st2.tmax < st2.tmin then none else some st2) := rfl
private theorem clipNearC_lift (i : Fin 3) (flip : Bool) (near : K) (st : ClipState K) :
    letI := fieldNum K sq
    clipNearC i flip (val near : Opt K sq) (liftClipState sq st) = liftClipState sq (clipNearC i flip near st) := by
  letI := fieldNum K sq
  simp only [clipNearC, optsimp]
  split_ifs <;> rfl
private theorem clipFarC_lift (i : Fin 3) (flip : Bool) (far : K) (st : ClipState K) :
    letI := fieldNum K sq
    clipFarC i flip (val far : Opt K sq) (liftClipState sq st) = liftClipState sq (clipFarC i flip far st) := by
  letI := fieldNum K sq
  simp only [clipFarC, optsimp]
  split_ifs <;> rfl

/-- **C20 (clip_aabb_line loop body, after sorting)**: no division: every finite input. -/
theorem defined_clipUpdate (st : ClipState K) (near far : K) (flip : Bool) (i : Fin 3) :
    letI := fieldNum K sq
    clipUpdate (liftClipState sq st) (val near : Opt K sq) (val far) flip i
      = (clipUpdate st near far flip i).map (liftClipState sq) := by
  letI := fieldNum K sq
  simp only [clipUpdate_eq, clipNearC_lift, clipFarC_lift, optsimp]
  split_ifs <;> rfl

/-- **C20 (clip_aabb_line loop body)**: `1 / dir[i]` only after `dir[i] != 0`: every finite input. -/
theorem defined_clipStepC (b : Aabb3 K) (o d : V3 K) (st : ClipState K) (i : Fin 3) :
    letI := fieldNum K sq
    clipStepC (liftAabb3c sq b) (lift3 o) (lift3 d) (liftClipState sq st) i
      = (clipStepC b o d st i).map (liftClipState sq) := by
  letI := fieldNum K sq
  simp only [clipStepC, optsimp]
  by_cases hd : d.get i.val = 0
  · simp only [if_pos hd]; split_ifs <;> rfl
  · simp only [if_neg hd, optsimp, val_ite, defined_clipUpdate]

private theorem bind_map_lift {α β γ δ : Type} (o : Option α) (f : α → β) (g : β → Option δ) (g' : α → Option γ) (h : γ → δ)
    (e : ∀ a, g (f a) = (g' a).map h) : (o.map f).bind g = (o.bind g').map h := by
  cases o with
  | none => rfl
  | some a => exact e a

/-- **C20 (the three iterations of clip_aabb_line)**: every finite box, origin and direction (zero included). -/
theorem defined_clipLoop (b : Aabb3 K) (o d : V3 K) :
    letI := fieldNum K sq
    clipLoop (liftAabb3c sq b) (lift3 o) (lift3 d) = (clipLoop b o d).map (liftClipState sq) := by
  letI := fieldNum K sq
  have e0 : (clipInit : ClipState (Opt K sq)) = liftClipState sq clipInit := rfl
  unfold clipLoop
  rw [e0]
  have e1 : (some (liftClipState sq (clipInit : ClipState K))) = (some clipInit).map (liftClipState sq) := rfl
  rw [e1, bind_map_lift _ _ _ _ _ (fun s => defined_clipStepC sq b o d s 0),
    bind_map_lift _ _ _ _ _ (fun s => defined_clipStepC sq b o d s 1),
    bind_map_lift _ _ _ _ _ (fun s => defined_clipStepC sq b o d s 2)]

private theorem get_zero3 (n : Nat) : letI := fieldNum K sq; (⟨0, 0, 0⟩ : V3 K).get n = 0 := by
  simp only [V3.get]; split_ifs <;> rfl

/-- with the zero direction no diagonal flag is ever set -/
private theorem clipLoop_zero_dir (b : Aabb3 K) (o : V3 K) (st : ClipState K) :
    letI := fieldNum K sq
    clipLoop b o ⟨0, 0, 0⟩ = some st → st.nearDiag = false ∧ st.farDiag = false := by
  letI := fieldNum K sq
  have hstep : ∀ (s : ClipState K) (i : Fin 3), clipStepC b o ⟨0, 0, 0⟩ s i = none ∨ clipStepC b o ⟨0, 0, 0⟩ s i = some s := by
    intro s i
    simp only [clipStepC, get_zero3, neq, le_refl, decide_true, Bool.and_self, if_true]
    split_ifs
    · exact Or.inl rfl
    · exact Or.inr rfl
  intro h
  unfold clipLoop at h
  rcases hstep clipInit 0 with h0 | h0
  · simp [h0] at h
  · rcases hstep clipInit 1 with h1 | h1
    · simp [h0, h1] at h
    · rcases hstep clipInit 2 with h2' | h2'
      · simp [h0, h1, h2'] at h
      · simp [h0, h1, h2'] at h
        subst h; exact ⟨rfl, rfl⟩

def liftClipTriple (c : K × V3 K × Int) : Opt K sq × V3 (Opt K sq) × Int := (val c.1, lift3 c.2.1, c.2.2)
def liftClipLine (r : (K × V3 K × Int) × (K × V3 K × Int)) :
    (Opt K sq × V3 (Opt K sq) × Int) × (Opt K sq × V3 (Opt K sq) × Int) := (liftClipTriple sq r.1, liftClipTriple sq r.2)

@[optsimp] private theorem sideNormal_lift (side : Int) (v : K) :
    letI := fieldNum K sq
    sideNormal side (val v : Opt K sq) = lift3 (sideNormal side v) := by
  letI := fieldNum K sq
  simp only [sideNormal, optsimp]
  split_ifs <;> rfl

private theorem negNormalize_lift (d : V3 K) (h : letI := fieldNum K sq; sq d.normSq ≠ 0) :
    letI := fieldNum K sq
    negNormalize (lift3 d : V3 (Opt K sq)) = lift3 (negNormalize d) := by
  letI := fieldNum K sq
  have := lift3_normalize d h
  simp only [V3.normalize] at this
  simp only [negNormalize]; rw [this]; rfl

/-- **C20 (clip_aabb_line, C17 transliteration)**: as `defined_clipAabbLine`: every finite box, origin and direction —
zero direction included (then no diagonal flag is set, `clipLoop_zero_dir`) — under the no-underflow hypothesis on
`|dir|²` for the diagonal normal `-dir.normalize()`. -/
theorem defined_clipAabbLineC {θ : K} (hs : SqrtPos sq θ) (b : Aabb3 K) (o d : V3 K)
    (hu : letI := fieldNum K sq; d.normSq = 0 ∨ θ < d.normSq) :
    letI := fieldNum K sq
    clipAabbLineC (liftAabb3c sq b) (lift3 o) (lift3 d) = (clipAabbLineC b o d).map (liftClipLine sq) := by
  letI := fieldNum K sq
  simp only [clipAabbLineC, defined_clipLoop]
  rcases hu with hu | hu
  · obtain ⟨dx, dy, dz⟩ := d
    obtain ⟨h1, h2, h3⟩ := normSq3_eq_zero (sq := sq) _ hu
    simp only at h1 h2 h3
    subst h1 h2 h3
    have hz := clipLoop_zero_dir sq b o
    generalize clipLoop b o ⟨0, 0, 0⟩ = r at hz
    cases r with
    | none => rfl
    | some st =>
      obtain ⟨hn, hf⟩ := hz st rfl
      obtain ⟨tmin, tmax, ns, fs, nd, fd⟩ := st
      simp only at hn hf
      subst hn hf
      simp only [liftClipState, Option.map, optsimp]
      rfl
  · have hne : sq d.normSq ≠ 0 := hs.ne hu
    generalize clipLoop b o d = r
    cases r with
    | none => rfl
    | some st =>
      obtain ⟨tmin, tmax, ns, fs, nd, fd⟩ := st
      simp only [liftClipState, Option.map, optsimp, negNormalize_lift sq d hne]
      split_ifs <;> rfl


/-- **C20 (Aabb::clip_line_parameters)**: only the two parameters are returned, the normals (and their possible
`normalize`) are dead values: defined for **every** finite box, origin and direction, with no hypothesis at all. -/
theorem defined_clipLineParameters (b : Aabb3 K) (o d : V3 K) :
    letI := fieldNum K sq
    clipLineParameters (liftAabb3c sq b) (lift3 o) (lift3 d) = (clipLineParameters b o d).map (liftPair sq) := by
  letI := fieldNum K sq
  simp only [clipLineParameters, clipAabbLineC, defined_clipLoop]
  generalize clipLoop b o d = r
  cases r with
  | none => rfl
  | some st =>
    obtain ⟨tmin, tmax, ns, fs, nd, fd⟩ := st
    simp only [liftClipState, Option.map]
    split_ifs <;> rfl

/-- **C20 (Aabb::clip_ray_parameters)**: every finite input. -/
theorem defined_clipRayParameters (b : Aabb3 K) (o d : V3 K) :
    letI := fieldNum K sq
    clipRayParameters (liftAabb3c sq b) (lift3 o) (lift3 d) = (clipRayParameters b o d).map (liftPair sq) := by
  letI := fieldNum K sq
  simp only [clipRayParameters, defined_clipLineParameters]
  generalize clipLineParameters b o d = r
  cases r with
  | none => rfl
  | some c =>
    obtain ⟨t0, t1⟩ := c
    simp only [Option.map, Option.bind, liftPair, optsimp]
    split_ifs <;> rfl

private theorem clipSegment_eq {K : Type} [Num K] (b : Aabb3 K) (pa pb : V3 K) :
    clipSegment b pa pb = (clipLineParameters b pa (pb.sub pa)).bind fun c =>
      let t0 := nmax c.1 0
      let t1 := nmin c.2 1
      if t1 < t0 then none else some ⟨pa.add ((pb.sub pa).smul t0), pa.add ((pb.sub pa).smul t1)⟩ := by
  simp only [clipSegment, clipLineParameters]
  cases clipAabbLineC b pa (pb.sub pa) <;> rfl

/-- **C20 (Aabb::clip_segment)**: every finite box and segment, **zero-length segment `pa = pb` included** (direction
zero: inside the box it is returned unchanged, outside `None`). -/
theorem defined_clipSegment (b : Aabb3 K) (pa pb : V3 K) :
    letI := fieldNum K sq
    clipSegment (liftAabb3c sq b) (lift3 pa) (lift3 pb) = (clipSegment b pa pb).map (liftSeg3 sq) := by
  letI := fieldNum K sq
  simp only [clipSegment_eq, optsimp, defined_clipLineParameters]
  generalize clipLineParameters b pa (pb.sub pa) = r
  cases r with
  | none => rfl
  | some c =>
    obtain ⟨t0, t1⟩ := c
    simp only [Option.map, Option.bind, liftPair, optsimp]
    split_ifs <;> rfl

/-! ## `clip_halfspace_polygon`, `Aabb::clip_polygon` -/

/-- **C20 (line_toi_with_halfspace)**: the division is guarded by `relative_eq!(denom, 0)`, true at `denom = 0`:
every finite input, lines parallel to or inside the plane included. -/
theorem defined_lineToiHalfspace (c n o d : V3 K) :
    letI := fieldNum K sq
    lineToiHalfspace (lift3 c : V3 (Opt K sq)) (lift3 n) (lift3 o) (lift3 d) = (lineToiHalfspace c n o d).map val := by
  letI := fieldNum K sq
  simp only [lineToiHalfspace, optsimp]
  by_cases hd : n.dot d = 0
  · simp only [hd, relEqZero_zero, if_true]; rfl
  · simp only [if_neg hd]; split_ifs <;> rfl

/-- **C20 (ray_toi_with_halfspace)**: every finite input. -/
theorem defined_rayToiHalfspace (c n o d : V3 K) :
    letI := fieldNum K sq
    rayToiHalfspace (lift3 c : V3 (Opt K sq)) (lift3 n) (lift3 o) (lift3 d) = (rayToiHalfspace c n o d).map val := by
  letI := fieldNum K sq
  simp only [rayToiHalfspace, defined_lineToiHalfspace]
  generalize lineToiHalfspace c n o d = r
  cases r with
  | none => rfl
  | some t => simp only [Option.map, optsimp]; split_ifs <;> rfl

@[optsimp] private theorem keepPoint_lift (c n p : V3 K) :
    letI := fieldNum K sq
    keepPoint (lift3 c : V3 (Opt K sq)) (lift3 n) (lift3 p) = keepPoint c n p := by
  letI := fieldNum K sq
  simp only [keepPoint, optsimp]

/-- **C20 (one vertex of clip_halfspace_polygon)**: every finite input. -/
theorem defined_clipVisit (c n prev : V3 K) (lk : Bool) (pt : V3 K) (isLast : Bool) :
    letI := fieldNum K sq
    clipVisit (lift3 c : V3 (Opt K sq)) (lift3 n) (lift3 prev) lk (lift3 pt) isLast
      = (clipVisit c n prev lk pt isLast).map lift3 := by
  letI := fieldNum K sq
  simp only [clipVisit, optsimp, defined_rayToiHalfspace, List.map_append]
  generalize rayToiHalfspace c n prev (pt.sub prev) = r
  cases r with
  | none => simp only [Option.map]; split_ifs <;> rfl
  | some t => simp only [Option.map, optsimp]; split_ifs <;> rfl

/-- **C20 (the loop of clip_halfspace_polygon)**: every finite vertex list. -/
theorem defined_clipPolyLoop (c n : V3 K) (prev : V3 K) (lk : Bool) (poly : List (V3 K)) :
    letI := fieldNum K sq
    clipPolyLoop (lift3 c : V3 (Opt K sq)) (lift3 n) (lift3 prev) lk (poly.map lift3)
      = (clipPolyLoop c n prev lk poly).map lift3 := by
  letI := fieldNum K sq
  induction poly generalizing prev lk with
  | nil => rfl
  | cons pt rest ih =>
    simp only [List.map_cons, clipPolyLoop, defined_clipVisit, keepPoint_lift, ih, List.map_append, List.isEmpty_map]

/-- **C20 (clip_halfspace_polygon)**: defined for every finite plane (any normal, zero included) and every finite
polygon: empty, a single point, repeated vertices, vertices on the plane, edges lying in the plane. -/
theorem defined_clipHalfspacePolygon (c n : V3 K) (poly : List (V3 K)) :
    letI := fieldNum K sq
    clipHalfspacePolygon (lift3 c : V3 (Opt K sq)) (lift3 n) (poly.map lift3)
      = (clipHalfspacePolygon c n poly).map lift3 := by
  letI := fieldNum K sq
  simp only [clipHalfspacePolygon, List.getLast?_map]
  cases poly.getLast? with
  | none => rfl
  | some last =>
    simp only [Option.map, keepPoint_lift, defined_clipPolyLoop, List.map_append]
    split_ifs <;> rfl

/-- **C20 (Aabb::clip_polygon, 3-D)**: six half-space clips: every finite box (flat, inverted) and polygon. -/
theorem defined_aabb3_clipPolygon (b : Aabb3 K) (pts : List (V3 K)) :
    letI := fieldNum K sq
    (liftAabb3c sq b).clipPolygon (pts.map lift3) = (b.clipPolygon pts).map lift3 := by
  letI := fieldNum K sq
  simp only [Aabb3.clipPolygon, optsimp, defined_clipHalfspacePolygon]

/-! ### Finding: `clip_segment_segment` divides `0/0` when `seg2` projects onto an end point of `seg1`

`seg1 = (0,0)-(2,0)`, `seg2 = (0,-1)-(0,1)` (perpendicular, foot at `seg1.a`): `range2 = [0, 0]`, `length2 = 0`,
`ca` takes the `else` branch and computes `(0 − 0) / 0`.  Real crate (2-D): `C17 clip_seg_seg 0 0 2 0 0 -1 0 1` ↦
`some 0 0 nan nan 0 1 0 0 0 1 1 2`.  Foot at `seg1.b` ⇒ NaN in `cb`; a zero-length `seg1` ⇒ NaN in both; foot strictly
inside `seg1` ⇒ finite.  The sibling `clip_segment_segment_with_normal` multiplies by `utils::inv(length)` (`inv(0) = 0`). -/

/-- finiteness pattern of `(ca.p1, ca.p2, cb.p1, cb.p2)` (x-coordinates) -/
def clipFin (r : Option (ClipPts NaNable × ClipPts NaNable)) : Option (Bool × Bool × Bool × Bool) :=
  r.map fun r => (fin? r.1.p1.x, fin? r.1.p2.x, fin? r.2.p1.x, fin? r.2.p2.x)

theorem clipSegmentSegment_perpendicular_nan :
    -- foot at `seg1.a`, at `seg1.b`, strictly inside, zero-length `seg1`, zero-length `seg2` at `seg1.a`
    clipFin (clipSegmentSegment (K := NaNable) ⟨some 0, some 0⟩ ⟨some 2, some 0⟩ ⟨some 0, some (-1)⟩ ⟨some 0, some 1⟩)
      = some (true, false, true, true) ∧
    clipFin (clipSegmentSegment (K := NaNable) ⟨some 0, some 0⟩ ⟨some 2, some 0⟩ ⟨some 2, some (-1)⟩ ⟨some 2, some 1⟩)
      = some (true, true, true, false) ∧
    clipFin (clipSegmentSegment (K := NaNable) ⟨some 0, some 0⟩ ⟨some 2, some 0⟩ ⟨some 1, some (-1)⟩ ⟨some 1, some 1⟩)
      = some (true, true, true, true) ∧
    clipFin (clipSegmentSegment (K := NaNable) ⟨some 0, some 0⟩ ⟨some 0, some 0⟩ ⟨some 1, some (-1)⟩ ⟨some 1, some 1⟩)
      = some (true, false, true, false) ∧
    clipFin (clipSegmentSegment (K := NaNable) ⟨some 0, some 0⟩ ⟨some 2, some 0⟩ ⟨some 0, some 1⟩ ⟨some 0, some 1⟩)
      = some (true, false, true, true) := by
  decide +kernel

/-- `Segment::local_split_and_get_intersection` on a zero-length segment and on a segment parallel to the plane: the
intermediate `a / b` is NaN, the result is `Negative`/`Positive` without intersection. -/
theorem localSplit_parallel_finite :
    (match (Segment3.mk (K := NaNable) ⟨some 1, some 0, some 0⟩ ⟨some 1, some 0, some 0⟩).localSplit
        ⟨some 1, some 0, some 0⟩ (some 0) (some 0) with
      | (.positive, none) => true | _ => false) = true ∧
    (match (Segment3.mk (K := NaNable) ⟨some (-1), some 0, some 0⟩ ⟨some (-1), some 5, some 0⟩).localSplit
        ⟨some 1, some 0, some 0⟩ (some 0) (some 0) with
      | (.negative, none) => true | _ => false) = true := by
  decide +kernel

/-! ## comparison-only functions: `Aabb::canonical_split`, `corner_direction`, `is_point_in_triangle` (no panic) -/

def liftSplitAabb3 : Split (Aabb3 K) → Split (Aabb3 (Opt K sq))
  | .pair a b => .pair (liftAabb3c sq a) (liftAabb3c sq b)
  | .negative => .negative
  | .positive => .positive

/-- **C20 (Aabb::canonical_split)**: comparisons only: every finite box, axis, `bias`, `epsilon`. -/
theorem defined_aabb3_canonicalSplit (b : Aabb3 K) (axis : Fin 3) (bias eps : K) :
    letI := fieldNum K sq
    (liftAabb3c sq b).canonicalSplit axis (val bias) (val eps) = liftSplitAabb3 sq (b.canonicalSplit axis bias eps) := by
  letI := fieldNum K sq
  simp only [Aabb3.canonicalSplit, liftAabb3c, optsimp]
  split_ifs <;> rfl

/-- **C20 (corner_direction: no `expect("Found NaN")` panic)**: on finite points the cross product is finite, the NaN
branch (`Orient.nan` = the panic) is never taken, and the answer is that of the exact evaluation. -/
theorem defined_cornerDirection (p1 p2 p3 : V2 K) :
    letI := fieldNum K sq
    Model.C15.cornerDirection (lift2 p1 : V2 (Opt K sq)) (lift2 p2) (lift2 p3) = Model.C15.cornerDirection p1 p2 p3 ∧
    Model.C15.cornerDirection p1 p2 p3 ≠ .nan := by
  letI := fieldNum K sq
  refine ⟨?_, ?_⟩
  · simp only [Model.C15.cornerDirection, optsimp]
  · simp only [Model.C15.cornerDirection, neq_true_eq]
    split_ifs with h1 h2 h3
    · simp
    · simp
    · simp
    · exfalso
      rcases lt_trichotomy ((p1.sub p2).perp (p3.sub p2)) 0 with h | h | h
      · exact h1 h
      · exact h2 h
      · exact h3 h

/-- **C20 (is_point_in_triangle: no panic)**: never `InTri.panic` on finite input, same answer as the exact evaluation
(degenerate triangles give `invalid` = `None`). -/
theorem defined_isPointInTriangle (p v1 v2 v3 : V2 K) :
    letI := fieldNum K sq
    Model.C15.isPointInTriangle (lift2 p : V2 (Opt K sq)) (lift2 v1) (lift2 v2) (lift2 v3)
      = Model.C15.isPointInTriangle p v1 v2 v3 ∧
    Model.C15.isPointInTriangle p v1 v2 v3 ≠ .panic := by
  letI := fieldNum K sq
  refine ⟨?_, ?_⟩
  · simp only [Model.C15.isPointInTriangle, (defined_cornerDirection sq _ _ _).1]
  · simp only [Model.C15.isPointInTriangle, (defined_cornerDirection sq _ _ _).2, or_self, if_false]
    split_ifs <;> simp

end C20
