import ParryModel.C20.Lemmas
import ParryModel.C20.Theorems2
import ParryModel.C04.Model
set_option linter.style.haveILetI false
set_option linter.unusedSimpArgs false
set_option linter.unusedSectionVars false
set_option linter.unusedVariables false
set_option linter.unusedTactic false
/-!
# C20 definedness theorems, part 3: the closed-form ray casts of C04

Shape of every theorem: `f (lift x) = lift (f x)` — the model function evaluated with NaN-propagating scalars on finite
input equals the injection of its evaluation in the lawful field (see `C20/Lemmas.lean`).  Findings (valid finite input
on which an output float is NaN) are recorded as `decide +kernel` witnesses at `NaNable`.
-/
namespace C20
open Model

variable {K : Type} [Field K] [LinearOrder K] [IsStrictOrderedRing K] (sq : K → K)

/-! ### liftings of the C04 data types -/
def liftRay3 (r : Ray3 K) : Ray3 (Opt K sq) := ⟨lift3 r.o, lift3 r.d⟩
def liftRay2 (r : Ray2 K) : Ray2 (Opt K sq) := ⟨lift2 r.o, lift2 r.d⟩
def liftHit3 (h : Hit3 K) : Hit3 (Opt K sq) := ⟨val h.toi, lift3 h.n, h.fkind, h.fidx⟩
def liftHit2 (h : Hit2 K) : Hit2 (Opt K sq) := ⟨val h.toi, lift2 h.n, h.fkind, h.fidx⟩
/-- result of `ray_toi_with_ball` -/
def liftBO (r : Bool × Option K) : Bool × Option (Opt K sq) := (r.1, r.2.map val)
/-- result of `ray_toi_and_normal_with_ball` -/
def liftBH (r : Bool × Option (Hit3 K)) : Bool × Option (Hit3 (Opt K sq)) := (r.1, r.2.map (liftHit3 sq))
def liftAabb (b : Aabb K) : Aabb (Opt K sq) := ⟨lift3 b.mins, lift3 b.maxs⟩
/-- `(tmin, tmax)` of the slab loop -/
def liftPair (st : K × K) : Opt K sq × Opt K sq := (val st.1, val st.2)
def liftClipSt (s : ClipSt K) : ClipSt (Opt K sq) := ⟨val s.tmin, val s.tmax, s.nearSide, s.farSide, s.nearDiag, s.farDiag⟩
def liftClipEnd (e : ClipEnd K) : ClipEnd (Opt K sq) := ⟨val e.t, lift3 e.n, e.side⟩
def liftClipRes : ClipRes K → ClipRes (Opt K sq)
  | .none => .none
  | .some n f => .some (liftClipEnd sq n) (liftClipEnd sq f)

@[optsimp] private theorem liftRay3_o (r : Ray3 K) : (liftRay3 sq r).o = lift3 r.o := id rfl
@[optsimp] private theorem liftRay3_d (r : Ray3 K) : (liftRay3 sq r).d = lift3 r.d := id rfl
@[optsimp] private theorem liftRay3_mk (o d : V3 K) : (⟨lift3 o, lift3 d⟩ : Ray3 (Opt K sq)) = liftRay3 sq ⟨o, d⟩ := id rfl
@[optsimp] private theorem liftRay2_o (r : Ray2 K) : (liftRay2 sq r).o = lift2 r.o := id rfl
@[optsimp] private theorem liftRay2_d (r : Ray2 K) : (liftRay2 sq r).d = lift2 r.d := id rfl
@[optsimp] private theorem liftRay2_mk (o d : V2 K) : (⟨lift2 o, lift2 d⟩ : Ray2 (Opt K sq)) = liftRay2 sq ⟨o, d⟩ := id rfl
@[optsimp] private theorem liftHit3_toi (h : Hit3 K) : (liftHit3 sq h).toi = val h.toi := id rfl
@[optsimp] private theorem liftHit3_n (h : Hit3 K) : (liftHit3 sq h).n = lift3 h.n := id rfl
@[optsimp] private theorem liftHit3_mk (t : K) (n : V3 K) (a b : Nat) :
    ({ toi := val t, n := lift3 n, fkind := a, fidx := b } : Hit3 (Opt K sq)) = liftHit3 sq ⟨t, n, a, b⟩ := id rfl
@[optsimp] private theorem liftHit2_toi (h : Hit2 K) : (liftHit2 sq h).toi = val h.toi := id rfl
@[optsimp] private theorem liftHit2_n (h : Hit2 K) : (liftHit2 sq h).n = lift2 h.n := id rfl
@[optsimp] private theorem liftHit2_mk (t : K) (n : V2 K) (a b : Nat) :
    ({ toi := val t, n := lift2 n, fkind := a, fidx := b } : Hit2 (Opt K sq)) = liftHit2 sq ⟨t, n, a, b⟩ := id rfl
@[optsimp] private theorem liftBO_2 (r : Bool × Option K) : (liftBO sq r).2 = r.2.map val := id rfl
@[optsimp] private theorem liftBH_2 (r : Bool × Option (Hit3 K)) : (liftBH sq r).2 = r.2.map (liftHit3 sq) := id rfl
@[optsimp] private theorem liftBall_r (s : Ball K) : (liftBall sq s).r = val s.r := id rfl
@[optsimp] private theorem liftHit3_transformBy (h : Hit3 K) (m : Iso3 K) :
    letI := fieldNum K sq
    (liftHit3 sq h).transformBy (liftIso3 m) = liftHit3 sq (h.transformBy m) := id rfl
@[optsimp] private theorem liftHit2_transformBy (h : Hit2 K) (m : Iso2 K) :
    letI := fieldNum K sq
    (liftHit2 sq h).transformBy (liftIso2 m) = liftHit2 sq (h.transformBy m) := id rfl
@[optsimp] private theorem liftRay3_invTransform (r : Ray3 K) (m : Iso3 K) :
    letI := fieldNum K sq
    (liftRay3 sq r).invTransform (liftIso3 m) = liftRay3 sq (r.invTransform m) := id rfl
@[optsimp] private theorem liftRay2_invTransform (r : Ray2 K) (m : Iso2 K) :
    letI := fieldNum K sq
    (liftRay2 sq r).invTransform (liftIso2 m) = liftRay2 sq (r.invTransform m) := id rfl
@[optsimp] private theorem liftRay3_translate (r : Ray3 K) (v : V3 K) :
    letI := fieldNum K sq
    (liftRay3 sq r).translate (lift3 v) = liftRay3 sq (r.translate v) := id rfl
@[optsimp] private theorem liftPair_1 (st : K × K) : (liftPair sq st).1 = val st.1 := id rfl
@[optsimp] private theorem liftPair_2 (st : K × K) : (liftPair sq st).2 = val st.2 := id rfl
private theorem liftPair_mk (a b : K) : ((val a, val b) : Opt K sq × Opt K sq) = liftPair sq (a, b) := id rfl
@[optsimp] private theorem liftAabb_mins (b : Aabb K) : (liftAabb sq b).mins = lift3 b.mins := id rfl
@[optsimp] private theorem liftAabb_maxs (b : Aabb K) : (liftAabb sq b).maxs = lift3 b.maxs := id rfl
@[optsimp] private theorem liftAabb_mk (a b : V3 K) : (⟨lift3 a, lift3 b⟩ : Aabb (Opt K sq)) = liftAabb sq ⟨a, b⟩ := id rfl
@[optsimp] private theorem liftClipSt_tmin (s : ClipSt K) : (liftClipSt sq s).tmin = val s.tmin := id rfl
@[optsimp] private theorem liftClipSt_tmax (s : ClipSt K) : (liftClipSt sq s).tmax = val s.tmax := id rfl
private theorem liftClipSt_mk (a b : K) (ns fs : Int) (nd fd : Bool) :
    (⟨val a, val b, ns, fs, nd, fd⟩ : ClipSt (Opt K sq)) = liftClipSt sq ⟨a, b, ns, fs, nd, fd⟩ := id rfl

private theorem filter_toi (o : Option K) (m : K) :
    letI := fieldNum K sq
    (o.map val : Option (Opt K sq)).filter (fun t => decide (t ≤ val m)) = (o.filter fun t => decide (t ≤ m)).map val := by
  letI := fieldNum K sq
  cases o with
  | none => rfl
  | some t =>
    simp only [Option.map, Option.filter, optsimp]
    split_ifs <;> rfl
private theorem filter_hit3 (o : Option (Hit3 K)) (m : K) :
    letI := fieldNum K sq
    (o.map (liftHit3 sq)).filter (fun h => decide (h.toi ≤ val m))
      = (o.filter fun h => decide (h.toi ≤ m)).map (liftHit3 sq) := by
  letI := fieldNum K sq
  cases o with
  | none => rfl
  | some t =>
    simp only [Option.map, Option.filter, optsimp]
    split_ifs <;> rfl
private theorem map_transformBy3 (o : Option (Hit3 K)) (m : Iso3 K) :
    letI := fieldNum K sq
    (o.map (liftHit3 sq)).map (fun h => h.transformBy (liftIso3 m))
      = (o.map (fun h => h.transformBy m)).map (liftHit3 sq) := by
  cases o <;> rfl
private theorem map_transformBy2 (o : Option (Hit2 K)) (m : Iso2 K) :
    letI := fieldNum K sq
    (o.map (liftHit2 sq)).map (fun h => h.transformBy (liftIso2 m))
      = (o.map (fun h => h.transformBy m)).map (liftHit2 sq) := by
  cases o <;> rfl

/-- is this NaN-propagating scalar finite? -/
def fin? (x : NaNable) : Bool := Option.isSome (x : Option Rat)
/-- finiteness pattern `(toi, n.x, n.y, n.z)` of an optional 3-D hit -/
def hitFin (h : Option (Hit3 NaNable)) : Option (Bool × Bool × Bool × Bool) :=
  h.map fun h => (fin? h.toi, fin? h.n.x, fin? h.n.y, fin? h.n.z)
/-- finiteness pattern `(toi, n.x, n.y)` of an optional 2-D hit -/
def hitFin2 (h : Option (Hit2 NaNable)) : Option (Bool × Bool × Bool) :=
  h.map fun h => (fin? h.toi, fin? h.n.x, fin? h.n.y)

/-! ## Ball (`ray_ball.rs`) -/

/-- **C20 (ray_toi_with_ball)**: defined for **every** finite centre, radius (any sign, zero included) and ray —
including the zero direction (`a = 0` is tested first), an origin on the sphere or at the centre, tangent rays
(`delta = 0`) — and both `solid` flags: the square root is taken of `delta` only after the test `delta < 0` failed, and
the divisor `a = |dir|²` has been tested non-zero.  Nothing is asked of the square-root operation. -/
theorem defined_rayToiWithBall (center : V3 K) (radius : K) (ray : Ray3 K) (solid : Bool) :
    letI := fieldNum K sq
    rayToiWithBall (lift3 center : V3 (Opt K sq)) (val radius) (liftRay3 sq ray) solid
      = liftBO sq (rayToiWithBall center radius ray solid) := by
  letI := fieldNum K sq
  simp only [rayToiWithBall, optsimp, apply_ite (liftBO sq)]
  by_cases ha : ray.d.normSq = 0
  · simp only [if_pos ha]; opt_tree
  · simp only [if_neg ha, optsimp]
    opt_tree
    rename_i h1 h2
    simp only [if_neg h2, if_neg ha, optsimp]
    opt_tree

/-- **C20 (Ball::cast_local_ray)**: defined for every finite radius, ray (zero direction included), `max_toi`, flag. -/
theorem defined_ball_castLocalRay (s : Ball K) (ray : Ray3 K) (maxToi : K) (solid : Bool) :
    letI := fieldNum K sq
    (liftBall sq s).castLocalRay (liftRay3 sq ray) (val maxToi) solid = (s.castLocalRay ray maxToi solid).map val := by
  letI := fieldNum K sq
  simp only [Ball.castLocalRay, optsimp, defined_rayToiWithBall, filter_toi]

/-- **C20 (ray_toi_and_normal_with_ball)**: the normal is `(origin + dir * toi − centre).normalize()`, so the result is
defined exactly when the square root of the squared distance of the hit point to the centre does not vanish
(`hpos`, the direct hypothesis; `ball_hit_ne_centre` derives it, for a lawful square root, from
"radius ≠ 0, and origin ≠ centre when the cast is solid or the direction is zero").  When `hpos` fails the real code
returns a NaN normal: see `ball_normal_origin_at_centre_nan` below. -/
theorem defined_rayToiAndNormalWithBall (center : V3 K) (radius : K) (ray : Ray3 K) (solid : Bool)
    (hpos : letI := fieldNum K sq
      ∀ t, (rayToiWithBall center radius ray solid).2 = some t → sq ((ray.pointAt t).sub center).normSq ≠ 0) :
    letI := fieldNum K sq
    rayToiAndNormalWithBall (lift3 center : V3 (Opt K sq)) (val radius) (liftRay3 sq ray) solid
      = liftBH sq (rayToiAndNormalWithBall center radius ray solid) := by
  letI := fieldNum K sq
  simp only [rayToiAndNormalWithBall, defined_rayToiWithBall]
  generalize rayToiWithBall center radius ray solid = r at hpos
  obtain ⟨b, o⟩ := r
  cases o with
  | none => rfl
  | some t =>
    have h := hpos t rfl
    simp only [Ray3.pointAt] at h
    simp only [liftBO, liftBH, optsimp, lift3_normalize _ h]
    split_ifs <;> simp only [optsimp]

private theorem lawful_ne_zero {sq : K → K} (hl : LawfulSqrt sq) {x : K} (hx : 0 ≤ x) (h : x ≠ 0) : sq x ≠ 0 := by
  intro h0; apply h; rw [← hl.sq_mul x hx, h0, mul_zero]

/-- with an exact square root `s² = delta`, both roots of the ball quadratic give a hit point on the sphere -/
private theorem ball_hit_on_sphere (o d c : V3 K) (r s t : K) :
    letI := fieldNum K sq
    d.normSq ≠ 0 →
    s * s = (o.sub c).dot d * (o.sub c).dot d - d.normSq * ((o.sub c).normSq - r * r) →
    (t = (-(o.sub c).dot d - s) / d.normSq ∨ t = (-(o.sub c).dot d + s) / d.normSq) →
    ((o.add (d.smul t)).sub c).normSq = r * r := by
  letI := fieldNum K sq
  intro ha hs ht
  have key : d.normSq * (((o.add (d.smul t)).sub c).normSq - r * r) = 0 := by
    rcases ht with ht | ht
    · have e1 : d.normSq * t = -(o.sub c).dot d - s := by rw [ht]; field_simp
      obtain ⟨ox, oy, oz⟩ := o; obtain ⟨dx, dy, dz⟩ := d; obtain ⟨cx, cy, cz⟩ := c
      simp only [V3.normSq, V3.dot, V3.sub, V3.add, V3.smul] at *
      linear_combination ((dx*dx+dy*dy+dz*dz) * t + ((ox - cx) * dx + (oy - cy) * dy + (oz - cz) * dz) - s) * e1 + hs
    · have e1 : d.normSq * t = -(o.sub c).dot d + s := by rw [ht]; field_simp
      obtain ⟨ox, oy, oz⟩ := o; obtain ⟨dx, dy, dz⟩ := d; obtain ⟨cx, cy, cz⟩ := c
      simp only [V3.normSq, V3.dot, V3.sub, V3.add, V3.smul] at *
      linear_combination ((dx*dx+dy*dy+dz*dz) * t + ((ox - cx) * dx + (oy - cy) * dy + (oz - cz) * dz) + s) * e1 + hs
  rcases mul_eq_zero.mp key with h | h
  · exact absurd h ha
  · linarith

/-- **the hypothesis `hpos` of `defined_rayToiAndNormalWithBall`, characterised for a lawful square root**: the hit
point differs from the centre as soon as the radius is non-zero and — only when the cast can return `toi = 0` from
inside, i.e. `solid = true` or a zero direction — the origin is not the centre.  (A non-solid cast from the centre
itself with a non-zero direction is covered: it exits through the sphere.) -/
theorem ball_hit_ne_centre (hl : LawfulSqrt sq) (center : V3 K) (radius : K) (ray : Ray3 K) (solid : Bool)
    (hr : radius ≠ 0)
    (ho : letI := fieldNum K sq; solid = true ∨ ray.d.normSq = 0 → (ray.o.sub center).normSq ≠ 0) :
    letI := fieldNum K sq
    ∀ t, (rayToiWithBall center radius ray solid).2 = some t → sq ((ray.pointAt t).sub center).normSq ≠ 0 := by
  letI := fieldNum K sq
  intro t ht
  apply lawful_ne_zero hl (normSq3_nonneg _)
  have h0 : ((ray.pointAt 0).sub center).normSq = (ray.o.sub center).normSq := by
    obtain ⟨⟨ox, oy, oz⟩, ⟨dx, dy, dz⟩⟩ := ray
    simp only [Ray3.pointAt, V3.add, V3.smul, mul_zero, add_zero]
  have hrr : radius * radius ≠ 0 := mul_ne_zero hr hr
  simp only [rayToiWithBall, neq_true_eq, fieldNum_sqrt] at ht
  split_ifs at ht with h1 h2 h3 h4 h5 h6
  · obtain rfl := Option.some.inj ht; rw [h0]; exact ho (Or.inr h1)
  · obtain rfl := Option.some.inj ht; rw [h0]; exact ho (Or.inl h6)
  · rw [Ray3.pointAt, ball_hit_on_sphere sq ray.o ray.d center radius _ t h1 (hl.sq_mul _ (not_lt.mp h4))
      (Or.inr (Option.some.inj ht).symm)]
    exact hrr
  · rw [Ray3.pointAt, ball_hit_on_sphere sq ray.o ray.d center radius _ t h1 (hl.sq_mul _ (not_lt.mp h4))
      (Or.inl (Option.some.inj ht).symm)]
    exact hrr

/-- **C20 (ray_toi_and_normal_with_ball, lawful square root)**: defined for every finite centre, non-zero radius and
ray — zero direction, tangent rays, origin on the sphere, non-solid cast from the centre included — provided the origin
is not the centre when `solid = true` or the direction is zero. -/
theorem defined_rayToiAndNormalWithBall_lawful (hl : LawfulSqrt sq) (center : V3 K) (radius : K) (ray : Ray3 K)
    (solid : Bool) (hr : radius ≠ 0)
    (ho : letI := fieldNum K sq; solid = true ∨ ray.d.normSq = 0 → (ray.o.sub center).normSq ≠ 0) :
    letI := fieldNum K sq
    rayToiAndNormalWithBall (lift3 center : V3 (Opt K sq)) (val radius) (liftRay3 sq ray) solid
      = liftBH sq (rayToiAndNormalWithBall center radius ray solid) :=
  defined_rayToiAndNormalWithBall sq center radius ray solid (ball_hit_ne_centre sq hl center radius ray solid hr ho)

/-- **C20 (Ball::cast_local_ray_and_get_normal)**: defined whenever the returned hit point is not the centre (`hpos`,
see `defined_rayToiAndNormalWithBall`); any `max_toi`, both flags. -/
theorem defined_ball_castLocalRayAndGetNormal (s : Ball K) (ray : Ray3 K) (maxToi : K) (solid : Bool)
    (hpos : letI := fieldNum K sq
      ∀ t, (rayToiWithBall V3.zero s.r ray solid).2 = some t → sq (ray.pointAt t).normSq ≠ 0) :
    letI := fieldNum K sq
    (liftBall sq s).castLocalRayAndGetNormal (liftRay3 sq ray) (val maxToi) solid
      = (s.castLocalRayAndGetNormal ray maxToi solid).map (liftHit3 sq) := by
  letI := fieldNum K sq
  have hz : ∀ v : V3 K, v.sub V3.zero = v := by
    intro v; obtain ⟨x, y, z⟩ := v; simp only [V3.sub, V3.zero, sub_zero]
  have hpos' : ∀ t, (rayToiWithBall V3.zero s.r ray solid).2 = some t →
      sq ((ray.pointAt t).sub V3.zero).normSq ≠ 0 := by
    intro t ht; rw [hz]; exact hpos t ht
  simp only [Ball.castLocalRayAndGetNormal, optsimp, defined_rayToiAndNormalWithBall sq _ _ _ _ hpos', filter_hit3]

/-- **C20 (Ball::cast_local_ray_and_get_normal, lawful square root)**: defined for every non-zero radius and every ray
whose origin is not the centre when `solid = true` or the direction is zero. -/
theorem defined_ball_castLocalRayAndGetNormal_lawful (hl : LawfulSqrt sq) (s : Ball K) (ray : Ray3 K) (maxToi : K)
    (solid : Bool) (hr : s.r ≠ 0)
    (ho : letI := fieldNum K sq; solid = true ∨ ray.d.normSq = 0 → ray.o.normSq ≠ 0) :
    letI := fieldNum K sq
    (liftBall sq s).castLocalRayAndGetNormal (liftRay3 sq ray) (val maxToi) solid
      = (s.castLocalRayAndGetNormal ray maxToi solid).map (liftHit3 sq) := by
  letI := fieldNum K sq
  have hz : ∀ v : V3 K, v.sub V3.zero = v := by
    intro v; obtain ⟨x, y, z⟩ := v; simp only [V3.sub, V3.zero, sub_zero]
  refine defined_ball_castLocalRayAndGetNormal sq s ray maxToi solid ?_
  intro t ht
  have := ball_hit_ne_centre sq hl V3.zero s.r ray solid hr (by rw [hz]; exact ho) t ht
  rwa [hz] at this

/-- **C20 (RayCast::cast_ray_and_get_normal for Ball)**: any isometry (unit quaternion or not). -/
theorem defined_ball_castRayAndGetNormal (s : Ball K) (m : Iso3 K) (ray : Ray3 K) (maxToi : K) (solid : Bool)
    (hpos : letI := fieldNum K sq
      ∀ t, (rayToiWithBall V3.zero s.r (ray.invTransform m) solid).2 = some t →
        sq ((ray.invTransform m).pointAt t).normSq ≠ 0) :
    letI := fieldNum K sq
    (liftBall sq s).castRayAndGetNormal (liftIso3 m) (liftRay3 sq ray) (val maxToi) solid
      = (s.castRayAndGetNormal m ray maxToi solid).map (liftHit3 sq) := by
  letI := fieldNum K sq
  simp only [Ball.castRayAndGetNormal, optsimp, defined_ball_castLocalRayAndGetNormal sq _ _ _ _ hpos,
    map_transformBy3]

/-- **C20 (BoundingSphere::cast_local_ray_and_get_normal)** -/
theorem defined_bsphereCastLocalRayAndGetNormal (center : V3 K) (r : K) (ray : Ray3 K) (maxToi : K) (solid : Bool)
    (hpos : letI := fieldNum K sq
      ∀ t, (rayToiWithBall V3.zero r (ray.translate center.neg) solid).2 = some t →
        sq ((ray.translate center.neg).pointAt t).normSq ≠ 0) :
    letI := fieldNum K sq
    bsphereCastLocalRayAndGetNormal (lift3 center : V3 (Opt K sq)) (val r) (liftRay3 sq ray) (val maxToi) solid
      = (bsphereCastLocalRayAndGetNormal center r ray maxToi solid).map (liftHit3 sq) := by
  letI := fieldNum K sq
  have e : (Ball.mk (val r) : Ball (Opt K sq)) = liftBall sq ⟨r⟩ := rfl
  simp only [bsphereCastLocalRayAndGetNormal, optsimp, e, defined_ball_castLocalRayAndGetNormal sq ⟨r⟩ _ _ _ hpos]

/-! ### Finding: `Ball::cast_local_ray_and_get_normal` returns a NaN normal when the hit point is the centre

`ray_toi_and_normal_with_ball` normalises `origin + dir * toi − centre` unconditionally.  A `solid` cast whose origin is
exactly the ball centre returns `toi = 0` and the normal `0/0`; likewise a zero-direction ray at the centre (either
flag) and a ray through the centre of a zero-radius ball.  Replayed on the real crate:
`C04 ball_normal 3ff0000000000000 0 0 0 3ff0000000000000 0 0 4024000000000000 1` ↦ `some 0000000000000000 nan nan nan f0`.
The other solid-from-inside casts (`Aabb`, `HalfSpace`) return the zero normal. -/

/-- unit ball, ray from the centre along `+x`, `solid = true`: toi `0` (finite), normal NaN -/
theorem ball_normal_origin_at_centre_nan :
    hitFin ((Ball.mk (K := NaNable) (some 1)).castLocalRayAndGetNormal
      ⟨⟨some 0, some 0, some 0⟩, ⟨some 1, some 0, some 0⟩⟩ (some 10) true) = some (true, false, false, false) := by
  decide +kernel
/-- the same origin with `solid = false` is fine (the ray exits through the sphere) -/
theorem ball_normal_origin_at_centre_nonsolid_finite :
    hitFin ((Ball.mk (K := NaNable) (some 1)).castLocalRayAndGetNormal
      ⟨⟨some 0, some 0, some 0⟩, ⟨some 1, some 0, some 0⟩⟩ (some 10) false) = some (true, true, true, true) := by
  decide +kernel
/-- zero direction, origin at the centre, `solid = false`: NaN normal (zero direction elsewhere inside is finite) -/
theorem ball_normal_zero_dir_at_centre_nan :
    hitFin ((Ball.mk (K := NaNable) (some 1)).castLocalRayAndGetNormal
      ⟨⟨some 0, some 0, some 0⟩, ⟨some 0, some 0, some 0⟩⟩ (some 10) false) = some (true, false, false, false) ∧
    hitFin ((Ball.mk (K := NaNable) (some 1)).castLocalRayAndGetNormal
      ⟨⟨some (1/2), some 0, some 0⟩, ⟨some 0, some 0, some 0⟩⟩ (some 10) false) = some (true, true, true, true) := by
  decide +kernel
/-- zero radius, ray through the centre: toi `2` with a NaN normal (both flags) -/
theorem ball_normal_zero_radius_nan :
    hitFin ((Ball.mk (K := NaNable) (some 0)).castLocalRayAndGetNormal
      ⟨⟨some (-2), some 0, some 0⟩, ⟨some 1, some 0, some 0⟩⟩ (some 10) true) = some (true, false, false, false) ∧
    hitFin ((Ball.mk (K := NaNable) (some 0)).castLocalRayAndGetNormal
      ⟨⟨some (-2), some 0, some 0⟩, ⟨some 1, some 0, some 0⟩⟩ (some 10) false) = some (true, false, false, false) := by
  decide +kernel

/-! ## Aabb / Cuboid: the slab test (`ray_aabb.rs`) -/

/-- **C20 (one axis of Aabb::cast_local_ray)**: `1 / dir[i]` is computed only after `dir[i] != 0`: defined for every
finite input, including `dir[i] = 0`, an origin on a face (`o = mn`), a flat slab (`mn = mx`), an inverted one. -/
theorem defined_slabStep (mn mx o d : K) (st : K × K) :
    letI := fieldNum K sq
    slabStep (val mn : Opt K sq) (val mx) (val o) (val d) (liftPair sq st)
      = (slabStep mn mx o d st).map (liftPair sq) := by
  letI := fieldNum K sq
  simp only [slabStep, optsimp, liftPair_mk]
  by_cases hd : d = 0
  · simp only [if_pos hd]; split_ifs <;> rfl
  · simp only [if_neg hd, optsimp, val_ite, liftPair_mk]
    split_ifs <;> rfl

/-- **C20 (Aabb::cast_local_ray)**: defined for **every** finite box (flat, point-like, inverted), ray (zero direction,
axis-parallel, origin on a face / edge / vertex / inside), `max_toi`, `big = Real::MAX` and both flags. -/
theorem defined_aabb_castLocalRay (big : K) (b : Aabb K) (ray : Ray3 K) (maxToi : K) (solid : Bool) :
    letI := fieldNum K sq
    (liftAabb sq b).castLocalRay (val big) (liftRay3 sq ray) (val maxToi) solid
      = (b.castLocalRay big ray maxToi solid).map val := by
  letI := fieldNum K sq
  simp only [Aabb.castLocalRay, optsimp, liftPair_mk, defined_slabStep]
  generalize slabStep b.mins.x b.maxs.x ray.o.x ray.d.x (0, big) = r0
  cases r0 with
  | none => rfl
  | some s0 =>
    simp only [optsimp, defined_slabStep]
    generalize slabStep b.mins.y b.maxs.y ray.o.y ray.d.y s0 = r1
    cases r1 with
    | none => rfl
    | some s1 =>
      simp only [optsimp, defined_slabStep]
      generalize slabStep b.mins.z b.maxs.z ray.o.z ray.d.z s1 = r2
      cases r2 with
      | none => rfl
      | some s2 =>
        obtain ⟨tmin, tmax⟩ := s2
        simp only [liftPair, optsimp, val_ite]
        split_ifs <;> rfl

/-- **C20 (Cuboid::cast_local_ray, RayCast::cast_ray for Cuboid)**: every finite half-extents (zero, negative), pose,
ray, `max_toi`, flag. -/
theorem defined_cuboid3_castLocalRay (big : K) (he : V3 K) (ray : Ray3 K) (maxToi : K) (solid : Bool) :
    letI := fieldNum K sq
    (Cuboid3.mk (lift3 he : V3 (Opt K sq))).castLocalRay (val big) (liftRay3 sq ray) (val maxToi) solid
      = ((Cuboid3.mk he).castLocalRay big ray maxToi solid).map val := by
  letI := fieldNum K sq
  simp only [Cuboid3.castLocalRay, optsimp, defined_aabb_castLocalRay]
theorem defined_cuboid3_castRay (big : K) (he : V3 K) (m : Iso3 K) (ray : Ray3 K) (maxToi : K) (solid : Bool) :
    letI := fieldNum K sq
    (Cuboid3.mk (lift3 he : V3 (Opt K sq))).castRay (val big) (liftIso3 m) (liftRay3 sq ray) (val maxToi) solid
      = ((Cuboid3.mk he).castRay big m ray maxToi solid).map val := by
  letI := fieldNum K sq
  simp only [Cuboid3.castRay, optsimp, defined_cuboid3_castLocalRay]

/-! ## Aabb / Cuboid: `clip_aabb_line` and the normals -/

/-- the near-end update of `clipStep` -/
private def clipNear {K : Type} [Num K] (i : Nat) (flip : Bool) (near : K) (st : ClipSt K) : ClipSt K :=
  if st.tmin < near then
    { st with tmin := near, nearSide := if flip then -((i : Int) + 1) else (i : Int) + 1, nearDiag := false }
  else if neq near st.tmin then { st with nearDiag := true } else st
/-- the far-end update of `clipStep` -/
private def clipFar {K : Type} [Num K] (i : Nat) (flip : Bool) (far : K) (st1 : ClipSt K) : ClipSt K :=
  if far < st1.tmax then
    { st1 with tmax := far, farSide := if !flip then -((i : Int) + 1) else (i : Int) + 1, farDiag := false }
  else if neq far st1.tmax then { st1 with farDiag := true } else st1

private theorem clipStep_eq {K : Type} [Num K] (i : Nat) (mn mx o d : K) (st : ClipSt K) :
    clipStep i mn mx o d st =
      if neq d 0 then (if o < mn ∨ mx < o then none else some st)
      else
        let st2 := clipFar i (decide ((mx - o) * (1 / d) < (mn - o) * (1 / d)))
          (if decide ((mx - o) * (1 / d) < (mn - o) * (1 / d)) then (mn - o) * (1 / d) else (mx - o) * (1 / d))
          (clipNear i (decide ((mx - o) * (1 / d) < (mn - o) * (1 / d)))
            (if decide ((mx - o) * (1 / d) < (mn - o) * (1 / d)) then (mx - o) * (1 / d) else (mn - o) * (1 / d)) st)
        if st2.tmax < st2.tmin then none else some st2 := rfl

private theorem clipNear_lift (i : Nat) (flip : Bool) (near : K) (st : ClipSt K) :
    letI := fieldNum K sq
    clipNear i flip (val near : Opt K sq) (liftClipSt sq st) = liftClipSt sq (clipNear i flip near st) := by
  letI := fieldNum K sq
  simp only [clipNear, optsimp]
  split_ifs <;> rfl
private theorem clipFar_lift (i : Nat) (flip : Bool) (far : K) (st : ClipSt K) :
    letI := fieldNum K sq
    clipFar i flip (val far : Opt K sq) (liftClipSt sq st) = liftClipSt sq (clipFar i flip far st) := by
  letI := fieldNum K sq
  simp only [clipFar, optsimp]
  split_ifs <;> rfl

/-- **C20 (one axis of clip_aabb_line)**: as `defined_slabStep`: every finite input. -/
theorem defined_clipStep (i : Nat) (mn mx o d : K) (st : ClipSt K) :
    letI := fieldNum K sq
    clipStep i (val mn : Opt K sq) (val mx) (val o) (val d) (liftClipSt sq st)
      = (clipStep i mn mx o d st).map (liftClipSt sq) := by
  letI := fieldNum K sq
  simp only [clipStep_eq, optsimp]
  by_cases hd : d = 0
  · simp only [if_pos hd]; split_ifs <;> rfl
  · simp only [if_neg hd, optsimp, val_ite, clipNear_lift, clipFar_lift]
    split_ifs <;> rfl

@[optsimp] private theorem axisVec_lift (k : Int) (v : K) :
    letI := fieldNum K sq
    axisVec k (val v : Opt K sq) = lift3 (axisVec k v) := by
  simp only [axisVec]; split_ifs <;> rfl

/-- **C20 (clip_aabb_line)**: defined for every finite box (flat, point-like, inverted), origin (on faces, edges,
vertices, inside) and direction — **the zero direction included**.  The only normalisation, the "diagonal" normal
`-dir.normalize()`, is taken when a `near`/`far` parameter of one axis *ties* with the running `tmin`/`tmax` (the line
goes through an edge or a vertex of the box, or two faces coincide in a flat box); a tie can only be recorded on an axis
with `dir[i] ≠ 0`, so `dir ≠ 0` is then guaranteed and the normal is defined as soon as the square-root operation does
not vanish at `|dir|²` (`hu`: no underflow below the threshold of `SqrtPos`; automatic for `θ = 0`,
`noUnderflow_zero`).  For `dir = 0` all three axes take the `dir[i] == 0` branch and no flag is ever set. -/
theorem defined_clipAabbLine {θ : K} (hs : SqrtPos sq θ) (big : K) (b : Aabb K) (o d : V3 K)
    (hu : letI := fieldNum K sq; d.normSq = 0 ∨ θ < d.normSq) :
    letI := fieldNum K sq
    clipAabbLine (val big : Opt K sq) (liftAabb sq b) (lift3 o) (lift3 d) = liftClipRes sq (clipAabbLine big b o d) := by
  letI := fieldNum K sq
  rcases hu with hu | hu
  · obtain ⟨dx, dy, dz⟩ := d
    obtain ⟨h1, h2, h3⟩ := normSq3_eq_zero (sq := sq) _ hu
    simp only at h1 h2 h3
    subst h1 h2 h3
    simp only [clipAabbLine, clipStep, optsimp, if_pos]
    split_ifs <;> rfl
  · have hne : sq d.normSq ≠ 0 := hs.ne hu
    simp only [clipAabbLine, optsimp, liftClipSt_mk, defined_clipStep, lift3_normalize _ hne]
    generalize clipStep 0 b.mins.x b.maxs.x o.x d.x _ = r0
    cases r0 with
    | none => rfl
    | some s0 =>
      simp only [optsimp, defined_clipStep]
      generalize clipStep 1 b.mins.y b.maxs.y o.y d.y s0 = r1
      cases r1 with
      | none => rfl
      | some s1 =>
        simp only [optsimp, defined_clipStep]
        generalize clipStep 2 b.mins.z b.maxs.z o.z d.z s1 = r2
        cases r2 with
        | none => rfl
        | some s2 =>
          obtain ⟨tmin, tmax, ns, fs, nd, fd⟩ := s2
          simp only [liftClipSt, liftClipRes, optsimp]
          split_ifs <;> rfl

end C20
