import ParryModel.C20.Lemmas
import ParryModel.C11.Model
set_option linter.style.haveILetI false
set_option linter.unusedSimpArgs false
set_option linter.unusedSectionVars false
set_option linter.unusedVariables false
/-!
# C20 definedness theorems, part 16: the closed forms of `TriMesh::scaled` / leaf boxes (C11 `TM.Boxes`)

`TriMesh::scaled` multiplies vertices and pseudo-normals componentwise by the scale and renormalises the pseudo-normals with
`try_normalize_mut(0.0)`, whose guard makes the division total: a pseudo-normal that a **zero scale component** (a mesh
flattened by the scale) sends to the zero vector is left as it is.  Boxes are `min`/`max` only.
-/
namespace C20
open Model Model.TM

variable {K : Type} [Field K] [LinearOrder K] [IsStrictOrderedRing K] (sq : K → K)

def liftVV3 (b : V3 K × V3 K) : V3 (Opt K sq) × V3 (Opt K sq) := (lift3 b.1, lift3 b.2)
def liftVV2 (b : V2 K × V2 K) : V2 (Opt K sq) × V2 (Opt K sq) := (lift2 b.1, lift2 b.2)
@[optsimp] private theorem liftVV3_mk (a b : V3 K) : ((lift3 a, lift3 b) : V3 (Opt K sq) × V3 (Opt K sq)) = liftVV3 sq (a, b) := id rfl
@[optsimp] private theorem liftVV2_mk (a b : V2 K) : ((lift2 a, lift2 b) : V2 (Opt K sq) × V2 (Opt K sq)) = liftVV2 sq (a, b) := id rfl
@[optsimp] private theorem liftVV3_1 (b : V3 K × V3 K) : (liftVV3 sq b).1 = lift3 b.1 := id rfl
@[optsimp] private theorem liftVV3_2 (b : V3 K × V3 K) : (liftVV3 sq b).2 = lift3 b.2 := id rfl
@[optsimp] private theorem liftVV2_1 (b : V2 K × V2 K) : (liftVV2 sq b).1 = lift2 b.1 := id rfl
@[optsimp] private theorem liftVV2_2 (b : V2 K × V2 K) : (liftVV2 sq b).2 = lift2 b.2 := id rfl

/-- **C20 (`Triangle::local_aabb`, 3-D / 2-D)**: flat and point triangles included. -/
theorem defined_c11_triBox (a b c : V3 K) (a' b' c' : V2 K) : letI := fieldNum K sq
    triBox3 ((lift3 a, lift3 b, lift3 c) : V3 (Opt K sq) × V3 (Opt K sq) × V3 (Opt K sq)) = liftVV3 sq (triBox3 (a, b, c)) ∧
    triBox2 ((lift2 a', lift2 b', lift2 c') : V2 (Opt K sq) × V2 (Opt K sq) × V2 (Opt K sq)) = liftVV2 sq (triBox2 (a', b', c')) := by
  letI := fieldNum K sq
  exact ⟨by simp only [triBox3, optsimp], by simp only [triBox2, optsimp]⟩

/-- **C20 (`Aabb::scaled`, `Aabb::merged`)**: any scale (zero and negative components), any boxes. -/
theorem defined_c11_aabbScaledMerged (b d : V3 K × V3 K) (s : V3 K) (b' d' : V2 K × V2 K) (s' : V2 K) : letI := fieldNum K sq
    aabbScaled3 (liftVV3 sq b) (lift3 s) = liftVV3 sq (aabbScaled3 b s) ∧
    aabbScaled2 (liftVV2 sq b') (lift2 s') = liftVV2 sq (aabbScaled2 b' s') ∧
    aabbMerged3 (liftVV3 sq b) (liftVV3 sq d) = liftVV3 sq (aabbMerged3 b d) ∧
    aabbMerged2 (liftVV2 sq b') (liftVV2 sq d') = liftVV2 sq (aabbMerged2 b' d') := by
  letI := fieldNum K sq
  refine ⟨?_, ?_, ?_, ?_⟩
  · simp only [aabbScaled3, optsimp]
  · simp only [aabbScaled2, optsimp]
  · simp only [aabbMerged3, optsimp]
  · simp only [aabbMerged2, optsimp]

/-- **C20 (box of the whole mesh)**: the fold of `merged` over the leaf boxes. -/
theorem defined_c11_mergeBoxes3 (b : V3 K × V3 K) (bs : List (V3 K × V3 K)) : letI := fieldNum K sq
    mergeBoxes3 (liftVV3 sq b) (bs.map (liftVV3 sq)) = liftVV3 sq (mergeBoxes3 b bs) := by
  letI := fieldNum K sq
  induction bs generalizing b with
  | nil => rfl
  | cons x xs ih =>
    simp only [mergeBoxes3, List.map_cons, List.foldl_cons] at ih ⊢
    rw [(defined_c11_aabbScaledMerged sq b x ⟨0, 0, 0⟩ (⟨0, 0⟩, ⟨0, 0⟩) (⟨0, 0⟩, ⟨0, 0⟩) ⟨0, 0⟩).2.2.1]
    exact ih _

/-- **C20 (scaling of a pseudo-normal, `TriMesh::scaled`)**: `n ∘ scale`, then `try_normalize_mut(0.0)` — defined for EVERY
normal and scale, **no hypothesis on the square-root operation**: the division happens only when the computed norm is `> 0`. -/
theorem defined_c11_scaleNormal3 (s n : V3 K) : letI := fieldNum K sq
    scaleNormal3 (lift3 s : V3 (Opt K sq)) (lift3 n) = lift3 (scaleNormal3 s n) := by
  letI := fieldNum K sq
  simp only [scaleNormal3, optsimp]
  by_cases h : (n.cmul s).norm ≤ 0
  · simp only [if_pos h]
  · have h0 : (n.cmul s).norm ≠ 0 := fun e => h (le_of_eq e)
    simp only [if_neg h, if_neg h0]

end C20
