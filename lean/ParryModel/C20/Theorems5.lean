import ParryModel.C20.Lemmas
import ParryModel.C20.Theorems2
import ParryModel.C02.Model
import ParryModel.C03.Model
import ParryModel.C06.Model
import ParryModel.C19.Model
set_option linter.style.haveILetI false
set_option linter.unusedSimpArgs false
set_option linter.unusedSectionVars false
set_option linter.unusedVariables false
/-!
# C20 definedness theorems, part 5: the closed-form pair queries of C03 / C02, the shape casts of C06, scaling (C19)

Shape of every theorem: `f (lift x) = lift (f x)` — left the model function at the NaN-propagating scalars `Opt K sq`
on finite input, right the same function at the lawful field instance injected by `some` (see `Lemmas.lean`).

* ball / ball: `distance`, `intersection_test`, `closest_points`, `contact` (3-D and 2-D);
* half-space / support map: `contact`, `distance`, `intersection_test`, `closest_points` and their mirrored wrappers,
  relative to a support function that is itself defined (`SupportTowardDefined3`, `SupportDefined3`), instantiated for the
  ball and cuboid support maps of `C03/Model.lean`;
* `copy_sign_to`, the `Contact` / `ClosestPoints` / `ShapeCastHit` flipping helpers, the `*_ball_convex_polyhedron` /
  `*_ball_point_query` mirrored wrappers, the free functions `query::{distance, …}` (higher order: relative to a defined
  dispatcher-level function);
* the dispatch functions `details*` restricted to the closed-form pairs, and the four verdicts of C02;
* C06 (`Model.SC`): `ray_toi_with_ball`, `cast_shapes_ball_ball` (fixed and pinned), `HalfSpace::cast_local_ray`,
  `cast_shapes_halfspace_support_map` + mirrored wrapper, support points, dispatcher and `query::cast_shapes`;
* C19: `scaled` of the primitive shapes, `HalfSpace::scaled` (finding: zero scale component), heightfield triangles.
-/
namespace C20
open Model

variable {K : Type} [Field K] [LinearOrder K] [IsStrictOrderedRing K] (sq : K → K)

/-! ### liftings of the C03 data types -/
def liftContact3 (c : Contact3 K) : Contact3 (Opt K sq) :=
  ⟨lift3 c.point1, lift3 c.point2, lift3 c.normal1, lift3 c.normal2, val c.dist⟩
def liftCP3 : ClosestPoints3 K → ClosestPoints3 (Opt K sq)
  | .intersecting => .intersecting
  | .withinMargin p1 p2 => .withinMargin (lift3 p1) (lift3 p2)
  | .disjoint => .disjoint
def liftQHit3 (h : ShapeCastHit3 K) : ShapeCastHit3 (Opt K sq) :=
  ⟨val h.toi, lift3 h.witness1, lift3 h.witness2, lift3 h.normal1, lift3 h.normal2, h.status⟩
def liftQShape3 : Shape3 K → Shape3 (Opt K sq)
  | .ball r => .ball (val r)
  | .cuboid he => .cuboid (lift3 he)
  | .halfspace n => .halfspace (lift3 n)
def liftContact2 (c : Contact2 K) : Contact2 (Opt K sq) :=
  ⟨lift2 c.point1, lift2 c.point2, lift2 c.normal1, lift2 c.normal2, val c.dist⟩
def liftQShape2 : Shape2 K → Shape2 (Opt K sq)
  | .ball r => .ball (val r)
  | .cuboid he => .cuboid (lift2 he)
  | .halfspace n => .halfspace (lift2 n)

@[optsimp] private theorem liftContact3_mk (a b c d : V3 K) (e : K) :
    (⟨lift3 a, lift3 b, lift3 c, lift3 d, val e⟩ : Contact3 (Opt K sq)) = liftContact3 sq ⟨a, b, c, d, e⟩ := id rfl
@[optsimp] private theorem liftCP3_wm (a b : V3 K) :
    (ClosestPoints3.withinMargin (lift3 a) (lift3 b) : ClosestPoints3 (Opt K sq)) = liftCP3 sq (.withinMargin a b) :=
  id rfl
@[optsimp] private theorem liftContact3_dist (c : Contact3 K) : (liftContact3 sq c).dist = val c.dist := id rfl
@[optsimp] private theorem liftContact3_point1 (c : Contact3 K) : (liftContact3 sq c).point1 = lift3 c.point1 := id rfl
@[optsimp] private theorem liftContact3_point2 (c : Contact3 K) : (liftContact3 sq c).point2 = lift3 c.point2 := id rfl
@[optsimp] private theorem liftContact3_normal1 (c : Contact3 K) : (liftContact3 sq c).normal1 = lift3 c.normal1 :=
  id rfl
@[optsimp] private theorem liftContact3_normal2 (c : Contact3 K) : (liftContact3 sq c).normal2 = lift3 c.normal2 :=
  id rfl
@[optsimp] private theorem lift3_xAxis : letI := fieldNum K sq; (V3.xAxis : V3 (Opt K sq)) = lift3 V3.xAxis := id rfl
@[optsimp] private theorem lift2_xAxis : letI := fieldNum K sq; (V2.xAxis : V2 (Opt K sq)) = lift2 V2.xAxis := id rfl
@[optsimp] private theorem liftContact2_mk (a b c d : V2 K) (e : K) :
    (⟨lift2 a, lift2 b, lift2 c, lift2 d, val e⟩ : Contact2 (Opt K sq)) = liftContact2 sq ⟨a, b, c, d, e⟩ := id rfl

private theorem neg_normSq3 (n : V3 K) : letI := fieldNum K sq; n.neg.normSq = n.normSq := by
  simp only [V3.normSq, V3.dot, V3.neg]; ring

/-! ## `copy_sign_to`, result flipping helpers -/

/-- **C20 (`WSign::copy_sign_to`)**: defined for every finite pair — **including `d = 0`**: the sign test `1 / d < 0` is
`NaN < 0 = false` at `Opt` exactly as `0 < 0 = false` in the field (at `Float` it reads the sign bit of the zero; the
quotient itself never reaches the output). -/
theorem defined_copySign (d t : K) :
    letI := fieldNum K sq
    copySign (val d : Opt K sq) (val t) = val (copySign d t) := by
  letI := fieldNum K sq
  simp only [copySign, val_one, val_zero, val_one_div_lt_zero, val_nabs, val_neg]
  split_ifs <;> rfl

/-- **C20 (`Contact::{flipped, transform_by_mut}`, `ClosestPoints::{flipped, transform_by}`,
`ShapeCastHit::{swapped, transform1_by}`)**: pure re-arrangements and isometry actions (`+ - *` only): defined on every
finite record and pose. -/
theorem defined_resultFlipping (c : Contact3 K) (cp : ClosestPoints3 K) (h : ShapeCastHit3 K) (p1 p2 : Iso3 K) :
    letI := fieldNum K sq
    (liftContact3 sq c).flipped = liftContact3 sq c.flipped ∧
    (liftContact3 sq c).transformBy (liftIso3 p1) (liftIso3 p2) = liftContact3 sq (c.transformBy p1 p2) ∧
    (liftCP3 sq cp).flipped = liftCP3 sq cp.flipped ∧
    (liftCP3 sq cp).transformBy (liftIso3 p1) (liftIso3 p2) = liftCP3 sq (cp.transformBy p1 p2) ∧
    (liftQHit3 sq h).swapped = liftQHit3 sq h.swapped ∧
    (liftQHit3 sq h).transform1By (liftIso3 p1) = liftQHit3 sq (h.transform1By p1) := by
  refine ⟨rfl, rfl, ?_, ?_, rfl, rfl⟩ <;> cases cp <;> rfl

@[optsimp] private theorem liftContact3_flipped (c : Contact3 K) :
    (liftContact3 sq c).flipped = liftContact3 sq c.flipped := id rfl
@[optsimp] private theorem liftContact3_transformBy (c : Contact3 K) (p1 p2 : Iso3 K) :
    letI := fieldNum K sq
    (liftContact3 sq c).transformBy (liftIso3 p1) (liftIso3 p2) = liftContact3 sq (c.transformBy p1 p2) := id rfl
@[optsimp] private theorem liftCP3_flipped (c : ClosestPoints3 K) :
    (liftCP3 sq c).flipped = liftCP3 sq c.flipped := by cases c <;> rfl
@[optsimp] private theorem liftCP3_transformBy (c : ClosestPoints3 K) (p1 p2 : Iso3 K) :
    letI := fieldNum K sq
    (liftCP3 sq c).transformBy (liftIso3 p1) (liftIso3 p2) = liftCP3 sq (c.transformBy p1 p2) := by
  cases c <;> rfl
@[optsimp] private theorem liftContact2_flipped (c : Contact2 K) :
    (liftContact2 sq c).flipped = liftContact2 sq c.flipped := id rfl
@[optsimp] private theorem liftContact2_transformBy (c : Contact2 K) (p1 p2 : Iso2 K) :
    letI := fieldNum K sq
    (liftContact2 sq c).transformBy (liftIso2 p1) (liftIso2 p2) = liftContact2 sq (c.transformBy p1 p2) := id rfl

/-! ## Support maps -/

/-- `S` (evaluated with NaN-propagating scalars) computes at the finite pose `m` and direction `d` the finite point that
`S'` (the same support map at the field instance) computes: `support_point_toward` is defined at `(m, d)`. -/
def SupportTowardDefined3 (S : SupportMap3 (Opt K sq)) (S' : SupportMap3 K) (m : Iso3 K) (d : V3 K) : Prop :=
  S.supportToward (liftIso3 m) (lift3 d) = lift3 (S'.supportToward m d)
/-- the same for `support_point` (which may normalise `d`) -/
def SupportDefined3 (S : SupportMap3 (Opt K sq)) (S' : SupportMap3 K) (m : Iso3 K) (d : V3 K) : Prop :=
  S.support (liftIso3 m) (lift3 d) = lift3 (S'.support m d)
def SupportTowardDefined2 (S : SupportMap2 (Opt K sq)) (S' : SupportMap2 K) (m : Iso2 K) (d : V2 K) : Prop :=
  S.supportToward (liftIso2 m) (lift2 d) = lift2 (S'.supportToward m d)
def SupportDefined2 (S : SupportMap2 (Opt K sq)) (S' : SupportMap2 K) (m : Iso2 K) (d : V2 K) : Prop :=
  S.support (liftIso2 m) (lift2 d) = lift2 (S'.support m d)

private theorem defined_cuboidLocalSupport (he d : V3 K) :
    letI := fieldNum K sq
    cuboidLocalSupport (lift3 he : V3 (Opt K sq)) (lift3 d) = lift3 (cuboidLocalSupport he d) := by
  simp only [cuboidLocalSupport, optsimp, defined_copySign]

/-- **C20 (`Cuboid` support map, 3-D: `support_point`, `support_point_toward`, `local_support_point`)**: defined for
every finite half-extents (any sign, **zero included**), pose and direction — **including the zero direction and
directions with zero components** (`copy_sign_to` only reads signs; no normalisation). -/
theorem defined_cuboidSupportMap (he : V3 K) (m : Iso3 K) (d : V3 K) :
    letI := fieldNum K sq
    SupportTowardDefined3 sq (cuboidSupportMap (lift3 he)) (cuboidSupportMap he) m d ∧
    SupportDefined3 sq (cuboidSupportMap (lift3 he)) (cuboidSupportMap he) m d := by
  letI := fieldNum K sq
  refine ⟨?_, ?_⟩
  · simp only [SupportTowardDefined3, cuboidSupportMap, optsimp, defined_cuboidLocalSupport]
  · simp only [SupportDefined3, cuboidSupportMap, optsimp, defined_cuboidLocalSupport]

/-- **C20 (`Cuboid` support map, 2-D)**: as `defined_cuboidSupportMap`. -/
theorem defined_cuboidSupportMap2 (he : V2 K) (m : Iso2 K) (d : V2 K) :
    letI := fieldNum K sq
    SupportTowardDefined2 sq (cuboidSupportMap2 (lift2 he)) (cuboidSupportMap2 he) m d ∧
    SupportDefined2 sq (cuboidSupportMap2 (lift2 he)) (cuboidSupportMap2 he) m d := by
  letI := fieldNum K sq
  refine ⟨?_, ?_⟩
  · simp only [SupportTowardDefined2, cuboidSupportMap2, cuboidLocalSupport2, optsimp, defined_copySign]
  · simp only [SupportDefined2, cuboidSupportMap2, cuboidLocalSupport2, optsimp, defined_copySign]

/-- **C20 (`Ball::support_point_toward`, 3-D and 2-D)**: `m.translation + dir * radius`: defined for every finite radius
(any sign, zero), pose and direction (unit or not, zero included). -/
theorem defined_ballSupportMap_supportToward (r : K) (m : Iso3 K) (d : V3 K) (m2 : Iso2 K) (d2 : V2 K) :
    letI := fieldNum K sq
    SupportTowardDefined3 sq (ballSupportMap (val r)) (ballSupportMap r) m d ∧
    SupportTowardDefined2 sq (ballSupportMap2 (val r)) (ballSupportMap2 r) m2 d2 := by
  refine ⟨?_, ?_⟩
  · simp only [SupportTowardDefined3, ballSupportMap, optsimp]
  · simp only [SupportTowardDefined2, ballSupportMap2, optsimp]

/-- **C20 (`Ball::support_point`, 3-D)**: normalises the direction (`Unit::new_normalize`): defined for every radius and
pose and every direction whose squared length is above the threshold of the square-root operation (`θ = 0`: every
non-zero direction).  The zero direction gives `0/0` (`ballSupportMap_zero_dir_nan`): it is outside the documented
contract of a support function, and the only modelled caller (`closest_points_halfspace_support_map`) passes the negated
*unit* normal of the half-space. -/
theorem defined_ballSupportMap_support {θ : K} (hs : SqrtPos sq θ) (r : K) (m : Iso3 K) (d : V3 K)
    (hd : letI := fieldNum K sq; θ < d.normSq) :
    letI := fieldNum K sq
    SupportDefined3 sq (ballSupportMap (val r)) (ballSupportMap r) m d := by
  letI := fieldNum K sq
  simp only [SupportDefined3, ballSupportMap, optsimp, lift3_normalize d (hs.ne hd)]

/-- **C20 (`Ball::support_point`, 2-D)**: as `defined_ballSupportMap_support`. -/
theorem defined_ballSupportMap_support2 {θ : K} (hs : SqrtPos sq θ) (r : K) (m : Iso2 K) (d : V2 K)
    (hd : letI := fieldNum K sq; θ < d.normSq) :
    letI := fieldNum K sq
    SupportDefined2 sq (ballSupportMap2 (val r)) (ballSupportMap2 r) m d := by
  letI := fieldNum K sq
  simp only [SupportDefined2, ballSupportMap2, optsimp, lift2_normalize d (hs.ne hd)]

/-- the zero direction (invalid input: a support direction must be non-zero) gives a NaN support point of the ball -/
theorem ballSupportMap_zero_dir_nan :
    Option.isSome (((ballSupportMap (K := NaNable) (some 1)).support
      ⟨some 0, some 0, some 0, some 1, ⟨some 0, some 0, some 0⟩⟩ ⟨some 0, some 0, some 0⟩).x : Option Rat) = false := by
  decide +kernel

/-! ## Half-space vs support map -/

/-- **C20 (`contact_halfspace_support_map`)**: no division, no square root of its own: defined for every finite pose,
normal (unit or not), prediction (**`prediction = 0`, negative predictions, the shape touching the plane `distance = 0`
or `distance = prediction`** included) whenever the support function is defined at `(pos12, -n)`. -/
theorem defined_contactHS (pos12 : Iso3 K) (n : V3 K) (S : SupportMap3 (Opt K sq)) (S' : SupportMap3 K)
    (prediction : K) (hS : letI := fieldNum K sq; SupportTowardDefined3 sq S S' pos12 n.neg) :
    letI := fieldNum K sq
    contactHS (liftIso3 pos12) (lift3 n) S (val prediction)
      = (contactHS pos12 n S' prediction).map (liftContact3 sq) := by
  letI := fieldNum K sq
  unfold SupportTowardDefined3 at hS
  simp only [contactHS, optsimp, hS]
  split_ifs <;> rfl

/-- **C20 (`contact_support_map_halfspace`, as fixed in /repo: `pos12.inverse()` then `flipped`)**: defined whenever the
support function is defined at `(pos12⁻¹, -n)`. -/
theorem defined_contactSH (pos12 : Iso3 K) (n : V3 K) (S : SupportMap3 (Opt K sq)) (S' : SupportMap3 K)
    (prediction : K) (hS : letI := fieldNum K sq; SupportTowardDefined3 sq S S' pos12.inverse n.neg) :
    letI := fieldNum K sq
    contactSH (liftIso3 pos12) S (lift3 n) (val prediction)
      = (contactSH pos12 S' n prediction).map (liftContact3 sq) := by
  letI := fieldNum K sq
  simp only [contactSH, optsimp, defined_contactHS sq pos12.inverse n S S' prediction hS, Option.map_map]
  rfl

/-- **C20 (`distance_halfspace_support_map`, `intersection_test_halfspace_support_map`)**: defined (a dot product and a
`max` with `0`) whenever the support function is defined at `(pos12, -n)`; the shape touching the plane gives `0` /
`true`. -/
theorem defined_distanceHS (pos12 : Iso3 K) (n : V3 K) (S : SupportMap3 (Opt K sq)) (S' : SupportMap3 K)
    (hS : letI := fieldNum K sq; SupportTowardDefined3 sq S S' pos12 n.neg) :
    letI := fieldNum K sq
    distanceHS (liftIso3 pos12) (lift3 n) S = val (distanceHS pos12 n S') ∧
    intersectionTestHS (liftIso3 pos12) (lift3 n) S = intersectionTestHS pos12 n S' := by
  letI := fieldNum K sq
  unfold SupportTowardDefined3 at hS
  refine ⟨?_, ?_⟩
  · simp only [distanceHS, optsimp, hS]
  · simp only [intersectionTestHS, optsimp, hS]

/-- **C20 (`distance_support_map_halfspace`, `intersection_test_support_map_halfspace`)**: the mirrored wrappers. -/
theorem defined_distanceSH (pos12 : Iso3 K) (n : V3 K) (S : SupportMap3 (Opt K sq)) (S' : SupportMap3 K)
    (hS : letI := fieldNum K sq; SupportTowardDefined3 sq S S' pos12.inverse n.neg) :
    letI := fieldNum K sq
    distanceSH (liftIso3 pos12) S (lift3 n) = val (distanceSH pos12 S' n) ∧
    intersectionTestSH (liftIso3 pos12) S (lift3 n) = intersectionTestSH pos12 S' n := by
  letI := fieldNum K sq
  simp only [distanceSH, intersectionTestSH, optsimp, defined_distanceHS sq pos12.inverse n S S' hS, and_self]

/-- **C20 (`closest_points_halfspace_support_map`)**: defined for every finite pose, normal and margin — a negative
margin is the `assert!` panic (`none` on both sides), **`margin = 0` and the touching configuration `distance = 0`
(`Intersecting`) are covered** — whenever `support_point` (the normalising variant) is defined at `(pos12, -n)`. -/
theorem defined_closestPointsHS (pos12 : Iso3 K) (n : V3 K) (S : SupportMap3 (Opt K sq)) (S' : SupportMap3 K)
    (margin : K) (hS : letI := fieldNum K sq; SupportDefined3 sq S S' pos12 n.neg) :
    letI := fieldNum K sq
    closestPointsHS (liftIso3 pos12) (lift3 n) S (val margin)
      = (closestPointsHS pos12 n S' margin).map (liftCP3 sq) := by
  letI := fieldNum K sq
  unfold SupportDefined3 at hS
  simp only [closestPointsHS, optsimp, hS]
  split_ifs <;> rfl

/-- **C20 (`closest_points_support_map_halfspace`)**: the mirrored wrapper. -/
theorem defined_closestPointsSH (pos12 : Iso3 K) (n : V3 K) (S : SupportMap3 (Opt K sq)) (S' : SupportMap3 K)
    (margin : K) (hS : letI := fieldNum K sq; SupportDefined3 sq S S' pos12.inverse n.neg) :
    letI := fieldNum K sq
    closestPointsSH (liftIso3 pos12) S (lift3 n) (val margin)
      = (closestPointsSH pos12 S' n margin).map (liftCP3 sq) := by
  letI := fieldNum K sq
  simp only [closestPointsSH, optsimp, defined_closestPointsHS sq pos12.inverse n S S' margin hS, Option.map_map]
  congr 1; funext c; cases c <;> rfl

/-- **C20 (`contact_halfspace_support_map`, dim2)**. -/
theorem defined_contactHS2 (pos12 : Iso2 K) (n : V2 K) (S : SupportMap2 (Opt K sq)) (S' : SupportMap2 K)
    (prediction : K) (hS : letI := fieldNum K sq; SupportTowardDefined2 sq S S' pos12 n.neg) :
    letI := fieldNum K sq
    contactHS2 (liftIso2 pos12) (lift2 n) S (val prediction)
      = (contactHS2 pos12 n S' prediction).map (liftContact2 sq) := by
  letI := fieldNum K sq
  unfold SupportTowardDefined2 at hS
  simp only [contactHS2, optsimp, hS]
  split_ifs <;> rfl

/-- **C20 (`contact_support_map_halfspace`, dim2, as fixed)**. -/
theorem defined_contactSH2 (pos12 : Iso2 K) (n : V2 K) (S : SupportMap2 (Opt K sq)) (S' : SupportMap2 K)
    (prediction : K) (hS : letI := fieldNum K sq; SupportTowardDefined2 sq S S' pos12.inverse n.neg) :
    letI := fieldNum K sq
    contactSH2 (liftIso2 pos12) S (lift2 n) (val prediction)
      = (contactSH2 pos12 S' n prediction).map (liftContact2 sq) := by
  letI := fieldNum K sq
  simp only [contactSH2, optsimp, defined_contactHS2 sq pos12.inverse n S S' prediction hS, Option.map_map]
  rfl

/-! ## Ball vs ball -/

/-- **C20 (`intersection_test_ball_ball`)**: `+ *` and a comparison: every finite input (any radii, coincident
centres, tangent balls). -/
theorem defined_intersectionTestBallBall (c : V3 K) (r1 r2 : K) :
    letI := fieldNum K sq
    intersectionTestBallBall (lift3 c : V3 (Opt K sq)) (val r1) (val r2) = intersectionTestBallBall c r1 r2 := by
  simp only [intersectionTestBallBall, optsimp]

/-- **C20 (`distance_ball_ball`)**: defined for every finite centre and radii (any sign) — **coincident centres, zero
radii, identical balls, tangent balls** included: the square root is taken of a sum of squares, nothing is divided. -/
theorem defined_distanceBallBall (r1 r2 : K) (c : V3 K) :
    letI := fieldNum K sq
    distanceBallBall (val r1 : Opt K sq) (lift3 c) (val r2) = val (distanceBallBall r1 c r2) := by
  letI := fieldNum K sq
  simp only [distanceBallBall, optsimp]
  opt_steps
  all_goals first | rfl | (exfalso; linarith [normSq3_nonneg (sq := sq) c])

/-- **C20 (`closest_points_ball_ball`)**: defined for every finite pose, margin (negative: the `assert!` panic, `none` on
both sides; **`margin = 0` covered**) and radii with **`r1 + r2 ≥ 0`** — zero radii, coincident centres, identical and
tangent balls included — with *no* requirement on the square-root operation: the centre offset is normalised only in
the branch `|c| > r1 + r2 ≥ 0`, where the divisor `|c| = sqrt |c|²` is positive by the branch condition itself.
For `r1 + r2 < 0` (invalid balls) the divisor must be assumed non-zero (`closestPointsBallBall_negative_radius_nan`). -/
theorem defined_closestPointsBallBall (pos12 : Iso3 K) (r1 r2 margin : K)
    (hr : letI := fieldNum K sq; 0 ≤ r1 + r2 ∨ sq pos12.t.normSq ≠ 0) :
    letI := fieldNum K sq
    closestPointsBallBall (liftIso3 pos12) (val r1) (val r2) (val margin)
      = (closestPointsBallBall pos12 r1 r2 margin).map (liftCP3 sq) := by
  letI := fieldNum K sq
  simp only [closestPointsBallBall, optsimp]
  split_ifs with h1 h2 h3
  · rfl
  · have hne : sq pos12.t.normSq ≠ 0 := by
      rcases hr with h | h
      · exact ne_of_gt (lt_of_le_of_lt h (not_le.mp h3))
      · exact h
    rw [lift3_normalize pos12.t hne]
    simp only [optsimp]
  · rfl
  · rfl

/-- invalid input (negative radius): coincident centres, `r1 + r2 = -1 < 0`, `margin = 2`: the branch
`0 - 2 ≤ -1`, `¬ 0 ≤ -1` normalises the zero offset: NaN witness points. -/
theorem closestPointsBallBall_negative_radius_nan :
    (match closestPointsBallBall (K := NaNable) ⟨some 0, some 0, some 0, some 1, ⟨some 0, some 0, some 0⟩⟩
        (some (-1)) (some 0) (some 2) with
      | some (.withinMargin p _) => Option.isSome (p.x : Option Rat)
      | _ => true) = false := by
  decide +kernel

/-- **C20 (`contact_ball_ball`, 3-D)**: defined for every finite pose, radii (any sign, **zero radii**) and prediction
(**`prediction = 0`**, negative) — **coincident centres included**: `distance_squared.is_zero()` selects the `x`-axis
fallback and nothing is normalised; identical balls are this case.  Otherwise the centre offset is normalised, which
needs the square-root *operation* not to vanish at the non-zero `|c|²` (`hu`: no underflow below the threshold `θ`;
trivially true for `θ = 0`, see `noUnderflow_zero`).  The penetration `sqrt |c|² - (r1 + r2)` is always defined. -/
theorem defined_contactBallBall {θ : K} (hs : SqrtPos sq θ) (pos12 : Iso3 K) (r1 r2 prediction : K)
    (hu : letI := fieldNum K sq; pos12.t.normSq = 0 ∨ θ < pos12.t.normSq) :
    letI := fieldNum K sq
    contactBallBall (liftIso3 pos12) (val r1) (val r2) (val prediction)
      = (contactBallBall pos12 r1 r2 prediction).map (liftContact3 sq) := by
  letI := fieldNum K sq
  simp only [contactBallBall, optsimp]
  split_ifs with h1 h2 h3
  · exfalso; exact absurd (normSq3_nonneg (sq := sq) pos12.t) (not_le.mpr h3)
  · have hne : sq pos12.t.normSq ≠ 0 := by
      rcases hu with hu | hu
      · exact absurd hu h2
      · exact hs.ne hu
    rw [lift3_normalize pos12.t hne]
    simp only [optsimp]
  · exfalso; exact absurd (normSq3_nonneg (sq := sq) pos12.t) (not_le.mpr (by assumption))
  · simp only [optsimp]
  · rfl

/-- **C20 (`contact_ball_ball`, dim2)**: as `defined_contactBallBall`. -/
theorem defined_contactBallBall2 {θ : K} (hs : SqrtPos sq θ) (pos12 : Iso2 K) (r1 r2 prediction : K)
    (hu : letI := fieldNum K sq; pos12.t.normSq = 0 ∨ θ < pos12.t.normSq) :
    letI := fieldNum K sq
    contactBallBall2 (liftIso2 pos12) (val r1) (val r2) (val prediction)
      = (contactBallBall2 pos12 r1 r2 prediction).map (liftContact2 sq) := by
  letI := fieldNum K sq
  simp only [contactBallBall2, optsimp]
  split_ifs with h1 h2 h3
  · exfalso; exact absurd (normSq2_nonneg (sq := sq) pos12.t) (not_le.mpr h3)
  · have hne : sq pos12.t.normSq ≠ 0 := by
      rcases hu with hu | hu
      · exact absurd hu h2
      · exact hs.ne hu
    rw [lift2_normalize pos12.t hne]
    simp only [optsimp]
  · exfalso; exact absurd (normSq2_nonneg (sq := sq) pos12.t) (not_le.mpr (by assumption))
  · simp only [optsimp]
  · rfl

/-- read a `NaNable` as the `Option ℚ` it is -/
private def asRat (x : NaNable) : Option Rat := x

/-- the coincident-centre corner, evaluated: identical unit balls at the same place give the finite contact
`normal1 = x`, `dist = -2` at `NaNable` -/
theorem contactBallBall_coincident_finite :
    (match contactBallBall (K := NaNable) ⟨some 0, some 0, some 0, some 1, ⟨some 0, some 0, some 0⟩⟩
        (some 1) (some 1) (some 0) with
      | some c => (asRat c.normal1.x == some 1) && (asRat c.dist == some (-2)) && (asRat c.point2.x).isSome
      | none => false) = true := by
  decide +kernel

/-! ## Mirrored wrappers over an arbitrary canonical sibling, free functions -/

/-- the `match contact { … }` of `closest_points_{ball_convex_polyhedron, convex_polyhedron_ball}` -/
theorem defined_closestPointsOfContact (c : Option (Contact3 K)) :
    letI := fieldNum K sq
    closestPointsOfContact (c.map (liftContact3 sq)) = liftCP3 sq (closestPointsOfContact c) := by
  letI := fieldNum K sq
  rcases c with _ | c
  · rfl
  · simp only [Option.map_some, closestPointsOfContact, optsimp]
    split_ifs <;> rfl

/-- **C20 (`contact_ball_convex_polyhedron`, `closest_points_{convex_polyhedron_ball, ball_convex_polyhedron}`)**: the
wrappers add only `pos12.inverse()`, `flipped` and the `dist ≤ 0` test: defined wherever the canonical sibling `f` is. -/
theorem defined_ballWrappers (f : Iso3 (Opt K sq) → Option (Contact3 (Opt K sq))) (f' : Iso3 K → Option (Contact3 K))
    (hf : ∀ m, f (liftIso3 m) = (f' m).map (liftContact3 sq)) (pos12 : Iso3 K) :
    letI := fieldNum K sq
    contactBallCP f (liftIso3 pos12) = (contactBallCP f' pos12).map (liftContact3 sq) ∧
    closestPointsCPBall f (liftIso3 pos12) = liftCP3 sq (closestPointsCPBall f' pos12) ∧
    closestPointsBallCP f (liftIso3 pos12) = liftCP3 sq (closestPointsBallCP f' pos12) := by
  letI := fieldNum K sq
  have h1 : contactBallCP f (liftIso3 pos12) = (contactBallCP f' pos12).map (liftContact3 sq) := by
    simp only [contactBallCP, optsimp, hf, Option.map_map]; rfl
  refine ⟨h1, ?_, ?_⟩
  · simp only [closestPointsCPBall, hf, defined_closestPointsOfContact]
  · simp only [closestPointsBallCP, h1, defined_closestPointsOfContact]

/-- **C20 (`distance_ball_convex_polyhedron`, `intersection_test_ball_point_query`)**: `f(pos12.inverse())`. -/
theorem defined_ballWrappers_scalar (f : Iso3 (Opt K sq) → Opt K sq) (f' : Iso3 K → K)
    (g : Iso3 (Opt K sq) → Bool) (g' : Iso3 K → Bool)
    (hf : ∀ m, f (liftIso3 m) = val (f' m)) (hg : ∀ m, g (liftIso3 m) = g' m) (pos12 : Iso3 K) :
    letI := fieldNum K sq
    distanceBallCP f (liftIso3 pos12) = val (distanceBallCP f' pos12) ∧
    intersectionTestBallPQ g (liftIso3 pos12) = intersectionTestBallPQ g' pos12 := by
  simp only [distanceBallCP, intersectionTestBallPQ, optsimp, hf, hg, and_self]

/-- **C20 (`query::distance`, `query::intersection_test`)**: `pos12 = pos1.inv_mul(pos2)` is `+ - *` only: the free
functions are defined wherever the dispatcher-level function `d` is (any result type, lifted by `L`). -/
theorem defined_queryDistance {α β : Type} (L : β → α) (d : Iso3 (Opt K sq) → α) (d' : Iso3 K → β)
    (hd : ∀ m, d (liftIso3 m) = L (d' m)) (pos1 pos2 : Iso3 K) :
    letI := fieldNum K sq
    queryDistance d (liftIso3 pos1) (liftIso3 pos2) = L (queryDistance d' pos1 pos2) ∧
    queryIntersectionTest d (liftIso3 pos1) (liftIso3 pos2) = L (queryIntersectionTest d' pos1 pos2) := by
  simp only [queryDistance, queryIntersectionTest, optsimp, hd, and_self]

/-- **C20 (`query::closest_points`)**: `inv_mul`, then `transform_by(pos1, pos2)`. -/
theorem defined_queryClosestPoints (d : Iso3 (Opt K sq) → ClosestPoints3 (Opt K sq)) (d' : Iso3 K → ClosestPoints3 K)
    (hd : ∀ m, d (liftIso3 m) = liftCP3 sq (d' m)) (pos1 pos2 : Iso3 K) :
    letI := fieldNum K sq
    queryClosestPoints d (liftIso3 pos1) (liftIso3 pos2) = liftCP3 sq (queryClosestPoints d' pos1 pos2) := by
  simp only [queryClosestPoints, optsimp, hd]

/-- **C20 (`query::contact`)**: `inv_mul`, then `transform_by_mut(pos1, pos2)`. -/
theorem defined_queryContact (d : Iso3 (Opt K sq) → Option (Contact3 (Opt K sq))) (d' : Iso3 K → Option (Contact3 K))
    (hd : ∀ m, d (liftIso3 m) = (d' m).map (liftContact3 sq)) (pos1 pos2 : Iso3 K) :
    letI := fieldNum K sq
    queryContact d (liftIso3 pos1) (liftIso3 pos2) = (queryContact d' pos1 pos2).map (liftContact3 sq) := by
  letI := fieldNum K sq
  simp only [queryContact, optsimp, hd, Option.map_map]
  rfl

/-- **C20 (`query::cast_shapes`)**: `pos12 = pos1.inv_mul(pos2)`, `vel12 = pos1⁻¹ (vel2 - vel1)` (zero relative
velocity included): defined wherever the dispatcher-level cast `d` is. -/
theorem defined_queryCastShapes {α β : Type} (L : β → α) (d : Iso3 (Opt K sq) → V3 (Opt K sq) → α)
    (d' : Iso3 K → V3 K → β) (hd : ∀ m v, d (liftIso3 m) (lift3 v) = L (d' m v)) (pos1 pos2 : Iso3 K)
    (vel1 vel2 : V3 K) :
    letI := fieldNum K sq
    queryCastShapes d (liftIso3 pos1) (lift3 vel1) (liftIso3 pos2) (lift3 vel2)
      = L (queryCastShapes d' pos1 vel1 pos2 vel2) := by
  simp only [queryCastShapes, optsimp, hd]

/-- **C20 (`query::contact`, `query::distance` / `intersection_test`, dim2)**. -/
theorem defined_queryContact2 {α β : Type} (L : β → α) (e : Iso2 (Opt K sq) → α) (e' : Iso2 K → β)
    (he : ∀ m, e (liftIso2 m) = L (e' m))
    (d : Iso2 (Opt K sq) → Option (Contact2 (Opt K sq))) (d' : Iso2 K → Option (Contact2 K))
    (hd : ∀ m, d (liftIso2 m) = (d' m).map (liftContact2 sq)) (pos1 pos2 : Iso2 K) :
    letI := fieldNum K sq
    queryContact2 d (liftIso2 pos1) (liftIso2 pos2) = (queryContact2 d' pos1 pos2).map (liftContact2 sq) ∧
    queryScalar2 e (liftIso2 pos1) (liftIso2 pos2) = L (queryScalar2 e' pos1 pos2) := by
  letI := fieldNum K sq
  refine ⟨?_, ?_⟩
  · simp only [queryContact2, optsimp, hd, Option.map_map]
    rfl
  · simp only [queryScalar2, optsimp, he]

/-! ## The closed-form corner of the dispatcher, and the four verdicts of C02 -/

/-- side condition of `contact`: for a ball/ball pair the squared centre distance is zero (coincident centres) or above
the threshold of the square-root operation; vacuous for every other pair, and for `θ = 0`. -/
def ContactSide (θ : K) : Shape3 K → Shape3 K → Iso3 K → Prop
  | .ball _, .ball _, m => letI := fieldNum K sq; m.t.normSq = 0 ∨ θ < m.t.normSq
  | _, _, _ => True
def ContactSide2 (θ : K) : Shape2 K → Shape2 K → Iso2 K → Prop
  | .ball _, .ball _, m => letI := fieldNum K sq; m.t.normSq = 0 ∨ θ < m.t.normSq
  | _, _, _ => True
/-- side condition of `closest_points`: ball/ball: `r1 + r2 ≥ 0`; half-space/ball: the half-space normal is not (nearly)
zero (a `Unit` normal has `|n|² = 1`); vacuous for the cuboid pairs. -/
def ClosestPointsSide (θ : K) : Shape3 K → Shape3 K → Prop
  | .ball r1, .ball r2 => 0 ≤ r1 + r2
  | .halfspace n, .ball _ => letI := fieldNum K sq; θ < n.normSq
  | .ball _, .halfspace n => letI := fieldNum K sq; θ < n.normSq
  | _, _ => True

/-- **C20 (`DefaultQueryDispatcher::contact` on ball/ball, half-space/{ball, cuboid}, {ball, cuboid}/half-space)**:
defined for every finite shapes (zero radius, zero half-extents, non-unit normals), pose and prediction under the
ball/ball no-underflow side condition only; the other pairs (`none`: another route) are `none` on both sides. -/
theorem defined_detailsContact {θ : K} (hs : SqrtPos sq θ) (s1 s2 : Shape3 K) (pos12 : Iso3 K) (prediction : K)
    (hu : ContactSide sq θ s1 s2 pos12) :
    letI := fieldNum K sq
    detailsContact (liftQShape3 sq s1) (liftQShape3 sq s2) (liftIso3 pos12) (val prediction)
      = (detailsContact s1 s2 pos12 prediction).map (Option.map (liftContact3 sq)) := by
  letI := fieldNum K sq
  rcases s1 with r1 | he1 | n1 <;> rcases s2 with r2 | he2 | n2
  · exact congrArg some (defined_contactBallBall sq hs _ _ _ _ hu)
  · rfl
  · exact congrArg some (defined_contactSH sq _ _ _ _ _ (defined_ballSupportMap_supportToward sq r1 _ _ Iso2.identity V2.zero).1)
  · rfl
  · rfl
  · exact congrArg some (defined_contactSH sq _ _ _ _ _ (defined_cuboidSupportMap sq _ _ _).1)
  · exact congrArg some (defined_contactHS sq _ _ _ _ _ (defined_ballSupportMap_supportToward sq r2 _ _ Iso2.identity V2.zero).1)
  · exact congrArg some (defined_contactHS sq _ _ _ _ _ (defined_cuboidSupportMap sq _ _ _).1)
  · rfl

/-- **C20 (`DefaultQueryDispatcher::contact`, dim2)**. -/
theorem defined_detailsContact2 {θ : K} (hs : SqrtPos sq θ) (s1 s2 : Shape2 K) (pos12 : Iso2 K) (prediction : K)
    (hu : ContactSide2 sq θ s1 s2 pos12) :
    letI := fieldNum K sq
    detailsContact2 (liftQShape2 sq s1) (liftQShape2 sq s2) (liftIso2 pos12) (val prediction)
      = (detailsContact2 s1 s2 pos12 prediction).map (Option.map (liftContact2 sq)) := by
  letI := fieldNum K sq
  rcases s1 with r1 | he1 | n1 <;> rcases s2 with r2 | he2 | n2
  · exact congrArg some (defined_contactBallBall2 sq hs _ _ _ _ hu)
  · rfl
  · exact congrArg some (defined_contactSH2 sq _ _ _ _ _ (defined_ballSupportMap_supportToward sq r1 Iso3.identity V3.zero _ _).2)
  · rfl
  · rfl
  · exact congrArg some (defined_contactSH2 sq _ _ _ _ _ (defined_cuboidSupportMap2 sq _ _ _).1)
  · exact congrArg some (defined_contactHS2 sq _ _ _ _ _ (defined_ballSupportMap_supportToward sq r2 Iso3.identity V3.zero _ _).2)
  · exact congrArg some (defined_contactHS2 sq _ _ _ _ _ (defined_cuboidSupportMap2 sq _ _ _).1)
  · rfl

/-- **C20 (`DefaultQueryDispatcher::{distance, intersection_test}` on the closed-form pairs)**: defined for **every**
finite shapes and pose, no side condition (coincident centres, zero radii, zero half-extents, touching). -/
theorem defined_detailsDistance (s1 s2 : Shape3 K) (pos12 : Iso3 K) :
    letI := fieldNum K sq
    detailsDistance (liftQShape3 sq s1) (liftQShape3 sq s2) (liftIso3 pos12)
      = (detailsDistance s1 s2 pos12).map val ∧
    detailsIntersectionTest (liftQShape3 sq s1) (liftQShape3 sq s2) (liftIso3 pos12)
      = detailsIntersectionTest s1 s2 pos12 := by
  letI := fieldNum K sq
  rcases s1 with r1 | he1 | n1 <;> rcases s2 with r2 | he2 | n2
  · exact ⟨congrArg some (defined_distanceBallBall sq _ _ _), congrArg some (defined_intersectionTestBallBall sq _ _ _)⟩
  · exact ⟨rfl, rfl⟩
  · have h := defined_distanceSH sq pos12 n2 _ _
      (defined_ballSupportMap_supportToward sq r1 pos12.inverse n2.neg Iso2.identity V2.zero).1
    exact ⟨congrArg some h.1, congrArg some h.2⟩
  · exact ⟨rfl, rfl⟩
  · exact ⟨rfl, rfl⟩
  · have h := defined_distanceSH sq pos12 n2 _ _ (defined_cuboidSupportMap sq he1 pos12.inverse n2.neg).1
    exact ⟨congrArg some h.1, congrArg some h.2⟩
  · have h := defined_distanceHS sq pos12 n1 _ _
      (defined_ballSupportMap_supportToward sq r2 pos12 n1.neg Iso2.identity V2.zero).1
    exact ⟨congrArg some h.1, congrArg some h.2⟩
  · have h := defined_distanceHS sq pos12 n1 _ _ (defined_cuboidSupportMap sq he2 pos12 n1.neg).1
    exact ⟨congrArg some h.1, congrArg some h.2⟩
  · exact ⟨rfl, rfl⟩

/-- **C20 (`DefaultQueryDispatcher::closest_points` on the closed-form pairs)**: defined under `ClosestPointsSide`
(non-negative radius sum; non-degenerate half-space normal against a ball), any margin (negative = panic = `none`). -/
theorem defined_detailsClosestPoints {θ : K} (hs : SqrtPos sq θ) (s1 s2 : Shape3 K) (pos12 : Iso3 K) (margin : K)
    (hc : ClosestPointsSide sq θ s1 s2) :
    letI := fieldNum K sq
    detailsClosestPoints (liftQShape3 sq s1) (liftQShape3 sq s2) (liftIso3 pos12) (val margin)
      = (detailsClosestPoints s1 s2 pos12 margin).map (Option.map (liftCP3 sq)) := by
  letI := fieldNum K sq
  rcases s1 with r1 | he1 | n1 <;> rcases s2 with r2 | he2 | n2
  · exact congrArg some (defined_closestPointsBallBall sq _ _ _ _ (Or.inl hc))
  · rfl
  · exact congrArg some (defined_closestPointsSH sq _ _ _ _ _
      (defined_ballSupportMap_support sq hs _ _ _ (by rw [neg_normSq3]; exact hc)))
  · rfl
  · rfl
  · exact congrArg some (defined_closestPointsSH sq _ _ _ _ _ (defined_cuboidSupportMap sq _ _ _).2)
  · exact congrArg some (defined_closestPointsHS sq _ _ _ _ _
      (defined_ballSupportMap_support sq hs _ _ _ (by rw [neg_normSq3]; exact hc)))
  · exact congrArg some (defined_closestPointsHS sq _ _ _ _ _ (defined_cuboidSupportMap sq _ _ _).2)
  · rfl

@[optsimp] private theorem liftCP3_isIntersecting (c : ClosestPoints3 K) :
    (liftCP3 sq c).isIntersecting = c.isIntersecting := by cases c <;> rfl
@[optsimp] private theorem liftContact3_nonPositive (c : Option (Contact3 K)) :
    letI := fieldNum K sq
    contactNonPositive (c.map (liftContact3 sq)) = contactNonPositive c := by
  cases c <;> rfl

private theorem mkVerdicts_lift (it : Option Bool) (d : Option K) (cp : Option (Option (ClosestPoints3 K)))
    (c : Option (Option (Contact3 K))) :
    letI := fieldNum K sq
    mkVerdicts it (d.map (val : K → Opt K sq)) (cp.map (Option.map (liftCP3 sq)))
        (c.map (Option.map (liftContact3 sq)))
      = mkVerdicts it d cp c := by
  letI := fieldNum K sq
  rcases it with _ | it <;> rcases d with _ | d <;> rcases cp with _ | _ | cp <;> rcases c with _ | c <;> try rfl
  simp only [Option.map_some, mkVerdicts, val_neq, val_zero, liftCP3_isIntersecting, liftContact3_nonPositive]

/-- **C20 (the four overlap verdicts of C02: `intersection_test`, `distance == 0`, `closest_points == Intersecting`,
`contact.dist ≤ 0`)**: on every closed-form pair the NaN-propagating evaluation gives *the same four booleans* (or the
same `none`) as the exact one — in particular none of the verdicts is decided by a comparison with a NaN — for every
finite pose, margin and prediction (0 included), coincident centres, zero radii and touching configurations, under the
two side conditions. -/
theorem defined_verdicts {θ : K} (hs : SqrtPos sq θ) (s1 s2 : Shape3 K) (pos12 : Iso3 K) (margin prediction : K)
    (hu : ContactSide sq θ s1 s2 pos12) (hc : ClosestPointsSide sq θ s1 s2) :
    letI := fieldNum K sq
    verdicts (liftQShape3 sq s1) (liftQShape3 sq s2) (liftIso3 pos12) (val margin) (val prediction)
      = verdicts s1 s2 pos12 margin prediction := by
  letI := fieldNum K sq
  simp only [verdicts, defined_detailsContact sq hs s1 s2 pos12 prediction hu,
    defined_detailsClosestPoints sq hs s1 s2 pos12 margin hc, (defined_detailsDistance sq s1 s2 pos12).1,
    (defined_detailsDistance sq s1 s2 pos12).2, mkVerdicts_lift]

/-- the side conditions are satisfiable on non-trivial input: a lawful square root (`θ = 0`), two unit balls at distance
`3` / a unit normal -/
example : ContactSide (fun x : ℚ => x) 0 (.ball 1) (.ball 1) ⟨0, 0, 0, 1, ⟨3, 0, 0⟩⟩ ∧
    ClosestPointsSide (fun x : ℚ => x) 0 (.ball 1) (.ball 1) ∧
    ClosestPointsSide (fun x : ℚ => x) 0 (.halfspace ⟨0, 1, 0⟩) (.ball 1) := by
  refine ⟨Or.inr ?_, ?_, ?_⟩ <;> simp [ClosestPointsSide, V3.normSq, V3.dot]


/-! # C06: closed-form shape casts (`Model.SC`)

Corners named by the property: **zero relative velocity** (`a = |vel|² = 0` is tested before anything is divided by
`a`), **coincident centres** (the normal falls back to the `x`-axis: `Unit::try_new(dpt, ε)` fails), `r1 + r2 = 0`,
`target_distance = 0` and `> 0`, **motion parallel to the plane** (`normal·vel == 0` is tested before `t = dnd / den`). -/

/-! ### liftings of the C06 data types -/
def liftSCOpts (o : SC.Opts K) : SC.Opts (Opt K sq) := ⟨val o.maxToi, val o.target, o.stop, o.cig⟩
def liftSCHit3 (h : SC.Hit (V3 K) K) : SC.Hit (V3 (Opt K sq)) (Opt K sq) :=
  ⟨val h.toi, lift3 h.w1, lift3 h.w2, lift3 h.n1, lift3 h.n2, h.status⟩
def liftSCHit2 (h : SC.Hit (V2 K) K) : SC.Hit (V2 (Opt K sq)) (Opt K sq) :=
  ⟨val h.toi, lift2 h.w1, lift2 h.w2, lift2 h.n1, lift2 h.n2, h.status⟩
def liftSCSM3 : SC.SM3 K → SC.SM3 (Opt K sq)
  | .ball r => .ball (val r)
  | .cuboid he => .cuboid (lift3 he)
def liftSCSM2 : SC.SM2 K → SC.SM2 (Opt K sq)
  | .ball r => .ball (val r)
  | .cuboid he => .cuboid (lift2 he)
def liftSCShape3 : SC.Shape3 K → SC.Shape3 (Opt K sq)
  | .ball r => .ball (val r)
  | .cuboid he => .cuboid (lift3 he)
  | .halfspace n => .halfspace (lift3 n)
def liftSCShape2 : SC.Shape2 K → SC.Shape2 (Opt K sq)
  | .ball r => .ball (val r)
  | .cuboid he => .cuboid (lift2 he)
  | .halfspace n => .halfspace (lift2 n)
/-- result of `ray_toi_with_ball`: `(inside, Option<toi>)` -/
def liftSCRayBall (r : Bool × Option K) : Bool × Option (Opt K sq) := (r.1, r.2.map val)
/-- `(normal1, normal2, witness1, witness2)` -/
def liftSCQuad3 (g : V3 K × V3 K × V3 K × V3 K) :
    V3 (Opt K sq) × V3 (Opt K sq) × V3 (Opt K sq) × V3 (Opt K sq) :=
  (lift3 g.1, lift3 g.2.1, lift3 g.2.2.1, lift3 g.2.2.2)
def liftSCQuad2 (g : V2 K × V2 K × V2 K × V2 K) :
    V2 (Opt K sq) × V2 (Opt K sq) × V2 (Opt K sq) × V2 (Opt K sq) :=
  (lift2 g.1, lift2 g.2.1, lift2 g.2.2.1, lift2 g.2.2.2)
def liftSCMotion3 (m : SC.Motion3 K) : SC.Motion3 (Opt K sq) :=
  ⟨liftIso3 m.start, lift3 m.localCenter, lift3 m.linvel⟩
def liftSCMotion2 (m : SC.Motion2 K) : SC.Motion2 (Opt K sq) :=
  ⟨liftIso2 m.start, lift2 m.localCenter, lift2 m.linvel⟩

@[optsimp] private theorem sc_eps_val : letI := fieldNum K sq; (SC.eps : Opt K sq) = val (SC.eps : K) := id rfl
@[optsimp] private theorem sc_xAxis3 : letI := fieldNum K sq; (SC.xAxis3 : V3 (Opt K sq)) = lift3 SC.xAxis3 := id rfl
@[optsimp] private theorem sc_xAxis2 : letI := fieldNum K sq; (SC.xAxis2 : V2 (Opt K sq)) = lift2 SC.xAxis2 := id rfl
@[optsimp] private theorem liftSCHit3_mk (t : K) (a b c d : V3 K) (s : SC.Status) :
    (⟨val t, lift3 a, lift3 b, lift3 c, lift3 d, s⟩ : SC.Hit (V3 (Opt K sq)) (Opt K sq))
      = liftSCHit3 sq ⟨t, a, b, c, d, s⟩ := id rfl
@[optsimp] private theorem liftSCHit2_mk (t : K) (a b c d : V2 K) (s : SC.Status) :
    (⟨val t, lift2 a, lift2 b, lift2 c, lift2 d, s⟩ : SC.Hit (V2 (Opt K sq)) (Opt K sq))
      = liftSCHit2 sq ⟨t, a, b, c, d, s⟩ := id rfl
@[optsimp] private theorem liftSCHit3_swapped (h : SC.Hit (V3 K) K) :
    (liftSCHit3 sq h).swapped = liftSCHit3 sq h.swapped := id rfl
@[optsimp] private theorem liftSCHit2_swapped (h : SC.Hit (V2 K) K) :
    (liftSCHit2 sq h).swapped = liftSCHit2 sq h.swapped := id rfl
/-- a literal at `Opt` is the injected literal of the field instance (used *before* `optsimp`, so that both sides of
the goal keep the same `lit n d` and `split_ifs` recognises the two conditions as one) -/
private theorem lit_val' (n : Int) (d : Nat) :
    letI := fieldNum K sq; (lit n d : Opt K sq) = val (lit n d : K) := id rfl

/-! ## `signbit`, `copy_sign_to`, `normalize`, `Unit::try_new` -/

/-- **C20 (IEEE sign bit, `copy_sign_to` of C06)**: `x < 0 || (x == 0 && 1/x < 0)`: defined for every finite `x` —
**`x = 0` included** (`1/0` is NaN at `Opt`, `0` in the field; both compare false with `< 0`; at `Float` this branch
reads the sign of the zero).  The quotient never reaches an output. -/
theorem defined_sc_signbit (x d t : K) :
    letI := fieldNum K sq
    SC.signbit (val x : Opt K sq) = SC.signbit x ∧
    SC.copysign (val d : Opt K sq) (val t) = val (SC.copysign d t) := by
  letI := fieldNum K sq
  have h : ∀ y : K, SC.signbit (val y : Opt K sq) = SC.signbit y := fun y => by
    simp only [SC.signbit, val_one, val_zero, val_one_div_lt_zero, val_lt, val_neq]
  refine ⟨h x, ?_⟩
  simp only [SC.copysign, h, val_nabs, val_neg]
  split_ifs <;> rfl

private theorem defined_sc_copysign3 (d t : V3 K) :
    letI := fieldNum K sq
    SC.copysign3 (lift3 d : V3 (Opt K sq)) (lift3 t) = lift3 (SC.copysign3 d t) := by
  simp only [SC.copysign3, optsimp, (defined_sc_signbit sq 0 _ _).2]
private theorem defined_sc_copysign2 (d t : V2 K) :
    letI := fieldNum K sq
    SC.copysign2 (lift2 d : V2 (Opt K sq)) (lift2 t) = lift2 (SC.copysign2 d t) := by
  simp only [SC.copysign2, optsimp, (defined_sc_signbit sq 0 _ _).2]

/-- **C20 (`Unit::new_normalize`, 3-D / 2-D)**: defined exactly when the square-root operation does not vanish at
`|v|²` (for a lawful square root: `v ≠ 0`).  The zero vector gives `0/0`. -/
theorem defined_sc_normalize (v3 : V3 K) (v2 : V2 K) :
    letI := fieldNum K sq
    (sq v3.normSq ≠ 0 → SC.normalize3 (lift3 v3 : V3 (Opt K sq)) = lift3 (SC.normalize3 v3)) ∧
    (sq v2.normSq ≠ 0 → SC.normalize2 (lift2 v2 : V2 (Opt K sq)) = lift2 (SC.normalize2 v2)) :=
  ⟨fun h => lift3_normalize v3 h, fun h => lift2_normalize v2 h⟩

/-- **C20 (`Unit::try_new(v, min_norm)`, 3-D)**: defined for **every** finite `v` — the zero vector and vectors shorter
than `min_norm` included (`None`) — the division by `sqrt |v|²` happens only after `min_norm² < |v|²`, so it is enough
that the square-root operation does not vanish above `min_norm²` (`θ ≤ min_norm²`; `θ = 0` for a lawful root). -/
theorem defined_sc_tryNormalize3 {θ : K} (hs : SqrtPos sq θ) (v : V3 K) (minNorm : K) (hθ : θ ≤ minNorm * minNorm) :
    letI := fieldNum K sq
    SC.tryNormalize3 (lift3 v : V3 (Opt K sq)) (val minNorm) = (SC.tryNormalize3 v minNorm).map lift3 := by
  letI := fieldNum K sq
  simp only [SC.tryNormalize3, optsimp]
  split_ifs with h1 h2
  · exfalso; exact absurd (normSq3_nonneg (sq := sq) v) (not_le.mpr h2)
  · simp only [optsimp, if_neg (hs.ne (lt_of_le_of_lt hθ h1))]
  · rfl
/-- **C20 (`Unit::try_new`, 2-D)**. -/
theorem defined_sc_tryNormalize2 {θ : K} (hs : SqrtPos sq θ) (v : V2 K) (minNorm : K) (hθ : θ ≤ minNorm * minNorm) :
    letI := fieldNum K sq
    SC.tryNormalize2 (lift2 v : V2 (Opt K sq)) (val minNorm) = (SC.tryNormalize2 v minNorm).map lift2 := by
  letI := fieldNum K sq
  simp only [SC.tryNormalize2, optsimp]
  split_ifs with h1 h2
  · exfalso; exact absurd (normSq2_nonneg (sq := sq) v) (not_le.mpr h2)
  · simp only [optsimp, if_neg (hs.ne (lt_of_le_of_lt hθ h1))]
  · rfl

/-! ## `ray_toi_with_ball` (C06 copy) -/

/-- **C20 (`ray_toi_with_ball`, scalar core)**: defined for **all** finite `a b c` and both flags, no hypothesis:
**`a = 0` (zero direction / zero relative velocity) is tested first** and returns without dividing; otherwise the
divisor is `a ≠ 0`, and `sqrt delta` is taken only after `delta < 0` has been excluded. -/
theorem defined_sc_rayBallCore (a b c : K) (solid : Bool) :
    letI := fieldNum K sq
    SC.rayBallCore (val a : Opt K sq) (val b) (val c) solid = liftSCRayBall sq (SC.rayBallCore a b c solid) := by
  letI := fieldNum K sq
  by_cases ha : a = 0
  · simp only [SC.rayBallCore, optsimp, ha]
    split_ifs <;> rfl
  · by_cases hd : b * b - a * c < 0
    · simp only [SC.rayBallCore, optsimp, if_neg ha, if_pos hd]
      split_ifs <;> rfl
    · simp only [SC.rayBallCore, optsimp, if_neg ha, if_neg hd]
      split_ifs <;> rfl

/-- **C20 (`ray_toi_with_ball`, 3-D and 2-D)**: every finite centre, radius (any sign, **zero**), origin (inside, on the
sphere, at the centre) and direction (**zero**, non-unit), both `solid` flags. -/
theorem defined_sc_rayToiWithBall (solid : Bool) (c3 o3 d3 : V3 K) (c2 o2 d2 : V2 K) (r : K) :
    letI := fieldNum K sq
    SC.rayToiWithBall3 (lift3 c3 : V3 (Opt K sq)) (val r) (lift3 o3) (lift3 d3) solid
      = liftSCRayBall sq (SC.rayToiWithBall3 c3 r o3 d3 solid) ∧
    SC.rayToiWithBall2 (lift2 c2 : V2 (Opt K sq)) (val r) (lift2 o2) (lift2 d2) solid
      = liftSCRayBall sq (SC.rayToiWithBall2 c2 r o2 d2 solid) := by
  refine ⟨?_, ?_⟩
  · simp only [SC.rayToiWithBall3, optsimp, defined_sc_rayBallCore]
  · simp only [SC.rayToiWithBall2, optsimp, defined_sc_rayBallCore]

/-! ## `cast_shapes_ball_ball` -/

/-- normals and witnesses of the fixed `cast_shapes_ball_ball`: `Unit::try_new(dpt, ε).unwrap_or(x_axis)` — defined for
every `dpt`, **`dpt = 0` (coincident centres at the time of impact) included**. -/
theorem defined_sc_ballBallGeom3 {θ : K} (hs : SqrtPos sq θ)
    (hθ : letI := fieldNum K sq; θ ≤ (SC.eps : K) * SC.eps) (pos12 : Iso3 K) (dpt : V3 K) (radius r1 r2 : K) :
    letI := fieldNum K sq
    SC.ballBallGeom3 (liftIso3 pos12) (lift3 dpt) (val radius : Opt K sq) (val r1) (val r2)
      = liftSCQuad3 sq (SC.ballBallGeom3 pos12 dpt radius r1 r2) := by
  letI := fieldNum K sq
  simp only [SC.ballBallGeom3, optsimp, defined_sc_tryNormalize3 sq hs dpt SC.eps hθ]
  cases SC.tryNormalize3 dpt SC.eps <;> simp only [Option.map, optsimp, liftSCQuad3]
/-- 2-D version of `defined_sc_ballBallGeom3`. -/
theorem defined_sc_ballBallGeom2 {θ : K} (hs : SqrtPos sq θ)
    (hθ : letI := fieldNum K sq; θ ≤ (SC.eps : K) * SC.eps) (pos12 : Iso2 K) (dpt : V2 K) (radius r1 r2 : K) :
    letI := fieldNum K sq
    SC.ballBallGeom2 (liftIso2 pos12) (lift2 dpt) (val radius : Opt K sq) (val r1) (val r2)
      = liftSCQuad2 sq (SC.ballBallGeom2 pos12 dpt radius r1 r2) := by
  letI := fieldNum K sq
  simp only [SC.ballBallGeom2, optsimp, defined_sc_tryNormalize2 sq hs dpt SC.eps hθ]
  cases SC.tryNormalize2 dpt SC.eps <;> simp only [Option.map, optsimp, liftSCQuad2]

/-- the pinned geometry `dpt / radius` ("x-axis if `radius == 0`"): the division is guarded by `radius == 0`
(**`r1 + r2 + target = 0` covered**), so it is defined for every finite input with no hypothesis at all (its defect
was a non-unit normal, not a NaN). -/
theorem defined_sc_ballBallGeomPinned (p3 : Iso3 K) (d3 : V3 K) (p2 : Iso2 K) (d2 : V2 K) (radius r1 r2 : K) :
    letI := fieldNum K sq
    SC.ballBallGeomPinned3 (liftIso3 p3) (lift3 d3) (val radius : Opt K sq) (val r1) (val r2)
      = liftSCQuad3 sq (SC.ballBallGeomPinned3 p3 d3 radius r1 r2) ∧
    SC.ballBallGeomPinned2 (liftIso2 p2) (lift2 d2) (val radius : Opt K sq) (val r1) (val r2)
      = liftSCQuad2 sq (SC.ballBallGeomPinned2 p2 d2 radius r1 r2) := by
  letI := fieldNum K sq
  refine ⟨?_, ?_⟩
  · simp only [SC.ballBallGeomPinned3, optsimp]
    split_ifs with h
    · simp only [liftSCQuad3]
    · simp only [optsimp, if_neg h, liftSCQuad3]
  · simp only [SC.ballBallGeomPinned2, optsimp]
    split_ifs with h
    · simp only [liftSCQuad2]
    · simp only [optsimp, if_neg h, liftSCQuad2]

/-- **C20 (`cast_shapes_ball_ball` around any defined normal/witness computation `geom`, 3-D)**: the ray cast on the
Minkowski ball, the `max_time_of_impact` cut, the `toi < 1e-5` separating-motion filter and the status are defined for
every finite pose, velocity (**zero**), radii, options. -/
theorem defined_sc_castBallBallWith3
    (geom : Iso3 (Opt K sq) → V3 (Opt K sq) → Opt K sq → Opt K sq → Opt K sq →
      V3 (Opt K sq) × V3 (Opt K sq) × V3 (Opt K sq) × V3 (Opt K sq))
    (geom' : Iso3 K → V3 K → K → K → K → V3 K × V3 K × V3 K × V3 K)
    (pos12 : Iso3 K) (vel12 : V3 K) (r1 r2 : K) (o : SC.Opts K)
    (hg : ∀ dpt radius, geom (liftIso3 pos12) (lift3 dpt) (val radius) (val r1) (val r2)
      = liftSCQuad3 sq (geom' pos12 dpt radius r1 r2)) :
    letI := fieldNum K sq
    SC.castBallBallWith3 geom (liftIso3 pos12) (lift3 vel12) (val r1) (val r2) (liftSCOpts sq o)
      = (SC.castBallBallWith3 geom' pos12 vel12 r1 r2 o).map (liftSCHit3 sq) := by
  letI := fieldNum K sq
  simp only [SC.castBallBallWith3, lit_val' sq]
  simp only [liftSCOpts, optsimp, (defined_sc_rayToiWithBall sq true _ _ _ V2.zero V2.zero V2.zero _).1]
  generalize SC.rayToiWithBall3 pos12.t.neg (r1 + r2 + o.target) V3.zero vel12 true = r
  rcases r with ⟨inside, _ | toi⟩
  · rfl
  · simp only [liftSCRayBall, Option.map_some, optsimp, hg]
    generalize geom' pos12 _ _ r1 r2 = g
    rcases g with ⟨n1, n2, w1, w2⟩
    simp only [liftSCQuad3, optsimp]
    split_ifs <;> rfl
/-- **C20 (`cast_shapes_ball_ball` around any defined `geom`, 2-D)**: as `defined_sc_castBallBallWith3`. -/
theorem defined_sc_castBallBallWith2
    (geom : Iso2 (Opt K sq) → V2 (Opt K sq) → Opt K sq → Opt K sq → Opt K sq →
      V2 (Opt K sq) × V2 (Opt K sq) × V2 (Opt K sq) × V2 (Opt K sq))
    (geom' : Iso2 K → V2 K → K → K → K → V2 K × V2 K × V2 K × V2 K)
    (pos12 : Iso2 K) (vel12 : V2 K) (r1 r2 : K) (o : SC.Opts K)
    (hg : ∀ dpt radius, geom (liftIso2 pos12) (lift2 dpt) (val radius) (val r1) (val r2)
      = liftSCQuad2 sq (geom' pos12 dpt radius r1 r2)) :
    letI := fieldNum K sq
    SC.castBallBallWith2 geom (liftIso2 pos12) (lift2 vel12) (val r1) (val r2) (liftSCOpts sq o)
      = (SC.castBallBallWith2 geom' pos12 vel12 r1 r2 o).map (liftSCHit2 sq) := by
  letI := fieldNum K sq
  simp only [SC.castBallBallWith2, lit_val' sq]
  simp only [liftSCOpts, optsimp, (defined_sc_rayToiWithBall sq true V3.zero V3.zero V3.zero _ _ _ _).2]
  generalize SC.rayToiWithBall2 pos12.t.neg (r1 + r2 + o.target) V2.zero vel12 true = r
  rcases r with ⟨inside, _ | toi⟩
  · rfl
  · simp only [liftSCRayBall, Option.map_some, optsimp, hg]
    generalize geom' pos12 _ _ r1 r2 = g
    rcases g with ⟨n1, n2, w1, w2⟩
    simp only [liftSCQuad2, optsimp]
    split_ifs <;> rfl

/-- **C20 (`cast_shapes_ball_ball`, 3-D, as fixed in /repo)**: defined for **every** finite pose, relative velocity,
radii (any sign) and options — **zero relative velocity** (`a = 0`: the static overlap test, no division),
**coincident centres** at time 0 (`dpt = 0`: `x`-axis normal, witnesses `±r·x`), `r1 + r2 = 0`, `target_distance = 0`,
tangent start, `max_time_of_impact = 0`.  Only requirement: the square-root operation does not vanish above
`ε² = 2⁻¹⁰⁴` (`θ = 0` for a lawful root).  Replayed on the real crate: `C06 ballball3` with zero pose offset, zero
velocity and radii `0,0` / `1,1` returns finite hits (normal `(1,0,0)`). -/
theorem defined_sc_castBallBall3 {θ : K} (hs : SqrtPos sq θ)
    (hθ : letI := fieldNum K sq; θ ≤ (SC.eps : K) * SC.eps)
    (pos12 : Iso3 K) (vel12 : V3 K) (r1 r2 : K) (o : SC.Opts K) :
    letI := fieldNum K sq
    SC.castBallBall3 (liftIso3 pos12) (lift3 vel12) (val r1) (val r2) (liftSCOpts sq o)
      = (SC.castBallBall3 pos12 vel12 r1 r2 o).map (liftSCHit3 sq) :=
  defined_sc_castBallBallWith3 sq _ _ pos12 vel12 r1 r2 o
    (fun dpt radius => defined_sc_ballBallGeom3 sq hs hθ pos12 dpt radius r1 r2)

/-- **C20 (`cast_shapes_ball_ball`, 2-D)**: as `defined_sc_castBallBall3`. -/
theorem defined_sc_castBallBall2 {θ : K} (hs : SqrtPos sq θ)
    (hθ : letI := fieldNum K sq; θ ≤ (SC.eps : K) * SC.eps)
    (pos12 : Iso2 K) (vel12 : V2 K) (r1 r2 : K) (o : SC.Opts K) :
    letI := fieldNum K sq
    SC.castBallBall2 (liftIso2 pos12) (lift2 vel12) (val r1) (val r2) (liftSCOpts sq o)
      = (SC.castBallBall2 pos12 vel12 r1 r2 o).map (liftSCHit2 sq) :=
  defined_sc_castBallBallWith2 sq _ _ pos12 vel12 r1 r2 o
    (fun dpt radius => defined_sc_ballBallGeom2 sq hs hθ pos12 dpt radius r1 r2)

/-- **C20 (`cast_shapes_ball_ball` as on the pinned tree)**: defined for every finite input, no hypothesis (the
`radius == 0` test guards `dpt / radius`). -/
theorem defined_sc_castBallBallPinned (pos12 : Iso3 K) (vel12 : V3 K) (p2 : Iso2 K) (v2 : V2 K) (r1 r2 : K)
    (o : SC.Opts K) :
    letI := fieldNum K sq
    SC.castBallBallPinned3 (liftIso3 pos12) (lift3 vel12) (val r1) (val r2) (liftSCOpts sq o)
      = (SC.castBallBallPinned3 pos12 vel12 r1 r2 o).map (liftSCHit3 sq) ∧
    SC.castBallBallPinned2 (liftIso2 p2) (lift2 v2) (val r1) (val r2) (liftSCOpts sq o)
      = (SC.castBallBallPinned2 p2 v2 r1 r2 o).map (liftSCHit2 sq) :=
  ⟨defined_sc_castBallBallWith3 sq _ _ pos12 vel12 r1 r2 o
      (fun dpt radius => (defined_sc_ballBallGeomPinned sq pos12 dpt p2 v2 radius r1 r2).1),
   defined_sc_castBallBallWith2 sq _ _ p2 v2 r1 r2 o
      (fun dpt radius => (defined_sc_ballBallGeomPinned sq pos12 vel12 p2 dpt radius r1 r2).2)⟩

/-- zero relative velocity, coincident centres, zero radii, `target = 0`: a finite hit at `NaNable` -/
theorem sc_castBallBall_all_zero_finite :
    (match SC.castBallBall3 (K := NaNable) ⟨some 0, some 0, some 0, some 1, ⟨some 0, some 0, some 0⟩⟩
        ⟨some 0, some 0, some 0⟩ (some 0) (some 0) ⟨some 1, some 0, true, false⟩ with
      | some h => (asRat h.n1.x == some 1) && (asRat h.toi == some 0) && (asRat h.w2.x).isSome
      | none => false) = true := by
  decide +kernel

/-! ## support points used by the half-space cast -/

/-- `local_support_point_toward` (ball: `u * r`; cuboid: `copy_sign_to`): every finite input. -/
theorem defined_sc_localSupportToward (s3 : SC.SM3 K) (u3 : V3 K) (s2 : SC.SM2 K) (u2 : V2 K) :
    letI := fieldNum K sq
    (liftSCSM3 sq s3).localSupportToward (lift3 u3) = lift3 (s3.localSupportToward u3) ∧
    (liftSCSM2 sq s2).localSupportToward (lift2 u2) = lift2 (s2.localSupportToward u2) := by
  refine ⟨?_, ?_⟩
  · cases s3 <;> simp only [liftSCSM3, SC.SM3.localSupportToward, optsimp, defined_sc_copysign3]
  · cases s2 <;> simp only [liftSCSM2, SC.SM2.localSupportToward, optsimp, defined_sc_copysign2]

/-- side condition of `support_point(m, d)`: only the ball normalises the direction (`|d|²` above the threshold of the
square-root operation; `d ≠ 0` for a lawful root); nothing for the cuboid (zero direction, zero half-extents fine). -/
def SCSupportSide3 (θ : K) : SC.SM3 K → V3 K → Prop
  | .ball _, d => letI := fieldNum K sq; θ < d.normSq
  | .cuboid _, _ => True
def SCSupportSide2 (θ : K) : SC.SM2 K → V2 K → Prop
  | .ball _, d => letI := fieldNum K sq; θ < d.normSq
  | .cuboid _, _ => True

/-- **C20 (`SupportMap::support_point` for `Ball` / `Cuboid`, 3-D)**. -/
theorem defined_sc_supportPoint3 {θ : K} (hs : SqrtPos sq θ) (s : SC.SM3 K) (m : Iso3 K) (d : V3 K)
    (hd : SCSupportSide3 sq θ s d) :
    letI := fieldNum K sq
    (liftSCSM3 sq s).supportPoint (liftIso3 m) (lift3 d) = lift3 (s.supportPoint m d) := by
  letI := fieldNum K sq
  cases s with
  | ball r => simp only [liftSCSM3, SC.SM3.supportPoint, optsimp, (defined_sc_normalize sq d V2.zero).1 (hs.ne hd)]
  | cuboid he => simp only [liftSCSM3, SC.SM3.supportPoint, optsimp, defined_sc_copysign3]
/-- **C20 (`SupportMap::support_point` for `Ball` / `Cuboid`, 2-D)**. -/
theorem defined_sc_supportPoint2 {θ : K} (hs : SqrtPos sq θ) (s : SC.SM2 K) (m : Iso2 K) (d : V2 K)
    (hd : SCSupportSide2 sq θ s d) :
    letI := fieldNum K sq
    (liftSCSM2 sq s).supportPoint (liftIso2 m) (lift2 d) = lift2 (s.supportPoint m d) := by
  letI := fieldNum K sq
  cases s with
  | ball r => simp only [liftSCSM2, SC.SM2.supportPoint, optsimp, (defined_sc_normalize sq V3.zero d).2 (hs.ne hd)]
  | cuboid he => simp only [liftSCSM2, SC.SM2.supportPoint, optsimp, defined_sc_copysign2]

/-- **C20 (`RoundShapeRef::support_point`, 3-D)**: normalises the *local* direction `m⁻¹ d` for either inner shape:
defined when `|m⁻¹ d|²` is above the threshold (`= |d|²` for a unit rotation, `invRot3_normSq`). -/
theorem defined_sc_roundSupportPoint3 {θ : K} (hs : SqrtPos sq θ) (s : SC.SM3 K) (border : K) (m : Iso3 K)
    (d : V3 K) (hd : letI := fieldNum K sq; θ < (m.invRot d).normSq) :
    letI := fieldNum K sq
    (liftSCSM3 sq s).roundSupportPoint (val border) (liftIso3 m) (lift3 d)
      = lift3 (s.roundSupportPoint border m d) := by
  letI := fieldNum K sq
  simp only [SC.SM3.roundSupportPoint, optsimp, (defined_sc_normalize sq _ V2.zero).1 (hs.ne hd),
    (defined_sc_localSupportToward sq s _ (.ball 0) V2.zero).1]
/-- **C20 (`RoundShapeRef::support_point`, 2-D)**. -/
theorem defined_sc_roundSupportPoint2 {θ : K} (hs : SqrtPos sq θ) (s : SC.SM2 K) (border : K) (m : Iso2 K)
    (d : V2 K) (hd : letI := fieldNum K sq; θ < (m.invRot d).normSq) :
    letI := fieldNum K sq
    (liftSCSM2 sq s).roundSupportPoint (val border) (liftIso2 m) (lift2 d)
      = lift2 (s.roundSupportPoint border m d) := by
  letI := fieldNum K sq
  simp only [SC.SM2.roundSupportPoint, optsimp, (defined_sc_normalize sq V3.zero _).2 (hs.ne hd),
    (defined_sc_localSupportToward sq (.ball 0) V3.zero s _).2]

/-! ## `HalfSpace::cast_local_ray`, `cast_shapes_halfspace_support_map` -/

/-- **C20 (`HalfSpace::cast_local_ray`, 3-D and 2-D, as fixed in /repo)**: defined for **every** finite normal, origin,
direction, `max_time_of_impact` and flag: **a ray parallel to the plane (`n·dir = 0`, in particular the zero
direction)** returns before `t = (n·dpos) / (n·dir)` is formed; origin on the plane covered. -/
theorem defined_sc_halfspaceCastLocalRay (n3 o3 d3 : V3 K) (n2 o2 d2 : V2 K) (maxToi : K) (solid : Bool) :
    letI := fieldNum K sq
    SC.halfspaceCastLocalRay3 (lift3 n3 : V3 (Opt K sq)) (lift3 o3) (lift3 d3) (val maxToi) solid
      = (SC.halfspaceCastLocalRay3 n3 o3 d3 maxToi solid).map val ∧
    SC.halfspaceCastLocalRay2 (lift2 n2 : V2 (Opt K sq)) (lift2 o2) (lift2 d2) (val maxToi) solid
      = (SC.halfspaceCastLocalRay2 n2 o2 d2 maxToi solid).map val := by
  letI := fieldNum K sq
  refine ⟨?_, ?_⟩
  · by_cases h : n3.dot d3 = 0
    · simp only [SC.halfspaceCastLocalRay3, optsimp, if_pos h]
      split_ifs <;> rfl
    · simp only [SC.halfspaceCastLocalRay3, optsimp, if_neg h]
      split_ifs <;> rfl
  · by_cases h : n2.dot d2 = 0
    · simp only [SC.halfspaceCastLocalRay2, optsimp, if_pos h]
      split_ifs <;> rfl
    · simp only [SC.halfspaceCastLocalRay2, optsimp, if_neg h]
      split_ifs <;> rfl

/-- side condition of the half-space cast: the support direction `-n` can be normalised — for `target_distance > 0`
in the local frame of the shape (`RoundShapeRef`), otherwise only for the ball.  Holds for a unit normal and a unit
rotation (`scCastHSSide3_of_unit`). -/
def SCCastHSSide3 (θ : K) (pos12 : Iso3 K) (n : V3 K) (s : SC.SM3 K) (o : SC.Opts K) : Prop :=
  letI := fieldNum K sq
  if 0 < o.target then θ < (pos12.invRot n.neg).normSq else SCSupportSide3 sq θ s n.neg
def SCCastHSSide2 (θ : K) (pos12 : Iso2 K) (n : V2 K) (s : SC.SM2 K) (o : SC.Opts K) : Prop :=
  letI := fieldNum K sq
  if 0 < o.target then θ < (pos12.invRot n.neg).normSq else SCSupportSide2 sq θ s n.neg

/-- **C20 (`cast_shapes_halfspace_support_map` with a ball or a cuboid, 3-D)**: defined for every finite pose, velocity —
**zero velocity and velocities parallel to the plane included** (`den = 0` is guarded in `cast_local_ray`) — shape
(zero radius / half-extents) and options (`target_distance = 0`, `> 0`, `max_time_of_impact = 0`, both
`stop_at_penetration`), the shape touching or penetrating the plane, under `SCCastHSSide3` (the normal is not
degenerate). -/
theorem defined_sc_castHalfspaceSM3 {θ : K} (hs : SqrtPos sq θ) (pos12 : Iso3 K) (vel12 n : V3 K) (s : SC.SM3 K)
    (o : SC.Opts K) (hc : SCCastHSSide3 sq θ pos12 n s o) :
    letI := fieldNum K sq
    SC.castHalfspaceSM3 (liftIso3 pos12) (lift3 vel12) (lift3 n) (liftSCSM3 sq s) (liftSCOpts sq o)
      = (SC.castHalfspaceSM3 pos12 vel12 n s o).map (liftSCHit3 sq) := by
  letI := fieldNum K sq
  unfold SCCastHSSide3 at hc
  have hray := fun sp => (defined_sc_halfspaceCastLocalRay sq n sp vel12 V2.zero V2.zero V2.zero o.maxToi true).1
  by_cases ht : 0 < o.target
  · rw [if_pos ht] at hc
    simp only [SC.castHalfspaceSM3, liftSCOpts, optsimp, if_pos ht,
      defined_sc_roundSupportPoint3 sq hs s o.target pos12 n.neg hc, hray]
    generalize SC.halfspaceCastLocalRay3 n _ vel12 o.maxToi true = r
    rcases r with _ | toi
    · split_ifs <;> rfl
    · simp only [Option.map_some, optsimp]
      split_ifs <;> rfl
  · rw [if_neg ht] at hc
    simp only [SC.castHalfspaceSM3, liftSCOpts, optsimp, if_neg ht,
      defined_sc_supportPoint3 sq hs s pos12 n.neg hc, hray]
    generalize SC.halfspaceCastLocalRay3 n _ vel12 o.maxToi true = r
    rcases r with _ | toi
    · split_ifs <;> rfl
    · simp only [Option.map_some, optsimp]
      split_ifs <;> rfl

/-- **C20 (`cast_shapes_halfspace_support_map`, 2-D)**. -/
theorem defined_sc_castHalfspaceSM2 {θ : K} (hs : SqrtPos sq θ) (pos12 : Iso2 K) (vel12 n : V2 K) (s : SC.SM2 K)
    (o : SC.Opts K) (hc : SCCastHSSide2 sq θ pos12 n s o) :
    letI := fieldNum K sq
    SC.castHalfspaceSM2 (liftIso2 pos12) (lift2 vel12) (lift2 n) (liftSCSM2 sq s) (liftSCOpts sq o)
      = (SC.castHalfspaceSM2 pos12 vel12 n s o).map (liftSCHit2 sq) := by
  letI := fieldNum K sq
  unfold SCCastHSSide2 at hc
  have hray := fun sp => (defined_sc_halfspaceCastLocalRay sq V3.zero V3.zero V3.zero n sp vel12 o.maxToi true).2
  by_cases ht : 0 < o.target
  · rw [if_pos ht] at hc
    simp only [SC.castHalfspaceSM2, liftSCOpts, optsimp, if_pos ht,
      defined_sc_roundSupportPoint2 sq hs s o.target pos12 n.neg hc, hray]
    generalize SC.halfspaceCastLocalRay2 n _ vel12 o.maxToi true = r
    rcases r with _ | toi
    · split_ifs <;> rfl
    · simp only [Option.map_some, optsimp]
      split_ifs <;> rfl
  · rw [if_neg ht] at hc
    simp only [SC.castHalfspaceSM2, liftSCOpts, optsimp, if_neg ht,
      defined_sc_supportPoint2 sq hs s pos12 n.neg hc, hray]
    generalize SC.halfspaceCastLocalRay2 n _ vel12 o.maxToi true = r
    rcases r with _ | toi
    · split_ifs <;> rfl
    · simp only [Option.map_some, optsimp]
      split_ifs <;> rfl

/-- **C20 (`cast_shapes_support_map_halfspace`, 3-D)**: the mirrored wrapper (`pos12⁻¹`, `-pos12⁻¹ vel12`, `swapped`). -/
theorem defined_sc_castSMHalfspace3 {θ : K} (hs : SqrtPos sq θ) (pos12 : Iso3 K) (vel12 n : V3 K) (s : SC.SM3 K)
    (o : SC.Opts K) (hc : letI := fieldNum K sq; SCCastHSSide3 sq θ pos12.inverse n s o) :
    letI := fieldNum K sq
    SC.castSMHalfspace3 (liftIso3 pos12) (lift3 vel12) (liftSCSM3 sq s) (lift3 n) (liftSCOpts sq o)
      = (SC.castSMHalfspace3 pos12 vel12 s n o).map (liftSCHit3 sq) := by
  letI := fieldNum K sq
  simp only [SC.castSMHalfspace3, optsimp,
    defined_sc_castHalfspaceSM3 sq hs pos12.inverse (pos12.invRot vel12).neg n s o hc, Option.map_map]
  rfl
/-- **C20 (`cast_shapes_support_map_halfspace`, 2-D)**. -/
theorem defined_sc_castSMHalfspace2 {θ : K} (hs : SqrtPos sq θ) (pos12 : Iso2 K) (vel12 n : V2 K) (s : SC.SM2 K)
    (o : SC.Opts K) (hc : letI := fieldNum K sq; SCCastHSSide2 sq θ pos12.inverse n s o) :
    letI := fieldNum K sq
    SC.castSMHalfspace2 (liftIso2 pos12) (lift2 vel12) (liftSCSM2 sq s) (lift2 n) (liftSCOpts sq o)
      = (SC.castSMHalfspace2 pos12 vel12 s n o).map (liftSCHit2 sq) := by
  letI := fieldNum K sq
  simp only [SC.castSMHalfspace2, optsimp,
    defined_sc_castHalfspaceSM2 sq hs pos12.inverse (pos12.invRot vel12).neg n s o hc, Option.map_map]
  rfl

/-- a unit quaternion preserves squared lengths (so the side conditions below are conditions on the normal alone) -/
theorem invRot3_normSq (m : Iso3 K) (v : V3 K)
    (hq : m.qi * m.qi + m.qj * m.qj + m.qk * m.qk + m.qw * m.qw = 1) :
    letI := fieldNum K sq
    (m.invRot v).normSq = v.normSq := by
  letI := fieldNum K sq
  simp only [Iso3.invRot, Iso3.rotQ, Iso3.qv, V3.normSq, V3.dot, V3.neg, V3.cross, V3.smul, V3.add, fieldNum_two]
  linear_combination (4 * ((m.qi * m.qi + m.qj * m.qj + m.qk * m.qk) * (v.x * v.x + v.y * v.y + v.z * v.z)
    - (m.qi * v.x + m.qj * v.y + m.qk * v.z) ^ 2)) * hq
/-- a unit complex number preserves squared lengths -/
theorem invRot2_normSq (m : Iso2 K) (v : V2 K) (hq : m.re * m.re + m.im * m.im = 1) :
    letI := fieldNum K sq
    (m.invRot v).normSq = v.normSq := by
  letI := fieldNum K sq
  simp only [Iso2.invRot, V2.normSq, V2.dot]
  linear_combination (v.x * v.x + v.y * v.y) * hq

/-- the side condition of the half-space cast holds for every unit rotation and every normal above the threshold
(a `Unit` normal has `|n|² = 1`), whatever the shape and the options -/
theorem scCastHSSide3_of_unit {θ : K} (pos12 : Iso3 K) (n : V3 K) (s : SC.SM3 K) (o : SC.Opts K)
    (hq : pos12.qi * pos12.qi + pos12.qj * pos12.qj + pos12.qk * pos12.qk + pos12.qw * pos12.qw = 1)
    (hn : letI := fieldNum K sq; θ < n.normSq) : SCCastHSSide3 sq θ pos12 n s o := by
  letI := fieldNum K sq
  have e : n.neg.normSq = n.normSq := by simp only [V3.normSq, V3.dot, V3.neg]; ring
  unfold SCCastHSSide3
  split_ifs
  · rw [invRot3_normSq sq pos12 n.neg hq, e]; exact hn
  · cases s
    · simp only [SCSupportSide3]; rw [e]; exact hn
    · trivial
/-- 2-D version of `scCastHSSide3_of_unit`. -/
theorem scCastHSSide2_of_unit {θ : K} (pos12 : Iso2 K) (n : V2 K) (s : SC.SM2 K) (o : SC.Opts K)
    (hq : pos12.re * pos12.re + pos12.im * pos12.im = 1)
    (hn : letI := fieldNum K sq; θ < n.normSq) : SCCastHSSide2 sq θ pos12 n s o := by
  letI := fieldNum K sq
  have e : n.neg.normSq = n.normSq := by simp only [V2.normSq, V2.dot, V2.neg]; ring
  unfold SCCastHSSide2
  split_ifs
  · rw [invRot2_normSq sq pos12 n.neg hq, e]; exact hn
  · cases s
    · simp only [SCSupportSide2]; rw [e]; exact hn
    · trivial

/-- invalid input (zero "normal" against a ball): the support direction `-n = 0` cannot be normalised
(`Ball::support_point` → `Unit::new_normalize(0)`), the support point is NaN -/
theorem sc_ballSupportPoint_zero_dir_nan :
    (asRat ((SC.SM3.ball (K := NaNable) (some 1)).supportPoint
      ⟨some 0, some 0, some 0, some 1, ⟨some 0, some 2, some 0⟩⟩ ⟨some 0, some 0, some 0⟩).x).isSome = false := by
  decide +kernel

/-! ## dispatcher and free function -/

/-- side condition of the dispatcher-level cast: `SCCastHSSide3` for the four half-space pairs (in the mirrored frame
for shape/half-space), nothing for ball/ball and the unmodelled pairs -/
def SCCastSide3 (θ : K) (pos12 : Iso3 K) : SC.Shape3 K → SC.Shape3 K → SC.Opts K → Prop
  | .halfspace n, .ball r, o => SCCastHSSide3 sq θ pos12 n (.ball r) o
  | .halfspace n, .cuboid he, o => SCCastHSSide3 sq θ pos12 n (.cuboid he) o
  | .ball r, .halfspace n, o => letI := fieldNum K sq; SCCastHSSide3 sq θ pos12.inverse n (.ball r) o
  | .cuboid he, .halfspace n, o => letI := fieldNum K sq; SCCastHSSide3 sq θ pos12.inverse n (.cuboid he) o
  | _, _, _ => True
def SCCastSide2 (θ : K) (pos12 : Iso2 K) : SC.Shape2 K → SC.Shape2 K → SC.Opts K → Prop
  | .halfspace n, .ball r, o => SCCastHSSide2 sq θ pos12 n (.ball r) o
  | .halfspace n, .cuboid he, o => SCCastHSSide2 sq θ pos12 n (.cuboid he) o
  | .ball r, .halfspace n, o => letI := fieldNum K sq; SCCastHSSide2 sq θ pos12.inverse n (.ball r) o
  | .cuboid he, .halfspace n, o => letI := fieldNum K sq; SCCastHSSide2 sq θ pos12.inverse n (.cuboid he) o
  | _, _, _ => True

/-- **C20 (`DefaultQueryDispatcher::cast_shapes` on ball / cuboid / half-space, 3-D)**. -/
theorem defined_sc_dispatchCast3 {θ : K} (hs : SqrtPos sq θ)
    (hθ : letI := fieldNum K sq; θ ≤ (SC.eps : K) * SC.eps)
    (pos12 : Iso3 K) (vel12 : V3 K) (g1 g2 : SC.Shape3 K) (o : SC.Opts K) (hc : SCCastSide3 sq θ pos12 g1 g2 o) :
    letI := fieldNum K sq
    SC.dispatchCast3 (liftIso3 pos12) (lift3 vel12) (liftSCShape3 sq g1) (liftSCShape3 sq g2) (liftSCOpts sq o)
      = (SC.dispatchCast3 pos12 vel12 g1 g2 o).map (Option.map (liftSCHit3 sq)) := by
  letI := fieldNum K sq
  rcases g1 with r1 | he1 | n1 <;> rcases g2 with r2 | he2 | n2
  · exact congrArg some (defined_sc_castBallBall3 sq hs hθ pos12 vel12 r1 r2 o)
  · rfl
  · exact congrArg some (defined_sc_castSMHalfspace3 sq hs pos12 vel12 n2 (.ball r1) o hc)
  · rfl
  · rfl
  · exact congrArg some (defined_sc_castSMHalfspace3 sq hs pos12 vel12 n2 (.cuboid he1) o hc)
  · exact congrArg some (defined_sc_castHalfspaceSM3 sq hs pos12 vel12 n1 (.ball r2) o hc)
  · exact congrArg some (defined_sc_castHalfspaceSM3 sq hs pos12 vel12 n1 (.cuboid he2) o hc)
  · rfl

/-- **C20 (`DefaultQueryDispatcher::cast_shapes`, 2-D)**. -/
theorem defined_sc_dispatchCast2 {θ : K} (hs : SqrtPos sq θ)
    (hθ : letI := fieldNum K sq; θ ≤ (SC.eps : K) * SC.eps)
    (pos12 : Iso2 K) (vel12 : V2 K) (g1 g2 : SC.Shape2 K) (o : SC.Opts K) (hc : SCCastSide2 sq θ pos12 g1 g2 o) :
    letI := fieldNum K sq
    SC.dispatchCast2 (liftIso2 pos12) (lift2 vel12) (liftSCShape2 sq g1) (liftSCShape2 sq g2) (liftSCOpts sq o)
      = (SC.dispatchCast2 pos12 vel12 g1 g2 o).map (Option.map (liftSCHit2 sq)) := by
  letI := fieldNum K sq
  rcases g1 with r1 | he1 | n1 <;> rcases g2 with r2 | he2 | n2
  · exact congrArg some (defined_sc_castBallBall2 sq hs hθ pos12 vel12 r1 r2 o)
  · rfl
  · exact congrArg some (defined_sc_castSMHalfspace2 sq hs pos12 vel12 n2 (.ball r1) o hc)
  · rfl
  · rfl
  · exact congrArg some (defined_sc_castSMHalfspace2 sq hs pos12 vel12 n2 (.cuboid he1) o hc)
  · exact congrArg some (defined_sc_castHalfspaceSM2 sq hs pos12 vel12 n1 (.ball r2) o hc)
  · exact congrArg some (defined_sc_castHalfspaceSM2 sq hs pos12 vel12 n1 (.cuboid he2) o hc)
  · rfl

/-- **C20 (`query::cast_shapes`, 3-D, on the closed-form pairs)**: world poses and velocities (`vel1 = vel2`: zero
relative velocity; `pos1 = pos2`: coincident centres) — `inv_mul`, the velocity conversion and the dispatch are defined;
the side condition is stated on the relative pose. -/
theorem defined_sc_castShapes3 {θ : K} (hs : SqrtPos sq θ)
    (hθ : letI := fieldNum K sq; θ ≤ (SC.eps : K) * SC.eps)
    (pos1 pos2 : Iso3 K) (vel1 vel2 : V3 K) (g1 g2 : SC.Shape3 K) (o : SC.Opts K)
    (hc : letI := fieldNum K sq; SCCastSide3 sq θ (pos1.invMul pos2) g1 g2 o) :
    letI := fieldNum K sq
    SC.castShapes3 (liftIso3 pos1) (lift3 vel1) (liftSCShape3 sq g1) (liftIso3 pos2) (lift3 vel2)
        (liftSCShape3 sq g2) (liftSCOpts sq o)
      = (SC.castShapes3 pos1 vel1 g1 pos2 vel2 g2 o).map (Option.map (liftSCHit3 sq)) := by
  letI := fieldNum K sq
  simp only [SC.castShapes3, optsimp]
  exact defined_sc_dispatchCast3 sq hs hθ _ _ g1 g2 o hc

/-- **C20 (`query::cast_shapes`, 2-D)**. -/
theorem defined_sc_castShapes2 {θ : K} (hs : SqrtPos sq θ)
    (hθ : letI := fieldNum K sq; θ ≤ (SC.eps : K) * SC.eps)
    (pos1 pos2 : Iso2 K) (vel1 vel2 : V2 K) (g1 g2 : SC.Shape2 K) (o : SC.Opts K)
    (hc : letI := fieldNum K sq; SCCastSide2 sq θ (pos1.invMul pos2) g1 g2 o) :
    letI := fieldNum K sq
    SC.castShapes2 (liftIso2 pos1) (lift2 vel1) (liftSCShape2 sq g1) (liftIso2 pos2) (lift2 vel2)
        (liftSCShape2 sq g2) (liftSCOpts sq o)
      = (SC.castShapes2 pos1 vel1 g1 pos2 vel2 g2 o).map (Option.map (liftSCHit2 sq)) := by
  letI := fieldNum K sq
  simp only [SC.castShapes2, optsimp]
  exact defined_sc_dispatchCast2 sq hs hθ _ _ g1 g2 o hc

/-- **C20 (`NonlinearRigidMotion::position_at_time` with zero angular velocity, `ShapeCastHit::{swapped,
transform1_by}` of C06)**: isometry algebra only (`+ - *`): every finite motion, time, hit and pose. -/
theorem defined_sc_motion_and_hit (m3 : SC.Motion3 K) (m2 : SC.Motion2 K) (t : K) (h3 : SC.Hit (V3 K) K)
    (h2 : SC.Hit (V2 K) K) (p3 : Iso3 K) (p2 : Iso2 K) :
    letI := fieldNum K sq
    (liftSCMotion3 sq m3).positionAtTime (val t) = liftIso3 (m3.positionAtTime t) ∧
    (liftSCMotion2 sq m2).positionAtTime (val t) = liftIso2 (m2.positionAtTime t) ∧
    (liftSCHit3 sq h3).swapped = liftSCHit3 sq h3.swapped ∧
    (liftSCHit2 sq h2).swapped = liftSCHit2 sq h2.swapped ∧
    (liftSCHit3 sq h3).transform1By3 (liftIso3 p3) = liftSCHit3 sq (h3.transform1By3 p3) ∧
    (liftSCHit2 sq h2).transform1By2 (liftIso2 p2) = liftSCHit2 sq (h2.transform1By2 p2) :=
  ⟨rfl, rfl, rfl, rfl, rfl, rfl⟩

/-! # C19: `scaled` of the primitive shapes, heightfield cell triangles, `push_circle` -/

def liftCuboid3 (c : Cuboid3 K) : Cuboid3 (Opt K sq) := ⟨lift3 c.he⟩
def liftHalfSpace3 (h : HalfSpace3 K) : HalfSpace3 (Opt K sq) := ⟨lift3 h.n⟩
def liftHalfSpace2 (h : HalfSpace2 K) : HalfSpace2 (Opt K sq) := ⟨lift2 h.n⟩
def liftTriPair (r : Option (Triangle3 K) × Option (Triangle3 K)) :
    Option (Triangle3 (Opt K sq)) × Option (Triangle3 (Opt K sq)) := (r.1.map (liftTri3 sq), r.2.map (liftTri3 sq))

/-- **C20 (`{Cuboid, Segment, Triangle, Ball, Capsule, Cylinder, Cone}::scaled`, shape-preserving branches and their
dispatch)**: `* abs ==` only — defined for **every** finite shape and scale: **zero scale components** (the shape is
flattened: zero half-extents / radius), negative components (absolute values as fixed in /repo), non-uniform scales
(`None`: the caller falls back to a convex polyhedron), zero radius / height. -/
theorem defined_scaled_noDivision (cu : Cuboid3 K) (sg : Segment3 K) (tr : Triangle3 K) (b : Ball K)
    (ca : Capsule3 K) (cy : Cylinder K) (co : Cone K) (s : V3 K) :
    letI := fieldNum K sq
    (liftCuboid3 sq cu).scaled (lift3 s) = liftCuboid3 sq (cu.scaled s) ∧
    (liftSeg3 sq sg).scaled (lift3 s) = liftSeg3 sq (sg.scaled s) ∧
    (liftTri3 sq tr).scaled (lift3 s) = liftTri3 sq (tr.scaled s) ∧
    (liftBall sq b).scaled (lift3 s) = (b.scaled s).map (liftBall sq) ∧
    (liftCapsule3 sq ca).scaled (lift3 s) = (ca.scaled s).map (liftCapsule3 sq) ∧
    (liftCylinder sq cy).scaled (lift3 s) = (cy.scaled s).map (liftCylinder sq) ∧
    (liftCone sq co).scaled (lift3 s) = (co.scaled s).map (liftCone sq) := by
  letI := fieldNum K sq
  refine ⟨?_, rfl, rfl, ?_, ?_, ?_, ?_⟩
  · simp only [Cuboid3.scaled, liftCuboid3, optsimp]
  · simp only [Ball.scaled, Ball.scaledUniform, uniformScale, liftBall, optsimp]
    split_ifs <;> rfl
  · simp only [Capsule3.scaled, Capsule3.scaledUniform, uniformScale, liftCapsule3, optsimp]
    split_ifs <;> rfl
  · simp only [Cylinder.scaled, Cylinder.scaledXZ, liftCylinder, optsimp]
    split_ifs <;> rfl
  · simp only [Cone.scaled, Cone.scaledXZ, liftCone, optsimp]
    split_ifs <;> rfl

/-- **C20 (`Unit::try_new(v, 0.0)`, 3-D and 2-D)**: defined for the **zero vector** (`None`) and for every vector whose
squared length is above the threshold of the square-root operation (`θ = 0`: every vector). -/
theorem defined_tryNormalize0 {θ : K} (hs : SqrtPos sq θ) (v3 : V3 K) (v2 : V2 K) :
    letI := fieldNum K sq
    ((v3.normSq = 0 ∨ θ < v3.normSq) →
      tryNormalize3 (lift3 v3 : V3 (Opt K sq)) = (tryNormalize3 v3).map lift3) ∧
    ((v2.normSq = 0 ∨ θ < v2.normSq) →
      tryNormalize2 (lift2 v2 : V2 (Opt K sq)) = (tryNormalize2 v2).map lift2) := by
  letI := fieldNum K sq
  refine ⟨fun hu => ?_, fun hu => ?_⟩
  · simp only [tryNormalize3, optsimp]
    split_ifs with h1 h2
    · exfalso; exact absurd (normSq3_nonneg (sq := sq) v3) (not_le.mpr h2)
    · have hne : sq v3.normSq ≠ 0 := by
        rcases hu with hu | hu
        · rw [hu] at h1; simp at h1
        · exact hs.ne hu
      simp only [optsimp, if_neg hne]
    · rfl
  · simp only [tryNormalize2, optsimp]
    split_ifs with h1 h2
    · exfalso; exact absurd (normSq2_nonneg (sq := sq) v2) (not_le.mpr h2)
    · have hne : sq v2.normSq ≠ 0 := by
        rcases hu with hu | hu
        · rw [hu] at h1; simp at h1
        · exact hs.ne hu
      simp only [optsimp, if_neg hne]
    · rfl

/-- **C20 (`HalfSpace::scaled`, 3-D, as fixed in /repo: `normal.component_div(scale)`)**: defined for every finite
normal (unit or not; the zero normal gives `None`) and every scale **without zero component** (negative components
fine).  The hypotheses `s.x, s.y, s.z ≠ 0` are *needed*: see the finding
`halfspace_scaled_zero_component_undefined` below. -/
theorem defined_halfspace3_scaled {θ : K} (hs : SqrtPos sq θ) (h : HalfSpace3 K) (s : V3 K)
    (hx : s.x ≠ 0) (hy : s.y ≠ 0) (hz : s.z ≠ 0)
    (hu : letI := fieldNum K sq;
      (⟨h.n.x / s.x, h.n.y / s.y, h.n.z / s.z⟩ : V3 K).normSq = 0 ∨
        θ < (⟨h.n.x / s.x, h.n.y / s.y, h.n.z / s.z⟩ : V3 K).normSq) :
    letI := fieldNum K sq
    (liftHalfSpace3 sq h).scaled (lift3 s) = (h.scaled s).map (liftHalfSpace3 sq) := by
  letI := fieldNum K sq
  simp only [HalfSpace3.scaled, liftHalfSpace3, optsimp, if_neg hx, if_neg hy, if_neg hz,
    (defined_tryNormalize0 sq hs _ V2.zero).1 hu, Option.map_map]
  rfl

/-- **C20 (`HalfSpace::scaled`, 2-D)**: as `defined_halfspace3_scaled`. -/
theorem defined_halfspace2_scaled {θ : K} (hs : SqrtPos sq θ) (h : HalfSpace2 K) (s : V2 K)
    (hx : s.x ≠ 0) (hy : s.y ≠ 0)
    (hu : letI := fieldNum K sq;
      (⟨h.n.x / s.x, h.n.y / s.y⟩ : V2 K).normSq = 0 ∨ θ < (⟨h.n.x / s.x, h.n.y / s.y⟩ : V2 K).normSq) :
    letI := fieldNum K sq
    (liftHalfSpace2 sq h).scaled (lift2 s) = (h.scaled s).map (liftHalfSpace2 sq) := by
  letI := fieldNum K sq
  simp only [HalfSpace2.scaled, liftHalfSpace2, optsimp, if_neg hx, if_neg hy,
    (defined_tryNormalize0 sq hs V3.zero _).2 hu, Option.map_map]
  rfl

/-! ### Finding: `HalfSpace::scaled` with a zero scale component returns `Some` half-space with a NaN normal

`normal.component_div(scale)` is not guarded: for `normal = (0.6, 0.8, 0)`, `scale = (0, 1, 1)` the quotient is
`(+inf, 0.8, 0)`, `Unit::try_new(_, 0.0)` accepts it (`inf > 0`) and divides by `sqrt(inf) = inf`:
`C19 halfspace_scaled … | some nan 0 0` on the real crate (2-D likewise; `0/0` for `normal.x = 0` gives `None`).
Every other `scaled` of this file accepts zero scale components (`defined_scaled_noDivision`).
`Opt` identifies `±inf` with NaN and every comparison with it is false, so at `NaNable` the *model* answers `none`
where the exact evaluation (`x / 0 = 0` in a field) answers `some`: the definedness equation fails, which is what the
witness records; the NaN inside `Some(_)` is the IEEE behaviour of the same unguarded division.
Proposed patch: return `None` when a component of the quotient is not finite. -/
theorem halfspace_scaled_zero_component_undefined :
    (HalfSpace3.scaled (K := NaNable) ⟨⟨some (3/5), some (4/5), some 0⟩⟩ ⟨some 0, some 1, some 1⟩).isSome = false ∧
    (HalfSpace3.scaled (K := Rat) ⟨⟨3/5, 4/5, 0⟩⟩ ⟨0, 1, 1⟩).isSome = true := by
  decide +kernel

/-- **C20 (`HeightField::triangles_at`, `push_circle` vertex)**: defined for every finite corner heights, cell indices,
scale (zero components included) and cell status whenever `nrows ≠ 1` and `ncols ≠ 1` (the cell sizes are
`1 / (ncols - 1)`, `1 / (nrows - 1)`; `HeightField::new` asserts both `> 1`); `circlePoint` is `*` only. -/
theorem defined_hfTrianglesAt (nrows ncols i j y00 y10 y01 y11 : K) (scale : V3 K) (st : CellStatus)
    (hr : nrows - 1 ≠ 0) (hc : ncols - 1 ≠ 0) :
    letI := fieldNum K sq
    hfTrianglesAt (val nrows : Opt K sq) (val ncols) (val i) (val j) (val y00) (val y10) (val y01) (val y11)
        (lift3 scale) st
      = liftTriPair sq (hfTrianglesAt nrows ncols i j y00 y10 y01 y11 scale st) ∧
    circlePoint (val y00 : Opt K sq) (val y10) (val y01) (val y11) = lift3 (circlePoint y00 y10 y01 y11) := by
  letI := fieldNum K sq
  refine ⟨?_, ?_⟩
  · simp only [hfTrianglesAt, optsimp, if_neg hr, if_neg hc]
    split_ifs <;> rfl
  · simp only [circlePoint, optsimp]

end C20
