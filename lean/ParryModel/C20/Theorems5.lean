import ParryModel.C20.Lemmas
import ParryModel.C20.Theorems2
import ParryModel.C02.Model
import ParryModel.C03.Model
set_option linter.style.haveILetI false
set_option linter.unusedSimpArgs false
set_option linter.unusedSectionVars false
set_option linter.unusedVariables false
/-!
# C20 definedness theorems, part 5: the closed-form pair queries of C03 / C02

Shape of every theorem: `f (lift x) = lift (f x)` — left the model function at the NaN-propagating scalars `Opt K sq`
on finite input, right the same function at the lawful field instance injected by `some` (see `Lemmas.lean`).

* ball / ball: `distance`, `intersection_test`, `closest_points`, `contact` (3-D and 2-D);
* half-space / support map: `contact`, `distance`, `intersection_test`, `closest_points` and their mirrored wrappers,
  relative to a support function that is itself defined (`SupportTowardDefined3`, `SupportDefined3`), instantiated for the
  ball and cuboid support maps of `C03/Model.lean`;
* `copy_sign_to`, the `Contact` / `ClosestPoints` / `ShapeCastHit` flipping helpers, the `*_ball_convex_polyhedron` /
  `*_ball_point_query` mirrored wrappers, the free functions `query::{distance, …}` (higher order: relative to a defined
  dispatcher-level function);
* the dispatch functions `details*` restricted to the closed-form pairs, and the four verdicts of C02.
-/
namespace C20
open Model

variable {K : Type} [Field K] [LinearOrder K] [IsStrictOrderedRing K] (sq : K → K)

/-! ### liftings of the C03 data types -/
def liftContact3 (c : Contact3 K) : Contact3 (Opt K sq) :=
  ⟨lift3 c.point1, lift3 c.point2, lift3 c.normal1, lift3 c.normal2, val c.dist⟩
def liftCP3 : ClosestPoints3 K → ClosestPoints3 (Opt K sq)
  | .intersecting => .intersecting
  | .withinMargin p1 p2 => .withinMargin (lift3 p1) (lift3 p2)
  | .disjoint => .disjoint
def liftHit3 (h : ShapeCastHit3 K) : ShapeCastHit3 (Opt K sq) :=
  ⟨val h.toi, lift3 h.witness1, lift3 h.witness2, lift3 h.normal1, lift3 h.normal2, h.status⟩
def liftShape3 : Shape3 K → Shape3 (Opt K sq)
  | .ball r => .ball (val r)
  | .cuboid he => .cuboid (lift3 he)
  | .halfspace n => .halfspace (lift3 n)
def liftContact2 (c : Contact2 K) : Contact2 (Opt K sq) :=
  ⟨lift2 c.point1, lift2 c.point2, lift2 c.normal1, lift2 c.normal2, val c.dist⟩
def liftShape2 : Shape2 K → Shape2 (Opt K sq)
  | .ball r => .ball (val r)
  | .cuboid he => .cuboid (lift2 he)
  | .halfspace n => .halfspace (lift2 n)

@[optsimp] private theorem liftContact3_mk (a b c d : V3 K) (e : K) :
    (⟨lift3 a, lift3 b, lift3 c, lift3 d, val e⟩ : Contact3 (Opt K sq)) = liftContact3 sq ⟨a, b, c, d, e⟩ := id rfl
@[optsimp] private theorem liftCP3_wm (a b : V3 K) :
    (ClosestPoints3.withinMargin (lift3 a) (lift3 b) : ClosestPoints3 (Opt K sq)) = liftCP3 sq (.withinMargin a b) :=
  id rfl
@[optsimp] private theorem liftContact3_dist (c : Contact3 K) : (liftContact3 sq c).dist = val c.dist := id rfl
@[optsimp] private theorem liftContact3_point1 (c : Contact3 K) : (liftContact3 sq c).point1 = lift3 c.point1 := id rfl
@[optsimp] private theorem liftContact3_point2 (c : Contact3 K) : (liftContact3 sq c).point2 = lift3 c.point2 := id rfl
@[optsimp] private theorem liftContact3_normal1 (c : Contact3 K) : (liftContact3 sq c).normal1 = lift3 c.normal1 :=
  id rfl
@[optsimp] private theorem liftContact3_normal2 (c : Contact3 K) : (liftContact3 sq c).normal2 = lift3 c.normal2 :=
  id rfl
@[optsimp] private theorem lift3_xAxis : letI := fieldNum K sq; (V3.xAxis : V3 (Opt K sq)) = lift3 V3.xAxis := id rfl
@[optsimp] private theorem lift2_xAxis : letI := fieldNum K sq; (V2.xAxis : V2 (Opt K sq)) = lift2 V2.xAxis := id rfl
@[optsimp] private theorem liftContact2_mk (a b c d : V2 K) (e : K) :
    (⟨lift2 a, lift2 b, lift2 c, lift2 d, val e⟩ : Contact2 (Opt K sq)) = liftContact2 sq ⟨a, b, c, d, e⟩ := id rfl

private theorem neg_normSq3 (n : V3 K) : letI := fieldNum K sq; n.neg.normSq = n.normSq := by
  simp only [V3.normSq, V3.dot, V3.neg]; ring

/-! ## `copy_sign_to`, result flipping helpers -/

/-- **C20 (`WSign::copy_sign_to`)**: defined for every finite pair — **including `d = 0`**: the sign test `1 / d < 0` is
`NaN < 0 = false` at `Opt` exactly as `0 < 0 = false` in the field (at `Float` it reads the sign bit of the zero; the
quotient itself never reaches the output). -/
theorem defined_copySign (d t : K) :
    letI := fieldNum K sq
    copySign (val d : Opt K sq) (val t) = val (copySign d t) := by
  letI := fieldNum K sq
  simp only [copySign, val_one, val_zero, val_one_div_lt_zero, val_nabs, val_neg]
  split_ifs <;> rfl

/-- **C20 (`Contact::{flipped, transform_by_mut}`, `ClosestPoints::{flipped, transform_by}`,
`ShapeCastHit::{swapped, transform1_by}`)**: pure re-arrangements and isometry actions (`+ - *` only): defined on every
finite record and pose. -/
theorem defined_flipping (c : Contact3 K) (cp : ClosestPoints3 K) (h : ShapeCastHit3 K) (p1 p2 : Iso3 K) :
    letI := fieldNum K sq
    (liftContact3 sq c).flipped = liftContact3 sq c.flipped ∧
    (liftContact3 sq c).transformBy (liftIso3 p1) (liftIso3 p2) = liftContact3 sq (c.transformBy p1 p2) ∧
    (liftCP3 sq cp).flipped = liftCP3 sq cp.flipped ∧
    (liftCP3 sq cp).transformBy (liftIso3 p1) (liftIso3 p2) = liftCP3 sq (cp.transformBy p1 p2) ∧
    (liftHit3 sq h).swapped = liftHit3 sq h.swapped ∧
    (liftHit3 sq h).transform1By (liftIso3 p1) = liftHit3 sq (h.transform1By p1) := by
  refine ⟨rfl, rfl, ?_, ?_, rfl, rfl⟩ <;> cases cp <;> rfl

@[optsimp] private theorem liftContact3_flipped (c : Contact3 K) :
    (liftContact3 sq c).flipped = liftContact3 sq c.flipped := id rfl
@[optsimp] private theorem liftContact3_transformBy (c : Contact3 K) (p1 p2 : Iso3 K) :
    letI := fieldNum K sq
    (liftContact3 sq c).transformBy (liftIso3 p1) (liftIso3 p2) = liftContact3 sq (c.transformBy p1 p2) := id rfl
@[optsimp] private theorem liftCP3_flipped (c : ClosestPoints3 K) :
    (liftCP3 sq c).flipped = liftCP3 sq c.flipped := by cases c <;> rfl
@[optsimp] private theorem liftCP3_transformBy (c : ClosestPoints3 K) (p1 p2 : Iso3 K) :
    letI := fieldNum K sq
    (liftCP3 sq c).transformBy (liftIso3 p1) (liftIso3 p2) = liftCP3 sq (c.transformBy p1 p2) := by
  cases c <;> rfl
@[optsimp] private theorem liftContact2_flipped (c : Contact2 K) :
    (liftContact2 sq c).flipped = liftContact2 sq c.flipped := id rfl
@[optsimp] private theorem liftContact2_transformBy (c : Contact2 K) (p1 p2 : Iso2 K) :
    letI := fieldNum K sq
    (liftContact2 sq c).transformBy (liftIso2 p1) (liftIso2 p2) = liftContact2 sq (c.transformBy p1 p2) := id rfl

/-! ## Support maps -/

/-- `S` (evaluated with NaN-propagating scalars) computes at the finite pose `m` and direction `d` the finite point that
`S'` (the same support map at the field instance) computes: `support_point_toward` is defined at `(m, d)`. -/
def SupportTowardDefined3 (S : SupportMap3 (Opt K sq)) (S' : SupportMap3 K) (m : Iso3 K) (d : V3 K) : Prop :=
  S.supportToward (liftIso3 m) (lift3 d) = lift3 (S'.supportToward m d)
/-- the same for `support_point` (which may normalise `d`) -/
def SupportDefined3 (S : SupportMap3 (Opt K sq)) (S' : SupportMap3 K) (m : Iso3 K) (d : V3 K) : Prop :=
  S.support (liftIso3 m) (lift3 d) = lift3 (S'.support m d)
def SupportTowardDefined2 (S : SupportMap2 (Opt K sq)) (S' : SupportMap2 K) (m : Iso2 K) (d : V2 K) : Prop :=
  S.supportToward (liftIso2 m) (lift2 d) = lift2 (S'.supportToward m d)
def SupportDefined2 (S : SupportMap2 (Opt K sq)) (S' : SupportMap2 K) (m : Iso2 K) (d : V2 K) : Prop :=
  S.support (liftIso2 m) (lift2 d) = lift2 (S'.support m d)

private theorem defined_cuboidLocalSupport (he d : V3 K) :
    letI := fieldNum K sq
    cuboidLocalSupport (lift3 he : V3 (Opt K sq)) (lift3 d) = lift3 (cuboidLocalSupport he d) := by
  simp only [cuboidLocalSupport, optsimp, defined_copySign]

/-- **C20 (`Cuboid` support map, 3-D: `support_point`, `support_point_toward`, `local_support_point`)**: defined for
every finite half-extents (any sign, **zero included**), pose and direction — **including the zero direction and
directions with zero components** (`copy_sign_to` only reads signs; no normalisation). -/
theorem defined_cuboid_support (he : V3 K) (m : Iso3 K) (d : V3 K) :
    letI := fieldNum K sq
    SupportTowardDefined3 sq (cuboidSupportMap (lift3 he)) (cuboidSupportMap he) m d ∧
    SupportDefined3 sq (cuboidSupportMap (lift3 he)) (cuboidSupportMap he) m d := by
  letI := fieldNum K sq
  refine ⟨?_, ?_⟩
  · simp only [SupportTowardDefined3, cuboidSupportMap, optsimp, defined_cuboidLocalSupport]
  · simp only [SupportDefined3, cuboidSupportMap, optsimp, defined_cuboidLocalSupport]

/-- **C20 (`Cuboid` support map, 2-D)**: as `defined_cuboid_support`. -/
theorem defined_cuboid_support2 (he : V2 K) (m : Iso2 K) (d : V2 K) :
    letI := fieldNum K sq
    SupportTowardDefined2 sq (cuboidSupportMap2 (lift2 he)) (cuboidSupportMap2 he) m d ∧
    SupportDefined2 sq (cuboidSupportMap2 (lift2 he)) (cuboidSupportMap2 he) m d := by
  letI := fieldNum K sq
  refine ⟨?_, ?_⟩
  · simp only [SupportTowardDefined2, cuboidSupportMap2, cuboidLocalSupport2, optsimp, defined_copySign]
  · simp only [SupportDefined2, cuboidSupportMap2, cuboidLocalSupport2, optsimp, defined_copySign]

/-- **C20 (`Ball::support_point_toward`, 3-D and 2-D)**: `m.translation + dir * radius`: defined for every finite radius
(any sign, zero), pose and direction (unit or not, zero included). -/
theorem defined_ball_supportToward (r : K) (m : Iso3 K) (d : V3 K) (m2 : Iso2 K) (d2 : V2 K) :
    letI := fieldNum K sq
    SupportTowardDefined3 sq (ballSupportMap (val r)) (ballSupportMap r) m d ∧
    SupportTowardDefined2 sq (ballSupportMap2 (val r)) (ballSupportMap2 r) m2 d2 := by
  refine ⟨?_, ?_⟩
  · simp only [SupportTowardDefined3, ballSupportMap, optsimp]
  · simp only [SupportTowardDefined2, ballSupportMap2, optsimp]

/-- **C20 (`Ball::support_point`, 3-D)**: normalises the direction (`Unit::new_normalize`): defined for every radius and
pose and every direction whose squared length is above the threshold of the square-root operation (`θ = 0`: every
non-zero direction).  The zero direction gives `0/0` (`ball_support_zero_dir_nan`): it is outside the documented
contract of a support function, and the only modelled caller (`closest_points_halfspace_support_map`) passes the negated
*unit* normal of the half-space. -/
theorem defined_ball_support {θ : K} (hs : SqrtPos sq θ) (r : K) (m : Iso3 K) (d : V3 K)
    (hd : letI := fieldNum K sq; θ < d.normSq) :
    letI := fieldNum K sq
    SupportDefined3 sq (ballSupportMap (val r)) (ballSupportMap r) m d := by
  letI := fieldNum K sq
  simp only [SupportDefined3, ballSupportMap, optsimp, lift3_normalize d (hs.ne hd)]

/-- **C20 (`Ball::support_point`, 2-D)**: as `defined_ball_support`. -/
theorem defined_ball_support2 {θ : K} (hs : SqrtPos sq θ) (r : K) (m : Iso2 K) (d : V2 K)
    (hd : letI := fieldNum K sq; θ < d.normSq) :
    letI := fieldNum K sq
    SupportDefined2 sq (ballSupportMap2 (val r)) (ballSupportMap2 r) m d := by
  letI := fieldNum K sq
  simp only [SupportDefined2, ballSupportMap2, optsimp, lift2_normalize d (hs.ne hd)]

/-- the zero direction (invalid input: a support direction must be non-zero) gives a NaN support point of the ball -/
theorem ball_support_zero_dir_nan :
    Option.isSome (((ballSupportMap (K := NaNable) (some 1)).support
      ⟨some 0, some 0, some 0, some 1, ⟨some 0, some 0, some 0⟩⟩ ⟨some 0, some 0, some 0⟩).x : Option Rat) = false := by
  decide +kernel

/-! ## Half-space vs support map -/

/-- **C20 (`contact_halfspace_support_map`)**: no division, no square root of its own: defined for every finite pose,
normal (unit or not), prediction (**`prediction = 0`, negative predictions, the shape touching the plane `distance = 0`
or `distance = prediction`** included) whenever the support function is defined at `(pos12, -n)`. -/
theorem defined_contactHS (pos12 : Iso3 K) (n : V3 K) (S : SupportMap3 (Opt K sq)) (S' : SupportMap3 K)
    (prediction : K) (hS : letI := fieldNum K sq; SupportTowardDefined3 sq S S' pos12 n.neg) :
    letI := fieldNum K sq
    contactHS (liftIso3 pos12) (lift3 n) S (val prediction)
      = (contactHS pos12 n S' prediction).map (liftContact3 sq) := by
  letI := fieldNum K sq
  unfold SupportTowardDefined3 at hS
  simp only [contactHS, optsimp, hS]
  split_ifs <;> rfl

/-- **C20 (`contact_support_map_halfspace`, as fixed in /repo: `pos12.inverse()` then `flipped`)**: defined whenever the
support function is defined at `(pos12⁻¹, -n)`. -/
theorem defined_contactSH (pos12 : Iso3 K) (n : V3 K) (S : SupportMap3 (Opt K sq)) (S' : SupportMap3 K)
    (prediction : K) (hS : letI := fieldNum K sq; SupportTowardDefined3 sq S S' pos12.inverse n.neg) :
    letI := fieldNum K sq
    contactSH (liftIso3 pos12) S (lift3 n) (val prediction)
      = (contactSH pos12 S' n prediction).map (liftContact3 sq) := by
  letI := fieldNum K sq
  simp only [contactSH, optsimp, defined_contactHS sq pos12.inverse n S S' prediction hS, Option.map_map]
  rfl

/-- **C20 (`distance_halfspace_support_map`, `intersection_test_halfspace_support_map`)**: defined (a dot product and a
`max` with `0`) whenever the support function is defined at `(pos12, -n)`; the shape touching the plane gives `0` /
`true`. -/
theorem defined_distanceHS (pos12 : Iso3 K) (n : V3 K) (S : SupportMap3 (Opt K sq)) (S' : SupportMap3 K)
    (hS : letI := fieldNum K sq; SupportTowardDefined3 sq S S' pos12 n.neg) :
    letI := fieldNum K sq
    distanceHS (liftIso3 pos12) (lift3 n) S = val (distanceHS pos12 n S') ∧
    intersectionTestHS (liftIso3 pos12) (lift3 n) S = intersectionTestHS pos12 n S' := by
  letI := fieldNum K sq
  unfold SupportTowardDefined3 at hS
  refine ⟨?_, ?_⟩
  · simp only [distanceHS, optsimp, hS]
  · simp only [intersectionTestHS, optsimp, hS]

/-- **C20 (`distance_support_map_halfspace`, `intersection_test_support_map_halfspace`)**: the mirrored wrappers. -/
theorem defined_distanceSH (pos12 : Iso3 K) (n : V3 K) (S : SupportMap3 (Opt K sq)) (S' : SupportMap3 K)
    (hS : letI := fieldNum K sq; SupportTowardDefined3 sq S S' pos12.inverse n.neg) :
    letI := fieldNum K sq
    distanceSH (liftIso3 pos12) S (lift3 n) = val (distanceSH pos12 S' n) ∧
    intersectionTestSH (liftIso3 pos12) S (lift3 n) = intersectionTestSH pos12 S' n := by
  letI := fieldNum K sq
  simp only [distanceSH, intersectionTestSH, optsimp, defined_distanceHS sq pos12.inverse n S S' hS, and_self]

/-- **C20 (`closest_points_halfspace_support_map`)**: defined for every finite pose, normal and margin — a negative
margin is the `assert!` panic (`none` on both sides), **`margin = 0` and the touching configuration `distance = 0`
(`Intersecting`) are covered** — whenever `support_point` (the normalising variant) is defined at `(pos12, -n)`. -/
theorem defined_closestPointsHS (pos12 : Iso3 K) (n : V3 K) (S : SupportMap3 (Opt K sq)) (S' : SupportMap3 K)
    (margin : K) (hS : letI := fieldNum K sq; SupportDefined3 sq S S' pos12 n.neg) :
    letI := fieldNum K sq
    closestPointsHS (liftIso3 pos12) (lift3 n) S (val margin)
      = (closestPointsHS pos12 n S' margin).map (liftCP3 sq) := by
  letI := fieldNum K sq
  unfold SupportDefined3 at hS
  simp only [closestPointsHS, optsimp, hS]
  split_ifs <;> rfl

/-- **C20 (`closest_points_support_map_halfspace`)**: the mirrored wrapper. -/
theorem defined_closestPointsSH (pos12 : Iso3 K) (n : V3 K) (S : SupportMap3 (Opt K sq)) (S' : SupportMap3 K)
    (margin : K) (hS : letI := fieldNum K sq; SupportDefined3 sq S S' pos12.inverse n.neg) :
    letI := fieldNum K sq
    closestPointsSH (liftIso3 pos12) S (lift3 n) (val margin)
      = (closestPointsSH pos12 S' n margin).map (liftCP3 sq) := by
  letI := fieldNum K sq
  simp only [closestPointsSH, optsimp, defined_closestPointsHS sq pos12.inverse n S S' margin hS, Option.map_map]
  congr 1; funext c; cases c <;> rfl

/-- **C20 (`contact_halfspace_support_map`, dim2)**. -/
theorem defined_contactHS2 (pos12 : Iso2 K) (n : V2 K) (S : SupportMap2 (Opt K sq)) (S' : SupportMap2 K)
    (prediction : K) (hS : letI := fieldNum K sq; SupportTowardDefined2 sq S S' pos12 n.neg) :
    letI := fieldNum K sq
    contactHS2 (liftIso2 pos12) (lift2 n) S (val prediction)
      = (contactHS2 pos12 n S' prediction).map (liftContact2 sq) := by
  letI := fieldNum K sq
  unfold SupportTowardDefined2 at hS
  simp only [contactHS2, optsimp, hS]
  split_ifs <;> rfl

/-- **C20 (`contact_support_map_halfspace`, dim2, as fixed)**. -/
theorem defined_contactSH2 (pos12 : Iso2 K) (n : V2 K) (S : SupportMap2 (Opt K sq)) (S' : SupportMap2 K)
    (prediction : K) (hS : letI := fieldNum K sq; SupportTowardDefined2 sq S S' pos12.inverse n.neg) :
    letI := fieldNum K sq
    contactSH2 (liftIso2 pos12) S (lift2 n) (val prediction)
      = (contactSH2 pos12 S' n prediction).map (liftContact2 sq) := by
  letI := fieldNum K sq
  simp only [contactSH2, optsimp, defined_contactHS2 sq pos12.inverse n S S' prediction hS, Option.map_map]
  rfl

/-! ## Ball vs ball -/

/-- **C20 (`intersection_test_ball_ball`)**: `+ *` and a comparison: every finite input (any radii, coincident
centres, tangent balls). -/
theorem defined_intersectionTestBallBall (c : V3 K) (r1 r2 : K) :
    letI := fieldNum K sq
    intersectionTestBallBall (lift3 c : V3 (Opt K sq)) (val r1) (val r2) = intersectionTestBallBall c r1 r2 := by
  simp only [intersectionTestBallBall, optsimp]

/-- **C20 (`distance_ball_ball`)**: defined for every finite centre and radii (any sign) — **coincident centres, zero
radii, identical balls, tangent balls** included: the square root is taken of a sum of squares, nothing is divided. -/
theorem defined_distanceBallBall (r1 r2 : K) (c : V3 K) :
    letI := fieldNum K sq
    distanceBallBall (val r1 : Opt K sq) (lift3 c) (val r2) = val (distanceBallBall r1 c r2) := by
  letI := fieldNum K sq
  simp only [distanceBallBall, optsimp]
  opt_steps
  all_goals first | rfl | (exfalso; linarith [normSq3_nonneg (sq := sq) c])

/-- **C20 (`closest_points_ball_ball`)**: defined for every finite pose, margin (negative: the `assert!` panic, `none` on
both sides; **`margin = 0` covered**) and radii with **`r1 + r2 ≥ 0`** — zero radii, coincident centres, identical and
tangent balls included — with *no* requirement on the square-root operation: the centre offset is normalised only in
the branch `|c| > r1 + r2 ≥ 0`, where the divisor `|c| = sqrt |c|²` is positive by the branch condition itself.
For `r1 + r2 < 0` (invalid balls) the divisor must be assumed non-zero (`closestPointsBallBall_negative_radius_nan`). -/
theorem defined_closestPointsBallBall (pos12 : Iso3 K) (r1 r2 margin : K)
    (hr : letI := fieldNum K sq; 0 ≤ r1 + r2 ∨ sq pos12.t.normSq ≠ 0) :
    letI := fieldNum K sq
    closestPointsBallBall (liftIso3 pos12) (val r1) (val r2) (val margin)
      = (closestPointsBallBall pos12 r1 r2 margin).map (liftCP3 sq) := by
  letI := fieldNum K sq
  simp only [closestPointsBallBall, optsimp]
  split_ifs with h1 h2 h3
  · rfl
  · have hne : sq pos12.t.normSq ≠ 0 := by
      rcases hr with h | h
      · exact ne_of_gt (lt_of_le_of_lt h (not_le.mp h3))
      · exact h
    rw [lift3_normalize pos12.t hne]
    simp only [optsimp]
  · rfl
  · rfl

/-- invalid input (negative radius): coincident centres, `r1 + r2 = -1 < 0`, `margin = 2`: the branch
`0 - 2 ≤ -1`, `¬ 0 ≤ -1` normalises the zero offset: NaN witness points. -/
theorem closestPointsBallBall_negative_radius_nan :
    (match closestPointsBallBall (K := NaNable) ⟨some 0, some 0, some 0, some 1, ⟨some 0, some 0, some 0⟩⟩
        (some (-1)) (some 0) (some 2) with
      | some (.withinMargin p _) => Option.isSome (p.x : Option Rat)
      | _ => true) = false := by
  decide +kernel

/-- **C20 (`contact_ball_ball`, 3-D)**: defined for every finite pose, radii (any sign, **zero radii**) and prediction
(**`prediction = 0`**, negative) — **coincident centres included**: `distance_squared.is_zero()` selects the `x`-axis
fallback and nothing is normalised; identical balls are this case.  Otherwise the centre offset is normalised, which
needs the square-root *operation* not to vanish at the non-zero `|c|²` (`hu`: no underflow below the threshold `θ`;
trivially true for `θ = 0`, see `noUnderflow_zero`).  The penetration `sqrt |c|² - (r1 + r2)` is always defined. -/
theorem defined_contactBallBall {θ : K} (hs : SqrtPos sq θ) (pos12 : Iso3 K) (r1 r2 prediction : K)
    (hu : letI := fieldNum K sq; pos12.t.normSq = 0 ∨ θ < pos12.t.normSq) :
    letI := fieldNum K sq
    contactBallBall (liftIso3 pos12) (val r1) (val r2) (val prediction)
      = (contactBallBall pos12 r1 r2 prediction).map (liftContact3 sq) := by
  letI := fieldNum K sq
  simp only [contactBallBall, optsimp]
  split_ifs with h1 h2 h3
  · exfalso; exact absurd (normSq3_nonneg (sq := sq) pos12.t) (not_le.mpr h3)
  · have hne : sq pos12.t.normSq ≠ 0 := by
      rcases hu with hu | hu
      · exact absurd hu h2
      · exact hs.ne hu
    rw [lift3_normalize pos12.t hne]
    simp only [optsimp]
  · exfalso; exact absurd (normSq3_nonneg (sq := sq) pos12.t) (not_le.mpr (by assumption))
  · simp only [optsimp]
  · rfl

/-- **C20 (`contact_ball_ball`, dim2)**: as `defined_contactBallBall`. -/
theorem defined_contactBallBall2 {θ : K} (hs : SqrtPos sq θ) (pos12 : Iso2 K) (r1 r2 prediction : K)
    (hu : letI := fieldNum K sq; pos12.t.normSq = 0 ∨ θ < pos12.t.normSq) :
    letI := fieldNum K sq
    contactBallBall2 (liftIso2 pos12) (val r1) (val r2) (val prediction)
      = (contactBallBall2 pos12 r1 r2 prediction).map (liftContact2 sq) := by
  letI := fieldNum K sq
  simp only [contactBallBall2, optsimp]
  split_ifs with h1 h2 h3
  · exfalso; exact absurd (normSq2_nonneg (sq := sq) pos12.t) (not_le.mpr h3)
  · have hne : sq pos12.t.normSq ≠ 0 := by
      rcases hu with hu | hu
      · exact absurd hu h2
      · exact hs.ne hu
    rw [lift2_normalize pos12.t hne]
    simp only [optsimp]
  · exfalso; exact absurd (normSq2_nonneg (sq := sq) pos12.t) (not_le.mpr (by assumption))
  · simp only [optsimp]
  · rfl

/-- read a `NaNable` as the `Option ℚ` it is -/
def asRat (x : NaNable) : Option Rat := x

/-- the coincident-centre corner, evaluated: identical unit balls at the same place give the finite contact
`normal1 = x`, `dist = -2` at `NaNable` -/
theorem contactBallBall_coincident_finite :
    (match contactBallBall (K := NaNable) ⟨some 0, some 0, some 0, some 1, ⟨some 0, some 0, some 0⟩⟩
        (some 1) (some 1) (some 0) with
      | some c => (asRat c.normal1.x == some 1) && (asRat c.dist == some (-2)) && (asRat c.point2.x).isSome
      | none => false) = true := by
  decide +kernel

/-! ## Mirrored wrappers over an arbitrary canonical sibling, free functions -/

/-- the `match contact { … }` of `closest_points_{ball_convex_polyhedron, convex_polyhedron_ball}` -/
theorem defined_closestPointsOfContact (c : Option (Contact3 K)) :
    letI := fieldNum K sq
    closestPointsOfContact (c.map (liftContact3 sq)) = liftCP3 sq (closestPointsOfContact c) := by
  letI := fieldNum K sq
  rcases c with _ | c
  · rfl
  · simp only [Option.map_some, closestPointsOfContact, optsimp]
    split_ifs <;> rfl

/-- **C20 (`contact_ball_convex_polyhedron`, `closest_points_{convex_polyhedron_ball, ball_convex_polyhedron}`)**: the
wrappers add only `pos12.inverse()`, `flipped` and the `dist ≤ 0` test: defined wherever the canonical sibling `f` is. -/
theorem defined_ballWrappers (f : Iso3 (Opt K sq) → Option (Contact3 (Opt K sq))) (f' : Iso3 K → Option (Contact3 K))
    (hf : ∀ m, f (liftIso3 m) = (f' m).map (liftContact3 sq)) (pos12 : Iso3 K) :
    letI := fieldNum K sq
    contactBallCP f (liftIso3 pos12) = (contactBallCP f' pos12).map (liftContact3 sq) ∧
    closestPointsCPBall f (liftIso3 pos12) = liftCP3 sq (closestPointsCPBall f' pos12) ∧
    closestPointsBallCP f (liftIso3 pos12) = liftCP3 sq (closestPointsBallCP f' pos12) := by
  letI := fieldNum K sq
  have h1 : contactBallCP f (liftIso3 pos12) = (contactBallCP f' pos12).map (liftContact3 sq) := by
    simp only [contactBallCP, optsimp, hf, Option.map_map]; rfl
  refine ⟨h1, ?_, ?_⟩
  · simp only [closestPointsCPBall, hf, defined_closestPointsOfContact]
  · simp only [closestPointsBallCP, h1, defined_closestPointsOfContact]

/-- **C20 (`distance_ball_convex_polyhedron`, `intersection_test_ball_point_query`)**: `f(pos12.inverse())`. -/
theorem defined_ballWrappers_scalar (f : Iso3 (Opt K sq) → Opt K sq) (f' : Iso3 K → K)
    (g : Iso3 (Opt K sq) → Bool) (g' : Iso3 K → Bool)
    (hf : ∀ m, f (liftIso3 m) = val (f' m)) (hg : ∀ m, g (liftIso3 m) = g' m) (pos12 : Iso3 K) :
    letI := fieldNum K sq
    distanceBallCP f (liftIso3 pos12) = val (distanceBallCP f' pos12) ∧
    intersectionTestBallPQ g (liftIso3 pos12) = intersectionTestBallPQ g' pos12 := by
  simp only [distanceBallCP, intersectionTestBallPQ, optsimp, hf, hg, and_self]

/-- **C20 (`query::distance`, `query::intersection_test`)**: `pos12 = pos1.inv_mul(pos2)` is `+ - *` only: the free
functions are defined wherever the dispatcher-level function `d` is (any result type, lifted by `L`). -/
theorem defined_query {α β : Type} (L : β → α) (d : Iso3 (Opt K sq) → α) (d' : Iso3 K → β)
    (hd : ∀ m, d (liftIso3 m) = L (d' m)) (pos1 pos2 : Iso3 K) :
    letI := fieldNum K sq
    queryDistance d (liftIso3 pos1) (liftIso3 pos2) = L (queryDistance d' pos1 pos2) ∧
    queryIntersectionTest d (liftIso3 pos1) (liftIso3 pos2) = L (queryIntersectionTest d' pos1 pos2) := by
  simp only [queryDistance, queryIntersectionTest, optsimp, hd, and_self]

/-- **C20 (`query::closest_points`)**: `inv_mul`, then `transform_by(pos1, pos2)`. -/
theorem defined_queryClosestPoints (d : Iso3 (Opt K sq) → ClosestPoints3 (Opt K sq)) (d' : Iso3 K → ClosestPoints3 K)
    (hd : ∀ m, d (liftIso3 m) = liftCP3 sq (d' m)) (pos1 pos2 : Iso3 K) :
    letI := fieldNum K sq
    queryClosestPoints d (liftIso3 pos1) (liftIso3 pos2) = liftCP3 sq (queryClosestPoints d' pos1 pos2) := by
  simp only [queryClosestPoints, optsimp, hd]

/-- **C20 (`query::contact`)**: `inv_mul`, then `transform_by_mut(pos1, pos2)`. -/
theorem defined_queryContact (d : Iso3 (Opt K sq) → Option (Contact3 (Opt K sq))) (d' : Iso3 K → Option (Contact3 K))
    (hd : ∀ m, d (liftIso3 m) = (d' m).map (liftContact3 sq)) (pos1 pos2 : Iso3 K) :
    letI := fieldNum K sq
    queryContact d (liftIso3 pos1) (liftIso3 pos2) = (queryContact d' pos1 pos2).map (liftContact3 sq) := by
  letI := fieldNum K sq
  simp only [queryContact, optsimp, hd, Option.map_map]
  rfl

/-- **C20 (`query::cast_shapes`)**: `pos12 = pos1.inv_mul(pos2)`, `vel12 = pos1⁻¹ (vel2 - vel1)` (zero relative
velocity included): defined wherever the dispatcher-level cast `d` is. -/
theorem defined_queryCastShapes {α β : Type} (L : β → α) (d : Iso3 (Opt K sq) → V3 (Opt K sq) → α)
    (d' : Iso3 K → V3 K → β) (hd : ∀ m v, d (liftIso3 m) (lift3 v) = L (d' m v)) (pos1 pos2 : Iso3 K)
    (vel1 vel2 : V3 K) :
    letI := fieldNum K sq
    queryCastShapes d (liftIso3 pos1) (lift3 vel1) (liftIso3 pos2) (lift3 vel2)
      = L (queryCastShapes d' pos1 vel1 pos2 vel2) := by
  simp only [queryCastShapes, optsimp, hd]

/-- **C20 (`query::contact`, `query::distance` / `intersection_test`, dim2)**. -/
theorem defined_query2 {α β : Type} (L : β → α) (e : Iso2 (Opt K sq) → α) (e' : Iso2 K → β)
    (he : ∀ m, e (liftIso2 m) = L (e' m))
    (d : Iso2 (Opt K sq) → Option (Contact2 (Opt K sq))) (d' : Iso2 K → Option (Contact2 K))
    (hd : ∀ m, d (liftIso2 m) = (d' m).map (liftContact2 sq)) (pos1 pos2 : Iso2 K) :
    letI := fieldNum K sq
    queryContact2 d (liftIso2 pos1) (liftIso2 pos2) = (queryContact2 d' pos1 pos2).map (liftContact2 sq) ∧
    queryScalar2 e (liftIso2 pos1) (liftIso2 pos2) = L (queryScalar2 e' pos1 pos2) := by
  letI := fieldNum K sq
  refine ⟨?_, ?_⟩
  · simp only [queryContact2, optsimp, hd, Option.map_map]
    rfl
  · simp only [queryScalar2, optsimp, he]

/-! ## The closed-form corner of the dispatcher, and the four verdicts of C02 -/

/-- side condition of `contact`: for a ball/ball pair the squared centre distance is zero (coincident centres) or above
the threshold of the square-root operation; vacuous for every other pair, and for `θ = 0`. -/
def ContactSide (θ : K) : Shape3 K → Shape3 K → Iso3 K → Prop
  | .ball _, .ball _, m => letI := fieldNum K sq; m.t.normSq = 0 ∨ θ < m.t.normSq
  | _, _, _ => True
def ContactSide2 (θ : K) : Shape2 K → Shape2 K → Iso2 K → Prop
  | .ball _, .ball _, m => letI := fieldNum K sq; m.t.normSq = 0 ∨ θ < m.t.normSq
  | _, _, _ => True
/-- side condition of `closest_points`: ball/ball: `r1 + r2 ≥ 0`; half-space/ball: the half-space normal is not (nearly)
zero (a `Unit` normal has `|n|² = 1`); vacuous for the cuboid pairs. -/
def ClosestPointsSide (θ : K) : Shape3 K → Shape3 K → Prop
  | .ball r1, .ball r2 => 0 ≤ r1 + r2
  | .halfspace n, .ball _ => letI := fieldNum K sq; θ < n.normSq
  | .ball _, .halfspace n => letI := fieldNum K sq; θ < n.normSq
  | _, _ => True

/-- **C20 (`DefaultQueryDispatcher::contact` on ball/ball, half-space/{ball, cuboid}, {ball, cuboid}/half-space)**:
defined for every finite shapes (zero radius, zero half-extents, non-unit normals), pose and prediction under the
ball/ball no-underflow side condition only; the other pairs (`none`: another route) are `none` on both sides. -/
theorem defined_detailsContact {θ : K} (hs : SqrtPos sq θ) (s1 s2 : Shape3 K) (pos12 : Iso3 K) (prediction : K)
    (hu : ContactSide sq θ s1 s2 pos12) :
    letI := fieldNum K sq
    detailsContact (liftShape3 sq s1) (liftShape3 sq s2) (liftIso3 pos12) (val prediction)
      = (detailsContact s1 s2 pos12 prediction).map (Option.map (liftContact3 sq)) := by
  letI := fieldNum K sq
  rcases s1 with r1 | he1 | n1 <;> rcases s2 with r2 | he2 | n2
  · exact congrArg some (defined_contactBallBall sq hs _ _ _ _ hu)
  · rfl
  · exact congrArg some (defined_contactSH sq _ _ _ _ _ (defined_ball_supportToward sq r1 _ _ Iso2.identity V2.zero).1)
  · rfl
  · rfl
  · exact congrArg some (defined_contactSH sq _ _ _ _ _ (defined_cuboid_support sq _ _ _).1)
  · exact congrArg some (defined_contactHS sq _ _ _ _ _ (defined_ball_supportToward sq r2 _ _ Iso2.identity V2.zero).1)
  · exact congrArg some (defined_contactHS sq _ _ _ _ _ (defined_cuboid_support sq _ _ _).1)
  · rfl

/-- **C20 (`DefaultQueryDispatcher::contact`, dim2)**. -/
theorem defined_detailsContact2 {θ : K} (hs : SqrtPos sq θ) (s1 s2 : Shape2 K) (pos12 : Iso2 K) (prediction : K)
    (hu : ContactSide2 sq θ s1 s2 pos12) :
    letI := fieldNum K sq
    detailsContact2 (liftShape2 sq s1) (liftShape2 sq s2) (liftIso2 pos12) (val prediction)
      = (detailsContact2 s1 s2 pos12 prediction).map (Option.map (liftContact2 sq)) := by
  letI := fieldNum K sq
  rcases s1 with r1 | he1 | n1 <;> rcases s2 with r2 | he2 | n2
  · exact congrArg some (defined_contactBallBall2 sq hs _ _ _ _ hu)
  · rfl
  · exact congrArg some (defined_contactSH2 sq _ _ _ _ _ (defined_ball_supportToward sq r1 Iso3.identity V3.zero _ _).2)
  · rfl
  · rfl
  · exact congrArg some (defined_contactSH2 sq _ _ _ _ _ (defined_cuboid_support2 sq _ _ _).1)
  · exact congrArg some (defined_contactHS2 sq _ _ _ _ _ (defined_ball_supportToward sq r2 Iso3.identity V3.zero _ _).2)
  · exact congrArg some (defined_contactHS2 sq _ _ _ _ _ (defined_cuboid_support2 sq _ _ _).1)
  · rfl

/-- **C20 (`DefaultQueryDispatcher::{distance, intersection_test}` on the closed-form pairs)**: defined for **every**
finite shapes and pose, no side condition (coincident centres, zero radii, zero half-extents, touching). -/
theorem defined_detailsDistance (s1 s2 : Shape3 K) (pos12 : Iso3 K) :
    letI := fieldNum K sq
    detailsDistance (liftShape3 sq s1) (liftShape3 sq s2) (liftIso3 pos12)
      = (detailsDistance s1 s2 pos12).map val ∧
    detailsIntersectionTest (liftShape3 sq s1) (liftShape3 sq s2) (liftIso3 pos12)
      = detailsIntersectionTest s1 s2 pos12 := by
  letI := fieldNum K sq
  rcases s1 with r1 | he1 | n1 <;> rcases s2 with r2 | he2 | n2
  · exact ⟨congrArg some (defined_distanceBallBall sq _ _ _), congrArg some (defined_intersectionTestBallBall sq _ _ _)⟩
  · exact ⟨rfl, rfl⟩
  · have h := defined_distanceSH sq pos12 n2 _ _
      (defined_ball_supportToward sq r1 pos12.inverse n2.neg Iso2.identity V2.zero).1
    exact ⟨congrArg some h.1, congrArg some h.2⟩
  · exact ⟨rfl, rfl⟩
  · exact ⟨rfl, rfl⟩
  · have h := defined_distanceSH sq pos12 n2 _ _ (defined_cuboid_support sq he1 pos12.inverse n2.neg).1
    exact ⟨congrArg some h.1, congrArg some h.2⟩
  · have h := defined_distanceHS sq pos12 n1 _ _
      (defined_ball_supportToward sq r2 pos12 n1.neg Iso2.identity V2.zero).1
    exact ⟨congrArg some h.1, congrArg some h.2⟩
  · have h := defined_distanceHS sq pos12 n1 _ _ (defined_cuboid_support sq he2 pos12 n1.neg).1
    exact ⟨congrArg some h.1, congrArg some h.2⟩
  · exact ⟨rfl, rfl⟩

/-- **C20 (`DefaultQueryDispatcher::closest_points` on the closed-form pairs)**: defined under `ClosestPointsSide`
(non-negative radius sum; non-degenerate half-space normal against a ball), any margin (negative = panic = `none`). -/
theorem defined_detailsClosestPoints {θ : K} (hs : SqrtPos sq θ) (s1 s2 : Shape3 K) (pos12 : Iso3 K) (margin : K)
    (hc : ClosestPointsSide sq θ s1 s2) :
    letI := fieldNum K sq
    detailsClosestPoints (liftShape3 sq s1) (liftShape3 sq s2) (liftIso3 pos12) (val margin)
      = (detailsClosestPoints s1 s2 pos12 margin).map (Option.map (liftCP3 sq)) := by
  letI := fieldNum K sq
  rcases s1 with r1 | he1 | n1 <;> rcases s2 with r2 | he2 | n2
  · exact congrArg some (defined_closestPointsBallBall sq _ _ _ _ (Or.inl hc))
  · rfl
  · exact congrArg some (defined_closestPointsSH sq _ _ _ _ _
      (defined_ball_support sq hs _ _ _ (by rw [neg_normSq3]; exact hc)))
  · rfl
  · rfl
  · exact congrArg some (defined_closestPointsSH sq _ _ _ _ _ (defined_cuboid_support sq _ _ _).2)
  · exact congrArg some (defined_closestPointsHS sq _ _ _ _ _
      (defined_ball_support sq hs _ _ _ (by rw [neg_normSq3]; exact hc)))
  · exact congrArg some (defined_closestPointsHS sq _ _ _ _ _ (defined_cuboid_support sq _ _ _).2)
  · rfl

@[optsimp] private theorem liftCP3_isIntersecting (c : ClosestPoints3 K) :
    (liftCP3 sq c).isIntersecting = c.isIntersecting := by cases c <;> rfl
@[optsimp] private theorem liftContact3_nonPositive (c : Option (Contact3 K)) :
    letI := fieldNum K sq
    contactNonPositive (c.map (liftContact3 sq)) = contactNonPositive c := by
  cases c <;> rfl

private theorem mkVerdicts_lift (it : Option Bool) (d : Option K) (cp : Option (Option (ClosestPoints3 K)))
    (c : Option (Option (Contact3 K))) :
    letI := fieldNum K sq
    mkVerdicts it (d.map (val : K → Opt K sq)) (cp.map (Option.map (liftCP3 sq)))
        (c.map (Option.map (liftContact3 sq)))
      = mkVerdicts it d cp c := by
  letI := fieldNum K sq
  rcases it with _ | it <;> rcases d with _ | d <;> rcases cp with _ | _ | cp <;> rcases c with _ | c <;> try rfl
  simp only [Option.map_some, mkVerdicts, val_neq, val_zero, liftCP3_isIntersecting, liftContact3_nonPositive]

/-- **C20 (the four overlap verdicts of C02: `intersection_test`, `distance == 0`, `closest_points == Intersecting`,
`contact.dist ≤ 0`)**: on every closed-form pair the NaN-propagating evaluation gives *the same four booleans* (or the
same `none`) as the exact one — in particular none of the verdicts is decided by a comparison with a NaN — for every
finite pose, margin and prediction (0 included), coincident centres, zero radii and touching configurations, under the
two side conditions. -/
theorem defined_verdicts {θ : K} (hs : SqrtPos sq θ) (s1 s2 : Shape3 K) (pos12 : Iso3 K) (margin prediction : K)
    (hu : ContactSide sq θ s1 s2 pos12) (hc : ClosestPointsSide sq θ s1 s2) :
    letI := fieldNum K sq
    verdicts (liftShape3 sq s1) (liftShape3 sq s2) (liftIso3 pos12) (val margin) (val prediction)
      = verdicts s1 s2 pos12 margin prediction := by
  letI := fieldNum K sq
  simp only [verdicts, defined_detailsContact sq hs s1 s2 pos12 prediction hu,
    defined_detailsClosestPoints sq hs s1 s2 pos12 margin hc, (defined_detailsDistance sq s1 s2 pos12).1,
    (defined_detailsDistance sq s1 s2 pos12).2, mkVerdicts_lift]

/-- the side conditions are satisfiable on non-trivial input: a lawful square root (`θ = 0`), two unit balls at distance
`3` / a unit normal -/
example : ContactSide (fun x : ℚ => x) 0 (.ball 1) (.ball 1) ⟨0, 0, 0, 1, ⟨3, 0, 0⟩⟩ ∧
    ClosestPointsSide (fun x : ℚ => x) 0 (.ball 1) (.ball 1) ∧
    ClosestPointsSide (fun x : ℚ => x) 0 (.halfspace ⟨0, 1, 0⟩) (.ball 1) := by
  refine ⟨Or.inr ?_, ?_, ?_⟩ <;> simp [ClosestPointsSide, V3.normSq, V3.dot]

end C20
