import ParryModel.C20.Theorems
#print axioms C20.div_fin
#print axioms C20.nmin_fin
#print axioms C20.nmax_fin
#print axioms C20.nabs_fin
#print axioms C20.interval_ops_defined
#print axioms C20.cuboid_scaled_defined
#print axioms C20.defined_seg3_projectLoc
