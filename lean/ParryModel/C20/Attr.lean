import Lean
/-- simp set that pushes `val`/`lift` outward through the `Num` operations of a model function evaluated at `Opt K sq` -/
register_simp_attr optsimp
