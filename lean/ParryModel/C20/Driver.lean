import ParryModel.Proto
import ParryModel.C13.Model
import ParryModel.C14.Model
import ParryModel.C20.Model
/-!
# C20 protocol handlers: totality oracle for C20's own stream of degenerate-but-valid inputs (`harness/src/c20.rs`)

Every case is `C20 <fn><dim> <class> <args…> | <labelled output>`.  The generic oracle demands: no panic, every float of
the output finite (refusals `none` / `unsup` / `noshape` are accepted).  The verdict names the function, the degenerate
class, the shape kinds and the output label after which the first non-finite float was printed, so that a finding can be
keyed narrowly.  Closed-form expectations on top of that:
* `clipn2`  — the output points equal `C14.clipSegSegWithNormal` at `Float` bit for bit (the model whose definedness for
  every input is `C20.defined_c14_clipSegSegWithNormal`);
* `trim2/3` — `area² = |ab|²|ac|² − (ab·ac)²) / 4` exactly (Lagrange), judged in `Rat` with a rounding tolerance; 2-D: the
  area equals `C13.triArea` at `Float` bit for bit;
* `cm2/3` with a ball as second shape and a segment / triangle as first — when the ball centre is exactly ON the first
  shape (exact `Rat` membership test) and `radius + prediction ≥ 0`, the manifold must contain a contact (dist = 0 − radius).
-/
namespace C20
open Model Proto

def kinds : List String := ["ball", "cub", "cap", "seg", "tri", "hs", "hull", "cyl", "cone", "rcub", "tm", "pl", "comp"]

def isHex16 (t : String) : Bool :=
  t.length == 16 && t.all (fun c => c.isDigit || ('a' ≤ c && c ≤ 'f'))
def nonFinite (t : String) : Bool :=
  t == "nan" || (isHex16 t && (t.startsWith "7ff" || t.startsWith "fff"))

/-- the label (last non-float token) before the first non-finite float -/
def firstBad : List String → String → Option String
  | [], _ => none
  | t :: ts, lab =>
    if nonFinite t then some lab
    else if isHex16 t || t.all Char.isDigit then firstBad ts lab else firstBad ts t

def tag (fn : String) (args : List String) : String :=
  let cls := args.headD "?"
  let pair := "/".intercalate (args.filter (kinds.contains ·))
  s!"fn={fn} cls={cls} shapes={pair}"

/-- generic totality verdict; `none` = nothing objectionable -/
def generic (fn : String) (args out : List String) : Option String :=
  match out with
  | [] => some "skip no-output"
  | "panic" :: rest => some s!"fail panic {rest.headD "?"} {tag fn args}"
  | _ =>
    match firstBad out "start" with
    | some lab => some s!"fail nan-in-output at={lab} {tag fn args}"
    | none => none

/-! ## exact helpers on coordinate lists (dimension-generic) -/
abbrev RV := List Rat
def rdot (a b : RV) : Rat := (List.zipWith (· * ·) a b).foldl (· + ·) 0
def rsub (a b : RV) : RV := List.zipWith (· - ·) a b
def pvecN (d : Nat) : P (List Float) := do
  let rec go : Nat → P (List Float)
    | 0 => pure []
    | k+1 => do let x ← pf; let xs ← go k; pure (x :: xs)
  go d
def qs (v : List Float) : RV := v.map q

/-- `p` on the closed segment `[a, b]` (a point when `a = b`) -/
def onSegment (a b p : RV) : Bool :=
  let d := rsub b a; let w := rsub p a
  let dd := rdot d d; let wd := rdot w d; let ww := rdot w w
  if dd == 0 then ww == 0 else ww * dd - wd * wd == 0 && 0 ≤ wd && wd ≤ dd
/-- `p` in the closed triangle `abc` (any dimension; a flat triangle is the union of its edges) -/
def onTriangle (a b c p : RV) : Bool :=
  let u := rsub b a; let v := rsub c a; let w := rsub p a
  let uu := rdot u u; let vv := rdot v v; let uv := rdot u v
  let det := uu * vv - uv * uv
  if det == 0 then onSegment a b p || onSegment b c p || onSegment c a p
  else
    let wu := rdot w u; let wv := rdot w v
    let s := (vv * wu - uv * wv) / det
    let t := (uu * wv - uv * wu) / det
    let r := rsub w ((u.map (· * s)).zipWith (· + ·) (v.map (· * t)))
    rdot r r == 0 && 0 ≤ s && 0 ≤ t && s + t ≤ 1

/-- the part of a manifold print `nm k (n1 v n2 v np k (p1 p2 dist)*)*` up to `warm`: total number of contact points -/
def coldPoints : List String → Nat
  | [] => 0
  | "warm" :: _ => 0
  | "np" :: k :: rest => k.toNat!.succ.pred + coldPoints rest
  | _ :: rest => coldPoints rest

/-- `cm<d> <cls> <s1> <s2> <iso12> <pred>` with `s1 ∈ {seg, tri}`, `s2 = ball`: centre on shape ⇒ a contact -/
def cmExpect (d : Nat) (fn : String) (args out : List String) : Option String :=
  let p : P (Bool × Rat × Rat) := do
    let _cls ← tok
    let k1 ← tok
    let vs ← (if k1 == "seg" then do let a ← pvecN d; let b ← pvecN d; pure [a, b]
              else if k1 == "tri" then do let a ← pvecN d; let b ← pvecN d; let c ← pvecN d; pure [a, b, c]
              else failure)
    let k2 ← tok
    if k2 != "ball" then failure
    let r ← pf
    -- iso: 2-D `re im t(2)`, 3-D `qi qj qk qw t(3)`
    let _rot ← pvecN (if d == 2 then 2 else 4)
    let t ← pvecN d
    let pred ← pf
    pend
    let on := match vs.map qs with
      | [a, b] => onSegment a b (qs t)
      | [a, b, c] => onTriangle a b c (qs t)
      | _ => false
    pure (on, q r, q pred)
  match run p args with
  | some (true, r, pred) =>
    if 0 < r && 0 ≤ pred && coldPoints out == 0 && out.head? != some "unsup" then
      some s!"fail nan-or-missing-contact ball-centre-on-shape-but-empty-manifold {tag fn args}"
    else none
  | _ => none

/-- `clipn2 <cls> a1 b1 a2 b2 n`: bit-exact against the C14 model -/
def clipnExpect (fn : String) (args out : List String) : Option String :=
  let p : P (Option (C14.ClipPt Float × C14.ClipPt Float)) := do
    let _ ← tok
    let a1 ← pv2; let b1 ← pv2; let a2 ← pv2; let b2 ← pv2; let n ← pv2; pend
    pure (C14.clipSegSegWithNormal a1 b1 a2 b2 n)
  match run p args with
  | none => some "skip unparsable-input"
  | some m =>
    let want := match m with
      | none => ["none"]
      | some (ca, cb) => [fv2 ca.p1, fv2 ca.p2, fv2 cb.p1, fv2 cb.p2]
    let got := match out with
      | ["none"] => ["none"]
      | ["ca", a, b, c, d, _, _, "cb", e, f, g, h, _, _] => [s!"{a} {b}", s!"{c} {d}", s!"{e} {f}", s!"{g} {h}"]
      | _ => ["?"]
    if want == got then none else some s!"fail non-finite-or-model-differs clip_segment_segment_with_normal {tag fn args}"

/-- `trim<d> <cls> a b c | area A …`: Lagrange identity in `Rat`; 2-D also bit-exact against `C13.triArea` -/
def trimExpect (d : Nat) (fn : String) (args out : List String) : Option String :=
  let p : P (List Float × List Float × List Float) := do
    let _ ← tok; let a ← pvecN d; let b ← pvecN d; let c ← pvecN d; pend; pure (a, b, c)
  match run p args, out with
  | some (a, b, c), "area" :: ar :: _ =>
    match FloatIO.ofHex? ar with
    | none => none      -- `nan`: reported by the generic clause
    | some A =>
      let u := rsub (qs b) (qs a); let v := rsub (qs c) (qs a); let w := rsub (qs c) (qs b)
      let e := (rdot u u * rdot v v - rdot u v * rdot u v) / 4
      let s := rdot u u + rdot v v + rdot w w
      let a2 := q A * q A
      if q A < 0 then some s!"fail non-finite-or-negative-area {tag fn args}"
      else if !(leTol a2 (e + tolDefault * s * s) tolDefault && leTol e (a2 + tolDefault * s * s) tolDefault) then
        some s!"fail non-finite-or-wrong-area {tag fn args}"
      else if d == 2 then
        match a, b, c with
        | [ax, ay], [bx, b_y], [cx, cy] =>
          let m := Mass.triArea (⟨⟨ax, ay⟩, ⟨bx, b_y⟩, ⟨cx, cy⟩⟩ : Triangle2 Float)
          if ff m == ar then none else some s!"fail non-finite-or-model-differs Triangle::area {tag fn args}"
        | _, _, _ => none
      else none
  | _, _ => none

/-- `sup<d> <cls> <shape> dir(d)`: a zero direction (or one whose squared norm underflows binary64) has no unit vector: for the
round shapes (`dir.normalize() * radius`) this is outside the domain of `local_support_point` (as in C10) -/
def supInvalid (d : Nat) (args : List String) : Bool :=
  let dirToks := (args.reverse.take d).reverse
  match run (pvecN d) dirToks with
  | some v => let w := qs v; rdot w w < 1 / (2 : Rat) ^ 1000
  | none => false

/-- `trim<d>`: `Triangle::perimeter` and `Triangle::circumcircle` equal the C20 models at `Float` bit for bit -/
def trimModelExpect (d : Nat) (fn : String) (args out : List String) : Option String :=
  let p : P (List Float × List Float × List Float) := do
    let _ ← tok; let a ← pvecN d; let b ← pvecN d; let c ← pvecN d; pend; pure (a, b, c)
  let field (lab : String) (n : Nat) : List String := ((out.dropWhile (· != lab)).drop 1).take n
  match run p args with
  | some ([ax, ay, az], [bx, b_y, bz], [cx, cy, cz]) =>
    let A : V3 Float := ⟨ax, ay, az⟩; let B : V3 Float := ⟨bx, b_y, bz⟩; let C : V3 Float := ⟨cx, cy, cz⟩
    let cc := triCircumcircle3 A B C
    let sn := triScaledNormal3 A B C
    let wantN := match triNormal3 A B C with | none => ["none"] | some v => [ff v.x, ff v.y, ff v.z]
    if field "per" 1 != [ff (triPerimeter3 A B C)] then some s!"fail non-finite-or-model-differs Triangle::perimeter {tag fn args}"
    else if field "cc" 4 != [ff cc.1.x, ff cc.1.y, ff cc.1.z, ff cc.2] then
      some s!"fail non-finite-or-model-differs Triangle::circumcircle {tag fn args}"
    else if field "sn" 3 != [ff sn.x, ff sn.y, ff sn.z] then some s!"fail non-finite-or-model-differs Triangle::scaled_normal {tag fn args}"
    else if field "n" wantN.length != wantN then some s!"fail non-finite-or-model-differs Triangle::normal {tag fn args}"
    else none
  | some ([ax, ay], [bx, b_y], [cx, cy]) =>
    let A : V2 Float := ⟨ax, ay⟩; let B : V2 Float := ⟨bx, b_y⟩; let C : V2 Float := ⟨cx, cy⟩
    let cc := triCircumcircle2 A B C
    if field "per" 1 != [ff (triPerimeter2 A B C)] then some s!"fail non-finite-or-model-differs Triangle::perimeter {tag fn args}"
    else if field "cc" 3 != [ff cc.1.x, ff cc.1.y, ff cc.2] then
      some s!"fail non-finite-or-model-differs Triangle::circumcircle {tag fn args}"
    else none
  | _ => none

/-- `segm<d> <cls> a b`: `Segment::length` and `Segment::direction` equal the C20 models at `Float` bit for bit -/
def segmModelExpect (d : Nat) (fn : String) (args out : List String) : Option String :=
  let p : P (List Float × List Float) := do
    let _ ← tok; let a ← pvecN d; let b ← pvecN d; pend; pure (a, b)
  let field (lab : String) (n : Nat) : List String := ((out.dropWhile (· != lab)).drop 1).take n
  let judge (len : Float) (dir : Option (List Float)) : Option String :=
    let wantDir := match dir with | none => ["none"] | some v => v.map ff
    if field "len" 1 != [ff len] then some s!"fail non-finite-or-model-differs Segment::length {tag fn args}"
    else if field "dir" wantDir.length != wantDir then some s!"fail non-finite-or-model-differs Segment::direction {tag fn args}"
    else none
  match run p args with
  | some ([ax, ay, az], [bx, b_y, bz]) =>
    let A : V3 Float := ⟨ax, ay, az⟩; let B : V3 Float := ⟨bx, b_y, bz⟩
    judge (segLength3 A B) ((segDirection3 A B).map fun v => [v.x, v.y, v.z])
  | some ([ax, ay], [bx, b_y]) =>
    let A : V2 Float := ⟨ax, ay⟩; let B : V2 Float := ⟨bx, b_y⟩
    judge (segLength2 A B) ((segDirection2 A B).map fun v => [v.x, v.y])
  | _ => none

def fcontacts (l : List (C14.Contact2 Float)) : List String :=
  s!"{l.length}" :: l.flatMap fun c => [ff c.p1.x, ff c.p1.y, ff c.p2.x, ff c.p2.y, ff c.dist]

/-- `pff2` / `pfv2`: bit-exact against `faceFaceContacts2` / `faceVertexContacts2`.  For `pfv2` a zero denominator
(`normal1 ⟂ sep_axis1`, in particular a zero-length face) is outside the documented precondition ("we already know that at
least one contact exists" along `sep_axis1`): skipped, the division is unguarded (`faceVertexContacts2_zero_face_nan`). -/
def pfeatExpect (fn : String) (args out : List String) : Option String :=
  if fn == "pff2" then
    let p : P (List (C14.Contact2 Float)) := do
      let _ ← tok; let a1 ← pv2; let b1 ← pv2; let a2 ← pv2; let b2 ← pv2; let m ← piso2; let n ← pv2; let fl ← pbool; pend
      pure (faceFaceContacts2 m a1 b1 a2 b2 n fl)
    match run p args with
    | none => some "skip unparsable-input"
    | some l => if out.drop 1 == fcontacts l then none
                else some s!"fail non-finite-or-model-differs PolygonalFeature::face_face_contacts {tag fn args}"
  else
    let p : P (C14.Contact2 Float × Bool) := do
      let _ ← tok; let a1 ← pv2; let b1 ← pv2; let v2 ← pv2; let m ← piso2; let sep ← pv2; let fl ← pbool; pend
      let t := q2 (b1.sub a1); let s := q2 sep
      pure (faceVertexContacts2 m a1 b1 v2 sep fl, (-t.y) * s.x + t.x * s.y == 0)
    match run p args with
    | none => some "skip unparsable-input"
    | some (c, zeroDenom) =>
      if zeroDenom then some "skip face-normal-perpendicular-to-separating-axis"
      else if out.drop 1 == fcontacts [c] then none
      else some s!"fail non-finite-or-model-differs PolygonalFeature::face_vertex_contacts {tag fn args}"

def fns : List String :=
  ["dist", "cp", "ct", "it", "cm", "cast", "nl", "ray", "proj", "mass", "bv", "trim", "segm", "clip", "clipn", "clipal", "cliphp", "sup", "pff", "pfv"]

def handler (fn : String) : Option Handler :=
  let base := (fn.dropEnd 1).toString
  let d : Nat := if fn.endsWith "2" then 2 else 3
  if !(fns.contains base && (fn.endsWith "2" || fn.endsWith "3")) then none else
  some {
    -- the model leg of this stream lives inside the oracle (bit-exact comparisons for the closed forms): the sweep of
    -- `./check C20` compares nothing else
    model := fun _ => some "-"
    oracle := fun args out =>
      if out.contains "noshape" then "skip shape-constructor-refused" else
      -- bit-exact model comparisons first (they also cover the outputs next to a NaN that the generic clause reports)
      match (if base == "trim" then trimModelExpect d fn args out else if base == "segm" then segmModelExpect d fn args out
             else if base == "pff" || base == "pfv" then pfeatExpect fn args out else none) with
      | some v => v
      | none =>
      match generic fn args out with
      | some v => if base == "sup" && supInvalid d args then "skip zero-or-underflowing-support-direction" else v
      | none =>
        let extra :=
          if base == "cm" then cmExpect d fn args out
          else if base == "clipn" then clipnExpect fn args out
          else if base == "trim" then trimExpect d fn args out
          else none
        extra.getD "pass" }

end C20
