import ParryModel.C20.Theorems6
import ParryModel.C20.Theorems10
set_option linter.style.haveILetI false
set_option linter.unusedSimpArgs false
set_option linter.unusedSectionVars false
set_option linter.unusedVariables false
/-!
# C20, part 15: specialisations of part 10 to `NaNable` (the `Option ℚ` scalar of `Num.lean` that the witnesses are decided at)
-/
namespace C20
open Model C14

/-- `clip_segment_segment_with_normal` at `NaNable`: EVERY finite pair of segments and normal — the NaN-propagating evaluation
returns exactly the (finite) clip points of the exact evaluation, or `None` with it. -/
theorem nanable_defined_clipSegSegWithNormal (a1 b1 a2 b2 n : V2 ℚ) :
    @clipSegSegWithNormal NaNable instNumNaNable (lift2 (sq := ratSqrt) a1) (lift2 (sq := ratSqrt) b1)
        (lift2 (sq := ratSqrt) a2) (lift2 (sq := ratSqrt) b2) (lift2 (sq := ratSqrt) n)
      = (@clipSegSegWithNormal ℚ (fieldNum ℚ ratSqrt) a1 b1 a2 b2 n).map (liftClipPtPair ratSqrt) :=
  nanable_transfer (fun inst => @clipSegSegWithNormal (Option ℚ) inst (lift2 (sq := ratSqrt) a1) (lift2 (sq := ratSqrt) b1)
        (lift2 (sq := ratSqrt) a2) (lift2 (sq := ratSqrt) b2) (lift2 (sq := ratSqrt) n)
      = (@clipSegSegWithNormal ℚ (fieldNum ℚ ratSqrt) a1 b1 a2 b2 n).map (liftClipPtPair ratSqrt))
    (defined_c14_clipSegSegWithNormal ratSqrt a1 b1 a2 b2 n)

/-- consequence in the "every returned float is finite" form: whenever the NaN-propagating evaluation returns clip points,
all eight coordinates are `some`. -/
theorem nanable_clipSegSegWithNormal_finite (a1 b1 a2 b2 n : V2 ℚ) (ca cb : ClipPt NaNable)
    (h : @clipSegSegWithNormal NaNable instNumNaNable (lift2 (sq := ratSqrt) a1) (lift2 (sq := ratSqrt) b1)
        (lift2 (sq := ratSqrt) a2) (lift2 (sq := ratSqrt) b2) (lift2 (sq := ratSqrt) n) = some (ca, cb)) :
    (ca.p1.x.isSome ∧ ca.p1.y.isSome ∧ ca.p2.x.isSome ∧ ca.p2.y.isSome) ∧
    (cb.p1.x.isSome ∧ cb.p1.y.isSome ∧ cb.p2.x.isSome ∧ cb.p2.y.isSome) := by
  rw [nanable_defined_clipSegSegWithNormal] at h
  cases hr : @clipSegSegWithNormal ℚ (fieldNum ℚ ratSqrt) a1 b1 a2 b2 n with
  | none => rw [hr] at h; cases h
  | some r =>
    rw [hr] at h
    simp only [Option.map_some, Option.some.injEq] at h
    obtain ⟨r1, r2⟩ := r
    have h' : (liftClipPt ratSqrt r1, liftClipPt ratSqrt r2) = (ca, cb) := Option.some.inj h
    obtain ⟨h1, h2⟩ := Prod.mk.inj h'
    subst h1 h2
    exact ⟨⟨rfl, rfl, rfl, rfl⟩, ⟨rfl, rfl, rfl, rfl⟩⟩

/-- `try_update_contacts_eps` (3-D) at `NaNable`: every finite pose, manifold and pair of thresholds. -/
theorem nanable_defined_tuc3 (pos12 : Iso3 ℚ) (m : Manifold3 ℚ) (thr dsq : ℚ) :
    @tuc3 NaNable instNumNaNable (liftIso3 (sq := ratSqrt) pos12) (liftManifold3 ratSqrt m) (val (sq := ratSqrt) thr) (val (sq := ratSqrt) dsq)
      = liftBM3 ratSqrt (@tuc3 ℚ (fieldNum ℚ ratSqrt) pos12 m thr dsq) :=
  nanable_transfer (fun inst => @tuc3 (Option ℚ) inst (liftIso3 (sq := ratSqrt) pos12) (liftManifold3 ratSqrt m)
        (val (sq := ratSqrt) thr) (val (sq := ratSqrt) dsq)
      = liftBM3 ratSqrt (@tuc3 ℚ (fieldNum ℚ ratSqrt) pos12 m thr dsq))
    (defined_c14_tuc ratSqrt pos12 m Iso2.identity ⟨[], ⟨0, 0⟩, ⟨0, 0⟩⟩ thr dsq).1

end C20
