import ParryModel.C20.Lemmas
import ParryModel.C20.Theorems9
import ParryModel.C20.Theorems10
import ParryModel.C20.Model
set_option linter.style.haveILetI false
set_option linter.unusedSimpArgs false
set_option linter.unusedSectionVars false
set_option linter.unusedVariables false
/-!
# C20 definedness theorems, part 18: the 2-D `PolygonalFeature` contact generators behind `contact_manifold_pfm_pfm`

`face_face_contacts` is `clip_segment_segment_with_normal` (total, part 10) followed by sums and products: total.
`face_vertex_contacts` divides by `−(normal1 · sep_axis1)` without a guard: defined exactly when the face normal is not
perpendicular to the separating axis — a **zero-length face** (the support feature of a zero-length `Segment`) makes the
normal the zero vector and the distance `0/0` (`faceVertexContacts2_zero_face_nan`).  In 2-D every polygonal feature map of
parry returns two-vertex features, so the dispatcher reaches only `face_face_contacts`; the other function is public API.
-/
namespace C20
open Model C14

variable {K : Type} [Field K] [LinearOrder K] [IsStrictOrderedRing K] (sq : K → K)

/-- **C20 (`PolygonalFeature::face_face_contacts`, 2-D)**: defined for EVERY pair of finite faces (zero-length ones, faces
parallel to the normal), every pose, normal (zero included) and flip flag. -/
theorem defined_faceFaceContacts2 (pos12 : Iso2 K) (a1 b1 a2 b2 n1 : V2 K) (flipped : Bool) : letI := fieldNum K sq
    faceFaceContacts2 (liftIso2 pos12 : Iso2 (Opt K sq)) (lift2 a1) (lift2 b1) (lift2 a2) (lift2 b2) (lift2 n1) flipped
      = (faceFaceContacts2 pos12 a1 b1 a2 b2 n1 flipped).map (liftMContact2 sq) := by
  letI := fieldNum K sq
  simp only [faceFaceContacts2, liftIso2_act, defined_c14_clipSegSegWithNormal]
  cases clipSegSegWithNormal a1 b1 (pos12.act a2) (pos12.act b2) n1 with
  | none => rfl
  | some r =>
    obtain ⟨ca, cb⟩ := r
    cases flipped <;> rfl

/-- **C20 (`PolygonalFeature::face_vertex_contacts`, 2-D)**: defined when the face normal is not perpendicular to the
separating axis (`hd`). -/
theorem defined_faceVertexContacts2 (pos12 : Iso2 K) (a1 b1 v2 sep : V2 K) (flipped : Bool)
    (hd : letI := fieldNum K sq; (⟨-(b1.sub a1).y, (b1.sub a1).x⟩ : V2 K).dot sep ≠ 0) : letI := fieldNum K sq
    faceVertexContacts2 (liftIso2 pos12 : Iso2 (Opt K sq)) (lift2 a1) (lift2 b1) (lift2 v2) (lift2 sep) flipped
      = liftMContact2 sq (faceVertexContacts2 pos12 a1 b1 v2 sep flipped) := by
  letI := fieldNum K sq
  have hd' : -((⟨-(b1.sub a1).y, (b1.sub a1).x⟩ : V2 K).dot sep) ≠ 0 := neg_ne_zero.mpr hd
  simp only [faceVertexContacts2, optsimp, if_neg hd']

/-- kernel-decided witness at `NaNable`: a zero-length face `(0,0)–(0,0)`, the vertex `(0,1)` above it, separating axis `+y`:
`dist = 0/0` — the returned distance is NaN. -/
theorem faceVertexContacts2_zero_face_nan :
    Option.isSome ((faceVertexContacts2 (K := NaNable) ⟨some 1, some 0, ⟨some 0, some 0⟩⟩ ⟨some 0, some 0⟩ ⟨some 0, some 0⟩
      ⟨some 0, some 1⟩ ⟨some 0, some 1⟩ false).dist : Option ℚ) = false := by
  decide +kernel

end C20
