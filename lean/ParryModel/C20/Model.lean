import ParryModel.C05.Model
import ParryModel.C04.Model
import ParryModel.C14.Model
/-!
# C20 model: corrected behaviour for the definedness defects found by C20 (`fixes/C20-*.diff`)

C20 has no model of its own (it is decided on the models of C01–C19).  The functions below are the *patched* forms of
two model functions owned by other properties, written here so that the definedness theorem that is false for the
code as written can be stated and proved for the code as patched; when the patches are in `/repo` these bodies
replace the ones in `C05/Model.lean` / `C04/Model.lean` (they are bit-identical on every input on which the
unpatched code returns no NaN).

* `Triangle{2,3}.projectLocFixed` — `fixes/C20-triangle-coincident-vertices-nan.diff`: the closest edge of the
  "project on the closest edge" fallback is chosen with `f64::min`, which ignores the NaN distance of a zero-length edge.
* `rayToiAndNormalWithBallFixed` — `fixes/C20-ball-ray-normal-at-centre.diff`: `try_normalize(0.0).unwrap_or(zeros)`.
-/
namespace Model
variable {K : Type} [Num K]

/-- Rust `f64::min(a, b)`: "if one of the arguments is NaN, then the other argument is returned".
`a ≤ a` is `!a.is_nan()`. -/
@[inline] def fmin (a b : K) : K := if a ≤ a then (if b < a then b else a) else b

/-- the patched tail of `project_local_point_and_get_location`, `solid = false`, point in no vertex/edge/face region:
project on the closest edge, never on a zero-length one.  `rab`, `rac`, `rbc` are the three candidate results. -/
@[inline] def closestEdgeFixed {α : Type} (d_ab d_ac d_bc : K) (rab rac rbc : α) : α :=
  let d_min := fmin (fmin d_ab d_ac) d_bc
  if neq d_bc d_min then rbc
  else if neq d_ac d_min then rac
  else rab

/-- 2-D `Triangle::project_local_point_and_get_location` as patched. -/
def Triangle2.projectLocFixed (s : Triangle2 K) (pt : V2 K) (solid : Bool) : PP2 K × TriLoc K :=
  let a := s.a; let b := s.b; let c := s.c
  let ab := b.sub a
  let ac := c.sub a
  let ap := pt.sub a
  let ab_ap := ab.dot ap
  let ac_ap := ac.dot ap
  if ab_ap ≤ 0 ∧ ac_ap ≤ 0 then (⟨V2.beq pt a, a⟩, TriLoc.vertex 0)
  else
  let bp := pt.sub b
  let ab_bp := ab.dot bp
  let ac_bp := ac.dot bp
  if 0 ≤ ab_bp ∧ ac_bp ≤ ab_bp then (⟨V2.beq pt b, b⟩, TriLoc.vertex 1)
  else
  let cp := pt.sub c
  let ab_cp := ab.dot cp
  let ac_cp := ac.dot cp
  if 0 ≤ ac_cp ∧ ab_cp ≤ ac_cp then (⟨V2.beq pt c, c⟩, TriLoc.vertex 2)
  else
  let bc := c.sub b
  let n := ab.perp ac
  let vc := n * ab.perp ap
  if vc < 0 ∧ 0 ≤ ab_ap ∧ ab_bp ≤ 0 then
    let v := ab_ap / ab.normSq
    let res := a.add (ab.smul v)
    (⟨V2.beq pt res, res⟩, TriLoc.edge 0 (1 - v) v)
  else
  let vb := -n * ac.perp cp
  if vb < 0 ∧ 0 ≤ ac_ap ∧ ac_cp ≤ 0 then
    let w := ac_ap / ac.normSq
    let res := a.add (ac.smul w)
    (⟨V2.beq pt res, res⟩, TriLoc.edge 2 (1 - w) w)
  else
  let va := n * bc.perp bp
  if va < 0 ∧ 0 ≤ ac_bp - ab_bp ∧ 0 ≤ ab_cp - ac_cp then
    let w := bc.dot bp / bc.normSq
    let res := b.add (bc.smul w)
    (⟨V2.beq pt res, res⟩, TriLoc.edge 1 (1 - w) w)
  else
  if solid then (⟨true, pt⟩, TriLoc.solid)
  else
    let v := ab_ap / (ab_ap - ab_bp)
    let w := ac_ap / (ac_ap - ac_cp)
    let u := (ac_bp - ab_bp) / (ac_bp - ab_bp + ab_cp - ac_cp)
    let d_ab := ap.normSq - (ab.normSq * v * v)
    let d_ac := ap.normSq - (ac.normSq * w * w)
    let d_bc := bp.normSq - (bc.normSq * u * u)
    closestEdgeFixed d_ab d_ac d_bc
      (⟨true, a.add (ab.smul v)⟩, TriLoc.edge 0 (1 - v) v)
      (⟨true, a.add (ac.smul w)⟩, TriLoc.edge 2 (1 - w) w)
      (⟨true, b.add (bc.smul u)⟩, TriLoc.edge 1 (1 - u) u)

/-- 3-D `Triangle::project_local_point_and_get_location` as patched. -/
def Triangle3.projectLocFixed (s : Triangle3 K) (pt : V3 K) (solid : Bool) : PP3 K × TriLoc K :=
  let a := s.a; let b := s.b; let c := s.c
  let ab := b.sub a
  let ac := c.sub a
  let ap := pt.sub a
  let ab_ap := ab.dot ap
  let ac_ap := ac.dot ap
  if ab_ap ≤ 0 ∧ ac_ap ≤ 0 then (⟨V3.relEq a pt, a⟩, TriLoc.vertex 0)
  else
  let bp := pt.sub b
  let ab_bp := ab.dot bp
  let ac_bp := ac.dot bp
  if 0 ≤ ab_bp ∧ ac_bp ≤ ab_bp then (⟨V3.relEq b pt, b⟩, TriLoc.vertex 1)
  else
  let cp := pt.sub c
  let ab_cp := ab.dot cp
  let ac_cp := ac.dot cp
  if 0 ≤ ac_cp ∧ ab_cp ≤ ac_cp then (⟨V3.relEq c pt, c⟩, TriLoc.vertex 2)
  else
  let bc := c.sub b
  let n := ab.cross ac
  let vc := n.dot (ab.cross ap)
  if vc < 0 ∧ 0 ≤ ab_ap ∧ ab_bp ≤ 0 then
    let v := ab_ap / ab.normSq
    let res := a.add (ab.smul v)
    (⟨V3.relEq res pt, res⟩, TriLoc.edge 0 (1 - v) v)
  else
  let vb := -(n.dot (ac.cross cp))
  if vb < 0 ∧ 0 ≤ ac_ap ∧ ac_cp ≤ 0 then
    let w := ac_ap / ac.normSq
    let res := a.add (ac.smul w)
    (⟨V3.relEq res pt, res⟩, TriLoc.edge 2 (1 - w) w)
  else
  let va := n.dot (bc.cross bp)
  if va < 0 ∧ 0 ≤ ac_bp - ab_bp ∧ 0 ≤ ab_cp - ac_cp then
    let w := bc.dot bp / bc.normSq
    let res := b.add (bc.smul w)
    (⟨V3.relEq res pt, res⟩, TriLoc.edge 1 (1 - w) w)
  else
  let side : Nat := if 0 ≤ n.dot ap then 0 else 1
  if !(neq (va + vb + vc) 0) then
    let denom := 1 / (va + vb + vc)
    let v := vb * denom
    let w := vc * denom
    let res := (a.add (ab.smul v)).add (ac.smul w)
    (⟨V3.relEq res pt, res⟩, TriLoc.face side (1 - v - w) v w)
  else
  if solid then (⟨true, pt⟩, TriLoc.solid)
  else
    let v := ab_ap / (ab_ap - ab_bp)
    let w := ac_ap / (ac_ap - ac_cp)
    let u := (ac_bp - ab_bp) / (ac_bp - ab_bp + ab_cp - ac_cp)
    let d_ab := ap.normSq - (ab.normSq * v * v)
    let d_ac := ap.normSq - (ac.normSq * w * w)
    let d_bc := bp.normSq - (bc.normSq * u * u)
    closestEdgeFixed d_ab d_ac d_bc
      (⟨true, a.add (ab.smul v)⟩, TriLoc.edge 0 (1 - v) v)
      (⟨true, a.add (ac.smul w)⟩, TriLoc.edge 2 (1 - w) w)
      (⟨true, b.add (bc.smul u)⟩, TriLoc.edge 1 (1 - u) u)

/-- `ray_toi_and_normal_with_ball` as patched: `pos.try_normalize(0.0).unwrap_or_else(Vector::zeros)`
(`try_normalize(min)`: `let n = self.norm(); if n <= min { None } else { Some(self.unscale(n)) }`). -/
def rayToiAndNormalWithBallFixed (center : V3 K) (radius : K) (ray : Ray3 K) (solid : Bool) : Bool × Option (Hit3 K) :=
  let (inside, inter) := rayToiWithBall center radius ray solid
  (inside, inter.map fun n =>
    let pos := (ray.o.add (ray.d.smul n)).sub center
    let nrm := pos.norm
    let normal := if nrm ≤ 0 then V3.zero else pos.sdiv nrm
    { toi := n, n := if inside then normal.neg else normal, fkind := 0, fidx := 0 })

/-! ## `Triangle::circumcircle` and `Triangle::perimeter` (`src/shape/triangle.rs`) — modelled by C20 itself

Tied bit for bit by the `trim2` / `trim3` cases of C20's own stream (the comparison is made inside the oracle of
`C20/Driver.lean`); proved total in `C20/Theorems17.lean`. -/

/-- `Triangle::circumcircle` (3-D).  `denom.is_zero()` is `== 0.0`; in the degenerate (collinear) case the centre of the
longest side and half its length; `na::distance(&self.a, &center)` is the norm of the difference. -/
def triCircumcircle3 (a b c : V3 K) : V3 K × K :=
  let a' := a.sub c
  let b' := b.sub c
  let na := a'.normSq
  let nb := b'.normSq
  let dab := a'.dot b'
  let denom := two * (na * nb - dab * dab)
  if neq denom 0 then
    let cc := a.sub b
    let nc := cc.normSq
    if na ≤ nc ∧ nb ≤ nc then (a.center b, Num.sqrt nc / two)
    else if nb ≤ na ∧ nc ≤ na then (a.center c, Num.sqrt na / two)
    else (b.center c, Num.sqrt nb / two)
  else
    let k := (b'.smul na).sub (a'.smul nb)
    let center := c.add (((a'.smul (k.dot b')).sub (b'.smul (k.dot a'))).sdiv denom)
    (center, (center.sub a).norm)

/-- `Triangle::circumcircle` (2-D): the same text. -/
def triCircumcircle2 (a b c : V2 K) : V2 K × K :=
  let a' := a.sub c
  let b' := b.sub c
  let na := a'.normSq
  let nb := b'.normSq
  let dab := a'.dot b'
  let denom := two * (na * nb - dab * dab)
  if neq denom 0 then
    let cc := a.sub b
    let nc := cc.normSq
    if na ≤ nc ∧ nb ≤ nc then (a.center b, Num.sqrt nc / two)
    else if nb ≤ na ∧ nc ≤ na then (a.center c, Num.sqrt na / two)
    else (b.center c, Num.sqrt nb / two)
  else
    let k := (b'.smul na).sub (a'.smul nb)
    let center := c.add (((a'.smul (k.dot b')).sub (b'.smul (k.dot a'))).sdiv denom)
    (center, (center.sub a).norm)

/-- `Triangle::perimeter`: `distance(a, b) + distance(b, c) + distance(c, a)` -/
def triPerimeter3 (a b c : V3 K) : K := (b.sub a).norm + (c.sub b).norm + (a.sub c).norm
def triPerimeter2 (a b c : V2 K) : K := (b.sub a).norm + (c.sub b).norm + (a.sub c).norm

/-! ## `Segment::{length, direction}` (`src/shape/segment.rs`) — `trim`-style three legs in C20's own stream (`segm2` / `segm3`) -/

/-- `Segment::length`: `(b - a).norm()` -/
def segLength3 (a b : V3 K) : K := (b.sub a).norm
def segLength2 (a b : V2 K) : K := (b.sub a).norm

/-- `DEFAULT_EPSILON` = `f64::EPSILON` -/
def segEps : K := lit 1 4503599627370496

/-- `Segment::direction`: `Unit::try_new(b - a, DEFAULT_EPSILON)` — `None` for a (nearly) zero-length segment -/
def segDirection3 (a b : V3 K) : Option (V3 K) :=
  let v := b.sub a
  let sqn := v.normSq
  if segEps * segEps < sqn then some (v.sdiv (Num.sqrt sqn)) else none
def segDirection2 (a b : V2 K) : Option (V2 K) :=
  let v := b.sub a
  let sqn := v.normSq
  if segEps * segEps < sqn then some (v.sdiv (Num.sqrt sqn)) else none

/-! ## `PolygonalFeature::{face_face_contacts, face_vertex_contacts}` (2-D, `src/shape/polygonal_feature2d.rs`)

The contact points that `contact_manifold_pfm_pfm` (2-D) pushes for a pair of support features; feature ids are not modelled.
Tied bit for bit by the `pff2` / `pfv2` cases of C20's own stream. -/

/-- `face_face_contacts(pos12, face1, normal1, face2, manifold, flipped)`: the two clip points, each with the distance of its
own pair along `normal1`; nothing when the projections do not overlap. -/
def faceFaceContacts2 (pos12 : Iso2 K) (a1 b1 a2 b2 n1 : V2 K) (flipped : Bool) : List (C14.Contact2 K) :=
  match C14.clipSegSegWithNormal a1 b1 (pos12.act a2) (pos12.act b2) n1 with
  | none => []
  | some (ca, cb) =>
    [C14.Contact2.flipped ca.p1 (pos12.invAct ca.p2) ((ca.p2.sub ca.p1).dot n1) flipped,
     C14.Contact2.flipped cb.p1 (pos12.invAct cb.p2) ((cb.p2.sub cb.p1).dot n1) flipped]

/-- `face_vertex_contacts(pos12, face1, sep_axis1, vertex2, manifold, flipped)`: the vertex is moved back along `sep_axis1`…
in fact along the face normal, by `dist = (a1 − v)·n / −(n·sep_axis1)` — an unguarded division. -/
def faceVertexContacts2 (pos12 : Iso2 K) (a1 b1 v2 sep : V2 K) (flipped : Bool) : C14.Contact2 K :=
  let v21 := pos12.act v2
  let t := b1.sub a1
  let n : V2 K := ⟨-t.y, t.x⟩
  let denom := -(n.dot sep)
  let dist := (a1.sub v21).dot n / denom
  C14.Contact2.flipped (v21.sub (n.smul dist)) (pos12.invAct v21) dist flipped

/-! ## `Triangle::{scaled_normal, normal}` (3-D) -/

/-- `Triangle::scaled_normal`: `(b - a).cross(c - a)` -/
def triScaledNormal3 (a b c : V3 K) : V3 K := (b.sub a).cross (c.sub a)

/-- `Triangle::normal`: `Unit::try_new(scaled_normal, DEFAULT_EPSILON)` — `None` for a flat triangle -/
def triNormal3 (a b c : V3 K) : Option (V3 K) :=
  let v := triScaledNormal3 a b c
  let sqn := v.normSq
  if segEps * segEps < sqn then some (v.sdiv (Num.sqrt sqn)) else none

end Model
