import ParryModel.C20.Lemmas
import ParryModel.C20.Theorems2
import ParryModel.C20.Theorems9
import ParryModel.C14.Model
set_option linter.style.haveILetI false
set_option linter.unusedSimpArgs false
set_option linter.unusedSectionVars false
set_option linter.unusedVariables false
/-!
# C20 definedness theorems, part 12: `contact_manifold_convex_ball` with a Segment as first shape, its dispatch glue,
and `contact_manifold_halfspace_pfm`

The thin shapes are the ones whose surface can pass through their own local origin, so that BOTH arguments of the normal
selection of `contact_manifold_convex_ball` (`proj − centre` and the relative translation) vanish at once.
-/
namespace C20
open Model C14

variable {K : Type} [Field K] [LinearOrder K] [IsStrictOrderedRing K] (sq : K → K)

/-- the projection argument of the C14 generator built from the C05 segment projection -/
def segProj3 {F : Type} [Num F] (s : Segment3 F) (p : V3 F) : Bool × V3 F := ((s.project p false).inside, (s.project p false).pt)
def segProj2 {F : Type} [Num F] (s : Segment2 F) (p : V2 F) : Bool × V2 F := ((s.project p false).inside, (s.project p false).pt)

/-- **C20 (contact manifold segment / ball, 3-D)**: defined for EVERY finite segment — zero-length, through the local origin —
and every ball pose: centre exactly on the segment (`dpos = 0`), moreover exactly at the segment's local origin
(translation `0`, third fallback `+x`); only the two no-underflow conditions on the square-root operation are assumed. -/
theorem defined_c14_segmentBall3 {θ : K} (hs : SqrtPos sq θ) (s : Segment3 K) (pos12 : Iso3 K) (r2 pred : K) (flipped : Bool)
    (m : Manifold3 K)
    (hd : letI := fieldNum K sq; (pos12.t.sub (segProj3 s pos12.t).2).normSq = 0 ∨ θ < (pos12.t.sub (segProj3 s pos12.t).2).normSq)
    (ht : letI := fieldNum K sq; pos12.t.normSq = 0 ∨ θ < pos12.t.normSq) :
    letI := fieldNum K sq
    convexBall3 (segProj3 (liftSeg3 sq s)) (liftIso3 pos12) (val r2) (val pred) flipped (liftManifold3 sq m)
      = liftManifold3 sq (convexBall3 (segProj3 s) pos12 r2 pred flipped m) := by
  letI := fieldNum K sq
  refine defined_c14_convexBall3 sq hs _ _ pos12 r2 pred flipped m ?_ hd ht
  simp only [segProj3, defined_seg3_project]; rfl

/-- **C20 (contact manifold segment / ball, 2-D)** -/
theorem defined_c14_segmentBall2 {θ : K} (hs : SqrtPos sq θ) (s : Segment2 K) (pos12 : Iso2 K) (r2 pred : K) (flipped : Bool)
    (m : Manifold2 K)
    (hd : letI := fieldNum K sq; (pos12.t.sub (segProj2 s pos12.t).2).normSq = 0 ∨ θ < (pos12.t.sub (segProj2 s pos12.t).2).normSq)
    (ht : letI := fieldNum K sq; pos12.t.normSq = 0 ∨ θ < pos12.t.normSq) :
    letI := fieldNum K sq
    convexBall2 (segProj2 (liftSeg2 sq s)) (liftIso2 pos12) (val r2) (val pred) flipped (liftManifold2 sq m)
      = liftManifold2 sq (convexBall2 (segProj2 s) pos12 r2 pred flipped m) := by
  letI := fieldNum K sq
  refine defined_c14_convexBall2 sq hs _ _ pos12 r2 pred flipped m ?_ hd ht
  simp only [segProj2, defined_seg2_project]; rfl

/-- the segment `(-1,-1,0)–(1,1,0)` (through its local origin) against a ball of radius `1/2` at the identity pose -/
def segBallWitness1 : Manifold3 NaNable :=
  convexBall3 (K := NaNable) (segProj3 ⟨⟨some (-1), some (-1), some 0⟩, ⟨some 1, some 1, some 0⟩⟩)
    ⟨some 0, some 0, some 0, some 1, ⟨some 0, some 0, some 0⟩⟩ (some (1/2)) (some 0) false Manifold3.new
/-- the zero-length segment at the origin against the same ball -/
def segBallWitness2 : Manifold3 NaNable :=
  convexBall3 (K := NaNable) (segProj3 ⟨⟨some 0, some 0, some 0⟩, ⟨some 0, some 0, some 0⟩⟩)
    ⟨some 0, some 0, some 0, some 1, ⟨some 0, some 0, some 0⟩⟩ (some (1/2)) (some 0) false Manifold3.new
def manifoldFinite (m : Manifold3 NaNable) : List (Bool × Bool × Bool) × Bool × Bool × Bool :=
  (m.points.map (fun c => (Option.isSome (c.p1.x : Option ℚ), Option.isSome (c.p2.x : Option ℚ), Option.isSome (c.dist : Option ℚ))),
   Option.isSome (m.n1.x : Option ℚ), Option.isSome (m.n1.y : Option ℚ), Option.isSome (m.n2.z : Option ℚ))

/-- kernel-checked instances at `NaNable`: ball centre on the segment AND at its local origin (both normal fallbacks are zero
vectors): exactly one contact, every coordinate of it and of the normals finite — for the oblique segment through the
origin and for the zero-length segment. -/
theorem c14_segmentBall_centre_on_origin_finite :
    manifoldFinite segBallWitness1 = ([(true, true, true)], true, true, true) ∧
    manifoldFinite segBallWitness2 = ([(true, true, true)], true, true, true) := by
  decide +kernel

/-! ## dispatch glue of `contact_manifold_convex_ball_shapes` -/

/-- **C20 (`contact_manifold_convex_ball_shapes`, 3-D)**: which shape is the ball only selects `pos12` or `pos12.inverse()`
(defined for every quaternion) and the flip flag; relative to a projection defined at the ball centre in the frame used. -/
theorem defined_c14_convexBallShapes3 {θ : K} (hs : SqrtPos sq θ)
    (proj : V3 (Opt K sq) → Bool × V3 (Opt K sq)) (proj' : V3 K → Bool × V3 K) (ballFirst : Bool)
    (pos12 : Iso3 K) (r pred : K) (m : Manifold3 K)
    (hp : letI := fieldNum K sq; ∀ p : Iso3 K, proj (lift3 p.t) = liftMBV3 sq (proj' p.t))
    (hd : letI := fieldNum K sq; ∀ p : Iso3 K, (p.t.sub (proj' p.t).2).normSq = 0 ∨ θ < (p.t.sub (proj' p.t).2).normSq)
    (ht : letI := fieldNum K sq; ∀ p : Iso3 K, p.t.normSq = 0 ∨ θ < p.t.normSq) :
    letI := fieldNum K sq
    convexBallShapes3 proj ballFirst (liftIso3 pos12) (val r) (val pred) (liftManifold3 sq m)
      = liftManifold3 sq (convexBallShapes3 proj' ballFirst pos12 r pred m) := by
  letI := fieldNum K sq
  cases ballFirst
  · simp only [convexBallShapes3, Bool.false_eq_true, if_false]
    exact defined_c14_convexBall3 sq hs proj proj' pos12 r pred false m (hp pos12) (hd pos12) (ht pos12)
  · simp only [convexBallShapes3, if_true, liftIso3_inverse]
    exact defined_c14_convexBall3 sq hs proj proj' pos12.inverse r pred true m (hp _) (hd _) (ht _)

/-- **C20 (`contact_manifold_convex_ball_shapes`, 2-D)** -/
theorem defined_c14_convexBallShapes2 {θ : K} (hs : SqrtPos sq θ)
    (proj : V2 (Opt K sq) → Bool × V2 (Opt K sq)) (proj' : V2 K → Bool × V2 K) (ballFirst : Bool)
    (pos12 : Iso2 K) (r pred : K) (m : Manifold2 K)
    (hp : letI := fieldNum K sq; ∀ p : Iso2 K, proj (lift2 p.t) = liftMBV2 sq (proj' p.t))
    (hd : letI := fieldNum K sq; ∀ p : Iso2 K, (p.t.sub (proj' p.t).2).normSq = 0 ∨ θ < (p.t.sub (proj' p.t).2).normSq)
    (ht : letI := fieldNum K sq; ∀ p : Iso2 K, p.t.normSq = 0 ∨ θ < p.t.normSq) :
    letI := fieldNum K sq
    convexBallShapes2 proj ballFirst (liftIso2 pos12) (val r) (val pred) (liftManifold2 sq m)
      = liftManifold2 sq (convexBallShapes2 proj' ballFirst pos12 r pred m) := by
  letI := fieldNum K sq
  cases ballFirst
  · simp only [convexBallShapes2, Bool.false_eq_true, if_false]
    exact defined_c14_convexBall2 sq hs proj proj' pos12 r pred false m (hp pos12) (hd pos12) (ht pos12)
  · simp only [convexBallShapes2, if_true, liftIso2_inverse]
    exact defined_c14_convexBall2 sq hs proj proj' pos12.inverse r pred true m (hp _) (hd _) (ht _)

/-! ## `contact_manifold_halfspace_pfm` -/

private theorem filterMap_lift3 (pos12 : Iso3 K) (n n12 : V3 K) (br pred : K) (flipped : Bool) (l : List (V3 K)) :
    letI := fieldNum K sq
    (l.map lift3).filterMap (fun v : V3 (Opt K sq) =>
        let v1 := (liftIso3 pos12).act v
        let d := v1.dot (lift3 n)
        if d - val br ≤ val pred then
          some (Contact3.flipped (v1.sub ((lift3 n).smul d)) (v.sub ((lift3 n12).smul (val br))) (d - val br) flipped)
        else none)
      = (l.filterMap (fun v : V3 K =>
        let v1 := pos12.act v
        let d := v1.dot n
        if d - br ≤ pred then some (Contact3.flipped (v1.sub (n.smul d)) (v.sub (n12.smul br)) (d - br) flipped)
        else none)).map (liftMContact3 sq) := by
  letI := fieldNum K sq
  induction l with
  | nil => rfl
  | cons v vs ih =>
    simp only [List.map_cons, List.filterMap_cons, optsimp]
    by_cases h : (pos12.act v).dot n - br ≤ pred
    · simp only [if_pos h, List.map_cons]
      rw [← ih]; cases flipped <;> rfl
    · simp only [if_neg h]
      exact ih

/-- **C20 (`contact_manifold_halfspace_pfm`, 3-D)**: relative to a polygonal feature map whose support feature is defined
(`hf`): products, sums and one comparison per feature vertex — defined for every pose, normal (unit or not), border radius and
prediction; an empty feature gives an empty manifold. -/
theorem defined_c14_halfspacePfm3 (feat : V3 (Opt K sq) → List (V3 (Opt K sq))) (feat' : V3 K → List (V3 K))
    (hf : ∀ d : V3 K, feat (lift3 d) = (feat' d).map lift3)
    (pos12 : Iso3 K) (n : V3 K) (br pred : K) (flipped : Bool) : letI := fieldNum K sq
    halfspacePfm3 feat (liftIso3 pos12) (lift3 n) (val br) (val pred) flipped
      = liftManifold3 sq (halfspacePfm3 feat' pos12 n br pred flipped) := by
  letI := fieldNum K sq
  simp only [halfspacePfm3, liftIso3_invRot, lift3_neg, hf]
  rw [filterMap_lift3]
  cases flipped <;> rfl
private theorem filterMap_lift2 (pos12 : Iso2 K) (n n12 : V2 K) (br pred : K) (flipped : Bool) (l : List (V2 K)) :
    letI := fieldNum K sq
    (l.map lift2).filterMap (fun v : V2 (Opt K sq) =>
        let v1 := (liftIso2 pos12).act v
        let d := v1.dot (lift2 n)
        if d - val br ≤ val pred then
          some (Contact2.flipped (v1.sub ((lift2 n).smul d)) (v.sub ((lift2 n12).smul (val br))) (d - val br) flipped)
        else none)
      = (l.filterMap (fun v : V2 K =>
        let v1 := pos12.act v
        let d := v1.dot n
        if d - br ≤ pred then some (Contact2.flipped (v1.sub (n.smul d)) (v.sub (n12.smul br)) (d - br) flipped)
        else none)).map (liftMContact2 sq) := by
  letI := fieldNum K sq
  induction l with
  | nil => rfl
  | cons v vs ih =>
    simp only [List.map_cons, List.filterMap_cons, optsimp]
    by_cases h : (pos12.act v).dot n - br ≤ pred
    · simp only [if_pos h, List.map_cons]
      rw [← ih]; cases flipped <;> rfl
    · simp only [if_neg h]
      exact ih

/-- **C20 (`contact_manifold_halfspace_pfm`, 2-D)**: relative to a polygonal feature map whose support feature is defined
(`hf`): products, sums and one comparison per feature vertex — defined for every pose, normal (unit or not), border radius and
prediction; an empty feature gives an empty manifold. -/
theorem defined_c14_halfspacePfm2 (feat : V2 (Opt K sq) → List (V2 (Opt K sq))) (feat' : V2 K → List (V2 K))
    (hf : ∀ d : V2 K, feat (lift2 d) = (feat' d).map lift2)
    (pos12 : Iso2 K) (n : V2 K) (br pred : K) (flipped : Bool) : letI := fieldNum K sq
    halfspacePfm2 feat (liftIso2 pos12) (lift2 n) (val br) (val pred) flipped
      = liftManifold2 sq (halfspacePfm2 feat' pos12 n br pred flipped) := by
  letI := fieldNum K sq
  simp only [halfspacePfm2, liftIso2_invRot, lift2_neg, hf]
  rw [filterMap_lift2]
  cases flipped <;> rfl

/-- **C20 (the two half-space arms of `contact_manifold_convex_convex`)**: `pos12` or `pos12.inverse()` and the flip flag. -/
theorem defined_c14_halfspaceDispatch (feat : V3 (Opt K sq) → List (V3 (Opt K sq))) (feat' : V3 K → List (V3 K))
    (hf : ∀ d : V3 K, feat (lift3 d) = (feat' d).map lift3)
    (feat2 : V2 (Opt K sq) → List (V2 (Opt K sq))) (feat2' : V2 K → List (V2 K))
    (hf2 : ∀ d : V2 K, feat2 (lift2 d) = (feat2' d).map lift2)
    (hsFirst : Bool) (pos12 : Iso3 K) (n : V3 K) (pos12' : Iso2 K) (n' : V2 K) (br pred : K) : letI := fieldNum K sq
    halfspaceDispatch3 feat hsFirst (liftIso3 pos12) (lift3 n) (val br) (val pred)
      = liftManifold3 sq (halfspaceDispatch3 feat' hsFirst pos12 n br pred) ∧
    halfspaceDispatch2 feat2 hsFirst (liftIso2 pos12') (lift2 n') (val br) (val pred)
      = liftManifold2 sq (halfspaceDispatch2 feat2' hsFirst pos12' n' br pred) := by
  letI := fieldNum K sq
  cases hsFirst
  · simp only [halfspaceDispatch3, halfspaceDispatch2, Bool.false_eq_true, if_false, liftIso3_inverse, liftIso2_inverse]
    exact ⟨defined_c14_halfspacePfm3 sq feat feat' hf _ n br pred true, defined_c14_halfspacePfm2 sq feat2 feat2' hf2 _ n' br pred true⟩
  · simp only [halfspaceDispatch3, halfspaceDispatch2, if_true]
    exact ⟨defined_c14_halfspacePfm3 sq feat feat' hf _ n br pred false, defined_c14_halfspacePfm2 sq feat2 feat2' hf2 _ n' br pred false⟩

end C20
