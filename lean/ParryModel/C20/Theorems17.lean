import ParryModel.C20.Lemmas
import ParryModel.C20.Model
set_option linter.style.haveILetI false
set_option linter.unusedSimpArgs false
set_option linter.unusedSectionVars false
set_option linter.unusedVariables false
/-!
# C20 definedness theorems, part 17: `Triangle::circumcircle` and `Triangle::perimeter` (C20's own models) — total

`circumcircle` divides by `denom = 2 (|a'|² |b'|² − (a'·b')²)` only behind `denom.is_zero()`; the degenerate branch
(collinear / coincident vertices, **the flat triangles of the property**) takes square roots of squared norms and halves them.
-/
namespace C20
open Model

variable {K : Type} [Field K] [LinearOrder K] [IsStrictOrderedRing K] (sq : K → K)

def liftVK3 (r : V3 K × K) : V3 (Opt K sq) × Opt K sq := (lift3 r.1, val r.2)
def liftVK2 (r : V2 K × K) : V2 (Opt K sq) × Opt K sq := (lift2 r.1, val r.2)
@[optsimp] private theorem liftVK3_mk (a : V3 K) (b : K) : ((lift3 a, val b) : V3 (Opt K sq) × Opt K sq) = liftVK3 sq (a, b) := id rfl
@[optsimp] private theorem liftVK2_mk (a : V2 K) (b : K) : ((lift2 a, val b) : V2 (Opt K sq) × Opt K sq) = liftVK2 sq (a, b) := id rfl

private theorem two_ne : letI := fieldNum K sq; (two : K) ≠ 0 := by
  letI := fieldNum K sq
  rw [fieldNum_two]; norm_num

/-- **C20 (`Triangle::circumcircle`, 3-D)**: defined for EVERY finite triangle — collinear vertices, two or three coincident
vertices included — with no hypothesis on the square-root operation. -/
theorem defined_triCircumcircle3 (a b c : V3 K) : letI := fieldNum K sq
    triCircumcircle3 (lift3 a : V3 (Opt K sq)) (lift3 b) (lift3 c) = liftVK3 sq (triCircumcircle3 a b c) := by
  letI := fieldNum K sq
  have h2 := two_ne (K := K) sq
  have hn : ∀ v : V3 K, ¬ v.normSq < 0 := fun v => not_lt.mpr (normSq3_nonneg (sq := sq) v)
  simp only [triCircumcircle3, optsimp, hn, if_false, if_neg h2]
  by_cases hd : two * ((a.sub c).normSq * (b.sub c).normSq - (a.sub c).dot (b.sub c) * (a.sub c).dot (b.sub c)) = 0
  · simp only [hd, if_true]
    split_ifs <;> rfl
  · simp only [hd, if_false, optsimp, hn]

/-- **C20 (`Triangle::circumcircle`, 2-D)** -/
theorem defined_triCircumcircle2 (a b c : V2 K) : letI := fieldNum K sq
    triCircumcircle2 (lift2 a : V2 (Opt K sq)) (lift2 b) (lift2 c) = liftVK2 sq (triCircumcircle2 a b c) := by
  letI := fieldNum K sq
  have h2 := two_ne (K := K) sq
  have hn : ∀ v : V2 K, ¬ v.normSq < 0 := fun v => not_lt.mpr (normSq2_nonneg (sq := sq) v)
  simp only [triCircumcircle2, optsimp, hn, if_false, if_neg h2]
  by_cases hd : two * ((a.sub c).normSq * (b.sub c).normSq - (a.sub c).dot (b.sub c) * (a.sub c).dot (b.sub c)) = 0
  · simp only [hd, if_true]
    split_ifs <;> rfl
  · simp only [hd, if_false, optsimp, hn]

/-- **C20 (`Triangle::perimeter`)**: three norms of differences — total. -/
theorem defined_triPerimeter (a b c : V3 K) (a' b' c' : V2 K) : letI := fieldNum K sq
    (triPerimeter3 (lift3 a : V3 (Opt K sq)) (lift3 b) (lift3 c) = val (triPerimeter3 a b c)) ∧
    (triPerimeter2 (lift2 a' : V2 (Opt K sq)) (lift2 b') (lift2 c') = val (triPerimeter2 a' b' c')) := by
  letI := fieldNum K sq
  exact ⟨by simp only [triPerimeter3, optsimp], by simp only [triPerimeter2, optsimp]⟩

/-! ## `Segment::length`, `Segment::direction` -/

/-- **C20 (`Segment::length`)**: the norm of a difference — defined for every segment, zero-length included. -/
theorem defined_segLength (a b : V3 K) (a' b' : V2 K) : letI := fieldNum K sq
    (segLength3 (lift3 a : V3 (Opt K sq)) (lift3 b) = val (segLength3 a b)) ∧
    (segLength2 (lift2 a' : V2 (Opt K sq)) (lift2 b') = val (segLength2 a' b')) := by
  letI := fieldNum K sq
  exact ⟨by simp only [segLength3, optsimp], by simp only [segLength2, optsimp]⟩

/-- **C20 (`Segment::direction`)**: `Unit::try_new(b − a, EPSILON)` — `None` for a zero-length segment (no division is
performed), `(b − a) / |b − a|` otherwise; the square-root operation is only assumed positive above `EPSILON²`. -/
theorem defined_segDirection {θ : K} (hs : SqrtPos sq θ)
    (hθ : letI := fieldNum K sq; θ ≤ (segEps : K) * segEps) (a b : V3 K) (a' b' : V2 K) : letI := fieldNum K sq
    (segDirection3 (lift3 a : V3 (Opt K sq)) (lift3 b) = (segDirection3 a b).map lift3) ∧
    (segDirection2 (lift2 a' : V2 (Opt K sq)) (lift2 b') = (segDirection2 a' b').map lift2) := by
  letI := fieldNum K sq
  have he : (segEps : Opt K sq) = val (segEps : K) := rfl
  refine ⟨?_, ?_⟩
  · simp only [segDirection3, he, optsimp]
    by_cases h : (segEps : K) * segEps < (b.sub a).normSq
    · have hn : sq (b.sub a).normSq ≠ 0 := hs.ne (lt_of_le_of_lt hθ h)
      have hnn : ¬ (b.sub a).normSq < 0 := not_lt.mpr (normSq3_nonneg (sq := sq) _)
      simp only [if_pos h, if_neg hnn, if_neg hn, optsimp]
    · simp only [if_neg h, optsimp]
  · simp only [segDirection2, he, optsimp]
    by_cases h : (segEps : K) * segEps < (b'.sub a').normSq
    · have hn : sq (b'.sub a').normSq ≠ 0 := hs.ne (lt_of_le_of_lt hθ h)
      have hnn : ¬ (b'.sub a').normSq < 0 := not_lt.mpr (normSq2_nonneg (sq := sq) _)
      simp only [if_pos h, if_neg hnn, if_neg hn, optsimp]
    · simp only [if_neg h, optsimp]

/-- non-vacuity of the hypotheses of `defined_segDirection` (`sq x = x` over `ℚ`, `θ = 0`) -/
example : SqrtPos (fun x : ℚ => x) 0 ∧ (letI := fieldNum ℚ (fun x : ℚ => x); (0 : ℚ) ≤ (segEps : ℚ) * segEps) :=
  ⟨fun _ h => h, mul_self_nonneg _⟩

/-! ## `Triangle::scaled_normal`, `Triangle::normal` (3-D) -/

/-- **C20 (`Triangle::scaled_normal`, `Triangle::normal`)**: the cross product is total; the unit normal is `None` for a flat
triangle (`|n|² ≤ EPSILON²`, no division performed) and `n / |n|` otherwise. -/
theorem defined_triNormal3 {θ : K} (hs : SqrtPos sq θ)
    (hθ : letI := fieldNum K sq; θ ≤ (segEps : K) * segEps) (a b c : V3 K) : letI := fieldNum K sq
    (triScaledNormal3 (lift3 a : V3 (Opt K sq)) (lift3 b) (lift3 c) = lift3 (triScaledNormal3 a b c)) ∧
    (triNormal3 (lift3 a : V3 (Opt K sq)) (lift3 b) (lift3 c) = (triNormal3 a b c).map lift3) := by
  letI := fieldNum K sq
  have he : (segEps : Opt K sq) = val (segEps : K) := rfl
  have h1 : triScaledNormal3 (lift3 a : V3 (Opt K sq)) (lift3 b) (lift3 c) = lift3 (triScaledNormal3 a b c) := by
    simp only [triScaledNormal3, optsimp]
  refine ⟨h1, ?_⟩
  simp only [triNormal3, h1, he, optsimp]
  by_cases h : (segEps : K) * segEps < (triScaledNormal3 a b c).normSq
  · have hn : sq (triScaledNormal3 a b c).normSq ≠ 0 := hs.ne (lt_of_le_of_lt hθ h)
    have hnn : ¬ (triScaledNormal3 a b c).normSq < 0 := not_lt.mpr (normSq3_nonneg (sq := sq) _)
    simp only [if_pos h, if_neg hnn, if_neg hn, optsimp]
  · simp only [if_neg h, optsimp]

end C20
