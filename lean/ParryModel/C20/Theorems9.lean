import ParryModel.C20.Lemmas
import ParryModel.C14.Model
set_option linter.style.haveILetI false
set_option linter.unusedSimpArgs false
set_option linter.unusedSectionVars false
set_option linter.unusedVariables false
/-!
# C20 definedness theorems, part 9: the closed-form contact-manifold generators of C14

`contact_manifold_ball_ball`, the normal selection of `contact_manifold_convex_ball` (`Unit::try_new_and_get` with its two
fallbacks), the generator itself relative to a defined projection, and the cuboid projection it is used with.
Same shape as `Theorems2`: `f (lift x) = lift (f x)`.
-/
namespace C20
open Model C14

variable {K : Type} [Field K] [LinearOrder K] [IsStrictOrderedRing K] (sq : K → K)

def liftContact3 (c : Contact3 K) : Contact3 (Opt K sq) := ⟨lift3 c.p1, lift3 c.p2, val c.dist⟩
def liftContact2 (c : Contact2 K) : Contact2 (Opt K sq) := ⟨lift2 c.p1, lift2 c.p2, val c.dist⟩
def liftManifold3 (m : Manifold3 K) : Manifold3 (Opt K sq) := ⟨m.points.map (liftContact3 sq), lift3 m.n1, lift3 m.n2⟩
def liftManifold2 (m : Manifold2 K) : Manifold2 (Opt K sq) := ⟨m.points.map (liftContact2 sq), lift2 m.n1, lift2 m.n2⟩

@[optsimp] private theorem liftContact3_mk (a b : V3 K) (d : K) :
    (⟨lift3 a, lift3 b, val d⟩ : Contact3 (Opt K sq)) = liftContact3 sq ⟨a, b, d⟩ := id rfl
@[optsimp] private theorem liftContact2_mk (a b : V2 K) (d : K) :
    (⟨lift2 a, lift2 b, val d⟩ : Contact2 (Opt K sq)) = liftContact2 sq ⟨a, b, d⟩ := id rfl
@[optsimp] private theorem liftManifold3_points (m : Manifold3 K) :
    (liftManifold3 sq m).points = m.points.map (liftContact3 sq) := id rfl
@[optsimp] private theorem liftManifold2_points (m : Manifold2 K) :
    (liftManifold2 sq m).points = m.points.map (liftContact2 sq) := id rfl
@[optsimp] private theorem liftManifold3_clear (m : Manifold3 K) :
    (liftManifold3 sq m).clear = liftManifold3 sq m.clear := id rfl
@[optsimp] private theorem liftManifold2_clear (m : Manifold2 K) :
    (liftManifold2 sq m).clear = liftManifold2 sq m.clear := id rfl
@[optsimp] private theorem setFirst_map {α β : Type} (f : α → β) (c : α) (l : List α) :
    setFirst (f c) (l.map f) = (setFirst c l).map f := by cases l <;> rfl
@[optsimp] private theorem flipped3_lift (p1 p2 : V3 K) (d : K) (fl : Bool) :
    Contact3.flipped (lift3 p1 : V3 (Opt K sq)) (lift3 p2) (val d) fl = liftContact3 sq (Contact3.flipped p1 p2 d fl) := by
  cases fl <;> rfl
@[optsimp] private theorem flipped2_lift (p1 p2 : V2 K) (d : K) (fl : Bool) :
    Contact2.flipped (lift2 p1 : V2 (Opt K sq)) (lift2 p2) (val d) fl = liftContact2 sq (Contact2.flipped p1 p2 d fl) := by
  cases fl <;> rfl

/-- **C20 (contact_manifold_ball_ball, 3-D and 2-D)**: defined for every finite relative pose (any quaternion), radii (any sign,
zero included), prediction and incoming manifold — **coincident centres included**: the normal is `dcenter / |dcenter|` only
when the divisor `|dcenter| = sqrt |dcenter|²` is itself non-zero, otherwise `+y`; nothing is asked of the square-root operation. -/
theorem defined_c14_ballBall (pos12 : Iso3 K) (r1 r2 pred : K) (m : Manifold3 K)
    (pos12' : Iso2 K) (m' : Manifold2 K) :
    letI := fieldNum K sq
    ballBall3 (liftIso3 pos12 : Iso3 (Opt K sq)) (val r1) (val r2) (val pred) (liftManifold3 sq m)
      = liftManifold3 sq (ballBall3 pos12 r1 r2 pred m) ∧
    ballBall2 (liftIso2 pos12' : Iso2 (Opt K sq)) (val r1) (val r2) (val pred) (liftManifold2 sq m')
      = liftManifold2 sq (ballBall2 pos12' r1 r2 pred m') := by
  letI := fieldNum K sq
  refine ⟨?_, ?_⟩
  · simp only [ballBall3, optsimp]
    repeat' (first | split_ifs | simp only [optsimp])
    all_goals first | rfl | contradiction | (exfalso; simp only [optsimp] at *; tauto)
  · simp only [ballBall2, optsimp]
    repeat' (first | split_ifs | simp only [optsimp])
    all_goals first | rfl | contradiction | (exfalso; simp only [optsimp] at *; tauto)


def liftVK3 (r : V3 K × K) : V3 (Opt K sq) × Opt K sq := (lift3 r.1, val r.2)
def liftVK2 (r : V2 K × K) : V2 (Opt K sq) × Opt K sq := (lift2 r.1, val r.2)
def liftBV3 (r : Bool × V3 K) : Bool × V3 (Opt K sq) := (r.1, lift3 r.2)
def liftBV2 (r : Bool × V2 K) : Bool × V2 (Opt K sq) := (r.1, lift2 r.2)

/-- **C20 (`Unit::try_new_and_get(v, 0.0)`)**: `v / sqrt |v|²` only when `|v|² > 0`; defined for the zero vector (`none`) and for
every vector at which the square-root operation does not vanish (`SqrtPos`, no underflow). -/
theorem defined_c14_tryNormalize {θ : K} (hs : SqrtPos sq θ) (v : V3 K) (w : V2 K)
    (hv : letI := fieldNum K sq; v.normSq = 0 ∨ θ < v.normSq)
    (hw : letI := fieldNum K sq; w.normSq = 0 ∨ θ < w.normSq) :
    letI := fieldNum K sq
    tryNormalize3 (lift3 v : V3 (Opt K sq)) = (tryNormalize3 v).map (liftVK3 sq) ∧
    tryNormalize2 (lift2 w : V2 (Opt K sq)) = (tryNormalize2 w).map (liftVK2 sq) := by
  letI := fieldNum K sq
  refine ⟨?_, ?_⟩
  · simp only [tryNormalize3, optsimp]
    by_cases h : (0 : K) * 0 < v.normSq
    · have h0 : v.normSq ≠ 0 := fun e => by rw [e] at h; simp at h
      have hn : sq v.normSq ≠ 0 := by
        rcases hv with hv | hv
        · exact absurd hv h0
        · exact hs.ne hv
      have hnn : ¬ v.normSq < 0 := not_lt.mpr (normSq3_nonneg (sq := sq) v)
      simp only [if_pos h, if_neg hnn, if_neg hn, optsimp]; rfl
    · simp only [if_neg h]; rfl
  · simp only [tryNormalize2, optsimp]
    by_cases h : (0 : K) * 0 < w.normSq
    · have h0 : w.normSq ≠ 0 := fun e => by rw [e] at h; simp at h
      have hn : sq w.normSq ≠ 0 := by
        rcases hw with hw | hw
        · exact absurd hw h0
        · exact hs.ne hw
      have hnn : ¬ w.normSq < 0 := not_lt.mpr (normSq2_nonneg (sq := sq) w)
      simp only [if_pos h, if_neg hnn, if_neg hn, optsimp]; rfl
    · simp only [if_neg h]; rfl

/-- **C20 (normal of `contact_manifold_convex_ball`)**: `try_new_and_get(dpos)`, else `try_new(translation)`, else the x axis:
defined when the ball centre is **exactly on the shape** (`dpos = 0`) and when moreover the centres coincide (translation `0`). -/
theorem defined_c14_contactNormal {θ : K} (hs : SqrtPos sq θ) (dpos t : V3 K) (dpos' t' : V2 K)
    (h1 : letI := fieldNum K sq; dpos.normSq = 0 ∨ θ < dpos.normSq)
    (h2 : letI := fieldNum K sq; t.normSq = 0 ∨ θ < t.normSq)
    (h1' : letI := fieldNum K sq; dpos'.normSq = 0 ∨ θ < dpos'.normSq)
    (h2' : letI := fieldNum K sq; t'.normSq = 0 ∨ θ < t'.normSq) :
    letI := fieldNum K sq
    contactNormal3 (lift3 dpos : V3 (Opt K sq)) (lift3 t) = liftVK3 sq (contactNormal3 dpos t) ∧
    contactNormal2 (lift2 dpos' : V2 (Opt K sq)) (lift2 t') = liftVK2 sq (contactNormal2 dpos' t') := by
  letI := fieldNum K sq
  have a1 := (defined_c14_tryNormalize sq hs dpos dpos' h1 h1')
  have a2 := (defined_c14_tryNormalize sq hs t t' h2 h2')
  refine ⟨?_, ?_⟩
  · simp only [contactNormal3, a1.1, a2.1]
    cases tryNormalize3 dpos with
    | some x => rfl
    | none =>
      cases tryNormalize3 t with
      | some y => rfl
      | none => simp only [Option.map_none, optsimp]; rfl
  · simp only [contactNormal2, a1.2, a2.2]
    cases tryNormalize2 dpos' with
    | some x => rfl
    | none =>
      cases tryNormalize2 t' with
      | some y => rfl
      | none => simp only [Option.map_none, optsimp]; rfl

end C20
