import ParryModel.C20.Lemmas
import ParryModel.C14.Model
set_option linter.style.haveILetI false
set_option linter.unusedSimpArgs false
set_option linter.unusedSectionVars false
set_option linter.unusedVariables false
/-!
# C20 definedness theorems, part 9: the closed-form contact-manifold generators of C14

`contact_manifold_ball_ball`, the normal selection of `contact_manifold_convex_ball` (`Unit::try_new_and_get` with its two
fallbacks), the generator itself relative to a defined projection, and the cuboid projection it is used with.
Same shape as `Theorems2`: `f (lift x) = lift (f x)`.
-/
namespace C20
open Model C14

variable {K : Type} [Field K] [LinearOrder K] [IsStrictOrderedRing K] (sq : K → K)

def liftMContact3 (c : Contact3 K) : Contact3 (Opt K sq) := ⟨lift3 c.p1, lift3 c.p2, val c.dist⟩
def liftMContact2 (c : Contact2 K) : Contact2 (Opt K sq) := ⟨lift2 c.p1, lift2 c.p2, val c.dist⟩
def liftManifold3 (m : Manifold3 K) : Manifold3 (Opt K sq) := ⟨m.points.map (liftMContact3 sq), lift3 m.n1, lift3 m.n2⟩
def liftManifold2 (m : Manifold2 K) : Manifold2 (Opt K sq) := ⟨m.points.map (liftMContact2 sq), lift2 m.n1, lift2 m.n2⟩

@[optsimp] private theorem liftMContact3_mk (a b : V3 K) (d : K) :
    (⟨lift3 a, lift3 b, val d⟩ : Contact3 (Opt K sq)) = liftMContact3 sq ⟨a, b, d⟩ := id rfl
@[optsimp] private theorem liftMContact2_mk (a b : V2 K) (d : K) :
    (⟨lift2 a, lift2 b, val d⟩ : Contact2 (Opt K sq)) = liftMContact2 sq ⟨a, b, d⟩ := id rfl
@[optsimp] private theorem liftManifold3_points (m : Manifold3 K) :
    (liftManifold3 sq m).points = m.points.map (liftMContact3 sq) := id rfl
@[optsimp] private theorem liftManifold2_points (m : Manifold2 K) :
    (liftManifold2 sq m).points = m.points.map (liftMContact2 sq) := id rfl
@[optsimp] private theorem liftManifold3_clear (m : Manifold3 K) :
    (liftManifold3 sq m).clear = liftManifold3 sq m.clear := id rfl
@[optsimp] private theorem liftManifold2_clear (m : Manifold2 K) :
    (liftManifold2 sq m).clear = liftManifold2 sq m.clear := id rfl
@[optsimp] private theorem setFirst_map {α β : Type} (f : α → β) (c : α) (l : List α) :
    setFirst (f c) (l.map f) = (setFirst c l).map f := by cases l <;> rfl
@[optsimp] private theorem flipped3_lift (p1 p2 : V3 K) (d : K) (fl : Bool) :
    Contact3.flipped (lift3 p1 : V3 (Opt K sq)) (lift3 p2) (val d) fl = liftMContact3 sq (Contact3.flipped p1 p2 d fl) := by
  cases fl <;> rfl
@[optsimp] private theorem flipped2_lift (p1 p2 : V2 K) (d : K) (fl : Bool) :
    Contact2.flipped (lift2 p1 : V2 (Opt K sq)) (lift2 p2) (val d) fl = liftMContact2 sq (Contact2.flipped p1 p2 d fl) := by
  cases fl <;> rfl

/-- **C20 (contact_manifold_ball_ball, 3-D and 2-D)**: defined for every finite relative pose (any quaternion), radii (any sign,
zero included), prediction and incoming manifold — **coincident centres included**: the normal is `dcenter / |dcenter|` only
when the divisor `|dcenter| = sqrt |dcenter|²` is itself non-zero, otherwise `+y`; nothing is asked of the square-root operation. -/
theorem defined_c14_ballBall (pos12 : Iso3 K) (r1 r2 pred : K) (m : Manifold3 K)
    (pos12' : Iso2 K) (m' : Manifold2 K) :
    letI := fieldNum K sq
    ballBall3 (liftIso3 pos12 : Iso3 (Opt K sq)) (val r1) (val r2) (val pred) (liftManifold3 sq m)
      = liftManifold3 sq (ballBall3 pos12 r1 r2 pred m) ∧
    ballBall2 (liftIso2 pos12' : Iso2 (Opt K sq)) (val r1) (val r2) (val pred) (liftManifold2 sq m')
      = liftManifold2 sq (ballBall2 pos12' r1 r2 pred m') := by
  letI := fieldNum K sq
  refine ⟨?_, ?_⟩
  · simp only [ballBall3, optsimp]
    repeat' (first | split_ifs | simp only [optsimp])
    all_goals first | rfl | contradiction | (exfalso; simp only [optsimp] at *; tauto)
  · simp only [ballBall2, optsimp]
    repeat' (first | split_ifs | simp only [optsimp])
    all_goals first | rfl | contradiction | (exfalso; simp only [optsimp] at *; tauto)


def liftMVK3 (r : V3 K × K) : V3 (Opt K sq) × Opt K sq := (lift3 r.1, val r.2)
def liftMVK2 (r : V2 K × K) : V2 (Opt K sq) × Opt K sq := (lift2 r.1, val r.2)
def liftMBV3 (r : Bool × V3 K) : Bool × V3 (Opt K sq) := (r.1, lift3 r.2)
def liftMBV2 (r : Bool × V2 K) : Bool × V2 (Opt K sq) := (r.1, lift2 r.2)

/-- **C20 (`Unit::try_new_and_get(v, 0.0)`)**: `v / sqrt |v|²` only when `|v|² > 0`; defined for the zero vector (`none`) and for
every vector at which the square-root operation does not vanish (`SqrtPos`, no underflow). -/
theorem defined_c14_tryNormalize {θ : K} (hs : SqrtPos sq θ) (v : V3 K) (w : V2 K)
    (hv : letI := fieldNum K sq; v.normSq = 0 ∨ θ < v.normSq)
    (hw : letI := fieldNum K sq; w.normSq = 0 ∨ θ < w.normSq) :
    letI := fieldNum K sq
    tryNormalize3 (lift3 v : V3 (Opt K sq)) = (tryNormalize3 v).map (liftMVK3 sq) ∧
    tryNormalize2 (lift2 w : V2 (Opt K sq)) = (tryNormalize2 w).map (liftMVK2 sq) := by
  letI := fieldNum K sq
  refine ⟨?_, ?_⟩
  · simp only [tryNormalize3, optsimp]
    by_cases h : (0 : K) * 0 < v.normSq
    · have h0 : v.normSq ≠ 0 := fun e => by rw [e] at h; simp at h
      have hn : sq v.normSq ≠ 0 := by
        rcases hv with hv | hv
        · exact absurd hv h0
        · exact hs.ne hv
      have hnn : ¬ v.normSq < 0 := not_lt.mpr (normSq3_nonneg (sq := sq) v)
      simp only [if_pos h, if_neg hnn, if_neg hn, optsimp]; rfl
    · simp only [if_neg h]; rfl
  · simp only [tryNormalize2, optsimp]
    by_cases h : (0 : K) * 0 < w.normSq
    · have h0 : w.normSq ≠ 0 := fun e => by rw [e] at h; simp at h
      have hn : sq w.normSq ≠ 0 := by
        rcases hw with hw | hw
        · exact absurd hw h0
        · exact hs.ne hw
      have hnn : ¬ w.normSq < 0 := not_lt.mpr (normSq2_nonneg (sq := sq) w)
      simp only [if_pos h, if_neg hnn, if_neg hn, optsimp]; rfl
    · simp only [if_neg h]; rfl

/-- **C20 (normal of `contact_manifold_convex_ball`)**: `try_new_and_get(dpos)`, else `try_new(translation)`, else the x axis:
defined when the ball centre is **exactly on the shape** (`dpos = 0`) and when moreover the centres coincide (translation `0`). -/
theorem defined_c14_contactNormal {θ : K} (hs : SqrtPos sq θ) (dpos t : V3 K) (dpos' t' : V2 K)
    (h1 : letI := fieldNum K sq; dpos.normSq = 0 ∨ θ < dpos.normSq)
    (h2 : letI := fieldNum K sq; t.normSq = 0 ∨ θ < t.normSq)
    (h1' : letI := fieldNum K sq; dpos'.normSq = 0 ∨ θ < dpos'.normSq)
    (h2' : letI := fieldNum K sq; t'.normSq = 0 ∨ θ < t'.normSq) :
    letI := fieldNum K sq
    contactNormal3 (lift3 dpos : V3 (Opt K sq)) (lift3 t) = liftMVK3 sq (contactNormal3 dpos t) ∧
    contactNormal2 (lift2 dpos' : V2 (Opt K sq)) (lift2 t') = liftMVK2 sq (contactNormal2 dpos' t') := by
  letI := fieldNum K sq
  have a1 := (defined_c14_tryNormalize sq hs dpos dpos' h1 h1')
  have a2 := (defined_c14_tryNormalize sq hs t t' h2 h2')
  refine ⟨?_, ?_⟩
  · simp only [contactNormal3, a1.1, a2.1]
    cases tryNormalize3 dpos with
    | some x => rfl
    | none =>
      cases tryNormalize3 t with
      | some y => rfl
      | none => simp only [Option.map_none, optsimp]; rfl
  · simp only [contactNormal2, a1.2, a2.2]
    cases tryNormalize2 dpos' with
    | some x => rfl
    | none =>
      cases tryNormalize2 t' with
      | some y => rfl
      | none => simp only [Option.map_none, optsimp]; rfl


@[optsimp] private theorem liftManifold3_mk (l : List (Contact3 K)) (a b : V3 K) :
    (⟨l.map (liftMContact3 sq), lift3 a, lift3 b⟩ : Manifold3 (Opt K sq)) = liftManifold3 sq ⟨l, a, b⟩ := id rfl
@[optsimp] private theorem liftManifold2_mk (l : List (Contact2 K)) (a b : V2 K) :
    (⟨l.map (liftMContact2 sq), lift2 a, lift2 b⟩ : Manifold2 (Opt K sq)) = liftManifold2 sq ⟨l, a, b⟩ := id rfl
@[optsimp] private theorem list_singleton_map3 (c : Contact3 K) :
    [liftMContact3 sq c] = [c].map (liftMContact3 sq) := id rfl
@[optsimp] private theorem list_singleton_map2 (c : Contact2 K) :
    [liftMContact2 sq c] = [c].map (liftMContact2 sq) := id rfl

/-- **C20 (`contact_manifold_convex_ball` after the normal is known)**: products, sums and one comparison — defined for every input. -/
theorem defined_c14_convexBallOut (pos12 : Iso3 K) (p1 n1 : V3 K) (dist r2 pred : K) (flipped : Bool) (m : Manifold3 K)
    (pos12' : Iso2 K) (p1' n1' : V2 K) (m' : Manifold2 K) :
    letI := fieldNum K sq
    convexBallOut3 (liftIso3 pos12 : Iso3 (Opt K sq)) (lift3 p1) (lift3 n1) (val dist) (val r2) (val pred) flipped
        (liftManifold3 sq m) = liftManifold3 sq (convexBallOut3 pos12 p1 n1 dist r2 pred flipped m) ∧
    convexBallOut2 (liftIso2 pos12' : Iso2 (Opt K sq)) (lift2 p1') (lift2 n1') (val dist) (val r2) (val pred) flipped
        (liftManifold2 sq m') = liftManifold2 sq (convexBallOut2 pos12' p1' n1' dist r2 pred flipped m') := by
  letI := fieldNum K sq
  refine ⟨?_, ?_⟩
  · simp only [convexBallOut3, optsimp]
    split_ifs <;> simp only [optsimp] <;> rfl
  · simp only [convexBallOut2, optsimp]
    split_ifs <;> simp only [optsimp] <;> rfl

/-- **C20 (contact_manifold_convex_ball, 3-D)**: for ANY first shape whose point projection is defined at the ball centre
(hypothesis `hp`; e.g. `defined_c14_cuboidProject`, or the C05 projections of `Theorems2`), every pose, radius, prediction and
flip flag — **the ball centre exactly on the shape (`dpos = 0`) and coincident centres included** (normal fallbacks of
`defined_c14_contactNormal`); `hd`, `ht`: no underflow of the two squared norms that may be normalised. -/
theorem defined_c14_convexBall3 {θ : K} (hs : SqrtPos sq θ)
    (proj : V3 (Opt K sq) → Bool × V3 (Opt K sq)) (proj' : V3 K → Bool × V3 K)
    (pos12 : Iso3 K) (r2 pred : K) (flipped : Bool) (m : Manifold3 K)
    (hp : proj (lift3 pos12.t) = liftMBV3 sq (proj' pos12.t))
    (hd : letI := fieldNum K sq; (pos12.t.sub (proj' pos12.t).2).normSq = 0 ∨ θ < (pos12.t.sub (proj' pos12.t).2).normSq)
    (ht : letI := fieldNum K sq; pos12.t.normSq = 0 ∨ θ < pos12.t.normSq) :
    letI := fieldNum K sq
    convexBall3 proj (liftIso3 pos12) (val r2) (val pred) flipped (liftManifold3 sq m)
      = liftManifold3 sq (convexBall3 proj' pos12 r2 pred flipped m) := by
  letI := fieldNum K sq
  have hn := (defined_c14_contactNormal sq hs (pos12.t.sub (proj' pos12.t).2) pos12.t ⟨0, 0⟩ ⟨0, 0⟩ hd ht
    (Or.inl (by simp [V2.normSq, V2.dot])) (Or.inl (by simp [V2.normSq, V2.dot]))).1
  simp only [convexBall3, liftIso3_t, hp, liftMBV3, lift3_sub, hn, liftMVK3]
  cases (proj' pos12.t).1
  · simp only [Bool.false_eq_true, if_false]
    exact (defined_c14_convexBallOut sq pos12 _ _ _ r2 pred flipped m Iso2.identity ⟨0, 0⟩ ⟨0, 0⟩ ⟨[], ⟨0, 0⟩, ⟨0, 0⟩⟩).1
  · simp only [if_true, lift3_neg, val_neg]
    exact (defined_c14_convexBallOut sq pos12 _ _ _ r2 pred flipped m Iso2.identity ⟨0, 0⟩ ⟨0, 0⟩ ⟨[], ⟨0, 0⟩, ⟨0, 0⟩⟩).1

theorem defined_c14_convexBall2 {θ : K} (hs : SqrtPos sq θ)
    (proj : V2 (Opt K sq) → Bool × V2 (Opt K sq)) (proj' : V2 K → Bool × V2 K)
    (pos12 : Iso2 K) (r2 pred : K) (flipped : Bool) (m : Manifold2 K)
    (hp : proj (lift2 pos12.t) = liftMBV2 sq (proj' pos12.t))
    (hd : letI := fieldNum K sq; (pos12.t.sub (proj' pos12.t).2).normSq = 0 ∨ θ < (pos12.t.sub (proj' pos12.t).2).normSq)
    (ht : letI := fieldNum K sq; pos12.t.normSq = 0 ∨ θ < pos12.t.normSq) :
    letI := fieldNum K sq
    convexBall2 proj (liftIso2 pos12) (val r2) (val pred) flipped (liftManifold2 sq m)
      = liftManifold2 sq (convexBall2 proj' pos12 r2 pred flipped m) := by
  letI := fieldNum K sq
  have hn := (defined_c14_contactNormal sq hs ⟨0, 0, 0⟩ ⟨0, 0, 0⟩ (pos12.t.sub (proj' pos12.t).2) pos12.t
    (Or.inl (by simp [V3.normSq, V3.dot])) (Or.inl (by simp [V3.normSq, V3.dot])) hd ht).2
  simp only [convexBall2, liftIso2_t, hp, liftMBV2, lift2_sub, hn, liftMVK2]
  cases (proj' pos12.t).1
  · simp only [Bool.false_eq_true, if_false]
    exact (defined_c14_convexBallOut sq Iso3.identity ⟨0, 0, 0⟩ ⟨0, 0, 0⟩ _ r2 pred flipped ⟨[], ⟨0, 0, 0⟩, ⟨0, 0, 0⟩⟩ pos12 _ _ m).2
  · simp only [if_true, lift2_neg, val_neg]
    exact (defined_c14_convexBallOut sq Iso3.identity ⟨0, 0, 0⟩ ⟨0, 0, 0⟩ _ r2 pred flipped ⟨[], ⟨0, 0, 0⟩, ⟨0, 0, 0⟩⟩ pos12 _ _ m).2


def liftProjSt (st : ProjSt K) : ProjSt (Opt K sq) := ⟨val st.best, st.isMins, st.bestId⟩
@[optsimp] private theorem liftProjSt_mk (b : K) (m : Bool) (i : Nat) :
    (⟨val b, m, i⟩ : ProjSt (Opt K sq)) = liftProjSt sq ⟨b, m, i⟩ := id rfl
@[optsimp] private theorem liftProjSt_best (st : ProjSt K) : (liftProjSt sq st).best = val st.best := id rfl
@[optsimp] private theorem liftProjSt_isMins (st : ProjSt K) : (liftProjSt sq st).isMins = st.isMins := id rfl
@[optsimp] private theorem liftProjSt_bestId (st : ProjSt K) : (liftProjSt sq st).bestId = st.bestId := id rfl
@[optsimp] private theorem fmax_val : letI := fieldNum K sq; (fmax : Opt K sq) = val (fmax : K) := id rfl
@[optsimp] private theorem projStep_lift (a b : K) (i : Nat) (st : ProjSt K) :
    letI := fieldNum K sq
    projStep (val a : Opt K sq) (val b) i (liftProjSt sq st) = liftProjSt sq (projStep a b i st) := by
  letI := fieldNum K sq
  simp only [projStep, optsimp]
  split_ifs <;> rfl

/-- **C20 (`Cuboid::project_local_point_and_get_feature` as used by the manifold generator)**: no division, no square root —
defined for every half-extents (flat boxes) and point: **centre, medial-plane ties, faces, edges, vertices** included. -/
theorem defined_c14_cuboidProject (he pt : V3 K) (he' pt' : V2 K) :
    letI := fieldNum K sq
    cuboidProject3 (lift3 he : V3 (Opt K sq)) (lift3 pt) = liftMBV3 sq (cuboidProject3 he pt) ∧
    cuboidProject2 (lift2 he' : V2 (Opt K sq)) (lift2 pt') = liftMBV2 sq (cuboidProject2 he' pt') := by
  letI := fieldNum K sq
  refine ⟨?_, ?_⟩
  · simp only [cuboidProject3, optsimp]
    repeat' (first | split_ifs | simp only [optsimp])
    all_goals first | rfl | contradiction | (exfalso; simp only [optsimp] at *; tauto)
  · simp only [cuboidProject2, optsimp]
    repeat' (first | split_ifs | simp only [optsimp])
    all_goals first | rfl | contradiction | (exfalso; simp only [optsimp] at *; tauto)

/-- **C20 (contact manifold cuboid / ball)**: `defined_c14_convexBall3` instantiated with the cuboid projection: defined for every
box and ball — **ball centre at the box centre, on a face, an edge or a vertex** — the only hypotheses being the two
no-underflow conditions on the square-root operation. -/
theorem defined_c14_cuboidBall3 {θ : K} (hs : SqrtPos sq θ) (he : V3 K) (pos12 : Iso3 K) (r2 pred : K) (flipped : Bool)
    (m : Manifold3 K)
    (hd : letI := fieldNum K sq; (pos12.t.sub (cuboidProject3 he pos12.t).2).normSq = 0 ∨
      θ < (pos12.t.sub (cuboidProject3 he pos12.t).2).normSq)
    (ht : letI := fieldNum K sq; pos12.t.normSq = 0 ∨ θ < pos12.t.normSq) :
    letI := fieldNum K sq
    convexBall3 (cuboidProject3 (lift3 he : V3 (Opt K sq))) (liftIso3 pos12) (val r2) (val pred) flipped (liftManifold3 sq m)
      = liftManifold3 sq (convexBall3 (cuboidProject3 he) pos12 r2 pred flipped m) :=
  defined_c14_convexBall3 sq hs _ _ pos12 r2 pred flipped m (defined_c14_cuboidProject sq he pos12.t ⟨0, 0⟩ ⟨0, 0⟩).1 hd ht

/-- non-vacuity at `NaNable`: unit cube, unit ball exactly at the cube's centre and exactly on a vertex: finite manifolds -/
theorem c14_cuboidBall_centre_vertex_finite :
    (let m := convexBall3 (K := NaNable) (cuboidProject3 ⟨some 1, some 1, some 1⟩)
        ⟨some 0, some 0, some 0, some 1, ⟨some 0, some 0, some 0⟩⟩ (some 1) (some 0) false Manifold3.new
     m.points.map (fun c => (Option.isSome (c.p1.x : Option ℚ), Option.isSome (c.p2.y : Option ℚ), Option.isSome (c.dist : Option ℚ)))
       = [(true, true, true)] ∧ Option.isSome (m.n1.x : Option ℚ) = true) ∧
    (let m := convexBall3 (K := NaNable) (cuboidProject3 ⟨some 1, some 1, some 1⟩)
        ⟨some 0, some 0, some 0, some 1, ⟨some 1, some 1, some 1⟩⟩ (some 1) (some 0) false Manifold3.new
     m.points.map (fun c => (Option.isSome (c.p1.x : Option ℚ), Option.isSome (c.p2.y : Option ℚ), Option.isSome (c.dist : Option ℚ)))
       = [(true, true, true)] ∧ Option.isSome (m.n1.x : Option ℚ) = true) := by
  decide +kernel

end C20
