import ParryModel.Field
import ParryModel.C16.Model
set_option linter.unusedVariables false
set_option linter.unusedSimpArgs false
/-!
# C20, part 19: termination (fuel adequacy) of the double `while` loop of Hertel–Mehlhorn (`hertel_mehlhorn_idx`)

Every iteration of `C16.hmLoop` either leaves, advances `i11`, advances `i_poly1` (resetting `i11`), or merges two polygons
(one polygon fewer, `i11` reset).  With `S = Σ (len + 1)` over the polygons (non-increasing: a merge produces `len1 + len2 − 2`
vertices) and any `B ≥ S`, the potential

    μ = (B + 1) · #polygons + (Σ_{j ≥ i_poly1} (len_j + 1) − i11)

strictly decreases, so any fuel above it gives the same result; the model's `(2T+2)(3T+3)` is adequate for `T` triangles
(`S = 4T`).  Over the lawless `Num`.
-/
namespace C20
open Model Model.C15 Model.C16

variable {K : Type} [Num K]

def hmSz (polys : Array (Array Nat)) : List Nat := polys.toList.map (fun p => p.size + 1)
def hmMu (B : Nat) (polys : Array (Array Nat)) (i j : Nat) : Nat := (B + 1) * polys.size + (((hmSz polys).drop i).sum - j)
def hmInv (B : Nat) (polys : Array (Array Nat)) (i j : Nat) : Prop :=
  (hmSz polys).sum ≤ B ∧ (i < polys.size → j ≤ (polys.getD i #[]).size)

/-- one iteration: the result (`inl`) or the next state (`inr`) — verbatim from `C16.hmLoop` with the recursive calls replaced
by the states they are made on -/
def hmNext (pts : Array (V2 K)) (polys : Array (Array Nat)) (iPoly1 i11 : Nat) :
    Sum (Array (Array Nat)) (Array (Array Nat) × Nat × Nat) :=
  if ¬ iPoly1 < polys.size then .inl polys else
  let polygon1 := polys.getD iPoly1 #[]
  if ¬ i11 < polygon1.size then .inr (polys, iPoly1 + 1, 0) else
  let len1 := polygon1.size
  let i12 := (i11 + 1) % len1
  let edgeStart := polygon1.getD i11 0
  let edgeEnd := polygon1.getD i12 0
  match findPoly2 polys (iPoly1 + 1) edgeEnd edgeStart with
  | none => .inr (polys, iPoly1, i11 + 1)
  | some (iPoly2, i21, i22) =>
    let polygon2 := polys.getD iPoly2 #[]
    let len2 := polygon2.size
    let i13 := (len1 + i11 - 1) % len1
    let i23 := (i22 + 1) % len2
    let p1 := pt pts (polygon2.getD i23 0)
    let p2 := pt pts (polygon1.getD i13 0)
    let p3 := pt pts (polygon1.getD i11 0)
    if cornerDirection p1 p2 p3 = .cw then .inr (polys, iPoly1, i11 + 1) else
    let i13' := (i12 + 1) % len1
    let i23' := (len2 + i21 - 1) % len2
    let q1 := pt pts (polygon1.getD i13' 0)
    let q2 := pt pts (polygon2.getD i23' 0)
    let q3 := pt pts (polygon1.getD i12 0)
    if cornerDirection q1 q2 q3 = .cw then .inr (polys, iPoly1, i11 + 1) else
    let newPolygon := cycleSkipTake polygon1 i12 (len1 - 1) ++ cycleSkipTake polygon2 i22 (len2 - 1)
    let polys := polys.eraseIdxIfInBounds iPoly2
    let polys := polys.setIfInBounds iPoly1 newPolygon
    .inr (polys, iPoly1, 0)

/-- `hmLoop` with one more unit of fuel is `hmNext` followed by `hmLoop` -/
theorem hmLoop_next (pts : Array (V2 K)) (n : Nat) (polys : Array (Array Nat)) (i j : Nat) :
    hmLoop pts (n + 1) polys i j =
      match hmNext pts polys i j with
      | .inl r => r
      | .inr st => hmLoop pts n st.1 st.2.1 st.2.2 := by
  rw [hmLoop]
  unfold hmNext
  dsimp only
  split_ifs <;> try rfl
  all_goals (split <;> rename_i heq <;> simp only [heq])
  all_goals (split_ifs <;> rfl)

private theorem sum_map_eraseIdx {α : Type} (f : α → Nat) : ∀ (l : List α) (k : Nat) (h : k < l.length),
    ((l.eraseIdx k).map f).sum + f l[k] = (l.map f).sum
  | [], k, h => by simp at h
  | x :: xs, 0, h => by simp; omega
  | x :: xs, k + 1, h => by
    have ih := sum_map_eraseIdx f xs k (by simpa using h)
    simp only [List.eraseIdx_cons_succ, List.map_cons, List.sum_cons, List.getElem_cons_succ] at ih ⊢
    omega

private theorem sum_map_set {α : Type} (f : α → Nat) : ∀ (l : List α) (k : Nat) (x : α) (h : k < l.length),
    ((l.set k x).map f).sum + f l[k] = (l.map f).sum + f x
  | [], k, x, h => by simp at h
  | y :: ys, 0, x, h => by simp; omega
  | y :: ys, k + 1, x, h => by
    have ih := sum_map_set f ys k x (by simpa using h)
    simp only [List.set_cons_succ, List.map_cons, List.sum_cons, List.getElem_cons_succ] at ih ⊢
    omega

private theorem findPoly2_bounds (polys : Array (Array Nat)) (from_ e s i2 a b : Nat)
    (h : findPoly2 polys from_ e s = some (i2, a, b)) : from_ ≤ i2 ∧ i2 < polys.size := by
  unfold findPoly2 at h
  obtain ⟨x, hx, hg⟩ := List.exists_of_findSome?_eq_some h
  have hx1 : x < polys.size := by
    have := List.mem_of_mem_drop hx
    simpa using this
  have hx2 : from_ ≤ x := by
    rw [List.mem_iff_getElem] at hx
    obtain ⟨n, hn, he⟩ := hx
    simp at he
    omega
  cases hfe : findEdge e s (polys.getD x #[]) with
  | none => rw [hfe] at hg; simp at hg
  | some r =>
    rw [hfe] at hg
    simp only [Option.map_some, Option.some.injEq, Prod.mk.injEq] at hg
    omega

private theorem size_cycleSkipTake (p : Array Nat) (k m : Nat) : (cycleSkipTake p k m).size = m := by
  simp [cycleSkipTake]

private theorem getD_toList (polys : Array (Array Nat)) (i : Nat) (h : i < polys.size) :
    polys.getD i #[] = polys.toList[i]'(by simpa using h) := by
  simp [Array.getD, h]

private theorem hmSz_tail (polys : Array (Array Nat)) (i : Nat) (h : i < polys.size) :
    ((hmSz polys).drop i).sum = ((polys.getD i #[]).size + 1) + ((hmSz polys).drop (i + 1)).sum := by
  have hlen : i < (hmSz polys).length := by simpa [hmSz] using h
  rw [List.drop_eq_getElem_cons hlen, List.sum_cons, getD_toList polys i h]
  simp [hmSz]

/-- the merge does not increase `Σ (len + 1)` and removes one polygon -/
private theorem hm_merge (polys : Array (Array Nat)) (i i2 : Nat) (new : Array Nat) (h1 : i < i2) (h2 : i2 < polys.size)
    (hn : new.size ≤ (polys.getD i #[]).size + (polys.getD i2 #[]).size) :
    (hmSz ((polys.eraseIdxIfInBounds i2).setIfInBounds i new)).sum ≤ (hmSz polys).sum ∧
    ((polys.eraseIdxIfInBounds i2).setIfInBounds i new).size = polys.size - 1 := by
  refine ⟨?_, by simp [Array.eraseIdxIfInBounds, h2]⟩
  have hl2 : i2 < polys.toList.length := by simpa using h2
  have hli : i < (polys.toList.eraseIdx i2).length := by rw [List.length_eraseIdx, if_pos hl2]; omega
  have e1 := sum_map_set (fun p : Array Nat => p.size + 1) (polys.toList.eraseIdx i2) i new hli
  have e2 := sum_map_eraseIdx (fun p : Array Nat => p.size + 1) polys.toList i2 hl2
  have e3 : (polys.toList.eraseIdx i2)[i] = polys.toList[i]'(by omega) := List.getElem_eraseIdx_of_lt hli h1
  rw [getD_toList polys i (by omega), getD_toList polys i2 h2] at hn
  simp only [hmSz, Array.toList_setIfInBounds, Array.toList_eraseIdxIfInBounds]
  rw [e3] at e1
  omega


/-- what a continuing step can be -/
def hmStepKind (polys : Array (Array Nat)) (i j : Nat) (st : Array (Array Nat) × Nat × Nat) : Prop :=
  (st = (polys, i + 1, 0) ∧ i < polys.size ∧ ¬ j < (polys.getD i #[]).size) ∨
  (st = (polys, i, j + 1) ∧ i < polys.size ∧ j < (polys.getD i #[]).size) ∨
  (∃ (i2 : Nat) (new : Array Nat), i < polys.size ∧ i + 1 ≤ i2 ∧ i2 < polys.size ∧
      new.size ≤ (polys.getD i #[]).size + (polys.getD i2 #[]).size ∧
      st = ((polys.eraseIdxIfInBounds i2).setIfInBounds i new, i, 0))

theorem hmNext_kind (pts : Array (V2 K)) (polys : Array (Array Nat)) (i j : Nat) :
    match hmNext pts polys i j with
    | .inl _ => True
    | .inr st => hmStepKind polys i j st := by
  unfold hmNext
  dsimp only
  by_cases h0 : i < polys.size
  · rw [if_neg (not_not.mpr h0)]
    by_cases h1 : j < (polys.getD i #[]).size
    · rw [if_neg (not_not.mpr h1)]
      split
      · trivial
      · rename_i st heq
        split at heq
        · obtain rfl := Sum.inr.inj heq
          exact Or.inr (Or.inl ⟨rfl, h0, h1⟩)
        · rename_i i2 i21 i22 hf
          have hb := findPoly2_bounds polys (i + 1) _ _ i2 i21 i22 hf
          split_ifs at heq
          all_goals obtain rfl := Sum.inr.inj heq
          all_goals first
            | exact Or.inr (Or.inl ⟨rfl, h0, h1⟩)
            | (refine Or.inr (Or.inr ⟨i2, _, h0, hb.1, hb.2, ?_, rfl⟩)
               have hg : (polys.getD i #[]).size = (polys.getInternal i h0).size := by simp [Array.getD, h0]
               simp only [Array.size_append, size_cycleSkipTake]
               omega)
    · rw [if_pos h1]
      exact Or.inl ⟨rfl, h0, h1⟩
  · rw [if_pos h0]; trivial

/-- a step that continues goes to a state that satisfies the invariant again and has strictly smaller potential -/
theorem hmNext_decreases (pts : Array (V2 K)) (B : Nat) (polys : Array (Array Nat)) (i j : Nat) (hI : hmInv B polys i j)
    (st : Array (Array Nat) × Nat × Nat) (h : hmNext pts polys i j = .inr st) :
    hmInv B st.1 st.2.1 st.2.2 ∧ hmMu B st.1 st.2.1 st.2.2 < hmMu B polys i j := by
  have hk := hmNext_kind pts polys i j
  rw [h] at hk
  rcases hk with ⟨rfl, h0, h1⟩ | ⟨rfl, h0, h1⟩ | ⟨i2, new, h0, hb1, hb2, hn, rfl⟩
  · have ht := hmSz_tail polys i h0
    have hj := hI.2 h0
    refine ⟨⟨hI.1, fun _ => Nat.zero_le _⟩, ?_⟩
    simp only [hmMu]; omega
  · have ht := hmSz_tail polys i h0
    refine ⟨⟨hI.1, fun _ => h1⟩, ?_⟩
    simp only [hmMu]; omega
  · have hm := hm_merge polys i i2 new (by omega) hb2 hn
    generalize (polys.eraseIdxIfInBounds i2).setIfInBounds i new = polys' at hm ⊢
    refine ⟨⟨le_trans hm.1 hI.1, fun _ => Nat.zero_le _⟩, ?_⟩
    simp only [hmMu, hm.2]
    have hle : ((hmSz polys').drop i).sum ≤ B := by
      refine le_trans ?_ (le_trans hm.1 hI.1)
      exact List.Sublist.sum_le_sum (List.drop_sublist _ _) (fun _ _ => Nat.zero_le _)
    have hmul : (B + 1) * polys.size = (B + 1) * (polys.size - 1) + (B + 1) := by
      conv_lhs => rw [show polys.size = (polys.size - 1) + 1 by omega]
      ring
    omega

/-- **C20 (termination of Hertel–Mehlhorn)**: from any state satisfying the invariant, any two amounts of fuel above the
potential give the same result — the double `while` loop leaves through its own exit. -/
theorem hmLoop_fuel_adequate (pts : Array (V2 K)) (B : Nat) :
    ∀ (fuel fuel' : Nat) (polys : Array (Array Nat)) (i j : Nat), hmInv B polys i j →
      hmMu B polys i j < fuel → hmMu B polys i j < fuel' → hmLoop pts fuel polys i j = hmLoop pts fuel' polys i j := by
  intro fuel
  induction fuel with
  | zero => intro fuel' polys i j _ h; omega
  | succ n ih =>
    intro fuel' polys i j hI h h'
    cases fuel' with
    | zero => omega
    | succ n' =>
      rw [hmLoop_next, hmLoop_next]
      cases hn : hmNext pts polys i j with
      | inl r => rfl
      | inr st =>
        have hd := hmNext_decreases pts B polys i j hI st hn
        exact ih n' st.1 st.2.1 st.2.2 hd.1 (by omega) (by omega)

/-- **the cap of the model is adequate**: for the `T` input triangles `Σ (len + 1) = 4T`, the potential of the initial state is
`(4T + 1) T + 4T < (2T + 2)(3T + 3)`; more fuel changes nothing. -/
theorem hmLoop_cap_adequate (pts : Array (V2 K)) (tris : Array (Nat × Nat × Nat)) (extra : Nat) :
    hmLoop pts ((2 * tris.size + 2) * (3 * tris.size + 3) + extra) (tris.map fun t => #[t.1, t.2.1, t.2.2]) 0 0
      = hmLoop pts ((2 * tris.size + 2) * (3 * tris.size + 3)) (tris.map fun t => #[t.1, t.2.1, t.2.2]) 0 0 := by
  have hS : (hmSz (tris.map fun t => #[t.1, t.2.1, t.2.2])).sum = 4 * tris.size := by
    simp [hmSz, Function.comp_def, List.sum_const_nat]
    omega
  have hI : hmInv (4 * tris.size) (tris.map fun t => #[t.1, t.2.1, t.2.2]) 0 0 := ⟨le_of_eq hS, fun _ => Nat.zero_le _⟩
  have hmu : hmMu (4 * tris.size) (tris.map fun t => #[t.1, t.2.1, t.2.2]) 0 0 < (2 * tris.size + 2) * (3 * tris.size + 3) := by
    simp only [hmMu, List.drop_zero, hS, Array.size_map, Nat.sub_zero]
    nlinarith [Nat.zero_le tris.size]
  exact hmLoop_fuel_adequate pts _ _ _ _ 0 0 hI (by omega) hmu

end C20
