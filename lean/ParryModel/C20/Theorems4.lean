import ParryModel.C20.Lemmas
import ParryModel.C10.Model
import ParryModel.C09.Model2
import ParryModel.C13.Model
set_option linter.style.haveILetI false
set_option linter.unusedSimpArgs false
set_option linter.unusedSectionVars false
set_option linter.unusedVariables false
/-!
# C20 definedness theorems, part 4: support maps (C10), bounding volumes (C09), mass properties (C13)

Shape of every theorem: `f (lift x) = lift (f x)` — the model function evaluated with the NaN-propagating scalars
`Opt K sq` on finite input equals the exact field evaluation injected by `some`: no division by zero and no square root
of a negative number reaches the output, every output float is finite, branches and values are those of the exact
evaluation (see `C20/Lemmas.lean`).

## C10 summary
* no hypothesis at all (every finite direction, **the zero direction included**): cuboid, segment, triangle, cone,
  cylinder, point clouds / convex polyhedra / polygons, constant point / origin, all `*_toward` variants, `iamax`-like
  index functions, cuboid / triangle / segment / cylinder / cone feature maps;
* `SqrtPos sq θ` and `dir = 0 ∨ θ < |dir|²` (zero direction covered by the code's own fallback): capsule, `Unit::try_new`,
  `Triangle::support_face` (2-D), `ConvexPolygon::local_support_feature`;
* `SqrtPos sq θ` and `θ < |dir|²` (**non-zero** direction): ball, `RoundShape`, `DilatedShape` — these call
  `Unit::new_normalize(dir)` unguarded; at the zero direction the real code returns `(NaN, NaN, NaN)`
  (`ball_zero_dir_nan`, replayed on the crates).  The documentation of `SupportMap` (`shape/support_map.rs`) is silent
  about the zero direction; the support function of a convex set is not defined there (every point is a maximiser)
  and the C10 oracle skips it (`skip zero-direction`), so this is reported as a contract gap, not as a violation.
* floating point only (outside exact arithmetic): a non-zero direction whose squared norm underflows to `0`
  (e.g. `(1e-200, 0, 0)`) behaves like the zero direction for the shapes of the third group: `Ball` returns
  `(inf, NaN, NaN)` on the real crates; capsule falls back to `+y`; cone / cylinder take the "axis" branch.  This is
  the rôle of the threshold `θ` in `SqrtPos`.
-/
namespace C20
open Model Model.C10

variable {K : Type} [Field K] [LinearOrder K] [IsStrictOrderedRing K] (sq : K → K)

/-! ## C10 — scalar primitives -/

@[optsimp] private theorem copysign_val (m s : K) :
    letI := fieldNum K sq; (copysign (val m) (val s) : Opt K sq) = val (copysign m s) := by
  letI := fieldNum K sq
  simp only [copysign, val_one, val_zero, val_lt, val_one_div_lt_zero, val_nabs, val_neg]
  split_ifs <;> rfl

@[optsimp] private theorem signNeg_val (x : K) :
    letI := fieldNum K sq; signNeg (val x : Opt K sq) = signNeg x := by
  letI := fieldNum K sq
  rw [Bool.eq_iff_iff]
  simp only [signNeg, val_one, val_zero, val_lt, val_one_div_lt_zero, decide_eq_true_eq']

@[optsimp] private theorem c10eps_val : letI := fieldNum K sq; (C10.eps : Opt K sq) = val (C10.eps : K) := id rfl
private theorem c10eps_pos : letI := fieldNum K sq; (0 : K) < C10.eps := lit_pos 1 _ (by decide) (by decide)

/-- **C20 (`Unit::new_normalize`, 3-D)**: `v / |v|` is defined as soon as the square-root operation does not vanish at `|v|²` (`θ < |v|²`; with a lawful square root, `θ = 0`: every non-zero `v`).  Unguarded in the code: at `v = 0` it is `0/0`. -/
theorem defined_normalize3 {θ : K} (hs : SqrtPos sq θ) (v : V3 K)
    (hu : letI := fieldNum K sq; θ < v.normSq) :
    letI := fieldNum K sq
    normalize3 (lift3 v : V3 (Opt K sq)) = lift3 (normalize3 v) := by
  letI := fieldNum K sq
  have hne : v.norm ≠ 0 := hs.ne hu
  simp only [normalize3, optsimp, if_neg hne]

/-- **C20 (`Unit::new_normalize`, 2-D)**: as `defined_normalize3`. -/
theorem defined_normalize2 {θ : K} (hs : SqrtPos sq θ) (v : V2 K)
    (hu : letI := fieldNum K sq; θ < v.normSq) :
    letI := fieldNum K sq
    normalize2 (lift2 v : V2 (Opt K sq)) = lift2 (normalize2 v) := by
  letI := fieldNum K sq
  have hne : v.norm ≠ 0 := hs.ne hu
  simp only [normalize2, optsimp, if_neg hne]

/-- **C20 (`Unit::try_new(v, min_norm)`, 3-D)**: defined for every vector **including `v = 0`** and every threshold (any sign): the division by `sqrt |v|²` is reached only when `|v|² > min_norm² ≥ 0`; `hu` asks that the square-root operation does not vanish there (no underflow; automatic when `θ ≤ min_norm²`, and for `θ = 0`). -/
theorem defined_tryNew3 {θ : K} (hs : SqrtPos sq θ) (v : V3 K) (minNorm : K)
    (hu : letI := fieldNum K sq; v.normSq ≤ minNorm * minNorm ∨ θ < v.normSq) :
    letI := fieldNum K sq
    tryNew3 (lift3 v : V3 (Opt K sq)) (val minNorm) = (tryNew3 v minNorm).map lift3 := by
  letI := fieldNum K sq
  have hnn : ¬ v.normSq < 0 := not_lt.mpr (normSq3_nonneg (sq := sq) v)
  simp only [tryNew3, optsimp, if_neg hnn]
  by_cases h1 : minNorm * minNorm < v.normSq
  · have hne : sq v.normSq ≠ 0 := by
      rcases hu with hu | hu
      · exact absurd h1 (not_lt.mpr hu)
      · exact hs.ne hu
    simp only [if_pos h1, optsimp, if_neg hne]
  · simp only [if_neg h1, optsimp]

/-- **C20 (`Unit::try_new(v, min_norm)`, 2-D)**: as `defined_tryNew3`. -/
theorem defined_tryNew2 {θ : K} (hs : SqrtPos sq θ) (v : V2 K) (minNorm : K)
    (hu : letI := fieldNum K sq; v.normSq ≤ minNorm * minNorm ∨ θ < v.normSq) :
    letI := fieldNum K sq
    tryNew2 (lift2 v : V2 (Opt K sq)) (val minNorm) = (tryNew2 v minNorm).map lift2 := by
  letI := fieldNum K sq
  have hnn : ¬ v.normSq < 0 := not_lt.mpr (normSq2_nonneg (sq := sq) v)
  simp only [tryNew2, optsimp, if_neg hnn]
  by_cases h1 : minNorm * minNorm < v.normSq
  · have hne : sq v.normSq ≠ 0 := by
      rcases hu with hu | hu
      · exact absurd h1 (not_lt.mpr hu)
      · exact hs.ne hu
    simp only [if_pos h1, optsimp, if_neg hne]
  · simp only [if_neg h1, optsimp]

/-- **C20 (`v.try_normalize(min_norm)`, 2-D)**: the guard is on the norm itself (`n <= min_norm → None`), so for a non-negative threshold **nothing** is required of the square-root operation: defined for every vector, zero included. -/
theorem defined_tryNormalize2 (v : V2 K) (minNorm : K) (hm : 0 ≤ minNorm) :
    letI := fieldNum K sq
    tryNormalize2 (lift2 v : V2 (Opt K sq)) (val minNorm) = (tryNormalize2 v minNorm).map lift2 := by
  letI := fieldNum K sq
  simp only [tryNormalize2, optsimp]
  split_ifs with h1 h2
  · rfl
  · exfalso; exact h1 (h2 ▸ hm)
  · rfl

/-! ## Ball -/
/-- **C20 (Ball: `local_support_point`, `support_point`, `local_support_point_toward`, `support_point_toward`, 3-D)**: defined for every radius (any sign, zero included), every pose and every direction with `θ < |dir|²` (non-zero, squared norm not underflowing; `θ = 0` for a lawful square root).  The two `*_toward` variants have no division at all: defined for **every** direction (unit or not, zero included).  The zero direction is NOT covered for the first two: see `ball_zero_dir_nan`. -/
theorem defined_ball_support3 {θ : K} (hs : SqrtPos sq θ) (r : K) (m : Iso3 K) (dir : V3 K)
    (hu : letI := fieldNum K sq; θ < dir.normSq) :
    letI := fieldNum K sq
    ballLocal3 (val r : Opt K sq) (lift3 dir) = lift3 (ballLocal3 r dir) ∧
    ballPosed3 (val r : Opt K sq) (liftIso3 m) (lift3 dir) = lift3 (ballPosed3 r m dir) ∧
    ballToward3 (val r : Opt K sq) (lift3 dir) = lift3 (ballToward3 r dir) ∧
    ballPosedToward3 (val r : Opt K sq) (liftIso3 m) (lift3 dir) = lift3 (ballPosedToward3 r m dir) := by
  letI := fieldNum K sq
  refine ⟨?_, ?_, ?_, ?_⟩
  · simp only [ballLocal3, ballToward3, defined_normalize3 sq hs dir hu, optsimp]
  · simp only [ballPosed3, ballPosedToward3, defined_normalize3 sq hs dir hu, optsimp]
  · simp only [ballToward3, optsimp]
  · simp only [ballPosedToward3, optsimp]

/-- **C20 (Ball support map, 2-D)**: as `defined_ball_support3`. -/
theorem defined_ball_support2 {θ : K} (hs : SqrtPos sq θ) (r : K) (m : Iso2 K) (dir : V2 K)
    (hu : letI := fieldNum K sq; θ < dir.normSq) :
    letI := fieldNum K sq
    ballLocal2 (val r : Opt K sq) (lift2 dir) = lift2 (ballLocal2 r dir) ∧
    ballPosed2 (val r : Opt K sq) (liftIso2 m) (lift2 dir) = lift2 (ballPosed2 r m dir) ∧
    ballToward2 (val r : Opt K sq) (lift2 dir) = lift2 (ballToward2 r dir) ∧
    ballPosedToward2 (val r : Opt K sq) (liftIso2 m) (lift2 dir) = lift2 (ballPosedToward2 r m dir) := by
  letI := fieldNum K sq
  refine ⟨?_, ?_, ?_, ?_⟩
  · simp only [ballLocal2, ballToward2, defined_normalize2 sq hs dir hu, optsimp]
  · simp only [ballPosed2, ballPosedToward2, defined_normalize2 sq hs dir hu, optsimp]
  · simp only [ballToward2, optsimp]
  · simp only [ballPosedToward2, optsimp]

/-- witness at `NaNable`: `Ball::local_support_point(0)` / `support_point(_, 0)` are `(0/0)·r = NaN` (`Unit::new_normalize` is unguarded).  Replayed on the real crates: `C10 ball_local 1 0 0 0 → nan nan nan`, `ball2_local → nan nan`, `roundcuboid_local`, `dilatedcuboid_local → nan nan nan`, whereas `capsule_local`, `cone_local`, `cylinder_local`, `cuboid_local` return a finite support point.  `SupportMap`'s documentation does not mention the zero direction (the support function is not defined there); reported as a contract gap with a one-line patch (`Unit::try_new(*dir, 0.0).unwrap_or(Vector::y_axis())`, as `Capsule` does). -/
theorem ball_zero_dir_nan :
    Option.isSome ((ballLocal3 (K := NaNable) (some 1) ⟨some 0, some 0, some 0⟩).x : Option Rat) = false ∧
    Option.isSome ((ballLocal2 (K := NaNable) (some 1) ⟨some 0, some 0⟩).x : Option Rat) = false ∧
    Option.isSome ((ballPosed3 (K := NaNable) (some 1) Iso3.identity ⟨some 0, some 0, some 0⟩).x : Option Rat) = false := by
  decide +kernel

/-! ## Cuboid, Segment, Triangle -/
/-- **C20 (Cuboid::local_support_point, 3-D and 2-D)**: defined for **every** finite half-extents (any sign, zero) and **every** direction — zero components and the zero direction included.  `copysign` reads the sign bit with `1 / d < 0`; at `d = 0` this is `1/0 = NaN` used only inside a comparison (false, as `1/0 = 0 < 0` is in the field): a dead NaN (`val_one_div_lt_zero`). -/
theorem defined_cuboidLocal (he dir : V3 K) (he2 dir2 : V2 K) :
    letI := fieldNum K sq
    cuboidLocal3 (lift3 he : V3 (Opt K sq)) (lift3 dir) = lift3 (cuboidLocal3 he dir) ∧
    cuboidLocal2 (lift2 he2 : V2 (Opt K sq)) (lift2 dir2) = lift2 (cuboidLocal2 he2 dir2) := by
  letI := fieldNum K sq
  constructor
  · simp only [cuboidLocal3, optsimp]
  · simp only [cuboidLocal2, optsimp]

/-- **C20 (Segment::local_support_point)**: one comparison of two dot products — defined for every segment (zero-length included) and every direction (zero included: returns `b`). -/
theorem defined_segmentLocal (a b dir : V3 K) (a2 b2 dir2 : V2 K) :
    letI := fieldNum K sq
    segmentLocal3 (lift3 a : V3 (Opt K sq)) (lift3 b) (lift3 dir) = lift3 (segmentLocal3 a b dir) ∧
    segmentLocal2 (lift2 a2 : V2 (Opt K sq)) (lift2 b2) (lift2 dir2) = lift2 (segmentLocal2 a2 b2 dir2) := by
  letI := fieldNum K sq
  constructor
  · simp only [segmentLocal3, optsimp]; split_ifs <;> rfl
  · simp only [segmentLocal2, optsimp]; split_ifs <;> rfl

/-- **C20 (Triangle::local_support_point)**: comparisons of dot products only — defined for every triangle (flat, point-like) and every direction (zero included: returns `c`). -/
theorem defined_triangleLocal (a b c dir : V3 K) (a2 b2 c2 dir2 : V2 K) :
    letI := fieldNum K sq
    triangleLocal3 (lift3 a : V3 (Opt K sq)) (lift3 b) (lift3 c) (lift3 dir) = lift3 (triangleLocal3 a b c dir) ∧
    triangleLocal2 (lift2 a2 : V2 (Opt K sq)) (lift2 b2) (lift2 c2) (lift2 dir2)
      = lift2 (triangleLocal2 a2 b2 c2 dir2) := by
  letI := fieldNum K sq
  constructor
  · simp only [triangleLocal3, optsimp]; split_ifs <;> rfl
  · simp only [triangleLocal2, optsimp]; split_ifs <;> rfl

/-! ## Capsule -/
/-- **C20 (Capsule::local_support_point / local_support_point_toward, 3-D)**: defined for every capsule (zero-length axis, radius of any sign) and every direction **including the zero direction** (`Unit::try_new(dir, 0.0)` fails and the code falls back to `+y`).  `hu`: a non-zero `|dir|²` must be above the threshold `θ` of the square-root operation (`noUnderflow_zero` for `θ = 0`).  The `toward` variant needs nothing. -/
theorem defined_capsule_support3 {θ : K} (hs : SqrtPos sq θ) (a b : V3 K) (r : K) (dir : V3 K)
    (hu : letI := fieldNum K sq; dir.normSq = 0 ∨ θ < dir.normSq) :
    letI := fieldNum K sq
    capsuleLocal3 (lift3 a : V3 (Opt K sq)) (lift3 b) (val r) (lift3 dir) = lift3 (capsuleLocal3 a b r dir) ∧
    capsuleToward3 (lift3 a : V3 (Opt K sq)) (lift3 b) (val r) (lift3 dir) = lift3 (capsuleToward3 a b r dir) := by
  letI := fieldNum K sq
  have ht : ∀ d : V3 K, capsuleToward3 (lift3 a : V3 (Opt K sq)) (lift3 b) (val r) (lift3 d)
      = lift3 (capsuleToward3 a b r d) := by
    intro d; simp only [capsuleToward3, optsimp]; split_ifs <;> rfl
  refine ⟨?_, ht dir⟩
  have hu' : dir.normSq ≤ (0 : K) * 0 ∨ θ < dir.normSq := by
    rcases hu with h | h
    · left; rw [h]; simp
    · exact Or.inr h
  have e0 : (0 : Opt K sq) = val 0 := rfl
  simp only [capsuleLocal3, e0, defined_tryNew3 sq hs dir 0 hu']
  cases tryNew3 dir (0 : K)
  · exact ht ⟨0, 1, 0⟩
  · exact ht _

/-- **C20 (Capsule support map, 2-D)**: as `defined_capsule_support3`. -/
theorem defined_capsule_support2 {θ : K} (hs : SqrtPos sq θ) (a b : V2 K) (r : K) (dir : V2 K)
    (hu : letI := fieldNum K sq; dir.normSq = 0 ∨ θ < dir.normSq) :
    letI := fieldNum K sq
    capsuleLocal2 (lift2 a : V2 (Opt K sq)) (lift2 b) (val r) (lift2 dir) = lift2 (capsuleLocal2 a b r dir) ∧
    capsuleToward2 (lift2 a : V2 (Opt K sq)) (lift2 b) (val r) (lift2 dir) = lift2 (capsuleToward2 a b r dir) := by
  letI := fieldNum K sq
  have ht : ∀ d : V2 K, capsuleToward2 (lift2 a : V2 (Opt K sq)) (lift2 b) (val r) (lift2 d)
      = lift2 (capsuleToward2 a b r d) := by
    intro d; simp only [capsuleToward2, optsimp]; split_ifs <;> rfl
  refine ⟨?_, ht dir⟩
  have hu' : dir.normSq ≤ (0 : K) * 0 ∨ θ < dir.normSq := by
    rcases hu with h | h
    · left; rw [h]; simp
    · exact Or.inr h
  have e0 : (0 : Opt K sq) = val 0 := rfl
  simp only [capsuleLocal2, e0, defined_tryNew2 sq hs dir 0 hu']
  cases tryNew2 dir (0 : K)
  · exact ht ⟨0, 1⟩
  · exact ht _

/-! ## Cone, Cylinder -/
/-- **C20 (Cone::local_support_point)**: **no hypothesis**.  The code normalises the planar part `(dir.x, 0, dir.z)` *before* testing it (`vres.normalize_mut().is_zero()`): the guard is `norm == 0` on the returned norm `n = sqrt(x² + z²)` itself, so the quotient `v/n` is used only when `n ≠ 0` — whatever the square-root operation does (even if it underflows to `0` on a non-zero argument, the axis branch is taken and the NaN vector `v/0` is dead).  Covers every half-height / radius (any sign, zero), axis-parallel directions, the zero direction (returns `(0, ±hh, 0)`), ties between apex and base. -/
theorem defined_coneLocal (hh r : K) (dir : V3 K) :
    letI := fieldNum K sq
    coneLocal (val hh : Opt K sq) (val r) (lift3 dir) = lift3 (coneLocal hh r dir) := by
  letI := fieldNum K sq
  simp only [coneLocal, optsimp]
  opt_steps
  all_goals
    first
    | rfl
    | (exfalso; simp only [optsimp] at *; tauto)

/-- **C20 (Cylinder::local_support_point)**: **no hypothesis**, same guard as the cone (`normalize_mut().is_zero()` tests the norm that is divided by).  Zero direction and axis-parallel directions return `(0, ±hh, 0)`. -/
theorem defined_cylinderLocal (hh r : K) (dir : V3 K) :
    letI := fieldNum K sq
    cylinderLocal (val hh : Opt K sq) (val r) (lift3 dir) = lift3 (cylinderLocal hh r dir) := by
  letI := fieldNum K sq
  simp only [cylinderLocal, optsimp]
  opt_steps

/-! ## trait defaults, RoundShape, DilatedShape, constants -/

/-- **C20 (`SupportMap::support_point` / `support_point_toward` trait defaults, 3-D)**: the isometry action and its inverse rotation are polynomial: the posed support point is defined whenever the local one is (hypothesis `hloc`, at the rotated direction), for every pose. -/
theorem defined_supportPoint3 (locO : V3 (Opt K sq) → V3 (Opt K sq)) (loc : V3 K → V3 K) (m : Iso3 K) (dir : V3 K)
    (hloc : letI := fieldNum K sq; locO (lift3 (m.invRot dir)) = lift3 (loc (m.invRot dir))) :
    letI := fieldNum K sq
    supportPoint3 locO (liftIso3 m) (lift3 dir) = lift3 (supportPoint3 loc m dir) ∧
    supportPointToward3 locO (liftIso3 m) (lift3 dir) = lift3 (supportPointToward3 loc m dir) := by
  letI := fieldNum K sq
  constructor
  · simp only [supportPoint3, optsimp, hloc]
  · simp only [supportPointToward3, optsimp, hloc]

/-- **C20 (`SupportMap::support_point` trait defaults, 2-D)**. -/
theorem defined_supportPoint2 (locO : V2 (Opt K sq) → V2 (Opt K sq)) (loc : V2 K → V2 K) (m : Iso2 K) (dir : V2 K)
    (hloc : letI := fieldNum K sq; locO (lift2 (m.invRot dir)) = lift2 (loc (m.invRot dir))) :
    letI := fieldNum K sq
    supportPoint2 locO (liftIso2 m) (lift2 dir) = lift2 (supportPoint2 loc m dir) ∧
    supportPointToward2 locO (liftIso2 m) (lift2 dir) = lift2 (supportPointToward2 loc m dir) := by
  letI := fieldNum K sq
  constructor
  · simp only [supportPoint2, optsimp, hloc]
  · simp only [supportPointToward2, optsimp, hloc]

/-- **C20 (`RoundShape::local_support_point(_toward)`, 3-D)**: for any inner support map that is itself defined on finite directions (`hinner`), defined for every border radius and every direction with `θ < |dir|²` (`Unit::new_normalize`, unguarded: a zero direction gives NaN, see `ball_zero_dir_nan`); the `toward` variant for every direction. -/
theorem defined_round3 {θ : K} (hs : SqrtPos sq θ)
    (innerO : V3 (Opt K sq) → V3 (Opt K sq)) (inner : V3 K → V3 K) (br : K) (dir : V3 K)
    (hinner : letI := fieldNum K sq; ∀ d : V3 K, innerO (lift3 d) = lift3 (inner d))
    (hu : letI := fieldNum K sq; θ < dir.normSq) :
    letI := fieldNum K sq
    roundLocal3 innerO (val br) (lift3 dir) = lift3 (roundLocal3 inner br dir) ∧
    roundToward3 innerO (val br) (lift3 dir) = lift3 (roundToward3 inner br dir) := by
  letI := fieldNum K sq
  constructor
  · simp only [roundLocal3, roundToward3, defined_normalize3 sq hs dir hu, hinner, optsimp]
  · simp only [roundToward3, hinner, optsimp]

/-- **C20 (`RoundShape`, 2-D)**: as `defined_round3`. -/
theorem defined_round2 {θ : K} (hs : SqrtPos sq θ)
    (innerO : V2 (Opt K sq) → V2 (Opt K sq)) (inner : V2 K → V2 K) (br : K) (dir : V2 K)
    (hinner : letI := fieldNum K sq; ∀ d : V2 K, innerO (lift2 d) = lift2 (inner d))
    (hu : letI := fieldNum K sq; θ < dir.normSq) :
    letI := fieldNum K sq
    roundLocal2 innerO (val br) (lift2 dir) = lift2 (roundLocal2 inner br dir) ∧
    roundToward2 innerO (val br) (lift2 dir) = lift2 (roundToward2 inner br dir) := by
  letI := fieldNum K sq
  constructor
  · simp only [roundLocal2, roundToward2, defined_normalize2 sq hs dir hu, hinner, optsimp]
  · simp only [roundToward2, hinner, optsimp]

/-- **C20 (`DilatedShape::support_point(_toward)`)**: as `defined_round3`, for every pose. -/
theorem defined_dilatedPosed3 {θ : K} (hs : SqrtPos sq θ)
    (innerO : V3 (Opt K sq) → V3 (Opt K sq)) (inner : V3 K → V3 K) (rad : K) (m : Iso3 K) (dir : V3 K)
    (hinner : letI := fieldNum K sq; ∀ d : V3 K, innerO (lift3 d) = lift3 (inner d))
    (hu : letI := fieldNum K sq; θ < dir.normSq) :
    letI := fieldNum K sq
    dilatedPosed3 innerO (val rad) (liftIso3 m) (lift3 dir) = lift3 (dilatedPosed3 inner rad m dir) ∧
    dilatedPosedToward3 innerO (val rad) (liftIso3 m) (lift3 dir) = lift3 (dilatedPosedToward3 inner rad m dir) := by
  letI := fieldNum K sq
  constructor
  · simp only [dilatedPosed3, dilatedPosedToward3, supportPointToward3, defined_normalize3 sq hs dir hu, hinner, optsimp]
  · simp only [dilatedPosedToward3, supportPointToward3, hinner, optsimp]

/-- **C20 (`ConstantPoint`, `ConstantOrigin`)**: the direction is ignored — defined for every direction, *even a NaN one* (`dO` is an arbitrary `Opt` vector). -/
theorem defined_constant (p : V3 K) (m : Iso3 K) (dO : V3 (Opt K sq)) (d : V3 K) :
    letI := fieldNum K sq
    constantPointLocal (lift3 p : V3 (Opt K sq)) dO = lift3 (constantPointLocal p d) ∧
    constantPointPosed (lift3 p : V3 (Opt K sq)) (liftIso3 m) dO = lift3 (constantPointPosed p m d) ∧
    constantOriginLocal dO = lift3 (constantOriginLocal d) ∧
    constantOriginPosed (liftIso3 m : Iso3 (Opt K sq)) dO = lift3 (constantOriginPosed m d) := by
  letI := fieldNum K sq
  refine ⟨rfl, ?_, rfl, rfl⟩
  simp only [constantPointPosed, optsimp]

/-! ## Point clouds -/
private theorem cloudGo3_lift (dir : V3 K) (ps : List (V3 K)) (i best : Nat) (bd : K) :
    letI := fieldNum K sq
    cloudGo3 (lift3 dir : V3 (Opt K sq)) (ps.map lift3) i best (val bd) = cloudGo3 dir ps i best bd := by
  letI := fieldNum K sq
  induction ps generalizing i best bd with
  | nil => rfl
  | cons p ps ih =>
    simp only [List.map_cons, cloudGo3, optsimp]
    split_ifs <;> exact ih _ _ _

private theorem cloudGo2_lift (dir : V2 K) (ps : List (V2 K)) (i best : Nat) (bd : K) :
    letI := fieldNum K sq
    cloudGo2 (lift2 dir : V2 (Opt K sq)) (ps.map lift2) i best (val bd) = cloudGo2 dir ps i best bd := by
  letI := fieldNum K sq
  induction ps generalizing i best bd with
  | nil => rfl
  | cons p ps ih =>
    simp only [List.map_cons, cloudGo2, optsimp]
    split_ifs <;> exact ih _ _ _

/-- **C20 (`point_cloud_support_point(_id)` = ConvexPolyhedron::local_support_point)**: comparisons of dot products only: for every finite cloud (empty: the model's `none` = the code's index panic; repeated points) and every direction (zero included: index 0) the index is that of the exact evaluation and the point is finite. -/
theorem defined_cloud3 (dir : V3 K) (pts : List (V3 K)) :
    letI := fieldNum K sq
    cloudId3 (lift3 dir : V3 (Opt K sq)) (pts.map lift3) = cloudId3 dir pts ∧
    cloudPoint3 (lift3 dir : V3 (Opt K sq)) (pts.map lift3) = (cloudPoint3 dir pts).map lift3 := by
  letI := fieldNum K sq
  have h1 : cloudId3 (lift3 dir : V3 (Opt K sq)) (pts.map lift3) = cloudId3 dir pts := by
    cases pts with
    | nil => rfl
    | cons p ps => simp only [List.map_cons, cloudId3, optsimp, cloudGo3_lift]
  refine ⟨h1, ?_⟩
  simp only [cloudPoint3, h1]
  cases cloudId3 dir pts with
  | none => rfl
  | some i => simp only [List.getElem?_map]

/-- **C20 (`ConvexPolygon::local_support_point`)**: as `defined_cloud3`. -/
theorem defined_cloud2 (dir : V2 K) (pts : List (V2 K)) :
    letI := fieldNum K sq
    cloudId2 (lift2 dir : V2 (Opt K sq)) (pts.map lift2) = cloudId2 dir pts ∧
    cloudPoint2 (lift2 dir : V2 (Opt K sq)) (pts.map lift2) = (cloudPoint2 dir pts).map lift2 := by
  letI := fieldNum K sq
  have h1 : cloudId2 (lift2 dir : V2 (Opt K sq)) (pts.map lift2) = cloudId2 dir pts := by
    cases pts with
    | nil => rfl
    | cons p ps => simp only [List.map_cons, cloudId2, optsimp, cloudGo2_lift]
  refine ⟨h1, ?_⟩
  simp only [cloudPoint2, h1]
  cases cloudId2 dir pts with
  | none => rfl
  | some i => simp only [List.getElem?_map]

/-! ## Feature maps -/
def liftFeature3 (f : Feature3 K) : Feature3 (Opt K sq) := ⟨f.verts.map lift3, f.vids, f.eids, f.fid⟩
def liftFeature2 (f : Feature2 K) : Feature2 (Opt K sq) := ⟨f.verts.map lift2, f.vids, f.fid⟩

/-- **C20 (nalgebra `iamax`, `iamin`, `imin`)**: comparisons only; same index as the exact evaluation for every vector. -/
theorem defined_iamax (v : V3 K) (v2 : V2 K) :
    letI := fieldNum K sq
    iamax3 (lift3 v : V3 (Opt K sq)) = iamax3 v ∧ iamin3 (lift3 v : V3 (Opt K sq)) = iamin3 v ∧
    imin3 (lift3 v : V3 (Opt K sq)) = imin3 v ∧ iamin2 (lift2 v2 : V2 (Opt K sq)) = iamin2 v2 := by
  letI := fieldNum K sq
  refine ⟨?_, ?_, ?_, ?_⟩
  · simp only [iamax3, optsimp, val_ite]
  · simp only [iamin3, optsimp, val_ite]
  · simp only [imin3, optsimp, val_ite]
  · simp only [iamin2, optsimp]

/-- **C20 (Cuboid::support_face, 3-D)**: defined for every half-extents and direction (zero direction: face `+x`). -/
theorem defined_cuboidSupportFace3 (he dir : V3 K) :
    letI := fieldNum K sq
    cuboidSupportFace3 (lift3 he : V3 (Opt K sq)) (lift3 dir) = liftFeature3 sq (cuboidSupportFace3 he dir) := by
  letI := fieldNum K sq
  simp only [cuboidSupportFace3, liftFeature3, optsimp, (defined_iamax sq dir ⟨0, 0⟩).1]
  split_ifs <;> rfl

/-- **C20 (Cuboid::vertex_feature_id, 2-D)**: sign-bit tests only (dead `1/0`). -/
theorem defined_vertexFeatureId2 (v : V2 K) :
    letI := fieldNum K sq
    vertexFeatureId2 (lift2 v : V2 (Opt K sq)) = vertexFeatureId2 v := by
  letI := fieldNum K sq
  simp only [vertexFeatureId2, optsimp]

/-- **C20 (Cuboid::support_face, 2-D)**: defined for every half-extents and direction. -/
theorem defined_cuboidSupportFace2 (he dir : V2 K) :
    letI := fieldNum K sq
    cuboidSupportFace2 (lift2 he : V2 (Opt K sq)) (lift2 dir) = liftFeature2 sq (cuboidSupportFace2 he dir) := by
  letI := fieldNum K sq
  simp only [cuboidSupportFace2, liftFeature2, optsimp, (defined_iamax sq ⟨0, 0, 0⟩ dir).2.2.2,
    defined_vertexFeatureId2, List.map_cons, List.map_nil]

/-- **C20 (Cuboid::local_support_edge_segment, 3-D)**: defined for every half-extents and direction. -/
theorem defined_cuboidSupportEdge3 (he dir : V3 K) :
    letI := fieldNum K sq
    cuboidSupportEdge3 (lift3 he : V3 (Opt K sq)) (lift3 dir)
      = (lift3 (cuboidSupportEdge3 he dir).1, lift3 (cuboidSupportEdge3 he dir).2) := by
  letI := fieldNum K sq
  simp only [cuboidSupportEdge3, optsimp, (defined_iamax sq dir ⟨0, 0⟩).2.1]

/-- **C20 (`PolygonalFeature::from(Triangle/Segment)`, `Triangle::local_support_edge_segment`)**: no arithmetic beyond dot products and comparisons. -/
theorem defined_triangle_segment_features (a b c dir : V3 K) (a2 b2 : V2 K) :
    letI := fieldNum K sq
    triangleSupportFace3 (lift3 a : V3 (Opt K sq)) (lift3 b) (lift3 c) = liftFeature3 sq (triangleSupportFace3 a b c) ∧
    segmentFeature3 (lift3 a : V3 (Opt K sq)) (lift3 b) = liftFeature3 sq (segmentFeature3 a b) ∧
    segmentFeature2 (lift2 a2 : V2 (Opt K sq)) (lift2 b2) = liftFeature2 sq (segmentFeature2 a2 b2) ∧
    triangleSupportEdge3 (lift3 a : V3 (Opt K sq)) (lift3 b) (lift3 c) (lift3 dir)
      = (lift3 (triangleSupportEdge3 a b c dir).1, lift3 (triangleSupportEdge3 a b c dir).2) := by
  letI := fieldNum K sq
  refine ⟨rfl, rfl, rfl, ?_⟩
  simp only [triangleSupportEdge3, optsimp, (defined_iamax sq _ ⟨0, 0⟩).2.2.1]
  split_ifs <;> rfl

private theorem triFaceStep_lift {θ : K} (hs : SqrtPos sq θ) (dir : V2 K) (n : Nat) (x : K) (i : Nat) (t : V2 K)
    (hu : letI := fieldNum K sq; t.normSq = 0 ∨ θ < t.normSq) :
    letI := fieldNum K sq
    triFaceStep (lift2 dir : V2 (Opt K sq)) (n, val x) i (lift2 t)
      = ((triFaceStep dir (n, x) i t).1, val (triFaceStep dir (n, x) i t).2) := by
  letI := fieldNum K sq
  have en : (⟨t.y, -t.x⟩ : V2 K).normSq = t.normSq := by simp only [V2.normSq, V2.dot]; ring
  have hu' : (⟨t.y, -t.x⟩ : V2 K).normSq ≤ (0 : K) * 0 ∨ θ < (⟨t.y, -t.x⟩ : V2 K).normSq := by
    rw [en]; rcases hu with h | h
    · left; rw [h]; simp
    · exact Or.inr h
  have e0 : (0 : Opt K sq) = val 0 := rfl
  simp only [triFaceStep, optsimp, e0, defined_tryNew2 sq hs _ 0 hu']
  cases tryNew2 (⟨t.y, -t.x⟩ : V2 K) 0 with
  | none => rfl
  | some nrm => simp only [optsimp]; split_ifs <;> rfl

/-- **C20 (Triangle::support_face, 2-D)**: each edge normal goes through `Unit::try_new(_, 0.0)`, which skips zero-length edges: defined for **every** triangle — coincident vertices and point-like triangles included — and every direction; `hab hbc hca`: a non-zero squared edge length is above the threshold `θ` (automatic for `θ = 0`). -/
theorem defined_triangleSupportFace2 {θ : K} (hs : SqrtPos sq θ) (negMax : K) (a b c dir : V2 K)
    (hab : letI := fieldNum K sq; (b.sub a).normSq = 0 ∨ θ < (b.sub a).normSq)
    (hbc : letI := fieldNum K sq; (c.sub b).normSq = 0 ∨ θ < (c.sub b).normSq)
    (hca : letI := fieldNum K sq; (a.sub c).normSq = 0 ∨ θ < (a.sub c).normSq) :
    letI := fieldNum K sq
    triangleSupportFace2 (val negMax : Opt K sq) (lift2 a) (lift2 b) (lift2 c) (lift2 dir)
      = liftFeature2 sq (triangleSupportFace2 negMax a b c dir) := by
  letI := fieldNum K sq
  have hg : ∀ (i : Nat), ([lift2 a, lift2 b, lift2 c] : List (V2 (Opt K sq))).getD i (lift2 a)
      = lift2 ([a, b, c].getD i a) := by
    intro i
    rcases i with _ | _ | _ | _ <;> rfl
  simp only [triangleSupportFace2, liftFeature2, optsimp, triFaceStep_lift sq hs, hab, hbc, hca, hg,
    List.map_cons, List.map_nil]

/-- **C20 (`Vector2::new(dir.x, dir.z).try_normalize(ε).unwrap_or(x)`)**: no hypothesis (guard on the norm itself). -/
theorem defined_capDir (dir : V3 K) :
    letI := fieldNum K sq
    capDir (lift3 dir : V3 (Opt K sq)) = lift2 (capDir dir) := by
  letI := fieldNum K sq
  simp only [capDir, optsimp, defined_tryNormalize2 sq _ _ (c10eps_pos sq).le]
  cases tryNormalize2 (⟨dir.x, dir.z⟩ : V2 K) C10.eps <;> rfl

/-- **C20 (`PolygonalFeatureMap` for Cylinder and Cone)**: no hypothesis: every half-height/radius, every direction, zero and axis-parallel directions included. -/
theorem defined_cylinder_cone_feature (hh r : K) (dir : V3 K) :
    letI := fieldNum K sq
    cylinderFeature (val hh : Opt K sq) (val r) (lift3 dir) = liftFeature3 sq (cylinderFeature hh r dir) ∧
    coneFeature (val hh : Opt K sq) (val r) (lift3 dir) = liftFeature3 sq (coneFeature hh r dir) := by
  letI := fieldNum K sq
  constructor
  · simp only [cylinderFeature, defined_capDir, optsimp, apply_ite (liftFeature3 sq)]
    opt_tree
  · simp only [coneFeature, defined_capDir, optsimp, apply_ite (liftFeature3 sq)]
    opt_tree

/-- **C20 (`utils::ccw_face_normal`, 2-D)**: `Unit::try_new(_, ε)`: defined for every pair of points (coincident included → `None`) provided the square-root operation does not vanish above `ε² = 2⁻¹⁰⁴` (`θ ≤ ε²`). -/
theorem defined_ccwFaceNormal2 {θ : K} (hs : SqrtPos sq θ)
    (hθ : letI := fieldNum K sq; θ ≤ (C10.eps : K) * C10.eps) (a b : V2 K) :
    letI := fieldNum K sq
    ccwFaceNormal2 (lift2 a : V2 (Opt K sq)) (lift2 b) = (ccwFaceNormal2 a b).map lift2 := by
  letI := fieldNum K sq
  have hu : ∀ v : V2 K, v.normSq ≤ (C10.eps : K) * C10.eps ∨ θ < v.normSq := by
    intro v
    rcases le_or_gt v.normSq ((C10.eps : K) * C10.eps) with h | h
    · exact Or.inl h
    · exact Or.inr (lt_of_le_of_lt hθ h)
  simp only [ccwFaceNormal2, optsimp, defined_tryNew2 sq hs _ _ (hu _)]

private theorem getD_map_lift2 (pts : List (V2 K)) (i : Nat) :
    letI := fieldNum K sq
    (pts.map lift2 : List (V2 (Opt K sq))).getD i V2.zero = lift2 (pts.getD i V2.zero) := by
  letI := fieldNum K sq
  induction pts generalizing i with
  | nil => rfl
  | cons p ps ih =>
    cases i with
    | zero => rfl
    | succ j => simpa using ih j

private theorem getD_map_lift2' (pts : List (V2 K)) (i : Nat) :
    letI := fieldNum K sq
    (pts.map lift2 : List (V2 (Opt K sq))).getD i (lift2 V2.zero) = lift2 (pts.getD i V2.zero) :=
  getD_map_lift2 sq pts i

private theorem any_isNone_map {α β : Type} (f : α → β) (l : List (Option α)) :
    (l.map (Option.map f)).any Option.isNone = l.any Option.isNone := by
  induction l with
  | nil => rfl
  | cons a l ih => cases a <;> simp [ih]

private theorem filterMap_id_map {α β : Type} (f : α → β) (l : List (Option α)) :
    (l.map (Option.map f)).filterMap id = (l.filterMap id).map f := by
  induction l with
  | nil => rfl
  | cons a l ih =>
    cases a with
    | none => simpa [List.filterMap_cons] using ih
    | some x => simpa [List.filterMap_cons] using ih

/-- **C20 (`ConvexPolygon::from_convex_polyline_unmodified` + `local_support_feature`)**: defined for every finite point list (fewer than 3 points or a degenerate edge: `None`, the constructor's failure) and every direction (zero included), under `θ ≤ ε²` only. -/
theorem defined_polygonFeature {θ : K} (hs : SqrtPos sq θ)
    (hθ : letI := fieldNum K sq; θ ≤ (C10.eps : K) * C10.eps) (pts : List (V2 K)) (dir : V2 K) :
    letI := fieldNum K sq
    polygonFeature (pts.map lift2 : List (V2 (Opt K sq))) (lift2 dir)
      = (polygonFeature pts dir).map (liftFeature2 sq) := by
  letI := fieldNum K sq
  have hN : (List.range pts.length).map (fun i => ccwFaceNormal2
        ((pts.map lift2 : List (V2 (Opt K sq))).getD i V2.zero)
        ((pts.map lift2 : List (V2 (Opt K sq))).getD ((i + 1) % pts.length) V2.zero))
      = ((List.range pts.length).map (fun i => ccwFaceNormal2 (pts.getD i V2.zero)
          (pts.getD ((i + 1) % pts.length) V2.zero))).map (Option.map lift2) := by
    rw [List.map_map]
    apply List.map_congr_left
    intro i _
    simp only [Function.comp]
    rw [getD_map_lift2, getD_map_lift2, defined_ccwFaceNormal2 sq hs hθ]
  unfold polygonFeature
  simp only [List.length_map, hN, any_isNone_map, filterMap_id_map]
  generalize (List.range pts.length).map (fun i => ccwFaceNormal2 (pts.getD i V2.zero)
          (pts.getD ((i + 1) % pts.length) V2.zero)) = N
  split_ifs with h1 h2
  · rfl
  · rfl
  · cases N.filterMap id with
    | nil => rfl
    | cons n0 ns =>
      simp only [List.map_cons, optsimp, cloudGo2_lift, getD_map_lift2', liftFeature2, List.map_nil]


end C20
