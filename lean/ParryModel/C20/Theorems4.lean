import ParryModel.C20.Lemmas
import ParryModel.C20.Theorems2
import ParryModel.C10.Model
import ParryModel.C09.Model2
import ParryModel.C13.Model
set_option linter.style.haveILetI false
set_option linter.unusedSimpArgs false
set_option linter.unusedSectionVars false
set_option linter.unusedVariables false
/-!
# C20 definedness theorems, part 4: support maps (C10), bounding volumes (C09), mass properties (C13)

Shape of every theorem: `f (lift x) = lift (f x)` — the model function evaluated with the NaN-propagating scalars
`Opt K sq` on finite input equals the exact field evaluation injected by `some`: no division by zero and no square root
of a negative number reaches the output, every output float is finite, branches and values are those of the exact
evaluation (see `C20/Lemmas.lean`).

## C10 summary
* no hypothesis at all (every finite direction, **the zero direction included**): cuboid, segment, triangle, cone,
  cylinder, point clouds / convex polyhedra / polygons, constant point / origin, all `*_toward` variants, `iamax`-like
  index functions, cuboid / triangle / segment / cylinder / cone feature maps;
* `SqrtPos sq θ` and `dir = 0 ∨ θ < |dir|²` (zero direction covered by the code's own fallback): capsule, `Unit::try_new`,
  `Triangle::support_face` (2-D), `ConvexPolygon::local_support_feature`;
* `SqrtPos sq θ` and `θ < |dir|²` (**non-zero** direction): ball, `RoundShape`, `DilatedShape` — these call
  `Unit::new_normalize(dir)` unguarded; at the zero direction the real code returns `(NaN, NaN, NaN)`
  (`ball_zero_dir_nan`, replayed on the crates).  The documentation of `SupportMap` (`shape/support_map.rs`) is silent
  about the zero direction; the support function of a convex set is not defined there (every point is a maximiser)
  and the C10 oracle skips it (`skip zero-direction`), so this is reported as a contract gap, not as a violation.
* floating point only (outside exact arithmetic): a non-zero direction whose squared norm underflows to `0`
  (e.g. `(1e-200, 0, 0)`) behaves like the zero direction for the shapes of the third group: `Ball` returns
  `(inf, NaN, NaN)` on the real crates; capsule falls back to `+y`; cone / cylinder take the "axis" branch.  This is
  the rôle of the threshold `θ` in `SqrtPos`.
-/
namespace C20
open Model Model.C10

variable {K : Type} [Field K] [LinearOrder K] [IsStrictOrderedRing K] (sq : K → K)

/-! ## C10 — scalar primitives -/

@[optsimp] private theorem copysign_val (m s : K) :
    letI := fieldNum K sq; (copysign (val m) (val s) : Opt K sq) = val (copysign m s) := by
  letI := fieldNum K sq
  simp only [copysign, val_one, val_zero, val_lt, val_one_div_lt_zero, val_nabs, val_neg]
  split_ifs <;> rfl

@[optsimp] private theorem signNeg_val (x : K) :
    letI := fieldNum K sq; signNeg (val x : Opt K sq) = signNeg x := by
  letI := fieldNum K sq
  rw [Bool.eq_iff_iff]
  simp only [signNeg, val_one, val_zero, val_lt, val_one_div_lt_zero, decide_eq_true_eq']

@[optsimp] private theorem c10eps_val : letI := fieldNum K sq; (C10.eps : Opt K sq) = val (C10.eps : K) := id rfl
private theorem c10eps_pos : letI := fieldNum K sq; (0 : K) < C10.eps := lit_pos 1 _ (by decide) (by decide)

/-- **C20 (`Unit::new_normalize`, 3-D)**: `v / |v|` is defined as soon as the square-root operation does not vanish at
`|v|²` (`θ < |v|²`; with a lawful square root, `θ = 0`: every non-zero `v`).  Unguarded in the code: at `v = 0` it is
`0/0`. -/
theorem defined_normalize3 {θ : K} (hs : SqrtPos sq θ) (v : V3 K)
    (hu : letI := fieldNum K sq; θ < v.normSq) :
    letI := fieldNum K sq
    normalize3 (lift3 v : V3 (Opt K sq)) = lift3 (normalize3 v) := by
  letI := fieldNum K sq
  have hne : v.norm ≠ 0 := hs.ne hu
  simp only [normalize3, optsimp, if_neg hne]

/-- **C20 (`Unit::new_normalize`, 2-D)**: as `defined_normalize3`. -/
theorem defined_normalize2 {θ : K} (hs : SqrtPos sq θ) (v : V2 K)
    (hu : letI := fieldNum K sq; θ < v.normSq) :
    letI := fieldNum K sq
    normalize2 (lift2 v : V2 (Opt K sq)) = lift2 (normalize2 v) := by
  letI := fieldNum K sq
  have hne : v.norm ≠ 0 := hs.ne hu
  simp only [normalize2, optsimp, if_neg hne]

/-- **C20 (`Unit::try_new(v, min_norm)`, 3-D)**: defined for every vector **including `v = 0`** and every threshold
(any sign): the division by `sqrt |v|²` is reached only when `|v|² > min_norm² ≥ 0`; `hu` asks that the square-root
operation does not vanish there (no underflow; automatic when `θ ≤ min_norm²`, and for `θ = 0`). -/
theorem defined_tryNew3 {θ : K} (hs : SqrtPos sq θ) (v : V3 K) (minNorm : K)
    (hu : letI := fieldNum K sq; v.normSq ≤ minNorm * minNorm ∨ θ < v.normSq) :
    letI := fieldNum K sq
    tryNew3 (lift3 v : V3 (Opt K sq)) (val minNorm) = (tryNew3 v minNorm).map lift3 := by
  letI := fieldNum K sq
  have hnn : ¬ v.normSq < 0 := not_lt.mpr (normSq3_nonneg (sq := sq) v)
  simp only [tryNew3, optsimp, if_neg hnn]
  by_cases h1 : minNorm * minNorm < v.normSq
  · have hne : sq v.normSq ≠ 0 := by
      rcases hu with hu | hu
      · exact absurd h1 (not_lt.mpr hu)
      · exact hs.ne hu
    simp only [if_pos h1, optsimp, if_neg hne]
  · simp only [if_neg h1, optsimp]

/-- **C20 (`Unit::try_new(v, min_norm)`, 2-D)**: as `defined_tryNew3`. -/
theorem defined_tryNew2 {θ : K} (hs : SqrtPos sq θ) (v : V2 K) (minNorm : K)
    (hu : letI := fieldNum K sq; v.normSq ≤ minNorm * minNorm ∨ θ < v.normSq) :
    letI := fieldNum K sq
    tryNew2 (lift2 v : V2 (Opt K sq)) (val minNorm) = (tryNew2 v minNorm).map lift2 := by
  letI := fieldNum K sq
  have hnn : ¬ v.normSq < 0 := not_lt.mpr (normSq2_nonneg (sq := sq) v)
  simp only [tryNew2, optsimp, if_neg hnn]
  by_cases h1 : minNorm * minNorm < v.normSq
  · have hne : sq v.normSq ≠ 0 := by
      rcases hu with hu | hu
      · exact absurd h1 (not_lt.mpr hu)
      · exact hs.ne hu
    simp only [if_pos h1, optsimp, if_neg hne]
  · simp only [if_neg h1, optsimp]

/-- **C20 (`v.try_normalize(min_norm)`, 2-D)**: the guard is on the norm itself (`n <= min_norm → None`), so for a
non-negative threshold **nothing** is required of the square-root operation: defined for every vector, zero included.
-/
theorem defined_tryNormalize2 (v : V2 K) (minNorm : K) (hm : 0 ≤ minNorm) :
    letI := fieldNum K sq
    tryNormalize2 (lift2 v : V2 (Opt K sq)) (val minNorm) = (tryNormalize2 v minNorm).map lift2 := by
  letI := fieldNum K sq
  simp only [tryNormalize2, optsimp]
  split_ifs with h1 h2
  · rfl
  · exfalso; exact h1 (h2 ▸ hm)
  · rfl

/-! ## Ball -/
/-- **C20 (Ball: `local_support_point`, `support_point`, `local_support_point_toward`, `support_point_toward`, 3-D)**:
defined for every radius (any sign, zero included), every pose and every direction with `θ < |dir|²` (non-zero,
squared norm not underflowing; `θ = 0` for a lawful square root).  The two `*_toward` variants have no division at
all: defined for **every** direction (unit or not, zero included).  The zero direction is NOT covered for the first
two: see `ball_zero_dir_nan`. -/
theorem defined_ball_support3 {θ : K} (hs : SqrtPos sq θ) (r : K) (m : Iso3 K) (dir : V3 K)
    (hu : letI := fieldNum K sq; θ < dir.normSq) :
    letI := fieldNum K sq
    ballLocal3 (val r : Opt K sq) (lift3 dir) = lift3 (ballLocal3 r dir) ∧
    ballPosed3 (val r : Opt K sq) (liftIso3 m) (lift3 dir) = lift3 (ballPosed3 r m dir) ∧
    ballToward3 (val r : Opt K sq) (lift3 dir) = lift3 (ballToward3 r dir) ∧
    ballPosedToward3 (val r : Opt K sq) (liftIso3 m) (lift3 dir) = lift3 (ballPosedToward3 r m dir) := by
  letI := fieldNum K sq
  refine ⟨?_, ?_, ?_, ?_⟩
  · simp only [ballLocal3, ballToward3, defined_normalize3 sq hs dir hu, optsimp]
  · simp only [ballPosed3, ballPosedToward3, defined_normalize3 sq hs dir hu, optsimp]
  · simp only [ballToward3, optsimp]
  · simp only [ballPosedToward3, optsimp]

/-- **C20 (Ball support map, 2-D)**: as `defined_ball_support3`. -/
theorem defined_ball_support2 {θ : K} (hs : SqrtPos sq θ) (r : K) (m : Iso2 K) (dir : V2 K)
    (hu : letI := fieldNum K sq; θ < dir.normSq) :
    letI := fieldNum K sq
    ballLocal2 (val r : Opt K sq) (lift2 dir) = lift2 (ballLocal2 r dir) ∧
    ballPosed2 (val r : Opt K sq) (liftIso2 m) (lift2 dir) = lift2 (ballPosed2 r m dir) ∧
    ballToward2 (val r : Opt K sq) (lift2 dir) = lift2 (ballToward2 r dir) ∧
    ballPosedToward2 (val r : Opt K sq) (liftIso2 m) (lift2 dir) = lift2 (ballPosedToward2 r m dir) := by
  letI := fieldNum K sq
  refine ⟨?_, ?_, ?_, ?_⟩
  · simp only [ballLocal2, ballToward2, defined_normalize2 sq hs dir hu, optsimp]
  · simp only [ballPosed2, ballPosedToward2, defined_normalize2 sq hs dir hu, optsimp]
  · simp only [ballToward2, optsimp]
  · simp only [ballPosedToward2, optsimp]

/-- witness at `NaNable`: `Ball::local_support_point(0)` / `support_point(_, 0)` are `(0/0)·r = NaN`
(`Unit::new_normalize` is unguarded).  Replayed on the real crates: `C10 ball_local 1 0 0 0 → nan nan nan`,
`ball2_local → nan nan`, `roundcuboid_local`, `dilatedcuboid_local → nan nan nan`, whereas `capsule_local`,
`cone_local`, `cylinder_local`, `cuboid_local` return a finite support point.  `SupportMap`'s documentation does not
mention the zero direction (the support function is not defined there); reported as a contract gap with a one-line
patch (`Unit::try_new(*dir, 0.0).unwrap_or(Vector::y_axis())`, as `Capsule` does). -/
theorem ball_zero_dir_nan :
    Option.isSome ((ballLocal3 (K := NaNable) (some 1) ⟨some 0, some 0, some 0⟩).x : Option Rat) = false ∧
    Option.isSome ((ballLocal2 (K := NaNable) (some 1) ⟨some 0, some 0⟩).x : Option Rat) = false ∧
    Option.isSome ((ballPosed3 (K := NaNable) (some 1) Iso3.identity ⟨some 0, some 0, some 0⟩).x : Option Rat) = false := by
  decide +kernel

/-! ## Cuboid, Segment, Triangle -/
/-- **C20 (Cuboid::local_support_point, 3-D and 2-D)**: defined for **every** finite half-extents (any sign, zero) and
**every** direction — zero components and the zero direction included.  `copysign` reads the sign bit with `1 / d <
0`; at `d = 0` this is `1/0 = NaN` used only inside a comparison (false, as `1/0 = 0 < 0` is in the field): a dead NaN
(`val_one_div_lt_zero`). -/
theorem defined_cuboidLocal (he dir : V3 K) (he2 dir2 : V2 K) :
    letI := fieldNum K sq
    cuboidLocal3 (lift3 he : V3 (Opt K sq)) (lift3 dir) = lift3 (cuboidLocal3 he dir) ∧
    cuboidLocal2 (lift2 he2 : V2 (Opt K sq)) (lift2 dir2) = lift2 (cuboidLocal2 he2 dir2) := by
  letI := fieldNum K sq
  constructor
  · simp only [cuboidLocal3, optsimp]
  · simp only [cuboidLocal2, optsimp]

/-- **C20 (Segment::local_support_point)**: one comparison of two dot products — defined for every segment
(zero-length included) and every direction (zero included: returns `b`). -/
theorem defined_segmentLocal (a b dir : V3 K) (a2 b2 dir2 : V2 K) :
    letI := fieldNum K sq
    segmentLocal3 (lift3 a : V3 (Opt K sq)) (lift3 b) (lift3 dir) = lift3 (segmentLocal3 a b dir) ∧
    segmentLocal2 (lift2 a2 : V2 (Opt K sq)) (lift2 b2) (lift2 dir2) = lift2 (segmentLocal2 a2 b2 dir2) := by
  letI := fieldNum K sq
  constructor
  · simp only [segmentLocal3, optsimp]; split_ifs <;> rfl
  · simp only [segmentLocal2, optsimp]; split_ifs <;> rfl

/-- **C20 (Triangle::local_support_point)**: comparisons of dot products only — defined for every triangle (flat,
point-like) and every direction (zero included: returns `c`). -/
theorem defined_triangleLocal (a b c dir : V3 K) (a2 b2 c2 dir2 : V2 K) :
    letI := fieldNum K sq
    triangleLocal3 (lift3 a : V3 (Opt K sq)) (lift3 b) (lift3 c) (lift3 dir) = lift3 (triangleLocal3 a b c dir) ∧
    triangleLocal2 (lift2 a2 : V2 (Opt K sq)) (lift2 b2) (lift2 c2) (lift2 dir2)
      = lift2 (triangleLocal2 a2 b2 c2 dir2) := by
  letI := fieldNum K sq
  constructor
  · simp only [triangleLocal3, optsimp]; split_ifs <;> rfl
  · simp only [triangleLocal2, optsimp]; split_ifs <;> rfl

/-! ## Capsule -/
/-- **C20 (Capsule::local_support_point / local_support_point_toward, 3-D)**: defined for every capsule (zero-length
axis, radius of any sign) and every direction **including the zero direction** (`Unit::try_new(dir, 0.0)` fails and
the code falls back to `+y`).  `hu`: a non-zero `|dir|²` must be above the threshold `θ` of the square-root operation
(`noUnderflow_zero` for `θ = 0`).  The `toward` variant needs nothing. -/
theorem defined_capsule_support3 {θ : K} (hs : SqrtPos sq θ) (a b : V3 K) (r : K) (dir : V3 K)
    (hu : letI := fieldNum K sq; dir.normSq = 0 ∨ θ < dir.normSq) :
    letI := fieldNum K sq
    capsuleLocal3 (lift3 a : V3 (Opt K sq)) (lift3 b) (val r) (lift3 dir) = lift3 (capsuleLocal3 a b r dir) ∧
    capsuleToward3 (lift3 a : V3 (Opt K sq)) (lift3 b) (val r) (lift3 dir) = lift3 (capsuleToward3 a b r dir) := by
  letI := fieldNum K sq
  have ht : ∀ d : V3 K, capsuleToward3 (lift3 a : V3 (Opt K sq)) (lift3 b) (val r) (lift3 d)
      = lift3 (capsuleToward3 a b r d) := by
    intro d; simp only [capsuleToward3, optsimp]; split_ifs <;> rfl
  refine ⟨?_, ht dir⟩
  have hu' : dir.normSq ≤ (0 : K) * 0 ∨ θ < dir.normSq := by
    rcases hu with h | h
    · left; rw [h]; simp
    · exact Or.inr h
  have e0 : (0 : Opt K sq) = val 0 := rfl
  simp only [capsuleLocal3, e0, defined_tryNew3 sq hs dir 0 hu']
  cases tryNew3 dir (0 : K)
  · exact ht ⟨0, 1, 0⟩
  · exact ht _

/-- **C20 (Capsule support map, 2-D)**: as `defined_capsule_support3`. -/
theorem defined_capsule_support2 {θ : K} (hs : SqrtPos sq θ) (a b : V2 K) (r : K) (dir : V2 K)
    (hu : letI := fieldNum K sq; dir.normSq = 0 ∨ θ < dir.normSq) :
    letI := fieldNum K sq
    capsuleLocal2 (lift2 a : V2 (Opt K sq)) (lift2 b) (val r) (lift2 dir) = lift2 (capsuleLocal2 a b r dir) ∧
    capsuleToward2 (lift2 a : V2 (Opt K sq)) (lift2 b) (val r) (lift2 dir) = lift2 (capsuleToward2 a b r dir) := by
  letI := fieldNum K sq
  have ht : ∀ d : V2 K, capsuleToward2 (lift2 a : V2 (Opt K sq)) (lift2 b) (val r) (lift2 d)
      = lift2 (capsuleToward2 a b r d) := by
    intro d; simp only [capsuleToward2, optsimp]; split_ifs <;> rfl
  refine ⟨?_, ht dir⟩
  have hu' : dir.normSq ≤ (0 : K) * 0 ∨ θ < dir.normSq := by
    rcases hu with h | h
    · left; rw [h]; simp
    · exact Or.inr h
  have e0 : (0 : Opt K sq) = val 0 := rfl
  simp only [capsuleLocal2, e0, defined_tryNew2 sq hs dir 0 hu']
  cases tryNew2 dir (0 : K)
  · exact ht ⟨0, 1⟩
  · exact ht _

/-! ## Cone, Cylinder -/
/-- **C20 (Cone::local_support_point)**: **no hypothesis**.  The code normalises the planar part `(dir.x, 0, dir.z)`
*before* testing it (`vres.normalize_mut().is_zero()`): the guard is `norm == 0` on the returned norm `n = sqrt(x² +
z²)` itself, so the quotient `v/n` is used only when `n ≠ 0` — whatever the square-root operation does (even if it
underflows to `0` on a non-zero argument, the axis branch is taken and the NaN vector `v/0` is dead).  Covers every
half-height / radius (any sign, zero), axis-parallel directions, the zero direction (returns `(0, ±hh, 0)`), ties
between apex and base. -/
theorem defined_coneLocal (hh r : K) (dir : V3 K) :
    letI := fieldNum K sq
    coneLocal (val hh : Opt K sq) (val r) (lift3 dir) = lift3 (coneLocal hh r dir) := by
  letI := fieldNum K sq
  simp only [coneLocal, optsimp]
  opt_steps
  all_goals
    first
    | rfl
    | (exfalso; simp only [optsimp] at *; tauto)

/-- **C20 (Cylinder::local_support_point)**: **no hypothesis**, same guard as the cone (`normalize_mut().is_zero()`
tests the norm that is divided by).  Zero direction and axis-parallel directions return `(0, ±hh, 0)`. -/
theorem defined_cylinderLocal (hh r : K) (dir : V3 K) :
    letI := fieldNum K sq
    cylinderLocal (val hh : Opt K sq) (val r) (lift3 dir) = lift3 (cylinderLocal hh r dir) := by
  letI := fieldNum K sq
  simp only [cylinderLocal, optsimp]
  opt_steps

/-! ## trait defaults, RoundShape, DilatedShape, constants -/

/-- **C20 (`SupportMap::support_point` / `support_point_toward` trait defaults, 3-D)**: the isometry action and its
inverse rotation are polynomial: the posed support point is defined whenever the local one is (hypothesis `hloc`, at
the rotated direction), for every pose. -/
theorem defined_supportPoint3 (locO : V3 (Opt K sq) → V3 (Opt K sq)) (loc : V3 K → V3 K) (m : Iso3 K) (dir : V3 K)
    (hloc : letI := fieldNum K sq; locO (lift3 (m.invRot dir)) = lift3 (loc (m.invRot dir))) :
    letI := fieldNum K sq
    supportPoint3 locO (liftIso3 m) (lift3 dir) = lift3 (supportPoint3 loc m dir) ∧
    supportPointToward3 locO (liftIso3 m) (lift3 dir) = lift3 (supportPointToward3 loc m dir) := by
  letI := fieldNum K sq
  constructor
  · simp only [supportPoint3, optsimp, hloc]
  · simp only [supportPointToward3, optsimp, hloc]

/-- **C20 (`SupportMap::support_point` trait defaults, 2-D)**. -/
theorem defined_supportPoint2 (locO : V2 (Opt K sq) → V2 (Opt K sq)) (loc : V2 K → V2 K) (m : Iso2 K) (dir : V2 K)
    (hloc : letI := fieldNum K sq; locO (lift2 (m.invRot dir)) = lift2 (loc (m.invRot dir))) :
    letI := fieldNum K sq
    supportPoint2 locO (liftIso2 m) (lift2 dir) = lift2 (supportPoint2 loc m dir) ∧
    supportPointToward2 locO (liftIso2 m) (lift2 dir) = lift2 (supportPointToward2 loc m dir) := by
  letI := fieldNum K sq
  constructor
  · simp only [supportPoint2, optsimp, hloc]
  · simp only [supportPointToward2, optsimp, hloc]

/-- **C20 (`RoundShape::local_support_point(_toward)`, 3-D)**: for any inner support map that is itself defined on
finite directions (`hinner`), defined for every border radius and every direction with `θ < |dir|²`
(`Unit::new_normalize`, unguarded: a zero direction gives NaN, see `ball_zero_dir_nan`); the `toward` variant for
every direction. -/
theorem defined_round3 {θ : K} (hs : SqrtPos sq θ)
    (innerO : V3 (Opt K sq) → V3 (Opt K sq)) (inner : V3 K → V3 K) (br : K) (dir : V3 K)
    (hinner : letI := fieldNum K sq; ∀ d : V3 K, innerO (lift3 d) = lift3 (inner d))
    (hu : letI := fieldNum K sq; θ < dir.normSq) :
    letI := fieldNum K sq
    roundLocal3 innerO (val br) (lift3 dir) = lift3 (roundLocal3 inner br dir) ∧
    roundToward3 innerO (val br) (lift3 dir) = lift3 (roundToward3 inner br dir) := by
  letI := fieldNum K sq
  constructor
  · simp only [roundLocal3, roundToward3, defined_normalize3 sq hs dir hu, hinner, optsimp]
  · simp only [roundToward3, hinner, optsimp]

/-- **C20 (`RoundShape`, 2-D)**: as `defined_round3`. -/
theorem defined_round2 {θ : K} (hs : SqrtPos sq θ)
    (innerO : V2 (Opt K sq) → V2 (Opt K sq)) (inner : V2 K → V2 K) (br : K) (dir : V2 K)
    (hinner : letI := fieldNum K sq; ∀ d : V2 K, innerO (lift2 d) = lift2 (inner d))
    (hu : letI := fieldNum K sq; θ < dir.normSq) :
    letI := fieldNum K sq
    roundLocal2 innerO (val br) (lift2 dir) = lift2 (roundLocal2 inner br dir) ∧
    roundToward2 innerO (val br) (lift2 dir) = lift2 (roundToward2 inner br dir) := by
  letI := fieldNum K sq
  constructor
  · simp only [roundLocal2, roundToward2, defined_normalize2 sq hs dir hu, hinner, optsimp]
  · simp only [roundToward2, hinner, optsimp]

/-- **C20 (`DilatedShape::support_point(_toward)`)**: as `defined_round3`, for every pose. -/
theorem defined_dilatedPosed3 {θ : K} (hs : SqrtPos sq θ)
    (innerO : V3 (Opt K sq) → V3 (Opt K sq)) (inner : V3 K → V3 K) (rad : K) (m : Iso3 K) (dir : V3 K)
    (hinner : letI := fieldNum K sq; ∀ d : V3 K, innerO (lift3 d) = lift3 (inner d))
    (hu : letI := fieldNum K sq; θ < dir.normSq) :
    letI := fieldNum K sq
    dilatedPosed3 innerO (val rad) (liftIso3 m) (lift3 dir) = lift3 (dilatedPosed3 inner rad m dir) ∧
    dilatedPosedToward3 innerO (val rad) (liftIso3 m) (lift3 dir) = lift3 (dilatedPosedToward3 inner rad m dir) := by
  letI := fieldNum K sq
  constructor
  · simp only [dilatedPosed3, dilatedPosedToward3, supportPointToward3, defined_normalize3 sq hs dir hu, hinner, optsimp]
  · simp only [dilatedPosedToward3, supportPointToward3, hinner, optsimp]

/-- witnesses at `NaNable`: at the zero direction `RoundShape` / `DilatedShape` (around a cuboid) return NaN like the
ball (`Unit::new_normalize`), while capsule, cone (zero direction) and cylinder (axis-parallel direction: the planar
part is `0`, `0/0` dead) return finite points. -/
theorem round_zero_dir_nan_others_finite :
    Option.isSome ((roundLocal3 (K := NaNable) (cuboidLocal3 ⟨some 1, some 1, some 1⟩) (some 1)
      ⟨some 0, some 0, some 0⟩).x : Option Rat) = false ∧
    Option.isSome ((dilatedPosed3 (K := NaNable) (cuboidLocal3 ⟨some 1, some 1, some 1⟩) (some 1) Iso3.identity
      ⟨some 0, some 0, some 0⟩).x : Option Rat) = false ∧
    Option.isSome ((capsuleLocal3 (K := NaNable) ⟨some 0, some 0, some 0⟩ ⟨some 1, some 0, some 0⟩ (some 1)
      ⟨some 0, some 0, some 0⟩).x : Option Rat) = true ∧
    Option.isSome ((coneLocal (K := NaNable) (some 1) (some 1) ⟨some 0, some 0, some 0⟩).x : Option Rat) = true ∧
    Option.isSome ((cylinderLocal (K := NaNable) (some 1) (some 1) ⟨some 0, some 2, some 0⟩).x : Option Rat) = true := by
  decide +kernel

/-- **C20 (`ConstantPoint`, `ConstantOrigin`)**: the direction is ignored — defined for every direction, *even a NaN
one* (`dO` is an arbitrary `Opt` vector). -/
theorem defined_constant (p : V3 K) (m : Iso3 K) (dO : V3 (Opt K sq)) (d : V3 K) :
    letI := fieldNum K sq
    constantPointLocal (lift3 p : V3 (Opt K sq)) dO = lift3 (constantPointLocal p d) ∧
    constantPointPosed (lift3 p : V3 (Opt K sq)) (liftIso3 m) dO = lift3 (constantPointPosed p m d) ∧
    constantOriginLocal dO = lift3 (constantOriginLocal d) ∧
    constantOriginPosed (liftIso3 m : Iso3 (Opt K sq)) dO = lift3 (constantOriginPosed m d) := by
  letI := fieldNum K sq
  refine ⟨rfl, ?_, rfl, rfl⟩
  simp only [constantPointPosed, optsimp]

/-! ## Point clouds -/
private theorem cloudGo3_lift (dir : V3 K) (ps : List (V3 K)) (i best : Nat) (bd : K) :
    letI := fieldNum K sq
    cloudGo3 (lift3 dir : V3 (Opt K sq)) (ps.map lift3) i best (val bd) = cloudGo3 dir ps i best bd := by
  letI := fieldNum K sq
  induction ps generalizing i best bd with
  | nil => rfl
  | cons p ps ih =>
    simp only [List.map_cons, cloudGo3, optsimp]
    split_ifs <;> exact ih _ _ _

private theorem cloudGo2_lift (dir : V2 K) (ps : List (V2 K)) (i best : Nat) (bd : K) :
    letI := fieldNum K sq
    cloudGo2 (lift2 dir : V2 (Opt K sq)) (ps.map lift2) i best (val bd) = cloudGo2 dir ps i best bd := by
  letI := fieldNum K sq
  induction ps generalizing i best bd with
  | nil => rfl
  | cons p ps ih =>
    simp only [List.map_cons, cloudGo2, optsimp]
    split_ifs <;> exact ih _ _ _

/-- **C20 (`point_cloud_support_point(_id)` = ConvexPolyhedron::local_support_point)**: comparisons of dot products
only: for every finite cloud (empty: the model's `none` = the code's index panic; repeated points) and every direction
(zero included: index 0) the index is that of the exact evaluation and the point is finite. -/
theorem defined_cloud3 (dir : V3 K) (pts : List (V3 K)) :
    letI := fieldNum K sq
    cloudId3 (lift3 dir : V3 (Opt K sq)) (pts.map lift3) = cloudId3 dir pts ∧
    cloudPoint3 (lift3 dir : V3 (Opt K sq)) (pts.map lift3) = (cloudPoint3 dir pts).map lift3 := by
  letI := fieldNum K sq
  have h1 : cloudId3 (lift3 dir : V3 (Opt K sq)) (pts.map lift3) = cloudId3 dir pts := by
    cases pts with
    | nil => rfl
    | cons p ps => simp only [List.map_cons, cloudId3, optsimp, cloudGo3_lift]
  refine ⟨h1, ?_⟩
  simp only [cloudPoint3, h1]
  cases cloudId3 dir pts with
  | none => rfl
  | some i => simp only [List.getElem?_map]

/-- **C20 (`ConvexPolygon::local_support_point`)**: as `defined_cloud3`. -/
theorem defined_cloud2 (dir : V2 K) (pts : List (V2 K)) :
    letI := fieldNum K sq
    cloudId2 (lift2 dir : V2 (Opt K sq)) (pts.map lift2) = cloudId2 dir pts ∧
    cloudPoint2 (lift2 dir : V2 (Opt K sq)) (pts.map lift2) = (cloudPoint2 dir pts).map lift2 := by
  letI := fieldNum K sq
  have h1 : cloudId2 (lift2 dir : V2 (Opt K sq)) (pts.map lift2) = cloudId2 dir pts := by
    cases pts with
    | nil => rfl
    | cons p ps => simp only [List.map_cons, cloudId2, optsimp, cloudGo2_lift]
  refine ⟨h1, ?_⟩
  simp only [cloudPoint2, h1]
  cases cloudId2 dir pts with
  | none => rfl
  | some i => simp only [List.getElem?_map]

/-! ## Feature maps -/
def liftFeature3 (f : Feature3 K) : Feature3 (Opt K sq) := ⟨f.verts.map lift3, f.vids, f.eids, f.fid⟩
def liftFeature2 (f : Feature2 K) : Feature2 (Opt K sq) := ⟨f.verts.map lift2, f.vids, f.fid⟩

/-- **C20 (nalgebra `iamax`, `iamin`, `imin`)**: comparisons only; same index as the exact evaluation for every
vector. -/
theorem defined_iamax (v : V3 K) (v2 : V2 K) :
    letI := fieldNum K sq
    iamax3 (lift3 v : V3 (Opt K sq)) = iamax3 v ∧ iamin3 (lift3 v : V3 (Opt K sq)) = iamin3 v ∧
    imin3 (lift3 v : V3 (Opt K sq)) = imin3 v ∧ iamin2 (lift2 v2 : V2 (Opt K sq)) = iamin2 v2 := by
  letI := fieldNum K sq
  refine ⟨?_, ?_, ?_, ?_⟩
  · simp only [iamax3, optsimp, val_ite]
  · simp only [iamin3, optsimp, val_ite]
  · simp only [imin3, optsimp, val_ite]
  · simp only [iamin2, optsimp]

/-- **C20 (Cuboid::support_face, 3-D)**: defined for every half-extents and direction (zero direction: face `+x`). -/
theorem defined_cuboidSupportFace3 (he dir : V3 K) :
    letI := fieldNum K sq
    cuboidSupportFace3 (lift3 he : V3 (Opt K sq)) (lift3 dir) = liftFeature3 sq (cuboidSupportFace3 he dir) := by
  letI := fieldNum K sq
  simp only [cuboidSupportFace3, liftFeature3, optsimp, (defined_iamax sq dir ⟨0, 0⟩).1]
  split_ifs <;> rfl

/-- **C20 (Cuboid::vertex_feature_id, 2-D)**: sign-bit tests only (dead `1/0`). -/
theorem defined_vertexFeatureId2 (v : V2 K) :
    letI := fieldNum K sq
    vertexFeatureId2 (lift2 v : V2 (Opt K sq)) = vertexFeatureId2 v := by
  letI := fieldNum K sq
  simp only [vertexFeatureId2, optsimp]

/-- **C20 (Cuboid::support_face, 2-D)**: defined for every half-extents and direction. -/
theorem defined_cuboidSupportFace2 (he dir : V2 K) :
    letI := fieldNum K sq
    cuboidSupportFace2 (lift2 he : V2 (Opt K sq)) (lift2 dir) = liftFeature2 sq (cuboidSupportFace2 he dir) := by
  letI := fieldNum K sq
  simp only [cuboidSupportFace2, liftFeature2, optsimp, (defined_iamax sq ⟨0, 0, 0⟩ dir).2.2.2,
    defined_vertexFeatureId2, List.map_cons, List.map_nil]

/-- **C20 (Cuboid::local_support_edge_segment, 3-D)**: defined for every half-extents and direction. -/
theorem defined_cuboidSupportEdge3 (he dir : V3 K) :
    letI := fieldNum K sq
    cuboidSupportEdge3 (lift3 he : V3 (Opt K sq)) (lift3 dir)
      = (lift3 (cuboidSupportEdge3 he dir).1, lift3 (cuboidSupportEdge3 he dir).2) := by
  letI := fieldNum K sq
  simp only [cuboidSupportEdge3, optsimp, (defined_iamax sq dir ⟨0, 0⟩).2.1]

/-- **C20 (`PolygonalFeature::from(Triangle/Segment)`, `Triangle::local_support_edge_segment`)**: no arithmetic beyond
dot products and comparisons. -/
theorem defined_triangle_segment_features (a b c dir : V3 K) (a2 b2 : V2 K) :
    letI := fieldNum K sq
    triangleSupportFace3 (lift3 a : V3 (Opt K sq)) (lift3 b) (lift3 c) = liftFeature3 sq (triangleSupportFace3 a b c) ∧
    segmentFeature3 (lift3 a : V3 (Opt K sq)) (lift3 b) = liftFeature3 sq (segmentFeature3 a b) ∧
    segmentFeature2 (lift2 a2 : V2 (Opt K sq)) (lift2 b2) = liftFeature2 sq (segmentFeature2 a2 b2) ∧
    triangleSupportEdge3 (lift3 a : V3 (Opt K sq)) (lift3 b) (lift3 c) (lift3 dir)
      = (lift3 (triangleSupportEdge3 a b c dir).1, lift3 (triangleSupportEdge3 a b c dir).2) := by
  letI := fieldNum K sq
  refine ⟨rfl, rfl, rfl, ?_⟩
  simp only [triangleSupportEdge3, optsimp, (defined_iamax sq _ ⟨0, 0⟩).2.2.1]
  split_ifs <;> rfl

private theorem triFaceStep_lift {θ : K} (hs : SqrtPos sq θ) (dir : V2 K) (n : Nat) (x : K) (i : Nat) (t : V2 K)
    (hu : letI := fieldNum K sq; t.normSq = 0 ∨ θ < t.normSq) :
    letI := fieldNum K sq
    triFaceStep (lift2 dir : V2 (Opt K sq)) (n, val x) i (lift2 t)
      = ((triFaceStep dir (n, x) i t).1, val (triFaceStep dir (n, x) i t).2) := by
  letI := fieldNum K sq
  have en : (⟨t.y, -t.x⟩ : V2 K).normSq = t.normSq := by simp only [V2.normSq, V2.dot]; ring
  have hu' : (⟨t.y, -t.x⟩ : V2 K).normSq ≤ (0 : K) * 0 ∨ θ < (⟨t.y, -t.x⟩ : V2 K).normSq := by
    rw [en]; rcases hu with h | h
    · left; rw [h]; simp
    · exact Or.inr h
  have e0 : (0 : Opt K sq) = val 0 := rfl
  simp only [triFaceStep, optsimp, e0, defined_tryNew2 sq hs _ 0 hu']
  cases tryNew2 (⟨t.y, -t.x⟩ : V2 K) 0 with
  | none => rfl
  | some nrm => simp only [optsimp]; split_ifs <;> rfl

/-- **C20 (Triangle::support_face, 2-D)**: each edge normal goes through `Unit::try_new(_, 0.0)`, which skips
zero-length edges: defined for **every** triangle — coincident vertices and point-like triangles included — and every
direction; `hab hbc hca`: a non-zero squared edge length is above the threshold `θ` (automatic for `θ = 0`). -/
theorem defined_triangleSupportFace2 {θ : K} (hs : SqrtPos sq θ) (negMax : K) (a b c dir : V2 K)
    (hab : letI := fieldNum K sq; (b.sub a).normSq = 0 ∨ θ < (b.sub a).normSq)
    (hbc : letI := fieldNum K sq; (c.sub b).normSq = 0 ∨ θ < (c.sub b).normSq)
    (hca : letI := fieldNum K sq; (a.sub c).normSq = 0 ∨ θ < (a.sub c).normSq) :
    letI := fieldNum K sq
    triangleSupportFace2 (val negMax : Opt K sq) (lift2 a) (lift2 b) (lift2 c) (lift2 dir)
      = liftFeature2 sq (triangleSupportFace2 negMax a b c dir) := by
  letI := fieldNum K sq
  have hg : ∀ (i : Nat), ([lift2 a, lift2 b, lift2 c] : List (V2 (Opt K sq))).getD i (lift2 a)
      = lift2 ([a, b, c].getD i a) := by
    intro i
    rcases i with _ | _ | _ | _ <;> rfl
  simp only [triangleSupportFace2, liftFeature2, optsimp, triFaceStep_lift sq hs, hab, hbc, hca, hg,
    List.map_cons, List.map_nil]

/-- **C20 (`Vector2::new(dir.x, dir.z).try_normalize(ε).unwrap_or(x)`)**: no hypothesis (guard on the norm itself). -/
theorem defined_capDir (dir : V3 K) :
    letI := fieldNum K sq
    capDir (lift3 dir : V3 (Opt K sq)) = lift2 (capDir dir) := by
  letI := fieldNum K sq
  simp only [capDir, optsimp, defined_tryNormalize2 sq _ _ (c10eps_pos sq).le]
  cases tryNormalize2 (⟨dir.x, dir.z⟩ : V2 K) C10.eps <;> rfl

/-- **C20 (`PolygonalFeatureMap` for Cylinder and Cone)**: no hypothesis: every half-height/radius, every direction,
zero and axis-parallel directions included. -/
theorem defined_cylinder_cone_feature (hh r : K) (dir : V3 K) :
    letI := fieldNum K sq
    cylinderFeature (val hh : Opt K sq) (val r) (lift3 dir) = liftFeature3 sq (cylinderFeature hh r dir) ∧
    coneFeature (val hh : Opt K sq) (val r) (lift3 dir) = liftFeature3 sq (coneFeature hh r dir) := by
  letI := fieldNum K sq
  constructor
  · simp only [cylinderFeature, defined_capDir, optsimp, apply_ite (liftFeature3 sq)]
    opt_tree
  · simp only [coneFeature, defined_capDir, optsimp, apply_ite (liftFeature3 sq)]
    opt_tree

/-- **C20 (`utils::ccw_face_normal`, 2-D)**: `Unit::try_new(_, ε)`: defined for every pair of points (coincident
included → `None`) provided the square-root operation does not vanish above `ε² = 2⁻¹⁰⁴` (`θ ≤ ε²`). -/
theorem defined_ccwFaceNormal2 {θ : K} (hs : SqrtPos sq θ)
    (hθ : letI := fieldNum K sq; θ ≤ (C10.eps : K) * C10.eps) (a b : V2 K) :
    letI := fieldNum K sq
    ccwFaceNormal2 (lift2 a : V2 (Opt K sq)) (lift2 b) = (ccwFaceNormal2 a b).map lift2 := by
  letI := fieldNum K sq
  have hu : ∀ v : V2 K, v.normSq ≤ (C10.eps : K) * C10.eps ∨ θ < v.normSq := by
    intro v
    rcases le_or_gt v.normSq ((C10.eps : K) * C10.eps) with h | h
    · exact Or.inl h
    · exact Or.inr (lt_of_le_of_lt hθ h)
  simp only [ccwFaceNormal2, optsimp, defined_tryNew2 sq hs _ _ (hu _)]

private theorem getD_map_lift2 (pts : List (V2 K)) (i : Nat) :
    letI := fieldNum K sq
    (pts.map lift2 : List (V2 (Opt K sq))).getD i V2.zero = lift2 (pts.getD i V2.zero) := by
  letI := fieldNum K sq
  induction pts generalizing i with
  | nil => rfl
  | cons p ps ih =>
    cases i with
    | zero => rfl
    | succ j => simpa using ih j

private theorem getD_map_lift2' (pts : List (V2 K)) (i : Nat) :
    letI := fieldNum K sq
    (pts.map lift2 : List (V2 (Opt K sq))).getD i (lift2 V2.zero) = lift2 (pts.getD i V2.zero) :=
  getD_map_lift2 sq pts i

private theorem any_isNone_map {α β : Type} (f : α → β) (l : List (Option α)) :
    (l.map (Option.map f)).any Option.isNone = l.any Option.isNone := by
  induction l with
  | nil => rfl
  | cons a l ih => cases a <;> simp [ih]

private theorem filterMap_id_map {α β : Type} (f : α → β) (l : List (Option α)) :
    (l.map (Option.map f)).filterMap id = (l.filterMap id).map f := by
  induction l with
  | nil => rfl
  | cons a l ih =>
    cases a with
    | none => simpa [List.filterMap_cons] using ih
    | some x => simpa [List.filterMap_cons] using ih

/-- **C20 (`ConvexPolygon::from_convex_polyline_unmodified` + `local_support_feature`)**: defined for every finite
point list (fewer than 3 points or a degenerate edge: `None`, the constructor's failure) and every direction (zero
included), under `θ ≤ ε²` only. -/
theorem defined_polygonFeature {θ : K} (hs : SqrtPos sq θ)
    (hθ : letI := fieldNum K sq; θ ≤ (C10.eps : K) * C10.eps) (pts : List (V2 K)) (dir : V2 K) :
    letI := fieldNum K sq
    polygonFeature (pts.map lift2 : List (V2 (Opt K sq))) (lift2 dir)
      = (polygonFeature pts dir).map (liftFeature2 sq) := by
  letI := fieldNum K sq
  have hN : (List.range pts.length).map (fun i => ccwFaceNormal2
        ((pts.map lift2 : List (V2 (Opt K sq))).getD i V2.zero)
        ((pts.map lift2 : List (V2 (Opt K sq))).getD ((i + 1) % pts.length) V2.zero))
      = ((List.range pts.length).map (fun i => ccwFaceNormal2 (pts.getD i V2.zero)
          (pts.getD ((i + 1) % pts.length) V2.zero))).map (Option.map lift2) := by
    rw [List.map_map]
    apply List.map_congr_left
    intro i _
    simp only [Function.comp]
    rw [getD_map_lift2, getD_map_lift2, defined_ccwFaceNormal2 sq hs hθ]
  unfold polygonFeature
  simp only [List.length_map, hN, any_isNone_map, filterMap_id_map]
  generalize (List.range pts.length).map (fun i => ccwFaceNormal2 (pts.getD i V2.zero)
          (pts.getD ((i + 1) % pts.length) V2.zero)) = N
  split_ifs with h1 h2
  · rfl
  · rfl
  · cases N.filterMap id with
    | nil => rfl
    | cons n0 ns =>
      simp only [List.map_cons, optsimp, cloudGo2_lift, getD_map_lift2', liftFeature2, List.map_nil]


/-! # C09 — bounding volumes and interval arithmetic

* no hypothesis at all: `Interval::midpoint/split` (division by the literal `2`), every `BoundingSphere` operation —
  **including `merge` of spheres with coincident centres**: the direction `d / |d|` is computed *before* the test
  `norm == 0`, it is `0/0` there, but that test is on the very norm that is divided by, so the NaN vector is dead
  (`sphere_merged_coincident_finite`) —, the bounding spheres of ball / cuboid / capsule / cone / cylinder (square roots of
  sums of squares), of point clouds / triangles / segments (division by the point count `≥ 1`, square root of a running
  maximum of squared distances started at `0`), the `Aabb` operations (no division; `norm` of a difference), the
  `SimdAabb` point distance.
* `Interval / Interval`: defined (every finite endpoint produced is finite, `±∞` endpoints are the explicit `Ext`
  constructors) for every dividend — no ordering needed — and every divisor with `lo ≤ hi`, **including divisors
  `[a, 0]`, `[0, b]`, `[a, b] ∋ 0`** and `[0, 0]` when the dividend contains `0`.  The one excluded corner is the divisor
  `[0, 0]` with a dividend that does not contain `0`: the code evaluates `a / 0`, which is `±∞` in IEEE arithmetic (never
  NaN, the numerator is non-zero) — an infinite endpoint by design (`interval_div_by_zero_interval_inf`; on the crates
  `C09 interval_div [-2,-1] [0,0] → -inf +inf none`). -/
def liftSphere (s : Sphere3 K) : Sphere3 (Opt K sq) := ⟨lift3 s.center, val s.radius⟩
def liftAabb3 (b : Aabb3 K) : Aabb3 (Opt K sq) := ⟨lift3 b.mins, lift3 b.maxs⟩
def liftAabb2 (b : Aabb2 K) : Aabb2 (Opt K sq) := ⟨lift2 b.mins, lift2 b.maxs⟩
def liftI (x : Interval K) : Interval (Opt K sq) := ⟨val x.lo, val x.hi⟩
def liftExt : Ext K → Ext (Opt K sq)
  | .negInf => .negInf
  | .fin v => .fin (val v)
  | .posInf => .posInf
def liftEI (x : EInterval K) : EInterval (Opt K sq) := ⟨liftExt sq x.lo, liftExt sq x.hi⟩

@[optsimp] private theorem liftSphere_mk (c : V3 K) (r : K) :
    (⟨lift3 c, val r⟩ : Sphere3 (Opt K sq)) = liftSphere sq ⟨c, r⟩ := id rfl
@[optsimp] private theorem liftSphere_center (s : Sphere3 K) : (liftSphere sq s).center = lift3 s.center := id rfl
@[optsimp] private theorem liftSphere_radius (s : Sphere3 K) : (liftSphere sq s).radius = val s.radius := id rfl
@[optsimp] private theorem liftAabb3_mk (a b : V3 K) :
    (⟨lift3 a, lift3 b⟩ : Aabb3 (Opt K sq)) = liftAabb3 sq ⟨a, b⟩ := id rfl
@[optsimp] private theorem liftAabb3_mins (b : Aabb3 K) : (liftAabb3 sq b).mins = lift3 b.mins := id rfl
@[optsimp] private theorem liftAabb3_maxs (b : Aabb3 K) : (liftAabb3 sq b).maxs = lift3 b.maxs := id rfl
@[optsimp] private theorem liftI_lo (x : Interval K) : (liftI sq x).lo = val x.lo := id rfl
@[optsimp] private theorem liftI_hi (x : Interval K) : (liftI sq x).hi = val x.hi := id rfl

private theorem two_ne_zero' : letI := fieldNum K sq; (two : K) ≠ 0 := by
  letI := fieldNum K sq
  rw [fieldNum_two]; norm_num

/-- **C20 (`Interval::midpoint`, `Interval::split`)**: the divisor is the literal `2`: defined for every finite
interval (even `lo > hi`). -/
theorem defined_interval_midpoint (x : Interval K) :
    letI := fieldNum K sq
    (liftI sq x).midpoint = val x.midpoint ∧
    (liftI sq x).split = ((liftI sq x.split.1), (liftI sq x.split.2)) := by
  letI := fieldNum K sq
  have h : (liftI sq x).midpoint = val x.midpoint := by
    simp only [Interval.midpoint, optsimp, if_neg (two_ne_zero' sq)]
  refine ⟨h, ?_⟩
  simp only [Interval.split, h]; rfl

/-- **C20 (`BoundingSphere::merged`)**: **no hypothesis** — every pair of finite spheres, radii of any sign,
**coincident centres included**, nested or disjoint.  `dir = d / |d|` is evaluated before the test `norm == 0`, and is
`0/0` for coincident centres (or when the square-root operation underflows to `0`), but the test is on the divisor
itself, so the branch that uses `dir` is entered only with `|d| ≠ 0`; the final radius is a `norm` (square root of a
sum of squares). -/
theorem defined_sphere_merged (a b : Sphere3 K) :
    letI := fieldNum K sq
    (liftSphere sq a).merged (liftSphere sq b) = liftSphere sq (a.merged b) := by
  letI := fieldNum K sq
  simp only [Sphere3.merged, optsimp]
  opt_steps
  all_goals
    first
    | rfl
    | (exfalso; simp only [optsimp] at *; tauto)

/-- **C20 (`BoundingSphere::contains / intersects / loosened / transform_by`)**: `contains` takes the norm of a
difference, the others are polynomial: defined for every finite input, same Boolean as the exact evaluation. -/
theorem defined_sphere_ops (a b : Sphere3 K) (m : K) (iso : Iso3 K) :
    letI := fieldNum K sq
    (liftSphere sq a).contains (liftSphere sq b) = a.contains b ∧
    (liftSphere sq a).intersects (liftSphere sq b) = a.intersects b ∧
    (liftSphere sq a).loosened (val m) = liftSphere sq (a.loosened m) ∧
    (liftSphere sq a).transformBy (liftIso3 iso) = liftSphere sq (a.transformBy iso) := by
  letI := fieldNum K sq
  refine ⟨?_, ?_, ?_, ?_⟩
  · simp only [Sphere3.contains, optsimp]
  · simp only [Sphere3.intersects, optsimp]
  · simp only [Sphere3.loosened, optsimp]
  · simp only [Sphere3.transformBy, optsimp]

/-- **C20 (`bounding_sphere` of Ball, Cuboid, Capsule, Cone, Cylinder)**: square roots of `|he|²`, `|b-a|²`, `r² +
hh²` (sums of squares) and a division by the literal `2`: defined for every finite shape (zero or negative extents,
zero-length capsule) and pose. -/
theorem defined_shape_spheres (r hh : K) (he a b : V3 K) (m : Iso3 K) :
    letI := fieldNum K sq
    ballSphere (val r : Opt K sq) (liftIso3 m) = liftSphere sq (ballSphere r m) ∧
    cuboidSphere (lift3 he : V3 (Opt K sq)) (liftIso3 m) = liftSphere sq (cuboidSphere he m) ∧
    capsuleSphere (lift3 a : V3 (Opt K sq)) (lift3 b) (val r) (liftIso3 m) = liftSphere sq (capsuleSphere a b r m) ∧
    coneSphere (val hh : Opt K sq) (val r) (liftIso3 m) = liftSphere sq (coneSphere hh r m) ∧
    cylinderSphere (val hh : Opt K sq) (val r) (liftIso3 m) = liftSphere sq (cylinderSphere hh r m) := by
  letI := fieldNum K sq
  have hnn : ¬ (r * r + hh * hh < 0) := not_lt.mpr (by nlinarith [mul_self_nonneg r, mul_self_nonneg hh])
  refine ⟨?_, ?_, ?_, ?_, ?_⟩
  · simp only [ballSphere, Sphere3.transformBy, optsimp]
  · simp only [cuboidSphere, Sphere3.transformBy, optsimp]
  · simp only [capsuleSphere, Sphere3.transformBy, optsimp, if_neg (two_ne_zero' sq)]
  · simp only [coneSphere, Sphere3.transformBy, optsimp, if_neg hnn]
  · simp only [cylinderSphere, Sphere3.transformBy, optsimp, if_neg hnn]

/-! ### point clouds -/
private theorem count_lift (ps : List (V3 K)) (c : K) :
    (ps.map lift3).foldl (fun (n : Opt K sq) (_ : V3 (Opt K sq)) => n + 1) (val c)
      = val (ps.foldl (fun n _ => n + 1) c) := by
  induction ps generalizing c with
  | nil => rfl
  | cons p ps ih =>
    simp only [List.map_cons, List.foldl_cons]
    exact ih (c + 1)

private theorem count_pos (ps : List (V3 K)) (c : K) (hc : 0 < c) : 0 < ps.foldl (fun n _ => n + 1) c := by
  induction ps generalizing c with
  | nil => exact hc
  | cons p ps ih => exact ih _ (by linarith)

private theorem centroid_lift (ps : List (V3 K)) (acc : V3 K) (d : K) :
    letI := fieldNum K sq
    (ps.map lift3).foldl (fun (acc : V3 (Opt K sq)) p => acc.add (p.smul (val d))) (lift3 acc)
      = lift3 (ps.foldl (fun acc p => acc.add (p.smul d)) acc) := by
  letI := fieldNum K sq
  induction ps generalizing acc with
  | nil => rfl
  | cons p ps ih =>
    simp only [List.map_cons, List.foldl_cons]
    exact ih (acc.add (p.smul d))

private theorem maxsq_lift (ps : List (V3 K)) (c : V3 K) (acc : K) :
    letI := fieldNum K sq
    (ps.map lift3).foldl (fun (acc : Opt K sq) p =>
        if acc < ((lift3 c : V3 (Opt K sq)).sub p).normSq then ((lift3 c : V3 (Opt K sq)).sub p).normSq else acc) (val acc)
      = val (ps.foldl (fun acc p => if acc < (c.sub p).normSq then (c.sub p).normSq else acc) acc) := by
  letI := fieldNum K sq
  induction ps generalizing acc with
  | nil => rfl
  | cons p ps ih =>
    have e : (if (val acc : Opt K sq) < ((lift3 c : V3 (Opt K sq)).sub (lift3 p)).normSq
          then ((lift3 c : V3 (Opt K sq)).sub (lift3 p)).normSq else val acc)
        = val (if acc < (c.sub p).normSq then (c.sub p).normSq else acc) := by
      simp only [optsimp, val_ite]
    simp only [List.map_cons, List.foldl_cons]
    rw [e]
    exact ih _

private theorem maxsq_nonneg (ps : List (V3 K)) (c : V3 K) (acc : K) (h : 0 ≤ acc) :
    letI := fieldNum K sq
    0 ≤ ps.foldl (fun acc p => if acc < (c.sub p).normSq then (c.sub p).normSq else acc) acc := by
  letI := fieldNum K sq
  induction ps generalizing acc with
  | nil => exact h
  | cons p ps ih =>
    simp only [List.foldl_cons]
    apply ih
    split_ifs with h1
    · exact le_trans h h1.le
    · exact h

/-- **C20 (`utils::center` + `point_cloud_bounding_sphere_with_center`)**: defined for every non-empty finite cloud
(repeated points, a single point: radius `sqrt 0`): the divisor is the point count `1 + |ps| > 0` (an ordered field
has characteristic zero) and the square root is taken of a running maximum that starts at `0`. -/
theorem defined_pointCloudSphere (p0 : V3 K) (ps : List (V3 K)) :
    letI := fieldNum K sq
    pointCloudSphere (lift3 p0 : V3 (Opt K sq)) (ps.map lift3) = liftSphere sq (pointCloudSphere p0 ps) := by
  letI := fieldNum K sq
  have hc : ps.foldl (fun (n : K) _ => n + 1) 1 ≠ 0 := ne_of_gt (count_pos ps 1 one_pos)
  have e1 : (1 : Opt K sq) / (ps.map lift3).foldl (fun (n : Opt K sq) (_ : V3 (Opt K sq)) => n + 1) 1
      = val (1 / ps.foldl (fun (n : K) _ => n + 1) 1) := by
    have e0 : (ps.map lift3).foldl (fun (n : Opt K sq) (_ : V3 (Opt K sq)) => n + 1) 1
        = val (ps.foldl (fun (n : K) _ => n + 1) 1) := count_lift sq ps 1
    rw [e0]
    exact val_div_ne _ _ hc
  simp only [pointCloudSphere]
  rw [e1, show (lift3 p0 : V3 (Opt K sq)).smul (val (1 / ps.foldl (fun (n : K) _ => n + 1) 1))
      = lift3 (p0.smul (1 / ps.foldl (fun (n : K) _ => n + 1) 1)) from rfl, centroid_lift,
    ← List.map_cons, show (0 : Opt K sq) = val 0 from rfl, maxsq_lift,
    val_sqrt_nonneg _ (maxsq_nonneg sq _ _ _ le_rfl)]
  rfl

/-- **C20 (`Triangle::bounding_sphere`, `Segment::bounding_sphere`)**: instances of `defined_pointCloudSphere` with 3
and 2 points: flat / point-like triangles and zero-length segments included. -/
theorem defined_triangle_segment_sphere (a b c : V3 K) (m : Iso3 K) :
    letI := fieldNum K sq
    triangleSphere (lift3 a : V3 (Opt K sq)) (lift3 b) (lift3 c) (liftIso3 m) = liftSphere sq (triangleSphere a b c m) ∧
    segmentSphere (lift3 a : V3 (Opt K sq)) (lift3 b) (liftIso3 m) = liftSphere sq (segmentSphere a b m) := by
  letI := fieldNum K sq
  have h3 := defined_pointCloudSphere sq a [b, c]
  have h2 := defined_pointCloudSphere sq a [b]
  simp only [List.map_cons, List.map_nil] at h3 h2
  constructor
  · simp only [triangleSphere, h3, Sphere3.transformBy, optsimp]
  · simp only [segmentSphere, h2, Sphere3.transformBy, optsimp]

/-! ### Aabb -/
@[optsimp] private theorem liftIso3_absTransform (m : Iso3 K) (v : V3 K) :
    letI := fieldNum K sq
    (liftIso3 m : Iso3 (Opt K sq)).absTransform (lift3 v) = lift3 (m.absTransform v) := by
  letI := fieldNum K sq
  simp only [Iso3.absTransform, Iso3.mat, optsimp]

/-- **C20 (Aabb: `center`, `half_extents`, `volume`, `bounding_sphere`, `transform_by`, `merged`, `scaled_wrt_center`,
`scaled`, `loosened`, `intersection`, SimdAabb `distance_to_local_point` lane)**: no division; the two `norm`s are of
differences: defined for every finite box (even `mins > maxs`), pose (unit quaternion or not), scale, margin and
point. -/
theorem defined_aabb3 (a b : Aabb3 K) (p s : V3 K) (m : Iso3 K) (mg : K) :
    letI := fieldNum K sq
    (liftAabb3 sq a).center = lift3 a.center ∧
    (liftAabb3 sq a).halfExtents = lift3 a.halfExtents ∧
    (liftAabb3 sq a).volume = val a.volume ∧
    (liftAabb3 sq a).boundingSphere = liftSphere sq a.boundingSphere ∧
    (liftAabb3 sq a).transformBy (liftIso3 m) = liftAabb3 sq (a.transformBy m) ∧
    (liftAabb3 sq a).merged (liftAabb3 sq b) = liftAabb3 sq (a.merged b) ∧
    (liftAabb3 sq a).scaledWrtCenter (lift3 s) = liftAabb3 sq (a.scaledWrtCenter s) ∧
    (liftAabb3 sq a).scaled (lift3 s) = liftAabb3 sq (a.scaled s) ∧
    (liftAabb3 sq a).loosened (val mg) = liftAabb3 sq (a.loosened mg) ∧
    (liftAabb3 sq a).intersection (liftAabb3 sq b) = (a.intersection b).map (liftAabb3 sq) ∧
    SimdAabb3.laneDistPoint (liftAabb3 sq a) (lift3 p) = val (SimdAabb3.laneDistPoint a p) := by
  letI := fieldNum K sq
  refine ⟨?_, ?_, ?_, ?_, ?_, ?_, ?_, ?_, ?_, ?_, ?_⟩
  · simp only [Aabb3.center, optsimp, fieldNum_lit]
  · simp only [Aabb3.halfExtents, optsimp, fieldNum_lit]
  · simp only [Aabb3.volume, Aabb3.extents, optsimp]
  · simp only [Aabb3.boundingSphere, Aabb3.center, optsimp, fieldNum_lit]
  · simp only [Aabb3.transformBy, Aabb3.center, Aabb3.halfExtents, optsimp, fieldNum_lit]
  · simp only [Aabb3.merged, optsimp]
  · simp only [Aabb3.scaledWrtCenter, Aabb3.fromHalfExtents, Aabb3.center, Aabb3.halfExtents, optsimp, fieldNum_lit]
  · simp only [Aabb3.scaled, optsimp]
  · simp only [Aabb3.loosened, optsimp]
  · simp only [Aabb3.intersection, optsimp]; split_ifs <;> rfl
  · simp only [SimdAabb3.laneDistPoint, optsimp]

/-! ### Interval division -/
/-- **C20 (`Interval / Interval`)**: for every finite dividend `x` (no ordering needed) and divisor `y` with `y.lo ≤
y.hi`, every finite endpoint of the one or two returned pieces is defined and the pieces are those of the exact
evaluation — all sign patterns, **divisors containing zero** (`[a,0]`, `[0,b]`, `a < 0 < b`) included.  `h0` excludes
only the divisor `[0,0]` with `0 ∉ x`, where the code deliberately evaluates `x.hi / 0` or `x.lo / 0` (`±∞` in IEEE):
see `interval_div_by_zero_interval_inf`. -/
theorem defined_interval_div (x y : Interval K) (hy : y.lo ≤ y.hi)
    (h0 : ¬ (y.lo = 0 ∧ y.hi = 0) ∨ (x.lo ≤ 0 ∧ 0 ≤ x.hi)) :
    letI := fieldNum K sq
    (liftI sq x).div (liftI sq y) = (liftEI sq (x.div y).1, (x.div y).2.map (liftEI sq)) := by
  letI := fieldNum K sq
  obtain ⟨a1, a2⟩ := x
  obtain ⟨b1, b2⟩ := y
  simp only [] at hy h0
  simp only [Interval.div, liftI, optsimp]
  opt_steps
  all_goals try rfl
  all_goals
    (exfalso; simp only [not_and_or, not_le, not_lt] at *
     casesm* _ ∨ _, _ ∧ _ <;> first | contradiction | linarith)

/-- witness at `NaNable` (where `a / 0 = none` stands for `±∞` as well as NaN): dividing `[-2,-1]` or `[1,2]` by
`[0,0]` produces an infinite 'finite' endpoint.  On the crates: `C09 interval_div [-2,-1] [0,0] → -inf +inf none`
(with `-0.0` endpoints: `+inf +inf`); never NaN since the numerator is non-zero; the quotient set is empty, so any
result is an enclosure — not a defect. -/
theorem interval_div_by_zero_interval_inf :
    (match ((⟨some (-2), some (-1)⟩ : Interval NaNable).div ⟨some 0, some 0⟩).1.lo with
      | .fin v => Option.isSome (v : Option Rat) | _ => true) = false ∧
    (match ((⟨some 1, some 2⟩ : Interval NaNable).div ⟨some 0, some 0⟩).1.hi with
      | .fin v => Option.isSome (v : Option Rat) | _ => true) = false := by
  decide +kernel

/-- witness at `NaNable`: for coincident centres the merged sphere is finite although the intermediate direction `d /
|d|` is NaN (dead value). -/
theorem sphere_merged_coincident_finite :
    let s : Sphere3 NaNable := ⟨⟨some 1, some 2, some 3⟩, some 1⟩
    let t : Sphere3 NaNable := ⟨⟨some 1, some 2, some 3⟩, some 2⟩
    let r := s.merged t
    Option.isSome (r.center.x : Option Rat) = true ∧ Option.isSome (r.radius : Option Rat) = true ∧
    Option.isSome ((((t.center.sub s.center).sdiv (t.center.sub s.center).norm).x) : Option Rat) = false := by
  decide +kernel

@[optsimp] private theorem liftIso2_absTransform (m : Iso2 K) (v : V2 K) :
    letI := fieldNum K sq
    (liftIso2 m : Iso2 (Opt K sq)).absTransform (lift2 v) = lift2 (m.absTransform v) := by
  letI := fieldNum K sq
  simp only [Iso2.absTransform, optsimp]

/-- **C20 (`aabb(pos)` of Ball, Cuboid, Capsule, Triangle; 2-D Cuboid; 2-D `Aabb::transform_by`)**: polynomial +
`abs/min/max`: defined for every finite input. -/
theorem defined_shape_aabbs (r : K) (he a b c : V3 K) (m : Iso3 K) (he2 : V2 K) (m2 : Iso2 K) (bx : Aabb2 K) :
    letI := fieldNum K sq
    ballAabb (val r : Opt K sq) (liftIso3 m) = liftAabb3 sq (ballAabb r m) ∧
    cuboidAabb (lift3 he : V3 (Opt K sq)) (liftIso3 m) = liftAabb3 sq (cuboidAabb he m) ∧
    capsuleAabb (lift3 a : V3 (Opt K sq)) (lift3 b) (val r) (liftIso3 m) = liftAabb3 sq (capsuleAabb a b r m) ∧
    triangleAabb (lift3 a : V3 (Opt K sq)) (lift3 b) (lift3 c) (liftIso3 m) = liftAabb3 sq (triangleAabb a b c m) ∧
    cuboidAabb2 (lift2 he2 : V2 (Opt K sq)) (liftIso2 m2) = liftAabb2 sq (cuboidAabb2 he2 m2) ∧
    (liftAabb2 sq bx).transformBy (liftIso2 m2) = liftAabb2 sq (bx.transformBy m2) := by
  letI := fieldNum K sq
  refine ⟨?_, ?_, ?_, ?_, ?_, ?_⟩
  · simp only [ballAabb, optsimp]
  · simp only [cuboidAabb, Aabb3.fromHalfExtents, optsimp]
  · simp only [capsuleAabb, optsimp]
  · simp only [triangleAabb, optsimp]
  · simp only [cuboidAabb2, Aabb2.fromHalfExtents, optsimp]; rfl
  · simp only [Aabb2.transformBy, Aabb2.center, Aabb2.halfExtents, liftAabb2, optsimp, fieldNum_lit]

/-! ## remaining comparison-only / polynomial functions of C09 -/
/-- **C20 (`Interval::sort / contains / width / enclose / intersect`, `± scalar`, `* scalar`)**: comparisons, sums and
products only: defined for every finite input (completes `interval_ops_defined` of Theorems.lean, which has `+ - neg
*` on intervals). -/
theorem defined_interval_misc (x y : Interval K) (a b t r : K) :
    letI := fieldNum K sq
    Interval.sort (val a : Opt K sq) (val b) = liftI sq (Interval.sort a b) ∧
    (liftI sq x).contains (val t) = x.contains t ∧
    (liftI sq x).width = val x.width ∧
    (liftI sq x).enclose (val t) = liftI sq (x.enclose t) ∧
    (liftI sq x).intersect (liftI sq y) = (x.intersect y).map (liftI sq) ∧
    (liftI sq x).addS (val r) = liftI sq (x.addS r) ∧
    (liftI sq x).subS (val r) = liftI sq (x.subS r) ∧
    (liftI sq x).mulS (val r) = liftI sq (x.mulS r) := by
  letI := fieldNum K sq
  refine ⟨?_, ?_, ?_, ?_, ?_, ?_, ?_, ?_⟩
  · simp only [Interval.sort, optsimp]; split_ifs <;> rfl
  · simp only [Interval.contains, liftI, optsimp]
  · simp only [Interval.width, liftI, optsimp]
  · simp only [Interval.enclose, liftI, optsimp]; split_ifs <;> rfl
  · simp only [Interval.intersect, liftI, optsimp]; split_ifs <;> rfl
  · rfl
  · rfl
  · simp only [Interval.mulS, liftI, optsimp]; split_ifs <;> rfl

/-- **C20 (Aabb `intersects / contains / contains_local_point / take_point / tightened`, SimdAabb
`contains_local_point` and `dilate_by_factor` lanes, `local_point_cloud_aabb`)**: comparisons and polynomial
arithmetic only; same Booleans / boxes as the exact evaluation for every finite input. -/
theorem defined_aabb3_predicates (a b : Aabb3 K) (p : V3 K) (m f : K) (p0 : V3 K) (ps : List (V3 K)) :
    letI := fieldNum K sq
    (liftAabb3 sq a).intersects (liftAabb3 sq b) = a.intersects b ∧
    (liftAabb3 sq a).contains (liftAabb3 sq b) = a.contains b ∧
    (liftAabb3 sq a).containsLocalPoint (lift3 p) = a.containsLocalPoint p ∧
    SimdAabb3.lanePoint (liftAabb3 sq a) (lift3 p) = SimdAabb3.lanePoint a p ∧
    (liftAabb3 sq a).takePoint (lift3 p) = liftAabb3 sq (a.takePoint p) ∧
    (liftAabb3 sq a).tightened (val m) = liftAabb3 sq (a.tightened m) ∧
    SimdAabb3.dilateLane (liftAabb3 sq a) (val f) = liftAabb3 sq (SimdAabb3.dilateLane a f) ∧
    Aabb3.fromPoints (lift3 p0 : V3 (Opt K sq)) (ps.map lift3) = liftAabb3 sq (Aabb3.fromPoints p0 ps) := by
  letI := fieldNum K sq
  refine ⟨?_, ?_, ?_, ?_, ?_, ?_, ?_, ?_⟩
  · simp only [Aabb3.intersects, Aabb3.ple, optsimp]
  · simp only [Aabb3.contains, Aabb3.ple, optsimp]
  · simp only [Aabb3.containsLocalPoint, optsimp]
  · simp only [SimdAabb3.lanePoint, Aabb3.ple, optsimp]
  · simp only [Aabb3.takePoint, optsimp]
  · simp only [Aabb3.tightened, optsimp]
  · simp only [SimdAabb3.dilateLane, optsimp]
    split_ifs <;> simp only [optsimp]
  · simp only [Aabb3.fromPoints]
    have h : ∀ (ps : List (V3 K)) (b : Aabb3 K),
        (ps.map lift3).foldl (fun (b : Aabb3 (Opt K sq)) p => ⟨b.mins.inf p, b.maxs.sup p⟩) (liftAabb3 sq b)
          = liftAabb3 sq (ps.foldl (fun b p => ⟨b.mins.inf p, b.maxs.sup p⟩) b) := by
      intro ps
      induction ps with
      | nil => intro b; rfl
      | cons q qs ih =>
        intro b
        have e : (⟨(liftAabb3 sq b).mins.inf (lift3 q), (liftAabb3 sq b).maxs.sup (lift3 q)⟩ : Aabb3 (Opt K sq))
            = liftAabb3 sq ⟨b.mins.inf q, b.maxs.sup q⟩ := by
          simp only [optsimp]
        simp only [List.map_cons, List.foldl_cons]
        rw [e]
        exact ih _
    exact h ps ⟨p0, p0⟩


/-! # C13 — mass properties

Every division of `mass_properties/*.rs` is either by a literal (`2`, `3`, `5`, `8`, `10`, `12`, `20`, `80`, `3π`), by a
count (`polyGc`: number of vertices of a non-empty polygon), goes through `utils::inv` (which tests `== 0`), or is
guarded by the code (`if areasum == 0`, `if total_mass > 0`, `if inv_mass != 0`).  **No unguarded division by a mass,
an area or a volume was found**: zero density, zero radius / extents, zero-length capsules, degenerate (collinear or
point-like) triangles and polygons, zero-mass members of sums are all covered by the theorems below; the real crates
were replayed on these corners (`from_triangle` on a flat and on a point triangle, `from_ball2` with zero density / zero
radius, `from_capsule2/3` of zero length and zero radius, `from_cone` of zero height, `from_cylinder` of zero radius,
`from_cuboid3` with a zero extent): all outputs finite.

The only way to a NaN is the square root in `inv_principal_inertia_sqrt = inv(sqrt(I))` with `I < 0`, i.e. invalid input
(negative density, negative extents, negative `inv_mass`): the hypotheses `0 ≤ …` below are exactly that.  `SqrtNonneg sq`
(the square-root operation returns non-negative values: half of `LawfulSqrt`) is needed where an area or a length —
itself a square root — enters an inertia; `Sub` clamps mass and inertia at `ε` and needs nothing. -/
section C13
open Model.Mass

def liftMP2 (p : MP2 K) : MP2 (Opt K sq) := ⟨lift2 p.com, val p.invMass, val p.invI⟩
@[optsimp] private theorem liftMP2_mk (c : V2 K) (a b : K) :
    (⟨lift2 c, val a, val b⟩ : MP2 (Opt K sq)) = liftMP2 sq ⟨c, a, b⟩ := id rfl
@[optsimp] private theorem liftMP2_com (p : MP2 K) : (liftMP2 sq p).com = lift2 p.com := id rfl
@[optsimp] private theorem liftMP2_invMass (p : MP2 K) : (liftMP2 sq p).invMass = val p.invMass := id rfl
@[optsimp] private theorem liftMP2_invI (p : MP2 K) : (liftMP2 sq p).invI = val p.invI := id rfl

/-- `utils::inv` guards the zero divisor -/
@[optsimp] private theorem inv_val (v : K) : letI := fieldNum K sq; (Mass.inv (val v) : Opt K sq) = val (Mass.inv v) := by
  letI := fieldNum K sq
  simp only [Mass.inv, optsimp]
  opt_steps

@[optsimp] private theorem eps32_val : letI := fieldNum K sq; (eps32 : Opt K sq) = val (eps32 : K) := id rfl

private theorem inv_nonneg' (v : K) (h : 0 ≤ v) : letI := fieldNum K sq; 0 ≤ Mass.inv v := by
  letI := fieldNum K sq
  simp only [Mass.inv]
  split_ifs
  · exact le_rfl
  · exact div_nonneg zero_le_one h

/-- **C20 (`MassProperties::new`, 2-D)**: `inv(mass)`, `inv(sqrt(I))`: defined for every mass (zero, negative) and
every principal inertia `I ≥ 0` — **zero included** (`sqrt 0 = 0` or whatever the operation returns: `inv` tests its
argument). -/
theorem defined_mp2_new (com : V2 K) (mass pinertia : K) (hp : 0 ≤ pinertia) :
    letI := fieldNum K sq
    MP2.new (lift2 com : V2 (Opt K sq)) (val mass) (val pinertia) = liftMP2 sq (MP2.new com mass pinertia) := by
  letI := fieldNum K sq
  simp only [MP2.new, optsimp, if_neg (not_lt.mpr hp)]

/-- **C20 (2-D `mass`, `principal_inertia`, `construct_shifted_inertia_matrix`, `transform_by`, `is_zero`, `zero`)**:
only `inv` and the guarded `1 / inv_mass`: defined for every finite record (zero or negative `inv_mass` /
`inv_principal_inertia_sqrt`). -/
theorem defined_mp2_basic (p : MP2 K) (shift : V2 K) (m : Iso2 K) :
    letI := fieldNum K sq
    (liftMP2 sq p).mass = val p.mass ∧
    (liftMP2 sq p).principalInertia = val p.principalInertia ∧
    (liftMP2 sq p).shifted (lift2 shift) = val (p.shifted shift) ∧
    (liftMP2 sq p).transformBy (liftIso2 m) = liftMP2 sq (p.transformBy m) ∧
    (liftMP2 sq p).isZero = p.isZero ∧
    (MP2.zero : MP2 (Opt K sq)) = liftMP2 sq MP2.zero := by
  letI := fieldNum K sq
  refine ⟨?_, ?_, ?_, ?_, ?_, rfl⟩
  · simp only [MP2.mass, optsimp]
  · simp only [MP2.principalInertia, optsimp]
  · simp only [MP2.shifted, optsimp]
    opt_steps
  · simp only [MP2.transformBy, optsimp]
  · simp only [MP2.isZero, optsimp]

private theorem shifted2_nonneg (p : MP2 K) (s : V2 K) (h : 0 ≤ p.invMass) : letI := fieldNum K sq; 0 ≤ p.shifted s := by
  letI := fieldNum K sq
  have h1 : 0 ≤ Mass.inv (p.invI * p.invI) := inv_nonneg' sq _ (mul_self_nonneg _)
  simp only [MP2.shifted]
  split_ifs
  · exact add_nonneg h1 (mul_nonneg (normSq2_nonneg (sq := sq) s) (div_nonneg zero_le_one h))
  · exact h1

/-- **C20 (`MassProperties + MassProperties`, 2-D)**: defined for every pair with non-negative `inv_mass` —
**zero-mass members included** (`inv_mass = 0`: `inv` gives mass `0`; `m1 + m2 = 0`: `inv` gives `0` and the centre of
mass is `0`), the `zero()` record, coincident centres of mass.  The hypothesis only makes the combined inertia (the
argument of the square root) non-negative. -/
theorem defined_mp2_add (a b : MP2 K) (ha : 0 ≤ a.invMass) (hb : 0 ≤ b.invMass) :
    letI := fieldNum K sq
    (liftMP2 sq a).add (liftMP2 sq b) = liftMP2 sq (a.add b) := by
  letI := fieldNum K sq
  have hnn : ∀ s1 s2 : V2 K, ¬ (a.shifted s1 + b.shifted s2 < 0) := fun s1 s2 =>
    not_lt.mpr (add_nonneg (shifted2_nonneg sq a s1 ha) (shifted2_nonneg sq b s2 hb))
  simp only [MP2.add, optsimp, (defined_mp2_basic sq _ _ Iso2.identity).2.2.1,
    (defined_mp2_basic sq _ V2.zero Iso2.identity).2.2.2.2.1, if_neg (hnn _ _)]
  split_ifs <;> rfl

/-- **C20 (`MassProperties - MassProperties`, 2-D)**: **no hypothesis**: the code clamps the new mass and the new
inertia to `0` below `ε = 2⁻²³`, so the square root and `inv` are always defined — subtracting a larger mass, equal
records, zero-mass members. -/
theorem defined_mp2_sub (a b : MP2 K) :
    letI := fieldNum K sq
    (liftMP2 sq a).sub (liftMP2 sq b) = liftMP2 sq (a.sub b) := by
  letI := fieldNum K sq
  have hnn : ∀ x : K, ¬ ((if x < eps32 then 0 else x) < 0) := by
    intro x
    have he : (0 : K) < eps32 := lit_pos 1 _ (by decide) (by decide)
    split_ifs with h
    · exact lt_irrefl 0
    · exact not_lt.mpr (le_trans he.le (not_lt.mp h))
  simp only [MP2.sub, optsimp, (defined_mp2_basic sq _ _ Iso2.identity).2.2.1,
    (defined_mp2_basic sq _ V2.zero Iso2.identity).2.2.2.2.1, val_ite, if_neg (hnn _)]
  split_ifs <;> rfl

private theorem sumAcc2_lift (ps : List (MP2 K)) (m : K) (c : V2 K) :
    letI := fieldNum K sq
    (ps.map (liftMP2 sq)).foldl MP2.sumAcc ((val m : Opt K sq), lift2 c)
      = (val (ps.foldl MP2.sumAcc (m, c)).1, lift2 (ps.foldl MP2.sumAcc (m, c)).2) := by
  letI := fieldNum K sq
  induction ps generalizing m c with
  | nil => rfl
  | cons p ps ih =>
    have e : MP2.sumAcc ((val m : Opt K sq), lift2 c) (liftMP2 sq p)
        = (val (MP2.sumAcc (m, c) p).1, lift2 (MP2.sumAcc (m, c) p).2) := by
      simp only [MP2.sumAcc, optsimp]
    simp only [List.map_cons, List.foldl_cons]
    rw [e]
    exact ih _ _

private theorem sumInertia2_lift (ps : List (MP2 K)) (tc : V2 K) (z : K) :
    letI := fieldNum K sq
    (ps.map (liftMP2 sq)).foldl (fun (ti : Opt K sq) p => ti + p.shifted ((lift2 tc : V2 (Opt K sq)).sub p.com)) (val z)
      = val (ps.foldl (fun ti p => ti + p.shifted (tc.sub p.com)) z) := by
  letI := fieldNum K sq
  induction ps generalizing z with
  | nil => rfl
  | cons p ps ih =>
    have e : (val z : Opt K sq) + (liftMP2 sq p).shifted ((lift2 tc : V2 (Opt K sq)).sub (liftMP2 sq p).com)
        = val (z + p.shifted (tc.sub p.com)) := by
      simp only [optsimp, (defined_mp2_basic sq _ _ Iso2.identity).2.2.1]
    simp only [List.map_cons, List.foldl_cons]
    rw [e]
    exact ih _

private theorem sumInertia2_nonneg (ps : List (MP2 K)) (tc : V2 K) (z : K) (hz : 0 ≤ z)
    (h : ∀ p ∈ ps, 0 ≤ p.invMass) :
    letI := fieldNum K sq
    0 ≤ ps.foldl (fun ti p => ti + p.shifted (tc.sub p.com)) z := by
  letI := fieldNum K sq
  induction ps generalizing z with
  | nil => exact hz
  | cons p ps ih =>
    simp only [List.foldl_cons]
    exact ih _ (add_nonneg hz (shifted2_nonneg sq p _ (h p (List.mem_cons_self ..))))
      (fun q hq => h q (List.mem_cons_of_mem _ hq))

/-- **C20 (`Sum<MassProperties>`, 2-D)**: defined for every finite list (empty; all members massless: `total_mass = 0`
skips the division `total_com / total_mass`) of records with non-negative `inv_mass`. -/
theorem defined_mp2_sum (ps : List (MP2 K)) (h : ∀ p ∈ ps, 0 ≤ p.invMass) :
    letI := fieldNum K sq
    MP2.sum (ps.map (liftMP2 sq)) = liftMP2 sq (MP2.sum ps) := by
  letI := fieldNum K sq
  have e0 : ((0 : Opt K sq), (V2.zero : V2 (Opt K sq))) = ((val 0 : Opt K sq), lift2 V2.zero) := rfl
  simp only [MP2.sum]
  rw [e0, sumAcc2_lift]
  generalize ps.foldl MP2.sumAcc ((0 : K), V2.zero) = acc
  have e1 : (if (0 : Opt K sq) < val acc.1 then (lift2 acc.2 : V2 (Opt K sq)).sdiv (val acc.1) else lift2 acc.2)
      = lift2 (if 0 < acc.1 then acc.2.sdiv acc.1 else acc.2) := by
    simp only [optsimp]
    split_ifs with h1 h2
    · exact absurd h2 (ne_of_gt h1)
    · rfl
    · rfl
  rw [e1, show (0 : Opt K sq) = val 0 from rfl, sumInertia2_lift,
    val_sqrt_nonneg _ (sumInertia2_nonneg sq ps _ 0 le_rfl h)]
  simp only [optsimp]

/-! ### triangles -/
/-- the square-root operation is non-negative on non-negative arguments (half of `LawfulSqrt`) -/
def SqrtNonneg (sq : K → K) : Prop := ∀ x, 0 ≤ x → 0 ≤ sq x

private theorem lit_ne_zero (n : Int) (d : Nat) (hn : 0 < n) (hd : 0 < d) :
    letI := fieldNum K sq; (lit n d : K) ≠ 0 := ne_of_gt (lit_pos n d hn hd)

private theorem sort3_lift (a b c : K) :
    letI := fieldNum K sq
    sort3 (val a : Opt K sq) (val b) (val c) = (val (sort3 a b c).1, val (sort3 a b c).2.1, val (sort3 a b c).2.2) := by
  letI := fieldNum K sq
  simp only [sort3, optsimp]
  split_ifs <;> rfl

/-- **C20 (`Triangle::area`, `center`, `unit_angular_inertia`, 2-D)**: Kahan's formula takes `sqrt(max(·, 0))` of side
lengths that are norms; `1/3`, `1/6` are literals: defined for **every** triangle (collinear, two or three coincident
vertices). -/
theorem defined_triangle_area (t : Triangle2 K) :
    letI := fieldNum K sq
    triArea (liftTri2 sq t) = val (triArea t) ∧
    triCenter (liftTri2 sq t) = lift2 (triCenter t) ∧
    triUnitInertia (liftTri2 sq t) = val (triUnitInertia t) := by
  letI := fieldNum K sq
  have h3 : ((mkRat 3 1 : ℚ) : K) ≠ 0 := lit_ne_zero sq 3 1 (by decide) (by decide)
  have h6 : ((mkRat 6 1 : ℚ) : K) ≠ 0 := lit_ne_zero sq 6 1 (by decide) (by decide)
  refine ⟨?_, ?_, ?_⟩
  · have hm : ∀ x : K, ¬ (nmax x 0 < 0) := by
      intro x; simp only [nmax]; split_ifs with h
      · exact lt_irrefl 0
      · exact h
    simp only [triArea, liftTri2, optsimp, sort3_lift, if_neg (hm _), fieldNum_lit]
  · simp only [triCenter, liftTri2, optsimp, if_neg h3, fieldNum_lit]
  · simp only [triUnitInertia, liftTri2, optsimp, if_neg h6, fieldNum_lit]

private theorem triArea_nonneg (hq : SqrtNonneg sq) (t : Triangle2 K) : letI := fieldNum K sq; 0 ≤ triArea t := by
  letI := fieldNum K sq
  simp only [triArea]
  refine mul_nonneg (hq _ ?_) (lit_pos 1 4 (by decide) (by decide)).le
  simp only [nmax]; split_ifs with h
  · exact le_rfl
  · exact not_lt.mp h

private theorem lit3 : letI := fieldNum K sq; (lit 3 : K) = 3 := by
  letI := fieldNum K sq
  rw [fieldNum_lit]; norm_num
private theorem lit6 : letI := fieldNum K sq; (lit 6 : K) = 6 := by
  letI := fieldNum K sq
  rw [fieldNum_lit]; norm_num

/-- unit polar moment of a triangle about a point `q`, from the moment about vertex `a` and the centroid `g`
(what `meshTerm` computes; `q = g` is `fromTriangle`): always `≥ 0` -/
private theorem triIpart_nonneg (t : Triangle2 K) (q : V2 K) :
    letI := fieldNum K sq
    0 ≤ triUnitInertia t - ((triCenter t).sub t.a).normSq + ((triCenter t).sub q).normSq := by
  letI := fieldNum K sq
  have key : 0 ≤ triUnitInertia t - ((triCenter t).sub t.a).normSq := by
    obtain ⟨⟨ax, ay⟩, ⟨bx, by'⟩, ⟨cx, cy⟩⟩ := t
    simp only [triUnitInertia, triCenter, V2.sub, V2.add, V2.smul, V2.normSq, V2.dot, lit3, lit6]
    have e : (1 : K) / 6 * ((bx - ax) * (bx - ax) + (cx - ax) * (bx - ax) + (cx - ax) * (cx - ax) +
          ((by' - ay) * (by' - ay) + (cy - ay) * (by' - ay) + (cy - ay) * (cy - ay))) -
        ((ax * (1 / 3) + bx * (1 / 3) + cx * (1 / 3) - ax) * (ax * (1 / 3) + bx * (1 / 3) + cx * (1 / 3) - ax) +
          (ay * (1 / 3) + by' * (1 / 3) + cy * (1 / 3) - ay) * (ay * (1 / 3) + by' * (1 / 3) + cy * (1 / 3) - ay))
        = (((bx - ax) - (cx - ax) / 2) ^ 2 + 3 / 4 * (cx - ax) ^ 2
          + ((by' - ay) - (cy - ay) / 2) ^ 2 + 3 / 4 * (cy - ay) ^ 2) / 18 := by ring
    rw [e]; positivity
  exact add_nonneg key (normSq2_nonneg (sq := sq) _)

/-- **C20 (`MassProperties::from_triangle`)**: defined for every triangle — **zero-area ones included** (`area == 0`
returns the zero-mass record at the centroid, no division by the area anywhere) — and every density `≥ 0` (zero
included). -/
theorem defined_fromTriangle (hq : SqrtNonneg sq) (density : K) (hd : 0 ≤ density) (t : Triangle2 K) :
    letI := fieldNum K sq
    fromTriangle (val density : Opt K sq) (liftTri2 sq t) = liftMP2 sq (fromTriangle density t) := by
  letI := fieldNum K sq
  have hA := triArea_nonneg sq hq t
  have hI : 0 ≤ triUnitInertia t - ((triCenter t).sub t.a).normSq := by
    have := triIpart_nonneg sq t (triCenter t)
    have z : ((triCenter t).sub (triCenter t)).normSq = 0 := by simp [V2.sub, V2.normSq, V2.dot]
    rw [z, add_zero] at this; exact this
  have hp : 0 ≤ (triUnitInertia t - ((triCenter t).sub t.a).normSq) * triArea t * density :=
    mul_nonneg (mul_nonneg hI hA) hd
  have ta : (liftTri2 sq t).a = lift2 t.a := rfl
  simp only [fromTriangle, defined_triangle_area, ta, optsimp, defined_mp2_new sq _ _ _ (le_refl 0),
    defined_mp2_new sq _ _ _ hp]
  split_ifs <;> rfl

/-! ### convex polygons -/
def liftPair2 (e : V2 K × V2 K) : V2 (Opt K sq) × V2 (Opt K sq) := (lift2 e.1, lift2 e.2)

@[optsimp] private theorem liftTri2_mk (a b c : V2 K) :
    (⟨lift2 a, lift2 b, lift2 c⟩ : Triangle2 (Opt K sq)) = liftTri2 sq ⟨a, b, c⟩ := id rfl

private theorem triUnitInertia_nonneg (t : Triangle2 K) : letI := fieldNum K sq; 0 ≤ triUnitInertia t := by
  letI := fieldNum K sq
  obtain ⟨⟨ax, ay⟩, ⟨bx, by'⟩, ⟨cx, cy⟩⟩ := t
  simp only [triUnitInertia, V2.sub, lit6]
  have e : (1 : K) / 6 * ((bx - ax) * (bx - ax) + (cx - ax) * (bx - ax) + (cx - ax) * (cx - ax) +
        ((by' - ay) * (by' - ay) + (cy - ay) * (by' - ay) + (cy - ay) * (cy - ay)))
      = (((bx - ax) + (cx - ax) / 2) ^ 2 + 3 / 4 * (cx - ax) ^ 2
        + ((by' - ay) + (cy - ay) / 2) ^ 2 + 3 / 4 * (cy - ay) ^ 2) / 6 := by ring
  rw [e]; positivity

private theorem cyclicPairs_lift (first : V2 K) (vs : List (V2 K)) :
    cyclicPairs (lift2 first : V2 (Opt K sq)) (vs.map lift2) = (cyclicPairs first vs).map (liftPair2 sq) := by
  induction vs with
  | nil => rfl
  | cons x xs ih =>
    cases xs with
    | nil => rfl
    | cons y ys =>
      simp only [List.map_cons, cyclicPairs] at ih ⊢
      rw [ih]; rfl

private theorem polyAcc_lift (gc a : V2 K) (s : K) (e : V2 K × V2 K) :
    letI := fieldNum K sq
    polyAcc (lift2 gc : V2 (Opt K sq)) (lift2 a, val s) (liftPair2 sq e)
      = (lift2 (polyAcc gc (a, s) e).1, val (polyAcc gc (a, s) e).2) := by
  letI := fieldNum K sq
  have h3 : ((mkRat 3 1 : ℚ) : K) ≠ 0 := lit_ne_zero sq 3 1 (by decide) (by decide)
  simp only [polyAcc, liftPair2, optsimp, defined_triangle_area, if_neg h3, fieldNum_lit]

private theorem polyAccFold_lift (gc : V2 K) (es : List (V2 K × V2 K)) (a : V2 K) (s : K) :
    letI := fieldNum K sq
    (es.map (liftPair2 sq)).foldl (polyAcc (lift2 gc : V2 (Opt K sq))) (lift2 a, val s)
      = (lift2 (es.foldl (polyAcc gc) (a, s)).1, val (es.foldl (polyAcc gc) (a, s)).2) := by
  letI := fieldNum K sq
  induction es generalizing a s with
  | nil => rfl
  | cons e es ih =>
    simp only [List.map_cons, List.foldl_cons]
    rw [polyAcc_lift]
    exact ih _ _

private theorem sumV2_lift (vs : List (V2 K)) (a : V2 K) :
    letI := fieldNum K sq
    (vs.map lift2).foldl V2.add (lift2 a : V2 (Opt K sq)) = lift2 (vs.foldl V2.add a) := by
  letI := fieldNum K sq
  induction vs generalizing a with
  | nil => rfl
  | cons v vs ih =>
    simp only [List.map_cons, List.foldl_cons]
    exact ih (a.add v)

/-- **C20 (vertex average of `convex_polygon_area_and_center_of_mass`)**: the divisor is the vertex count of a
non-empty list. -/
theorem defined_polyGc (vs : List (V2 K)) (hne : vs ≠ []) :
    letI := fieldNum K sq
    polyGc (vs.map lift2 : List (V2 (Opt K sq))) = lift2 (polyGc vs) := by
  letI := fieldNum K sq
  have hn : ((vs.length : ℚ) : K) ≠ 0 := by
    have : 0 < vs.length := List.length_pos_of_ne_nil hne
    have : (0 : K) < ((vs.length : ℚ) : K) := by exact_mod_cast this
    exact ne_of_gt this
  simp only [polyGc, List.length_map]
  rw [show (V2.zero : V2 (Opt K sq)) = lift2 V2.zero from rfl, sumV2_lift]
  simp only [optsimp, if_neg hn]
  rfl

/-- **C20 (`convex_polygon_area_and_center_of_mass`, after the vertex average)**: `res / areasum` only when `areasum
!= 0`: defined for every finite chain — zero-area polygons (all points collinear or equal) return the vertex average.
-/
theorem defined_polyAreaComCore (gc : V2 K) (es : List (V2 K × V2 K)) :
    letI := fieldNum K sq
    polyAreaComCore (lift2 gc : V2 (Opt K sq)) (es.map (liftPair2 sq))
      = (val (polyAreaComCore gc es).1, lift2 (polyAreaComCore gc es).2) := by
  letI := fieldNum K sq
  simp only [polyAreaComCore]
  rw [show ((V2.zero : V2 (Opt K sq)), (0 : Opt K sq)) = (lift2 V2.zero, val 0) from rfl, polyAccFold_lift]
  generalize es.foldl (polyAcc gc) (V2.zero, 0) = acc
  simp only [optsimp]
  opt_steps

private theorem polyItot_lift (com : V2 K) (es : List (V2 K × V2 K)) (z : K) :
    letI := fieldNum K sq
    (es.map (liftPair2 sq)).foldl (fun (itot : Opt K sq) e =>
        itot + triUnitInertia ⟨lift2 com, e.1, e.2⟩ * triArea ⟨lift2 com, e.1, e.2⟩) (val z)
      = val (es.foldl (fun itot e => itot + triUnitInertia ⟨com, e.1, e.2⟩ * triArea ⟨com, e.1, e.2⟩) z) := by
  letI := fieldNum K sq
  induction es generalizing z with
  | nil => rfl
  | cons e es ih =>
    have h : (val z : Opt K sq) + triUnitInertia ⟨lift2 com, (liftPair2 sq e).1, (liftPair2 sq e).2⟩
          * triArea ⟨lift2 com, (liftPair2 sq e).1, (liftPair2 sq e).2⟩
        = val (z + triUnitInertia ⟨com, e.1, e.2⟩ * triArea ⟨com, e.1, e.2⟩) := by
      simp only [liftPair2, optsimp, defined_triangle_area]
    simp only [List.map_cons, List.foldl_cons]
    rw [h]
    exact ih _

private theorem polyItot_nonneg (hq : SqrtNonneg sq) (com : V2 K) (es : List (V2 K × V2 K)) (z : K) (hz : 0 ≤ z) :
    letI := fieldNum K sq
    0 ≤ es.foldl (fun itot e => itot + triUnitInertia ⟨com, e.1, e.2⟩ * triArea ⟨com, e.1, e.2⟩) z := by
  letI := fieldNum K sq
  induction es generalizing z with
  | nil => exact hz
  | cons e es ih =>
    simp only [List.foldl_cons]
    exact ih _ (add_nonneg hz (mul_nonneg (triUnitInertia_nonneg sq _) (triArea_nonneg sq hq _)))

/-- **C20 (body of `from_convex_polygon`)**: zero area returns the zero-mass record; otherwise the inertia is a sum of
non-negative terms times the density. -/
theorem defined_fromConvexPolygonCore (hq : SqrtNonneg sq) (density : K) (hd : 0 ≤ density)
    (area : K) (com : V2 K) (es : List (V2 K × V2 K)) :
    letI := fieldNum K sq
    fromConvexPolygonCore (val density : Opt K sq) (val area, lift2 com) (es.map (liftPair2 sq))
      = liftMP2 sq (fromConvexPolygonCore density (area, com) es) := by
  letI := fieldNum K sq
  have hp : 0 ≤ polyItot com es * density := mul_nonneg (polyItot_nonneg sq hq com es 0 le_rfl) hd
  have hI : polyItot (lift2 com : V2 (Opt K sq)) (es.map (liftPair2 sq)) = val (polyItot com es) := by
    simp only [polyItot]
    exact polyItot_lift sq com es 0
  simp only [fromConvexPolygonCore, hI, optsimp, defined_mp2_new sq _ _ _ (le_refl 0), defined_mp2_new sq _ _ _ hp]
  split_ifs <;> rfl

/-- **C20 (`convex_polygon_area_and_center_of_mass`, `MassProperties::from_convex_polygon`)**: defined for every
finite vertex list — empty (`none` = the `unwrap` panic), a single point, collinear points, repeated vertices, zero
area — and every density `≥ 0`. -/
theorem defined_fromConvexPolygon (hq : SqrtNonneg sq) (density : K) (hd : 0 ≤ density) (vs : List (V2 K)) :
    letI := fieldNum K sq
    polyAreaCom (vs.map lift2 : List (V2 (Opt K sq)))
      = (polyAreaCom vs).map (fun r => ((val r.1 : Opt K sq), lift2 r.2)) ∧
    fromConvexPolygon (val density : Opt K sq) (vs.map lift2) = (fromConvexPolygon density vs).map (liftMP2 sq) := by
  letI := fieldNum K sq
  cases vs with
  | nil => exact ⟨rfl, rfl⟩
  | cons first rest =>
    have hg := defined_polyGc sq (first :: rest) (List.cons_ne_nil _ _)
    have hc := cyclicPairs_lift sq first (first :: rest)
    simp only [List.map_cons] at hg hc
    constructor
    · simp only [polyAreaCom, List.map_cons, hg, hc, defined_polyAreaComCore, optsimp]
    · simp only [fromConvexPolygon, List.map_cons, hg, hc, defined_polyAreaComCore,
        defined_fromConvexPolygonCore sq hq density hd, optsimp]

/-! ### 2-D triangle meshes -/
private theorem resolveTris_lift (vs : Array (V2 K)) (idx : List (Nat × Nat × Nat)) :
    resolveTris (vs.map lift2 : Array (V2 (Opt K sq))) idx = (resolveTris vs idx).map (List.map (liftTri2 sq)) := by
  induction idx with
  | nil => rfl
  | cons t rest ih =>
    obtain ⟨i, j, k⟩ := t
    simp only [resolveTris, Array.getElem?_map, ih]
    cases vs[i]? <;> cases vs[j]? <;> cases vs[k]? <;> try rfl
    cases resolveTris vs rest <;> rfl

private theorem meshAcc_lift (ts : List (Triangle2 K)) (a : V2 K) (s : K) :
    letI := fieldNum K sq
    (ts.map (liftTri2 sq)).foldl meshAcc ((lift2 a : V2 (Opt K sq)), val s)
      = (lift2 (ts.foldl meshAcc (a, s)).1, val (ts.foldl meshAcc (a, s)).2) := by
  letI := fieldNum K sq
  induction ts generalizing a s with
  | nil => rfl
  | cons t ts ih =>
    have h : meshAcc ((lift2 a : V2 (Opt K sq)), val s) (liftTri2 sq t)
        = (lift2 (meshAcc (a, s) t).1, val (meshAcc (a, s) t).2) := by
      simp only [meshAcc, optsimp, defined_triangle_area]
    simp only [List.map_cons, List.foldl_cons]
    rw [h]
    exact ih _ _

/-- **C20 (`trimesh_area_and_center_of_mass`, 2-D)**: the division by the area sum is guarded by `areasum == 0`:
defined for every finite triangle list (empty, all degenerate). -/
theorem defined_meshAreaCom (ts : List (Triangle2 K)) :
    letI := fieldNum K sq
    meshAreaCom (ts.map (liftTri2 sq)) = ((val (meshAreaCom ts).1 : Opt K sq), lift2 (meshAreaCom ts).2) := by
  letI := fieldNum K sq
  simp only [meshAreaCom]
  rw [show ((V2.zero : V2 (Opt K sq)), (0 : Opt K sq)) = (lift2 V2.zero, val 0) from rfl, meshAcc_lift]
  generalize ts.foldl meshAcc (V2.zero, 0) = acc
  simp only [optsimp]
  opt_steps

private theorem meshTerm_lift (com : V2 K) (t : Triangle2 K) :
    letI := fieldNum K sq
    meshTerm (lift2 com : V2 (Opt K sq)) (liftTri2 sq t) = val (meshTerm com t) := by
  letI := fieldNum K sq
  have ta : (liftTri2 sq t).a = lift2 t.a := rfl
  simp only [meshTerm, defined_triangle_area, ta, optsimp]

private theorem meshItot_lift (com : V2 K) (ts : List (Triangle2 K)) (z : K) :
    letI := fieldNum K sq
    (ts.map (liftTri2 sq)).foldl (fun (itot : Opt K sq) t => itot + meshTerm (lift2 com) t) (val z)
      = val (ts.foldl (fun itot t => itot + meshTerm com t) z) := by
  letI := fieldNum K sq
  induction ts generalizing z with
  | nil => rfl
  | cons t ts ih =>
    simp only [List.map_cons, List.foldl_cons]
    rw [meshTerm_lift, val_add]
    exact ih _

private theorem meshItot_nonneg (hq : SqrtNonneg sq) (com : V2 K) (ts : List (Triangle2 K)) (z : K) (hz : 0 ≤ z) :
    letI := fieldNum K sq
    0 ≤ ts.foldl (fun itot t => itot + meshTerm com t) z := by
  letI := fieldNum K sq
  induction ts generalizing z with
  | nil => exact hz
  | cons t ts ih =>
    simp only [List.foldl_cons]
    exact ih _ (add_nonneg hz (mul_nonneg (triIpart_nonneg sq t com) (triArea_nonneg sq hq t)))

private theorem meshItotP_lift (ts : List (Triangle2 K)) (z : K) :
    letI := fieldNum K sq
    (ts.map (liftTri2 sq)).foldl (fun (itot : Opt K sq) t => itot + triUnitInertia t * triArea t) (val z)
      = val (ts.foldl (fun itot t => itot + triUnitInertia t * triArea t) z) := by
  letI := fieldNum K sq
  induction ts generalizing z with
  | nil => rfl
  | cons t ts ih =>
    have h : (val z : Opt K sq) + triUnitInertia (liftTri2 sq t) * triArea (liftTri2 sq t)
        = val (z + triUnitInertia t * triArea t) := by
      simp only [defined_triangle_area, optsimp]
    simp only [List.map_cons, List.foldl_cons]
    rw [h]
    exact ih _

private theorem meshItotP_nonneg (hq : SqrtNonneg sq) (ts : List (Triangle2 K)) (z : K) (hz : 0 ≤ z) :
    letI := fieldNum K sq
    0 ≤ ts.foldl (fun itot t => itot + triUnitInertia t * triArea t) z := by
  letI := fieldNum K sq
  induction ts generalizing z with
  | nil => exact hz
  | cons t ts ih =>
    simp only [List.foldl_cons]
    exact ih _ (add_nonneg hz (mul_nonneg (triUnitInertia_nonneg sq t) (triArea_nonneg sq hq t)))

/-- **C20 (`MassProperties::from_trimesh`, 2-D; corrected and pinned loops; index resolution)**: defined for every
finite mesh — **degenerate / zero-area triangles, empty meshes, zero total area** — and every density `≥ 0`; an
out-of-bounds index is the model's `none` on both sides. -/
theorem defined_fromTrimesh (hq : SqrtNonneg sq) (density : K) (hd : 0 ≤ density)
    (ts : List (Triangle2 K)) (vs : Array (V2 K)) (idx : List (Nat × Nat × Nat)) :
    letI := fieldNum K sq
    fromTrimeshTris (val density : Opt K sq) (ts.map (liftTri2 sq)) = liftMP2 sq (fromTrimeshTris density ts) ∧
    fromTrimeshTrisPinned (val density : Opt K sq) (ts.map (liftTri2 sq))
      = liftMP2 sq (fromTrimeshTrisPinned density ts) ∧
    fromTrimesh (val density : Opt K sq) (vs.map lift2) idx = (fromTrimesh density vs idx).map (liftMP2 sq) := by
  letI := fieldNum K sq
  have h1 : ∀ ts : List (Triangle2 K),
      fromTrimeshTris (val density : Opt K sq) (ts.map (liftTri2 sq)) = liftMP2 sq (fromTrimeshTris density ts) := by
    intro ts
    have hp : 0 ≤ ts.foldl (fun itot t => itot + meshTerm (meshAreaCom ts).2 t) 0 * density :=
      mul_nonneg (meshItot_nonneg sq hq _ ts 0 le_rfl) hd
    simp only [fromTrimeshTris, defined_meshAreaCom]
    rw [show (0 : Opt K sq) = val 0 from rfl, meshItot_lift]
    simp only [optsimp, defined_mp2_new sq _ _ _ (le_refl 0), defined_mp2_new sq _ _ _ hp]
    split_ifs <;> rfl
  refine ⟨h1 ts, ?_, ?_⟩
  · have hp : 0 ≤ ts.foldl (fun itot t => itot + triUnitInertia t * triArea t) 0 * density :=
      mul_nonneg (meshItotP_nonneg sq hq ts 0 le_rfl) hd
    simp only [fromTrimeshTrisPinned, defined_meshAreaCom]
    rw [show (0 : Opt K sq) = val 0 from rfl, meshItotP_lift]
    simp only [optsimp, defined_mp2_new sq _ _ _ (le_refl 0), defined_mp2_new sq _ _ _ hp]
    split_ifs <;> rfl
  · simp only [fromTrimesh, resolveTris_lift]
    cases resolveTris vs idx with
    | none => rfl
    | some l => simp only [optsimp, h1]

/-! ### 2-D closed forms -/
private theorem two_eq : letI := fieldNum K sq; (two : K) = 2 := fieldNum_two sq

/-- **C20 (`from_ball`, 2-D)**: radius of any sign, **zero radius and zero density included**; `π ≥ 0`, density `≥ 0`.
-/
theorem defined_fromBall2 (pi density radius : K) (hpi : 0 ≤ pi) (hd : 0 ≤ density) :
    letI := fieldNum K sq
    fromBall2 (val pi : Opt K sq) (val density) (val radius) = liftMP2 sq (fromBall2 pi density radius) := by
  letI := fieldNum K sq
  have h2 : (two : K) ≠ 0 := by rw [two_eq]; norm_num
  have hp : 0 ≤ radius * radius / two * (pi * radius * radius * density) := by
    rw [two_eq]
    have : pi * radius * radius * density = pi * density * (radius * radius) := by ring
    rw [this]
    exact mul_nonneg (div_nonneg (mul_self_nonneg _) (by norm_num))
      (mul_nonneg (mul_nonneg hpi hd) (mul_self_nonneg _))
  simp only [fromBall2, ballVolInertia2, optsimp, if_neg h2, defined_mp2_new sq _ _ _ hp]

/-- **C20 (`from_cuboid`, 2-D)**: non-negative half-extents and density, **zeros included** (a segment or a point:
zero mass, `inv` returns `0`). -/
theorem defined_fromCuboid2 (density : K) (he : V2 K) (hd : 0 ≤ density) (hx : 0 ≤ he.x) (hy : 0 ≤ he.y) :
    letI := fieldNum K sq
    fromCuboid2 (val density : Opt K sq) (lift2 he) = liftMP2 sq (fromCuboid2 density he) := by
  letI := fieldNum K sq
  have h3 : ((mkRat 3 1 : ℚ) : K) ≠ 0 := lit_ne_zero sq 3 1 (by decide) (by decide)
  have h3p : (0 : K) < ((mkRat 3 1 : ℚ) : K) := lit_pos 3 1 (by decide) (by decide)
  have h4p : (0 : K) < ((mkRat 4 1 : ℚ) : K) := lit_pos 4 1 (by decide) (by decide)
  have hp : 0 ≤ (he.x * he.x / ((mkRat 3 1 : ℚ) : K) + he.y * he.y / ((mkRat 3 1 : ℚ) : K))
      * (he.x * he.y * ((mkRat 4 1 : ℚ) : K) * density) :=
    mul_nonneg (add_nonneg (div_nonneg (mul_self_nonneg _) h3p.le) (div_nonneg (mul_self_nonneg _) h3p.le))
      (mul_nonneg (mul_nonneg (mul_nonneg hx hy) h4p.le) hd)
  simp only [fromCuboid2, cuboidVolInertia2, optsimp, if_neg h3, fieldNum_lit, defined_mp2_new sq _ _ _ hp]

/-- **C20 (`from_capsule`, 2-D; corrected and pinned formula)**: non-negative radius and density, `π > 0` (the
corrected half-disc offset divides by `3π`): **zero-length capsules (`a = b`), zero radius (a segment), zero density
included**. -/
theorem defined_fromCapsule2 (hq : SqrtNonneg sq) (pi density : K) (a b : V2 K) (radius : K)
    (hpi : 0 < pi) (hd : 0 ≤ density) (hr : 0 ≤ radius) :
    letI := fieldNum K sq
    fromCapsule2 (val pi : Opt K sq) (val density) (lift2 a) (lift2 b) (val radius)
      = liftMP2 sq (fromCapsule2 pi density a b radius) ∧
    fromCapsule2Pinned (val pi : Opt K sq) (val density) (lift2 a) (lift2 b) (val radius)
      = liftMP2 sq (fromCapsule2Pinned pi density a b radius) := by
  letI := fieldNum K sq
  have h2 : (two : K) ≠ 0 := by rw [two_eq]; norm_num
  have h2p : (0 : K) < two := by rw [two_eq]; norm_num
  have h3 : ((mkRat 3 1 : ℚ) : K) ≠ 0 := lit_ne_zero sq 3 1 (by decide) (by decide)
  have h8 : ((mkRat 8 1 : ℚ) : K) ≠ 0 := lit_ne_zero sq 8 1 (by decide) (by decide)
  have h3p : (0 : K) < ((mkRat 3 1 : ℚ) : K) := lit_pos 3 1 (by decide) (by decide)
  have h4p : (0 : K) < ((mkRat 4 1 : ℚ) : K) := lit_pos 4 1 (by decide) (by decide)
  have h8p : (0 : K) < ((mkRat 8 1 : ℚ) : K) := lit_pos 8 1 (by decide) (by decide)
  have h14p : (0 : K) < ((mkRat 1 4 : ℚ) : K) := lit_pos 1 4 (by decide) (by decide)
  have h3pi : ((mkRat 3 1 : ℚ) : K) * pi ≠ 0 := mul_ne_zero h3 (ne_of_gt hpi)
  have hn : 0 ≤ (b.sub a).norm := hq _ (normSq2_nonneg (sq := sq) _)
  generalize hN : (b.sub a).norm = n at hn
  have hh : 0 ≤ n / two := div_nonneg hn h2p.le
  constructor
  · simp only [fromCapsule2, cuboidVolInertia2, ballVolInertia2, optsimp, hN, if_neg h2, if_neg h3, if_neg h3pi,
      fieldNum_lit]
    rw [defined_mp2_new sq]
    · have := mul_pos h3p hpi
      generalize ((mkRat 3 1 : ℚ) : K) = c3 at *
      generalize ((mkRat 4 1 : ℚ) : K) = c4 at *
      generalize ((mkRat 8 1 : ℚ) : K) = c8 at *
      generalize ((mkRat 1 4 : ℚ) : K) = c14 at *
      generalize (two : K) = t2 at *
      positivity
  · simp only [fromCapsule2Pinned, cuboidVolInertia2, ballVolInertia2, optsimp, hN, if_neg h2, if_neg h3, if_neg h8,
      fieldNum_lit]
    rw [defined_mp2_new sq]
    · generalize ((mkRat 3 1 : ℚ) : K) = c3 at *
      generalize ((mkRat 4 1 : ℚ) : K) = c4 at *
      generalize ((mkRat 8 1 : ℚ) : K) = c8 at *
      generalize ((mkRat 1 4 : ℚ) : K) = c14 at *
      generalize (two : K) = t2 at *
      positivity

/-- **C20 (`from_compound`, 2-D)**: the sum of the transformed parts: defined for every list of parts with
non-negative `inv_mass` (massless parts, empty compound). -/
theorem defined_fromCompound2 (parts : List (Iso2 K × MP2 K)) (h : ∀ s ∈ parts, 0 ≤ s.2.invMass) :
    letI := fieldNum K sq
    fromCompound2 (parts.map fun s => ((liftIso2 s.1 : Iso2 (Opt K sq)), liftMP2 sq s.2))
      = liftMP2 sq (fromCompound2 parts) := by
  letI := fieldNum K sq
  have e : (parts.map fun s => ((liftIso2 s.1 : Iso2 (Opt K sq)), liftMP2 sq s.2)).map
        (fun s => s.2.transformBy s.1)
      = (parts.map fun s => s.2.transformBy s.1).map (liftMP2 sq) := by
    simp only [List.map_map]
    apply List.map_congr_left
    intro s _
    simp only [Function.comp, (defined_mp2_basic sq _ V2.zero _).2.2.2.1]
  simp only [fromCompound2]
  rw [e, defined_mp2_sum]
  intro p hp
  obtain ⟨s, hs, rfl⟩ := List.mem_map.mp hp
  exact h s hs

/-! ### 3-D -/
def liftM3 (a : M3 K) : M3 (Opt K sq) := ⟨lift3 a.r0, lift3 a.r1, lift3 a.r2⟩
def liftQuat (q : Quat K) : Quat (Opt K sq) := ⟨val q.i, val q.j, val q.k, val q.w⟩
def liftMP3 (p : MP3 K) : MP3 (Opt K sq) := ⟨lift3 p.com, val p.invMass, lift3 p.invI, liftQuat sq p.frame⟩
def liftObs (o : K × V3 K × M3 K) : Opt K sq × V3 (Opt K sq) × M3 (Opt K sq) := (val o.1, lift3 o.2.1, liftM3 sq o.2.2)

@[optsimp] private theorem liftM3_mk (a b c : V3 K) :
    (⟨lift3 a, lift3 b, lift3 c⟩ : M3 (Opt K sq)) = liftM3 sq ⟨a, b, c⟩ := id rfl
@[optsimp] private theorem liftM3_r0 (a : M3 K) : (liftM3 sq a).r0 = lift3 a.r0 := id rfl
@[optsimp] private theorem liftM3_r1 (a : M3 K) : (liftM3 sq a).r1 = lift3 a.r1 := id rfl
@[optsimp] private theorem liftM3_r2 (a : M3 K) : (liftM3 sq a).r2 = lift3 a.r2 := id rfl
@[optsimp] private theorem liftQuat_mk (a b c d : K) :
    (⟨val a, val b, val c, val d⟩ : Quat (Opt K sq)) = liftQuat sq ⟨a, b, c, d⟩ := id rfl
@[optsimp] private theorem liftQuat_i (q : Quat K) : (liftQuat sq q).i = val q.i := id rfl
@[optsimp] private theorem liftQuat_j (q : Quat K) : (liftQuat sq q).j = val q.j := id rfl
@[optsimp] private theorem liftQuat_k (q : Quat K) : (liftQuat sq q).k = val q.k := id rfl
@[optsimp] private theorem liftQuat_w (q : Quat K) : (liftQuat sq q).w = val q.w := id rfl
@[optsimp] private theorem liftMP3_mk (c : V3 K) (m : K) (i : V3 K) (f : Quat K) :
    (⟨lift3 c, val m, lift3 i, liftQuat sq f⟩ : MP3 (Opt K sq)) = liftMP3 sq ⟨c, m, i, f⟩ := id rfl
@[optsimp] private theorem liftMP3_com (p : MP3 K) : (liftMP3 sq p).com = lift3 p.com := id rfl
@[optsimp] private theorem liftMP3_invMass (p : MP3 K) : (liftMP3 sq p).invMass = val p.invMass := id rfl
@[optsimp] private theorem liftMP3_invI (p : MP3 K) : (liftMP3 sq p).invI = lift3 p.invI := id rfl
@[optsimp] private theorem liftMP3_frame (p : MP3 K) : (liftMP3 sq p).frame = liftQuat sq p.frame := id rfl

section M3
variable (a b : M3 K) (v : V3 K) (s : K) (q r : Quat K)
@[optsimp] private theorem liftM3_mul : letI := fieldNum K sq;
    (liftM3 sq a).mul (liftM3 sq b) = liftM3 sq (a.mul b) := id rfl
@[optsimp] private theorem liftM3_add : letI := fieldNum K sq;
    (liftM3 sq a).add (liftM3 sq b) = liftM3 sq (a.add b) := id rfl
@[optsimp] private theorem liftM3_sub : letI := fieldNum K sq;
    (liftM3 sq a).sub (liftM3 sq b) = liftM3 sq (a.sub b) := id rfl
@[optsimp] private theorem liftM3_smul : letI := fieldNum K sq;
    (liftM3 sq a).smul (val s) = liftM3 sq (a.smul s) := id rfl
@[optsimp] private theorem liftM3_diag : letI := fieldNum K sq;
    M3.diag (lift3 v : V3 (Opt K sq)) = liftM3 sq (M3.diag v) := id rfl
@[optsimp] private theorem liftM3_zero : letI := fieldNum K sq;
    (M3.zero : M3 (Opt K sq)) = liftM3 sq M3.zero := id rfl
@[optsimp] private theorem liftM3_outer : letI := fieldNum K sq;
    M3.outer (lift3 v : V3 (Opt K sq)) = liftM3 sq (M3.outer v) := id rfl
@[optsimp] private theorem liftQuat_identity : letI := fieldNum K sq;
    (Quat.identity : Quat (Opt K sq)) = liftQuat sq Quat.identity := id rfl
@[optsimp] private theorem liftQuat_inverse : letI := fieldNum K sq;
    (liftQuat sq q).inverse = liftQuat sq q.inverse := id rfl
@[optsimp] private theorem liftQuat_toMat : letI := fieldNum K sq;
    (liftQuat sq q).toMat = liftM3 sq q.toMat := id rfl
@[optsimp] private theorem liftQuat_mul : letI := fieldNum K sq;
    (liftQuat sq q).mul (liftQuat sq r) = liftQuat sq (q.mul r) := id rfl
end M3

/-- **C20 (`MassProperties::with_principal_inertia_frame`, `new`, 3-D)**: defined for every mass and every principal
inertia vector with non-negative components (**zeros included**). -/
theorem defined_mp3_withFrame (com : V3 K) (mass : K) (pi : V3 K) (frame : Quat K)
    (hx : 0 ≤ pi.x) (hy : 0 ≤ pi.y) (hz : 0 ≤ pi.z) :
    letI := fieldNum K sq
    MP3.withFrame (lift3 com : V3 (Opt K sq)) (val mass) (lift3 pi) (liftQuat sq frame)
      = liftMP3 sq (MP3.withFrame com mass pi frame) ∧
    MP3.new (lift3 com : V3 (Opt K sq)) (val mass) (lift3 pi) = liftMP3 sq (MP3.new com mass pi) := by
  letI := fieldNum K sq
  have h : ∀ f : Quat K, MP3.withFrame (lift3 com : V3 (Opt K sq)) (val mass) (lift3 pi) (liftQuat sq f)
      = liftMP3 sq (MP3.withFrame com mass pi f) := by
    intro f
    simp only [MP3.withFrame, optsimp, if_neg (not_lt.mpr hx), if_neg (not_lt.mpr hy), if_neg (not_lt.mpr hz)]
  refine ⟨h frame, ?_⟩
  simp only [MP3.new, optsimp, h]

/-- **C20 (3-D `mass`, `principal_inertia`, `reconstruct_inertia_matrix`, `construct_shifted_inertia_matrix`,
`transform_by`, `is_zero`, the observable triple, `zero`)**: only `inv` and the guarded `1 / inv_mass`: defined for
every finite record and pose. -/
theorem defined_mp3_basic (p : MP3 K) (shift : V3 K) (m : Iso3 K) :
    letI := fieldNum K sq
    (liftMP3 sq p).mass = val p.mass ∧
    (liftMP3 sq p).principalInertia = lift3 p.principalInertia ∧
    (liftMP3 sq p).reconstruct = liftM3 sq p.reconstruct ∧
    (liftMP3 sq p).shifted (lift3 shift) = liftM3 sq (p.shifted shift) ∧
    (liftMP3 sq p).transformBy (liftIso3 m) = liftMP3 sq (p.transformBy m) ∧
    (liftMP3 sq p).isZero = p.isZero ∧
    (liftMP3 sq p).observe = liftObs sq p.observe ∧
    (MP3.zero : MP3 (Opt K sq)) = liftMP3 sq MP3.zero := by
  letI := fieldNum K sq
  have hm : (liftMP3 sq p).mass = val p.mass := by simp only [MP3.mass, optsimp]
  have hpi : (liftMP3 sq p).principalInertia = lift3 p.principalInertia := by
    simp only [MP3.principalInertia, optsimp]
  have hr : (liftMP3 sq p).reconstruct = liftM3 sq p.reconstruct := by
    simp only [MP3.reconstruct, hpi, optsimp]
  refine ⟨hm, hpi, hr, ?_, ?_, ?_, ?_, rfl⟩
  · simp only [MP3.shifted, hr, optsimp]
    opt_steps
  · simp only [MP3.transformBy, optsimp]
  · simp only [MP3.isZero, optsimp]
  · simp only [MP3.observe, hm, hr, optsimp, liftObs]

@[optsimp] private theorem liftObs_mk (m : K) (c : V3 K) (i : M3 K) :
    (((val m : Opt K sq), (lift3 c : V3 (Opt K sq)), liftM3 sq i)) = liftObs sq (m, c, i) := id rfl

/-- **C20 (`+`, `-` of 3-D mass properties, up to `with_inertia_matrix`)**: the `(mass, com, inertia matrix)` handed
to the eigen-decomposition is defined for **every** pair of finite records — zero-mass members, `m1 = m2`, `m1 < m2`
(clamped) — without any hypothesis (no square root on this path). -/
theorem defined_mp3_add_sub (a b : MP3 K) :
    letI := fieldNum K sq
    (liftMP3 sq a).addRaw (liftMP3 sq b) = (a.addRaw b).map (liftObs sq) ∧
    (liftMP3 sq a).addObs (liftMP3 sq b) = liftObs sq (a.addObs b) ∧
    (liftMP3 sq a).subObs (liftMP3 sq b) = liftObs sq (a.subObs b) := by
  letI := fieldNum K sq
  have hsh : ∀ (p : MP3 K) (s : V3 K), (liftMP3 sq p).shifted (lift3 s) = liftM3 sq (p.shifted s) :=
    fun p s => (defined_mp3_basic sq p s Iso3.identity).2.2.2.1
  have hz : ∀ p : MP3 K, (liftMP3 sq p).isZero = p.isZero := fun p => (defined_mp3_basic sq p V3.zero Iso3.identity).2.2.2.2.2.1
  have hob : ∀ p : MP3 K, (liftMP3 sq p).observe = liftObs sq p.observe :=
    fun p => (defined_mp3_basic sq p V3.zero Iso3.identity).2.2.2.2.2.2.1
  have h1 : (liftMP3 sq a).addRaw (liftMP3 sq b) = (a.addRaw b).map (liftObs sq) := by
    simp only [MP3.addRaw, hz, hsh, optsimp]
    split_ifs <;> rfl
  refine ⟨h1, ?_, ?_⟩
  · simp only [MP3.addObs, h1, hz, hob]
    cases a.addRaw b with
    | none => simp only [optsimp]; split_ifs <;> rfl
    | some r =>
      obtain ⟨m, c, i⟩ := r
      change ((Mass.inv (Mass.inv (val m)) : Opt K sq), (lift3 c : V3 (Opt K sq)), liftM3 sq i) = _
      simp only [optsimp]
  · simp only [MP3.subObs, hz, hob, hsh, optsimp, val_ite]
    split_ifs <;> rfl

private theorem sumAcc3_lift (ps : List (MP3 K)) (m : K) (c : V3 K) :
    letI := fieldNum K sq
    (ps.map (liftMP3 sq)).foldl MP3.sumAcc ((val m : Opt K sq), lift3 c)
      = (val (ps.foldl MP3.sumAcc (m, c)).1, lift3 (ps.foldl MP3.sumAcc (m, c)).2) := by
  letI := fieldNum K sq
  induction ps generalizing m c with
  | nil => rfl
  | cons p ps ih =>
    have e : MP3.sumAcc ((val m : Opt K sq), lift3 c) (liftMP3 sq p)
        = (val (MP3.sumAcc (m, c) p).1, lift3 (MP3.sumAcc (m, c) p).2) := by
      simp only [MP3.sumAcc, optsimp]
    simp only [List.map_cons, List.foldl_cons]
    rw [e]
    exact ih _ _

private theorem sumInertia3_lift (ps : List (MP3 K)) (tc : V3 K) (z : M3 K) :
    letI := fieldNum K sq
    (ps.map (liftMP3 sq)).foldl (fun (ti : M3 (Opt K sq)) p => ti.add (p.shifted ((lift3 tc : V3 (Opt K sq)).sub p.com)))
        (liftM3 sq z)
      = liftM3 sq (ps.foldl (fun ti p => ti.add (p.shifted (tc.sub p.com))) z) := by
  letI := fieldNum K sq
  induction ps generalizing z with
  | nil => rfl
  | cons p ps ih =>
    have e : (liftM3 sq z).add ((liftMP3 sq p).shifted ((lift3 tc : V3 (Opt K sq)).sub (liftMP3 sq p).com))
        = liftM3 sq (z.add (p.shifted (tc.sub p.com))) := by
      simp only [optsimp, (defined_mp3_basic sq _ _ Iso3.identity).2.2.2.1]
    simp only [List.map_cons, List.foldl_cons]
    rw [e]
    exact ih _

/-- **C20 (`Sum` of 3-D mass properties, up to `with_inertia_matrix`)**: defined for every finite list (empty, all
massless: the division by the total mass is guarded by `total_mass > 0`). -/
theorem defined_mp3_sum (ps : List (MP3 K)) :
    letI := fieldNum K sq
    MP3.sumObs (ps.map (liftMP3 sq)) = liftObs sq (MP3.sumObs ps) := by
  letI := fieldNum K sq
  have e0 : ((0 : Opt K sq), (V3.zero : V3 (Opt K sq))) = ((val 0 : Opt K sq), lift3 V3.zero) := rfl
  simp only [MP3.sumObs]
  rw [e0, sumAcc3_lift]
  generalize ps.foldl MP3.sumAcc ((0 : K), V3.zero) = acc
  have e1 : (if (0 : Opt K sq) < val acc.1 then (lift3 acc.2 : V3 (Opt K sq)).sdiv (val acc.1) else lift3 acc.2)
      = lift3 (if 0 < acc.1 then acc.2.sdiv acc.1 else acc.2) := by
    simp only [optsimp]
    split_ifs with h1 h2
    · exact absurd h2 (ne_of_gt h1)
    · rfl
    · rfl
  rw [e1, show (M3.zero : M3 (Opt K sq)) = liftM3 sq M3.zero from rfl, sumInertia3_lift]
  simp only [optsimp]

/-! ### 3-D closed forms -/
private theorem mp3_new_lift (com : V3 K) (mass : K) (pi : V3 K)
    (hx : 0 ≤ pi.x) (hy : 0 ≤ pi.y) (hz : 0 ≤ pi.z) :
    letI := fieldNum K sq
    MP3.new (lift3 com : V3 (Opt K sq)) (val mass) (lift3 pi) = liftMP3 sq (MP3.new com mass pi) :=
  (defined_mp3_withFrame sq com mass pi (@Quat.identity K (fieldNum K sq)) hx hy hz).2
private theorem mp3_withFrame_lift (com : V3 K) (mass : K) (pi : V3 K) (f : Quat K)
    (hx : 0 ≤ pi.x) (hy : 0 ≤ pi.y) (hz : 0 ≤ pi.z) :
    letI := fieldNum K sq
    MP3.withFrame (lift3 com : V3 (Opt K sq)) (val mass) (lift3 pi) (liftQuat sq f)
      = liftMP3 sq (MP3.withFrame com mass pi f) :=
  (defined_mp3_withFrame sq com mass pi f hx hy hz).1

set_option hygiene false in
/-- generalise the numeric literals of the closed forms to positive atoms, then `positivity` -/
macro "lit_positivity" : tactic => `(tactic| (
  have h2p : (0 : K) < two := by rw [fieldNum_two]; norm_num
  have h3p : (0 : K) < ((mkRat 3 1 : ℚ) : K) := lit_pos 3 1 (by decide) (by decide)
  have h4p : (0 : K) < ((mkRat 4 1 : ℚ) : K) := lit_pos 4 1 (by decide) (by decide)
  have h5p : (0 : K) < ((mkRat 5 1 : ℚ) : K) := lit_pos 5 1 (by decide) (by decide)
  have h8p : (0 : K) < ((mkRat 8 1 : ℚ) : K) := lit_pos 8 1 (by decide) (by decide)
  have h10p : (0 : K) < ((mkRat 10 1 : ℚ) : K) := lit_pos 10 1 (by decide) (by decide)
  have h12p : (0 : K) < ((mkRat 12 1 : ℚ) : K) := lit_pos 12 1 (by decide) (by decide)
  have h20p : (0 : K) < ((mkRat 20 1 : ℚ) : K) := lit_pos 20 1 (by decide) (by decide)
  have h80p : (0 : K) < ((mkRat 80 1 : ℚ) : K) := lit_pos 80 1 (by decide) (by decide)
  have h14p : (0 : K) < ((mkRat 1 4 : ℚ) : K) := lit_pos 1 4 (by decide) (by decide)
  generalize ((mkRat 3 1 : ℚ) : K) = c3 at *
  generalize ((mkRat 4 1 : ℚ) : K) = c4 at *
  generalize ((mkRat 5 1 : ℚ) : K) = c5 at *
  generalize ((mkRat 8 1 : ℚ) : K) = c8 at *
  generalize ((mkRat 10 1 : ℚ) : K) = c10 at *
  generalize ((mkRat 12 1 : ℚ) : K) = c12 at *
  generalize ((mkRat 20 1 : ℚ) : K) = c20 at *
  generalize ((mkRat 80 1 : ℚ) : K) = c80 at *
  generalize ((mkRat 1 4 : ℚ) : K) = c14 at *
  generalize (two : K) = t2 at *
  positivity))

/-- **C20 (`from_ball`, 3-D)**: non-negative radius and density, zeros included. -/
theorem defined_fromBall3 (pi density radius : K) (hpi : 0 ≤ pi) (hd : 0 ≤ density) (hr : 0 ≤ radius) :
    letI := fieldNum K sq
    fromBall3 (val pi : Opt K sq) (val density) (val radius) = liftMP3 sq (fromBall3 pi density radius) := by
  letI := fieldNum K sq
  have h3 : ((mkRat 3 1 : ℚ) : K) ≠ 0 := lit_ne_zero sq 3 1 (by decide) (by decide)
  have h5 : ((mkRat 5 1 : ℚ) : K) ≠ 0 := lit_ne_zero sq 5 1 (by decide) (by decide)
  simp only [fromBall3, ballVolInertia3, optsimp, if_neg h3, if_neg h5, fieldNum_lit]
  rw [mp3_new_lift sq] <;> (simp only [V3.smul]; lit_positivity)

/-- **C20 (`from_cuboid`, 3-D)**: non-negative half-extents and density, zeros included (flat boxes). -/
theorem defined_fromCuboid3 (density : K) (he : V3 K) (hd : 0 ≤ density)
    (hx : 0 ≤ he.x) (hy : 0 ≤ he.y) (hz : 0 ≤ he.z) :
    letI := fieldNum K sq
    fromCuboid3 (val density : Opt K sq) (lift3 he) = liftMP3 sq (fromCuboid3 density he) := by
  letI := fieldNum K sq
  have h3 : ((mkRat 3 1 : ℚ) : K) ≠ 0 := lit_ne_zero sq 3 1 (by decide) (by decide)
  obtain ⟨x, y, z⟩ := he
  simp only [] at hx hy hz
  simp only [fromCuboid3, cuboidVolInertia3, optsimp, if_neg h3, fieldNum_lit]
  rw [mp3_new_lift sq] <;> (simp only [V3.smul]; lit_positivity)

/-- **C20 (`from_cylinder`, `from_cone`)**: non-negative half-height and density, radius of any sign; **zero height
(disc), zero radius (needle), zero density included**. -/
theorem defined_fromCylinder_fromCone (pi density halfHeight radius : K)
    (hpi : 0 ≤ pi) (hd : 0 ≤ density) (hh : 0 ≤ halfHeight) :
    letI := fieldNum K sq
    fromCylinder (val pi : Opt K sq) (val density) (val halfHeight) (val radius)
      = liftMP3 sq (fromCylinder pi density halfHeight radius) ∧
    fromCone (val pi : Opt K sq) (val density) (val halfHeight) (val radius)
      = liftMP3 sq (fromCone pi density halfHeight radius) := by
  letI := fieldNum K sq
  have h2 : (two : K) ≠ 0 := by rw [two_eq]; norm_num
  have h3 : ((mkRat 3 1 : ℚ) : K) ≠ 0 := lit_ne_zero sq 3 1 (by decide) (by decide)
  have h10 : ((mkRat 10 1 : ℚ) : K) ≠ 0 := lit_ne_zero sq 10 1 (by decide) (by decide)
  have h12 : ((mkRat 12 1 : ℚ) : K) ≠ 0 := lit_ne_zero sq 12 1 (by decide) (by decide)
  have h20 : ((mkRat 20 1 : ℚ) : K) ≠ 0 := lit_ne_zero sq 20 1 (by decide) (by decide)
  have h80 : ((mkRat 80 1 : ℚ) : K) ≠ 0 := lit_ne_zero sq 80 1 (by decide) (by decide)
  have hrr : 0 ≤ radius * radius := mul_self_nonneg _
  constructor
  · simp only [fromCylinder, cylinderVolInertia, optsimp, if_neg h2, if_neg h12, fieldNum_lit]
    rw [mp3_withFrame_lift sq] <;>
      (simp only [V3.smul, mul_assoc halfHeight radius radius]; generalize radius * radius = rr at *; lit_positivity)
  · simp only [fromCone, coneVolInertia, optsimp, if_neg h2, if_neg h3, if_neg h10, if_neg h20, if_neg h80,
      fieldNum_lit]
    rw [mp3_withFrame_lift sq] <;> (simp only [V3.smul]; generalize radius * radius = rr at *; lit_positivity)

/-- **C20 (`from_capsule`, 3-D, without the principal frame)**: non-negative radius and density; zero-length capsule,
zero radius, zero density included. -/
theorem defined_fromCapsule3 (hq : SqrtNonneg sq) (pi density : K) (a b : V3 K) (radius : K)
    (hpi : 0 ≤ pi) (hd : 0 ≤ density) (hr : 0 ≤ radius) :
    letI := fieldNum K sq
    fromCapsule3 (val pi : Opt K sq) (val density) (lift3 a) (lift3 b) (val radius)
      = (lift3 (fromCapsule3 pi density a b radius).1, val (fromCapsule3 pi density a b radius).2.1,
          lift3 (fromCapsule3 pi density a b radius).2.2) := by
  letI := fieldNum K sq
  have h2 : (two : K) ≠ 0 := by rw [two_eq]; norm_num
  have h3 : ((mkRat 3 1 : ℚ) : K) ≠ 0 := lit_ne_zero sq 3 1 (by decide) (by decide)
  have h5 : ((mkRat 5 1 : ℚ) : K) ≠ 0 := lit_ne_zero sq 5 1 (by decide) (by decide)
  have h8 : ((mkRat 8 1 : ℚ) : K) ≠ 0 := lit_ne_zero sq 8 1 (by decide) (by decide)
  have h12 : ((mkRat 12 1 : ℚ) : K) ≠ 0 := lit_ne_zero sq 12 1 (by decide) (by decide)
  have hn : 0 ≤ (b.sub a).norm := hq _ (normSq3_nonneg (sq := sq) _)
  generalize hN : (b.sub a).norm = n at hn
  simp only [fromCapsule3, cylinderVolInertia, ballVolInertia3, optsimp, hN, if_neg h2, if_neg h3, if_neg h5,
    if_neg h8, if_neg h12, fieldNum_lit]
  rw [mp3_withFrame_lift sq]
  · rfl
  all_goals (simp only [V3.smul, V3.add]; lit_positivity)

/-- a lawful square root satisfies `SqrtPos sq 0` and `SqrtNonneg sq`: the hypotheses of this file hold for it with
`θ = 0` (and every "no underflow" side condition `x = 0 ∨ 0 < x` is `noUnderflow_zero`) -/
theorem sqrtPos_sqrtNonneg_of_lawful (h : LawfulSqrt sq) : SqrtPos sq 0 ∧ SqrtNonneg sq := by
  refine ⟨fun x hx => ?_, fun x hx => h.nonneg x hx⟩
  have h1 := h.nonneg x hx.le
  have h2 := h.sq_mul x hx.le
  rcases eq_or_lt_of_le h1 with h0 | h0
  · rw [← h0] at h2; simp at h2; exact absurd h2.symm (ne_of_gt hx)
  · exact h0

end C13

end C20
