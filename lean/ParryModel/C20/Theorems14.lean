import ParryModel.Field
import ParryModel.C12.Model
set_option linter.unusedVariables false
set_option linter.unusedSimpArgs false
/-!
# C20, part 14: termination (fuel adequacy) of the `swap_remove` loop of the 2-D quickhull

`while i != undecidable.len()` in `convex_hull2_idx` either removes an entry of `undecidable` (`swap_remove`) or advances `i`;
the potential `undecidable.len() − i` drops by one per iteration, so any fuel above it gives the same result — the model's
`len + 1` is adequate.  Lawless `Num` (NaN points included).
-/
namespace C20
open Model

variable {K : Type} [Num K]

/-- **C20 (termination of the `undecidable` loop of `convex_hull2_idx`)**: any two amounts of fuel above `len − i` give the
same result. -/
theorem assignUndecidable_fuel_adequate (eps100 : K) (pts : Array (V2 K)) :
    ∀ (fuel fuel' i : Nat) (und : Array Nat) (f1 f2 : SegFacet K), und.size - i < fuel → und.size - i < fuel' →
      assignUndecidable eps100 pts fuel i und f1 f2 = assignUndecidable eps100 pts fuel' i und f1 f2 := by
  intro fuel
  induction fuel with
  | zero => intro fuel' i und f1 f2 h; omega
  | succ n ih =>
    intro fuel' i und f1 f2 h h'
    cases fuel' with
    | zero => omega
    | succ n' =>
      simp only [assignUndecidable]
      by_cases hi : i ≥ und.size
      · simp only [hi, if_true]
      · simp only [hi, if_false]
        have hs : ((und.set! i (und.back?.getD 0)).pop).size = und.size - 1 := by simp
        split_ifs
        · exact ih n' i _ _ _ (by rw [hs]; omega) (by rw [hs]; omega)
        · exact ih n' i _ _ _ (by rw [hs]; omega) (by rw [hs]; omega)
        · exact ih n' (i + 1) _ _ _ (by omega) (by omega)

/-- **the cap of the model is adequate**: `len + 1` from `i = 0`; more fuel changes nothing. -/
theorem assignUndecidable_cap_adequate (eps100 : K) (pts : Array (V2 K)) (und : Array Nat) (f1 f2 : SegFacet K) (extra : Nat) :
    assignUndecidable eps100 pts (und.size + 1 + extra) 0 und f1 f2 = assignUndecidable eps100 pts (und.size + 1) 0 und f1 f2 :=
  assignUndecidable_fuel_adequate eps100 pts _ _ 0 und f1 f2 (by omega) (by omega)

end C20
