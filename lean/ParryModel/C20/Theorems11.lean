import ParryModel.Field
import ParryModel.C15.Model
set_option linter.unusedVariables false
set_option linter.unusedSimpArgs false
/-!
# C20, part 11: termination (fuel adequacy) of the `while` loop of `convex_polygons_intersection`

The model `C15.cvxLoop` runs the code's `while (nsteps1 < len1 || nsteps2 < len2) && nsteps1 < 2 len1 && nsteps2 < 2 len2`
with a fuel; the code has no iteration cap of its own, so "no hang" is a property to be proved: every iteration that does
not leave the loop advances `nsteps1` or `nsteps2` by one, and both counters are reset to `0` at most once (when the first
intersection point is found).  The potential

    μ(st) = (if first_point_found then 0 else 2 len1 + 2 len2) + (2 len1 − nsteps1) + (2 len2 − nsteps2)

strictly decreases, hence any fuel above `μ(st)` gives the same result — in particular the `4 (len1 + len2) + 4` the
model (and its correspondence harness) uses is never the reason the loop stops.  The proof is over the lawless `Num`
(no arithmetic law is used: it holds for `Float` with NaN coordinates as well).
-/
namespace C20
open Model Model.C15

variable {K : Type} [Num K]

/-- the potential of a loop state -/
def cvxMu (len1 len2 : Nat) (st : CvxState K) : Nat :=
  (if st.firstPointFound then 0 else 2 * len1 + 2 * len2) + (2 * len1 - st.nsteps1) + (2 * len2 - st.nsteps2)

/-- the "edges intersect" block of one iteration (verbatim from `C15.cvxLoop`, its inputs named) -/
def afterInter (st : CvxState K) (x : Option (SegInter K)) (o1 o2 : TriOrient) (neg : Prop) [Decidable neg]
    (a1 b1 a2 b2 : Nat) : CvxState K × Bool :=
  match x with
  | some (.point loc1 loc2) =>
    if o1 ≠ .degenerate ∧ o2 ≠ .degenerate then
      let st := { st with out := st.out.push (some (PolyLoc.ofSegLoc a1 b1 loc1), some (PolyLoc.ofSegLoc a2 b2 loc2)) }
      let st := if st.inflag = .unknown ∧ st.firstPointFound = false then
                  { st with nsteps1 := 0, nsteps2 := 0, firstPointFound := true } else st
      let st := if o1 = .ccw then { st with inflag := .poly1IsInside }
                else if o2 = .ccw then { st with inflag := .poly2IsInside } else st
      (st, false)
    else (st, false)
  | some (.segment f1 f2 s1 s2) =>
    if neg then
      let st := { st with out := (st.out.push (some (PolyLoc.ofSegLoc a1 b1 f1), some (PolyLoc.ofSegLoc a2 b2 f2))).push
                                    (some (PolyLoc.ofSegLoc a1 b1 s1), some (PolyLoc.ofSegLoc a2 b2 s2)) }
      (st, true)
    else (st, false)
  | none => (st, false)

/-- one iteration of the loop with the recursive call abstracted into the continuation `k` -/
def cvxBody (len1 len2 : Nat) (x : Option (SegInter K)) (cross o1 o2 : TriOrient) (neg : Prop) [Decidable neg]
    (a1 b1 a2 b2 : Nat) (k : CvxState K → CvxState K × Bool) (st : CvxState K) : CvxState K × Bool :=
  if !((decide (st.nsteps1 < len1) || decide (st.nsteps2 < len2)) && decide (st.nsteps1 < 2 * len1)
        && decide (st.nsteps2 < 2 * len2)) then (st, false) else
  let r := afterInter st x o1 o2 neg a1 b1 a2 b2
  if r.2 then r else
  let st := r.1
  let adv1 (st : CvxState K) : CvxState K := { st with nsteps1 := st.nsteps1 + 1, i1 := (st.i1 + 1) % len1 }
  let adv2 (st : CvxState K) : CvxState K := { st with nsteps2 := st.nsteps2 + 1, i2 := (st.i2 + 1) % len2 }
  let emit1 (st : CvxState K) : CvxState K :=
    if st.inflag = .poly1IsInside then { st with out := st.out.push (some (.onVertex b1), none) } else st
  let emit2 (st : CvxState K) : CvxState K :=
    if st.inflag = .poly2IsInside then { st with out := st.out.push (none, some (.onVertex b2)) } else st
  if cross = .degenerate ∧ o1 = .cw ∧ o2 = .cw then (st, true)
  else if cross = .degenerate ∧ o1 = .degenerate ∧ o2 = .degenerate then
    k (if st.inflag = .poly1IsInside then adv2 st else adv1 st)
  else if cross = .ccw then
    if o2 = .ccw then k (adv1 (emit1 st)) else k (adv2 (emit2 st))
  else
    if o1 = .ccw then k (adv2 (emit2 st)) else k (adv1 (emit1 st))

/-- `cvxLoop` is `cvxBody` applied to itself with one unit of fuel less (definitional) -/
theorem cvxLoop_succ (poly1 poly2 : Array (V2 K)) (eps : K) (rev1 rev2 : Bool) (n : Nat) (st : CvxState K) :
    cvxLoop poly1 poly2 eps rev1 rev2 (n + 1) st =
      (let len1 := poly1.size
       let len2 := poly2.size
       let ab1 := if rev1 then ((len1 - st.i1) % len1, len1 - st.i1 - 1) else ((st.i1 + len1 - 1) % len1, st.i1)
       let ab2 := if rev2 then ((len2 - st.i2) % len2, len2 - st.i2 - 1) else ((st.i2 + len2 - 1) % len2, st.i2)
       let dirEdge1 := (ppt poly1 ab1.2).sub (ppt poly1 ab1.1)
       let dirEdge2 := (ppt poly2 ab2.2).sub (ppt poly2 ab2.1)
       cvxBody len1 len2
         (segmentsIntersection2d (ppt poly1 ab1.1) (ppt poly1 ab1.2) (ppt poly2 ab2.1) (ppt poly2 ab2.2) eps)
         (orientation2d (⟨0, 0⟩ : V2 K) dirEdge1 dirEdge2 eps)
         (orientation2d (ppt poly2 ab2.1) (ppt poly2 ab2.2) (ppt poly1 ab1.2) eps)
         (orientation2d (ppt poly1 ab1.1) (ppt poly1 ab1.2) (ppt poly2 ab2.2) eps)
         (dirEdge1.dot dirEdge2 < 0) ab1.1 ab1.2 ab2.1 ab2.2
         (cvxLoop poly1 poly2 eps rev1 rev2 n) st) := rfl

/-- the state after the "edges intersect" block: counters unchanged or reset once; the potential does not increase and
both counters stay below their caps -/
private theorem afterInter_facts (len1 len2 : Nat) (st : CvxState K) (x : Option (SegInter K)) (o1 o2 : TriOrient) (neg : Prop)
    [Decidable neg] (a1 b1 a2 b2 : Nat) (h1 : st.nsteps1 < 2 * len1) (h2 : st.nsteps2 < 2 * len2) :
    let r := afterInter st x o1 o2 neg a1 b1 a2 b2
    r.1.nsteps1 < 2 * len1 ∧ r.1.nsteps2 < 2 * len2 ∧ cvxMu len1 len2 r.1 ≤ cvxMu len1 len2 st := by
  unfold afterInter
  cases x with
  | none => exact ⟨h1, h2, le_refl _⟩
  | some y =>
    cases y with
    | segment f1 f2 s1 s2 =>
      dsimp only
      split_ifs <;> exact ⟨h1, h2, le_refl _⟩
    | point loc1 loc2 =>
      dsimp only
      by_cases hd : o1 ≠ .degenerate ∧ o2 ≠ .degenerate
      · rw [if_pos hd]
        by_cases hr : st.inflag = .unknown ∧ st.firstPointFound = false
        · simp only [hr, and_self, if_true]
          refine ⟨?_, ?_, ?_⟩
          · split_ifs <;> simp <;> omega
          · split_ifs <;> simp <;> omega
          · split_ifs <;> simp [cvxMu, hr.2] <;> omega
        · simp only [hr, if_false]
          refine ⟨?_, ?_, ?_⟩
          · split_ifs <;> exact h1
          · split_ifs <;> exact h2
          · split_ifs <;> exact le_refl _
      · rw [if_neg hd]; exact ⟨h1, h2, le_refl _⟩

private theorem mu_adv1 (len1 len2 : Nat) (st st0 : CvxState K) (h1 : st.nsteps1 < 2 * len1)
    (hm : cvxMu len1 len2 st ≤ cvxMu len1 len2 st0) (o : Array (OutPair K)) (i : Nat) :
    cvxMu len1 len2 ({ st with nsteps1 := st.nsteps1 + 1, i1 := i, out := o } : CvxState K) < cvxMu len1 len2 st0 := by
  simp only [cvxMu] at hm ⊢
  split_ifs at hm ⊢ <;> omega
private theorem mu_adv2 (len1 len2 : Nat) (st st0 : CvxState K) (h2 : st.nsteps2 < 2 * len2)
    (hm : cvxMu len1 len2 st ≤ cvxMu len1 len2 st0) (o : Array (OutPair K)) (i : Nat) :
    cvxMu len1 len2 ({ st with nsteps2 := st.nsteps2 + 1, i2 := i, out := o } : CvxState K) < cvxMu len1 len2 st0 := by
  simp only [cvxMu] at hm ⊢
  split_ifs at hm ⊢ <;> omega

/-- one iteration either leaves the loop with a result that does not depend on the continuation, or calls the continuation
on a state of strictly smaller potential -/
theorem cvxBody_step (len1 len2 : Nat) (x : Option (SegInter K)) (cross o1 o2 : TriOrient) (neg : Prop) [Decidable neg]
    (a1 b1 a2 b2 : Nat) (st : CvxState K) :
    (∃ fin, ∀ k, cvxBody len1 len2 x cross o1 o2 neg a1 b1 a2 b2 k st = fin) ∨
    (∃ st', cvxMu len1 len2 st' < cvxMu len1 len2 st ∧
        ∀ k, cvxBody len1 len2 x cross o1 o2 neg a1 b1 a2 b2 k st = k st') := by
  unfold cvxBody
  by_cases hc : (!((decide (st.nsteps1 < len1) || decide (st.nsteps2 < len2)) && decide (st.nsteps1 < 2 * len1)
        && decide (st.nsteps2 < 2 * len2))) = true
  · exact Or.inl ⟨(st, false), fun k => by rw [if_pos hc]⟩
  · have hn1 : st.nsteps1 < 2 * len1 := by simp at hc; omega
    have hn2 : st.nsteps2 < 2 * len2 := by simp at hc; omega
    have F := afterInter_facts len1 len2 st x o1 o2 neg a1 b1 a2 b2 hn1 hn2
    simp only [if_neg hc]
    generalize afterInter st x o1 o2 neg a1 b1 a2 b2 = r at F ⊢
    obtain ⟨st1, ret⟩ := r
    obtain ⟨f1, f2, fm⟩ := F
    cases ret with
    | true => exact Or.inl ⟨(st1, true), fun k => by simp⟩
    | false =>
      simp only [Bool.false_eq_true, if_false]
      by_cases c1 : cross = .degenerate ∧ o1 = .cw ∧ o2 = .cw
      · exact Or.inl ⟨(st1, true), fun k => by rw [if_pos c1]⟩
      · simp only [if_neg c1]
        by_cases c2 : cross = .degenerate ∧ o1 = .degenerate ∧ o2 = .degenerate
        · simp only [if_pos c2]
          by_cases c3 : st1.inflag = .poly1IsInside
          · exact Or.inr ⟨_, mu_adv2 len1 len2 st1 st f2 fm _ _, fun k => by rw [if_pos c3]⟩
          · exact Or.inr ⟨_, mu_adv1 len1 len2 st1 st f1 fm _ _, fun k => by rw [if_neg c3]⟩
        · simp only [if_neg c2]
          by_cases c4 : cross = .ccw
          · simp only [if_pos c4]
            by_cases c5 : o2 = .ccw
            · refine Or.inr ⟨_, ?_, fun k => by rw [if_pos c5]⟩
              split_ifs <;> exact mu_adv1 len1 len2 st1 st f1 fm _ _
            · refine Or.inr ⟨_, ?_, fun k => by rw [if_neg c5]⟩
              split_ifs <;> exact mu_adv2 len1 len2 st1 st f2 fm _ _
          · simp only [if_neg c4]
            by_cases c5 : o1 = .ccw
            · refine Or.inr ⟨_, ?_, fun k => by rw [if_pos c5]⟩
              split_ifs <;> exact mu_adv2 len1 len2 st1 st f2 fm _ _
            · refine Or.inr ⟨_, ?_, fun k => by rw [if_neg c5]⟩
              split_ifs <;> exact mu_adv1 len1 len2 st1 st f1 fm _ _

private theorem cvxBody_congr (len1 len2 : Nat) (x : Option (SegInter K)) (cross o1 o2 : TriOrient) (neg : Prop) [Decidable neg]
    (a1 b1 a2 b2 : Nat) (st : CvxState K) (k k' : CvxState K → CvxState K × Bool)
    (h : ∀ st', cvxMu len1 len2 st' < cvxMu len1 len2 st → k st' = k' st') :
    cvxBody len1 len2 x cross o1 o2 neg a1 b1 a2 b2 k st = cvxBody len1 len2 x cross o1 o2 neg a1 b1 a2 b2 k' st := by
  rcases cvxBody_step len1 len2 x cross o1 o2 neg a1 b1 a2 b2 st with ⟨fin, hf⟩ | ⟨st', hm, hk⟩
  · rw [hf, hf]
  · rw [hk, hk]; exact h st' hm

/-- **C20 (termination of `convex_polygons_intersection`)**: the `while` loop leaves through its own exits, never through
the fuel — any two amounts of fuel above the potential of the state give the same result.  Holds for every input
(any polygons, empty ones included, any tolerance, any scalar type: no arithmetic law is used). -/
theorem cvxLoop_fuel_adequate (poly1 poly2 : Array (V2 K)) (eps : K) (rev1 rev2 : Bool) :
    ∀ (fuel fuel' : Nat) (st : CvxState K),
      cvxMu poly1.size poly2.size st < fuel → cvxMu poly1.size poly2.size st < fuel' →
      cvxLoop poly1 poly2 eps rev1 rev2 fuel st = cvxLoop poly1 poly2 eps rev1 rev2 fuel' st := by
  intro fuel
  induction fuel with
  | zero => intro fuel' st h; omega
  | succ n ih =>
    intro fuel' st h h'
    cases fuel' with
    | zero => omega
    | succ n' =>
      rw [cvxLoop_succ, cvxLoop_succ]
      dsimp only
      apply cvxBody_congr
      intro st' hm
      exact ih n' st' (by omega) (by omega)

/-- **the cap used by the model is adequate**: from the initial state (`nsteps1 = nsteps2 = 0`) the potential is at most
`4 (len1 + len2)`, below the fuel `4 (len1 + len2) + 4` of `C15.convexPolygonsIntersection`; more fuel changes nothing. -/
theorem cvxLoop_cap_adequate (poly1 poly2 : Array (V2 K)) (eps : K) (rev1 rev2 : Bool) (st0 : CvxState K) (extra : Nat) :
    cvxLoop poly1 poly2 eps rev1 rev2 (4 * (poly1.size + poly2.size) + 4 + extra) st0
      = cvxLoop poly1 poly2 eps rev1 rev2 (4 * (poly1.size + poly2.size) + 4) st0 := by
  have hm : cvxMu poly1.size poly2.size st0 ≤ 4 * (poly1.size + poly2.size) := by
    simp only [cvxMu]; split_ifs <;> omega
  exact cvxLoop_fuel_adequate poly1 poly2 eps rev1 rev2 _ _ st0 (by omega) (by omega)

end C20
