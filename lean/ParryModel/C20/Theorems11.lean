import ParryModel.Field
import ParryModel.C15.Model
import ParryModel.C15.Theorems4

/-!
# C20 / Theorems11 — termination of `convex_polygons_intersection` (the O'Rourke advance loop)

Round fu5 refactored the C15 model of the loop (`cvxStep` + fuel loop) and proved its termination there
(`C15.cvxLoop_fuel_sufficient`, `C15.cvxLoop_fuel_mono`, potential argument over the lawless `Num`: no arithmetic law is used,
so the statement also holds for NaN data).  The C20 clause "no hang" for this loop is the corollary below; the former
stand-alone proof about the pre-refactoring model was removed when the two were merged.
-/

namespace C20
open Model Model.C15

variable {K : Type} [Num K]

/-- **C20 (termination of `convex_polygons_intersection`)**: from the initial state the `while` loop leaves through its own
exits after at most `4 (len1 + len2)` iterations — the model's fuel `4 (len1 + len2) + 4`, or any larger amount, is never
the reason the loop stops.  Every input (empty polygons included), every tolerance, every scalar type. -/
theorem cvxLoop_cap_adequate (poly1 poly2 : Array (V2 K)) (eps : K) (rev1 rev2 : Bool) (extra : Nat) :
    cvxLoop poly1 poly2 eps rev1 rev2 (4 * (poly1.size + poly2.size) + 4 + extra) ⟨0, 0, 0, 0, .unknown, false, #[]⟩
      = cvxLoop poly1 poly2 eps rev1 rev2 (4 * (poly1.size + poly2.size) + 4) ⟨0, 0, 0, 0, .unknown, false, #[]⟩ := by
  rw [C15.cvxLoop_fuel_sufficient poly1 poly2 eps rev1 rev2 (4 * (poly1.size + poly2.size) + 4 + extra) (by omega),
      C15.cvxLoop_fuel_sufficient poly1 poly2 eps rev1 rev2 (4 * (poly1.size + poly2.size) + 4) (by omega)]

end C20
