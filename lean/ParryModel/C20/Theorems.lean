import ParryModel.Field
import ParryModel.C09.Model
import ParryModel.C19.Model
import ParryModel.C20.Theorems2
import ParryModel.C20.Theorems3
import ParryModel.C20.Theorems4
import ParryModel.C20.Theorems5
import ParryModel.C20.Theorems6
import ParryModel.C20.Theorems7
import ParryModel.C20.Theorems8
import ParryModel.C20.Theorems9
import ParryModel.C20.Theorems10
import ParryModel.C20.Theorems11
import ParryModel.C20.Theorems12
import ParryModel.C20.Theorems13
import ParryModel.C20.Theorems14
import ParryModel.C20.Theorems15
import ParryModel.C20.Theorems16
import ParryModel.C20.Theorems17
import ParryModel.C20.Theorems18
import ParryModel.C20.Theorems19
/-!
# C20 theorems: definedness at the NaN-propagating instance `NaNable = Option Rat`
(`x/0 = none`, `sqrt` of a negative = `none`, every comparison with `none` is false — IEEE behaviour).
"On finite valid input every returned float is finite" is the statement `… .isSome` below.
Termination of every model function is discharged by Lean's termination checker when the model modules compile
(structural recursion or fuel equal to the code's own iteration cap; no `partial def` — the check greps for it).
-/
namespace C20
open Model

/-- lift a rational to the NaN-propagating scalar -/
abbrev fin (x : Rat) : NaNable := some x

@[simp] theorem add_fin (a b : Rat) : (fin a + fin b : NaNable) = fin (a + b) := rfl
@[simp] theorem sub_fin (a b : Rat) : (fin a - fin b : NaNable) = fin (a - b) := rfl
@[simp] theorem mul_fin (a b : Rat) : (fin a * fin b : NaNable) = fin (a * b) := rfl
@[simp] theorem neg_fin (a : Rat) : (-(fin a) : NaNable) = fin (-a) := rfl
theorem div_fin (a b : Rat) (h : b ≠ 0) : (fin a / fin b : NaNable) = fin (a / b) := by
  show (if b = 0 then none else some (a / b)) = _
  rw [if_neg h]
@[simp] theorem zero_fin : (0 : NaNable) = fin 0 := rfl
@[simp] theorem one_fin : (1 : NaNable) = fin 1 := rfl
@[simp] theorem lt_fin (a b : Rat) : ((fin a : NaNable) < fin b) = (a < b) := rfl
@[simp] theorem le_fin (a b : Rat) : ((fin a : NaNable) ≤ fin b) = (a ≤ b) := rfl

theorem nmin_fin (a b : Rat) : ∃ c, (nmin (fin a) (fin b) : NaNable) = fin c := by
  unfold nmin; split <;> exact ⟨_, rfl⟩
theorem nmax_fin (a b : Rat) : ∃ c, (nmax (fin a) (fin b) : NaNable) = fin c := by
  unfold nmax; split <;> exact ⟨_, rfl⟩
theorem nabs_fin (a : Rat) : ∃ c, (nabs (fin a) : NaNable) = fin c ∧ 0 ≤ c := by
  unfold nabs
  split
  · rename_i h; refine ⟨-a, rfl, ?_⟩; simp at h; linarith
  · rename_i h; refine ⟨a, rfl, ?_⟩; simp at h; linarith

/-- an interval with finite endpoints -/
def IFin (x : Interval NaNable) : Prop := x.lo.isSome ∧ x.hi.isSome

/-- **C20 (Interval)**: `+ - neg *` on finite intervals never produce NaN, for every sign pattern. -/
theorem interval_ops_defined (x y : Interval NaNable) (hx : IFin x) (hy : IFin y) :
    IFin (x.add y) ∧ IFin (x.sub y) ∧ IFin x.neg ∧ IFin (x.mul y) := by
  obtain ⟨xl, xh⟩ := x; obtain ⟨yl, yh⟩ := y
  obtain ⟨h1, h2⟩ := hx; obtain ⟨h3, h4⟩ := hy
  simp only [] at h1 h2 h3 h4
  obtain ⟨a1, rfl⟩ := Option.isSome_iff_exists.mp h1
  obtain ⟨a2, rfl⟩ := Option.isSome_iff_exists.mp h2
  obtain ⟨b1, rfl⟩ := Option.isSome_iff_exists.mp h3
  obtain ⟨b2, rfl⟩ := Option.isSome_iff_exists.mp h4
  refine ⟨?_, ?_, ?_, ?_⟩
  · exact ⟨rfl, rfl⟩
  · exact ⟨rfl, rfl⟩
  · exact ⟨rfl, rfl⟩
  · unfold Interval.mul IFin
    simp only []
    obtain ⟨c, hc⟩ := nmin_fin (a1 * b2) (a2 * b1)
    obtain ⟨d, hd⟩ := nmax_fin (a1 * b1) (a2 * b2)
    have e1 : (fin a1 * fin b2 : NaNable) = fin (a1 * b2) := rfl
    have e2 : (fin a2 * fin b1 : NaNable) = fin (a2 * b1) := rfl
    have e3 : (fin a1 * fin b1 : NaNable) = fin (a1 * b1) := rfl
    have e4 : (fin a2 * fin b2 : NaNable) = fin (a2 * b2) := rfl
    split_ifs <;> first
      | exact ⟨rfl, rfl⟩
      | (rw [e1, e2, e3, e4, hc, hd]; exact ⟨rfl, rfl⟩)

/-- a box with finite coordinates -/
def VFin (v : V3 NaNable) : Prop := v.x.isSome ∧ v.y.isSome ∧ v.z.isSome

/-- **C20 (Cuboid::scaled)**: finite half-extents and scale give finite half-extents (no NaN), any signs. -/
theorem cuboid_scaled_defined (he s : V3 NaNable) (h1 : VFin he) (h2 : VFin s) :
    VFin ((Cuboid3.mk he).scaled s).he := by
  obtain ⟨a, b, c⟩ := he; obtain ⟨d, e, f⟩ := s
  obtain ⟨ha, hb, hc⟩ := h1; obtain ⟨hd, he', hf⟩ := h2
  simp only [] at ha hb hc hd he' hf
  obtain ⟨a, rfl⟩ := Option.isSome_iff_exists.mp ha
  obtain ⟨b, rfl⟩ := Option.isSome_iff_exists.mp hb
  obtain ⟨c, rfl⟩ := Option.isSome_iff_exists.mp hc
  obtain ⟨d, rfl⟩ := Option.isSome_iff_exists.mp hd
  obtain ⟨e, rfl⟩ := Option.isSome_iff_exists.mp he'
  obtain ⟨f, rfl⟩ := Option.isSome_iff_exists.mp hf
  simp only [Cuboid3.scaled, V3.cmul, V3.abs, VFin]
  obtain ⟨x, hx, _⟩ := nabs_fin (a * d)
  obtain ⟨y, hy, _⟩ := nabs_fin (b * e)
  obtain ⟨z, hz, _⟩ := nabs_fin (c * f)
  have e1 : (fin a * fin d : NaNable) = fin (a * d) := rfl
  have e2 : (fin b * fin e : NaNable) = fin (b * e) := rfl
  have e3 : (fin c * fin f : NaNable) = fin (c * f) := rfl
  rw [e1, e2, e3, hx, hy, hz]
  exact ⟨rfl, rfl, rfl⟩

end C20
