import ParryModel.Num
/-!
# Vectors, points and isometries: the nalgebra operations parry calls, with nalgebra's operation order.
Points and vectors share one structure (the affine distinction is not needed by the models).
This layer is *modelled, not verified* (DESIGN §6); its Float instance is checked bit-for-bit by the glue suite.
-/
namespace Model
variable {K : Type} [Num K]

structure V2 (K : Type) where
  x : K
  y : K
deriving Repr

structure V3 (K : Type) where
  x : K
  y : K
  z : K
deriving Repr

namespace V2
@[inline] def add (a b : V2 K) : V2 K := ⟨a.x + b.x, a.y + b.y⟩
@[inline] def sub (a b : V2 K) : V2 K := ⟨a.x - b.x, a.y - b.y⟩
@[inline] def neg (a : V2 K) : V2 K := ⟨-a.x, -a.y⟩
@[inline] def smul (a : V2 K) (s : K) : V2 K := ⟨a.x * s, a.y * s⟩
@[inline] def sdiv (a : V2 K) (s : K) : V2 K := ⟨a.x / s, a.y / s⟩
@[inline] def cmul (a b : V2 K) : V2 K := ⟨a.x * b.x, a.y * b.y⟩
@[inline] def dot (a b : V2 K) : K := a.x * b.x + a.y * b.y
@[inline] def normSq (a : V2 K) : K := a.dot a
@[inline] def norm (a : V2 K) : K := Num.sqrt a.normSq
/-- nalgebra `perp`: `a.x*b.y - a.y*b.x` -/
@[inline] def perp (a b : V2 K) : K := a.x * b.y - a.y * b.x
@[inline] def zero : V2 K := ⟨0, 0⟩
@[inline] def inf (a b : V2 K) : V2 K := ⟨nmin a.x b.x, nmin a.y b.y⟩
@[inline] def sup (a b : V2 K) : V2 K := ⟨nmax a.x b.x, nmax a.y b.y⟩
@[inline] def abs (a : V2 K) : V2 K := ⟨nabs a.x, nabs a.y⟩
@[inline] def get (a : V2 K) (i : Nat) : K := if i = 0 then a.x else a.y
@[inline] def set (a : V2 K) (i : Nat) (v : K) : V2 K := if i = 0 then { a with x := v } else { a with y := v }
@[inline] def toList (a : V2 K) : List K := [a.x, a.y]
/-- nalgebra `normalize`: `self.unscale(self.norm())` -/
@[inline] def normalize (v : V2 K) : V2 K := v.sdiv v.norm
/-- `na::center(a, b)` = `a + (b - a) * 0.5`?  nalgebra: `((a.coords + b.coords) * 0.5)` -/
@[inline] def center (a b : V2 K) : V2 K := (a.add b).smul (lit 1 2)
end V2

namespace V3
@[inline] def add (a b : V3 K) : V3 K := ⟨a.x + b.x, a.y + b.y, a.z + b.z⟩
@[inline] def sub (a b : V3 K) : V3 K := ⟨a.x - b.x, a.y - b.y, a.z - b.z⟩
@[inline] def neg (a : V3 K) : V3 K := ⟨-a.x, -a.y, -a.z⟩
@[inline] def smul (a : V3 K) (s : K) : V3 K := ⟨a.x * s, a.y * s, a.z * s⟩
@[inline] def sdiv (a : V3 K) (s : K) : V3 K := ⟨a.x / s, a.y / s, a.z / s⟩
@[inline] def cmul (a b : V3 K) : V3 K := ⟨a.x * b.x, a.y * b.y, a.z * b.z⟩
@[inline] def dot (a b : V3 K) : K := a.x * b.x + a.y * b.y + a.z * b.z
@[inline] def normSq (a : V3 K) : K := a.dot a
@[inline] def norm (a : V3 K) : K := Num.sqrt a.normSq
@[inline] def cross (a b : V3 K) : V3 K :=
  ⟨a.y * b.z - a.z * b.y, a.z * b.x - a.x * b.z, a.x * b.y - a.y * b.x⟩
@[inline] def zero : V3 K := ⟨0, 0, 0⟩
@[inline] def inf (a b : V3 K) : V3 K := ⟨nmin a.x b.x, nmin a.y b.y, nmin a.z b.z⟩
@[inline] def sup (a b : V3 K) : V3 K := ⟨nmax a.x b.x, nmax a.y b.y, nmax a.z b.z⟩
@[inline] def abs (a : V3 K) : V3 K := ⟨nabs a.x, nabs a.y, nabs a.z⟩
@[inline] def get (a : V3 K) (i : Nat) : K := if i = 0 then a.x else if i = 1 then a.y else a.z
@[inline] def set (a : V3 K) (i : Nat) (v : K) : V3 K :=
  if i = 0 then { a with x := v } else if i = 1 then { a with y := v } else { a with z := v }
@[inline] def toList (a : V3 K) : List K := [a.x, a.y, a.z]
/-- nalgebra `normalize`: `self.unscale(self.norm())` -/
@[inline] def normalize (v : V3 K) : V3 K := v.sdiv v.norm
@[inline] def center (a b : V3 K) : V3 K := (a.add b).smul (lit 1 2)
end V3

/-! ## Isometries -/

/-- 2-D isometry: unit complex `(re, im)` + translation. -/
structure Iso2 (K : Type) where
  re : K
  im : K
  t : V2 K

/-- 3-D isometry: unit quaternion `(i, j, k, w)` + translation. -/
structure Iso3 (K : Type) where
  qi : K
  qj : K
  qk : K
  qw : K
  t : V3 K

namespace Iso2
@[inline] def rot (m : Iso2 K) (v : V2 K) : V2 K :=
  ⟨m.re * v.x - m.im * v.y, m.im * v.x + m.re * v.y⟩
/-- rotation by the conjugate -/
@[inline] def invRot (m : Iso2 K) (v : V2 K) : V2 K :=
  ⟨m.re * v.x - (-m.im) * v.y, (-m.im) * v.x + m.re * v.y⟩
@[inline] def act (m : Iso2 K) (p : V2 K) : V2 K := (m.rot p).add m.t
@[inline] def invAct (m : Iso2 K) (p : V2 K) : V2 K := m.invRot (p.sub m.t)
@[inline] def identity : Iso2 K := ⟨1, 0, V2.zero⟩
/-- `Isometry::inverse` -/
@[inline] def inverse (m : Iso2 K) : Iso2 K :=
  let c : Iso2 K := ⟨m.re, -m.im, V2.zero⟩
  ⟨m.re, -m.im, c.rot m.t.neg⟩
/-- `self * rhs` -/
@[inline] def mul (a b : Iso2 K) : Iso2 K :=
  let shift := a.rot b.t
  ⟨a.re * b.re - a.im * b.im, a.re * b.im + a.im * b.re, a.t.add shift⟩
/-- `self.inv_mul(rhs)` -/
@[inline] def invMul (a b : Iso2 K) : Iso2 K :=
  let c : Iso2 K := ⟨a.re, -a.im, V2.zero⟩
  let tr := b.t.sub a.t
  ⟨c.re * b.re - c.im * b.im, c.re * b.im + c.im * b.re, c.rot tr⟩
/-- rotation matrix entries, row-major, as nalgebra `to_rotation_matrix` for `UnitComplex`: `[[re,-im],[im,re]]` -/
@[inline] def mat (m : Iso2 K) : V2 K × V2 K := (⟨m.re, -m.im⟩, ⟨m.im, m.re⟩)
end Iso2

namespace Iso3
@[inline] def qv (m : Iso3 K) : V3 K := ⟨m.qi, m.qj, m.qk⟩
@[inline] def rotQ (qv : V3 K) (w : K) (v : V3 K) : V3 K :=
  let t := (qv.cross v).smul two
  let c := qv.cross t
  ((t.smul w).add c).add v
@[inline] def rot (m : Iso3 K) (v : V3 K) : V3 K := rotQ m.qv m.qw v
@[inline] def invRot (m : Iso3 K) (v : V3 K) : V3 K := rotQ m.qv.neg m.qw v
@[inline] def act (m : Iso3 K) (p : V3 K) : V3 K := (m.rot p).add m.t
@[inline] def invAct (m : Iso3 K) (p : V3 K) : V3 K := m.invRot (p.sub m.t)
@[inline] def identity : Iso3 K := ⟨0, 0, 0, 1, V3.zero⟩
/-- quaternion product `a * b` with nalgebra's operation order -/
@[inline] def qmul (a0 a1 a2 a3 b0 b1 b2 b3 : K) : K × K × K × K :=
  ( a3 * b0 + a0 * b3 + a1 * b2 - a2 * b1
  , a3 * b1 - a0 * b2 + a1 * b3 + a2 * b0
  , a3 * b2 + a0 * b1 - a1 * b0 + a2 * b3
  , a3 * b3 - a0 * b0 - a1 * b1 - a2 * b2 )
@[inline] def inverse (m : Iso3 K) : Iso3 K :=
  let qv' := m.qv.neg
  ⟨qv'.x, qv'.y, qv'.z, m.qw, rotQ qv' m.qw m.t.neg⟩
@[inline] def mul (a b : Iso3 K) : Iso3 K :=
  let shift := a.rot b.t
  let (i, j, k, w) := qmul a.qi a.qj a.qk a.qw b.qi b.qj b.qk b.qw
  ⟨i, j, k, w, a.t.add shift⟩
@[inline] def invMul (a b : Iso3 K) : Iso3 K :=
  let qv' := a.qv.neg
  let tr := b.t.sub a.t
  let (i, j, k, w) := qmul qv'.x qv'.y qv'.z a.qw b.qi b.qj b.qk b.qw
  ⟨i, j, k, w, rotQ qv' a.qw tr⟩
end Iso3

end Model
