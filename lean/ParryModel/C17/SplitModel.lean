import ParryModel.C17.Model
/-!
# C17 model, part 3: `Aabb::split_at_center` (bounding_volume/aabb.rs), 3-D (octree) and 2-D (quad-tree)
Literal transliteration: `center = na::center(mins, maxs) = (mins + maxs) * 0.5`, then the eight (four) boxes in the order of the
array literal of the Rust function. `Aabb::new` stores its arguments unchanged.
-/
namespace Model
variable {K : Type} [Num K]

namespace Aabb3
/-- `Aabb::split_at_center()` (dim3): `[Aabb; 8]` -/
def splitAtCenter (b : Aabb3 K) : List (Aabb3 K) :=
  let c := b.center
  [ ⟨⟨b.mins.x, b.mins.y, b.mins.z⟩, ⟨c.x, c.y, c.z⟩⟩,
    ⟨⟨c.x, b.mins.y, b.mins.z⟩, ⟨b.maxs.x, c.y, c.z⟩⟩,
    ⟨⟨c.x, c.y, b.mins.z⟩, ⟨b.maxs.x, b.maxs.y, c.z⟩⟩,
    ⟨⟨b.mins.x, c.y, b.mins.z⟩, ⟨c.x, b.maxs.y, c.z⟩⟩,
    ⟨⟨b.mins.x, b.mins.y, c.z⟩, ⟨c.x, c.y, b.maxs.z⟩⟩,
    ⟨⟨c.x, b.mins.y, c.z⟩, ⟨b.maxs.x, c.y, b.maxs.z⟩⟩,
    ⟨⟨c.x, c.y, c.z⟩, ⟨b.maxs.x, b.maxs.y, b.maxs.z⟩⟩,
    ⟨⟨b.mins.x, c.y, c.z⟩, ⟨c.x, b.maxs.y, b.maxs.z⟩⟩ ]
end Aabb3

namespace Aabb2
/-- `Aabb::volume()` (dim2): `extents.x * extents.y` -/
def volume (b : Aabb2 K) : K := let e := b.maxs.sub b.mins; e.x * e.y
/-- `Aabb::split_at_center()` (dim2): `[Aabb; 4]` -/
def splitAtCenter (b : Aabb2 K) : List (Aabb2 K) :=
  let c := b.center
  [ ⟨b.mins, c⟩,
    ⟨⟨c.x, b.mins.y⟩, ⟨b.maxs.x, c.y⟩⟩,
    ⟨c, b.maxs⟩,
    ⟨⟨b.mins.x, c.y⟩, ⟨c.x, b.maxs.y⟩⟩ ]
end Aabb2

/-! ## frame glue of `TriMesh::intersection_with_aabb` / `intersection_with_cuboid` (split_trimesh.rs) -/

/-- `TriMesh::intersection_with_aabb(position, _, aabb, ..)`: `Cuboid::new(aabb.half_extents())` placed at
`Isometry::from(aabb.center())` (identity rotation, translation = centre) -/
def aabbAsCuboid (b : Aabb3 K) : V3 K × Iso3 K := (b.halfExtents, ⟨0, 0, 0, 1, b.center⟩)

/-- `TriMesh::intersection_with_cuboid(position, _, cuboid, cuboid_position, ..)`: the cuboid pose handed to
`intersection_with_local_cuboid`, `position.inv_mul(cuboid_position)` -/
def cuboidToLocal (pos cpos : Iso3 K) : Iso3 K := pos.invMul cpos

end Model
