import ParryModel.C17.Theorems
#print axioms C17.aabb_split_positive_iff
#print axioms C17.aabb_split_negative_iff
#print axioms C17.aabb_split_pair_spec
#print axioms C17.segment_split_negative
#print axioms C17.segment_split_positive
#print axioms C17.segment_split_pair
#print axioms C17.segment_split_negative_of_side
#print axioms C17.segment_split_positive_of_side
#print axioms C17.segment_split_pair_of_sides
#print axioms C17.aabb_difference_spec
#print axioms C17.clip_aabb_line_some
#print axioms C17.clip_aabb_line_none
#print axioms C17.clip_aabb_line_some_nonempty
#print axioms C17.clip_line_parameters_spec
#print axioms C17.clip_ray_parameters_spec
#print axioms C17.clip_segment_spec
