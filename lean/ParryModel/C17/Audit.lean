import ParryModel.C17.Theorems
#print axioms C17.aabb_split_positive_iff
#print axioms C17.aabb_split_negative_iff
#print axioms C17.aabb_split_pair_spec
