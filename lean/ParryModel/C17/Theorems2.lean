import ParryModel.IsoLemmas
import ParryModel.C17.Model
/-!
# C17 property theorems, part 2: the world-space and canonical-axis wrappers of the plane cuts.

`TriMesh::split(position, axis, bias, eps)` and `TriMesh::intersection_with_plane(position, axis, bias, eps)` cut the mesh *as placed
in the world by `position`* with the world plane `{x | axis·x = bias}`; they do it by handing the plane
`planeToLocal position axis bias = (R⁻¹ axis, bias - t·axis)` to the local-space functions. `canonical_*` use `Vector::ith_axis(i)`.
The statements below say that this transfer is *the* right one (same signed distance for every point, hence same vertex colours and
same `Negative`/`Positive`/cut decision as the world plane on the placed mesh; and no other local plane has this property), and
characterise the `Negative` / `Positive` answers of the mesh functions (their common early exit `meshVerdict`) by the position of
the mesh with respect to the plane: at the vertices and on every point of every triangle spanned by them.
All statements are for an arbitrary linearly ordered field; a unit quaternion is assumed only where it is needed.
-/
namespace C17
open Model

set_option linter.unusedSectionVars false
set_option linter.unusedTactic false
set_option linter.unreachableTactic false
set_option linter.style.haveILetI false
set_option linter.unusedVariables false

variable {K : Type} [Field K] [LinearOrder K] [IsStrictOrderedRing K] (sq : K → K)

/-! ## the plane transfer of `TriMesh::split` / `TriMesh::intersection_with_plane` -/

/-- **C17 (world-space wrappers, plane transfer)**: for every pose (unit quaternion or not), world plane `(n, bias)` and local
point `p`, the signed distance of `p` to the local plane handed to `local_split` / `intersection_with_local_plane` equals the signed
distance of the *placed* point `position * p` to the world plane: `p·(R⁻¹n) - (bias - t·n) = (R p + t)·n - bias`.
So the wrappers cut the placed mesh by the requested plane. -/
theorem plane_to_local_signed_distance (pos : Iso3 K) (n : V3 K) (bias : K) (p : V3 K) :
    letI := fieldNum K sq
    p.dot (planeToLocal pos n bias).1 - (planeToLocal pos n bias).2 = (pos.act p).dot n - bias := by
  simp only [planeToLocal, Iso3.invRot, Iso3.act, Iso3.rot, Iso3.rotQ, Iso3.qv, V3.dot, V3.add, V3.smul, V3.cross, V3.neg,
    fieldNum_two]
  ring

/-- **C17 (world-space wrappers, the transfer is the only correct one)**: a local plane `(a, b)` whose signed distance agrees with
the world plane's on every placed point *is* `planeToLocal position n bias`. In particular a transfer that mixes frames
(e.g. `bias - t·(R⁻¹n)`) is wrong whenever it differs from it. -/
theorem plane_to_local_unique (pos : Iso3 K) (n : V3 K) (bias : K) (a : V3 K) (b : K)
    (h : letI := fieldNum K sq; ∀ p : V3 K, p.dot a - b = (pos.act p).dot n - bias) :
    letI := fieldNum K sq
    (a, b) = planeToLocal pos n bias := by
  letI : Num K := fieldNum K sq
  have key : ∀ p : V3 K, p.dot a - b = p.dot (planeToLocal pos n bias).1 - (planeToLocal pos n bias).2 :=
    fun p => (h p).trans (plane_to_local_signed_distance sq pos n bias p).symm
  generalize planeToLocal pos n bias = L at key ⊢
  rcases L with ⟨⟨lx, ly, lz⟩, lb⟩
  rcases a with ⟨ax, ay, az⟩
  have h0 := key ⟨0, 0, 0⟩
  have h1 := key ⟨1, 0, 0⟩
  have h2 := key ⟨0, 1, 0⟩
  have h3 := key ⟨0, 0, 1⟩
  simp only [V3.dot] at h0 h1 h2 h3
  have e0 : b = lb := by linarith
  have e1 : ax = lx := by linarith
  have e2 : ay = ly := by linarith
  have e3 : az = lz := by linarith
  subst e0 e1 e2 e3
  rfl

/-- **C17 (world-space wrappers, unit normal)**: for a unit quaternion the local normal has the norm of the world normal (so it is
a unit vector when `axis` is, and `epsilon` measures the same Euclidean distance in both frames). -/
theorem plane_to_local_unit (pos : Iso3 K) (n : V3 K) (bias : K)
    (hq : pos.qi * pos.qi + pos.qj * pos.qj + pos.qk * pos.qk + pos.qw * pos.qw = 1) :
    letI := fieldNum K sq
    (planeToLocal pos n bias).1.normSq = n.normSq := by
  letI : Num K := fieldNum K sq
  have h := IsoLemmas.rot_normSq sq ⟨-pos.qi, -pos.qj, -pos.qk, pos.qw, pos.t⟩ n (by simpa using hq)
  simpa only [planeToLocal, Iso3.invRot, Iso3.rot, Iso3.qv, V3.neg] using h

/-- the rotation about `z` with `cos = 7/25`, `sin = 24/25` (quaternion `(0, 0, 3/5, 4/5)`) followed by the translation `(1, 0, 0)`,
world plane `x = 2`: the local plane is `(7/25, -24/25, 0)·p = 1`; the mixed-frame bias `2 - t·(R⁻¹n) = 2 - 7/25` is another plane. -/
example : (letI := fieldNum ℚ id; planeToLocal (⟨0, 0, 3/5, 4/5, ⟨1, 0, 0⟩⟩ : Iso3 ℚ) ⟨1, 0, 0⟩ 2) = (⟨7/25, -24/25, 0⟩, 1) := by
  simp only [planeToLocal, Iso3.invRot, Iso3.rotQ, Iso3.qv, V3.dot, V3.add, V3.smul, V3.cross, V3.neg, fieldNum_two]
  norm_num

/-! ## vertex colours and the `Negative` / `Positive` answers of the mesh cuts -/

/-- **C17 (world-space wrappers, colours)**: the colour the wrappers give a mesh vertex `p` (from the local plane) is the colour of
the placed vertex `position * p` with respect to the requested world plane. -/
theorem vertex_colour_world (pos : Iso3 K) (n : V3 K) (bias eps : K) (p : V3 K) :
    letI := fieldNum K sq
    vertexColour (planeToLocal pos n bias).1 (planeToLocal pos n bias).2 eps p = vertexColour n bias eps (pos.act p) := by
  letI : Num K := fieldNum K sq
  have h := plane_to_local_signed_distance sq pos n bias p
  simp only [vertexColour]
  rw [h]

/-- **C17 (world-space wrappers, verdict)**: `TriMesh::split` / `intersection_with_plane` take the same
`Negative` / `Positive` / cut decision as the local function would on the mesh placed in the world and the requested plane. -/
theorem mesh_verdict_world (pts : List (V3 K)) (pos : Iso3 K) (n : V3 K) (bias eps : K) :
    letI := fieldNum K sq
    meshVerdictPos pts pos n bias eps = meshVerdict (pts.map pos.act) n bias eps := by
  letI : Num K := fieldNum K sq
  simp only [meshVerdictPos, meshVerdict, List.any_map, Function.comp_def]
  simp only [vertex_colour_world sq pos n bias eps]

private theorem colour_one (n : V3 K) (bias eps : K) (p : V3 K) :
    letI := fieldNum K sq
    (vertexColour n bias eps p == 1) = true ↔ p.dot n - bias < -eps := by
  simp only [vertexColour]
  split_ifs <;> simp_all

private theorem colour_two (n : V3 K) (bias eps : K) (p : V3 K) (he : 0 ≤ eps) :
    letI := fieldNum K sq
    (vertexColour n bias eps p == 2) = true ↔ eps < p.dot n - bias := by
  simp only [vertexColour]
  split_ifs with h1 h2 <;> simp_all
  linarith

/-- **C17 (mesh cut, `Positive` ⇔)**: `local_split` / `intersection_with_local_plane` answer `Positive` exactly when no vertex is
farther than `epsilon` on the negative side: `∀ v, n·v - bias ≥ -epsilon` (`Positive` has priority: a mesh lying within `epsilon`
of the plane is `Positive`). -/
theorem mesh_verdict_positive_iff (pts : List (V3 K)) (n : V3 K) (bias eps : K) :
    letI := fieldNum K sq
    meshVerdict pts n bias eps = .positive ↔ ∀ p ∈ pts, -eps ≤ p.dot n - bias := by
  letI : Num K := fieldNum K sq
  simp only [meshVerdict]
  constructor
  · intro h p hp
    by_contra hc
    push Not at hc
    have : (pts.any fun p => vertexColour n bias eps p == 1) = true :=
      List.any_eq_true.mpr ⟨p, hp, (colour_one sq n bias eps p).mpr hc⟩
    rw [this] at h
    simp only [Bool.not_true, Bool.false_eq_true, if_false] at h
    split_ifs at h
  · intro h
    have : (pts.any fun p => vertexColour n bias eps p == 1) = false := by
      rw [Bool.eq_false_iff]
      intro hc
      obtain ⟨p, hp, hcol⟩ := List.any_eq_true.mp hc
      have := (colour_one sq n bias eps p).mp hcol
      have := h p hp
      linarith
    rw [this]
    simp

/-- **C17 (mesh cut, `Negative` ⇔)**: for `epsilon ≥ 0` the answer is `Negative` exactly when some vertex is farther than `epsilon`
on the negative side and none is farther than `epsilon` on the positive side. -/
theorem mesh_verdict_negative_iff (pts : List (V3 K)) (n : V3 K) (bias eps : K) (he : 0 ≤ eps) :
    letI := fieldNum K sq
    meshVerdict pts n bias eps = .negative ↔
      (∃ p ∈ pts, p.dot n - bias < -eps) ∧ ∀ p ∈ pts, p.dot n - bias ≤ eps := by
  letI : Num K := fieldNum K sq
  simp only [meshVerdict]
  by_cases hneg : (pts.any fun p => vertexColour n bias eps p == 1) = true
  · obtain ⟨p0, hp0, hc0⟩ := List.any_eq_true.mp hneg
    have hd0 := (colour_one sq n bias eps p0).mp hc0
    rw [hneg]
    simp only [Bool.not_true, Bool.false_eq_true, if_false]
    by_cases hpos : (pts.any fun p => vertexColour n bias eps p == 2) = true
    · rw [hpos]
      simp only [Bool.not_true, Bool.false_eq_true, if_false, reduceCtorEq, false_iff, not_and]
      intro _ hall
      obtain ⟨p, hp, hc⟩ := List.any_eq_true.mp hpos
      have := (colour_two sq n bias eps p he).mp hc
      have := hall p hp
      linarith
    · rw [Bool.not_eq_true] at hpos
      rw [hpos]
      simp only [Bool.not_false, if_true, true_iff]
      refine ⟨⟨p0, hp0, hd0⟩, fun p hp => ?_⟩
      by_contra hc
      push Not at hc
      have : (pts.any fun p => vertexColour n bias eps p == 2) = true :=
        List.any_eq_true.mpr ⟨p, hp, (colour_two sq n bias eps p he).mpr hc⟩
      rw [this] at hpos
      exact absurd hpos (by simp)
  · rw [Bool.not_eq_true] at hneg
    rw [hneg]
    simp only [Bool.not_false, if_true, reduceCtorEq, false_iff, not_and]
    rintro ⟨p, hp, hd⟩
    have : (pts.any fun p => vertexColour n bias eps p == 1) = true :=
      List.any_eq_true.mpr ⟨p, hp, (colour_one sq n bias eps p).mpr hd⟩
    rw [this] at hneg
    exact absurd hneg (by simp)

/-- **C17 (mesh cut, cut ⇔)**: for `epsilon ≥ 0` the functions go on to cut the mesh (`Pair` / `Intersect`) exactly when it has
vertices farther than `epsilon` from the plane on both sides. -/
theorem mesh_verdict_cut_iff (pts : List (V3 K)) (n : V3 K) (bias eps : K) (he : 0 ≤ eps) :
    letI := fieldNum K sq
    meshVerdict pts n bias eps = .pair () () ↔
      (∃ p ∈ pts, p.dot n - bias < -eps) ∧ ∃ p ∈ pts, eps < p.dot n - bias := by
  letI : Num K := fieldNum K sq
  have hp := mesh_verdict_positive_iff sq pts n bias eps
  have hn := mesh_verdict_negative_iff sq pts n bias eps he
  constructor
  · intro h
    rw [h] at hp hn
    simp only [reduceCtorEq, false_iff, not_forall, not_and, not_le] at hp hn
    obtain ⟨p, hpm, hpd⟩ := hp
    refine ⟨⟨p, hpm, hpd⟩, ?_⟩
    obtain ⟨q, hq, hqd⟩ := hn ⟨p, hpm, hpd⟩
    exact ⟨q, hq, hqd⟩
  · rintro ⟨⟨p, hpm, hpd⟩, ⟨q, hqm, hqd⟩⟩
    rcases hv : meshVerdict pts n bias eps with _ | _ | _
    · rfl
    · have := (hn.mp hv).2 q hqm
      linarith
    · have := (hp.mp hv) p hpm
      linarith

/-- **C17 (mesh cut, `Positive` covers the whole surface)**: when the answer is `Positive`, every point of every triangle spanned
by mesh vertices (every convex combination `u·a + v·b + w·c`) lies in the positive half-space up to `epsilon`. -/
theorem mesh_verdict_positive_triangles (pts : List (V3 K)) (n : V3 K) (bias eps : K)
    (h : letI := fieldNum K sq; meshVerdict pts n bias eps = .positive)
    (a b c : V3 K) (ha : a ∈ pts) (hb : b ∈ pts) (hc : c ∈ pts) (u v w : K) (hu : 0 ≤ u) (hv : 0 ≤ v) (hw : 0 ≤ w)
    (huvw : u + v + w = 1) :
    letI := fieldNum K sq;
    -eps ≤ (((a.smul u).add (b.smul v)).add (c.smul w)).dot n - bias := by
  letI : Num K := fieldNum K sq
  have hall := (mesh_verdict_positive_iff sq pts n bias eps).mp h
  have h1 := hall a ha
  have h2 := hall b hb
  have h3 := hall c hc
  simp only [V3.dot, V3.add, V3.smul] at h1 h2 h3 ⊢
  obtain rfl : w = 1 - u - v := by linarith
  nlinarith [mul_nonneg hu (sub_nonneg.mpr h1), mul_nonneg hv (sub_nonneg.mpr h2), mul_nonneg hw (sub_nonneg.mpr h3)]

/-- **C17 (mesh cut, `Negative` covers the whole surface)**: when the answer is `Negative` (`epsilon ≥ 0`), every point of every
triangle spanned by mesh vertices lies in the negative half-space up to `epsilon`. -/
theorem mesh_verdict_negative_triangles (pts : List (V3 K)) (n : V3 K) (bias eps : K) (he : 0 ≤ eps)
    (h : letI := fieldNum K sq; meshVerdict pts n bias eps = .negative)
    (a b c : V3 K) (ha : a ∈ pts) (hb : b ∈ pts) (hc : c ∈ pts) (u v w : K) (hu : 0 ≤ u) (hv : 0 ≤ v) (hw : 0 ≤ w)
    (huvw : u + v + w = 1) :
    letI := fieldNum K sq
    (((a.smul u).add (b.smul v)).add (c.smul w)).dot n - bias ≤ eps := by
  letI : Num K := fieldNum K sq
  have hall := ((mesh_verdict_negative_iff sq pts n bias eps he).mp h).2
  have h1 := hall a ha
  have h2 := hall b hb
  have h3 := hall c hc
  simp only [V3.dot, V3.add, V3.smul] at h1 h2 h3 ⊢
  obtain rfl : w = 1 - u - v := by linarith
  nlinarith [mul_nonneg hu (sub_nonneg.mpr h1), mul_nonneg hv (sub_nonneg.mpr h2), mul_nonneg hw (sub_nonneg.mpr h3)]

/-- a tetrahedron's four vertices against the plane `z = 1/2` with `epsilon = 1/4`: the apex is beyond `epsilon` on the positive
side, the base beyond it on the negative side: the mesh is cut; against `z = -1` it is `Positive`, against `z = 2` `Negative`. -/
example : (letI := fieldNum ℚ id;
    meshVerdict [⟨0, 0, 0⟩, ⟨1, 0, 0⟩, ⟨0, 1, 0⟩, (⟨0, 0, 1⟩ : V3 ℚ)] ⟨0, 0, 1⟩ (1/2) (1/4) = .pair () () ∧
    meshVerdict [⟨0, 0, 0⟩, ⟨1, 0, 0⟩, ⟨0, 1, 0⟩, (⟨0, 0, 1⟩ : V3 ℚ)] ⟨0, 0, 1⟩ (-1) (1/4) = .positive ∧
    meshVerdict [⟨0, 0, 0⟩, ⟨1, 0, 0⟩, ⟨0, 1, 0⟩, (⟨0, 0, 1⟩ : V3 ℚ)] ⟨0, 0, 1⟩ 2 (1/4) = .negative) := by
  simp only [meshVerdict, vertexColour, V3.dot, List.any_cons, List.any_nil]
  norm_num

/-! ## world-space statements for `TriMesh::split` / `TriMesh::intersection_with_plane` -/

/-- **C17 (`TriMesh::split` / `intersection_with_plane`, `Positive` ⇔)**: the world-space wrappers answer `Positive` exactly when
every vertex of the mesh *placed by `position`* satisfies `n·(position * v) - bias ≥ -epsilon` for the requested world plane. -/
theorem mesh_world_positive_iff (pts : List (V3 K)) (pos : Iso3 K) (n : V3 K) (bias eps : K) :
    letI := fieldNum K sq
    meshVerdictPos pts pos n bias eps = .positive ↔ ∀ p ∈ pts, -eps ≤ (pos.act p).dot n - bias := by
  letI : Num K := fieldNum K sq
  rw [mesh_verdict_world, mesh_verdict_positive_iff]
  simp only [List.mem_map, forall_exists_index, and_imp, forall_apply_eq_imp_iff₂]

/-- **C17 (`TriMesh::split` / `intersection_with_plane`, `Negative` ⇔)**: `Negative` exactly when some placed vertex is beyond
`epsilon` on the negative side of the requested world plane and none is beyond `epsilon` on its positive side. -/
theorem mesh_world_negative_iff (pts : List (V3 K)) (pos : Iso3 K) (n : V3 K) (bias eps : K) (he : 0 ≤ eps) :
    letI := fieldNum K sq
    meshVerdictPos pts pos n bias eps = .negative ↔
      (∃ p ∈ pts, (pos.act p).dot n - bias < -eps) ∧ ∀ p ∈ pts, (pos.act p).dot n - bias ≤ eps := by
  letI : Num K := fieldNum K sq
  rw [mesh_verdict_world, mesh_verdict_negative_iff sq _ _ _ _ he]
  simp only [List.mem_map, forall_exists_index, and_imp, forall_apply_eq_imp_iff₂, exists_exists_and_eq_and]

/-- **C17 (`TriMesh::split` / `intersection_with_plane`, cut ⇔)**: the placed mesh is cut exactly when it has vertices beyond
`epsilon` on both sides of the requested world plane. -/
theorem mesh_world_cut_iff (pts : List (V3 K)) (pos : Iso3 K) (n : V3 K) (bias eps : K) (he : 0 ≤ eps) :
    letI := fieldNum K sq
    meshVerdictPos pts pos n bias eps = .pair () () ↔
      (∃ p ∈ pts, (pos.act p).dot n - bias < -eps) ∧ ∃ p ∈ pts, eps < (pos.act p).dot n - bias := by
  letI : Num K := fieldNum K sq
  rw [mesh_verdict_world, mesh_verdict_cut_iff sq _ _ _ _ he]
  simp only [List.mem_map, exists_exists_and_eq_and]

/-- the unit square sheet `[0,1]² × {0}` turned by the rotation `(0, 0, 3/5, 4/5)` (cos 7/25, sin 24/25 about `z`) and moved by
`(1, 0, 0)` occupies `x ∈ [1 - 24/25, 1 + 7/25]`: the world plane `x = 1` cuts it (and the mixed-frame plane would not be `x = 1`). -/
example : (letI := fieldNum ℚ id;
    meshVerdictPos [⟨0, 0, 0⟩, ⟨1, 0, 0⟩, ⟨1, 1, 0⟩, (⟨0, 1, 0⟩ : V3 ℚ)] ⟨0, 0, 3/5, 4/5, ⟨1, 0, 0⟩⟩ ⟨1, 0, 0⟩ 1 (1/100) = .pair () ()) := by
  simp only [meshVerdictPos, planeToLocal, meshVerdict, vertexColour, Iso3.invRot, Iso3.rotQ, Iso3.qv, V3.dot, V3.add, V3.smul,
    V3.cross, V3.neg, fieldNum_two, List.any_cons, List.any_nil]
  norm_num

/-! ## canonical axes -/

/-- `Vector::ith_axis(i)` picks the `i`-th coordinate: `p · e_i = p[i]`. -/
theorem ith_axis_dot (i : Fin 3) (p : V3 K) :
    letI := fieldNum K sq
    p.dot (ithAxis i) = p.get i.val ∧ (ithAxis i : V3 K).dot p = p.get i.val ∧ (ithAxis i : V3 K).dot (ithAxis i) = 1 := by
  rcases i with ⟨_ | _ | _ | k, hi⟩ <;> simp [ithAxis, V3.dot, V3.get] <;> omega

/-- **C17 (`TriMesh::canonical_split` / `canonical_intersection_with_plane`)**: the canonical wrappers compare the `axis`-th
coordinate of the vertices with `bias`: `Positive ⇔ ∀ v, v[axis] ≥ bias - epsilon`;
`Negative ⇔ (∃ v, v[axis] < bias - epsilon) ∧ ∀ v, v[axis] ≤ bias + epsilon`;
cut `⇔` vertices beyond `epsilon` on both sides. -/
theorem mesh_canonical_verdict (pts : List (V3 K)) (i : Fin 3) (bias eps : K) (he : 0 ≤ eps) :
    letI := fieldNum K sq
    (meshVerdictCanonical pts i bias eps = .positive ↔ ∀ p ∈ pts, bias - eps ≤ p.get i.val) ∧
    (meshVerdictCanonical pts i bias eps = .negative ↔
      (∃ p ∈ pts, p.get i.val < bias - eps) ∧ ∀ p ∈ pts, p.get i.val ≤ bias + eps) ∧
    (meshVerdictCanonical pts i bias eps = .pair () () ↔
      (∃ p ∈ pts, p.get i.val < bias - eps) ∧ ∃ p ∈ pts, bias + eps < p.get i.val) := by
  letI : Num K := fieldNum K sq
  have hd : ∀ p : V3 K, p.dot (ithAxis i) = p.get i.val := fun p => (ith_axis_dot sq i p).1
  simp only [meshVerdictCanonical]
  rw [mesh_verdict_positive_iff, mesh_verdict_negative_iff sq _ _ _ _ he, mesh_verdict_cut_iff sq _ _ _ _ he]
  simp only [hd]
  refine ⟨?_, ?_, ?_⟩
  · exact forall₂_congr fun p _ => by constructor <;> intro h <;> linarith
  · refine and_congr (exists_congr fun p => and_congr_right fun _ => ?_) (forall₂_congr fun p _ => ?_) <;>
      constructor <;> intro h <;> linarith
  · refine and_congr (exists_congr fun p => and_congr_right fun _ => ?_) (exists_congr fun p => and_congr_right fun _ => ?_) <;>
      constructor <;> intro h <;> linarith

end C17
