import ParryModel.C17.Lemmas
import ParryModel.C17.SplitModel
import ParryModel.C03.Theorems
/-!
# C17 property theorems, part 10 (fu5): frame glue of the mesh ∩ box wrappers
`TriMesh::intersection_with_aabb` → `intersection_with_cuboid` → `intersection_with_local_cuboid` only re-express the clip region:
the box as a centred cuboid with a translation, and the cuboid pose in the mesh's local frame. Proved: both steps describe the *same
point set* (so "the part of the input inside the clip region" is the same clause for all three entry points).
-/
namespace C17
open Model C09 C03

set_option linter.unusedSectionVars false
set_option linter.style.haveILetI false
set_option linter.unusedVariables false

variable {K : Type} [Field K] [LinearOrder K] [IsStrictOrderedRing K] (sq : K → K)

/-- **C17 (`intersection_with_aabb`, box = placed cuboid)**: for a valid box, `p` is in the box iff `p = centre + c` for a point `c`
of the centred cuboid of half extents `aabb.half_extents()` — i.e. iff `p` is in `Isometry::from(aabb.center()) * Cuboid`. -/
theorem aabb_as_cuboid_mem (b : Aabb3 K) (p : V3 K) :
    letI := fieldNum K sq
    BMem b p ↔ ∃ c : V3 K, (Cuboid3.mk (aabbAsCuboid b).1).Mem c ∧ p = (aabbAsCuboid b).2.act c := by
  letI : Num K := fieldNum K sq
  have hl : ((mkRat 1 2 : Rat) : K) = 1 / 2 := by norm_num
  constructor
  · intro ⟨⟨hx1, hx2⟩, ⟨hy1, hy2⟩, hz1, hz2⟩
    refine ⟨p.sub b.center, ?_, ?_⟩
    · simp only [Cuboid3.Mem, aabbAsCuboid, Aabb3.halfExtents, Aabb3.center, V3.center, V3.add, V3.sub, V3.smul, fieldNum_lit, hl,
        abs_le]
      refine ⟨⟨?_, ?_⟩, ⟨?_, ?_⟩, ?_, ?_⟩ <;> linarith
    · obtain ⟨x, y, z⟩ := p
      simp only [aabbAsCuboid, Iso3.act, Iso3.rot, Iso3.rotQ, Iso3.qv, Aabb3.center, V3.center, V3.add, V3.sub, V3.smul, V3.cross,
        fieldNum_two, fieldNum_lit, hl, V3.mk.injEq]
      refine ⟨?_, ?_, ?_⟩ <;> ring
  · rintro ⟨c, hc, rfl⟩
    obtain ⟨x, y, z⟩ := c
    simp only [Cuboid3.Mem, aabbAsCuboid, Aabb3.halfExtents, V3.sub, V3.smul, fieldNum_lit, hl, abs_le] at hc
    obtain ⟨⟨hx1, hx2⟩, ⟨hy1, hy2⟩, hz1, hz2⟩ := hc
    simp only [BMem, aabbAsCuboid, Iso3.act, Iso3.rot, Iso3.rotQ, Iso3.qv, Aabb3.center, V3.center, V3.add, V3.smul, V3.cross,
      fieldNum_two, fieldNum_lit, hl]
    refine ⟨⟨?_, ?_⟩, ⟨?_, ?_⟩, ?_, ?_⟩ <;> linarith

/-- **C17 (`intersection_with_cuboid`, cuboid pose in the mesh frame)**: for unit-quaternion poses, placing a cuboid point `c` with
the local pose `position.inv_mul(cuboid_position)` and then with the mesh pose gives the world point `cuboid_position * c`; hence a
local mesh point `q` lies in the local cuboid iff its placed image `position * q` lies in the world cuboid. -/
theorem cuboid_to_local_mem (pos cpos : Iso3 K) (he : V3 K) (hp : Unit3 pos) (hc : Unit3 cpos) :
    letI := fieldNum K sq
    (∀ c, pos.act ((cuboidToLocal pos cpos).act c) = cpos.act c) ∧
    (∀ q, (∃ c, (Cuboid3.mk he).Mem c ∧ q = (cuboidToLocal pos cpos).act c) ↔ (∃ c, (Cuboid3.mk he).Mem c ∧ pos.act q = cpos.act c)) := by
  letI : Num K := fieldNum K sq
  have key : ∀ c, pos.act ((cuboidToLocal pos cpos).act c) = cpos.act c := by
    intro c
    simp only [cuboidToLocal]
    rw [iso3_invMul_eq_inverse_mul, (iso3_mul_act sq pos.inverse cpos c (unit3_inverse sq pos hp) hc).1]
    exact (iso3_inverse_act sq pos (cpos.act c) hp).2
  refine ⟨key, fun q => ⟨?_, ?_⟩⟩
  · rintro ⟨c, hm, rfl⟩; exact ⟨c, hm, key c⟩
  · rintro ⟨c, hm, h⟩
    refine ⟨c, hm, ?_⟩
    have h1 := (iso3_inverse_act sq pos q hp).1
    rw [h, ← key c, (iso3_inverse_act sq pos _ hp).1] at h1
    exact h1.symm

/-! non-vacuity: a unit pose (quarter turn about `z`, translation) and the box `[0,2]×[0,4]×[-1,1]` -/
example : Unit3 (⟨0, 0, 3/5, 4/5, ⟨1, 2, 3⟩⟩ : Iso3 ℚ) := by norm_num [Unit3]
example : (letI := fieldNum ℚ id; let r := aabbAsCuboid (⟨⟨0, 0, -1⟩, ⟨2, 4, 1⟩⟩ : Aabb3 ℚ)
    [r.1.x, r.1.y, r.1.z, r.2.t.x, r.2.t.y, r.2.t.z]) = [1, 2, 1, 1, 2, 0] := by decide +kernel

end C17
