import ParryModel.Field
import ParryModel.C09.Theorems
import ParryModel.C17.Model
/-!
# C17 property theorems: cutting and clipping, for every linearly ordered field.
All statements quantify over the model functions of `C17/Model.lean` instantiated at the lawful instance `fieldNum K sq`.
Point-set specifications: `C09.BMem` (closed box), `IntMem` (open box), half-spaces as inequalities on coordinates / `V3.dot`.
-/
namespace C17
open Model C09

variable {K : Type} [Field K] [LinearOrder K] [IsStrictOrderedRing K] (sq : K → K)

/-! ## `Aabb::canonical_split` -/

/-- a box is valid (non-empty as a point set) -/
def ValidBox (b : Aabb3 K) : Prop := b.mins.x ≤ b.maxs.x ∧ b.mins.y ≤ b.maxs.y ∧ b.mins.z ≤ b.maxs.z

omit [Field K] [IsStrictOrderedRing K] in
private theorem bmem_axis (b : Aabb3 K) (p : V3 K) (i : Fin 3) (h : BMem b p) :
    b.mins.get i.val ≤ p.get i.val ∧ p.get i.val ≤ b.maxs.get i.val := by
  obtain ⟨⟨h1, h2⟩, ⟨h3, h4⟩, h5, h6⟩ := h
  rcases i with ⟨_ | _ | _ | n, hi⟩ <;> simp [V3.get] <;> first | exact ⟨h1, h2⟩ | exact ⟨h3, h4⟩ | exact ⟨h5, h6⟩ | omega

/-- **C17 (box split, `Positive`)**: `canonical_split` answers `Positive` exactly when the whole box satisfies
`p[axis] ≥ bias - epsilon` — the code's convention: a box within `epsilon` *below* the plane still counts as positive,
and `Positive` has priority over `Negative` when both apply. -/
theorem aabb_split_positive_iff (b : Aabb3 K) (axis : Fin 3) (bias eps : K) (hb : ValidBox b) :
    letI := fieldNum K sq
    b.canonicalSplit axis bias eps = .positive ↔
      ∀ p, BMem b p → bias - eps ≤ p.get axis.val := by
  simp only [Aabb3.canonicalSplit]
  constructor
  · intro h p hp
    split_ifs at h with h1 h2
    exact h1.trans (bmem_axis b p axis hp).1
  · intro h
    have hm : BMem b b.mins := ⟨⟨le_refl _, hb.1⟩, ⟨le_refl _, hb.2.1⟩, le_refl _, hb.2.2⟩
    have := h _ hm
    rw [if_pos this]

/-- **C17 (box split, `Negative`)**: `Negative` is answered exactly when the whole box satisfies `p[axis] ≤ bias + epsilon`
and `Positive` does not apply (some point has `p[axis] < bias - epsilon`). -/
theorem aabb_split_negative_iff (b : Aabb3 K) (axis : Fin 3) (bias eps : K) (hb : ValidBox b) :
    letI := fieldNum K sq
    b.canonicalSplit axis bias eps = .negative ↔
      (∀ p, BMem b p → p.get axis.val ≤ bias + eps) ∧ ¬ (∀ p, BMem b p → bias - eps ≤ p.get axis.val) := by
  have hm : BMem b b.mins := ⟨⟨le_refl _, hb.1⟩, ⟨le_refl _, hb.2.1⟩, le_refl _, hb.2.2⟩
  have hM : BMem b b.maxs := ⟨⟨hb.1, le_refl _⟩, ⟨hb.2.1, le_refl _⟩, hb.2.2, le_refl _⟩
  simp only [Aabb3.canonicalSplit]
  constructor
  · intro h
    split_ifs at h with h1 h2
    exact ⟨fun p hp => (bmem_axis b p axis hp).2.trans h2, fun hall => h1 (hall _ hm)⟩
  · rintro ⟨h, hn⟩
    have h1 : ¬ (bias - eps ≤ b.mins.get axis.val) := fun h1 => hn fun p hp => h1.trans (bmem_axis b p axis hp).1
    rw [if_neg h1, if_pos (h _ hM)]

omit [Field K] [IsStrictOrderedRing K] in
private theorem bmem_set_maxs (b : Aabb3 K) (i : Fin 3) (x : K) (p : V3 K) :
    BMem ⟨b.mins, b.maxs.set i.val x⟩ p ↔ (b.mins.x ≤ p.x ∧ p.x ≤ (if i.val = 0 then x else b.maxs.x)) ∧
      (b.mins.y ≤ p.y ∧ p.y ≤ (if i.val = 1 then x else b.maxs.y)) ∧ (b.mins.z ≤ p.z ∧ p.z ≤ (if i.val = 2 then x else b.maxs.z)) := by
  rcases i with ⟨_ | _ | _ | n, hi⟩ <;> simp [BMem, V3.set] <;> omega

omit [Field K] [IsStrictOrderedRing K] in
private theorem bmem_set_mins (b : Aabb3 K) (i : Fin 3) (x : K) (p : V3 K) :
    BMem ⟨b.mins.set i.val x, b.maxs⟩ p ↔ ((if i.val = 0 then x else b.mins.x) ≤ p.x ∧ p.x ≤ b.maxs.x) ∧
      ((if i.val = 1 then x else b.mins.y) ≤ p.y ∧ p.y ≤ b.maxs.y) ∧ ((if i.val = 2 then x else b.mins.z) ≤ p.z ∧ p.z ≤ b.maxs.z) := by
  rcases i with ⟨_ | _ | _ | n, hi⟩ <;> simp [BMem, V3.set] <;> omega

/-- **C17 (box split, `Pair`)**: when `canonical_split` returns `Pair l r`, the box has points strictly beyond
`bias - epsilon` and `bias + epsilon`; `l ∪ r = b` as point sets; `l` lies in the closed negative half-space `p[axis] ≤ bias`,
`r` in the closed positive half-space `bias ≤ p[axis]`; and `volume l + volume r = volume b`. -/
theorem aabb_split_pair_spec (b l r : Aabb3 K) (axis : Fin 3) (bias eps : K) (he : 0 ≤ eps)
    (h : letI := fieldNum K sq; b.canonicalSplit axis bias eps = .pair l r) :
    letI := fieldNum K sq
    (b.mins.get axis.val < bias - eps ∧ bias + eps < b.maxs.get axis.val) ∧
    (∀ p, BMem b p ↔ (BMem l p ∨ BMem r p)) ∧
    (∀ p, BMem l p → p.get axis.val ≤ bias) ∧ (∀ p, BMem r p → bias ≤ p.get axis.val) ∧
    l.volume + r.volume = b.volume := by
  simp only [Aabb3.canonicalSplit] at h
  split_ifs at h with h1 h2
  injection h with hl hr
  subst hl hr
  push Not at h1 h2
  refine ⟨⟨h1, h2⟩, ?_, ?_, ?_, ?_⟩
  · intro p
    rw [bmem_set_maxs, bmem_set_mins]
    rcases axis with ⟨_ | _ | _ | n, hi⟩
    · simp [V3.get] at h1 h2; simp only [BMem]; simp
      constructor
      · rintro ⟨⟨a1, a2⟩, a3, a4⟩
        rcases le_total p.x bias with c | c
        · exact Or.inl ⟨⟨a1, c⟩, a3, a4⟩
        · exact Or.inr ⟨⟨c, a2⟩, a3, a4⟩
      · rintro (⟨⟨a1, a2⟩, a3, a4⟩ | ⟨⟨a1, a2⟩, a3, a4⟩)
        · exact ⟨⟨a1, by linarith⟩, a3, a4⟩
        · exact ⟨⟨by linarith, a2⟩, a3, a4⟩
    · simp [V3.get] at h1 h2; simp only [BMem]; simp
      constructor
      · rintro ⟨a0, ⟨a1, a2⟩, a4⟩
        rcases le_total p.y bias with c | c
        · exact Or.inl ⟨a0, ⟨a1, c⟩, a4⟩
        · exact Or.inr ⟨a0, ⟨c, a2⟩, a4⟩
      · rintro (⟨a0, ⟨a1, a2⟩, a4⟩ | ⟨a0, ⟨a1, a2⟩, a4⟩)
        · exact ⟨a0, ⟨a1, by linarith⟩, a4⟩
        · exact ⟨a0, ⟨by linarith, a2⟩, a4⟩
    · simp [V3.get] at h1 h2; simp only [BMem]; simp
      constructor
      · rintro ⟨a0, a3, a1, a2⟩
        rcases le_total p.z bias with c | c
        · exact Or.inl ⟨a0, a3, a1, c⟩
        · exact Or.inr ⟨a0, a3, c, a2⟩
      · rintro (⟨a0, a3, a1, a2⟩ | ⟨a0, a3, a1, a2⟩)
        · exact ⟨a0, a3, a1, by linarith⟩
        · exact ⟨a0, a3, by linarith, a2⟩
    · omega
  · intro p hp
    rw [bmem_set_maxs] at hp
    rcases axis with ⟨_ | _ | _ | n, hi⟩ <;> simp [V3.get] at hp ⊢ <;> first | omega | tauto
  · intro p hp
    rw [bmem_set_mins] at hp
    rcases axis with ⟨_ | _ | _ | n, hi⟩ <;> simp [V3.get] at hp ⊢ <;> first | omega | tauto
  · rcases axis with ⟨_ | _ | _ | n, hi⟩ <;> simp [Aabb3.volume, Aabb3.extents, V3.sub, V3.set] <;> first | omega | ring

example : (letI := fieldNum ℚ id; (⟨⟨0, 0, 0⟩, ⟨2, 1, 1⟩⟩ : Aabb3 ℚ).canonicalSplit 0 1 (1/4)
    = .pair ⟨⟨0, 0, 0⟩, ⟨1, 1, 1⟩⟩ ⟨⟨1, 0, 0⟩, ⟨2, 1, 1⟩⟩) := by
  simp [Aabb3.canonicalSplit, V3.get, V3.set]; norm_num

end C17
