import ParryModel.C17.Lemmas
import ParryModel.C17.Theorems2
import ParryModel.C17.Theorems3
import ParryModel.C17.Theorems4
import ParryModel.C17.Theorems5
import ParryModel.C17.Theorems6
import ParryModel.C17.Theorems7
import ParryModel.C17.Theorems9
import ParryModel.C17.Theorems10
import ParryModel.C17.Theorems11
/-!
# C17 property theorems: cutting and clipping, for every linearly ordered field.
All statements quantify over the model functions of `C17/Model.lean` instantiated at the lawful instance `fieldNum K sq`.
Specification vocabulary (defined with docstrings in `C17/Lemmas.lean`): `C09.BMem` (closed box), `ValidBox`, `IntMem` (open box), `InteriorDisjoint`,
`lineAt o d t` (= `o + t·d`), `big K` (= `f64::MAX`), `eps52 K` (= `f64::EPSILON`), `FaceHit` (side index ↔ face of the box), `replayCuts`
(replay of a cut sequence with `canonical_split`), `segPt a b t` (= `a + t(b-a)`), `hsVal c n p` (= `n·(p-c)`), `Hull` (convex hull as the
least segment-closed set), `SHVertex` (provenance of a Sutherland–Hodgman output vertex), `proj1` (projection on a segment's direction);
half-spaces of planes are inequalities on `V3.dot`.
-/
namespace C17
open Model C09

set_option linter.unusedSectionVars false
set_option linter.unusedTactic false
set_option linter.unreachableTactic false
set_option linter.style.haveILetI false

variable {K : Type} [Field K] [LinearOrder K] [IsStrictOrderedRing K] (sq : K → K)

/-! ## `Aabb::canonical_split` -/

omit [Field K] [IsStrictOrderedRing K] in
private theorem bmem_axis (b : Aabb3 K) (p : V3 K) (i : Fin 3) (h : BMem b p) :
    b.mins.get i.val ≤ p.get i.val ∧ p.get i.val ≤ b.maxs.get i.val := by
  obtain ⟨⟨h1, h2⟩, ⟨h3, h4⟩, h5, h6⟩ := h
  rcases i with ⟨_ | _ | _ | n, hi⟩ <;> simp [V3.get] <;> first | exact ⟨h1, h2⟩ | exact ⟨h3, h4⟩ | exact ⟨h5, h6⟩ | omega

/-- **C17 (box split, `Positive`)**: `canonical_split` answers `Positive` exactly when the whole box satisfies
`p[axis] ≥ bias - epsilon` — the code's convention: a box within `epsilon` *below* the plane still counts as positive,
and `Positive` has priority over `Negative` when both apply. -/
theorem aabb_split_positive_iff (b : Aabb3 K) (axis : Fin 3) (bias eps : K) (hb : ValidBox b) :
    letI := fieldNum K sq
    b.canonicalSplit axis bias eps = .positive ↔
      ∀ p, BMem b p → bias - eps ≤ p.get axis.val := by
  simp only [Aabb3.canonicalSplit]
  constructor
  · intro h p hp
    split_ifs at h with h1 h2
    exact h1.trans (bmem_axis b p axis hp).1
  · intro h
    have hb0 := hb 0; have hb1 := hb 1; have hb2 := hb 2
    simp [V3.get] at hb0 hb1 hb2
    have hm : BMem b b.mins := ⟨⟨le_refl _, hb0⟩, ⟨le_refl _, hb1⟩, le_refl _, hb2⟩
    have := h _ hm
    rw [if_pos this]

/-- **C17 (box split, `Negative`)**: `Negative` is answered exactly when the whole box satisfies `p[axis] ≤ bias + epsilon`
and `Positive` does not apply (some point has `p[axis] < bias - epsilon`). -/
theorem aabb_split_negative_iff (b : Aabb3 K) (axis : Fin 3) (bias eps : K) (hb : ValidBox b) :
    letI := fieldNum K sq
    b.canonicalSplit axis bias eps = .negative ↔
      (∀ p, BMem b p → p.get axis.val ≤ bias + eps) ∧ ¬ (∀ p, BMem b p → bias - eps ≤ p.get axis.val) := by
  have hb0 := hb 0; have hb1 := hb 1; have hb2 := hb 2
  simp [V3.get] at hb0 hb1 hb2
  have hm : BMem b b.mins := ⟨⟨le_refl _, hb0⟩, ⟨le_refl _, hb1⟩, le_refl _, hb2⟩
  have hM : BMem b b.maxs := ⟨⟨hb0, le_refl _⟩, ⟨hb1, le_refl _⟩, hb2, le_refl _⟩
  simp only [Aabb3.canonicalSplit]
  constructor
  · intro h
    split_ifs at h with h1 h2
    exact ⟨fun p hp => (bmem_axis b p axis hp).2.trans h2, fun hall => h1 (hall _ hm)⟩
  · rintro ⟨h, hn⟩
    have h1 : ¬ (bias - eps ≤ b.mins.get axis.val) := fun h1 => hn fun p hp => h1.trans (bmem_axis b p axis hp).1
    rw [if_neg h1, if_pos (h _ hM)]

omit [Field K] [IsStrictOrderedRing K] in
private theorem bmem_set_maxs (b : Aabb3 K) (i : Fin 3) (x : K) (p : V3 K) :
    BMem ⟨b.mins, b.maxs.set i.val x⟩ p ↔ (b.mins.x ≤ p.x ∧ p.x ≤ (if i.val = 0 then x else b.maxs.x)) ∧
      (b.mins.y ≤ p.y ∧ p.y ≤ (if i.val = 1 then x else b.maxs.y)) ∧ (b.mins.z ≤ p.z ∧ p.z ≤ (if i.val = 2 then x else b.maxs.z)) := by
  rcases i with ⟨_ | _ | _ | n, hi⟩ <;> simp [BMem, V3.set] <;> omega

omit [Field K] [IsStrictOrderedRing K] in
private theorem bmem_set_mins (b : Aabb3 K) (i : Fin 3) (x : K) (p : V3 K) :
    BMem ⟨b.mins.set i.val x, b.maxs⟩ p ↔ ((if i.val = 0 then x else b.mins.x) ≤ p.x ∧ p.x ≤ b.maxs.x) ∧
      ((if i.val = 1 then x else b.mins.y) ≤ p.y ∧ p.y ≤ b.maxs.y) ∧ ((if i.val = 2 then x else b.mins.z) ≤ p.z ∧ p.z ≤ b.maxs.z) := by
  rcases i with ⟨_ | _ | _ | n, hi⟩ <;> simp [BMem, V3.set] <;> omega

/-- **C17 (box split, `Pair`)**: when `canonical_split` returns `Pair l r`, the box has points strictly beyond
`bias - epsilon` and `bias + epsilon`; `l ∪ r = b` as point sets; `l` lies in the closed negative half-space `p[axis] ≤ bias`,
`r` in the closed positive half-space `bias ≤ p[axis]`; and `volume l + volume r = volume b`. -/
theorem aabb_split_pair_spec (b l r : Aabb3 K) (axis : Fin 3) (bias eps : K) (he : 0 ≤ eps)
    (h : letI := fieldNum K sq; b.canonicalSplit axis bias eps = .pair l r) :
    letI := fieldNum K sq
    (b.mins.get axis.val < bias - eps ∧ bias + eps < b.maxs.get axis.val) ∧
    (∀ p, BMem b p ↔ (BMem l p ∨ BMem r p)) ∧
    (∀ p, BMem l p → p.get axis.val ≤ bias) ∧ (∀ p, BMem r p → bias ≤ p.get axis.val) ∧
    l.volume + r.volume = b.volume := by
  simp only [Aabb3.canonicalSplit] at h
  split_ifs at h with h1 h2
  injection h with hl hr
  subst hl hr
  push Not at h1 h2
  refine ⟨⟨h1, h2⟩, ?_, ?_, ?_, ?_⟩
  · intro p
    rw [bmem_set_maxs, bmem_set_mins]
    rcases axis with ⟨_ | _ | _ | n, hi⟩
    · simp [V3.get] at h1 h2; simp only [BMem]; simp
      constructor
      · rintro ⟨⟨a1, a2⟩, a3, a4⟩
        rcases le_total p.x bias with c | c
        · exact Or.inl ⟨⟨a1, c⟩, a3, a4⟩
        · exact Or.inr ⟨⟨c, a2⟩, a3, a4⟩
      · rintro (⟨⟨a1, a2⟩, a3, a4⟩ | ⟨⟨a1, a2⟩, a3, a4⟩)
        · exact ⟨⟨a1, by linarith⟩, a3, a4⟩
        · exact ⟨⟨by linarith, a2⟩, a3, a4⟩
    · simp [V3.get] at h1 h2; simp only [BMem]; simp
      constructor
      · rintro ⟨a0, ⟨a1, a2⟩, a4⟩
        rcases le_total p.y bias with c | c
        · exact Or.inl ⟨a0, ⟨a1, c⟩, a4⟩
        · exact Or.inr ⟨a0, ⟨c, a2⟩, a4⟩
      · rintro (⟨a0, ⟨a1, a2⟩, a4⟩ | ⟨a0, ⟨a1, a2⟩, a4⟩)
        · exact ⟨a0, ⟨a1, by linarith⟩, a4⟩
        · exact ⟨a0, ⟨by linarith, a2⟩, a4⟩
    · simp [V3.get] at h1 h2; simp only [BMem]; simp
      constructor
      · rintro ⟨a0, a3, a1, a2⟩
        rcases le_total p.z bias with c | c
        · exact Or.inl ⟨a0, a3, a1, c⟩
        · exact Or.inr ⟨a0, a3, c, a2⟩
      · rintro (⟨a0, a3, a1, a2⟩ | ⟨a0, a3, a1, a2⟩)
        · exact ⟨a0, a3, a1, by linarith⟩
        · exact ⟨a0, a3, by linarith, a2⟩
    · omega
  · intro p hp
    rw [bmem_set_maxs] at hp
    rcases axis with ⟨_ | _ | _ | n, hi⟩ <;> simp [V3.get] at hp ⊢ <;> first | omega | tauto
  · intro p hp
    rw [bmem_set_mins] at hp
    rcases axis with ⟨_ | _ | _ | n, hi⟩ <;> simp [V3.get] at hp ⊢ <;> first | omega | tauto
  · rcases axis with ⟨_ | _ | _ | n, hi⟩ <;> simp [Aabb3.volume, Aabb3.extents, V3.sub, V3.set] <;> first | omega | ring

example : (letI := fieldNum ℚ id; (⟨⟨0, 0, 0⟩, ⟨2, 1, 1⟩⟩ : Aabb3 ℚ).canonicalSplit 0 1 (1/4)
    = .pair ⟨⟨0, 0, 0⟩, ⟨1, 1, 1⟩⟩ ⟨⟨1, 0, 0⟩, ⟨2, 1, 1⟩⟩) := by
  simp [Aabb3.canonicalSplit, V3.get, V3.set]; norm_num


/-! ## `Segment::local_split_and_get_intersection` -/

/-- **C17 (segment split, `Negative`)**: for a unit normal and `epsilon ≥ 0`, when the split answers `Negative` every point of
the segment is in the negative half-space up to `epsilon + f64::EPSILON`: `n·p - bias ≤ epsilon + 2⁻⁵²`.
(The `2⁻⁵²` is the code's `relative_eq!(n·dir, 0)` parallelism test; `epsilon` is measured *along the segment* by the code,
which bounds the distance to the plane because `|n·dir| ≤ |dir|`.) -/
theorem segment_split_negative (hs : LawfulSqrt sq) (s : Segment3 K) (n : V3 K) (bias eps : K) (he : 0 ≤ eps)
    (hn : letI := fieldNum K sq; n.dot n = 1)
    (h : letI := fieldNum K sq; (s.localSplit n bias eps).1 = .negative) :
    letI := fieldNum K sq
    ∀ p, s.Mem p → n.dot p - bias ≤ eps + eps52 K := by
  letI : Num K := fieldNum K sq
  rintro p ⟨u, hu0, hu1, rfl⟩
  rw [sdist_on_segment sq]
  have hcs := abs_dot_le_norm sq hs n (s.b.sub s.a) hn
  simp only [Segment3.localSplit] at h
  have hl : ((mkRat 1 2 : Rat) : K) = 1 / 2 := by norm_num
  simp only [fieldNum_lit, hl] at h
  split_ifs at h with c1 c2 c3
  · simp only [Bool.or_eq_true, decide_eq_true_eq, relEqZero_iff] at c1
    exact nosplit_bound _ _ _ eps (eps52 K) u hcs he eps52_pos.le hu0 hu1 c2 (by tauto)


/-- **C17 (segment split, `Positive`)**: symmetric statement: `Positive` ⇒ `n·p - bias ≥ -(epsilon + 2⁻⁵²)` on the whole segment. -/
theorem segment_split_positive (hs : LawfulSqrt sq) (s : Segment3 K) (n : V3 K) (bias eps : K) (he : 0 ≤ eps)
    (hn : letI := fieldNum K sq; n.dot n = 1)
    (h : letI := fieldNum K sq; (s.localSplit n bias eps).1 = .positive) :
    letI := fieldNum K sq
    ∀ p, s.Mem p → -(eps + eps52 K) ≤ n.dot p - bias := by
  letI : Num K := fieldNum K sq
  rintro p ⟨u, hu0, hu1, rfl⟩
  rw [sdist_on_segment sq]
  have hcs := abs_dot_le_norm sq hs n (s.b.sub s.a) hn
  simp only [Segment3.localSplit] at h
  have hl : ((mkRat 1 2 : Rat) : K) = 1 / 2 := by norm_num
  simp only [fieldNum_lit, hl] at h
  split_ifs at h with c1 c2 c3
  · simp only [Bool.or_eq_true, decide_eq_true_eq, relEqZero_iff] at c1
    push Not at c2
    have key := nosplit_bound (-(n.dot (s.b.sub s.a))) (-(bias - n.dot s.a)) ((s.b.sub s.a).norm) eps (eps52 K) u
      (by rw [abs_neg]; exact hcs) he eps52_pos.le hu0 hu1 (by linarith)
      (by rw [abs_neg, neg_div_neg_eq]; tauto)
    linarith


/-- **C17 (segment split, `Pair`)**: when the split returns `Pair(l, r)` with intersection `(I, t)`:
`0 < t < 1`, `I = a + t(b-a)` lies exactly on the plane, the end points are strictly on opposite sides, `l` is the piece
`[a,I]` or `[I,b]` on the non-positive side and `r` the other one; every point of `l` has `n·p ≤ bias`, every point of `r`
has `n·p ≥ bias` (closed half-spaces, no epsilon); the lengths add up: `|l| + |r| = |ab|`. -/
theorem segment_split_pair (hs : LawfulSqrt sq) (s l r : Segment3 K) (n : V3 K) (bias eps : K) (he : 0 ≤ eps)
    (oi : Option (V3 K × K))
    (h : letI := fieldNum K sq; s.localSplit n bias eps = (.pair l r, oi)) :
    letI := fieldNum K sq
    ∃ I t, oi = some (I, t) ∧ 0 < t ∧ t < 1 ∧ I = s.a.add ((s.b.sub s.a).smul t) ∧ n.dot I - bias = 0 ∧
      ((l = ⟨s.a, I⟩ ∧ r = ⟨I, s.b⟩ ∧ n.dot s.a - bias < 0 ∧ 0 < n.dot s.b - bias) ∨
       (l = ⟨I, s.b⟩ ∧ r = ⟨s.a, I⟩ ∧ n.dot s.b - bias < 0 ∧ 0 < n.dot s.a - bias)) ∧
      (∀ p, l.Mem p → n.dot p - bias ≤ 0) ∧ (∀ p, r.Mem p → 0 ≤ n.dot p - bias) ∧
      (l.b.sub l.a).norm + (r.b.sub r.a).norm = (s.b.sub s.a).norm := by
  letI : Num K := fieldNum K sq
  simp only [Segment3.localSplit] at h
  split_ifs at h with c1 c2 c3
  all_goals simp only [Prod.mk.injEq, Split.pair.injEq, reduceCtorEq, false_and] at h
  all_goals simp only [Bool.or_eq_true, decide_eq_true_eq, relEqZero_iff, not_or, not_le] at c1
  all_goals obtain ⟨⟨cb, ct0⟩, ct1⟩ := c1
  all_goals obtain ⟨⟨hl', hr'⟩, hoi⟩ := h
  all_goals subst hl' hr'
  all_goals
    have hL0 : 0 ≤ (s.b.sub s.a).norm := by
      simp only [V3.norm, fieldNum_sqrt]; apply hs.nonneg
      simp only [V3.normSq, V3.dot]
      nlinarith [mul_self_nonneg (s.b.sub s.a).x, mul_self_nonneg (s.b.sub s.a).y, mul_self_nonneg (s.b.sub s.a).z]
  all_goals
    have hb0 : n.dot (s.b.sub s.a) ≠ 0 := by
      intro h0; rw [h0, abs_zero] at cb; exact absurd eps52_pos (not_lt.mpr cb.le)
  all_goals
    have hLpos : 0 < (s.b.sub s.a).norm := by
      rcases eq_or_lt_of_le hL0 with h0 | h0
      · rw [← h0, mul_zero] at ct0; linarith
      · exact h0
  all_goals
    have ht0 : 0 < (bias - n.dot s.a) / n.dot (s.b.sub s.a) := by
      by_contra hcon; push Not at hcon; nlinarith
  all_goals
    have ht1 : (bias - n.dot s.a) / n.dot (s.b.sub s.a) < 1 := by
      by_contra hcon; push Not at hcon; nlinarith
  all_goals
    have hap : bias - n.dot s.a = (bias - n.dot s.a) / n.dot (s.b.sub s.a) * n.dot (s.b.sub s.a) := by field_simp
  all_goals
    have hI : n.dot (s.a.add ((s.b.sub s.a).smul ((bias - n.dot s.a) / n.dot (s.b.sub s.a)))) - bias = 0 := by
      rw [sdist_on_segment sq]; linarith
  all_goals obtain ⟨pn1, pn2⟩ := piece_norms sq hs s.a s.b _ ht0.le ht1.le
  all_goals generalize htdef : (bias - n.dot s.a) / n.dot (s.b.sub s.a) = t at *
  all_goals refine ⟨_, t, hoi.symm, ht0, ht1, rfl, hI, ?_, ?_, ?_, ?_⟩
  -- branch `0 ≤ a`: l = [a, I], r = [I, b]
  · have hbpos : 0 < n.dot (s.b.sub s.a) := by
      rcases lt_or_gt_of_ne hb0 with hneg | hpos
      · nlinarith
      · exact hpos
    have hsb : n.dot s.b - bias = -(bias - n.dot s.a) + n.dot (s.b.sub s.a) := by
      simp only [V3.dot, V3.sub]; ring
    left; refine ⟨rfl, rfl, ?_, ?_⟩
    · nlinarith
    · rw [hsb]; nlinarith
  · rintro p ⟨u, hu0, hu1, rfl⟩
    rw [sdist_on_segment sq]
    have : n.dot ((s.a.add ((s.b.sub s.a).smul t)).sub s.a) = t * n.dot (s.b.sub s.a) := by
      simp only [V3.dot, V3.add, V3.sub, V3.smul]; ring
    rw [this]; nlinarith
  · rintro p ⟨u, hu0, hu1, rfl⟩
    have e := sdist_on_segment sq (s.a.add ((s.b.sub s.a).smul t)) s.b n bias u
    rw [e]
    have : n.dot (s.b.sub (s.a.add ((s.b.sub s.a).smul t))) = (1 - t) * n.dot (s.b.sub s.a) := by
      simp only [V3.dot, V3.add, V3.sub, V3.smul]; ring
    rw [this]
    have hbpos : 0 < n.dot (s.b.sub s.a) := by
      rcases lt_or_gt_of_ne hb0 with hneg | hpos
      · nlinarith
      · exact hpos
    nlinarith [mul_nonneg hu0 (mul_nonneg (by linarith : (0:K) ≤ 1 - t) hbpos.le)]
  · simp only []; rw [pn1, pn2]; ring
  -- branch `a < 0`: l = [I, b], r = [a, I]
  · have c2 : bias - n.dot s.a < 0 := not_le.mp ‹¬ (0 ≤ bias - n.dot s.a)›
    have hbneg : n.dot (s.b.sub s.a) < 0 := by
      rcases lt_or_gt_of_ne hb0 with hneg | hpos
      · exact hneg
      · nlinarith
    have hsb : n.dot s.b - bias = -(bias - n.dot s.a) + n.dot (s.b.sub s.a) := by
      simp only [V3.dot, V3.sub]; ring
    right; refine ⟨rfl, rfl, ?_, ?_⟩
    · rw [hsb]; nlinarith
    · nlinarith
  · rintro p ⟨u, hu0, hu1, rfl⟩
    have c2 : bias - n.dot s.a < 0 := not_le.mp ‹¬ (0 ≤ bias - n.dot s.a)›
    have e := sdist_on_segment sq (s.a.add ((s.b.sub s.a).smul t)) s.b n bias u
    rw [e]
    have : n.dot (s.b.sub (s.a.add ((s.b.sub s.a).smul t))) = (1 - t) * n.dot (s.b.sub s.a) := by
      simp only [V3.dot, V3.add, V3.sub, V3.smul]; ring
    rw [this]
    have hbneg : n.dot (s.b.sub s.a) < 0 := by
      rcases lt_or_gt_of_ne hb0 with hneg | hpos
      · exact hneg
      · nlinarith
    nlinarith [mul_nonneg hu0 (mul_nonneg (by linarith : (0:K) ≤ 1 - t) (neg_nonneg.2 hbneg.le))]
  · rintro p ⟨u, hu0, hu1, rfl⟩
    have c2 : bias - n.dot s.a < 0 := not_le.mp ‹¬ (0 ≤ bias - n.dot s.a)›
    rw [sdist_on_segment sq]
    have : n.dot ((s.a.add ((s.b.sub s.a).smul t)).sub s.a) = t * n.dot (s.b.sub s.a) := by
      simp only [V3.dot, V3.add, V3.sub, V3.smul]; ring
    rw [this]; nlinarith
  · simp only []; rw [pn1, pn2]; ring


/-- **C17 (segment split, `Negative ⇐`)**: a segment whose two end points satisfy `n·p ≤ bias` (i.e. the whole segment lies in
the closed negative half-space) is reported `Negative` — never `Pair`, never `Positive` (a segment lying in the plane counts as
negative: the tie convention `>= 0.0` of the code). No hypothesis on `n`. -/
theorem segment_split_negative_of_side (hs : LawfulSqrt sq) (s : Segment3 K) (n : V3 K) (bias eps : K) (he : 0 ≤ eps)
    (ha : letI := fieldNum K sq; n.dot s.a - bias ≤ 0) (hb : letI := fieldNum K sq; n.dot s.b - bias ≤ 0) :
    letI := fieldNum K sq
    s.localSplit n bias eps = (.negative, none) := by
  letI : Num K := fieldNum K sq
  have hc := nosplit_of_same_side sq hs s n bias eps he (Or.inl ⟨ha, hb⟩)
  have hl : ((mkRat 1 2 : Rat) : K) = 1 / 2 := by norm_num
  have hd := dot_sub_eq sq s.a s.b n bias
  simp only [Segment3.localSplit, hc, if_true, fieldNum_lit, hl]
  rw [if_pos]
  rw [hd]; linarith

/-- **C17 (segment split, `Positive ⇐`)**: a segment whose end points satisfy `n·p ≥ bias`, not both on the plane, is reported
`Positive` (this is the clause the pinned tree violates: `(0,0,0)-(1,0,0)` against the plane `x = 0` is reported `Negative`). -/
theorem segment_split_positive_of_side (hs : LawfulSqrt sq) (s : Segment3 K) (n : V3 K) (bias eps : K) (he : 0 ≤ eps)
    (ha : letI := fieldNum K sq; 0 ≤ n.dot s.a - bias) (hb : letI := fieldNum K sq; 0 ≤ n.dot s.b - bias)
    (hne : letI := fieldNum K sq; 0 < n.dot s.a - bias ∨ 0 < n.dot s.b - bias) :
    letI := fieldNum K sq
    s.localSplit n bias eps = (.positive, none) := by
  letI : Num K := fieldNum K sq
  have hc := nosplit_of_same_side sq hs s n bias eps he (Or.inr ⟨ha, hb⟩)
  have hl : ((mkRat 1 2 : Rat) : K) = 1 / 2 := by norm_num
  have hd := dot_sub_eq sq s.a s.b n bias
  simp only [Segment3.localSplit, hc, if_true, fieldNum_lit, hl]
  rw [if_neg]
  rw [hd]; push Not; rcases hne with h | h <;> linarith

/-- **C17 (segment split, `Pair ⇐`)**: for a unit normal, if the end points are farther than `epsilon` from the plane on opposite
sides (and the segment is not parallel to the plane up to the code's `relative_eq!` threshold: `|n·(b-a)| > 2⁻⁵²`, automatic
when `epsilon ≥ 2⁻⁵³`), the split returns a `Pair` with an intersection point. For `epsilon = 0` the threshold matters: this is
the input class on which `TriMesh::local_split`'s `intersect_edge` reaches `unreachable!()`. -/
theorem segment_split_pair_of_sides (hs : LawfulSqrt sq) (s : Segment3 K) (n : V3 K) (bias eps : K) (he : 0 ≤ eps)
    (hn : letI := fieldNum K sq; n.dot n = 1)
    (hab : letI := fieldNum K sq; (n.dot s.a - bias < -eps ∧ eps < n.dot s.b - bias) ∨ (n.dot s.b - bias < -eps ∧ eps < n.dot s.a - bias))
    (hpar : letI := fieldNum K sq; eps52 K < |n.dot (s.b.sub s.a)|) :
    letI := fieldNum K sq
    ∃ l r I t, s.localSplit n bias eps = (.pair l r, some (I, t)) := by
  letI : Num K := fieldNum K sq
  have hcs := abs_dot_le_norm sq hs n (s.b.sub s.a) hn
  have hd := dot_sub_eq sq s.a s.b n bias
  have hb0 : n.dot (s.b.sub s.a) ≠ 0 := by
    intro h0; rw [h0, abs_zero] at hpar; exact absurd eps52_pos (not_lt.mpr hpar.le)
  have hc : (relEqZero (n.dot (s.b.sub s.a)) || decide ((bias - n.dot s.a) / n.dot (s.b.sub s.a) * (s.b.sub s.a).norm ≤ eps) ||
      decide ((s.b.sub s.a).norm - eps ≤ (bias - n.dot s.a) / n.dot (s.b.sub s.a) * (s.b.sub s.a).norm)) = false := by
    rw [Bool.eq_false_iff]
    simp only [ne_eq, Bool.or_eq_true, decide_eq_true_eq, relEqZero_iff, not_or, not_le]
    generalize (s.b.sub s.a).norm = L at *
    generalize hbp : n.dot (s.b.sub s.a) = bp at *
    obtain ⟨t0, ht0⟩ : ∃ t0, t0 = (bias - n.dot s.a) / bp := ⟨_, rfl⟩
    have hap : bias - n.dot s.a = t0 * bp := by rw [ht0]; field_simp
    rw [← ht0]
    rcases abs_le.mp hcs with ⟨l1, l2⟩
    refine ⟨⟨hpar, ?_⟩, ?_⟩
    · rcases lt_or_gt_of_ne hb0 with hneg | hpos
      · have : t0 ≤ 0 ∨ 0 < t0 := le_or_gt t0 0
        rcases hab with ⟨h1, h2⟩ | ⟨h1, h2⟩
        · nlinarith
        · have ht : 0 < t0 := by by_contra hcon; push Not at hcon; nlinarith
          nlinarith [mul_nonneg ht.le (by linarith : (0:K) ≤ L + bp)]
      · rcases hab with ⟨h1, h2⟩ | ⟨h1, h2⟩
        · have ht : 0 < t0 := by by_contra hcon; push Not at hcon; nlinarith
          nlinarith [mul_nonneg ht.le (by linarith : (0:K) ≤ L - bp)]
        · nlinarith
    · rcases lt_or_gt_of_ne hb0 with hneg | hpos
      · rcases hab with ⟨h1, h2⟩ | ⟨h1, h2⟩
        · nlinarith
        · have ht : t0 < 1 := by by_contra hcon; push Not at hcon; nlinarith
          nlinarith [mul_nonneg (by linarith : (0:K) ≤ 1 - t0) (by linarith : (0:K) ≤ L + bp)]
      · rcases hab with ⟨h1, h2⟩ | ⟨h1, h2⟩
        · have ht : t0 < 1 := by by_contra hcon; push Not at hcon; nlinarith
          nlinarith [mul_nonneg (by linarith : (0:K) ≤ 1 - t0) (by linarith : (0:K) ≤ L - bp)]
        · nlinarith
  simp only [Segment3.localSplit, hc, Bool.false_eq_true, if_false]
  split_ifs
  · exact ⟨_, _, _, _, rfl⟩
  · exact ⟨_, _, _, _, rfl⟩


/-! non-vacuity (evaluated at the exact `Rat` instance, whose `sqrt` is exact on perfect squares): a 3-4-5 segment cut in the
middle, one touching the plane at `a` with `b` on the positive side (`Positive`; the pinned tree says `Negative`), one inside
the negative side. -/
example : (((Segment3.mk ⟨0, 0, 0⟩ ⟨3, 4, 0⟩ : Segment3 Rat).localSplit ⟨1, 0, 0⟩ (3/2) 0).2.map fun (p, t) => (p.x, p.y, p.z, t))
    = some (3/2, 2, 0, 1/2) := by
  decide +kernel
example : (match ((Segment3.mk ⟨0, 0, 0⟩ ⟨3, 4, 0⟩ : Segment3 Rat).localSplit ⟨1, 0, 0⟩ 0 0).1 with | .positive => true | _ => false) = true := by
  decide +kernel
example : (match ((Segment3.mk ⟨0, 0, 0⟩ ⟨3, 4, 0⟩ : Segment3 Rat).localSplit ⟨1, 0, 0⟩ 5 (1/4)).1 with | .negative => true | _ => false) = true := by
  decide +kernel

/-! ## `Aabb::difference_with_cut_sequence` -/

/-- **C17 (`Aabb::difference_with_cut_sequence`)**: for every box `self` and every valid `rhs`, with `pieces` the returned
fragments: (1) `pieces ∪ (self ∩ rhs) = self` as point sets; (2) the fragments are pairwise interior-disjoint;
(3) no fragment overlaps the interior of `rhs` (they really are the difference). -/
theorem aabb_difference_spec (a rhs : Aabb3 K) (hr : ValidBox rhs) :
    letI := fieldNum K sq
    (∀ p, BMem a p ↔ ((BMem a p ∧ BMem rhs p) ∨ ∃ f ∈ (a.differenceWithCutSequence rhs).1, BMem f p)) ∧
    (a.differenceWithCutSequence rhs).1.Pairwise InteriorDisjoint ∧
    (∀ f ∈ (a.differenceWithCutSequence rhs).1, InteriorDisjoint f rhs) := by
  letI : Num K := fieldNum K sq
  simp only [Aabb3.differenceWithCutSequence, Aabb3.differenceState]
  split_ifs with hdis
  · simp only [Bool.or_eq_true] at hdis
    refine ⟨?_, List.pairwise_singleton _ _, ?_⟩
    · intro p; simp only [List.mem_singleton, exists_eq_left]; tauto
    · intro f hf; simp only [List.mem_singleton] at hf; subst hf
      rcases hdis with (h | h) | h
      · exact disjointOn_interior sq f rhs 0 h
      · exact disjointOn_interior sq f rhs 1 h
      · exact disjointOn_interior sq f rhs 2 h
  · simp only [Bool.or_eq_true, not_or, Aabb3.diffDisjointOn, decide_eq_true_eq, not_le] at hdis
    obtain ⟨⟨⟨h0a, h0b⟩, h1a, h1b⟩, h2a, h2b⟩ := hdis
    have inv0 : DiffInv a rhs a [] := ⟨fun p => by simp, fun f hf => by simp at hf, fun f hf => by simp at hf, List.Pairwise.nil⟩
    set st0 : Aabb3.DiffState K := { rest := a, pieces := [], cuts := [] } with hst0
    obtain ⟨i0, m0, M0⟩ := diffStep_inv sq a rhs st0 0 inv0 h0a h0b (hr 0)
    set st1 := Aabb3.diffStep rhs st0 0 with hst1
    have e1a : st1.rest.mins.get (1 : Fin 3).val = a.mins.get (1 : Fin 3).val := by rw [m0 1]; simp [hst0]
    have e1b : st1.rest.maxs.get (1 : Fin 3).val = a.maxs.get (1 : Fin 3).val := by rw [M0 1]; simp [hst0]
    obtain ⟨i1, m1, M1⟩ := diffStep_inv sq a rhs st1 1 i0 (by rw [e1a]; exact h1a) (by rw [e1b]; exact h1b) (hr 1)
    set st2 := Aabb3.diffStep rhs st1 1 with hst2
    have e2a : st2.rest.mins.get (2 : Fin 3).val = a.mins.get (2 : Fin 3).val := by rw [m1 2, m0 2]; simp [hst0]
    have e2b : st2.rest.maxs.get (2 : Fin 3).val = a.maxs.get (2 : Fin 3).val := by rw [M1 2, M0 2]; simp [hst0]
    obtain ⟨i2, m2, M2⟩ := diffStep_inv sq a rhs st2 2 i1 (by rw [e2a]; exact h2a) (by rw [e2b]; exact h2b) (hr 2)
    set st3 := Aabb3.diffStep rhs st2 2 with hst3
    obtain ⟨cov, _, rhd, pw⟩ := i2
    -- the final `rest` is `self ∩ rhs`
    have hmins : ∀ j : Fin 3, st3.rest.mins.get j.val = max (a.mins.get j.val) (rhs.mins.get j.val) := by
      intro j
      rcases j with ⟨_ | _ | _ | n, hj⟩
      · rw [m2 ⟨0, hj⟩, m1 ⟨0, hj⟩, m0 ⟨0, hj⟩]; simp [hst0]
      · rw [m2 ⟨1, hj⟩, m1 ⟨1, hj⟩]; simp; exact congrArg (max · _) e1a
      · rw [m2 ⟨2, hj⟩]; simp; exact congrArg (max · _) e2a
      · omega
    have hmaxs : ∀ j : Fin 3, st3.rest.maxs.get j.val = min (a.maxs.get j.val) (rhs.maxs.get j.val) := by
      intro j
      rcases j with ⟨_ | _ | _ | n, hj⟩
      · rw [M2 ⟨0, hj⟩, M1 ⟨0, hj⟩, M0 ⟨0, hj⟩]; simp [hst0]
      · rw [M2 ⟨1, hj⟩, M1 ⟨1, hj⟩]; simp; exact congrArg (min · _) e1b
      · rw [M2 ⟨2, hj⟩]; simp; exact congrArg (min · _) e2b
      · omega
    have hrest : ∀ p, BMem st3.rest p ↔ (BMem a p ∧ BMem rhs p) := by
      intro p
      simp only [bmem_iff, hmins, hmaxs, max_le_iff, le_min_iff]
      constructor
      · intro h; exact ⟨fun j => ⟨(h j).1.1, (h j).2.1⟩, fun j => ⟨(h j).1.2, (h j).2.2⟩⟩
      · rintro ⟨h, h'⟩ j; exact ⟨⟨(h j).1, (h' j).1⟩, (h j).2, (h' j).2⟩
    refine ⟨?_, pw, rhd⟩
    intro p
    constructor
    · intro h
      rcases (cov p).mp h with h' | h'
      · exact Or.inl ((hrest p).mp h')
      · exact Or.inr h'
    · rintro (⟨h, _⟩ | h)
      · exact h
      · exact (cov p).mpr (Or.inr h)


/-- **C17 (`difference_with_cut_sequence`, the cut sequence)**: when the boxes are disjoint (or merely touch) the result is
`([self], [])`; otherwise, for a `rhs` with non-empty interior, replaying the returned cuts on `self` one after the other with
`Aabb::canonical_split` — each cut taking the piece in the negative half-space of its plane as the next fragment and leaving the
other piece to the following cuts, as the documentation says — reproduces exactly the returned fragments, in order. -/
theorem aabb_difference_cut_sequence (a rhs : Aabb3 K)
    (hr : ∀ i : Fin 3, rhs.mins.get i.val < rhs.maxs.get i.val) :
    letI := fieldNum K sq
    (∃ rest, replayCuts sq a (a.differenceWithCutSequence rhs).2 = some ((a.differenceWithCutSequence rhs).1, rest)) ∨
    (a.differenceWithCutSequence rhs = ([a], []) ∧ InteriorDisjoint a rhs) := by
  letI : Num K := fieldNum K sq
  simp only [Aabb3.differenceWithCutSequence, Aabb3.differenceState]
  split_ifs with hdis
  · right
    refine ⟨rfl, ?_⟩
    simp only [Bool.or_eq_true] at hdis
    rcases hdis with (h | h) | h
    · exact disjointOn_interior sq a rhs 0 h
    · exact disjointOn_interior sq a rhs 1 h
    · exact disjointOn_interior sq a rhs 2 h
  · left
    simp only [Bool.or_eq_true, not_or, Aabb3.diffDisjointOn, decide_eq_true_eq, not_le] at hdis
    obtain ⟨⟨⟨h0a, h0b⟩, h1a, h1b⟩, h2a, h2b⟩ := hdis
    have inv0 : DiffInv a rhs a [] := ⟨fun p => by simp, fun f hf => by simp at hf, fun f hf => by simp at hf, List.Pairwise.nil⟩
    set st0 : Aabb3.DiffState K := { rest := a, pieces := [], cuts := [] } with hst0
    have rep0 : replayCuts sq a st0.cuts = some (st0.pieces, st0.rest) := rfl
    obtain ⟨i0, m0, M0⟩ := diffStep_inv sq a rhs st0 0 inv0 h0a h0b (hr 0).le
    have rep1 := diffStep_replay sq a rhs st0 0 rep0 h0a h0b (hr 0)
    set st1 := Aabb3.diffStep rhs st0 0 with hst1
    have e1a : st1.rest.mins.get (1 : Fin 3).val = a.mins.get (1 : Fin 3).val := by rw [m0 1]; simp [hst0]
    have e1b : st1.rest.maxs.get (1 : Fin 3).val = a.maxs.get (1 : Fin 3).val := by rw [M0 1]; simp [hst0]
    obtain ⟨i1, m1, M1⟩ := diffStep_inv sq a rhs st1 1 i0 (by rw [e1a]; exact h1a) (by rw [e1b]; exact h1b) (hr 1).le
    have rep2 := diffStep_replay sq a rhs st1 1 rep1 (by rw [e1a]; exact h1a) (by rw [e1b]; exact h1b) (hr 1)
    set st2 := Aabb3.diffStep rhs st1 1 with hst2
    have e2a : st2.rest.mins.get (2 : Fin 3).val = a.mins.get (2 : Fin 3).val := by rw [m1 2, m0 2]; simp [hst0]
    have e2b : st2.rest.maxs.get (2 : Fin 3).val = a.maxs.get (2 : Fin 3).val := by rw [M1 2, M0 2]; simp [hst0]
    have rep3 := diffStep_replay sq a rhs st2 2 rep2 (by rw [e2a]; exact h2a) (by rw [e2b]; exact h2b) (hr 2)
    exact ⟨_, rep3⟩

example : (letI := fieldNum ℚ id; (replayCuts id (⟨⟨0, 0, 0⟩, ⟨4, 4, 4⟩⟩ : Aabb3 ℚ)
    ((⟨⟨0, 0, 0⟩, ⟨4, 4, 4⟩⟩ : Aabb3 ℚ).differenceWithCutSequence ⟨⟨1, -1, 1⟩, ⟨2, 5, 9⟩⟩).2).map fun r => r.1.length) = some 3 := by
  decide +kernel
example : ∀ i : Fin 3, (⟨⟨1, -1, 1⟩, ⟨2, 5, 9⟩⟩ : Aabb3 ℚ).mins.get i.val < (⟨⟨1, -1, 1⟩, ⟨2, 5, 9⟩⟩ : Aabb3 ℚ).maxs.get i.val := by
  intro i; rcases i with ⟨_ | _ | _ | n, hi⟩ <;> simp [V3.get] <;> first | norm_num | omega

example : (letI := fieldNum ℚ id; ((⟨⟨0, 0, 0⟩, ⟨4, 4, 4⟩⟩ : Aabb3 ℚ).differenceWithCutSequence ⟨⟨1, -1, 1⟩, ⟨2, 5, 9⟩⟩).1.length) = 3 := by
  decide +kernel
example : ValidBox (⟨⟨1, -1, 1⟩, ⟨2, 5, 9⟩⟩ : Aabb3 ℚ) := by
  intro i; rcases i with ⟨_ | _ | _ | n, hi⟩ <;> simp [V3.get] <;> first | norm_num | omega

/-! ## `clip_aabb_line`, `Aabb::{clip_line_parameters, clip_ray_parameters, clip_segment}` -/

/-- **C17 (`clip_aabb_line`, `Some`)**: for a valid box and *every* origin and direction (zero components, zero vector,
non-unit included), when `clip_aabb_line` returns `Some((tmin, …), (tmax, …))` the closed interval `[tmin, tmax]` is exactly the
set of parameters `t` (within the representable range `|t| ≤ f64::MAX`, the initial `tmin/tmax` of the code) whose point
`origin + t·dir` lies in the box. -/
theorem clip_aabb_line_some (b : Aabb3 K) (o d : V3 K) (hb : ValidBox b) (near far : K × V3 K × Int)
    (h : letI := fieldNum K sq; clipAabbLineC b o d = some (near, far)) :
    ∀ t, (near.1 ≤ t ∧ t ≤ far.1) ↔ ((-big K ≤ t ∧ t ≤ big K) ∧ BMem b (lineAt o d t)) := by
  have key := clipLoop_spec sq b o d hb
  simp only [clipAabbLineC] at h
  revert key h
  cases @clipLoop K (fieldNum K sq) b o d with
  | none => intro h key; simp at h
  | some st =>
    intro h key
    simp only [Option.some.injEq, Prod.mk.injEq] at h
    obtain ⟨h1, h2⟩ := h
    have e1 : near.1 = st.tmin := by rw [← h1]; split_ifs <;> rfl
    have e2 : far.1 = st.tmax := by rw [← h2]; split_ifs <;> rfl
    rw [e1, e2]; exact key.2

/-- **C17 (`clip_aabb_line`, `None`)**: `None` is returned only when no parameter (in the representable range) gives a point
of the box: `None ⇔` the line misses the box. (Together with `clip_aabb_line_some`: `Some ⇒` the interval is non-empty, since
`tmin ≤ tmax` is checked by the code.) -/
theorem clip_aabb_line_none (b : Aabb3 K) (o d : V3 K) (hb : ValidBox b)
    (h : letI := fieldNum K sq; clipAabbLineC b o d = none) :
    ∀ t, -big K ≤ t → t ≤ big K → ¬ BMem b (lineAt o d t) := by
  have key := clipLoop_spec sq b o d hb
  simp only [clipAabbLineC] at h
  revert key h
  cases @clipLoop K (fieldNum K sq) b o d with
  | none => intro _ key t h1 h2 hm; exact key t ⟨⟨h1, h2⟩, hm⟩
  | some st => intro h key; simp at h

/-- `Some` is never an empty interval: `tmin ≤ tmax`, hence (by `clip_aabb_line_some`) the line does meet the box. -/
theorem clip_aabb_line_some_nonempty (b : Aabb3 K) (o d : V3 K) (hb : ValidBox b) (near far : K × V3 K × Int)
    (h : letI := fieldNum K sq; clipAabbLineC b o d = some (near, far)) :
    near.1 ≤ far.1 ∧ ∃ t, (-big K ≤ t ∧ t ≤ big K) ∧ BMem b (lineAt o d t) := by
  have key := clipLoop_spec sq b o d hb
  have hbig : (0 : K) ≤ big K := le_trans zero_le_one one_le_big
  simp only [clipAabbLineC] at h
  revert key h
  cases @clipLoop K (fieldNum K sq) b o d with
  | none => intro h key; simp at h
  | some st =>
    intro h key
    simp only [Option.some.injEq, Prod.mk.injEq] at h
    obtain ⟨h1, h2⟩ := h
    have e1 : near.1 = st.tmin := by rw [← h1]; split_ifs <;> rfl
    have e2 : far.1 = st.tmax := by rw [← h2]; split_ifs <;> rfl
    rw [e1, e2]
    exact ⟨key.1, st.tmin, (key.2 st.tmin).mp ⟨le_refl _, key.1⟩⟩


/-- **C17 (`clip_aabb_line`, faces)**: the side indices returned with the two parameters name faces that are really hit:
`k+1` ⇒ the point at that parameter lies on the `mins` face of axis `k`, `-(k+1)` ⇒ on its `maxs` face; index `0` is returned
only when no axis constrained the parameter (it is then still `∓f64::MAX`, e.g. for a zero direction). -/
theorem clip_aabb_line_sides (b : Aabb3 K) (o d : V3 K) (near far : K × V3 K × Int)
    (h : letI := fieldNum K sq; clipAabbLineC b o d = some (near, far)) :
    FaceHit b o d near.1 near.2.2 (-big K) ∧ FaceHit b o d far.1 far.2.2 (big K) := by
  letI : Num K := fieldNum K sq
  simp only [clipAabbLineC] at h
  have key : ∀ st, clipLoop b o d = some st →
      FaceHit b o d st.tmin st.nearSide (-big K) ∧ FaceHit b o d st.tmax st.farSide (big K) := by
    intro st hst
    simp only [clipLoop, Option.bind_some] at hst
    have i0 : FaceHit b o d (@clipInit K (fieldNum K sq)).tmin (@clipInit K (fieldNum K sq)).nearSide (-big K) ∧
        FaceHit b o d (@clipInit K (fieldNum K sq)).tmax (@clipInit K (fieldNum K sq)).farSide (big K) := by
      constructor <;> left <;> simp [clipInit, f64Max_eq]
    cases h0 : clipStepC b o d clipInit 0 with
    | none => rw [h0] at hst; simp at hst
    | some s0 =>
      rw [h0] at hst; simp only [Option.bind_some] at hst
      have i1 := clipStep_sides sq b o d _ s0 0 i0.1 i0.2 h0
      cases h1 : clipStepC b o d s0 1 with
      | none => rw [h1] at hst; simp at hst
      | some s1 =>
        rw [h1] at hst; simp only [Option.bind_some] at hst
        have i2 := clipStep_sides sq b o d _ s1 1 i1.1 i1.2 h1
        exact clipStep_sides sq b o d _ st 2 i2.1 i2.2 hst
  cases hl : clipLoop b o d with
  | none => rw [hl] at h; simp at h
  | some st =>
    rw [hl] at h
    simp only [Option.some.injEq, Prod.mk.injEq] at h
    obtain ⟨e1, e2⟩ := h
    have k := key st hl
    subst e1 e2
    constructor
    · split_ifs <;> exact k.1
    · split_ifs <;> exact k.2

/-- a line entering through the `mins.x` face (side `1`) and leaving through the `maxs.x` face (side `-1`) -/
example : (letI := fieldNum ℚ id; (clipAabbLineC (⟨⟨0, 0, 0⟩, ⟨1, 2, 3⟩⟩ : Aabb3 ℚ) ⟨-1, 1, 1⟩ ⟨1, 0, 0⟩).map fun c => (c.1.2.2, c.2.2.2))
    = some (1, -1) := by decide +kernel

/-- **C17 (`Aabb::clip_line_parameters`)**: `Some((t0,t1))` ⇒ `[t0,t1]` is exactly the parameter set of the line inside the box
(within `|t| ≤ f64::MAX`) and is non-empty; `None` ⇒ that set is empty. -/
theorem clip_line_parameters_spec (b : Aabb3 K) (o d : V3 K) (hb : ValidBox b) :
    letI := fieldNum K sq
    match clipLineParameters b o d with
    | some (t0, t1) => t0 ≤ t1 ∧ ∀ t, (t0 ≤ t ∧ t ≤ t1) ↔ ((-big K ≤ t ∧ t ≤ big K) ∧ BMem b (lineAt o d t))
    | none => ∀ t, -big K ≤ t → t ≤ big K → ¬ BMem b (lineAt o d t) := by
  simp only [clipLineParameters]
  have h1 := clip_aabb_line_some sq b o d hb
  have h2 := clip_aabb_line_none sq b o d hb
  have h3 := clip_aabb_line_some_nonempty sq b o d hb
  revert h1 h2 h3
  cases @clipAabbLineC K (fieldNum K sq) b o d with
  | none => intro _ h2 _; exact h2 rfl
  | some c =>
    obtain ⟨near, far⟩ := c
    intro h1 _ h3
    exact ⟨(h3 near far rfl).1, h1 near far rfl⟩

/-- **C17 (`Aabb::clip_ray_parameters`)**: `Some((t0,t1))` ⇒ `[t0,t1]` is exactly `{t | 0 ≤ t ≤ f64::MAX, origin + t·dir ∈ box}`
and is non-empty; `None` ⇒ no `t ≥ 0` (in range) gives a point of the box. -/
theorem clip_ray_parameters_spec (b : Aabb3 K) (o d : V3 K) (hb : ValidBox b) :
    letI := fieldNum K sq
    match clipRayParameters b o d with
    | some (t0, t1) => t0 ≤ t1 ∧ ∀ t, (t0 ≤ t ∧ t ≤ t1) ↔ ((0 ≤ t ∧ t ≤ big K) ∧ BMem b (lineAt o d t))
    | none => ∀ t, 0 ≤ t → t ≤ big K → ¬ BMem b (lineAt o d t) := by
  have hbig : (0 : K) ≤ big K := le_trans zero_le_one one_le_big
  have key := clip_line_parameters_spec sq b o d hb
  simp only [clipRayParameters]
  revert key
  cases @clipLineParameters K (fieldNum K sq) b o d with
  | none => intro key t h0 h1; exact key t (by linarith) h1
  | some c =>
    obtain ⟨t0, t1⟩ := c
    intro key
    simp only [Option.bind_some]
    simp only [] at key
    split_ifs with hneg
    · intro t h0 h1 hm
      have := (key.2 t).mpr ⟨⟨by linarith, h1⟩, hm⟩
      linarith [this.2]
    · push Not at hneg
      simp only [fieldNum_nmax]
      refine ⟨max_le key.1 hneg, ?_⟩
      intro t
      rw [max_le_iff]
      constructor
      · rintro ⟨⟨a1, a2⟩, a3⟩
        have := (key.2 t).mp ⟨a1, a3⟩
        exact ⟨⟨a2, this.1.2⟩, this.2⟩
      · rintro ⟨⟨a1, a2⟩, a3⟩
        have := (key.2 t).mpr ⟨⟨by linarith, a2⟩, a3⟩
        exact ⟨⟨this.1, a1⟩, this.2⟩

/-- **C17 (`Aabb::clip_segment`)**: the returned segment is *exactly* `[pa,pb] ∩ box` as a point set, and `None` is returned
exactly when the segment misses the box (degenerate `pa = pb` included). -/
theorem clip_segment_spec (b : Aabb3 K) (pa pb : V3 K) (hb : ValidBox b) :
    letI := fieldNum K sq
    match clipSegment b pa pb with
    | some s => ∀ p, s.Mem p ↔ ((Segment3.mk pa pb).Mem p ∧ BMem b p)
    | none => ∀ p, ¬ ((Segment3.mk pa pb).Mem p ∧ BMem b p) := by
  have hbig : (1 : K) ≤ big K := one_le_big
  letI : Num K := fieldNum K sq
  simp only [clipSegment]
  have h1 := clip_aabb_line_some sq b pa (@V3.sub K (fieldNum K sq) pb pa) hb
  have h2 := clip_aabb_line_none sq b pa (@V3.sub K (fieldNum K sq) pb pa) hb
  revert h1 h2
  cases @clipAabbLineC K (fieldNum K sq) b pa (@V3.sub K (fieldNum K sq) pb pa) with
  | none =>
    intro _ h2
    simp only [Option.bind_none]
    rintro p ⟨⟨t, t0, t1, rfl⟩, hm⟩
    rw [lineAt_eq sq] at hm
    exact h2 rfl t (by linarith) (by linarith) hm
  | some c =>
    obtain ⟨near, far⟩ := c
    intro h1 _
    have key := h1 near far rfl
    simp only [Option.bind_some, fieldNum_nmax, fieldNum_nmin]
    split_ifs with hlt
    · rintro p ⟨⟨t, t0, t1, rfl⟩, hm⟩
      rw [lineAt_eq sq] at hm
      have := (key t).mpr ⟨⟨by linarith, by linarith⟩, hm⟩
      have a1 : max near.1 0 ≤ t := max_le this.1 t0
      have a2 : t ≤ min far.1 1 := le_min this.2 t1
      linarith
    · push Not at hlt
      intro p
      simp only [Segment3.Mem]
      constructor
      · rintro ⟨u, u0, u1, rfl⟩
        -- parameter on the original segment
        have hpar : max near.1 0 ≤ max near.1 0 + u * (min far.1 1 - max near.1 0) ∧
            max near.1 0 + u * (min far.1 1 - max near.1 0) ≤ min far.1 1 := by
          constructor <;> nlinarith
        set t := max near.1 0 + u * (min far.1 1 - max near.1 0) with ht
        have ht0 : 0 ≤ t := le_trans (le_max_right _ _) hpar.1
        have ht1 : t ≤ 1 := le_trans hpar.2 (min_le_right _ _)
        have hpt : (pa.add ((pb.sub pa).smul (max near.1 0))).add
            (((pa.add ((pb.sub pa).smul (min far.1 1))).sub (pa.add ((pb.sub pa).smul (max near.1 0)))).smul u)
            = pa.add ((pb.sub pa).smul t) := by
          simp only [V3.add, V3.sub, V3.smul, ht, V3.mk.injEq]
          refine ⟨?_, ?_, ?_⟩ <;> ring
        rw [hpt]
        refine ⟨⟨t, ht0, ht1, rfl⟩, ?_⟩
        have := (key t).mp ⟨le_trans (le_max_left _ _) hpar.1, le_trans hpar.2 (min_le_left _ _)⟩
        rw [lineAt_eq sq]; exact this.2
      · rintro ⟨⟨t, t0, t1, rfl⟩, hm⟩
        rw [lineAt_eq sq] at hm
        have := (key t).mpr ⟨⟨by linarith, by linarith⟩, hm⟩
        have a1 : max near.1 0 ≤ t := max_le this.1 t0
        have a2 : t ≤ min far.1 1 := le_min this.2 t1
        rcases eq_or_lt_of_le hlt with he | hl
        · refine ⟨0, le_refl _, zero_le_one, ?_⟩
          have : t = max near.1 0 := by linarith
          simp only [V3.add, V3.sub, V3.smul, this, V3.mk.injEq]
          refine ⟨?_, ?_, ?_⟩ <;> ring
        · have hpos : 0 < min far.1 1 - max near.1 0 := by linarith
          refine ⟨(t - max near.1 0) / (min far.1 1 - max near.1 0), div_nonneg (by linarith) hpos.le,
            (div_le_one hpos).mpr (by linarith), ?_⟩
          have hu : (t - max near.1 0) / (min far.1 1 - max near.1 0) * (min far.1 1 - max near.1 0) = t - max near.1 0 :=
            div_mul_cancel₀ _ (ne_of_gt hpos)
          generalize (t - max near.1 0) / (min far.1 1 - max near.1 0) = u at hu ⊢
          simp only [V3.add, V3.sub, V3.smul, V3.mk.injEq]
          refine ⟨?_, ?_, ?_⟩
          · linear_combination (-(pb.x - pa.x)) * hu
          · linear_combination (-(pb.y - pa.y)) * hu
          · linear_combination (-(pb.z - pa.z)) * hu



/-! non-vacuity: concrete inputs (over `ℚ`) on which the hypotheses hold and each branch is taken -/
example : ValidBox (⟨⟨0, 0, 0⟩, ⟨1, 2, 3⟩⟩ : Aabb3 ℚ) := by
  intro i; rcases i with ⟨_ | _ | _ | n, hi⟩ <;> simp [V3.get] <;> omega
/-- a line whose box lies *behind* the origin (negative parameters): `Some` (the pinned tree says `None`) -/
example : (letI := fieldNum ℚ id; clipLineParameters (⟨⟨0, 0, 0⟩, ⟨1, 2, 3⟩⟩ : Aabb3 ℚ) ⟨3, 1, 1⟩ ⟨1, 0, 0⟩) = some (-3, -2) := by
  decide +kernel
example : (letI := fieldNum ℚ id; clipLineParameters (⟨⟨0, 0, 0⟩, ⟨1, 2, 3⟩⟩ : Aabb3 ℚ) ⟨-1, 1, 1⟩ ⟨2, 0, 0⟩) = some (1/2, 1) := by
  decide +kernel
example : (letI := fieldNum ℚ id; clipLineParameters (⟨⟨0, 0, 0⟩, ⟨1, 2, 3⟩⟩ : Aabb3 ℚ) ⟨-1, 5, 1⟩ ⟨1, 0, 0⟩) = none := by
  decide +kernel
example : (letI := fieldNum ℚ id; clipRayParameters (⟨⟨0, 0, 0⟩, ⟨1, 2, 3⟩⟩ : Aabb3 ℚ) ⟨3, 1, 1⟩ ⟨1, 0, 0⟩) = none := by
  decide +kernel
example : (letI := fieldNum ℚ id; clipRayParameters (⟨⟨0, 0, 0⟩, ⟨1, 2, 3⟩⟩ : Aabb3 ℚ) ⟨1/2, 1, 1⟩ ⟨1, 1, 0⟩) = some (0, 1/2) := by
  decide +kernel
/-- segment crossing a face; segment that stops short of the box (`tmin > 1`: `None`, the pinned tree returns a reversed
segment); zero-length segment inside the box (the pinned tree panics) -/
example : (letI := fieldNum ℚ id; (clipSegment (⟨⟨0, 0, 0⟩, ⟨1, 2, 3⟩⟩ : Aabb3 ℚ) ⟨-1, 1, 1⟩ ⟨1/2, 1, 1⟩).map fun s => (s.a.x, s.b.x))
    = some (0, 1/2) := by decide +kernel
example : (letI := fieldNum ℚ id; (clipSegment (⟨⟨0, 0, 0⟩, ⟨1, 2, 3⟩⟩ : Aabb3 ℚ) ⟨-5, 1, 1⟩ ⟨-3, 1, 1⟩).isNone) = true := by
  decide +kernel
example : (letI := fieldNum ℚ id; (clipSegment (⟨⟨0, 0, 0⟩, ⟨1, 2, 3⟩⟩ : Aabb3 ℚ) ⟨1/2, 1, 1⟩ ⟨1/2, 1, 1⟩).map fun s => (s.a.x, s.b.x))
    = some (1/2, 1/2) := by decide +kernel


/-! ## `clip_halfspace_polygon` (Sutherland–Hodgman step) and `Aabb::clip_polygon` -/

/-- **C17 (Sutherland–Hodgman step, soundness)**: every vertex output by `clip_halfspace_polygon` is a kept input vertex or
the point `a + t(b-a)`, `0 < t < 1`, of an input edge that lies exactly on the plane — for *every* polygon (convex or not),
centre and normal (unit or not). -/
theorem clip_halfspace_polygon_sound (c n : V3 K) (poly : List (V3 K)) (q : V3 K)
    (hq : q ∈ @clipHalfspacePolygon K (fieldNum K sq) c n poly) : SHVertex c n poly q := by
  letI : Num K := fieldNum K sq
  simp only [clipHalfspacePolygon] at hq
  split at hq
  · simp at hq
  · rename_i last hlast
    have hmem : last ∈ poly := List.mem_of_getLast? hlast
    simp only [List.mem_append] at hq
    rcases hq with hq | hq
    · split_ifs at hq with hk
      · simp only [List.mem_singleton] at hq; subst hq
        exact Or.inl ⟨hmem, (keepPoint_iff sq c n q).mp hk⟩
      · simp at hq
    · rcases clipPolyLoop_sound sq c n poly last _ q hq with ⟨hm, hk⟩ | ⟨a, ha, b, hb, t, t0, t1, rfl, hz⟩
      · refine Or.inl ⟨?_, hk⟩
        rcases List.mem_cons.mp hm with rfl | h
        · exact hmem
        · exact h
      · refine Or.inr ⟨a, ?_, b, ?_, t, t0, t1, rfl, hz⟩
        · rcases List.mem_cons.mp ha with rfl | h
          · exact hmem
          · exact h
        · rcases List.mem_cons.mp hb with rfl | h
          · exact hmem
          · exact h

/-- **C17 (Sutherland–Hodgman step, the property's clause)**: every output vertex lies in the convex hull of the input polygon's
vertices and in the closed half-space `n·(p - c) ≤ 0`. -/
theorem clip_halfspace_polygon_in_hull_and_halfspace (c n : V3 K) (poly : List (V3 K)) (q : V3 K)
    (hq : q ∈ @clipHalfspacePolygon K (fieldNum K sq) c n poly) : Hull poly q ∧ hsVal c n q ≤ 0 := by
  rcases clip_halfspace_polygon_sound sq c n poly q hq with ⟨hm, hk⟩ | ⟨a, ha, b, hb, t, t0, t1, rfl, hz⟩
  · exact ⟨Hull.vert q hm, hk⟩
  · exact ⟨Hull.seg a b t (Hull.vert a ha) (Hull.vert b hb) t0.le t1.le, hz.le⟩

/-- **C17 (Sutherland–Hodgman step, completeness)**: no input vertex of the half-space is lost. -/
theorem clip_halfspace_polygon_keeps (c n : V3 K) (poly : List (V3 K)) (p : V3 K) (hp : p ∈ poly) (hk : hsVal c n p ≤ 0) :
    p ∈ @clipHalfspacePolygon K (fieldNum K sq) c n poly := by
  letI : Num K := fieldNum K sq
  simp only [clipHalfspacePolygon]
  split
  · rename_i hnone
    cases poly with
    | nil => simp at hp
    | cons x xs => simp [List.getLast?_cons] at hnone
  · rename_i last hlast
    simp only [List.mem_append]
    rcases clipPolyLoop_complete sq c n poly last (keepPoint c n last) p hp hk with h | h
    · exact Or.inr h
    · left
      rw [hlast] at h
      simp only [Option.some.injEq] at h; subst h
      have := (keepPoint_iff sq c n last).mpr hk
      simp [this]


/-- one clip keeps the constraints already satisfied by all vertices (convexity) and adds its own -/
private theorem clip_step_constraints (c n : V3 K) (P0 P : List (V3 K)) (cs : List (V3 K × V3 K))
    (h : ∀ v ∈ P, Hull P0 v ∧ ∀ cn ∈ cs, hsVal cn.1 cn.2 v ≤ 0) :
    ∀ v ∈ @clipHalfspacePolygon K (fieldNum K sq) c n P, Hull P0 v ∧ ∀ cn ∈ (c, n) :: cs, hsVal cn.1 cn.2 v ≤ 0 := by
  intro v hv
  obtain ⟨hh, hk⟩ := clip_halfspace_polygon_in_hull_and_halfspace sq c n P v hv
  refine ⟨hull_trans P0 P (fun w hw => (h w hw).1) v hh, ?_⟩
  intro cn hcn
  rcases List.mem_cons.mp hcn with rfl | hcn'
  · exact hk
  · exact hull_halfspace cn.1 cn.2 P (fun w hw => (h w hw).2 cn hcn') v hh


/-- **C17 (`Aabb::clip_polygon`)**: every vertex of the clipped polygon lies in the box and in the convex hull of the input
polygon's vertices (so for a convex planar input polygon: in the polygon) — for every input point list. -/
theorem aabb_clip_polygon_sound (b : Aabb3 K) (pts : List (V3 K)) (q : V3 K)
    (hq : q ∈ @Aabb3.clipPolygon K (fieldNum K sq) b pts) : BMem b q ∧ Hull pts q := by
  letI : Num K := fieldNum K sq
  simp only [Aabb3.clipPolygon] at hq
  have h0 : ∀ v ∈ pts, Hull pts v ∧ ∀ cn ∈ ([] : List (V3 K × V3 K)), hsVal cn.1 cn.2 v ≤ 0 :=
    fun v hv => ⟨Hull.vert v hv, fun cn hcn => by simp at hcn⟩
  have h1 := clip_step_constraints sq b.mins (V3.neg ⟨1, 0, 0⟩) pts pts _ h0
  have h2 := clip_step_constraints sq b.maxs ⟨1, 0, 0⟩ pts _ _ h1
  have h3 := clip_step_constraints sq b.mins (V3.neg ⟨0, 1, 0⟩) pts _ _ h2
  have h4 := clip_step_constraints sq b.maxs ⟨0, 1, 0⟩ pts _ _ h3
  have h5 := clip_step_constraints sq b.mins (V3.neg ⟨0, 0, 1⟩) pts _ _ h4
  have h6 := clip_step_constraints sq b.maxs ⟨0, 0, 1⟩ pts _ _ h5
  obtain ⟨hh, hc⟩ := h6 q hq
  refine ⟨?_, hh⟩
  have c1 := hc (b.maxs, ⟨0, 0, 1⟩) (by simp)
  have c2 := hc (b.mins, V3.neg ⟨0, 0, 1⟩) (by simp)
  have c3 := hc (b.maxs, ⟨0, 1, 0⟩) (by simp)
  have c4 := hc (b.mins, V3.neg ⟨0, 1, 0⟩) (by simp)
  have c5 := hc (b.maxs, ⟨1, 0, 0⟩) (by simp)
  have c6 := hc (b.mins, V3.neg ⟨1, 0, 0⟩) (by simp)
  simp only [hsVal, V3.neg, neg_zero, mul_zero, add_zero, zero_add, mul_one, mul_neg] at c1 c2 c3 c4 c5 c6
  refine ⟨⟨?_, ?_⟩, ⟨?_, ?_⟩, ?_, ?_⟩ <;> linarith


/-! non-vacuity: the unit square cut by `x ≤ 1/2` gives a quadrilateral; cut by a box it keeps four vertices -/
example : (letI := fieldNum ℚ id; (clipHalfspacePolygon (⟨1/2, 0, 0⟩ : V3 ℚ) ⟨1, 0, 0⟩
    [⟨0, 0, 0⟩, ⟨1, 0, 0⟩, ⟨1, 1, 0⟩, ⟨0, 1, 0⟩]).map fun p => (p.x, p.y)) = [(0, 1), (0, 0), (1/2, 0), (1/2, 1)] := by
  decide +kernel
example : (letI := fieldNum ℚ id; ((⟨⟨-1, -1, -1⟩, ⟨1/2, 1/2, 1⟩⟩ : Aabb3 ℚ).clipPolygon
    [⟨0, 0, 0⟩, ⟨1, 0, 0⟩, ⟨1, 1, 0⟩, ⟨0, 1, 0⟩]).map fun p => (p.x, p.y)) = [(1/2, 1/2), (0, 1/2), (0, 0), (1/2, 0)] := by
  decide +kernel



/-! ## `clip_segment_segment` (2-D) -/

/-- **C17 (`clip_segment_segment`, 2-D)**: with `π` the projection on the direction of `seg1` and `seg2` not perpendicular to
`seg1` (`π(a2) ≠ π(b2)`; on perpendicular input the floating-point code divides `0/0`), the function returns `None` exactly when
the projected ranges `[0, |b1-a1|²]` and `π(seg2)` are disjoint; otherwise both clipping pairs `(p1, p2)` have `p1 ∈ seg1`,
`p2 ∈ seg2`, `π(p1) = π(p2)`, the first pair sits at the lower end `max(0, min π(seg2))` of the overlap and the second at its
upper end `min(|b1-a1|², max π(seg2))`; feature codes `0`/`2` assert that the point is the first/second vertex of its segment. -/
theorem clip_segment_segment_spec (a1 b1 a2 b2 : V2 K) (hperp : proj1 a1 b1 a2 ≠ proj1 a1 b1 b2) :
    letI := fieldNum K sq
    match clipSegmentSegment a1 b1 a2 b2 with
    | none => proj1 a1 b1 b1 < min (proj1 a1 b1 a2) (proj1 a1 b1 b2) ∨ max (proj1 a1 b1 a2) (proj1 a1 b1 b2) < 0
    | some (ca, cb) =>
      max 0 (min (proj1 a1 b1 a2) (proj1 a1 b1 b2)) ≤ min (proj1 a1 b1 b1) (max (proj1 a1 b1 a2) (proj1 a1 b1 b2)) ∧
      (Segment2.mk a1 b1).Mem ca.p1 ∧ (Segment2.mk a2 b2).Mem ca.p2 ∧ proj1 a1 b1 ca.p1 = proj1 a1 b1 ca.p2 ∧
        proj1 a1 b1 ca.p1 = max 0 (min (proj1 a1 b1 a2) (proj1 a1 b1 b2)) ∧
      (Segment2.mk a1 b1).Mem cb.p1 ∧ (Segment2.mk a2 b2).Mem cb.p2 ∧ proj1 a1 b1 cb.p1 = proj1 a1 b1 cb.p2 ∧
        proj1 a1 b1 cb.p1 = min (proj1 a1 b1 b1) (max (proj1 a1 b1 a2) (proj1 a1 b1 b2)) ∧
      (ca.f1 = 0 → ca.p1 = a1) ∧ (ca.f1 = 2 → ca.p1 = b1) ∧ (ca.f2 = 0 → ca.p2 = a2) ∧ (ca.f2 = 2 → ca.p2 = b2) ∧
      (cb.f1 = 0 → cb.p1 = a1) ∧ (cb.f1 = 2 → cb.p1 = b1) ∧ (cb.f2 = 0 → cb.p2 = a2) ∧ (cb.f2 = 2 → cb.p2 = b2) := by
  letI : Num K := fieldNum K sq
  have hsq : (0 : K) ≤ (b1.sub a1).normSq := by
    simp only [V2.normSq, V2.dot, V2.sub]; nlinarith [mul_self_nonneg (b1.x - a1.x), mul_self_nonneg (b1.y - a1.y)]
  have e11 : (b1.sub a1).normSq = proj1 a1 b1 b1 := by simp only [V2.normSq, V2.dot, V2.sub, proj1]
  have e20 : (a2.sub a1).dot (b1.sub a1) = proj1 a1 b1 a2 := by simp only [V2.dot, V2.sub, proj1]
  have e21 : (b2.sub a1).dot (b1.sub a1) = proj1 a1 b1 b2 := by simp only [V2.dot, V2.sub, proj1]
  have ea : proj1 a1 b1 a1 = 0 := by simp only [proj1]; ring
  simp only [clipSegmentSegment, e11, e20, e21]
  rw [e11] at hsq
  have hns : ¬ (proj1 a1 b1 b1 < 0) := not_lt.mpr hsq
  simp only [hns, decide_false, Bool.false_eq_true, if_false]
  generalize hS : proj1 a1 b1 b1 = S at *
  generalize hA : proj1 a1 b1 a2 = A at *
  generalize hB : proj1 a1 b1 b2 = B at *
  by_cases hsw : B < A
  · have hlt : B < A := hsw
    have emin : min A B = B := min_eq_right hlt.le
    have emax : max A B = A := max_eq_left hlt.le
    simp only [hsw, decide_true, if_true, emin, emax]
    split_ifs with hnone hca hcb hcb
    · simp only [Bool.or_eq_true, decide_eq_true_eq] at hnone
      exact hnone
    all_goals simp only [Bool.or_eq_true, decide_eq_true_eq, not_or, not_lt] at hnone
    all_goals obtain ⟨hov1, hov2⟩ := hnone
    all_goals obtain ⟨ca1, ca2⟩ := ss_ca sq a1 b1 b2 a2 S B A hS hB hA hlt hov1 hov2
    all_goals obtain ⟨cb1, cb2⟩ := ss_cb sq a1 b1 b2 a2 S B A hS hB hA hlt hov1 hov2
    · obtain ⟨⟨t, t0, t1, et⟩, pa, ma⟩ := ca1 hca
      obtain ⟨⟨u, u0, u1, eu⟩, pb, mb⟩ := cb1 hcb
      simp only []
      refine ⟨by rw [← ma, ← mb]; exact hlt.le, by rw [et]; exact mem_segPt2 sq a1 b1 t t0 t1, ?_, by rw [pa, hB], by rw [pa]; exact ma,
        by rw [eu]; exact mem_segPt2 sq a1 b1 u u0 u1, ?_, by rw [pb, hA], by rw [pb]; exact mb, ?_⟩
      · have := mem_segPt2_rev sq a2 b2 0 (le_refl _) zero_le_one
        simpa [segPt2] using this
      · have := mem_segPt2_rev sq a2 b2 1 zero_le_one (le_refl _)
        simpa [segPt2] using this
      · simp
    · obtain ⟨⟨t, t0, t1, et⟩, pa, ma⟩ := ca1 hca
      obtain ⟨⟨u, u0, u1, eu⟩, pb, mb⟩ := cb2 hcb
      simp only []
      refine ⟨by rw [← ma, ← mb]; linarith, by rw [et]; exact mem_segPt2 sq a1 b1 t t0 t1, ?_, by rw [pa, hB], by rw [pa]; exact ma,
        ?_, by rw [eu]; exact mem_segPt2_rev sq a2 b2 u u0 u1, by rw [pb, hS], by rw [hS]; exact mb, ?_⟩
      · have := mem_segPt2_rev sq a2 b2 0 (le_refl _) zero_le_one
        simpa [segPt2] using this
      · have := mem_segPt2 sq a1 b1 1 zero_le_one (le_refl _)
        simpa [segPt2] using this
      · simp
    · obtain ⟨⟨t, t0, t1, et⟩, pa, ma⟩ := ca2 hca
      obtain ⟨⟨u, u0, u1, eu⟩, pb, mb⟩ := cb1 hcb
      simp only []
      refine ⟨by rw [← ma, ← mb]; linarith, ?_, by rw [et]; exact mem_segPt2_rev sq a2 b2 t t0 t1, by rw [pa, ea], by rw [ea]; exact ma,
        by rw [eu]; exact mem_segPt2 sq a1 b1 u u0 u1, ?_, by rw [pb, hA], by rw [pb]; exact mb, ?_⟩
      · have := mem_segPt2 sq a1 b1 0 (le_refl _) zero_le_one
        simpa [segPt2] using this
      · have := mem_segPt2_rev sq a2 b2 1 zero_le_one (le_refl _)
        simpa [segPt2] using this
      · simp
    · obtain ⟨⟨t, t0, t1, et⟩, pa, ma⟩ := ca2 hca
      obtain ⟨⟨u, u0, u1, eu⟩, pb, mb⟩ := cb2 hcb
      simp only []
      refine ⟨by rw [← ma, ← mb]; exact hsq, ?_, by rw [et]; exact mem_segPt2_rev sq a2 b2 t t0 t1, by rw [pa, ea], by rw [ea]; exact ma,
        ?_, by rw [eu]; exact mem_segPt2_rev sq a2 b2 u u0 u1, by rw [pb, hS], by rw [hS]; exact mb, ?_⟩
      · have := mem_segPt2 sq a1 b1 0 (le_refl _) zero_le_one
        simpa [segPt2] using this
      · have := mem_segPt2 sq a1 b1 1 zero_le_one (le_refl _)
        simpa [segPt2] using this
      · simp
  · have hlt : A < B := lt_of_le_of_ne (not_lt.mp hsw) hperp
    have emin : min A B = A := min_eq_left hlt.le
    have emax : max A B = B := max_eq_right hlt.le
    simp only [hsw, decide_false, Bool.false_eq_true, if_false, emin, emax]
    split_ifs with hnone hca hcb hcb
    · simp only [Bool.or_eq_true, decide_eq_true_eq] at hnone
      exact hnone
    all_goals simp only [Bool.or_eq_true, decide_eq_true_eq, not_or, not_lt] at hnone
    all_goals obtain ⟨hov1, hov2⟩ := hnone
    all_goals obtain ⟨ca1, ca2⟩ := ss_ca sq a1 b1 a2 b2 S A B hS hA hB hlt hov1 hov2
    all_goals obtain ⟨cb1, cb2⟩ := ss_cb sq a1 b1 a2 b2 S A B hS hA hB hlt hov1 hov2
    · obtain ⟨⟨t, t0, t1, et⟩, pa, ma⟩ := ca1 hca
      obtain ⟨⟨u, u0, u1, eu⟩, pb, mb⟩ := cb1 hcb
      simp only []
      refine ⟨by rw [← ma, ← mb]; exact hlt.le, by rw [et]; exact mem_segPt2 sq a1 b1 t t0 t1, ?_, by rw [pa, hA], by rw [pa]; exact ma,
        by rw [eu]; exact mem_segPt2 sq a1 b1 u u0 u1, ?_, by rw [pb, hB], by rw [pb]; exact mb, ?_⟩
      · have := mem_segPt2 sq a2 b2 0 (le_refl _) zero_le_one
        simpa [segPt2] using this
      · have := mem_segPt2 sq a2 b2 1 zero_le_one (le_refl _)
        simpa [segPt2] using this
      · simp
    · obtain ⟨⟨t, t0, t1, et⟩, pa, ma⟩ := ca1 hca
      obtain ⟨⟨u, u0, u1, eu⟩, pb, mb⟩ := cb2 hcb
      simp only []
      refine ⟨by rw [← ma, ← mb]; linarith, by rw [et]; exact mem_segPt2 sq a1 b1 t t0 t1, ?_, by rw [pa, hA], by rw [pa]; exact ma,
        ?_, by rw [eu]; exact mem_segPt2 sq a2 b2 u u0 u1, by rw [pb, hS], by rw [hS]; exact mb, ?_⟩
      · have := mem_segPt2 sq a2 b2 0 (le_refl _) zero_le_one
        simpa [segPt2] using this
      · have := mem_segPt2 sq a1 b1 1 zero_le_one (le_refl _)
        simpa [segPt2] using this
      · simp
    · obtain ⟨⟨t, t0, t1, et⟩, pa, ma⟩ := ca2 hca
      obtain ⟨⟨u, u0, u1, eu⟩, pb, mb⟩ := cb1 hcb
      simp only []
      refine ⟨by rw [← ma, ← mb]; linarith, ?_, by rw [et]; exact mem_segPt2 sq a2 b2 t t0 t1, by rw [pa, ea], by rw [ea]; exact ma,
        by rw [eu]; exact mem_segPt2 sq a1 b1 u u0 u1, ?_, by rw [pb, hB], by rw [pb]; exact mb, ?_⟩
      · have := mem_segPt2 sq a1 b1 0 (le_refl _) zero_le_one
        simpa [segPt2] using this
      · have := mem_segPt2 sq a2 b2 1 zero_le_one (le_refl _)
        simpa [segPt2] using this
      · simp
    · obtain ⟨⟨t, t0, t1, et⟩, pa, ma⟩ := ca2 hca
      obtain ⟨⟨u, u0, u1, eu⟩, pb, mb⟩ := cb2 hcb
      simp only []
      refine ⟨by rw [← ma, ← mb]; exact hsq, ?_, by rw [et]; exact mem_segPt2 sq a2 b2 t t0 t1, by rw [pa, ea], by rw [ea]; exact ma,
        ?_, by rw [eu]; exact mem_segPt2 sq a2 b2 u u0 u1, by rw [pb, hS], by rw [hS]; exact mb, ?_⟩
      · have := mem_segPt2 sq a1 b1 0 (le_refl _) zero_le_one
        simpa [segPt2] using this
      · have := mem_segPt2 sq a1 b1 1 zero_le_one (le_refl _)
        simpa [segPt2] using this
      · simp


/-! non-vacuity: two parallel overlapping segments (second one reversed): clip points at `x = 1` and `x = 2`; disjoint projections -/
example : (letI := fieldNum ℚ id; (clipSegmentSegment (⟨0, 0⟩ : V2 ℚ) ⟨2, 0⟩ ⟨3, 1⟩ ⟨1, 1⟩).map fun c =>
    [c.1.p1.x, c.1.p2.x, c.2.p1.x, c.2.p2.x]) = some [1, 1, 2, 2] := by
  decide +kernel
example : (letI := fieldNum ℚ id; (clipSegmentSegment (⟨0, 0⟩ : V2 ℚ) ⟨2, 0⟩ ⟨3, 1⟩ ⟨1, 1⟩).map fun c =>
    [c.1.f1, c.1.f2, c.2.f1, c.2.f2]) = some [1, 2, 2, 1] := by
  decide +kernel
example : (letI := fieldNum ℚ id; (clipSegmentSegment (⟨0, 0⟩ : V2 ℚ) ⟨2, 0⟩ ⟨3, 1⟩ ⟨5, 1⟩).isNone) = true := by
  decide +kernel
example : proj1 (⟨0, 0⟩ : V2 ℚ) ⟨2, 0⟩ ⟨3, 1⟩ ≠ proj1 (⟨0, 0⟩ : V2 ℚ) ⟨2, 0⟩ ⟨1, 1⟩ := by
  simp [proj1]


/-! ## `Segment::canonical_split` (the canonical-axis wrapper of the segment split) -/

/-- **C17 (`Segment::canonical_split`)**: the canonical wrapper cuts along the `axis`-th coordinate. For `epsilon ≥ 0`:
`Negative` ⇒ every point of the segment has `p[axis] ≤ bias + epsilon + 2⁻⁵²`; `Positive` ⇒ every point has
`p[axis] ≥ bias - epsilon - 2⁻⁵²`; `Pair(l, r)` ⇒ every point of `l` has `p[axis] ≤ bias`, every point of `r` has `p[axis] ≥ bias`
and the lengths add up; a segment with both end points at `p[axis] ≤ bias` is `Negative`; end points beyond `epsilon` on opposite
sides of `bias` (and `|b[axis] - a[axis]| > 2⁻⁵²`) give a `Pair`. (Instances of the `local_split` theorems at `Vector::ith_axis(axis)`.) -/
theorem segment_canonical_split_spec (hs : LawfulSqrt sq) (s : Segment3 K) (axis : Fin 3) (bias eps : K) (he : 0 ≤ eps) :
    letI := fieldNum K sq
    (s.canonicalSplit axis bias eps = .negative → ∀ p, s.Mem p → p.get axis.val ≤ bias + eps + eps52 K) ∧
    (s.canonicalSplit axis bias eps = .positive → ∀ p, s.Mem p → bias - eps - eps52 K ≤ p.get axis.val) ∧
    (∀ l r, s.canonicalSplit axis bias eps = .pair l r →
      (∀ p, l.Mem p → p.get axis.val ≤ bias) ∧ (∀ p, r.Mem p → bias ≤ p.get axis.val) ∧
      (l.b.sub l.a).norm + (r.b.sub r.a).norm = (s.b.sub s.a).norm) ∧
    (s.a.get axis.val ≤ bias → s.b.get axis.val ≤ bias → s.canonicalSplit axis bias eps = .negative) ∧
    ((s.a.get axis.val < bias - eps ∧ bias + eps < s.b.get axis.val) ∨ (s.b.get axis.val < bias - eps ∧ bias + eps < s.a.get axis.val) →
      eps52 K < |s.b.get axis.val - s.a.get axis.val| → ∃ l r, s.canonicalSplit axis bias eps = .pair l r) := by
  letI : Num K := fieldNum K sq
  have hd : ∀ p : V3 K, (ithAxis axis : V3 K).dot p = p.get axis.val := fun p => (ith_axis_dot sq axis p).2.1
  have hn : (ithAxis axis : V3 K).dot (ithAxis axis) = 1 := (ith_axis_dot sq axis ⟨0, 0, 0⟩).2.2
  simp only [Segment3.canonicalSplit]
  refine ⟨?_, ?_, ?_, ?_, ?_⟩
  · intro h p hp
    have := segment_split_negative sq hs s (ithAxis axis) bias eps he hn h p hp
    rw [hd] at this; linarith
  · intro h p hp
    have := segment_split_positive sq hs s (ithAxis axis) bias eps he hn h p hp
    rw [hd] at this; linarith
  · intro l r h
    obtain ⟨I, t, _, _, _, _, _, _, hl, hr, hlen⟩ :=
      segment_split_pair sq hs s l r (ithAxis axis) bias eps he (s.localSplit (ithAxis axis) bias eps).2 (Prod.ext h rfl)
    refine ⟨fun p hp => ?_, fun p hp => ?_, hlen⟩
    · have := hl p hp; rw [hd] at this; linarith
    · have := hr p hp; rw [hd] at this; linarith
  · intro ha hb
    rw [segment_split_negative_of_side sq hs s (ithAxis axis) bias eps he (by rw [hd]; linarith) (by rw [hd]; linarith)]
  · intro hab hpar
    have hsub : (ithAxis axis : V3 K).dot (s.b.sub s.a) = s.b.get axis.val - s.a.get axis.val := by
      rw [hd]; rcases axis with ⟨_ | _ | _ | k, hi⟩ <;> simp [V3.get, V3.sub] <;> omega
    obtain ⟨l, r, I, t, h⟩ := segment_split_pair_of_sides sq hs s (ithAxis axis) bias eps he hn
      (by rw [hd, hd]; rcases hab with ⟨h1, h2⟩ | ⟨h1, h2⟩
          · exact Or.inl ⟨by linarith, by linarith⟩
          · exact Or.inr ⟨by linarith, by linarith⟩)
      (by rw [hsub]; exact hpar)
    exact ⟨l, r, by rw [h]⟩

/-- the segment `(0,0,0)-(10,0,0)` against `x = 19/2` with `epsilon = 1/10`: the cut is at distance `1/2 > epsilon` of the second end
point, both end points are beyond `epsilon`: the hypotheses of the `Pair` clause hold (a tolerance scaled by the length, `epsilon·L = 1`,
would swallow this cut). -/
example : ((⟨0, 0, 0⟩ : V3 ℚ).get 0 < 19/2 - 1/10 ∧ (19/2 : ℚ) + 1/10 < (⟨10, 0, 0⟩ : V3 ℚ).get 0) ∧
    eps52 ℚ < |(⟨10, 0, 0⟩ : V3 ℚ).get 0 - (⟨0, 0, 0⟩ : V3 ℚ).get 0| := by
  simp only [V3.get, eps52]; norm_num


/-! ## `Aabb::clip_line`, `Aabb::clip_ray` (segment constructors) -/

private theorem seg_of_params (o d : V3 K) (t0 t1 : K) (h : t0 ≤ t1) (p : V3 K) :
    letI := fieldNum K sq
    (Segment3.mk (o.add (d.smul t0)) (o.add (d.smul t1))).Mem p ↔ ∃ t, t0 ≤ t ∧ t ≤ t1 ∧ p = lineAt o d t := by
  letI : Num K := fieldNum K sq
  simp only [Segment3.Mem]
  constructor
  · rintro ⟨u, u0, u1, rfl⟩
    refine ⟨t0 + u * (t1 - t0), by nlinarith, by nlinarith, ?_⟩
    simp only [lineAt, V3.add, V3.sub, V3.smul, V3.mk.injEq]
    refine ⟨?_, ?_, ?_⟩ <;> ring
  · rintro ⟨t, h0, h1, rfl⟩
    rcases eq_or_lt_of_le h with heq | hlt
    · have : t = t0 := le_antisymm (by linarith) h0
      subst this
      refine ⟨0, le_refl _, zero_le_one, ?_⟩
      simp only [lineAt, V3.add, V3.sub, V3.smul, V3.mk.injEq]
      refine ⟨?_, ?_, ?_⟩ <;> ring
    · have hne : t1 - t0 ≠ 0 := ne_of_gt (by linarith)
      refine ⟨(t - t0) / (t1 - t0), div_nonneg (by linarith) (by linarith), (div_le_one (by linarith)).mpr (by linarith), ?_⟩
      simp only [lineAt, V3.add, V3.sub, V3.smul, V3.mk.injEq]
      refine ⟨?_, ?_, ?_⟩ <;> field_simp <;> ring

/-- **C17 (`Aabb::clip_line`)**: the returned segment is *exactly* the part of the line `{orig + t·dir, |t| ≤ f64::MAX}` inside the
box, as a point set; `None` exactly when the line misses the box. Every direction (zero components, zero vector, non-unit). -/
theorem clip_line_spec (b : Aabb3 K) (o d : V3 K) (hb : ValidBox b) :
    letI := fieldNum K sq
    match clipLine b o d with
    | some s => ∀ p, s.Mem p ↔ ∃ t, (-big K ≤ t ∧ t ≤ big K) ∧ p = lineAt o d t ∧ BMem b p
    | none => ∀ t, -big K ≤ t → t ≤ big K → ¬ BMem b (lineAt o d t) := by
  letI : Num K := fieldNum K sq
  have key := clip_line_parameters_spec sq b o d hb
  simp only [clipLine, clipLineParameters] at key ⊢
  revert key
  cases @clipAabbLineC K (fieldNum K sq) b o d with
  | none => intro key; exact key
  | some c =>
    intro key
    simp only [Option.map_some] at key ⊢
    obtain ⟨h01, hk⟩ := key
    intro p
    rw [seg_of_params sq o d _ _ h01 p]
    constructor
    · rintro ⟨t, a1, a2, rfl⟩
      obtain ⟨r, m⟩ := (hk t).mp ⟨a1, a2⟩
      exact ⟨t, r, rfl, m⟩
    · rintro ⟨t, r, rfl, m⟩
      obtain ⟨a1, a2⟩ := (hk t).mpr ⟨r, m⟩
      exact ⟨t, a1, a2, rfl⟩

/-- **C17 (`Aabb::clip_ray`)**: the returned segment is *exactly* the part of the ray `{origin + t·dir, 0 ≤ t ≤ f64::MAX}` inside
the box; `None` exactly when the ray misses the box (a box behind the origin included). -/
theorem clip_ray_spec (b : Aabb3 K) (o d : V3 K) (hb : ValidBox b) :
    letI := fieldNum K sq
    match clipRay b o d with
    | some s => ∀ p, s.Mem p ↔ ∃ t, (0 ≤ t ∧ t ≤ big K) ∧ p = lineAt o d t ∧ BMem b p
    | none => ∀ t, 0 ≤ t → t ≤ big K → ¬ BMem b (lineAt o d t) := by
  letI : Num K := fieldNum K sq
  have key := clip_ray_parameters_spec sq b o d hb
  simp only [clipRay] at key ⊢
  revert key
  cases @clipRayParameters K (fieldNum K sq) b o d with
  | none => intro key; exact key
  | some c =>
    intro key
    simp only [Option.map_some] at key ⊢
    obtain ⟨h01, hk⟩ := key
    intro p
    rw [seg_of_params sq o d _ _ h01 p]
    constructor
    · rintro ⟨t, a1, a2, rfl⟩
      obtain ⟨r, m⟩ := (hk t).mp ⟨a1, a2⟩
      exact ⟨t, r, rfl, m⟩
    · rintro ⟨t, r, rfl, m⟩
      obtain ⟨a1, a2⟩ := (hk t).mpr ⟨r, m⟩
      exact ⟨t, a1, a2, rfl⟩

example : (letI := fieldNum ℚ id; (clipLine (⟨⟨0, 0, 0⟩, ⟨1, 2, 3⟩⟩ : Aabb3 ℚ) ⟨3, 1, 1⟩ ⟨1, 0, 0⟩).map fun s => (s.a.x, s.b.x)) = some (0, 1) := by
  decide +kernel
example : (letI := fieldNum ℚ id; (clipRay (⟨⟨0, 0, 0⟩, ⟨1, 2, 3⟩⟩ : Aabb3 ℚ) ⟨1/2, 1, 1⟩ ⟨2, 0, 0⟩).map fun s => (s.a.x, s.b.x)) = some (1/2, 1) := by
  decide +kernel
example : (letI := fieldNum ℚ id; (clipRay (⟨⟨0, 0, 0⟩, ⟨1, 2, 3⟩⟩ : Aabb3 ℚ) ⟨3, 1, 1⟩ ⟨1, 0, 0⟩).isNone) = true := by
  decide +kernel

end C17
