import ParryModel.C17.Lemmas
import ParryModel.C17.SplitModel
/-!
# C17 property theorems, part 7 (fu5): `Aabb::split_at_center` (octree / quad-tree split) and the boundary completeness of the
Sutherland–Hodgman step `clip_halfspace_polygon`.
Vocabulary: `C09.BMem`/`BMem2` (closed box), `IntMem`/`IntMem2` (open box), `InteriorDisjoint`, `ValidBox`, `hsVal`, `segPt`, `eps52`.
-/
namespace C17
open Model C09

set_option linter.unusedSectionVars false
set_option linter.unusedTactic false
set_option linter.unreachableTactic false
set_option linter.style.haveILetI false
set_option linter.unusedVariables false

variable {K : Type} [Field K] [LinearOrder K] [IsStrictOrderedRing K] (sq : K → K)

/-! ## `Aabb::split_at_center` (3-D) -/

private theorem half_eq : ((mkRat 1 2 : Rat) : K) = 1 / 2 := by norm_num

/-- **C17 (`Aabb::split_at_center`, cover)**: the eight octants of a valid box cover exactly the box: a point is in the box iff it
is in one of the returned boxes. -/
theorem split_at_center_cover (b : Aabb3 K) (hb : ValidBox b) (p : V3 K) :
    letI := fieldNum K sq
    BMem b p ↔ ∃ o ∈ b.splitAtCenter, BMem o p := by
  letI : Num K := fieldNum K sq
  have h0 := hb 0; have h1 := hb 1; have h2 := hb 2
  simp only [V3.get] at h0 h1 h2
  norm_num at h0 h1 h2
  simp only [Aabb3.splitAtCenter, Aabb3.center, V3.center, V3.add, V3.smul, fieldNum_lit, half_eq, List.mem_cons,
    List.not_mem_nil, or_false, exists_eq_or_imp, exists_eq_left, BMem]
  constructor
  · intro ⟨⟨hx1, hx2⟩, ⟨hy1, hy2⟩, hz1, hz2⟩
    rcases le_total p.x ((b.mins.x + b.maxs.x) * (1 / 2)) with hx | hx <;>
    rcases le_total p.y ((b.mins.y + b.maxs.y) * (1 / 2)) with hy | hy <;>
    rcases le_total p.z ((b.mins.z + b.maxs.z) * (1 / 2)) with hz | hz <;>
    repeat (first
      | exact Or.inl ⟨⟨by linarith, by linarith⟩, ⟨by linarith, by linarith⟩, by linarith, by linarith⟩
      | exact ⟨⟨by linarith, by linarith⟩, ⟨by linarith, by linarith⟩, by linarith, by linarith⟩
      | refine Or.inr ?_)
  · rintro (h | h | h | h | h | h | h | h) <;> obtain ⟨⟨hx1, hx2⟩, ⟨hy1, hy2⟩, hz1, hz2⟩ := h <;>
      exact ⟨⟨by linarith, by linarith⟩, ⟨by linarith, by linarith⟩, by linarith, by linarith⟩

/-- **C17 (`Aabb::split_at_center`, disjointness)**: the eight returned boxes are pairwise interior-disjoint (any input box). -/
theorem split_at_center_disjoint (b : Aabb3 K) :
    letI := fieldNum K sq
    b.splitAtCenter.Pairwise InteriorDisjoint := by
  letI : Num K := fieldNum K sq
  simp only [Aabb3.splitAtCenter, List.pairwise_cons, List.mem_cons, List.not_mem_nil, or_false, forall_eq_or_imp, forall_eq,
    List.Pairwise.nil, and_true, IsEmpty.forall_iff, implies_true]
  refine ⟨?_, ?_, ?_, ?_, ?_, ?_, ?_⟩ <;> (try refine ⟨?_, ?_⟩) <;> (try refine ⟨?_, ?_⟩) <;> (try refine ⟨?_, ?_⟩) <;>
    (try refine ⟨?_, ?_⟩) <;> (try refine ⟨?_, ?_⟩) <;> (try refine ⟨?_, ?_⟩) <;>
  · rintro p ⟨ha, hb'⟩
    have a0 := ha 0; have a1 := ha 1; have a2 := ha 2; have b0 := hb' 0; have b1 := hb' 1; have b2 := hb' 2
    simp only [V3.get] at a0 a1 a2 b0 b1 b2
    norm_num at a0 a1 a2 b0 b1 b2
    first
      | exact lt_asymm a0.1 b0.2 | exact lt_asymm a0.2 b0.1
      | exact lt_asymm a1.1 b1.2 | exact lt_asymm a1.2 b1.1
      | exact lt_asymm a2.1 b2.2 | exact lt_asymm a2.2 b2.1

/-- **C17 (`Aabb::split_at_center`, conservation)**: eight boxes are returned, each has one eighth of the volume (and half the
extent on every axis), so the volumes add up to the volume of the input — an identity, for every input box. -/
theorem split_at_center_volume (b : Aabb3 K) :
    letI := fieldNum K sq
    b.splitAtCenter.length = 8 ∧ (∀ o ∈ b.splitAtCenter, o.volume = b.volume / 8 ∧
      o.maxs.x - o.mins.x = (b.maxs.x - b.mins.x) / 2 ∧ o.maxs.y - o.mins.y = (b.maxs.y - b.mins.y) / 2 ∧
      o.maxs.z - o.mins.z = (b.maxs.z - b.mins.z) / 2) ∧
    (b.splitAtCenter.map Aabb3.volume).sum = b.volume := by
  letI : Num K := fieldNum K sq
  refine ⟨rfl, ?_, ?_⟩
  · simp only [Aabb3.splitAtCenter, Aabb3.center, V3.center, V3.add, V3.smul, fieldNum_lit, half_eq, List.mem_cons,
      List.not_mem_nil, or_false, forall_eq_or_imp, forall_eq, Aabb3.volume, Aabb3.extents, V3.sub]
    refine ⟨?_, ?_, ?_, ?_, ?_, ?_, ?_, ?_⟩ <;> refine ⟨?_, ?_, ?_, ?_⟩ <;> ring
  · simp only [Aabb3.splitAtCenter, Aabb3.center, V3.center, V3.add, V3.smul, fieldNum_lit, half_eq, List.map_cons, List.map_nil,
      List.sum_cons, List.sum_nil, Aabb3.volume, Aabb3.extents, V3.sub]
    ring

/-- **C17 (`Aabb::split_at_center`, validity)**: every octant of a valid box is a valid box, contains the centre of the input and
lies inside the input. -/
theorem split_at_center_valid (b : Aabb3 K) (hb : ValidBox b) :
    letI := fieldNum K sq
    ∀ o ∈ b.splitAtCenter, ValidBox o ∧ BMem o b.center ∧ ∀ p, BMem o p → BMem b p := by
  letI : Num K := fieldNum K sq
  have h0 := hb 0; have h1 := hb 1; have h2 := hb 2
  simp only [V3.get] at h0 h1 h2
  norm_num at h0 h1 h2
  intro o ho
  refine ⟨?_, ?_, ?_⟩
  · intro i
    simp only [Aabb3.splitAtCenter, Aabb3.center, V3.center, V3.add, V3.smul, fieldNum_lit, half_eq, List.mem_cons,
      List.not_mem_nil, or_false] at ho
    rcases ho with rfl | rfl | rfl | rfl | rfl | rfl | rfl | rfl <;>
      rcases i with ⟨_ | _ | _ | n, hi⟩ <;> simp [V3.get] <;> first | linarith | omega
  · simp only [Aabb3.splitAtCenter, Aabb3.center, V3.center, V3.add, V3.smul, fieldNum_lit, half_eq, List.mem_cons,
      List.not_mem_nil, or_false] at ho ⊢
    rcases ho with rfl | rfl | rfl | rfl | rfl | rfl | rfl | rfl <;>
      exact ⟨⟨by linarith, by linarith⟩, ⟨by linarith, by linarith⟩, by linarith, by linarith⟩
  · intro p hp
    exact (split_at_center_cover sq b hb p).mpr ⟨o, ho, hp⟩

/-! non-vacuity: the box `[0,2]×[0,4]×[-1,1]`: eight octants, the first is `[0,1]×[0,2]×[-1,0]`, volumes `2` each -/
example : ValidBox (⟨⟨0, 0, -1⟩, ⟨2, 4, 1⟩⟩ : Aabb3 ℚ) := by
  intro i; rcases i with ⟨_ | _ | _ | n, hi⟩ <;> simp [V3.get] <;> first | norm_num | omega
example : (letI := fieldNum ℚ id; ((⟨⟨0, 0, -1⟩, ⟨2, 4, 1⟩⟩ : Aabb3 ℚ).splitAtCenter.map fun o =>
    [o.mins.x, o.mins.y, o.mins.z, o.maxs.x, o.maxs.y, o.maxs.z, o.volume]).take 2) =
    [[0, 0, -1, 1, 2, 0, 2], [1, 0, -1, 2, 2, 0, 2]] := by
  decide +kernel

/-! ## `Aabb::split_at_center` (2-D) -/

/-- open 2-D box -/
def IntMem2 (b : Aabb2 K) (p : V2 K) : Prop := (b.mins.x < p.x ∧ p.x < b.maxs.x) ∧ (b.mins.y < p.y ∧ p.y < b.maxs.y)

/-- **C17 (`Aabb::split_at_center`, 2-D)**: for a valid box (`mins ≤ maxs`) the four quadrants cover exactly the box, are pairwise
interior-disjoint, have a quarter of the area each and their areas add up to the area of the input. -/
theorem split_at_center_2d (b : Aabb2 K) (hx : b.mins.x ≤ b.maxs.x) (hy : b.mins.y ≤ b.maxs.y) :
    letI := fieldNum K sq
    (∀ p, BMem2 b p ↔ ∃ o ∈ b.splitAtCenter, BMem2 o p) ∧
    b.splitAtCenter.Pairwise (fun a c => ∀ p, ¬ (IntMem2 a p ∧ IntMem2 c p)) ∧
    (∀ o ∈ b.splitAtCenter, o.volume = b.volume / 4) ∧
    (b.splitAtCenter.map Aabb2.volume).sum = b.volume := by
  letI : Num K := fieldNum K sq
  refine ⟨?_, ?_, ?_, ?_⟩
  · intro p
    simp only [Aabb2.splitAtCenter, Aabb2.center, V2.center, V2.add, V2.smul, fieldNum_lit, half_eq, List.mem_cons,
      List.not_mem_nil, or_false, exists_eq_or_imp, exists_eq_left, BMem2]
    constructor
    · intro ⟨⟨hx1, hx2⟩, hy1, hy2⟩
      rcases le_total p.x ((b.mins.x + b.maxs.x) * (1 / 2)) with hx | hx <;>
      rcases le_total p.y ((b.mins.y + b.maxs.y) * (1 / 2)) with hy | hy <;>
      repeat (first
        | exact Or.inl ⟨⟨by linarith, by linarith⟩, by linarith, by linarith⟩
        | exact ⟨⟨by linarith, by linarith⟩, by linarith, by linarith⟩
        | refine Or.inr ?_)
    · rintro (h | h | h | h) <;> obtain ⟨⟨hx1, hx2⟩, hy1, hy2⟩ := h <;>
        exact ⟨⟨by linarith, by linarith⟩, by linarith, by linarith⟩
  · simp only [Aabb2.splitAtCenter, List.pairwise_cons, List.mem_cons, List.not_mem_nil, or_false, forall_eq_or_imp, forall_eq,
      List.Pairwise.nil, and_true, IsEmpty.forall_iff, implies_true, IntMem2]
    refine ⟨⟨?_, ?_, ?_⟩, ⟨?_, ?_⟩, ?_⟩ <;>
    · rintro p ⟨⟨a0, a1⟩, b0, b1⟩
      first
        | exact lt_asymm a0.1 b0.2 | exact lt_asymm a0.2 b0.1
        | exact lt_asymm a1.1 b1.2 | exact lt_asymm a1.2 b1.1
  · simp only [Aabb2.splitAtCenter, Aabb2.center, V2.center, V2.add, V2.smul, fieldNum_lit, half_eq, List.mem_cons,
      List.not_mem_nil, or_false, forall_eq_or_imp, forall_eq, Aabb2.volume, V2.sub]
    refine ⟨?_, ?_, ?_, ?_⟩ <;> ring
  · simp only [Aabb2.splitAtCenter, Aabb2.center, V2.center, V2.add, V2.smul, fieldNum_lit, half_eq, List.map_cons, List.map_nil,
      List.sum_cons, List.sum_nil, Aabb2.volume, V2.sub]
    ring

example : (letI := fieldNum ℚ id; ((⟨⟨0, 0⟩, ⟨2, 4⟩⟩ : Aabb2 ℚ).splitAtCenter.map fun o =>
    (o.mins.x, o.mins.y, o.maxs.x, o.maxs.y, o.volume))) =
    [(0, 0, 1, 2, 2), (1, 0, 2, 2, 2), (1, 2, 2, 4, 2), (0, 2, 1, 4, 2)] := by
  decide +kernel

/-! ## `clip_halfspace_polygon`: nothing of the polygon's boundary inside the half-space is lost -/

/-- the edges of a closed polygon in the order `clip_halfspace_polygon` visits them: `(last, v₀), (v₀, v₁), …, (vₙ₋₂, vₙ₋₁)` -/
def cyclicEdgesT (poly : List (V3 K)) : List (V3 K × V3 K) :=
  match poly.getLast? with
  | none => []
  | some last => (last :: poly).zip poly

/-- `a` and `b` lie strictly on opposite sides of the plane `n·(p - c) = 0` -/
def StrictlyAcross (c n a b : V3 K) : Prop :=
  (hsVal c n a < 0 ∧ 0 < hsVal c n b) ∨ (0 < hsVal c n a ∧ hsVal c n b < 0)

private theorem clipVisit_crossing (c n prev pt : V3 K) (isLast : Bool) (hside : StrictlyAcross c n prev pt)
    (hgap : eps52 K < |hsVal c n pt - hsVal c n prev|) :
    ∃ t, 0 < t ∧ t < 1 ∧ hsVal c n (segPt prev pt t) = 0 ∧
      segPt prev pt t ∈ @clipVisit K (fieldNum K sq) c n prev (@keepPoint K (fieldNum K sq) c n prev) pt isLast := by
  letI : Num K := fieldNum K sq
  have hd : n.dot (pt.sub prev) = hsVal c n pt - hsVal c n prev := by simp only [hsVal, V3.dot, V3.sub]; ring
  have hn : n.dot (c.sub prev) = -hsVal c n prev := by simp only [hsVal, V3.dot, V3.sub]; ring
  have hrel : relEqZero (n.dot (pt.sub prev)) = false := by
    rw [Bool.eq_false_iff]; intro h; rw [relEqZero_iff, hd] at h; exact absurd h (not_le.mpr hgap)
  have kf : ∀ p : V3 K, 0 < hsVal c n p → keepPoint c n p = false := by
    intro p hp; rw [Bool.eq_false_iff]; intro h; exact absurd ((keepPoint_iff sq c n p).mp h) (not_le.mpr hp)
  have hk : (keepPoint c n pt != keepPoint c n prev) = true := by
    rcases hside with ⟨h1, h2⟩ | ⟨h1, h2⟩
    · simp [(keepPoint_iff sq c n prev).mpr h1.le, kf pt h2]
    · simp [(keepPoint_iff sq c n pt).mpr h2.le, kf prev h1]
  obtain ⟨T, hT⟩ : ∃ T, T = n.dot (c.sub prev) / n.dot (pt.sub prev) := ⟨_, rfl⟩
  have hT' : T = -hsVal c n prev / (hsVal c n pt - hsVal c n prev) := by rw [hT, hd, hn]
  have hne : hsVal c n pt - hsVal c n prev ≠ 0 := by
    rcases hside with ⟨h1, h2⟩ | ⟨h1, h2⟩
    · exact ne_of_gt (by linarith)
    · exact ne_of_lt (by linarith)
  have ht0 : 0 < T := by
    rw [hT']
    rcases hside with ⟨h1, h2⟩ | ⟨h1, h2⟩
    · exact div_pos (by linarith) (by linarith)
    · exact div_pos_of_neg_of_neg (by linarith) (by linarith)
  have ht1 : T < 1 := by
    rw [hT']
    rcases hside with ⟨h1, h2⟩ | ⟨h1, h2⟩
    · rw [div_lt_one (by linarith)]; linarith
    · rw [div_lt_one_of_neg (by linarith)]; linarith
  refine ⟨T, ht0, ht1, ?_, ?_⟩
  · rw [hsVal_segPt, hT']; field_simp; ring
  · simp only [clipVisit, rayToiHalfspace, lineToiHalfspace, hk, hrel, Bool.false_eq_true, if_false, if_true, ← hT,
      if_pos ht0.le, if_pos (And.intro ht0 ht1), List.mem_append, List.mem_singleton]
    left; rfl

private theorem clipPolyLoop_crossing (c n : V3 K) (l : List (V3 K)) : ∀ (prev a b : V3 K),
    (a, b) ∈ (prev :: l).zip l → StrictlyAcross c n a b → eps52 K < |hsVal c n b - hsVal c n a| →
    ∃ t, 0 < t ∧ t < 1 ∧ hsVal c n (segPt a b t) = 0 ∧
      segPt a b t ∈ @clipPolyLoop K (fieldNum K sq) c n prev (@keepPoint K (fieldNum K sq) c n prev) l := by
  induction l with
  | nil => intro prev a b h; simp at h
  | cons pt rest ih =>
    intro prev a b h hs hg
    simp only [List.zip_cons_cons, List.mem_cons, Prod.mk.injEq] at h
    rcases h with ⟨rfl, rfl⟩ | h
    · obtain ⟨t, t0, t1, hz, hm⟩ := clipVisit_crossing sq c n a b rest.isEmpty hs hg
      exact ⟨t, t0, t1, hz, by simp only [clipPolyLoop, List.mem_append]; exact Or.inl hm⟩
    · obtain ⟨t, t0, t1, hz, hm⟩ := ih pt a b h hs hg
      exact ⟨t, t0, t1, hz, by simp only [clipPolyLoop, List.mem_append]; exact Or.inr hm⟩

private theorem keeps' (c n : V3 K) (poly : List (V3 K)) (p : V3 K) (hp : p ∈ poly) (hk : hsVal c n p ≤ 0) :
    p ∈ @clipHalfspacePolygon K (fieldNum K sq) c n poly := by
  letI : Num K := fieldNum K sq
  simp only [clipHalfspacePolygon]
  split
  · rename_i hnone
    cases poly with
    | nil => simp at hp
    | cons x xs => simp [List.getLast?_cons] at hnone
  · rename_i last hlast
    simp only [List.mem_append]
    rcases clipPolyLoop_complete sq c n poly last (keepPoint c n last) p hp hk with h | h
    · exact Or.inr h
    · left
      rw [hlast] at h
      simp only [Option.some.injEq] at h; subst h
      have := (keepPoint_iff sq c n last).mpr hk
      simp [this]

/-- the crossing point of a strictly crossed polygon edge is an output vertex -/
private theorem crossing_mem (c n : V3 K) (poly : List (V3 K)) (a b : V3 K) (hab : (a, b) ∈ cyclicEdgesT poly)
    (hs : StrictlyAcross c n a b) (hg : eps52 K < |hsVal c n b - hsVal c n a|) :
    ∃ t, 0 < t ∧ t < 1 ∧ hsVal c n (segPt a b t) = 0 ∧ segPt a b t ∈ @clipHalfspacePolygon K (fieldNum K sq) c n poly := by
  letI : Num K := fieldNum K sq
  simp only [cyclicEdgesT] at hab
  simp only [clipHalfspacePolygon]
  split at hab
  · simp at hab
  · rename_i last hlast
    obtain ⟨t, t0, t1, hz, hm⟩ := clipPolyLoop_crossing sq c n poly last a b hab hs hg
    exact ⟨t, t0, t1, hz, by simp only [hlast, List.mem_append]; exact Or.inr hm⟩

/-- **C17 (Sutherland–Hodgman step, completeness on the boundary)**: no part of the polygon's boundary that lies in the half-space
is lost. For every edge `(a, b)` of the closed input polygon (consecutive vertices, including `(last, first)`) and every point
`x = a + s(b-a)`, `0 ≤ s ≤ 1`, of that edge with `n·(x - c) ≤ 0`, there are two *output* vertices `p, q` lying on that same edge with
`x ∈ [p, q]` — `p, q` are the kept end points of the edge or its crossing point with the plane. Hypothesis `hgap`: an edge whose
end points are strictly on opposite sides is not numerically parallel to the plane (`|n·(b-a)| > f64::EPSILON`; below this
threshold `line_toi_with_halfspace` answers "parallel" and the code drops the crossing point — that behaviour is modelled, and
excluded here). Together with `clip_halfspace_polygon_sound` (every output vertex is a kept vertex or a crossing point): the
boundary of the output polygon restricted to the input's edges is exactly (input boundary) ∩ (half-space). -/
theorem clip_halfspace_polygon_boundary_complete (c n : V3 K) (poly : List (V3 K)) (a b : V3 K)
    (hab : (a, b) ∈ cyclicEdgesT poly)
    (hgap : StrictlyAcross c n a b → eps52 K < |hsVal c n b - hsVal c n a|)
    (s : K) (hs0 : 0 ≤ s) (hs1 : s ≤ 1) (hx : hsVal c n (segPt a b s) ≤ 0) :
    ∃ p ∈ @clipHalfspacePolygon K (fieldNum K sq) c n poly, ∃ q ∈ @clipHalfspacePolygon K (fieldNum K sq) c n poly,
      ∃ tp tq u, (0 ≤ tp ∧ tp ≤ 1) ∧ (0 ≤ tq ∧ tq ≤ 1) ∧ (0 ≤ u ∧ u ≤ 1) ∧
        p = segPt a b tp ∧ q = segPt a b tq ∧ segPt a b s = segPt p q u := by
  letI : Num K := fieldNum K sq
  have hmem : a ∈ poly ∧ b ∈ poly := by
    simp only [cyclicEdgesT] at hab
    split at hab
    · simp at hab
    · rename_i last hlast
      have h := List.of_mem_zip hab
      refine ⟨?_, h.2⟩
      rcases List.mem_cons.mp h.1 with rfl | h1
      · exact List.mem_of_getLast? hlast
      · exact h1
  have e0 : segPt a b 0 = a := by simp [segPt]
  have e1 : segPt a b 1 = b := by simp [segPt]
  rw [hsVal_segPt] at hx
  rcases le_or_gt (hsVal c n a) 0 with ha | ha <;> rcases le_or_gt (hsVal c n b) 0 with hb | hb
  · -- both end points kept
    refine ⟨a, keeps' sq c n poly a hmem.1 ha, b, keeps' sq c n poly b hmem.2 hb, 0, 1, s, ⟨le_refl _, zero_le_one⟩,
      ⟨zero_le_one, le_refl _⟩, ⟨hs0, hs1⟩, e0.symm, e1.symm, rfl⟩
  · -- a kept, b dropped
    rcases eq_or_lt_of_le ha with ha0 | ha'
    · have hs : s = 0 := by
        rcases eq_or_lt_of_le hs0 with h | h
        · exact h.symm
        · exfalso; rw [ha0] at hx; nlinarith
      refine ⟨a, keeps' sq c n poly a hmem.1 ha, a, keeps' sq c n poly a hmem.1 ha, 0, 0, 0, ⟨le_refl _, zero_le_one⟩,
        ⟨le_refl _, zero_le_one⟩, ⟨le_refl _, zero_le_one⟩, e0.symm, e0.symm, ?_⟩
      rw [hs]; simp [segPt]
    · have hsd : StrictlyAcross c n a b := Or.inl ⟨ha', hb⟩
      obtain ⟨t, t0, t1, hz, hm⟩ := crossing_mem sq c n poly a b hab hsd (hgap hsd)
      rw [hsVal_segPt] at hz
      have hst : s ≤ t := by nlinarith
      refine ⟨a, keeps' sq c n poly a hmem.1 ha, segPt a b t, hm, 0, t, s / t, ⟨le_refl _, zero_le_one⟩, ⟨t0.le, t1.le⟩,
        ⟨div_nonneg hs0 t0.le, (div_le_one t0).mpr hst⟩, e0.symm, rfl, ?_⟩
      have htne : t ≠ 0 := ne_of_gt t0
      simp only [segPt]; congr 1 <;> (field_simp; ring)
  · -- a dropped, b kept
    rcases eq_or_lt_of_le hb with hb0 | hb'
    · have hs : s = 1 := by
        rcases eq_or_lt_of_le hs1 with h | h
        · exact h
        · exfalso; rw [hb0] at hx; nlinarith
      refine ⟨b, keeps' sq c n poly b hmem.2 hb, b, keeps' sq c n poly b hmem.2 hb, 1, 1, 0, ⟨zero_le_one, le_refl _⟩,
        ⟨zero_le_one, le_refl _⟩, ⟨le_refl _, zero_le_one⟩, e1.symm, e1.symm, ?_⟩
      rw [hs]; simp [segPt]
    · have hsd : StrictlyAcross c n a b := Or.inr ⟨ha, hb'⟩
      obtain ⟨t, t0, t1, hz, hm⟩ := crossing_mem sq c n poly a b hab hsd (hgap hsd)
      rw [hsVal_segPt] at hz
      have hst : t ≤ s := by nlinarith
      have h1t : 0 < 1 - t := by linarith
      refine ⟨segPt a b t, hm, b, keeps' sq c n poly b hmem.2 hb, t, 1, (s - t) / (1 - t), ⟨t0.le, t1.le⟩, ⟨zero_le_one, le_refl _⟩,
        ⟨div_nonneg (by linarith) h1t.le, (div_le_one h1t).mpr (by linarith)⟩, rfl, e1.symm, ?_⟩
      have htne : 1 - t ≠ 0 := ne_of_gt h1t
      simp only [segPt]; congr 1 <;> (field_simp; ring)
  · -- both dropped: no point of the edge is in the half-space
    exfalso
    have h1 : 0 ≤ (1 - s) * hsVal c n a := mul_nonneg (by linarith) ha.le
    have h2 : 0 ≤ s * hsVal c n b := mul_nonneg hs0 hb.le
    rcases eq_or_lt_of_le hs0 with h | h
    · rw [← h] at hx; linarith
    · have : 0 < s * hsVal c n b := mul_pos h hb
      linarith

/-! non-vacuity: the unit square against `x ≤ 1/2`: the edge `(0,0,0)-(1,0,0)` is strictly crossed with gap `1 > 2⁻⁵²`; its point
at `s = 1/4` lies between the output vertices `(0,0,0)` and `(1/2,0,0)` -/
example : ((⟨0, 0, 0⟩, ⟨1, 0, 0⟩) : V3 ℚ × V3 ℚ) ∈ cyclicEdgesT [⟨0, 0, 0⟩, ⟨1, 0, 0⟩, ⟨1, 1, 0⟩, ⟨0, 1, 0⟩] := by
  simp [cyclicEdgesT]
example : StrictlyAcross (⟨1/2, 0, 0⟩ : V3 ℚ) ⟨1, 0, 0⟩ ⟨0, 0, 0⟩ ⟨1, 0, 0⟩ ∧
    eps52 ℚ < |hsVal (⟨1/2, 0, 0⟩ : V3 ℚ) ⟨1, 0, 0⟩ ⟨1, 0, 0⟩ - hsVal (⟨1/2, 0, 0⟩ : V3 ℚ) ⟨1, 0, 0⟩ ⟨0, 0, 0⟩| := by
  refine ⟨Or.inl ⟨by norm_num [hsVal], by norm_num [hsVal]⟩, ?_⟩
  norm_num [hsVal, eps52]

end C17
