import ParryModel.C17.Lemmas
import ParryModel.C17.CutModel
/-!
# C17 property theorems, part 11 (fu5): feature codes of `clip_segment_segment_with_normal` (2-D)
-/
namespace C17
open Model

set_option linter.unusedSectionVars false
set_option linter.unusedTactic false
set_option linter.unreachableTactic false
set_option linter.style.haveILetI false
set_option linter.unusedVariables false

variable {K : Type} [Field K] [LinearOrder K] [IsStrictOrderedRing K] (sq : K → K)

/-- what the feature codes of one clipping pair say: codes are `0` (first vertex), `1` (interior), `2` (second vertex); in every pair
one of the two points is reported as interior (the other one is the segment end that bounds the overlap); a vertex code names the
vertex the point is equal to -/
def FeatOK {K : Type} (a1 b1 a2 b2 : V2 K) (c : ClipPts K) : Prop :=
  (c.f1 = 1 ∨ c.f2 = 1) ∧ c.f1 ≤ 2 ∧ c.f2 ≤ 2 ∧
  (c.f1 = 0 → c.p1 = a1) ∧ (c.f1 = 2 → c.p1 = b1) ∧ (c.f2 = 0 → c.p2 = a2) ∧ (c.f2 = 2 → c.p2 = b2)

/-- **C17 (`clip_segment_segment_with_normal`, feature codes)**: for every normal and every pair of segments, both returned clipping
pairs carry consistent feature codes (`FeatOK`): a code `0` / `2` is only attached to a point that *is* the first / second vertex of
its segment (also after the internal re-ordering of the segments along the tangent), and one point of each pair is coded interior. -/
theorem clip_segment_segment_with_normal_features (a1 b1 a2 b2 n : V2 K) (ca cb : ClipPts K)
    (h : letI := fieldNum K sq; clipSegmentSegmentWithNormal a1 b1 a2 b2 n = some (ca, cb)) :
    FeatOK a1 b1 a2 b2 ca ∧ FeatOK a1 b1 a2 b2 cb := by
  letI : Num K := fieldNum K sq
  simp only [clipSegmentSegmentWithNormal, clipSSNCore] at h
  split_ifs at h <;>
    (simp only [Option.some.injEq, Prod.mk.injEq] at h
     obtain ⟨rfl, rfl⟩ := h
     simp [FeatOK])

/-! non-vacuity: the pair of the example of part 5 (second segment reversed): codes `(1, 2)` / `(1, 0)`-style, one interior each -/
example : (letI := fieldNum ℚ id; (clipSegmentSegmentWithNormal (⟨0, 0⟩ : V2 ℚ) ⟨2, 0⟩ ⟨3, 1⟩ ⟨1, 1⟩ ⟨0, 1⟩).map fun c =>
    [c.1.f1, c.1.f2, c.2.f1, c.2.f2]) = some [2, 1, 1, 2] := by
  decide +kernel

end C17
