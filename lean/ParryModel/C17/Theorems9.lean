import ParryModel.C17.Theorems8
/-!
# C17 property theorems, part 9 (fu5): the orientation walk of `TriMesh::intersection_with_local_plane` (step 3)

`Model.Section.orient` (CutModel.lean) is the literal transliteration of the `for first in 0..index_adjacencies.len()` loop with its
`while let Some(start) = index_adjacencies[first].first()` / inner `loop` (walk, erase the traversed adjacency entries with
`retain`, push the segment, flip `forward` after every walk). Proved here, for every symmetric adjacency structure (which is what
the triangle loop builds: `add_segment_adjacencies_symmetric`):
the emitted segment list contains every adjacency edge — in one of its two directions — and nothing else, no edge twice (neither in
the same nor in the opposite direction), and the model's fuel (number of adjacency entries + 1) is never exhausted.
-/
namespace C17
open Model Model.Cut

set_option linter.unusedSectionVars false
set_option linter.unusedTactic false
set_option linter.unreachableTactic false
set_option linter.style.haveILetI false
set_option linter.unusedVariables false

/-- `j` is listed in the adjacency of polyline vertex `i` -/
def AEdge (adj : Array (List Nat)) (i j : Nat) : Prop := j ∈ adj.getD i []
/-- the adjacency structure is symmetric -/
def ASym (adj : Array (List Nat)) : Prop := ∀ i j, AEdge adj i j → AEdge adj j i
/-- total number of adjacency entries -/
def ltot (L : List (List Nat)) : Nat := (L.map List.length).sum
def atot (adj : Array (List Nat)) : Nat := ltot adj.toList

theorem getD_set (xs : Array (List Nat)) (i j : Nat) (x : List Nat) :
    (xs.setIfInBounds i x).getD j [] = if j = i ∧ i < xs.size then x else xs.getD j [] := by
  simp only [Array.getD_eq_getD_getElem?, Array.getElem?_setIfInBounds]
  by_cases h : i = j
  · subst h
    by_cases h2 : i < xs.size
    · simp [h2]
    · simp [h2]
  · have : ¬ j = i := fun e => h e.symm
    simp [h, this]

theorem aedge_lt (adj : Array (List Nat)) (i j : Nat) (h : AEdge adj i j) : i < adj.size := by
  by_contra hc
  simp only [AEdge, Array.getD_eq_getD_getElem?, Array.getElem?_eq_none (not_lt.mp hc)] at h
  simp at h

/-- the two `retain` calls of one walk step -/
def eraseEdge (adj : Array (List Nat)) (p c : Nat) : Array (List Nat) :=
  (adj.setIfInBounds p ((adj.getD p []).filter (· != c))).setIfInBounds c
    (((adj.setIfInBounds p ((adj.getD p []).filter (· != c))).getD c []).filter (· != p))

theorem size_erase (adj : Array (List Nat)) (p c : Nat) : (eraseEdge adj p c).size = adj.size := by
  simp [eraseEdge]

theorem edge_erase (adj : Array (List Nat)) (p c i j : Nat) (hp : p < adj.size) (hc : c < adj.size) :
    AEdge (eraseEdge adj p c) i j ↔ AEdge adj i j ∧ ¬ (i = p ∧ j = c) ∧ ¬ (i = c ∧ j = p) := by
  simp only [AEdge, eraseEdge, getD_set, Array.size_setIfInBounds]
  by_cases h1 : i = c <;> by_cases h2 : i = p <;> by_cases h3 : c = p <;>
    simp_all [List.mem_filter] <;> tauto

private theorem ltot_set_le (L : List (List Nat)) : ∀ (i : Nat) (x : List Nat), x.length ≤ (L.getD i []).length →
    ltot (L.set i x) ≤ ltot L := by
  induction L with
  | nil => intro i x h; simp [ltot]
  | cons a rest ih =>
    intro i x h
    cases i with
    | zero => simp only [List.set_cons_zero, ltot, List.map_cons, List.sum_cons]; simp at h; omega
    | succ k =>
      have := ih k x (by simpa using h)
      simp only [List.set_cons_succ, ltot, List.map_cons, List.sum_cons] at this ⊢; omega

private theorem ltot_set_lt (L : List (List Nat)) : ∀ (i : Nat) (x : List Nat), i < L.length → x.length < (L.getD i []).length →
    ltot (L.set i x) < ltot L := by
  induction L with
  | nil => intro i x hi h; simp at hi
  | cons a rest ih =>
    intro i x hi h
    cases i with
    | zero => simp only [List.set_cons_zero, ltot, List.map_cons, List.sum_cons]; simp at h; omega
    | succ k =>
      have := ih k x (by simpa using hi) (by simpa using h)
      simp only [List.set_cons_succ, ltot, List.map_cons, List.sum_cons] at this ⊢; omega

private theorem getD_toList (adj : Array (List Nat)) (i : Nat) : adj.toList.getD i [] = adj.getD i [] := by
  simp [Array.getD_eq_getD_getElem?, List.getD_eq_getElem?_getD]

theorem atot_erase_lt (adj : Array (List Nat)) (p c : Nat) (h : AEdge adj p c) : atot (eraseEdge adj p c) < atot adj := by
  have hp := aedge_lt adj p c h
  have s1 : atot (adj.setIfInBounds p ((adj.getD p []).filter (· != c))) < atot adj := by
    simp only [atot, Array.toList_setIfInBounds]
    apply ltot_set_lt _ _ _ (by simpa using hp)
    rw [getD_toList]
    exact List.length_filter_lt_length_iff_exists.mpr ⟨c, h, by simp⟩
  have s2 : atot (eraseEdge adj p c) ≤ atot (adj.setIfInBounds p ((adj.getD p []).filter (· != c))) := by
    simp only [eraseEdge, atot]
    rw [Array.toList_setIfInBounds (xs := adj.setIfInBounds p _)]
    apply ltot_set_le
    rw [getD_toList]
    exact List.length_filter_le _ _
  omega

/-- two segments are different as *unordered* pairs -/
def SegNe (s t : Nat × Nat) : Prop := s ≠ t ∧ s ≠ (t.2, t.1)

/-- invariant of step 3 relative to the adjacency structure `A` built by step 2: what is left (`adj`) plus what was emitted
(`segs`, either direction) is exactly `A`; nothing emitted is left; nothing emitted twice -/
structure WInv (A adj : Array (List Nat)) (segs : List (Nat × Nat)) : Prop where
  size : adj.size = A.size
  sym : ASym adj
  cover : ∀ i j, AEdge A i j ↔ (AEdge adj i j ∨ (i, j) ∈ segs ∨ (j, i) ∈ segs)
  disj : ∀ s ∈ segs, ¬ AEdge adj s.1 s.2
  nodup : segs.Pairwise SegNe

theorem winv_step (A adj : Array (List Nat)) (segs : List (Nat × Nat)) (p c : Nat) (fwd : Bool)
    (hI : WInv A adj segs) (he : AEdge adj p c) :
    WInv A (eraseEdge adj p c) (segs ++ [if fwd then (p, c) else (c, p)]) := by
  have hp := aedge_lt adj p c he
  have hc := aedge_lt adj c p (hI.sym p c he)
  have E := fun i j => edge_erase adj p c i j hp hc
  refine ⟨by rw [size_erase]; exact hI.size, ?_, ?_, ?_, ?_⟩
  · intro i j h
    rw [E] at h ⊢
    exact ⟨hI.sym i j h.1, fun x => h.2.2 ⟨x.2, x.1⟩, fun x => h.2.1 ⟨x.2, x.1⟩⟩
  · intro i j
    rw [hI.cover i j, E]
    simp only [List.mem_append, List.mem_singleton]
    by_cases h1 : i = p ∧ j = c
    · obtain ⟨rfl, rfl⟩ := h1
      cases fwd <;> simp [he]
    · by_cases h2 : i = c ∧ j = p
      · obtain ⟨rfl, rfl⟩ := h2
        cases fwd <;> simp [hI.sym _ _ he]
      · have n1 : ¬ ((i, j) = (p, c)) := fun e => h1 (by simpa using e)
        have n2 : ¬ ((i, j) = (c, p)) := fun e => h2 (by simpa using e)
        have n3 : ¬ ((j, i) = (p, c)) := fun e => h2 (by simp at e; exact ⟨e.2, e.1⟩)
        have n4 : ¬ ((j, i) = (c, p)) := fun e => h1 (by simp at e; exact ⟨e.2, e.1⟩)
        cases fwd <;> simp [h1, h2, n1, n2, n3, n4]
  · intro s hs
    simp only [List.mem_append, List.mem_singleton] at hs
    rw [E]
    rcases hs with hs | rfl
    · exact fun h => hI.disj s hs h.1
    · cases fwd <;> simp
  · rw [List.pairwise_append]
    refine ⟨hI.nodup, by simp, ?_⟩
    intro s hs t ht
    simp only [List.mem_singleton] at ht
    have hd := hI.disj s hs
    have he' := hI.sym _ _ he
    constructor
    · rintro rfl
      cases fwd <;> simp at ht <;> subst ht <;> simp_all
    · rintro rfl
      cases fwd <;> simp at ht <;> subst ht <;> simp_all

/-- the inner `loop`: invariant kept, at least one entry erased, edges are only erased; the fuel is sufficient -/
theorem walk_spec (A : Array (List Nat)) : ∀ (fuel : Nat) (adj : Array (List Nat)) (segs : List (Nat × Nat)) (p c : Nat) (fwd : Bool),
    WInv A adj segs → AEdge adj p c → atot adj < fuel →
    WInv A (Section.walk fuel adj segs p c fwd).1 (Section.walk fuel adj segs p c fwd).2 ∧
    atot (Section.walk fuel adj segs p c fwd).1 < atot adj ∧
    ∀ i j, AEdge (Section.walk fuel adj segs p c fwd).1 i j → AEdge adj i j := by
  intro fuel
  induction fuel with
  | zero => intro adj segs p c fwd _ _ h; omega
  | succ f ih =>
    intro adj segs p c fwd hI he hf
    have hI1 := winv_step A adj segs p c fwd hI he
    have hlt := atot_erase_lt adj p c he
    have hp := aedge_lt adj p c he
    have hc := aedge_lt adj c p (hI.sym p c he)
    have hsub : ∀ i j, AEdge (eraseEdge adj p c) i j → AEdge adj i j := fun i j h => ((edge_erase adj p c i j hp hc).mp h).1
    have unfold : Section.walk (f + 1) adj segs p c fwd =
        match ((eraseEdge adj p c).getD c []).head? with
        | some next => Section.walk f (eraseEdge adj p c) (segs ++ [if fwd then (p, c) else (c, p)]) c next fwd
        | none => (eraseEdge adj p c, segs ++ [if fwd then (p, c) else (c, p)]) := by
      simp only [Section.walk, eraseEdge]
      rfl
    rw [unfold]
    cases hh : ((eraseEdge adj p c).getD c []).head? with
    | none => exact ⟨hI1, hlt, hsub⟩
    | some next =>
      dsimp only
      have hn : AEdge (eraseEdge adj p c) c next := List.mem_of_mem_head? (by rw [hh]; simp)
      obtain ⟨r1, r2, r3⟩ := ih (eraseEdge adj p c) _ c next fwd hI1 hn (by omega)
      exact ⟨r1, by omega, fun i j h => hsub i j (r3 i j h)⟩

/-- the `while let Some(start) = index_adjacencies[first].first()` loop: afterwards `first` has no adjacency left -/
theorem walksFrom_spec (A : Array (List Nat)) : ∀ (fuel : Nat) (adj : Array (List Nat)) (segs : List (Nat × Nat)) (first : Nat) (fwd : Bool),
    WInv A adj segs → atot adj < fuel →
    WInv A (Section.walksFrom fuel adj segs first fwd).1 (Section.walksFrom fuel adj segs first fwd).2 ∧
    atot (Section.walksFrom fuel adj segs first fwd).1 ≤ atot adj ∧
    (∀ i j, AEdge (Section.walksFrom fuel adj segs first fwd).1 i j → AEdge adj i j) ∧
    (Section.walksFrom fuel adj segs first fwd).1.getD first [] = [] := by
  intro fuel
  induction fuel with
  | zero => intro adj segs first fwd _ h; omega
  | succ f ih =>
    intro adj segs first fwd hI hf
    simp only [Section.walksFrom]
    cases hh : (adj.getD first []).head? with
    | none => exact ⟨hI, le_refl _, fun _ _ h => h, List.head?_eq_none_iff.mp hh⟩
    | some start =>
      dsimp only
      have hs : AEdge adj first start := List.mem_of_mem_head? (by rw [hh]; simp)
      obtain ⟨w1, w2, w3⟩ := walk_spec A (f + 1) adj segs first start fwd hI hs hf
      obtain ⟨r1, r2, r3, r4⟩ := ih (Section.walk (f + 1) adj segs first start fwd).1 (Section.walk (f + 1) adj segs first start fwd).2
        first (!fwd) w1 (by omega)
      exact ⟨r1, by omega, fun i j h => w3 i j (r3 i j h), r4⟩

private theorem orient_fold (A : Array (List Nat)) (fuel : Nat) (l : List Nat) :
    ∀ (acc : Array (List Nat) × List (Nat × Nat)), WInv A acc.1 acc.2 → atot acc.1 < fuel →
    WInv A (l.foldl (fun acc first => Section.walksFrom fuel acc.1 acc.2 first true) acc).1
      (l.foldl (fun acc first => Section.walksFrom fuel acc.1 acc.2 first true) acc).2 ∧
    (∀ i, (i ∈ l ∨ acc.1.getD i [] = []) →
      (l.foldl (fun acc first => Section.walksFrom fuel acc.1 acc.2 first true) acc).1.getD i [] = []) := by
  induction l with
  | nil => intro acc hI hf; exact ⟨hI, fun i h => by simpa using h⟩
  | cons x rest ih =>
    intro acc hI hf
    obtain ⟨r1, r2, r3, r4⟩ := walksFrom_spec A fuel acc.1 acc.2 x true hI hf
    obtain ⟨q1, q2⟩ := ih (Section.walksFrom fuel acc.1 acc.2 x true) r1 (by omega)
    simp only [List.foldl_cons]
    refine ⟨q1, fun i h => q2 i ?_⟩
    rcases h with h | h
    · rcases List.mem_cons.mp h with rfl | h'
      · exact Or.inr r4
      · exact Or.inl h'
    · right
      by_contra hne
      obtain ⟨j, hj⟩ := List.exists_mem_of_ne_nil _ hne
      have := r3 i j hj
      simp [AEdge, h] at this

/-- **C17 (plane section, orientation pass)**: for a symmetric adjacency structure `A` (polyline vertex `i` lists `j` iff `j` lists
`i`; multiple entries and self-loops allowed) the segment list emitted by step 3 of `intersection_with_local_plane` satisfies:
(1) a pair `i, j` is adjacent in `A` iff `[i, j]` or `[j, i]` is an emitted segment — no section segment is lost by the walk and none
is invented; (2) no segment is emitted twice, neither in the same nor in the opposite direction; (3) every emitted index is a
valid polyline vertex index. In particular the walk terminates without exhausting the model's fuel. -/
theorem orient_spec (A : Array (List Nat)) (hs : ASym A) :
    (∀ i j, AEdge A i j ↔ ((i, j) ∈ Section.orient A ∨ (j, i) ∈ Section.orient A)) ∧
    (Section.orient A).Pairwise SegNe ∧
    (∀ s ∈ Section.orient A, s.1 < A.size ∧ s.2 < A.size) := by
  have h0 : WInv A A [] := ⟨rfl, hs, fun i j => by simp, fun s h => by simp at h, List.Pairwise.nil⟩
  obtain ⟨q1, q2⟩ := orient_fold A ((A.toList.map List.length).sum + 1) (List.range A.size) (A, []) h0
    (by simp only [atot, ltot]; omega)
  have hempty : ∀ i j, ¬ AEdge ((List.range A.size).foldl (fun acc first =>
      Section.walksFrom ((A.toList.map List.length).sum + 1) acc.1 acc.2 first true) (A, [])).1 i j := by
    intro i j h
    have hi := aedge_lt _ i j h
    rw [q1.size] at hi
    have := q2 i (Or.inl (List.mem_range.mpr hi))
    simp [AEdge, this] at h
  have hcov : ∀ i j, AEdge A i j ↔ ((i, j) ∈ Section.orient A ∨ (j, i) ∈ Section.orient A) := by
    intro i j
    have := q1.cover i j
    simp only [hempty i j, false_or] at this
    exact this
  refine ⟨hcov, q1.nodup, ?_⟩
  intro s hs'
  have e1 : AEdge A s.1 s.2 := (hcov s.1 s.2).mpr (Or.inl hs')
  exact ⟨aedge_lt A _ _ e1, aedge_lt A _ _ (hs _ _ e1)⟩

end C17
