import ParryModel.C17.SectionLemmas
/-!
# C17 property theorems, part 9 (fu5): the orientation walk of `TriMesh::intersection_with_local_plane` (step 3)

`Model.Section.orient` (CutModel.lean) is the literal transliteration of the `for first in 0..index_adjacencies.len()` loop with its
`while let Some(start) = index_adjacencies[first].first()` / inner `loop` (walk, erase the traversed adjacency entries with
`retain`, push the segment, flip `forward` after every walk). Proved here, for every symmetric adjacency structure (which is what
the triangle loop builds: `add_segment_adjacencies_symmetric`):
the emitted segment list contains every adjacency edge — in one of its two directions — and nothing else, no edge twice (neither in
the same nor in the opposite direction), and the model's fuel (number of adjacency entries + 1) is never exhausted.
-/
namespace C17
open Model Model.Cut

set_option linter.unusedSectionVars false
set_option linter.unusedTactic false
set_option linter.unreachableTactic false
set_option linter.style.haveILetI false
set_option linter.unusedVariables false

/-- total number of adjacency entries -/
def ltot (L : List (List Nat)) : Nat := (L.map List.length).sum
def atot (adj : Array (List Nat)) : Nat := ltot adj.toList

/-- the two `retain` calls of one walk step -/
def eraseEdge (adj : Array (List Nat)) (p c : Nat) : Array (List Nat) :=
  (adj.setIfInBounds p ((adj.getD p []).filter (· != c))).setIfInBounds c
    (((adj.setIfInBounds p ((adj.getD p []).filter (· != c))).getD c []).filter (· != p))

private theorem size_erase (adj : Array (List Nat)) (p c : Nat) : (eraseEdge adj p c).size = adj.size := by
  simp [eraseEdge]

private theorem edge_erase (adj : Array (List Nat)) (p c i j : Nat) (hp : p < adj.size) (hc : c < adj.size) :
    AEdge (eraseEdge adj p c) i j ↔ AEdge adj i j ∧ ¬ (i = p ∧ j = c) ∧ ¬ (i = c ∧ j = p) := by
  simp only [AEdge, eraseEdge, getD_set, Array.size_setIfInBounds]
  by_cases h1 : i = c <;> by_cases h2 : i = p <;> by_cases h3 : c = p <;>
    simp_all [List.mem_filter] <;> tauto

private theorem ltot_set_le (L : List (List Nat)) : ∀ (i : Nat) (x : List Nat), x.length ≤ (L.getD i []).length →
    ltot (L.set i x) ≤ ltot L := by
  induction L with
  | nil => intro i x h; simp [ltot]
  | cons a rest ih =>
    intro i x h
    cases i with
    | zero => simp only [List.set_cons_zero, ltot, List.map_cons, List.sum_cons]; simp at h; omega
    | succ k =>
      have := ih k x (by simpa using h)
      simp only [List.set_cons_succ, ltot, List.map_cons, List.sum_cons] at this ⊢; omega

private theorem ltot_set_lt (L : List (List Nat)) : ∀ (i : Nat) (x : List Nat), i < L.length → x.length < (L.getD i []).length →
    ltot (L.set i x) < ltot L := by
  induction L with
  | nil => intro i x hi h; simp at hi
  | cons a rest ih =>
    intro i x hi h
    cases i with
    | zero => simp only [List.set_cons_zero, ltot, List.map_cons, List.sum_cons]; simp at h; omega
    | succ k =>
      have := ih k x (by simpa using hi) (by simpa using h)
      simp only [List.set_cons_succ, ltot, List.map_cons, List.sum_cons] at this ⊢; omega

private theorem getD_toList {α} (adj : Array α) (i : Nat) (d : α) : adj.toList.getD i d = adj.getD i d := by
  simp [Array.getD_eq_getD_getElem?, List.getD_eq_getElem?_getD]

private theorem atot_erase_lt (adj : Array (List Nat)) (p c : Nat) (h : AEdge adj p c) : atot (eraseEdge adj p c) < atot adj := by
  have hp := aedge_lt adj p c h
  have s1 : atot (adj.setIfInBounds p ((adj.getD p []).filter (· != c))) < atot adj := by
    simp only [atot, Array.toList_setIfInBounds]
    apply ltot_set_lt _ _ _ (by simpa using hp)
    rw [getD_toList]
    exact List.length_filter_lt_length_iff_exists.mpr ⟨c, h, by simp⟩
  have s2 : atot (eraseEdge adj p c) ≤ atot (adj.setIfInBounds p ((adj.getD p []).filter (· != c))) := by
    simp only [eraseEdge, atot]
    rw [Array.toList_setIfInBounds (xs := adj.setIfInBounds p _)]
    apply ltot_set_le
    rw [getD_toList]
    exact List.length_filter_le _ _
  omega

/-- two segments are different as *unordered* pairs -/
def SegNe (s t : Nat × Nat) : Prop := s ≠ t ∧ s ≠ (t.2, t.1)

/-- invariant of step 3 relative to the adjacency structure `A` built by step 2: what is left (`adj`) plus what was emitted
(`segs`, either direction) is exactly `A`; nothing emitted is left; nothing emitted twice -/
structure WInv (A adj : Array (List Nat)) (segs : List (Nat × Nat)) : Prop where
  size : adj.size = A.size
  sym : ASym adj
  cover : ∀ i j, AEdge A i j ↔ (AEdge adj i j ∨ (i, j) ∈ segs ∨ (j, i) ∈ segs)
  disj : ∀ s ∈ segs, ¬ AEdge adj s.1 s.2
  nodup : segs.Pairwise SegNe

private theorem winv_step (A adj : Array (List Nat)) (segs : List (Nat × Nat)) (p c : Nat) (fwd : Bool)
    (hI : WInv A adj segs) (he : AEdge adj p c) :
    WInv A (eraseEdge adj p c) (segs ++ [if fwd then (p, c) else (c, p)]) := by
  have hp := aedge_lt adj p c he
  have hc := aedge_lt adj c p (hI.sym p c he)
  have E := fun i j => edge_erase adj p c i j hp hc
  refine ⟨by rw [size_erase]; exact hI.size, ?_, ?_, ?_, ?_⟩
  · intro i j h
    rw [E] at h ⊢
    exact ⟨hI.sym i j h.1, fun x => h.2.2 ⟨x.2, x.1⟩, fun x => h.2.1 ⟨x.2, x.1⟩⟩
  · intro i j
    rw [hI.cover i j, E]
    simp only [List.mem_append, List.mem_singleton]
    by_cases h1 : i = p ∧ j = c
    · obtain ⟨rfl, rfl⟩ := h1
      cases fwd <;> simp [he]
    · by_cases h2 : i = c ∧ j = p
      · obtain ⟨rfl, rfl⟩ := h2
        cases fwd <;> simp [hI.sym _ _ he]
      · have n1 : ¬ ((i, j) = (p, c)) := fun e => h1 (by simpa using e)
        have n2 : ¬ ((i, j) = (c, p)) := fun e => h2 (by simpa using e)
        have n3 : ¬ ((j, i) = (p, c)) := fun e => h2 (by simp at e; exact ⟨e.2, e.1⟩)
        have n4 : ¬ ((j, i) = (c, p)) := fun e => h1 (by simp at e; exact ⟨e.2, e.1⟩)
        cases fwd <;> simp [h1, h2, n1, n2, n3, n4]
  · intro s hs
    simp only [List.mem_append, List.mem_singleton] at hs
    rw [E]
    rcases hs with hs | rfl
    · exact fun h => hI.disj s hs h.1
    · cases fwd <;> simp
  · rw [List.pairwise_append]
    refine ⟨hI.nodup, by simp, ?_⟩
    intro s hs t ht
    simp only [List.mem_singleton] at ht
    have hd := hI.disj s hs
    have he' := hI.sym _ _ he
    constructor
    · rintro rfl
      cases fwd <;> simp at ht <;> subst ht <;> simp_all
    · rintro rfl
      cases fwd <;> simp at ht <;> subst ht <;> simp_all

/-- the inner `loop`: invariant kept, at least one entry erased, edges are only erased; the fuel is sufficient -/
private theorem walk_spec (A : Array (List Nat)) : ∀ (fuel : Nat) (adj : Array (List Nat)) (segs : List (Nat × Nat)) (p c : Nat) (fwd : Bool),
    WInv A adj segs → AEdge adj p c → atot adj < fuel →
    WInv A (Section.walk fuel adj segs p c fwd).1 (Section.walk fuel adj segs p c fwd).2 ∧
    atot (Section.walk fuel adj segs p c fwd).1 < atot adj ∧
    ∀ i j, AEdge (Section.walk fuel adj segs p c fwd).1 i j → AEdge adj i j := by
  intro fuel
  induction fuel with
  | zero => intro adj segs p c fwd _ _ h; omega
  | succ f ih =>
    intro adj segs p c fwd hI he hf
    have hI1 := winv_step A adj segs p c fwd hI he
    have hlt := atot_erase_lt adj p c he
    have hp := aedge_lt adj p c he
    have hc := aedge_lt adj c p (hI.sym p c he)
    have hsub : ∀ i j, AEdge (eraseEdge adj p c) i j → AEdge adj i j := fun i j h => ((edge_erase adj p c i j hp hc).mp h).1
    have unfold : Section.walk (f + 1) adj segs p c fwd =
        match ((eraseEdge adj p c).getD c []).head? with
        | some next => Section.walk f (eraseEdge adj p c) (segs ++ [if fwd then (p, c) else (c, p)]) c next fwd
        | none => (eraseEdge adj p c, segs ++ [if fwd then (p, c) else (c, p)]) := by
      simp only [Section.walk, eraseEdge]
      rfl
    rw [unfold]
    cases hh : ((eraseEdge adj p c).getD c []).head? with
    | none => exact ⟨hI1, hlt, hsub⟩
    | some next =>
      dsimp only
      have hn : AEdge (eraseEdge adj p c) c next := List.mem_of_mem_head? (by rw [hh]; simp)
      obtain ⟨r1, r2, r3⟩ := ih (eraseEdge adj p c) _ c next fwd hI1 hn (by omega)
      exact ⟨r1, by omega, fun i j h => hsub i j (r3 i j h)⟩

/-- the `while let Some(start) = index_adjacencies[first].first()` loop: afterwards `first` has no adjacency left -/
private theorem walksFrom_spec (A : Array (List Nat)) : ∀ (fuel : Nat) (adj : Array (List Nat)) (segs : List (Nat × Nat)) (first : Nat) (fwd : Bool),
    WInv A adj segs → atot adj < fuel →
    WInv A (Section.walksFrom fuel adj segs first fwd).1 (Section.walksFrom fuel adj segs first fwd).2 ∧
    atot (Section.walksFrom fuel adj segs first fwd).1 ≤ atot adj ∧
    (∀ i j, AEdge (Section.walksFrom fuel adj segs first fwd).1 i j → AEdge adj i j) ∧
    (Section.walksFrom fuel adj segs first fwd).1.getD first [] = [] := by
  intro fuel
  induction fuel with
  | zero => intro adj segs first fwd _ h; omega
  | succ f ih =>
    intro adj segs first fwd hI hf
    simp only [Section.walksFrom]
    cases hh : (adj.getD first []).head? with
    | none => exact ⟨hI, le_refl _, fun _ _ h => h, List.head?_eq_none_iff.mp hh⟩
    | some start =>
      dsimp only
      have hs : AEdge adj first start := List.mem_of_mem_head? (by rw [hh]; simp)
      obtain ⟨w1, w2, w3⟩ := walk_spec A (f + 1) adj segs first start fwd hI hs hf
      obtain ⟨r1, r2, r3, r4⟩ := ih (Section.walk (f + 1) adj segs first start fwd).1 (Section.walk (f + 1) adj segs first start fwd).2
        first (!fwd) w1 (by omega)
      exact ⟨r1, by omega, fun i j h => w3 i j (r3 i j h), r4⟩

private theorem orient_fold (A : Array (List Nat)) (fuel : Nat) (l : List Nat) :
    ∀ (acc : Array (List Nat) × List (Nat × Nat)), WInv A acc.1 acc.2 → atot acc.1 < fuel →
    WInv A (l.foldl (fun acc first => Section.walksFrom fuel acc.1 acc.2 first true) acc).1
      (l.foldl (fun acc first => Section.walksFrom fuel acc.1 acc.2 first true) acc).2 ∧
    (∀ i, (i ∈ l ∨ acc.1.getD i [] = []) →
      (l.foldl (fun acc first => Section.walksFrom fuel acc.1 acc.2 first true) acc).1.getD i [] = []) := by
  induction l with
  | nil => intro acc hI hf; exact ⟨hI, fun i h => by simpa using h⟩
  | cons x rest ih =>
    intro acc hI hf
    obtain ⟨r1, r2, r3, r4⟩ := walksFrom_spec A fuel acc.1 acc.2 x true hI hf
    obtain ⟨q1, q2⟩ := ih (Section.walksFrom fuel acc.1 acc.2 x true) r1 (by omega)
    simp only [List.foldl_cons]
    refine ⟨q1, fun i h => q2 i ?_⟩
    rcases h with h | h
    · rcases List.mem_cons.mp h with rfl | h'
      · exact Or.inr r4
      · exact Or.inl h'
    · right
      by_contra hne
      obtain ⟨j, hj⟩ := List.exists_mem_of_ne_nil _ hne
      have := r3 i j hj
      simp [AEdge, h] at this

/-- **C17 (plane section, orientation pass)**: for a symmetric adjacency structure `A` (polyline vertex `i` lists `j` iff `j` lists
`i`; multiple entries and self-loops allowed) the segment list emitted by step 3 of `intersection_with_local_plane` satisfies:
(1) a pair `i, j` is adjacent in `A` iff `[i, j]` or `[j, i]` is an emitted segment — no section segment is lost by the walk and none
is invented; (2) no segment is emitted twice, neither in the same nor in the opposite direction; (3) every emitted index is a
valid polyline vertex index. In particular the walk terminates without exhausting the model's fuel. -/
theorem orient_spec (A : Array (List Nat)) (hs : ASym A) :
    (∀ i j, AEdge A i j ↔ ((i, j) ∈ Section.orient A ∨ (j, i) ∈ Section.orient A)) ∧
    (Section.orient A).Pairwise SegNe ∧
    (∀ s ∈ Section.orient A, s.1 < A.size ∧ s.2 < A.size) := by
  have h0 : WInv A A [] := ⟨rfl, hs, fun i j => by simp, fun s h => by simp at h, List.Pairwise.nil⟩
  obtain ⟨q1, q2⟩ := orient_fold A ((A.toList.map List.length).sum + 1) (List.range A.size) (A, []) h0
    (by simp only [atot, ltot]; omega)
  have hempty : ∀ i j, ¬ AEdge ((List.range A.size).foldl (fun acc first =>
      Section.walksFrom ((A.toList.map List.length).sum + 1) acc.1 acc.2 first true) (A, [])).1 i j := by
    intro i j h
    have hi := aedge_lt _ i j h
    rw [q1.size] at hi
    have := q2 i (Or.inl (List.mem_range.mpr hi))
    simp [AEdge, this] at h
  have hcov : ∀ i j, AEdge A i j ↔ ((i, j) ∈ Section.orient A ∨ (j, i) ∈ Section.orient A) := by
    intro i j
    have := q1.cover i j
    simp only [hempty i j, false_or] at this
    exact this
  refine ⟨hcov, q1.nodup, ?_⟩
  intro s hs'
  have e1 : AEdge A s.1 s.2 := (hcov s.1 s.2).mpr (Or.inl hs')
  exact ⟨aedge_lt A _ _ e1, aedge_lt A _ _ (hs _ _ e1)⟩

/-! ## the whole routine: which segments the polyline consists of -/

variable {K : Type} [Field K] [LinearOrder K] [IsStrictOrderedRing K] (sq : K → K)

/-- loop invariant of step 2 about the *content* of the adjacency structure after the triangles `done`: every adjacency edge joins
two plane points of one processed triangle; every crossed edge of every processed triangle has its crossing point as the first end of
an adjacency edge that joins two plane points of that triangle -/
def ChordInv {K : Type} [Num K] (n : V3 K) (bias eps : K) (V0 : Array (V3 K)) (st : Section.State K) (done : List Tri) : Prop :=
  (∀ i j, AEdge st.adj i j → ∃ t ∈ done, PlanePt n bias eps V0 t (st.verts.getD i V3.zero) ∧ PlanePt n bias eps V0 t (st.verts.getD j V3.zero)) ∧
  (∀ t ∈ done, ∀ k, k < 3 → CrossedEdge n bias eps V0 t k → ∃ i j, AEdge st.adj i j ∧
      st.verts.getD i V3.zero = xpt n bias V0 (t.get k) (t.get ((k + 1) % 3)) ∧
      PlanePt n bias eps V0 t (st.verts.getD i V3.zero) ∧ PlanePt n bias eps V0 t (st.verts.getD j V3.zero)) ∧
  (∀ t ∈ done, ∀ k, k < 3 → InPlaneEdge n bias eps V0 t k → ∃ i j, AEdge st.adj i j ∧
      st.verts.getD i V3.zero = V0.getD (t.get k) V3.zero ∧ st.verts.getD j V3.zero = V0.getD (t.get ((k + 1) % 3)) V3.zero)

private theorem chord_step {K : Type} [Num K] (n : V3 K) (bias eps : K) (V0 : Array (V3 K)) (s s' : Section.State K) (t : Tri)
    (done : List Tri) (hI : SInv n bias eps V0 s) (hI' : SInv n bias eps V0 s') (hQ : ChordInv n bias eps V0 s done)
    (hR : StepRel n bias eps V0 s s' t) : ChordInv n bias eps V0 s' (done ++ [t]) := by
  obtain ⟨kp, sz, mono, alt⟩ := hR
  have old : ∀ i j, AEdge s.adj i j → s'.verts.getD i V3.zero = s.verts.getD i V3.zero ∧ s'.verts.getD j V3.zero = s.verts.getD j V3.zero := by
    intro i j h
    have hi := aedge_lt _ i j h
    rw [hI.size] at hi
    exact ⟨kp i hi, kp j (hI.entries i j h)⟩
  rcases alt with ⟨hadj, hnc, hnp⟩ | ⟨o1, o2, E, p1, p2, hx, _, hPl⟩
  · refine ⟨?_, ?_, ?_⟩
    · intro i j h
      rw [hadj] at h
      obtain ⟨t0, ht0, a, b⟩ := hQ.1 i j h
      obtain ⟨e1, e2⟩ := old i j h
      exact ⟨t0, by simp [ht0], by rw [e1]; exact a, by rw [e2]; exact b⟩
    · intro t0 ht0 k hk hcr
      rcases List.mem_append.mp ht0 with h0 | h0
      · obtain ⟨i, j, e, x, a, b⟩ := hQ.2.1 t0 h0 k hk hcr
        obtain ⟨e1, e2⟩ := old i j e
        exact ⟨i, j, by rw [hadj]; exact e, by rw [e1]; exact x, by rw [e1]; exact a, by rw [e2]; exact b⟩
      · simp only [List.mem_singleton] at h0; subst h0
        exact absurd hcr (hnc k hk)
    · intro t0 ht0 k hk hp
      rcases List.mem_append.mp ht0 with h0 | h0
      · obtain ⟨i, j, e, a, b⟩ := hQ.2.2 t0 h0 k hk hp
        obtain ⟨e1, e2⟩ := old i j e
        exact ⟨i, j, by rw [hadj]; exact e, by rw [e1]; exact a, by rw [e2]; exact b⟩
      · simp only [List.mem_singleton] at h0; subst h0
        exact absurd hp (hnp k hk)
  · refine ⟨?_, ?_, ?_⟩
    · intro i j h
      rcases (E i j).mp h with h | ⟨rfl, rfl⟩ | ⟨rfl, rfl⟩
      · obtain ⟨t0, ht0, a, b⟩ := hQ.1 i j h
        obtain ⟨e1, e2⟩ := old i j h
        exact ⟨t0, by simp [ht0], by rw [e1]; exact a, by rw [e2]; exact b⟩
      · exact ⟨t, by simp, p1, p2⟩
      · exact ⟨t, by simp, p2, p1⟩
    · intro t0 ht0 k hk hcr
      rcases List.mem_append.mp ht0 with h0 | h0
      · obtain ⟨i, j, e, x, a, b⟩ := hQ.2.1 t0 h0 k hk hcr
        obtain ⟨e1, e2⟩ := old i j e
        exact ⟨i, j, (E i j).mpr (Or.inl e), by rw [e1]; exact x, by rw [e1]; exact a, by rw [e2]; exact b⟩
      · simp only [List.mem_singleton] at h0; subst h0
        rcases hx k hk hcr with h | h
        · exact ⟨o1, o2, (E _ _).mpr (Or.inr (Or.inl ⟨rfl, rfl⟩)), h, p1, p2⟩
        · exact ⟨o2, o1, (E _ _).mpr (Or.inr (Or.inr ⟨rfl, rfl⟩)), h, p2, p1⟩
    · intro t0 ht0 k hk hp
      rcases List.mem_append.mp ht0 with h0 | h0
      · obtain ⟨i, j, e, a, b⟩ := hQ.2.2 t0 h0 k hk hp
        obtain ⟨e1, e2⟩ := old i j e
        exact ⟨i, j, (E i j).mpr (Or.inl e), by rw [e1]; exact a, by rw [e2]; exact b⟩
      · simp only [List.mem_singleton] at h0; subst h0
        rcases hPl k hk hp with ⟨a, b⟩ | ⟨a, b⟩
        · exact ⟨o1, o2, (E _ _).mpr (Or.inr (Or.inl ⟨rfl, rfl⟩)), a, b⟩
        · exact ⟨o2, o1, (E _ _).mpr (Or.inr (Or.inr ⟨rfl, rfl⟩)), b, a⟩

/-- loop invariant of step 2 at the level of indices: a processed triangle with two different crossed edges has linked the polyline
vertices stored for the keys of these two edges -/
def KeyInv {K : Type} [Num K] (n : V3 K) (bias eps : K) (V0 : Array (V3 K)) (st : Section.State K) (done : List Tri) : Prop :=
  ∀ t ∈ done, ∀ k k', k < 3 → k' < 3 → k ≠ k' → CrossedEdge n bias eps V0 t k → CrossedEdge n bias eps V0 t k' →
    ∃ i j, st.found.lookup (edgeKey t k) = some i ∧ st.found.lookup (edgeKey t k') = some j ∧ AEdge st.adj i j

private theorem key_step {K : Type} [Num K] (n : V3 K) (bias eps : K) (V0 : Array (V3 K)) (s s' : Section.State K) (t : Tri)
    (done : List Tri) (hQ : KeyInv n bias eps V0 s done) (hR : StepRel n bias eps V0 s s' t) :
    KeyInv n bias eps V0 s' (done ++ [t]) := by
  obtain ⟨kp, sz, mono, alt⟩ := hR
  intro t0 ht0 k k' hk hk' hne hc hc'
  rcases List.mem_append.mp ht0 with h0 | h0
  · obtain ⟨i, j, l1, l2, e⟩ := hQ t0 h0 k k' hk hk' hne hc hc'
    refine ⟨i, j, mono _ _ l1, mono _ _ l2, ?_⟩
    rcases alt with ⟨hadj, _⟩ | ⟨o1, o2, E, _⟩
    · rw [hadj]; exact e
    · exact (E i j).mpr (Or.inl e)
  · simp only [List.mem_singleton] at h0; subst h0
    rcases alt with ⟨_, hnc, _⟩ | ⟨o1, o2, E, _, _, _, hL, _⟩
    · exact absurd hc (hnc k hk)
    · rcases hL k k' hk hk' hne hc hc' with ⟨l1, l2⟩ | ⟨l1, l2⟩
      · exact ⟨o1, o2, l1, l2, (E _ _).mpr (Or.inr (Or.inl ⟨rfl, rfl⟩))⟩
      · exact ⟨o2, o1, l1, l2, (E _ _).mpr (Or.inr (Or.inr ⟨rfl, rfl⟩))⟩

/-- **C17 (plane section, totality)**: on a mesh whose triangles index existing vertices (open, closed, non-manifold, degenerate
or repeated triangles) `intersection_with_local_plane` never reaches an `assert!` / `unreachable!()` / out-of-range access, for any
plane and any `eps ≥ 0`: every triangle classifies into a handled feature pair, and `add_segment_adjacencies` is always called with
`idx_a ≤ index_adjacencies.len()`. (Termination of the orientation walk: `orient_spec`, part 9.) -/
theorem section_never_panics (verts : List (V3 K)) (tris : List Tri) (n : V3 K) (bias eps : K) (he : 0 ≤ eps)
    (hv : validMesh verts.length tris = true) :
    letI := fieldNum K sq
    (Section.localSection verts tris n bias eps).isSome = true := by
  letI : Num K := fieldNum K sq
  obtain ⟨st, e, _⟩ := stepLoop_ok sq n bias eps he verts.toArray _ tris (colours_ok sq verts tris n bias eps hv)
    ⟨#[], [], [], #[]⟩ (fun _ _ => True) (sinv_init sq n bias eps _) trivial (fun _ _ _ _ _ _ _ _ => trivial)
  simp only [Section.localSection, hv, Bool.not_true, Bool.false_eq_true, if_false]
  cases meshVerdict verts n bias eps with
  | negative => rfl
  | positive => rfl
  | pair _ _ => simp only [e]; rfl

/-- **C17 (plane section, the polyline is exactly the union of the triangles' chords)**: when `intersection_with_local_plane`
returns `Intersect(polyline)` (vertices `vs`, segments `segs`), for every mesh with valid indices, every plane and `eps ≥ 0`:
(1) every segment index is a valid vertex index; (2) no segment occurs twice, neither in the same nor in the opposite direction;
(3) every segment joins two *plane points of one and the same triangle* of the mesh (`PlanePt`: a vertex of the triangle within `eps`
of the plane, or the exact crossing point of one of its edges whose end points are beyond `eps` on opposite sides) — the polyline lies
on the mesh, segment by segment, not only vertex by vertex; (4) conversely, for every triangle and every edge of it that the plane
crosses, the crossing point is an end point of a polyline segment lying in that triangle — no crossed triangle is skipped by the
triangle loop and no segment is lost (or duplicated) by the orientation walk; (5) every mesh edge lying in the plane (both end points
within `eps`, the opposite vertex of the triangle not) is a polyline segment. -/
theorem section_polyline_spec (verts : List (V3 K)) (tris : List Tri) (n : V3 K) (bias eps : K) (he : 0 ≤ eps)
    (vs : List (V3 K)) (segs : List (Nat × Nat))
    (h : letI := fieldNum K sq; Section.localSection verts tris n bias eps = some (.intersect vs segs)) :
    letI := fieldNum K sq
    (∀ s ∈ segs, s.1 < vs.length ∧ s.2 < vs.length) ∧ segs.Pairwise SegNe ∧
    (∀ s ∈ segs, ∃ t ∈ tris, PlanePt n bias eps verts.toArray t (vs.getD s.1 V3.zero) ∧
        PlanePt n bias eps verts.toArray t (vs.getD s.2 V3.zero)) ∧
    (∀ t ∈ tris, ∀ k, k < 3 → CrossedEdge n bias eps verts.toArray t k → ∃ s ∈ segs,
        PlanePt n bias eps verts.toArray t (vs.getD s.1 V3.zero) ∧ PlanePt n bias eps verts.toArray t (vs.getD s.2 V3.zero) ∧
        (vs.getD s.1 V3.zero = xpt n bias verts.toArray (t.get k) (t.get ((k + 1) % 3)) ∨
         vs.getD s.2 V3.zero = xpt n bias verts.toArray (t.get k) (t.get ((k + 1) % 3)))) ∧
    (∀ t ∈ tris, ∀ k, k < 3 → InPlaneEdge n bias eps verts.toArray t k → ∃ s ∈ segs,
        (vs.getD s.1 V3.zero = verts.toArray.getD (t.get k) V3.zero ∧ vs.getD s.2 V3.zero = verts.toArray.getD (t.get ((k + 1) % 3)) V3.zero) ∨
        (vs.getD s.2 V3.zero = verts.toArray.getD (t.get k) V3.zero ∧ vs.getD s.1 V3.zero = verts.toArray.getD (t.get ((k + 1) % 3)) V3.zero)) := by
  letI : Num K := fieldNum K sq
  simp only [Section.localSection] at h
  by_cases hv : validMesh verts.length tris = true
  · simp only [hv, Bool.not_true, Bool.false_eq_true, if_false] at h
    obtain ⟨st, e, hI, hQ⟩ := stepLoop_ok sq n bias eps he verts.toArray _ tris (colours_ok sq verts tris n bias eps hv)
      ⟨#[], [], [], #[]⟩ (ChordInv n bias eps verts.toArray) (sinv_init sq n bias eps _)
      ⟨fun i j h => by simp [AEdge] at h, fun t ht => by simp at ht, fun t ht => by simp at ht⟩
      (fun s s' t done a b c d => chord_step n bias eps verts.toArray s s' t done a b c d)
    cases hm : meshVerdict verts n bias eps with
    | negative => rw [hm] at h; simp at h
    | positive => rw [hm] at h; simp at h
    | pair _ _ =>
      rw [hm] at h
      simp only [e, Option.some.injEq, Section.Result.intersect.injEq] at h
      obtain ⟨rfl, rfl⟩ := h
      obtain ⟨cov, nd, rng⟩ := orient_spec st.adj hI.sym
      have gd : ∀ i, st.verts.toList.getD i V3.zero = st.verts.getD i V3.zero := fun i => getD_toList _ _ _
      refine ⟨?_, nd, ?_, ?_, ?_⟩
      · intro s hs
        have := rng s hs
        rw [hI.size] at this
        simpa using this
      · intro s hs
        obtain ⟨t, ht, a, b⟩ := hQ.1 s.1 s.2 ((cov s.1 s.2).mpr (Or.inl hs))
        exact ⟨t, ht, by rw [gd]; exact a, by rw [gd]; exact b⟩
      · intro t ht k hk hcr
        obtain ⟨i, j, e', x, a, b⟩ := hQ.2.1 t ht k hk hcr
        rcases (cov i j).mp e' with hs | hs
        · exact ⟨(i, j), hs, by rw [gd]; exact a, by rw [gd]; exact b, Or.inl (by rw [gd]; exact x)⟩
        · exact ⟨(j, i), hs, by rw [gd]; exact b, by rw [gd]; exact a, Or.inr (by rw [gd]; exact x)⟩
      · intro t ht k hk hp
        obtain ⟨i, j, e', a, b⟩ := hQ.2.2 t ht k hk hp
        rcases (cov i j).mp e' with hs | hs
        · exact ⟨(i, j), hs, Or.inl ⟨by rw [gd]; exact a, by rw [gd]; exact b⟩⟩
        · exact ⟨(j, i), hs, Or.inr ⟨by rw [gd]; exact a, by rw [gd]; exact b⟩⟩
  · simp [hv] at h

/-- **C17 (plane section, no dead end at an edge shared by two triangles — closedness)**: let the mesh edge `e` be crossed by the
plane and belong to two triangles `t1` (as its edge `k1`) and `t2` (as its edge `k2`), i.e. an *interior* edge, as every edge of a
closed mesh is. If each of the two triangles has a second crossed edge (`k1'`, `k2'`: automatic when none of their vertices is
within `eps` of the plane) and these second edges are different mesh edges (the triangles are not two copies of one another), then
the polyline vertex `i` of `e` — one vertex, shared through `intersections_found`, located at the crossing point of `e` — is an end
point of two *different* segments `i–j1`, `i–j2` of the polyline: the section does not stop at `e`. For a closed manifold mesh in
general position every polyline vertex is of this kind, so the polyline is a union of closed loops. -/
theorem section_no_dead_end (verts : List (V3 K)) (tris : List Tri) (n : V3 K) (bias eps : K) (he : 0 ≤ eps)
    (vs : List (V3 K)) (segs : List (Nat × Nat))
    (h : letI := fieldNum K sq; Section.localSection verts tris n bias eps = some (.intersect vs segs))
    (t1 t2 : Tri) (ht1 : t1 ∈ tris) (ht2 : t2 ∈ tris) (k1 k1' k2 k2' : Nat) (hk1 : k1 < 3) (hk1' : k1' < 3) (hk2 : k2 < 3) (hk2' : k2' < 3)
    (hne1 : k1 ≠ k1') (hne2 : k2 ≠ k2')
    (hc1 : letI := fieldNum K sq; CrossedEdge n bias eps verts.toArray t1 k1)
    (hc1' : letI := fieldNum K sq; CrossedEdge n bias eps verts.toArray t1 k1')
    (hc2 : letI := fieldNum K sq; CrossedEdge n bias eps verts.toArray t2 k2)
    (hc2' : letI := fieldNum K sq; CrossedEdge n bias eps verts.toArray t2 k2')
    (hshare : edgeKey t1 k1 = edgeKey t2 k2) (hdiff : edgeKey t1 k1' ≠ edgeKey t2 k2') :
    letI := fieldNum K sq
    ∃ i j1 j2, j1 ≠ j2 ∧ ((i, j1) ∈ segs ∨ (j1, i) ∈ segs) ∧ ((i, j2) ∈ segs ∨ (j2, i) ∈ segs) ∧
      vs.getD i V3.zero = xpt n bias verts.toArray (t1.get k1) (t1.get ((k1 + 1) % 3)) := by
  letI : Num K := fieldNum K sq
  simp only [Section.localSection] at h
  by_cases hv : validMesh verts.length tris = true
  · simp only [hv, Bool.not_true, Bool.false_eq_true, if_false] at h
    obtain ⟨st, e, hI, hQ⟩ := stepLoop_ok sq n bias eps he verts.toArray _ tris (colours_ok sq verts tris n bias eps hv)
      ⟨#[], [], [], #[]⟩ (KeyInv n bias eps verts.toArray) (sinv_init sq n bias eps _)
      (fun t ht => by simp at ht)
      (fun s s' t done _ _ c d => key_step n bias eps verts.toArray s s' t done c d)
    cases hm : meshVerdict verts n bias eps with
    | negative => rw [hm] at h; simp at h
    | positive => rw [hm] at h; simp at h
    | pair _ _ =>
      rw [hm] at h
      simp only [e, Option.some.injEq, Section.Result.intersect.injEq] at h
      obtain ⟨rfl, rfl⟩ := h
      obtain ⟨cov, _, _⟩ := orient_spec st.adj hI.sym
      obtain ⟨i, j1, l1, l1', e1⟩ := hQ t1 ht1 k1 k1' hk1 hk1' hne1 hc1 hc1'
      obtain ⟨i', j2, l2, l2', e2⟩ := hQ t2 ht2 k2 k2' hk2 hk2' hne2 hc2 hc2'
      have hi : i' = i := by rw [hshare, l2] at l1; exact Option.some.inj l1
      subst hi
      refine ⟨i', j1, j2, ?_, (cov _ _).mp e1, (cov _ _).mp e2, ?_⟩
      · intro hj; subst hj
        exact hdiff (hI.tables.2.2 _ _ _ l1' l2')
      · rw [getD_toList]
        exact tables_pos sq n bias eps he verts.toArray st _ _ _ hI.tables l1
  · simp [hv] at h

/-- **C17 (plane section, world-space and canonical-axis wrappers)**: `TriMesh::intersection_with_plane(position, axis, bias, eps)`
and `canonical_intersection_with_plane(i, bias, eps)` are the local routine on the transferred plane (`planeToLocal`, whose signed
distance at a local point equals the world plane's at the placed point: `plane_to_local_signed_distance`) resp. on `ith_axis(i)`; on a
mesh with valid indices they never panic, and their polylines satisfy `section_polyline_spec` for that plane. -/
theorem section_wrappers_spec (verts : List (V3 K)) (tris : List Tri) (pos : Iso3 K) (n : V3 K) (i : Fin 3) (bias eps : K)
    (he : 0 ≤ eps) (hv : validMesh verts.length tris = true) :
    letI := fieldNum K sq
    (Section.sectionPos verts tris pos n bias eps).isSome = true ∧ (Section.sectionCanonical verts tris i bias eps).isSome = true ∧
    (∀ vs segs, Section.sectionPos verts tris pos n bias eps = some (.intersect vs segs) →
      (∀ s ∈ segs, s.1 < vs.length ∧ s.2 < vs.length) ∧ segs.Pairwise SegNe ∧
      (∀ s ∈ segs, ∃ t ∈ tris, PlanePt (planeToLocal pos n bias).1 (planeToLocal pos n bias).2 eps verts.toArray t (vs.getD s.1 V3.zero) ∧
          PlanePt (planeToLocal pos n bias).1 (planeToLocal pos n bias).2 eps verts.toArray t (vs.getD s.2 V3.zero))) ∧
    (∀ vs segs, Section.sectionCanonical verts tris i bias eps = some (.intersect vs segs) →
      (∀ s ∈ segs, s.1 < vs.length ∧ s.2 < vs.length) ∧ segs.Pairwise SegNe ∧
      (∀ s ∈ segs, ∃ t ∈ tris, PlanePt (ithAxis i) bias eps verts.toArray t (vs.getD s.1 V3.zero) ∧
          PlanePt (ithAxis i) bias eps verts.toArray t (vs.getD s.2 V3.zero))) := by
  letI : Num K := fieldNum K sq
  refine ⟨section_never_panics sq verts tris _ _ eps he hv, section_never_panics sq verts tris _ _ eps he hv, ?_, ?_⟩
  · intro vs segs h
    obtain ⟨a, b, c, _⟩ := section_polyline_spec sq verts tris _ _ eps he vs segs h
    exact ⟨a, b, c⟩
  · intro vs segs h
    obtain ⟨a, b, c, _⟩ := section_polyline_spec sq verts tris _ _ eps he vs segs h
    exact ⟨a, b, c⟩

/-! non-vacuity: the tetrahedron `0, e₁, e₂, e₃` (valid indices, closed, outward faces). Cut by `z = 1/2` the section is the closed,
consistently oriented triangle `0→1→2→0` through the three crossing points; cut by the plane `x = y` (through the vertices `0` and
`e₃`, crossing the edge `e₁e₂`) it is again one closed loop: the in-plane mesh edge `0–e₃` is contributed by two triangles and
emitted once. -/
def sectionSummary {K : Type} : Option (Section.Result K) → List (V3 K) × List (Nat × Nat)
  | some (.intersect vs segs) => (vs, segs)
  | _ => ([], [])
example : validMesh 4 [(0, 2, 1), (0, 1, 3), (1, 2, 3), (2, 0, 3)] = true := by decide
example : (letI := fieldNum ℚ id
    let r := sectionSummary (Section.localSection [⟨0, 0, 0⟩, ⟨1, 0, 0⟩, ⟨0, 1, 0⟩, ⟨0, 0, 1⟩] [(0, 2, 1), (0, 1, 3), (1, 2, 3), (2, 0, 3)]
      (⟨0, 0, 1⟩ : V3 ℚ) (1 / 2) 0)
    (r.1.map fun p => [p.x, p.y, p.z], r.2)) = ([[1 / 2, 0, 1 / 2], [0, 0, 1 / 2], [0, 1 / 2, 1 / 2]], [(0, 1), (1, 2), (2, 0)]) := by
  decide +kernel
example : (letI := fieldNum ℚ id
    let r := sectionSummary (Section.localSection [⟨0, 0, 0⟩, ⟨1, 0, 0⟩, ⟨0, 1, 0⟩, ⟨0, 0, 1⟩] [(0, 2, 1), (0, 1, 3), (1, 2, 3), (2, 0, 3)]
      (⟨1, -1, 0⟩ : V3 ℚ) 0 0)
    (r.1.map fun p => [p.x, p.y, p.z], r.2)) = ([[1 / 2, 1 / 2, 0], [0, 0, 0], [0, 0, 1]], [(0, 1), (1, 2), (2, 0)]) := by
  decide +kernel
/-- a symmetric adjacency structure with a repeated entry (`0–1` listed twice): one segment per edge -/
example : Section.orient #[[1, 1, 2], [0, 0, 2], [0, 1]] = [(0, 1), (1, 2), (2, 0)] := by decide

/-- hypotheses of `section_no_dead_end` on the tetrahedron cut by `z = 1/2`: the edge `e₁e₃` is shared by the faces `(0,1,3)` (its
edge 1) and `(1,2,3)` (its edge 2); their second crossed edges `e₃0` and `e₂e₃` are different mesh edges -/
example : (letI := fieldNum ℚ id
    let V : Array (V3 ℚ) := #[⟨0, 0, 0⟩, ⟨1, 0, 0⟩, ⟨0, 1, 0⟩, ⟨0, 0, 1⟩]
    CrossedEdge (⟨0, 0, 1⟩ : V3 ℚ) (1 / 2) 0 V (0, 1, 3) 1 ∧ CrossedEdge (⟨0, 0, 1⟩ : V3 ℚ) (1 / 2) 0 V (0, 1, 3) 2 ∧
    CrossedEdge (⟨0, 0, 1⟩ : V3 ℚ) (1 / 2) 0 V (1, 2, 3) 2 ∧ CrossedEdge (⟨0, 0, 1⟩ : V3 ℚ) (1 / 2) 0 V (1, 2, 3) 1) ∧
    edgeKey (0, 1, 3) 1 = edgeKey (1, 2, 3) 2 ∧ edgeKey (0, 1, 3) 2 ≠ edgeKey (1, 2, 3) 1 := by
  refine ⟨?_, by decide, by decide⟩
  simp only [CrossedEdge, OppCol, vcol]
  decide +kernel

end C17
