import ParryModel.Field
import ParryModel.C17.Theorems3
open Model Model.Cut
namespace C17
variable {K : Type} [Field K] [LinearOrder K] [IsStrictOrderedRing K] (sq : K → K)

theorem getD_push_lt {α} (xs : Array α) (x d : α) (i : Nat) (h : i < xs.size) : (xs.push x).getD i d = xs.getD i d := by
  rw [Array.getD_eq_getD_getElem?, Array.getD_eq_getD_getElem?, Array.getElem?_push, if_neg (by omega)]
theorem getD_push_eq {α} (xs : Array α) (x d : α) : (xs.push x).getD xs.size d = x := by
  rw [Array.getD_eq_getD_getElem?, Array.getElem?_push, if_pos rfl]; rfl

def OppCol (ca cb : Nat) : Prop := (ca = 1 ∧ cb = 2) ∨ (ca = 2 ∧ cb = 1)

structure Inv {K : Type} [Num K] (n : V3 K) (bias eps : K) (V0 : Array (V3 K)) (st : State K) : Prop where
  size_eq : st.verts.size = st.colors.size
  size_le : V0.size ≤ st.verts.size
  orig_v : ∀ i, i < V0.size → st.verts.getD i V3.zero = V0.getD i V3.zero
  orig_c : ∀ i, i < V0.size → st.colors.getD i 0 = vertexColour n bias eps (V0.getD i V3.zero)
  new_c : ∀ k, V0.size ≤ k → k < st.verts.size → st.colors.getD k 0 = 0 ∧ sdist n bias (st.verts.getD k V3.zero) = 0
  found_ok : ∀ key k, st.found.lookup key = some k → V0.size ≤ k ∧ k < st.verts.size ∧
     ∃ a b, sortedPair a b = key ∧ a < V0.size ∧ b < V0.size ∧
       OppCol (vertexColour n bias eps (V0.getD a V3.zero)) (vertexColour n bias eps (V0.getD b V3.zero)) ∧
       st.verts.getD k V3.zero = crossing n bias (V0.getD a V3.zero) (V0.getD b V3.zero)

theorem oppcol_sdist (n : V3 K) (bias eps : K) (he : 0 ≤ eps) (a b : V3 K)
    (h : letI := fieldNum K sq; OppCol (vertexColour n bias eps a) (vertexColour n bias eps b)) :
    letI := fieldNum K sq
    (sdist n bias a < -eps ∧ eps < sdist n bias b) ∨ (eps < sdist n bias a ∧ sdist n bias b < -eps) := by
  letI : Num K := fieldNum K sq
  simp only [OppCol, vertexColour, sdist] at h ⊢
  split_ifs at h <;> simp_all

theorem sortedPair_eq (a b a' b' : Nat) (h : sortedPair a b = sortedPair a' b') : (a = a' ∧ b = b') ∨ (a = b' ∧ b = a') := by
  simp only [sortedPair] at h
  split_ifs at h <;> simp_all <;> omega

theorem intersectEdge_spec (n : V3 K) (bias eps : K) (he : 0 ≤ eps) (V0 : Array (V3 K)) (st : State K) (a b : Nat)
    (hI : letI := fieldNum K sq; Inv n bias eps V0 st) (ha : a < V0.size) (hb : b < V0.size)
    (hab : letI := fieldNum K sq; OppCol (vertexColour n bias eps (V0.getD a V3.zero)) (vertexColour n bias eps (V0.getD b V3.zero))) :
    letI := fieldNum K sq
    Inv n bias eps V0 (intersectEdge n bias st a b).1 ∧
    (intersectEdge n bias st a b).1.tris = st.tris ∧
    st.verts.size ≤ (intersectEdge n bias st a b).1.verts.size ∧
    (∀ j, j < st.verts.size → (intersectEdge n bias st a b).1.verts.getD j V3.zero = st.verts.getD j V3.zero ∧
        (intersectEdge n bias st a b).1.colors.getD j 0 = st.colors.getD j 0) ∧
    V0.size ≤ (intersectEdge n bias st a b).2 ∧ (intersectEdge n bias st a b).2 < (intersectEdge n bias st a b).1.verts.size ∧
    (intersectEdge n bias st a b).1.verts.getD (intersectEdge n bias st a b).2 V3.zero = crossing n bias (V0.getD a V3.zero) (V0.getD b V3.zero) := by
  letI : Num K := fieldNum K sq
  have hsd := oppcol_sdist sq n bias eps he _ _ hab
  cases hl : st.found.lookup (sortedPair a b) with
  | some k =>
    have e : intersectEdge n bias st a b = (st, k) := by simp only [intersectEdge, hl]
    rw [e]
    obtain ⟨h1, h2, a', b', hk, ha', hb', hc, hv⟩ := hI.found_ok _ _ hl
    refine ⟨hI, rfl, le_refl _, fun _ _ => ⟨rfl, rfl⟩, h1, h2, ?_⟩
    rcases sortedPair_eq _ _ _ _ hk with ⟨rfl, rfl⟩ | ⟨rfl, rfl⟩
    · exact hv
    · show st.verts.getD k V3.zero = _
      rw [hv]
      apply crossing_symm sq
      rcases hsd with ⟨h1, h2⟩ | ⟨h1, h2⟩
      · exact ne_of_gt (by linarith)
      · exact ne_of_lt (by linarith)
  | none =>
    have e : intersectEdge n bias st a b =
        ({ st with verts := st.verts.push (crossing n bias (st.verts.getD a V3.zero) (st.verts.getD b V3.zero)),
                   colors := st.colors.push 0, found := (sortedPair a b, st.verts.size) :: st.found }, st.verts.size) := by
      simp only [intersectEdge, hl]
    rw [e]
    obtain ⟨t, _, _, _, hpl⟩ := crossing_on_plane_and_edge sq n bias eps (V0.getD a V3.zero) (V0.getD b V3.zero) he hsd
    have hva := hI.orig_v a ha
    have hvb := hI.orig_v b hb
    have hsz := hI.size_le
    have hse := hI.size_eq
    rw [hva, hvb]
    refine ⟨⟨?_, ?_, ?_, ?_, ?_, ?_⟩, rfl, ?_, ?_, ?_, ?_, ?_⟩
    · simp [hse]
    · simp; omega
    · intro i hi
      show (st.verts.push _).getD i V3.zero = _
      rw [getD_push_lt _ _ _ _ (by omega)]; exact hI.orig_v i hi
    · intro i hi
      show (st.colors.push 0).getD i 0 = _
      rw [getD_push_lt _ _ _ _ (by omega)]; exact hI.orig_c i hi
    · intro k hk1 hk2
      show (st.colors.push 0).getD k 0 = 0 ∧ sdist n bias ((st.verts.push _).getD k V3.zero) = 0
      have hk2' : k < st.verts.size + 1 := by simpa using hk2
      by_cases hk : k = st.verts.size
      · subst hk
        refine ⟨?_, ?_⟩
        · rw [hse, getD_push_eq]
        · rw [getD_push_eq]; exact hpl
      · rw [getD_push_lt _ _ _ _ (by omega), getD_push_lt _ _ _ _ (by omega)]
        exact hI.new_c k hk1 (by omega)
    · intro key k hlk
      show V0.size ≤ k ∧ k < (st.verts.push _).size ∧ ∃ a' b', sortedPair a' b' = key ∧ a' < V0.size ∧ b' < V0.size ∧ _ ∧
        (st.verts.push _).getD k V3.zero = _
      change List.lookup key ((sortedPair a b, st.verts.size) :: st.found) = some k at hlk
      simp only [List.lookup_cons] at hlk
      split at hlk
      · rename_i heq
        simp only [Option.some.injEq] at hlk
        subst hlk
        refine ⟨hsz, by simp, a, b, ?_, ha, hb, hab, ?_⟩
        · simpa using (beq_iff_eq.mp heq).symm
        · rw [getD_push_eq]
      · obtain ⟨h1, h2, a', b', hk, ha', hb', hc, hv⟩ := hI.found_ok _ _ hlk
        refine ⟨h1, by simp; omega, a', b', hk, ha', hb', hc, ?_⟩
        rw [getD_push_lt _ _ _ _ h2]; exact hv
    · simp
    · intro j hj
      refine ⟨?_, ?_⟩
      · show (st.verts.push _).getD j V3.zero = _
        rw [getD_push_lt _ _ _ _ hj]
      · show (st.colors.push 0).getD j 0 = _
        rw [getD_push_lt _ _ _ _ (by omega)]
    · exact hsz
    · simp
    · show (st.verts.push _).getD st.verts.size V3.zero = _
      rw [getD_push_eq]

/-- what the feature pair says about the colours `c 0, c 1, c 2` of the triangle's vertices (by position) -/
def ClassifyOK (c : Nat → Nat) : Feat × Feat → Prop
  | (Feat.unknown, Feat.unknown) => ¬ ((c 0 = 1 ∨ c 1 = 1 ∨ c 2 = 1) ∧ (c 0 = 2 ∨ c 1 = 2 ∨ c 2 = 2))
  | (Feat.vertex _, Feat.unknown) => ¬ ((c 0 = 1 ∨ c 1 = 1 ∨ c 2 = 1) ∧ (c 0 = 2 ∨ c 1 = 2 ∨ c 2 = 2))
  | (Feat.vertex _, Feat.vertex _) => ¬ ((c 0 = 1 ∨ c 1 = 1 ∨ c 2 = 1) ∧ (c 0 = 2 ∨ c 1 = 2 ∨ c 2 = 2))
  | (Feat.vertex iv, Feat.edge ie) => iv = (ie + 2) % 3 ∧ ie < 3 ∧ c ((ie + 2) % 3) = 0 ∧ OppCol (c ie) (c ((ie + 1) % 3))
  | (Feat.edge ie, Feat.vertex iv) => iv = (ie + 2) % 3 ∧ ie < 3 ∧ c ((ie + 2) % 3) = 0 ∧ OppCol (c ie) (c ((ie + 1) % 3))
  | (Feat.edge e1, Feat.edge e2) =>
    let e := if e2 ≠ (e1 + 1) % 3 then e1 else e2
    e < 3 ∧ OppCol (c ((e + 2) % 3)) (c e) ∧ OppCol (c e) (c ((e + 1) % 3)) ∧ ¬ OppCol (c ((e + 1) % 3)) (c ((e + 2) % 3))
  | _ => False

instance (a b : Nat) : Decidable (OppCol a b) := by unfold OppCol; infer_instance
instance (c : Nat → Nat) (r : Feat × Feat) : Decidable (ClassifyOK c r) := by
  unfold ClassifyOK; split <;> infer_instance

theorem classify_table : ∀ c0 c1 c2 : Fin 3,
    ClassifyOK (Tri.get (c0.val, c1.val, c2.val)) (classify (Tri.get (c0.val, c1.val, c2.val)) (0, 1, 2)) := by
  decide

theorem classify_pos (col : Nat → Nat) (idx : Tri) :
    classify col idx = classify (Tri.get (col idx.1, col idx.2.1, col idx.2.2)) (0, 1, 2) := by
  simp [classify, featStep, Tri.get]

set_option linter.unusedVariables false
set_option linter.style.haveILetI false

def pos {K : Type} [Num K] (V : Array (V3 K)) (t : Tri) : V3 K × V3 K × V3 K :=
  (V.getD t.1 V3.zero, V.getD t.2.1 V3.zero, V.getD t.2.2 V3.zero)
def triNT {K : Type} [Num K] (p : V3 K × V3 K × V3 K) : V3 K := triN p.1 p.2.1 p.2.2

/-- the triangle does not have vertices strictly on both sides -/
def OneSided (colors : Array Nat) (t : Tri) : Prop :=
  ¬ ((colors.getD t.1 0 = 1 ∨ colors.getD t.2.1 0 = 1 ∨ colors.getD t.2.2 0 = 1) ∧
     (colors.getD t.1 0 = 2 ∨ colors.getD t.2.1 0 = 2 ∨ colors.getD t.2.2 0 = 2))

def InRange (sz : Nat) (t : Tri) : Prop := t.1 < sz ∧ t.2.1 < sz ∧ t.2.2 < sz

/-- positively homogeneous functionals of the vector area: the (doubled) area `|N|`, the components of `N`, … -/
def Homog {K : Type} [Num K] (g : V3 K → K) : Prop := ∀ (N : V3 K) (w : K), 0 ≤ w → g (N.smul w) = w * g N

theorem vertexColour_lt (n : V3 K) (bias eps : K) (p : V3 K) :
    letI := fieldNum K sq
    vertexColour n bias eps p < 3 := by
  simp only [vertexColour]; split_ifs <;> omega

theorem get_col (col : Nat → Nat) (idx : Tri) (k : Nat) :
    Tri.get (col idx.1, col idx.2.1, col idx.2.2) k = col (idx.get k) := by
  simp only [Tri.get]; split_ifs <;> rfl

theorem get_lt (idx : Tri) (sz k : Nat) (h : InRange sz idx) : idx.get k < sz := by
  obtain ⟨h1, h2, h3⟩ := h
  simp only [Tri.get]; split_ifs <;> assumption

theorem rot_triN (V : Array (V3 K)) (idx : Tri) (ie : Nat) (h : ie < 3) :
    letI := fieldNum K sq
    triN (V.getD (idx.get ie) V3.zero) (V.getD (idx.get ((ie + 1) % 3)) V3.zero) (V.getD (idx.get ((ie + 2) % 3)) V3.zero)
      = triNT (pos V idx) := by
  letI : Num K := fieldNum K sq
  have r := triN_rotate sq (V.getD idx.1 V3.zero) (V.getD idx.2.1 V3.zero) (V.getD idx.2.2 V3.zero)
  have h3 : ie = 0 ∨ ie = 1 ∨ ie = 2 := by omega
  rcases h3 with rfl | rfl | rfl
  · simp [Tri.get, pos, triNT]
  · simpa [Tri.get, pos, triNT] using r.1
  · simpa [Tri.get, pos, triNT] using r.2

theorem inv_tris (n : V3 K) (bias eps : K) (V0 : Array (V3 K)) (st : State K) (T : Array Tri)
    (h : letI := fieldNum K sq; Inv n bias eps V0 st) :
    letI := fieldNum K sq
    Inv n bias eps V0 { st with tris := T } := by
  letI : Num K := fieldNum K sq
  exact ⟨h.size_eq, h.size_le, h.orig_v, h.orig_c, h.new_c, h.found_ok⟩

/-- the 1+1 re-triangulation (vertex `C` on the plane, edge `A B` crossed) -/
theorem cut_ve_spec (n : V3 K) (bias eps : K) (he : 0 ≤ eps) (V0 : Array (V3 K)) (st : State K) (i : Nat) (A B C : Nat)
    (hI : letI := fieldNum K sq; Inv n bias eps V0 st) (hA : A < V0.size) (hB : B < V0.size) (hC : C < V0.size)
    (hcC : st.colors.getD C 0 = 0)
    (hAB : letI := fieldNum K sq; OppCol (vertexColour n bias eps (V0.getD A V3.zero)) (vertexColour n bias eps (V0.getD B V3.zero))) :
    letI := fieldNum K sq
    let r := intersectEdge n bias st A B
    let st' : State K := { r.1 with tris := (r.1.tris.setIfInBounds i (C, A, r.2)).push (B, C, r.2) }
    Inv n bias eps V0 st' ∧ st.verts.size ≤ st'.verts.size ∧
      (∀ j, j < st.verts.size → st'.verts.getD j V3.zero = st.verts.getD j V3.zero ∧ st'.colors.getD j 0 = st.colors.getD j 0) ∧
      st'.tris.toList = (st.tris.toList.set i (C, A, r.2)) ++ [(B, C, r.2)] ∧
      (∀ p ∈ [(C, A, r.2), (B, C, r.2)], InRange st'.verts.size p ∧ OneSided st'.colors p) ∧
      ∀ g : V3 K → K, Homog g →
        g (triNT (pos st'.verts (C, A, r.2))) + g (triNT (pos st'.verts (B, C, r.2))) =
          g (triN (V0.getD A V3.zero) (V0.getD B V3.zero) (V0.getD C V3.zero)) := by
  letI : Num K := fieldNum K sq
  obtain ⟨hI1, ht, hsz, hpres, hx0, hx1, hxv⟩ := intersectEdge_spec sq n bias eps he V0 st A B hI hA hB hAB
  generalize intersectEdge n bias st A B = r at *
  dsimp only
  have hs0 := hI.size_le
  have hs1 := hI1.size_le
  refine ⟨inv_tris sq n bias eps V0 _ _ hI1, hsz, ?_, ?_, ?_, ?_⟩
  · intro j hj; exact hpres j hj
  · show ((r.1.tris.setIfInBounds i _).push _).toList = _
    rw [ht]; simp
  · have hcC' : r.1.colors.getD C 0 = 0 := by rw [(hpres C (by omega)).2]; exact hcC
    have hcx : r.1.colors.getD r.2 0 = 0 := (hI1.new_c _ hx0 hx1).1
    intro p hp
    simp only [List.mem_cons, List.mem_nil_iff, or_false] at hp
    rcases hp with rfl | rfl
    · refine ⟨⟨by show C < r.1.verts.size; omega, by show A < r.1.verts.size; omega, hx1⟩, ?_⟩
      simp only [OneSided, hcC', hcx]; omega
    · refine ⟨⟨by show B < r.1.verts.size; omega, by show C < r.1.verts.size; omega, hx1⟩, ?_⟩
      simp only [OneSided, hcC', hcx]; omega
  · intro g hg
    obtain ⟨t, ht0, ht1, hcr, _⟩ := crossing_on_plane_and_edge sq n bias eps (V0.getD A V3.zero) (V0.getD B V3.zero) he
      (oppcol_sdist sq n bias eps he _ _ hAB)
    have e1 : pos r.1.verts (C, A, r.2) = (V0.getD C V3.zero, V0.getD A V3.zero,
        (V0.getD A V3.zero).add (((V0.getD B V3.zero).sub (V0.getD A V3.zero)).smul t)) := by
      show (r.1.verts.getD C V3.zero, r.1.verts.getD A V3.zero, r.1.verts.getD r.2 V3.zero) = _
      rw [hI1.orig_v C hC, hI1.orig_v A hA, hxv, hcr]
    have e2 : pos r.1.verts (B, C, r.2) = (V0.getD B V3.zero, V0.getD C V3.zero,
        (V0.getD A V3.zero).add (((V0.getD B V3.zero).sub (V0.getD A V3.zero)).smul t)) := by
      show (r.1.verts.getD B V3.zero, r.1.verts.getD C V3.zero, r.1.verts.getD r.2 V3.zero) = _
      rw [hI1.orig_v C hC, hI1.orig_v B hB, hxv, hcr]
    obtain ⟨a1, a2⟩ := cut_vertex_edge_area sq (V0.getD A V3.zero) (V0.getD B V3.zero) (V0.getD C V3.zero) t
    rw [e1, e2]
    simp only [triNT] at a1 a2 ⊢
    rw [a1, a2, hg _ _ (le_of_lt ht0), hg _ _ (by linarith)]
    ring

/-- the 1+2 re-triangulation (edges `C A` and `A B` crossed) -/
theorem cut_ee_spec (n : V3 K) (bias eps : K) (he : 0 ≤ eps) (V0 : Array (V3 K)) (st : State K) (i : Nat) (A B C : Nat)
    (hI : letI := fieldNum K sq; Inv n bias eps V0 st) (hA : A < V0.size) (hB : B < V0.size) (hC : C < V0.size)
    (hCA : letI := fieldNum K sq; OppCol (vertexColour n bias eps (V0.getD C V3.zero)) (vertexColour n bias eps (V0.getD A V3.zero)))
    (hAB : letI := fieldNum K sq; OppCol (vertexColour n bias eps (V0.getD A V3.zero)) (vertexColour n bias eps (V0.getD B V3.zero))) :
    letI := fieldNum K sq
    let r1 := intersectEdge n bias st C A
    let r2 := intersectEdge n bias r1.1 A B
    let st' : State K := { r2.1 with tris := ((r2.1.tris.setIfInBounds i (A, r2.2, r1.2)).push (r2.2, B, C)).push (r2.2, C, r1.2) }
    Inv n bias eps V0 st' ∧ st.verts.size ≤ st'.verts.size ∧
      (∀ j, j < st.verts.size → st'.verts.getD j V3.zero = st.verts.getD j V3.zero ∧ st'.colors.getD j 0 = st.colors.getD j 0) ∧
      st'.tris.toList = (st.tris.toList.set i (A, r2.2, r1.2)) ++ [(r2.2, B, C), (r2.2, C, r1.2)] ∧
      (∀ p ∈ [(A, r2.2, r1.2), (r2.2, B, C), (r2.2, C, r1.2)], InRange st'.verts.size p ∧ OneSided st'.colors p) ∧
      ∀ g : V3 K → K, Homog g →
        g (triNT (pos st'.verts (A, r2.2, r1.2))) + (g (triNT (pos st'.verts (r2.2, B, C))) + g (triNT (pos st'.verts (r2.2, C, r1.2)))) =
          g (triN (V0.getD A V3.zero) (V0.getD B V3.zero) (V0.getD C V3.zero)) := by
  letI : Num K := fieldNum K sq
  dsimp only
  obtain ⟨hI1, ht1, hsz1, hpres1, hx10, hx11, hxv1⟩ := intersectEdge_spec sq n bias eps he V0 st C A hI hC hA hCA
  generalize intersectEdge n bias st C A = r1 at *
  obtain ⟨hI2, ht2, hsz2, hpres2, hx20, hx21, hxv2⟩ := intersectEdge_spec sq n bias eps he V0 r1.1 A B hI1 hA hB hAB
  generalize intersectEdge n bias r1.1 A B = r2 at *
  have hs0 := hI.size_le
  have hs1 := hI1.size_le
  have hs2 := hI2.size_le
  have hx1v : r2.1.verts.getD r1.2 V3.zero = crossing n bias (V0.getD C V3.zero) (V0.getD A V3.zero) := by
    rw [(hpres2 _ hx11).1]; exact hxv1
  have hcx1 : r2.1.colors.getD r1.2 0 = 0 := by rw [(hpres2 _ hx11).2]; exact (hI1.new_c _ hx10 hx11).1
  have hcx2 : r2.1.colors.getD r2.2 0 = 0 := (hI2.new_c _ hx20 hx21).1
  refine ⟨inv_tris sq n bias eps V0 _ _ hI2, by omega, ?_, ?_, ?_, ?_⟩
  · intro j hj
    obtain ⟨p1, p2⟩ := hpres1 j hj
    obtain ⟨q1, q2⟩ := hpres2 j (by omega)
    exact ⟨q1.trans p1, q2.trans p2⟩
  · show (((r2.1.tris.setIfInBounds i _).push _).push _).toList = _
    rw [ht2, ht1]; simp
  · have cA := hI2.orig_c A hA
    have cB := hI2.orig_c B hB
    have cC := hI2.orig_c C hC
    intro p hp
    simp only [List.mem_cons, List.mem_nil_iff, or_false] at hp
    rcases hp with rfl | rfl | rfl
    · refine ⟨⟨by show A < r2.1.verts.size; omega, hx21, by show r1.2 < r2.1.verts.size; omega⟩, ?_⟩
      simp only [OneSided, hcx1, hcx2]; omega
    · refine ⟨⟨hx21, by show B < r2.1.verts.size; omega, by show C < r2.1.verts.size; omega⟩, ?_⟩
      simp only [OneSided, hcx2, cB, cC]
      simp only [OppCol] at hCA hAB
      omega
    · refine ⟨⟨hx21, by show C < r2.1.verts.size; omega, by show r1.2 < r2.1.verts.size; omega⟩, ?_⟩
      simp only [OneSided, hcx1, hcx2]; omega
  · intro g hg
    obtain ⟨s, hs0', hs1', hcr1, _⟩ := crossing_on_plane_and_edge sq n bias eps (V0.getD C V3.zero) (V0.getD A V3.zero) he
      (oppcol_sdist sq n bias eps he _ _ hCA)
    obtain ⟨t, ht0, ht1', hcr2, _⟩ := crossing_on_plane_and_edge sq n bias eps (V0.getD A V3.zero) (V0.getD B V3.zero) he
      (oppcol_sdist sq n bias eps he _ _ hAB)
    obtain ⟨a1, a2, a3⟩ := cut_edge_edge_area sq (V0.getD A V3.zero) (V0.getD B V3.zero) (V0.getD C V3.zero) s t
    simp only [pos, triNT]
    rw [hI2.orig_v A hA, hI2.orig_v B hB, hI2.orig_v C hC, hxv2, hx1v, hcr1, hcr2]
    rw [a1, a2, a3, hg _ _ (mul_nonneg (le_of_lt ht0) (by linarith)), hg _ _ (by linarith),
      hg _ _ (mul_nonneg (le_of_lt ht0) (le_of_lt hs0'))]
    ring

theorem cutTri_spec (n : V3 K) (bias eps : K) (he : 0 ≤ eps) (V0 : Array (V3 K)) (st : State K) (i : Nat) (idx : Tri)
    (hI : letI := fieldNum K sq; Inv n bias eps V0 st) (hidx : InRange V0.size idx) :
    letI := fieldNum K sq
    ∃ st', cutTri n bias st i idx = some st' ∧ Inv n bias eps V0 st' ∧ st.verts.size ≤ st'.verts.size ∧
      (∀ j, j < st.verts.size → st'.verts.getD j V3.zero = st.verts.getD j V3.zero ∧ st'.colors.getD j 0 = st.colors.getD j 0) ∧
      ((st'.tris = st.tris ∧ OneSided st.colors idx) ∨
       (∃ p0 ps, st'.tris.toList = (st.tris.toList.set i p0) ++ ps ∧
          (∀ p ∈ p0 :: ps, InRange st'.verts.size p ∧ OneSided st'.colors p) ∧
          ∀ g : V3 K → K, Homog g →
            ((p0 :: ps).map fun p => g (triNT (pos st'.verts p))).sum = g (triNT (pos V0 idx)))) := by
  letI : Num K := fieldNum K sq
  have hc : ∀ k, st.colors.getD (idx.get k) 0 = vertexColour n bias eps (V0.getD (idx.get k) V3.zero) :=
    fun k => hI.orig_c _ (get_lt idx _ k hidx)
  have hlt : ∀ k, st.colors.getD (idx.get k) 0 < 3 := fun k => by rw [hc]; exact vertexColour_lt sq _ _ _ _
  have h0 : st.colors.getD idx.1 0 < 3 := by simpa [Tri.get] using hlt 0
  have h1 : st.colors.getD idx.2.1 0 < 3 := by simpa [Tri.get] using hlt 1
  have h2 : st.colors.getD idx.2.2 0 < 3 := by simpa [Tri.get] using hlt 2
  have hcl := classify_pos (fun i => st.colors.getD i 0) idx
  have hOK := classify_table ⟨_, h0⟩ ⟨_, h1⟩ ⟨_, h2⟩
  simp only at hOK hcl
  rw [← hcl] at hOK
  have hget := get_col (fun i => st.colors.getD i 0) idx
  generalize Tri.get (st.colors.getD idx.1 0, st.colors.getD idx.2.1 0, st.colors.getD idx.2.2 0) = c at hOK hget
  simp only [cutTri]
  generalize classify (fun i => st.colors.getD i 0) idx = r at hOK ⊢
  rcases r with ⟨f0, f1⟩
  have hsides : ¬ ((c 0 = 1 ∨ c 1 = 1 ∨ c 2 = 1) ∧ (c 0 = 2 ∨ c 1 = 2 ∨ c 2 = 2)) → OneSided st.colors idx := by
    intro h
    have e0 := hget 0; have e1 := hget 1; have e2 := hget 2
    simp only [Tri.get] at e0 e1 e2
    simp only [OneSided]
    simpa [e0, e1, e2] using h
  have nocut : ¬ ((c 0 = 1 ∨ c 1 = 1 ∨ c 2 = 1) ∧ (c 0 = 2 ∨ c 1 = 2 ∨ c 2 = 2)) →
      ∃ st', some st = some st' ∧ Inv n bias eps V0 st' ∧ st.verts.size ≤ st'.verts.size ∧
      (∀ j, j < st.verts.size → st'.verts.getD j V3.zero = st.verts.getD j V3.zero ∧ st'.colors.getD j 0 = st.colors.getD j 0) ∧
      ((st'.tris = st.tris ∧ OneSided st.colors idx) ∨
       (∃ p0 ps, st'.tris.toList = (st.tris.toList.set i p0) ++ ps ∧
          (∀ p ∈ p0 :: ps, InRange st'.verts.size p ∧ OneSided st'.colors p) ∧
          ∀ g : V3 K → K, Homog g →
            ((p0 :: ps).map fun p => g (triNT (pos st'.verts p))).sum = g (triNT (pos V0 idx)))) :=
    fun h => ⟨st, rfl, hI, le_refl _, fun _ _ => ⟨rfl, rfl⟩, Or.inl ⟨rfl, hsides h⟩⟩
  cases f0 <;> cases f1 <;> simp only [ClassifyOK] at hOK
  · exact nocut hOK
  · exact nocut hOK
  · exact nocut hOK
  · rename_i iv ie
    obtain ⟨hiv, hie, hcz, hopp⟩ := hOK
    subst hiv
    have hv := cut_ve_spec sq n bias eps he V0 st i (idx.get ie) (idx.get ((ie + 1) % 3)) (idx.get ((ie + 2) % 3)) hI
      (get_lt _ _ _ hidx) (get_lt _ _ _ hidx) (get_lt _ _ _ hidx) (by rw [← hget]; exact hcz)
      (by rw [← hc, ← hc, ← hget, ← hget]; exact hopp)
    dsimp only at hv
    obtain ⟨i1, i2, i3, i4, i5, i6⟩ := hv
    refine ⟨_, ?_, i1, i2, i3, Or.inr ⟨_, _, i4, i5, ?_⟩⟩
    · simp
    · intro g hg
      simp only [List.map_cons, List.sum_cons, List.map_nil, List.sum_nil, add_zero]
      rw [i6 g hg, rot_triN sq V0 idx ie hie]
  · rename_i ie iv
    obtain ⟨hiv, hie, hcz, hopp⟩ := hOK
    subst hiv
    have hv := cut_ve_spec sq n bias eps he V0 st i (idx.get ie) (idx.get ((ie + 1) % 3)) (idx.get ((ie + 2) % 3)) hI
      (get_lt _ _ _ hidx) (get_lt _ _ _ hidx) (get_lt _ _ _ hidx) (by rw [← hget]; exact hcz)
      (by rw [← hc, ← hc, ← hget, ← hget]; exact hopp)
    dsimp only at hv
    obtain ⟨i1, i2, i3, i4, i5, i6⟩ := hv
    refine ⟨_, ?_, i1, i2, i3, Or.inr ⟨_, _, i4, i5, ?_⟩⟩
    · simp
    · intro g hg
      simp only [List.map_cons, List.sum_cons, List.map_nil, List.sum_nil, add_zero]
      rw [i6 g hg, rot_triN sq V0 idx ie hie]
  · rename_i e1 e2
    dsimp only
    generalize (if e2 ≠ (e1 + 1) % 3 then e1 else e2) = e at hOK ⊢
    obtain ⟨hie, hca, hab, _⟩ := hOK
    have hv := cut_ee_spec sq n bias eps he V0 st i (idx.get e) (idx.get ((e + 1) % 3)) (idx.get ((e + 2) % 3)) hI
      (get_lt _ _ _ hidx) (get_lt _ _ _ hidx) (get_lt _ _ _ hidx)
      (by rw [← hc, ← hc, ← hget, ← hget]; exact hca) (by rw [← hc, ← hc, ← hget, ← hget]; exact hab)
    dsimp only at hv
    obtain ⟨i1, i2, i3, i4, i5, i6⟩ := hv
    refine ⟨_, ?_, i1, i2, i3, Or.inr ⟨_, _, i4, i5, ?_⟩⟩
    · simp
    · intro g hg
      simp only [List.map_cons, List.sum_cons, List.map_nil, List.sum_nil, add_zero]
      rw [i6 g hg, rot_triN sq V0 idx e hie]

theorem set_at_length {α} (D : List α) (t p : α) (R : List α) : (D ++ t :: R).set D.length p = D ++ p :: R := by
  induction D with
  | nil => rfl
  | cons d D ih => simp [ih]

theorem pos_pres {K : Type} [Num K] (V V' : Array (V3 K)) (sz : Nat) (x : Tri) (hx : InRange sz x)
    (h : ∀ j, j < sz → V'.getD j V3.zero = V.getD j V3.zero) : pos V' x = pos V x := by
  obtain ⟨h1, h2, h3⟩ := hx
  simp only [pos, h _ h1, h _ h2, h _ h3]

theorem onesided_pres (C C' : Array Nat) (sz : Nat) (x : Tri) (hx : InRange sz x)
    (h : ∀ j, j < sz → C'.getD j 0 = C.getD j 0) (ho : OneSided C x) : OneSided C' x := by
  obtain ⟨h1, h2, h3⟩ := hx
  simp only [OneSided, h _ h1, h _ h2, h _ h3] at ho ⊢
  exact ho

theorem inrange_mono (a b : Nat) (x : Tri) (h : InRange a x) (hab : a ≤ b) : InRange b x :=
  ⟨by have := h.1; omega, by have := h.2.1; omega, by have := h.2.2; omega⟩

theorem cutLoop_spec (n : V3 K) (bias eps : K) (he : 0 ≤ eps) (V0 : Array (V3 K)) (rest : List Tri) :
    letI := fieldNum K sq
    ∀ (st : State K) (i : Nat) (D P : List Tri), Inv n bias eps V0 st → st.tris.toList = D ++ rest ++ P → D.length = i →
      (∀ t ∈ rest, InRange V0.size t) → (∀ t ∈ D ++ P, InRange st.verts.size t ∧ OneSided st.colors t) →
      ∃ st', cutLoop n bias st i rest = some st' ∧ Inv n bias eps V0 st' ∧
        (∀ t ∈ st'.tris.toList, InRange st'.verts.size t ∧ OneSided st'.colors t) ∧
        ∀ g : V3 K → K, Homog g →
          (st'.tris.toList.map fun t => g (triNT (pos st'.verts t))).sum =
            ((D ++ P).map fun t => g (triNT (pos st.verts t))).sum + (rest.map fun t => g (triNT (pos V0 t))).sum := by
  letI : Num K := fieldNum K sq
  induction rest with
  | nil =>
    intro st i D P hI htr hD hr hDP
    refine ⟨st, rfl, hI, ?_, ?_⟩
    · intro t ht; rw [htr] at ht; exact hDP t (by simpa using ht)
    · intro g hg; rw [htr]; simp
  | cons t rest ih =>
    intro st i D P hI htr hD hr hDP
    have htr0 : InRange V0.size t := hr t (by simp)
    obtain ⟨st1, hcut, hI1, hsz, hpres, hcase⟩ := cutTri_spec sq n bias eps he V0 st i t hI htr0
    have hposDP : ∀ x ∈ D ++ P, pos st1.verts x = pos st.verts x ∧ InRange st1.verts.size x ∧ OneSided st1.colors x := by
      intro x hx
      obtain ⟨h1, h2⟩ := hDP x hx
      exact ⟨pos_pres _ _ _ x h1 (fun j hj => (hpres j hj).1), inrange_mono _ _ x h1 hsz,
        onesided_pres _ _ _ x h1 (fun j hj => (hpres j hj).2) h2⟩
    have hsumDP : ∀ g : V3 K → K, ((D ++ P).map fun t => g (triNT (pos st1.verts t))).sum =
        ((D ++ P).map fun t => g (triNT (pos st.verts t))).sum := by
      intro g
      congr 1
      apply List.map_congr_left
      intro x hx; rw [(hposDP x hx).1]
    simp only [cutLoop, hcut]
    rcases hcase with ⟨htris, hone⟩ | ⟨p0, ps, htris, hps, hsum⟩
    · -- the triangle is kept
      have ht1 : InRange st1.verts.size t := inrange_mono _ _ t htr0 hI1.size_le
      have hpt : pos st1.verts t = pos V0 t := pos_pres _ _ _ t htr0 (fun j hj => hI1.orig_v j hj)
      obtain ⟨st', h1, h2, h3, h4⟩ := ih st1 (i + 1) (D ++ [t]) P hI1 (by rw [htris, htr]; simp) (by simp [hD])
        (fun x hx => hr x (by simp [hx]))
        (by
          intro x hx
          have : x ∈ D ++ P ∨ x = t := by
            simp only [List.mem_append, List.mem_singleton] at hx ⊢; tauto
          rcases this with hx | rfl
          · exact (hposDP x hx).2
          · exact ⟨ht1, onesided_pres _ _ _ x (inrange_mono _ _ x htr0 hI.size_le) (fun j hj => (hpres j hj).2) hone⟩)
      refine ⟨st', h1, h2, h3, ?_⟩
      intro g hg
      rw [h4 g hg]
      have := hsumDP g
      simp only [List.map_append, List.sum_append, List.map_cons, List.sum_cons, List.map_nil, List.sum_nil] at this ⊢
      rw [hpt]; linarith
    · -- the triangle is cut
      obtain ⟨st', h1, h2, h3, h4⟩ := ih st1 (i + 1) (D ++ [p0]) (P ++ ps) hI1
        (by rw [htris, htr, ← hD]; simp [set_at_length])
        (by simp [hD]) (fun x hx => hr x (by simp [hx]))
        (by
          intro x hx
          have : x ∈ D ++ P ∨ x ∈ p0 :: ps := by
            simp only [List.mem_append, List.mem_singleton, List.mem_cons] at hx ⊢; tauto
          rcases this with hx | hx
          · exact (hposDP x hx).2
          · exact hps x hx)
      refine ⟨st', h1, h2, h3, ?_⟩
      intro g hg
      rw [h4 g hg]
      have := hsumDP g
      have h5 := hsum g hg
      simp only [List.map_append, List.sum_append, List.map_cons, List.sum_cons, List.map_nil, List.sum_nil] at this h5 ⊢
      linarith

/-- invariant of the vertex partition loop after the vertices `L` (with their colours) have been visited -/
structure RInv {K : Type} [Num K] (h : Halves K) (L : List (V3 K × Nat)) : Prop where
  size : h.remap.size = L.length
  left : ∀ k p c, L[k]? = some (p, c) → c ≠ 2 →
    (h.remap.getD k (0, 0)).1 < h.vl.size ∧ h.vl.getD (h.remap.getD k (0, 0)).1 V3.zero = p
  right : ∀ k p c, L[k]? = some (p, c) → c ≠ 1 →
    (h.remap.getD k (0, 0)).2 < h.vr.size ∧ h.vr.getD (h.remap.getD k (0, 0)).2 V3.zero = p
  memL : ∀ q ∈ h.vl.toList, ∃ c, (q, c) ∈ L ∧ c ≠ 2
  memR : ∀ q ∈ h.vr.toList, ∃ c, (q, c) ∈ L ∧ c ≠ 1

theorem remapStep_spec {K : Type} [Num K] (h : Halves K) (L : List (V3 K × Nat)) (p : V3 K) (c : Nat) (hc : c < 3)
    (hI : RInv h L) : ∃ h', remapStep h p c = some h' ∧ RInv h' (L ++ [(p, c)]) := by
  have hs := hI.size
  have key : ∀ (h' : Halves K), h'.remap.size = L.length + 1 →
      (∀ k, k < L.length → h'.remap.getD k (0, 0) = h.remap.getD k (0, 0)) →
      (∀ j, j < h.vl.size → h'.vl.getD j V3.zero = h.vl.getD j V3.zero) → h.vl.size ≤ h'.vl.size →
      (∀ j, j < h.vr.size → h'.vr.getD j V3.zero = h.vr.getD j V3.zero) → h.vr.size ≤ h'.vr.size →
      (c ≠ 2 → (h'.remap.getD L.length (0, 0)).1 < h'.vl.size ∧ h'.vl.getD (h'.remap.getD L.length (0, 0)).1 V3.zero = p) →
      (c ≠ 1 → (h'.remap.getD L.length (0, 0)).2 < h'.vr.size ∧ h'.vr.getD (h'.remap.getD L.length (0, 0)).2 V3.zero = p) →
      (∀ q ∈ h'.vl.toList, q ∈ h.vl.toList ∨ (q = p ∧ c ≠ 2)) → (∀ q ∈ h'.vr.toList, q ∈ h.vr.toList ∨ (q = p ∧ c ≠ 1)) →
      RInv h' (L ++ [(p, c)]) := by
    intro h' a1 a2 a3 a4 a5 a6 a7 a8 a9 a10
    refine ⟨by simp [a1], ?_, ?_, ?_, ?_⟩
    · intro k p' c' hk hc'
      by_cases hkl : k < L.length
      · rw [List.getElem?_append_left hkl] at hk
        obtain ⟨b1, b2⟩ := hI.left k p' c' hk hc'
        rw [a2 k hkl]; exact ⟨by omega, by rw [a3 _ b1]; exact b2⟩
      · have hk' : k = L.length := by
          have := (List.getElem?_eq_some_iff.mp hk).1; simp at this; omega
        subst hk'
        simp at hk
        obtain ⟨rfl, rfl⟩ := hk
        exact a7 hc'
    · intro k p' c' hk hc'
      by_cases hkl : k < L.length
      · rw [List.getElem?_append_left hkl] at hk
        obtain ⟨b1, b2⟩ := hI.right k p' c' hk hc'
        rw [a2 k hkl]; exact ⟨by omega, by rw [a5 _ b1]; exact b2⟩
      · have hk' : k = L.length := by
          have := (List.getElem?_eq_some_iff.mp hk).1; simp at this; omega
        subst hk'
        simp at hk
        obtain ⟨rfl, rfl⟩ := hk
        exact a8 hc'
    · intro q hq
      rcases a9 q hq with hq | ⟨rfl, hc'⟩
      · obtain ⟨c', b1, b2⟩ := hI.memL q hq; exact ⟨c', by simp [b1], b2⟩
      · exact ⟨c, by simp, hc'⟩
    · intro q hq
      rcases a10 q hq with hq | ⟨rfl, hc'⟩
      · obtain ⟨c', b1, b2⟩ := hI.memR q hq; exact ⟨c', by simp [b1], b2⟩
      · exact ⟨c, by simp, hc'⟩
  have hc3 : c = 0 ∨ c = 1 ∨ c = 2 := by omega
  rcases hc3 with rfl | rfl | rfl
  · refine ⟨⟨h.vl.push p, h.vr.push p, h.remap.push (h.vl.size, h.vr.size)⟩, by simp [remapStep], key _ (by simp [hs]) ?_ ?_ (by simp) ?_ (by simp) ?_ ?_ ?_ ?_⟩
    · intro k hk; exact getD_push_lt _ _ _ _ (by omega)
    · intro j hj; exact getD_push_lt _ _ _ _ hj
    · intro j hj; exact getD_push_lt _ _ _ _ hj
    · intro _; rw [← hs, getD_push_eq]; exact ⟨by simp, getD_push_eq _ _ _⟩
    · intro _; rw [← hs, getD_push_eq]; exact ⟨by simp, getD_push_eq _ _ _⟩
    · intro q hq; simp at hq; rcases hq with hq | rfl <;> simp [*]
    · intro q hq; simp at hq; rcases hq with hq | rfl <;> simp [*]
  · refine ⟨⟨h.vl.push p, h.vr, h.remap.push (h.vl.size, u32Max)⟩, by simp [remapStep], key _ (by simp [hs]) ?_ ?_ (by simp) ?_ (by simp) ?_ ?_ ?_ ?_⟩
    · intro k hk; exact getD_push_lt _ _ _ _ (by omega)
    · intro j hj; exact getD_push_lt _ _ _ _ hj
    · intro j hj; rfl
    · intro _; rw [← hs, getD_push_eq]; exact ⟨by simp, getD_push_eq _ _ _⟩
    · intro h; exact absurd rfl h
    · intro q hq; simp at hq; rcases hq with hq | rfl <;> simp [*]
    · intro q hq; exact Or.inl hq
  · refine ⟨⟨h.vl, h.vr.push p, h.remap.push (u32Max, h.vr.size)⟩, by simp [remapStep], key _ (by simp [hs]) ?_ ?_ (by simp) ?_ (by simp) ?_ ?_ ?_ ?_⟩
    · intro k hk; exact getD_push_lt _ _ _ _ (by omega)
    · intro j hj; rfl
    · intro j hj; exact getD_push_lt _ _ _ _ hj
    · intro h; exact absurd rfl h
    · intro _; rw [← hs, getD_push_eq]; exact ⟨by simp, getD_push_eq _ _ _⟩
    · intro q hq; exact Or.inl hq
    · intro q hq; simp at hq; rcases hq with hq | rfl <;> simp [*]

theorem remapLoop_spec {K : Type} [Num K] (l : List (V3 K × Nat)) :
    ∀ (h : Halves K) (L : List (V3 K × Nat)), RInv h L → (∀ x ∈ l, x.2 < 3) →
      ∃ h', remapLoop h l = some h' ∧ RInv h' (L ++ l) := by
  induction l with
  | nil => intro h L hI _; exact ⟨h, rfl, by simpa using hI⟩
  | cons x l ih =>
    intro h L hI hl
    obtain ⟨p, c⟩ := x
    obtain ⟨h1, e1, hI1⟩ := remapStep_spec h L p c (hl (p, c) (by simp)) hI
    obtain ⟨h2, e2, hI2⟩ := ih h1 (L ++ [(p, c)]) hI1 (fun x hx => hl x (by simp [hx]))
    exact ⟨h2, by simp only [remapLoop, e1]; exact e2, by simpa using hI2⟩

/-- what the remap table guarantees for the vertices of the cut mesh -/
def RemapOK {K : Type} [Num K] (verts : Array (V3 K)) (colors : Array Nat) (remap : Array (Nat × Nat)) (vl vr : Array (V3 K)) : Prop :=
  ∀ k, k < verts.size →
    (colors.getD k 0 ≠ 2 → (remap.getD k (0, 0)).1 < vl.size ∧ vl.getD (remap.getD k (0, 0)).1 V3.zero = verts.getD k V3.zero) ∧
    (colors.getD k 0 ≠ 1 → (remap.getD k (0, 0)).2 < vr.size ∧ vr.getD (remap.getD k (0, 0)).2 V3.zero = verts.getD k V3.zero)

theorem assignTri_spec {K : Type} [Num K] (n : V3 K) (verts : Array (V3 K)) (colors : Array Nat) (remap : Array (Nat × Nat))
    (vl vr : Array (V3 K)) (hR : RemapOK verts colors remap vl vr) (acc : List Tri × List Tri) (t : Tri)
    (ht : InRange verts.size t) (hone : OneSided colors t) :
    ∃ acc', assignTri n verts colors remap acc t = some acc' ∧
      ((∃ tl, acc' = (acc.1 ++ [tl], acc.2) ∧ InRange vl.size tl ∧ pos vl tl = pos verts t) ∨
       (∃ tr, acc' = (acc.1, acc.2 ++ [tr]) ∧ InRange vr.size tr ∧ pos vr tr = pos verts t)) := by
  obtain ⟨t0, t1, t2⟩ := ht
  obtain ⟨l0, r0⟩ := hR _ t0
  obtain ⟨l1, r1⟩ := hR _ t1
  obtain ⟨l2, r2⟩ := hR _ t2
  simp only [OneSided] at hone
  have left : colors.getD t.1 0 ≠ 2 → colors.getD t.2.1 0 ≠ 2 → colors.getD t.2.2 0 ≠ 2 →
      ∃ tl, (acc.1 ++ [((remap.getD t.1 (0, 0)).1, (remap.getD t.2.1 (0, 0)).1, (remap.getD t.2.2 (0, 0)).1)], acc.2) = (acc.1 ++ [tl], acc.2) ∧
        InRange vl.size tl ∧ pos vl tl = pos verts t := by
    intro a0 a1 a2
    exact ⟨_, rfl, ⟨(l0 a0).1, (l1 a1).1, (l2 a2).1⟩, by simp only [pos, (l0 a0).2, (l1 a1).2, (l2 a2).2]⟩
  have right : colors.getD t.1 0 ≠ 1 → colors.getD t.2.1 0 ≠ 1 → colors.getD t.2.2 0 ≠ 1 →
      ∃ tr, (acc.1, acc.2 ++ [((remap.getD t.1 (0, 0)).2, (remap.getD t.2.1 (0, 0)).2, (remap.getD t.2.2 (0, 0)).2)]) = (acc.1, acc.2 ++ [tr]) ∧
        InRange vr.size tr ∧ pos vr tr = pos verts t := by
    intro a0 a1 a2
    exact ⟨_, rfl, ⟨(r0 a0).1, (r1 a1).1, (r2 a2).1⟩, by simp only [pos, (r0 a0).2, (r1 a1).2, (r2 a2).2]⟩
  simp only [assignTri]
  by_cases h1 : colors.getD t.1 0 = 1 ∨ colors.getD t.2.1 0 = 1 ∨ colors.getD t.2.2 0 = 1
  · have h2 : ¬ (colors.getD t.1 0 = 2 ∨ colors.getD t.2.1 0 = 2 ∨ colors.getD t.2.2 0 = 2) := fun h => hone ⟨h1, h⟩
    push Not at h2
    rw [if_pos h1, if_pos h2]
    exact ⟨_, rfl, Or.inl (left h2.1 h2.2.1 h2.2.2)⟩
  · rw [if_neg h1]
    push Not at h1
    by_cases h2 : colors.getD t.1 0 = 2 ∨ colors.getD t.2.1 0 = 2 ∨ colors.getD t.2.2 0 = 2
    · rw [if_pos h2]
      exact ⟨_, rfl, Or.inr (right h1.1 h1.2.1 h1.2.2)⟩
    · rw [if_neg h2]
      push Not at h2
      by_cases hf : facesPositive n (verts.getD t.1 V3.zero) (verts.getD t.2.1 V3.zero) (verts.getD t.2.2 V3.zero) = true
      · rw [if_pos hf]; exact ⟨_, rfl, Or.inl (left h2.1 h2.2.1 h2.2.2)⟩
      · rw [if_neg hf]; exact ⟨_, rfl, Or.inr (right h1.1 h1.2.1 h1.2.2)⟩

theorem assignLoop_spec {K : Type} [Field K] (inst : Num K) (n : V3 K) (verts : Array (V3 K)) (colors : Array Nat) (remap : Array (Nat × Nat))
    (vl vr : Array (V3 K)) (hR : RemapOK verts colors remap vl vr) (F : V3 K × V3 K × V3 K → K) (tris : List Tri) :
    ∀ (acc : List Tri × List Tri), (∀ t ∈ tris, InRange verts.size t ∧ OneSided colors t) →
      (∀ t ∈ acc.1, InRange vl.size t) → (∀ t ∈ acc.2, InRange vr.size t) →
      ∃ acc', assignLoop n verts colors remap acc tris = some acc' ∧
        (∀ t ∈ acc'.1, InRange vl.size t) ∧ (∀ t ∈ acc'.2, InRange vr.size t) ∧
        (acc'.1.map fun t => F (pos vl t)).sum + (acc'.2.map fun t => F (pos vr t)).sum =
          (acc.1.map fun t => F (pos vl t)).sum + (acc.2.map fun t => F (pos vr t)).sum + (tris.map fun t => F (pos verts t)).sum := by
  induction tris with
  | nil => intro acc _ h1 h2; exact ⟨acc, rfl, h1, h2, by simp⟩
  | cons t tris ih =>
    intro acc ht h1 h2
    obtain ⟨acc1, e1, hc⟩ := assignTri_spec n verts colors remap vl vr hR acc t (ht t (by simp)).1 (ht t (by simp)).2
    simp only [assignLoop, e1]
    rcases hc with ⟨tl, rfl, b1, b2⟩ | ⟨tr, rfl, b1, b2⟩
    · obtain ⟨acc', e2, c1, c2, c3⟩ := ih (acc.1 ++ [tl], acc.2) (fun x hx => ht x (by simp [hx]))
        (by intro x hx; simp at hx; rcases hx with hx | rfl; exact h1 x hx; exact b1) h2
      refine ⟨acc', e2, c1, c2, ?_⟩
      rw [c3]
      simp only [List.map_append, List.sum_append, List.map_cons, List.sum_cons, List.map_nil, List.sum_nil, b2]
      ring
    · obtain ⟨acc', e2, c1, c2, c3⟩ := ih (acc.1, acc.2 ++ [tr]) (fun x hx => ht x (by simp [hx])) h1
        (by intro x hx; simp at hx; rcases hx with hx | rfl; exact h2 x hx; exact b1)
      refine ⟨acc', e2, c1, c2, ?_⟩
      rw [c3]
      simp only [List.map_append, List.sum_append, List.map_cons, List.sum_cons, List.map_nil, List.sum_nil, b2]
      ring
end C17
