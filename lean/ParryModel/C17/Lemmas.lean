import ParryModel.Field
import ParryModel.C09.Theorems
import ParryModel.C17.Model
/-!
# C17 helper lemmas (not property obligations): coordinate access, per-axis form of box membership.
-/
namespace C17
open Model C09

set_option linter.unusedSectionVars false
set_option linter.unusedTactic false
set_option linter.unreachableTactic false

variable {K : Type} [Field K] [LinearOrder K] [IsStrictOrderedRing K]

theorem get_set (v : V3 K) (i j : Fin 3) (x : K) : (v.set i.val x).get j.val = if j = i then x else v.get j.val := by
  rcases i with ⟨_ | _ | _ | n, hi⟩ <;> rcases j with ⟨_ | _ | _ | m, hj⟩ <;> simp [V3.get, V3.set] <;> omega

theorem get_add_smul (sq : K → K) (o d : V3 K) (t : K) (i : Fin 3) :
    letI := fieldNum K sq
    (o.add (d.smul t)).get i.val = o.get i.val + d.get i.val * t := by
  rcases i with ⟨_ | _ | _ | n, hi⟩ <;> simp [V3.get, V3.add, V3.smul] <;> omega

/-- box membership, axis by axis -/
theorem bmem_iff (b : Aabb3 K) (p : V3 K) :
    BMem b p ↔ ∀ i : Fin 3, b.mins.get i.val ≤ p.get i.val ∧ p.get i.val ≤ b.maxs.get i.val := by
  constructor
  · rintro ⟨h1, h2, h3⟩ i
    rcases i with ⟨_ | _ | _ | n, hi⟩ <;> simp [V3.get] <;> first | exact h1 | exact h2 | exact h3 | omega
  · intro h
    have h0 := h 0; have h1 := h 1; have h2 := h 2
    simp [V3.get] at h0 h1 h2
    exact ⟨h0, h1, h2⟩


section clip
variable (sq : K → K)

/-! ## specification vocabulary and loop lemmas for `clip_aabb_line` -/

/-- a box is valid (non-empty as a point set) -/
def ValidBox (b : Aabb3 K) : Prop := ∀ i : Fin 3, b.mins.get i.val ≤ b.maxs.get i.val

/-- the slab condition of axis `i` for the point `o + t·d` -/
def Slab (b : Aabb3 K) (o d : V3 K) (i : Fin 3) (t : K) : Prop :=
  b.mins.get i.val ≤ o.get i.val + d.get i.val * t ∧ o.get i.val + d.get i.val * t ≤ b.maxs.get i.val

theorem clipUpdate_spec (st : ClipState K) (near far : K) (flip : Bool) (i : Fin 3) :
    letI := fieldNum K sq
    match clipUpdate st near far flip i with
    | some st' => st'.tmin = max st.tmin near ∧ st'.tmax = min st.tmax far ∧ st'.tmin ≤ st'.tmax
    | none => min st.tmax far < max st.tmin near := by
  simp only [clipUpdate]
  split_ifs with h1 h2 h3 h4 h5 h6 h7 h8 h9 h10 h11 h12 <;> simp only [] <;>
    (try push Not at *) <;>
    first
    | (refine ⟨?_, ?_, ?_⟩ <;> (try simp only [max_def, min_def]) <;> (try split_ifs) <;> (try linarith) <;> rfl)
    | (simp only [max_def, min_def]; split_ifs <;> linarith)


/-- for `d ≠ 0` and `mins ≤ maxs` the slab of axis `i` is the interval between the two plane parameters -/
theorem slab_iff (b : Aabb3 K) (o d : V3 K) (i : Fin 3) (t : K) (hd : d.get i.val ≠ 0)
    (hb : b.mins.get i.val ≤ b.maxs.get i.val) :
    Slab b o d i t ↔
      min ((b.mins.get i.val - o.get i.val) * (1 / d.get i.val)) ((b.maxs.get i.val - o.get i.val) * (1 / d.get i.val)) ≤ t ∧
      t ≤ max ((b.mins.get i.val - o.get i.val) * (1 / d.get i.val)) ((b.maxs.get i.val - o.get i.val) * (1 / d.get i.val)) := by
  unfold Slab
  generalize b.mins.get i.val = m at *
  generalize b.maxs.get i.val = M at *
  generalize o.get i.val = x at *
  generalize d.get i.val = e at *
  rcases lt_or_gt_of_ne hd with h | h
  · have hi : 1 / e < 0 := one_div_neg.mpr h
    have e1 : (m - x) * (1 / e) = (m - x) / e := by ring
    have e2 : (M - x) * (1 / e) = (M - x) / e := by ring
    rw [e1, e2]
    have hle : (M - x) / e ≤ (m - x) / e := by
      apply div_le_div_of_nonpos_of_le h.le; linarith
    rw [min_eq_right hle, max_eq_left hle, div_le_iff_of_neg h, le_div_iff_of_neg h]
    constructor <;> rintro ⟨a, c⟩ <;> constructor <;> nlinarith
  · have e1 : (m - x) * (1 / e) = (m - x) / e := by ring
    have e2 : (M - x) * (1 / e) = (M - x) / e := by ring
    rw [e1, e2]
    have hle : (m - x) / e ≤ (M - x) / e := by
      apply div_le_div_of_nonneg_right _ h.le; linarith
    rw [min_eq_left hle, max_eq_right hle, div_le_iff₀ h, le_div_iff₀ h]
    constructor <;> rintro ⟨a, c⟩ <;> constructor <;> nlinarith

/-- one loop iteration narrows the parameter interval by exactly the slab of its axis; `none` ⇔ nothing is left -/
theorem clipStep_spec (b : Aabb3 K) (o d : V3 K) (st : ClipState K) (i : Fin 3) (hb : b.mins.get i.val ≤ b.maxs.get i.val) :
    letI := fieldNum K sq
    match clipStepC b o d st i with
    | some st' => (st.tmin ≤ st.tmax → st'.tmin ≤ st'.tmax) ∧
        ∀ t, (st'.tmin ≤ t ∧ t ≤ st'.tmax) ↔ ((st.tmin ≤ t ∧ t ≤ st.tmax) ∧ Slab b o d i t)
    | none => ∀ t, ¬ ((st.tmin ≤ t ∧ t ≤ st.tmax) ∧ Slab b o d i t) := by
  simp only [clipStepC]
  by_cases hd : d.get i.val = 0
  · have hz : @neq K (fieldNum K sq) (d.get i.val) 0 = true := by simp [neq, hd]
    rw [if_pos hz]
    split_ifs with h
    · intro t ⟨_, s1, s2⟩
      rw [hd] at s1 s2
      simp only [Bool.or_eq_true, decide_eq_true_eq] at h
      rcases h with h | h <;> linarith
    · refine ⟨id, ?_⟩
      intro t
      simp only [Bool.or_eq_true, decide_eq_true_eq, not_or, not_lt] at h
      unfold Slab; rw [hd]
      constructor
      · intro ht; exact ⟨ht, by linarith [h.1], by linarith [h.2]⟩
      · exact fun ht => ht.1
  · have hz : ¬ (@neq K (fieldNum K sq) (d.get i.val) 0 = true) := by
      simp only [neq, Bool.and_eq_true, decide_eq_true_eq, not_and, not_le]
      intro h1; exact lt_of_le_of_ne h1 hd
    rw [if_neg hz]
    have hs := slab_iff b o d i
    have key := clipUpdate_spec sq st
      (if decide ((b.maxs.get i.val - o.get i.val) * (1 / d.get i.val) < (b.mins.get i.val - o.get i.val) * (1 / d.get i.val)) = true
        then (b.maxs.get i.val - o.get i.val) * (1 / d.get i.val) else (b.mins.get i.val - o.get i.val) * (1 / d.get i.val))
      (if decide ((b.maxs.get i.val - o.get i.val) * (1 / d.get i.val) < (b.mins.get i.val - o.get i.val) * (1 / d.get i.val)) = true
        then (b.mins.get i.val - o.get i.val) * (1 / d.get i.val) else (b.maxs.get i.val - o.get i.val) * (1 / d.get i.val))
      (decide ((b.maxs.get i.val - o.get i.val) * (1 / d.get i.val) < (b.mins.get i.val - o.get i.val) * (1 / d.get i.val))) i
    generalize (b.mins.get i.val - o.get i.val) * (1 / d.get i.val) = n0 at *
    generalize (b.maxs.get i.val - o.get i.val) * (1 / d.get i.val) = f0 at *
    have hnear : (if decide (f0 < n0) = true then f0 else n0) = min n0 f0 := by
      simp only [decide_eq_true_eq]; split_ifs with h
      · exact (min_eq_right h.le).symm
      · exact (min_eq_left (not_lt.mp h)).symm
    have hfar : (if decide (f0 < n0) = true then n0 else f0) = max n0 f0 := by
      simp only [decide_eq_true_eq]; split_ifs with h
      · exact (max_eq_left h.le).symm
      · exact (max_eq_right (not_lt.mp h)).symm
    rw [hnear, hfar] at key ⊢
    revert key
    cases @clipUpdate K (fieldNum K sq) st (min n0 f0) (max n0 f0) (decide (f0 < n0)) i with
    | none =>
      intro key t ⟨⟨a1, a2⟩, hsl⟩
      have := (hs t hd hb).mp hsl
      have h1 : max st.tmin (min n0 f0) ≤ t := max_le a1 this.1
      have h2 : t ≤ min st.tmax (max n0 f0) := le_min a2 this.2
      simp only [] at key
      linarith
    | some st' =>
      intro key
      simp only [] at key
      refine ⟨fun _ => key.2.2, ?_⟩
      intro t
      rw [key.1, key.2.1, hs t hd hb, max_le_iff, le_min_iff]
      tauto


/-- the point `o + t·d` -/
def lineAt (o d : V3 K) (t : K) : V3 K := ⟨o.x + d.x * t, o.y + d.y * t, o.z + d.z * t⟩

theorem lineAt_eq (o d : V3 K) (t : K) : letI := fieldNum K sq; o.add (d.smul t) = lineAt o d t := rfl

theorem bmem_lineAt_iff (b : Aabb3 K) (o d : V3 K) (t : K) :
    BMem b (lineAt o d t) ↔ (Slab b o d 0 t ∧ Slab b o d 1 t ∧ Slab b o d 2 t) := by
  simp [BMem, Slab, lineAt, V3.get]

/-- `f64::MAX` as an element of `K` -/
def big (K : Type) [Field K] : K := ((2 : K) ^ 1024 - (2 : K) ^ 971)

theorem f64Max_eq : @f64Max K (fieldNum K sq) = big K := by
  simp only [f64Max, fieldNum_ofRat, big]
  rw [Rat.mkRat_one]
  push_cast
  rfl

theorem one_le_big : (1 : K) ≤ big K := by
  unfold big
  have h : (2 : K) ^ 1024 = 2 ^ 971 * 2 ^ 53 := by rw [← pow_add]
  rw [h]
  have h1 : (1 : K) ≤ 2 ^ 971 := one_le_pow₀ (by norm_num)
  have h2 : (2 : K) ≤ 2 ^ 53 := by
    calc (2 : K) = 2 ^ 1 := by norm_num
      _ ≤ 2 ^ 53 := pow_le_pow_right₀ (by norm_num) (by norm_num)
  generalize (2 : K) ^ 971 = a at *
  generalize (2 : K) ^ 53 = c at *
  nlinarith [mul_nonneg (sub_nonneg.2 h1) (sub_nonneg.2 h2)]

theorem clipLoop_spec (b : Aabb3 K) (o d : V3 K) (hb : ValidBox b) :
    letI := fieldNum K sq
    match clipLoop b o d with
    | some st => st.tmin ≤ st.tmax ∧
        ∀ t, (st.tmin ≤ t ∧ t ≤ st.tmax) ↔ ((-big K ≤ t ∧ t ≤ big K) ∧ BMem b (lineAt o d t))
    | none => ∀ t, ¬ ((-big K ≤ t ∧ t ≤ big K) ∧ BMem b (lineAt o d t)) := by
  have hbig : (0 : K) ≤ big K := le_trans zero_le_one one_le_big
  simp only [clipLoop, Option.bind_some]
  have s0 := clipStep_spec sq b o d (@clipInit K (fieldNum K sq)) 0 (hb 0)
  have hi1 : (@clipInit K (fieldNum K sq)).tmin = -big K := by simp [clipInit, f64Max_eq]
  have hi2 : (@clipInit K (fieldNum K sq)).tmax = big K := by simp [clipInit, f64Max_eq]
  rw [hi1, hi2] at s0
  revert s0
  cases @clipStepC K (fieldNum K sq) b o d (@clipInit K (fieldNum K sq)) 0 with
  | none =>
    intro s0 t ⟨ht, hm⟩
    exact s0 t ⟨ht, ((bmem_lineAt_iff b o d t).mp hm).1⟩
  | some st0 =>
    intro s0
    simp only [Option.bind_some]
    have s1 := clipStep_spec sq b o d st0 1 (hb 1)
    revert s1
    cases @clipStepC K (fieldNum K sq) b o d st0 1 with
    | none =>
      intro s1 t ⟨ht, hm⟩
      have hm' := (bmem_lineAt_iff b o d t).mp hm
      exact s1 t ⟨(s0.2 t).mpr ⟨ht, hm'.1⟩, hm'.2.1⟩
    | some st1 =>
      intro s1
      simp only [Option.bind_some]
      have s2 := clipStep_spec sq b o d st1 2 (hb 2)
      revert s2
      cases @clipStepC K (fieldNum K sq) b o d st1 2 with
      | none =>
        intro s2 t ⟨ht, hm⟩
        have hm' := (bmem_lineAt_iff b o d t).mp hm
        exact s2 t ⟨(s1.2 t).mpr ⟨(s0.2 t).mpr ⟨ht, hm'.1⟩, hm'.2.1⟩, hm'.2.2⟩
      | some st2 =>
        intro s2
        simp only [] at s2 ⊢
        refine ⟨s2.1 (s1.1 (s0.1 (by linarith))), ?_⟩
        intro t
        rw [s2.2 t, s1.2 t, s0.2 t, bmem_lineAt_iff]
        tauto



end clip


section diff
variable (sq : K → K)
set_option linter.style.haveILetI false

/-! ## specification vocabulary and loop invariant for `Aabb::difference_with_cut_sequence` -/

/-- open box (interior) membership -/
def IntMem (b : Aabb3 K) (p : V3 K) : Prop := ∀ i : Fin 3, b.mins.get i.val < p.get i.val ∧ p.get i.val < b.maxs.get i.val
/-- two boxes share no interior point -/
def InteriorDisjoint (a b : Aabb3 K) : Prop := ∀ p, ¬ (IntMem a p ∧ IntMem b p)

theorem intMem_bmem (b : Aabb3 K) (p : V3 K) (h : IntMem b p) : BMem b p :=
  (bmem_iff b p).mpr fun i => ⟨(h i).1.le, (h i).2.le⟩

/-- cutting a box `B` on axis `i` at `c ∈ [B.mins[i], B.maxs[i]]` -/
theorem cut_cover (B : Aabb3 K) (i : Fin 3) (c : K) (h1 : B.mins.get i.val ≤ c) (h2 : c ≤ B.maxs.get i.val) (p : V3 K) :
    BMem B p ↔ (BMem ⟨B.mins, B.maxs.set i.val c⟩ p ∨ BMem ⟨B.mins.set i.val c, B.maxs⟩ p) := by
  simp only [bmem_iff, get_set]
  constructor
  · intro h
    rcases le_total (p.get i.val) c with hc | hc
    · left; intro j; by_cases hj : j = i
      · subst hj; simp only [if_true]; exact ⟨(h j).1, hc⟩
      · simp only [if_neg hj]; exact h j
    · right; intro j; by_cases hj : j = i
      · subst hj; simp only [if_true]; exact ⟨hc, (h j).2⟩
      · simp only [if_neg hj]; exact h j
  · rintro (h | h) <;> intro j <;> have hj' := h j <;> by_cases hj : j = i
    · subst hj; simp only [if_true] at hj'; exact ⟨hj'.1, hj'.2.trans h2⟩
    · simp only [if_neg hj] at hj'; exact hj'
    · subst hj; simp only [if_true] at hj'; exact ⟨h1.trans hj'.1, hj'.2⟩
    · simp only [if_neg hj] at hj'; exact hj'

theorem cut_disjoint (B : Aabb3 K) (i : Fin 3) (c : K) :
    InteriorDisjoint ⟨B.mins, B.maxs.set i.val c⟩ ⟨B.mins.set i.val c, B.maxs⟩ := by
  rintro p ⟨h1, h2⟩
  have a := (h1 i).2; have b := (h2 i).1
  simp only [get_set, if_true] at a b
  exact lt_asymm a b

theorem cut_int_left (B : Aabb3 K) (i : Fin 3) (c : K) (h2 : c ≤ B.maxs.get i.val) (p : V3 K)
    (h : IntMem ⟨B.mins, B.maxs.set i.val c⟩ p) : IntMem B p := by
  intro j; have hj' := h j; simp only [get_set] at hj'
  by_cases hj : j = i
  · subst hj; simp only [if_true] at hj'; exact ⟨hj'.1, lt_of_lt_of_le hj'.2 h2⟩
  · simp only [if_neg hj] at hj'; exact hj'

theorem cut_int_right (B : Aabb3 K) (i : Fin 3) (c : K) (h1 : B.mins.get i.val ≤ c) (p : V3 K)
    (h : IntMem ⟨B.mins.set i.val c, B.maxs⟩ p) : IntMem B p := by
  intro j; have hj' := h j; simp only [get_set] at hj'
  by_cases hj : j = i
  · subst hj; simp only [if_true] at hj'; exact ⟨lt_of_le_of_lt h1 hj'.1, hj'.2⟩
  · simp only [if_neg hj] at hj'; exact hj'

/-- loop invariant of `difference_with_cut_sequence` -/
structure DiffInv (self rhs rest : Aabb3 K) (pieces : List (Aabb3 K)) : Prop where
  cover : ∀ p, BMem self p ↔ (BMem rest p ∨ ∃ f ∈ pieces, BMem f p)
  restDisj : ∀ f ∈ pieces, InteriorDisjoint f rest
  rhsDisj : ∀ f ∈ pieces, InteriorDisjoint f rhs
  pairwise : pieces.Pairwise InteriorDisjoint

theorem DiffInv.cut {self rhs rest rest' frag : Aabb3 K} {pieces : List (Aabb3 K)} (inv : DiffInv self rhs rest pieces)
    (hc : ∀ p, BMem rest p ↔ (BMem frag p ∨ BMem rest' p)) (hd : InteriorDisjoint frag rest')
    (hf : ∀ p, IntMem frag p → IntMem rest p) (hr : ∀ p, IntMem rest' p → IntMem rest p)
    (hrhs : InteriorDisjoint frag rhs) : DiffInv self rhs rest' (pieces ++ [frag]) := by
  obtain ⟨cov, rd, rhd, pw⟩ := inv
  refine ⟨?_, ?_, ?_, ?_⟩
  · intro p
    rw [cov p, hc p]
    simp only [List.mem_append, List.mem_singleton]
    constructor
    · rintro ((h | h) | ⟨f, hf', h⟩)
      · exact Or.inr ⟨frag, Or.inr rfl, h⟩
      · exact Or.inl h
      · exact Or.inr ⟨f, Or.inl hf', h⟩
    · rintro (h | ⟨f, (hf' | rfl), h⟩)
      · exact Or.inl (Or.inr h)
      · exact Or.inr ⟨f, hf', h⟩
      · exact Or.inl (Or.inl h)
  · intro f hf'
    simp only [List.mem_append, List.mem_singleton] at hf'
    rcases hf' with hf' | rfl
    · rintro p ⟨a, b⟩; exact rd f hf' p ⟨a, hr p b⟩
    · exact hd
  · intro f hf'
    simp only [List.mem_append, List.mem_singleton] at hf'
    rcases hf' with hf' | rfl
    · exact rhd f hf'
    · exact hrhs
  · rw [List.pairwise_append]
    refine ⟨pw, List.pairwise_singleton _ _, ?_⟩
    intro a ha b hb
    simp only [List.mem_singleton] at hb; subst hb
    rintro p ⟨x, y⟩; exact rd a ha p ⟨x, hf p y⟩


theorem interiorDisjoint_symm {a b : Aabb3 K} (h : InteriorDisjoint a b) : InteriorDisjoint b a :=
  fun p hp => h p ⟨hp.2, hp.1⟩

/-- coordinates of the `rest` box after iteration `i`, and the invariant -/
theorem diffStep_inv (self rhs : Aabb3 K) (st : Aabb3.DiffState K) (i : Fin 3)
    (inv : DiffInv self rhs st.rest st.pieces)
    (H1 : st.rest.mins.get i.val < rhs.maxs.get i.val) (H2 : rhs.mins.get i.val < st.rest.maxs.get i.val)
    (H3 : rhs.mins.get i.val ≤ rhs.maxs.get i.val) :
    letI := fieldNum K sq
    DiffInv self rhs (Aabb3.diffStep rhs st i).rest (Aabb3.diffStep rhs st i).pieces ∧
    (∀ j : Fin 3, (Aabb3.diffStep rhs st i).rest.mins.get j.val =
        (if j = i then max (st.rest.mins.get i.val) (rhs.mins.get i.val) else st.rest.mins.get j.val)) ∧
    (∀ j : Fin 3, (Aabb3.diffStep rhs st i).rest.maxs.get j.val =
        (if j = i then min (st.rest.maxs.get i.val) (rhs.maxs.get i.val) else st.rest.maxs.get j.val)) := by
  letI : Num K := fieldNum K sq
  -- first (min-side) cut
  have step1 : ∃ st1 : Aabb3.DiffState K,
      st1 = (if st.rest.mins.get i.val < rhs.mins.get i.val then
        ({ rest := ⟨st.rest.mins.set i.val (rhs.mins.get i.val), st.rest.maxs⟩
           pieces := st.pieces ++ [⟨st.rest.mins, st.rest.maxs.set i.val (rhs.mins.get i.val)⟩]
           cuts := st.cuts ++ [((i.val : Int) + 1, rhs.mins.get i.val)] } : Aabb3.DiffState K) else st) ∧
      DiffInv self rhs st1.rest st1.pieces ∧
      (∀ j : Fin 3, st1.rest.mins.get j.val = (if j = i then max (st.rest.mins.get i.val) (rhs.mins.get i.val) else st.rest.mins.get j.val)) ∧
      st1.rest.maxs = st.rest.maxs := by
    refine ⟨_, rfl, ?_⟩
    split_ifs with hc
    · refine ⟨?_, ?_, rfl⟩
      · apply inv.cut
        · exact cut_cover st.rest i _ hc.le H2.le
        · exact cut_disjoint st.rest i _
        · exact cut_int_left st.rest i _ H2.le
        · exact cut_int_right st.rest i _ hc.le
        · rintro p ⟨a, b⟩
          have a' := (a i).2; have b' := (b i).1
          simp only [get_set, if_true] at a'
          exact lt_asymm a' b'
      · intro j
        simp only [get_set]
        by_cases hj : j = i
        · subst hj; simp only [if_true]; exact (max_eq_right hc.le).symm
        · simp only [if_neg hj]
    · refine ⟨inv, ?_, rfl⟩
      intro j
      by_cases hj : j = i
      · subst hj; simp only [if_true]; exact (max_eq_left (not_lt.mp hc)).symm
      · simp only [if_neg hj]
  obtain ⟨st1, hst1, inv1, hmins1, hmaxs1⟩ := step1
  have hstep : Aabb3.diffStep rhs st i =
      (if rhs.maxs.get i.val < st1.rest.maxs.get i.val then
        ({ rest := ⟨st1.rest.mins, st1.rest.maxs.set i.val (rhs.maxs.get i.val)⟩
           pieces := st1.pieces ++ [⟨st1.rest.mins.set i.val (rhs.maxs.get i.val), st1.rest.maxs⟩]
           cuts := st1.cuts ++ [(-((i.val : Int) + 1), -(rhs.maxs.get i.val))] } : Aabb3.DiffState K) else st1) := by
    rw [hst1]; rfl
  rw [hstep]
  have hm1 : st1.rest.mins.get i.val ≤ rhs.maxs.get i.val := by
    rw [hmins1 i]; simp only [if_true]; exact max_le H1.le H3
  split_ifs with hc
  · refine ⟨?_, ?_, ?_⟩
    · apply inv1.cut
      · intro p; rw [cut_cover st1.rest i _ hm1 hc.le p]; exact Or.comm
      · exact interiorDisjoint_symm (cut_disjoint st1.rest i _)
      · exact cut_int_right st1.rest i _ hm1
      · exact cut_int_left st1.rest i _ hc.le
      · rintro p ⟨a, b⟩
        have a' := (a i).1; have b' := (b i).2
        simp only [get_set, if_true] at a'
        exact lt_asymm a' b'
    · intro j; exact hmins1 j
    · intro j
      simp only [get_set]
      by_cases hj : j = i
      · subst hj; simp only [if_true]; rw [← hmaxs1]; exact (min_eq_right hc.le).symm
      · simp only [if_neg hj]; rw [hmaxs1]
  · refine ⟨inv1, hmins1, ?_⟩
    intro j
    by_cases hj : j = i
    · subst hj; simp only [if_true]; rw [← hmaxs1]; exact (min_eq_left (not_lt.mp hc)).symm
    · simp only [if_neg hj]; rw [hmaxs1]


theorem disjointOn_interior (a rhs : Aabb3 K) (i : Fin 3)
    (h : letI := fieldNum K sq; Aabb3.diffDisjointOn a rhs i.val = true) : InteriorDisjoint a rhs := by
  simp only [Aabb3.diffDisjointOn, Bool.or_eq_true, decide_eq_true_eq] at h
  rintro p ⟨x, y⟩
  have x' := x i; have y' := y i
  rcases h with h | h <;> linarith [x'.1, x'.2, y'.1, y'.2]


end diff


section seg
variable (sq : K → K)
set_option linter.style.haveILetI false

/-! ## helpers for `Segment::local_split_and_get_intersection` -/

/-- `f64::EPSILON` as an element of `K` -/
def eps52 (K : Type) [Field K] : K := 1 / 4503599627370496

theorem f64Eps_eq : @f64Eps K (fieldNum K sq) = eps52 K := by
  simp only [f64Eps, fieldNum_lit, eps52]
  norm_num

theorem eps52_pos : (0 : K) < eps52 K := by unfold eps52; positivity
theorem eps52_lt_one : eps52 K < 1 := by unfold eps52; rw [div_lt_one (by positivity)]; norm_num

/-- `relative_eq!(x, 0.0)` ⇔ `|x| ≤ f64::EPSILON` -/
theorem relEqZero_iff (x : K) : @relEqZero K (fieldNum K sq) x = true ↔ |x| ≤ eps52 K := by
  have hp := @eps52_pos K _ _ _
  have h1 := @eps52_lt_one K _ _ _
  simp only [relEqZero, f64Eps_eq, fieldNum_nabs, neq, sub_self, sub_zero, abs_zero, le_refl, decide_true, Bool.and_self,
    Bool.not_true, Bool.false_eq_true, if_false]
  split_ifs with c1 c2 c3
  · simp only [Bool.and_eq_true, decide_eq_true_eq] at c1
    have : x = 0 := le_antisymm c1.1 c1.2
    simp [this, hp.le]
  · simp [c2]
  · have := abs_nonneg x; exact absurd c3 (not_lt.mpr this)
  · simp only [decide_eq_true_eq]
    constructor
    · intro h; nlinarith [abs_nonneg x]
    · intro h; exact absurd h c2


/-- arithmetic core of the no-split branch: the signed distance `-ap + u·bp` along the segment is at most `eps + e`
when the mid-point is on the non-positive side and the crossing is within `eps` (along the segment, of length `L ≥ |bp|`)
of an end point, or the segment is parallel to the plane up to `e`. -/
theorem nosplit_bound (bp ap L eps e u : K) (hL : |bp| ≤ L) (he : 0 ≤ eps) (he' : 0 ≤ e) (hu0 : 0 ≤ u) (hu1 : u ≤ 1)
    (hmid : 0 ≤ ap - bp * (1 / 2))
    (hc : |bp| ≤ e ∨ ap / bp * L ≤ eps ∨ L - eps ≤ ap / bp * L) : -ap + u * bp ≤ eps + e := by
  have hL0 : 0 ≤ L := le_trans (abs_nonneg _) hL
  rcases abs_le.mp hL with ⟨hL1, hL2⟩
  by_cases hb0 : bp = 0
  · subst hb0; nlinarith
  rcases hc with hc | hc
  · rcases abs_le.mp hc with ⟨c1, c2⟩
    nlinarith
  · obtain ⟨t0, ht0⟩ : ∃ t0, t0 = ap / bp := ⟨_, rfl⟩
    have hap : ap = t0 * bp := by rw [ht0]; field_simp
    rw [← ht0] at hc
    subst hap
    rcases lt_or_gt_of_ne hb0 with hneg | hpos
    · -- bp < 0: t0 ≤ 1/2
      have ht : t0 ≤ 1 / 2 := by
        by_contra hcon; push Not at hcon; nlinarith
      rcases hc with hc | hc
      · rcases le_total t0 u with h | h
        · nlinarith
        · nlinarith [mul_nonneg (sub_nonneg.2 h) (sub_nonneg.2 hL1), mul_nonneg hu0 (neg_nonneg.2 hneg.le), mul_nonneg (le_trans hu0 h) (by linarith : (0:K) ≤ L + bp)]
      · nlinarith [mul_nonneg (by linarith : (0:K) ≤ 1/2 - t0) hL0, mul_nonneg hu0 (neg_nonneg.2 hneg.le)]
    · -- bp > 0: t0 ≥ 1/2
      have ht : 1 / 2 ≤ t0 := by
        by_contra hcon; push Not at hcon; nlinarith
      rcases hc with hc | hc
      · nlinarith [mul_nonneg (by linarith : (0:K) ≤ t0 - 1/2) hL0, mul_nonneg (sub_nonneg.2 hu1) hpos.le]
      · rcases le_total u t0 with h | h
        · nlinarith
        · nlinarith [mul_nonneg (sub_nonneg.2 h) (sub_nonneg.2 hL2), mul_nonneg (sub_nonneg.2 hu1) hpos.le,
            mul_nonneg (by linarith : (0:K) ≤ 1 - t0) (sub_nonneg.2 hL2)]


/-- Cauchy–Schwarz for a unit normal: `|n·d| ≤ √(d·d)` -/
theorem abs_dot_le_norm (hs : LawfulSqrt sq) (n d : V3 K)
    (hn : letI := fieldNum K sq; n.dot n = 1) :
    letI := fieldNum K sq
    |n.dot d| ≤ d.norm := by
  simp only [V3.norm, V3.normSq, V3.dot, fieldNum_sqrt] at hn ⊢
  have hdd : 0 ≤ d.x * d.x + d.y * d.y + d.z * d.z := by nlinarith [mul_self_nonneg d.x, mul_self_nonneg d.y, mul_self_nonneg d.z]
  have h0 := hs.nonneg _ hdd
  have h1 := hs.sq_mul _ hdd
  have cs : (n.x * d.x + n.y * d.y + n.z * d.z) * (n.x * d.x + n.y * d.y + n.z * d.z) ≤ d.x * d.x + d.y * d.y + d.z * d.z := by
    nlinarith [sq_nonneg (n.x * d.y - n.y * d.x), sq_nonneg (n.y * d.z - n.z * d.y), sq_nonneg (n.z * d.x - n.x * d.z)]
  rw [abs_le]
  constructor <;> nlinarith

/-- signed distance of a point of the segment: `n·(a + (b-a)u) - bias = -(bias - n·a) + u (n·(b-a))` -/
theorem sdist_on_segment (a b n : V3 K) (bias u : K) :
    letI := fieldNum K sq
    n.dot (a.add ((b.sub a).smul u)) - bias = -(bias - n.dot a) + u * n.dot (b.sub a) := by
  simp only [V3.dot, V3.add, V3.sub, V3.smul]; ring

/-- `√(c²·x) = c·√x` for `c, x ≥ 0` -/
theorem sqrt_scale (hs : LawfulSqrt sq) (c x : K) (hc : 0 ≤ c) (hx : 0 ≤ x) : sq (c * c * x) = c * sq x := by
  have h1 : 0 ≤ c * c * x := mul_nonneg (mul_self_nonneg c) hx
  rw [← mul_self_inj (hs.nonneg _ h1) (mul_nonneg hc (hs.nonneg _ hx)), hs.sq_mul _ h1]
  have := hs.sq_mul _ hx
  linear_combination (-(c * c)) * this

/-- lengths of the two pieces of a segment cut at parameter `t ∈ [0,1]` -/
theorem piece_norms (hs : LawfulSqrt sq) (a b : V3 K) (t : K) (ht0 : 0 ≤ t) (ht1 : t ≤ 1) :
    letI := fieldNum K sq
    ((a.add ((b.sub a).smul t)).sub a).norm = t * (b.sub a).norm ∧
    (b.sub (a.add ((b.sub a).smul t))).norm = (1 - t) * (b.sub a).norm := by
  simp only [V3.norm, V3.normSq, V3.dot, V3.add, V3.sub, V3.smul, fieldNum_sqrt]
  have hdd : 0 ≤ (b.x - a.x) * (b.x - a.x) + (b.y - a.y) * (b.y - a.y) + (b.z - a.z) * (b.z - a.z) := by
    nlinarith [mul_self_nonneg (b.x - a.x), mul_self_nonneg (b.y - a.y), mul_self_nonneg (b.z - a.z)]
  constructor
  · rw [← sqrt_scale sq hs t _ ht0 hdd]; congr 1; ring
  · rw [← sqrt_scale sq hs (1 - t) _ (by linarith) hdd]; congr 1; ring

theorem dot_sub_eq (a b n : V3 K) (bias : K) :
    letI := fieldNum K sq
    n.dot (b.sub a) = (n.dot b - bias) - (n.dot a - bias) := by
  simp only [V3.dot, V3.sub]; ring

/-- the no-split condition holds when both end points are (weakly) on the same side -/
theorem nosplit_of_same_side (hs : LawfulSqrt sq) (s : Segment3 K) (n : V3 K) (bias eps : K) (he : 0 ≤ eps)
    (hside : (letI := fieldNum K sq; n.dot s.a - bias ≤ 0 ∧ n.dot s.b - bias ≤ 0) ∨
             (letI := fieldNum K sq; 0 ≤ n.dot s.a - bias ∧ 0 ≤ n.dot s.b - bias)) :
    letI := fieldNum K sq
    (relEqZero (n.dot (s.b.sub s.a)) || decide ((bias - n.dot s.a) / n.dot (s.b.sub s.a) * (s.b.sub s.a).norm ≤ eps) ||
      decide ((s.b.sub s.a).norm - eps ≤ (bias - n.dot s.a) / n.dot (s.b.sub s.a) * (s.b.sub s.a).norm)) = true := by
  letI : Num K := fieldNum K sq
  have hL0 : 0 ≤ (s.b.sub s.a).norm := by
    simp only [V3.norm, fieldNum_sqrt]; apply hs.nonneg
    simp only [V3.normSq, V3.dot]
    nlinarith [mul_self_nonneg (s.b.sub s.a).x, mul_self_nonneg (s.b.sub s.a).y, mul_self_nonneg (s.b.sub s.a).z]
  simp only [Bool.or_eq_true, decide_eq_true_eq, relEqZero_iff]
  have hd := dot_sub_eq sq s.a s.b n bias
  by_cases hb0 : n.dot (s.b.sub s.a) = 0
  · left; left; rw [hb0, abs_zero]; exact eps52_pos.le
  generalize (s.b.sub s.a).norm = L at *
  generalize hbp : n.dot (s.b.sub s.a) = bp at *
  -- crossing parameter t0 = a'/b' is ≤ 0 or ≥ 1
  have key : (bias - n.dot s.a) / bp ≤ 0 ∨ 1 ≤ (bias - n.dot s.a) / bp := by
    rcases lt_or_gt_of_ne hb0 with hneg | hpos
    · rcases hside with ⟨h1, h2⟩ | ⟨h1, h2⟩
      · left; exact div_nonpos_of_nonneg_of_nonpos (by linarith) hneg.le
      · right; rw [le_div_iff_of_neg hneg]; linarith
    · rcases hside with ⟨h1, h2⟩ | ⟨h1, h2⟩
      · right; rw [le_div_iff₀ hpos]; linarith
      · left; exact div_nonpos_of_nonpos_of_nonneg (by linarith) hpos.le
  rcases key with k | k
  · left; right; nlinarith
  · right; nlinarith

end seg


section sh
variable (sq : K → K)
set_option linter.style.haveILetI false

/-! ## specification vocabulary and loop lemmas for `clip_halfspace_polygon` / `Aabb::clip_polygon` -/

/-- the point `a + t (b - a)` -/
def segPt (a b : V3 K) (t : K) : V3 K := ⟨a.x + (b.x - a.x) * t, a.y + (b.y - a.y) * t, a.z + (b.z - a.z) * t⟩
theorem segPt_eq (a b : V3 K) (t : K) : letI := fieldNum K sq; a.add ((b.sub a).smul t) = segPt a b t := rfl

/-- the half-space functional `n·(p - c)`; the half-space of `clip_halfspace_polygon` is `{p | hsVal c n p ≤ 0}` -/
def hsVal (c n p : V3 K) : K := (p.x - c.x) * n.x + (p.y - c.y) * n.y + (p.z - c.z) * n.z

/-- convex hull of a finite vertex list, as the least set containing the vertices and closed under taking segments -/
inductive Hull (pts : List (V3 K)) : V3 K → Prop
  | vert (p : V3 K) : p ∈ pts → Hull pts p
  | seg (a b : V3 K) (t : K) : Hull pts a → Hull pts b → 0 ≤ t → t ≤ 1 → Hull pts (segPt a b t)

theorem hsVal_segPt (c n a b : V3 K) (t : K) : hsVal c n (segPt a b t) = (1 - t) * hsVal c n a + t * hsVal c n b := by
  simp only [hsVal, segPt]; ring

/-- a half-space is convex: it contains the hull of any of its finite subsets -/
theorem hull_halfspace (c n : V3 K) (pts : List (V3 K)) (h : ∀ v ∈ pts, hsVal c n v ≤ 0) (p : V3 K) (hp : Hull pts p) :
    hsVal c n p ≤ 0 := by
  induction hp with
  | vert p hp => exact h p hp
  | seg a b t _ _ h0 h1 iha ihb => rw [hsVal_segPt]; nlinarith

/-- hull of points of a hull is inside the hull -/
theorem hull_trans (P Q : List (V3 K)) (h : ∀ v ∈ Q, Hull P v) (p : V3 K) (hp : Hull Q p) : Hull P p := by
  induction hp with
  | vert p hp => exact h p hp
  | seg a b t _ _ h0 h1 iha ihb => exact Hull.seg a b t iha ihb h0 h1

theorem keepPoint_iff (c n p : V3 K) : @keepPoint K (fieldNum K sq) c n p = true ↔ hsVal c n p ≤ 0 := by
  simp only [keepPoint, hsVal, V3.dot, V3.sub]
  exact ⟨of_decide_eq_true, decide_eq_true⟩

/-- the crossing point computed by `ray_toi_with_halfspace` lies exactly on the plane -/
theorem rayToi_on_plane (c n o d : V3 K) (t : K) (h : @rayToiHalfspace K (fieldNum K sq) c n o d = some t) :
    letI := fieldNum K sq
    hsVal c n (o.add (d.smul t)) = 0 := by
  letI : Num K := fieldNum K sq
  simp only [rayToiHalfspace, lineToiHalfspace] at h
  split at h
  · rename_i t' heq
    split_ifs at heq with hz
    simp only [Option.some.injEq] at heq
    split_ifs at h with ht
    simp only [Option.some.injEq] at h
    subst h; subst heq
    have hne : n.dot d ≠ 0 := by
      intro h0; rw [h0] at hz
      exact hz ((relEqZero_iff sq 0).mpr (by simp [eps52_pos.le]))
    have key : n.dot (c.sub o) / n.dot d * n.dot d = n.dot (c.sub o) := div_mul_cancel₀ _ hne
    generalize n.dot (c.sub o) / n.dot d = t at key
    simp only [hsVal, V3.add, V3.smul, V3.dot, V3.sub] at key ⊢
    linear_combination key
  · simp at h

/-- what one visited vertex contributes -/
theorem clipVisit_sound (c n prev pt : V3 K) (lk isLast : Bool) (q : V3 K)
    (hq : q ∈ @clipVisit K (fieldNum K sq) c n prev lk pt isLast) :
    (q = pt ∧ hsVal c n pt ≤ 0) ∨ (∃ t, 0 < t ∧ t < 1 ∧ q = segPt prev pt t ∧ hsVal c n q = 0) := by
  letI : Num K := fieldNum K sq
  simp only [clipVisit, List.mem_append] at hq
  rcases hq with hq | hq
  · right
    split_ifs at hq with hk
    · split at hq
      · rename_i t heq
        split_ifs at hq with ht
        · simp only [List.mem_singleton] at hq
          subst hq
          exact ⟨t, ht.1, ht.2, segPt_eq sq prev pt t, rayToi_on_plane sq c n prev (pt.sub prev) t heq⟩
        · simp at hq
      · simp at hq
    · simp at hq
  · left
    split_ifs at hq with hk
    · simp only [List.mem_singleton] at hq
      simp only [Bool.and_eq_true] at hk
      exact ⟨hq, (keepPoint_iff sq c n pt).mp hk.1⟩
    · simp at hq


/-- provenance of an output vertex of the Sutherland–Hodgman step: a kept input vertex, or the crossing point of an input edge -/
def SHVertex (c n : V3 K) (poly : List (V3 K)) (q : V3 K) : Prop :=
  (q ∈ poly ∧ hsVal c n q ≤ 0) ∨
  (∃ a ∈ poly, ∃ b ∈ poly, ∃ t, 0 < t ∧ t < 1 ∧ q = segPt a b t ∧ hsVal c n q = 0)

theorem clipPolyLoop_sound (c n : V3 K) (l : List (V3 K)) : ∀ (prev : V3 K) (lk : Bool) (q : V3 K),
    q ∈ @clipPolyLoop K (fieldNum K sq) c n prev lk l → SHVertex c n (prev :: l) q := by
  induction l with
  | nil => intro prev lk q hq; simp [clipPolyLoop] at hq
  | cons pt rest ih =>
    intro prev lk q hq
    simp only [clipPolyLoop, List.mem_append] at hq
    rcases hq with hq | hq
    · rcases clipVisit_sound sq c n prev pt lk _ q hq with ⟨rfl, hk⟩ | ⟨t, t0, t1, rfl, hz⟩
      · exact Or.inl ⟨by simp, hk⟩
      · exact Or.inr ⟨prev, by simp, pt, by simp, t, t0, t1, rfl, hz⟩
    · rcases ih pt _ q hq with ⟨hm, hk⟩ | ⟨a, ha, b, hb, t, t0, t1, rfl, hz⟩
      · exact Or.inl ⟨List.mem_cons_of_mem _ hm, hk⟩
      · exact Or.inr ⟨a, List.mem_cons_of_mem _ ha, b, List.mem_cons_of_mem _ hb, t, t0, t1, rfl, hz⟩

theorem clipPolyLoop_complete (c n : V3 K) (l : List (V3 K)) : ∀ (prev : V3 K) (lk : Bool) (p : V3 K),
    p ∈ l → hsVal c n p ≤ 0 → (p ∈ @clipPolyLoop K (fieldNum K sq) c n prev lk l ∨ l.getLast? = some p) := by
  induction l with
  | nil => intro prev lk p hp; simp at hp
  | cons pt rest ih =>
    intro prev lk p hp hk
    simp only [clipPolyLoop, List.mem_append]
    rcases List.mem_cons.mp hp with rfl | hp'
    · cases rest with
      | nil => right; rfl
      | cons r rs =>
        left; left
        simp only [clipVisit, List.mem_append]
        right
        have := (keepPoint_iff sq c n p).mpr hk
        simp [this]
    · rcases ih pt _ p hp' hk with h | h
      · exact Or.inl (Or.inr h)
      · right
        cases rest with
        | nil => simp at hp'
        | cons r rs => simpa [List.getLast?_cons_cons] using h

end sh


section ss
variable (sq : K → K)
set_option linter.style.haveILetI false

/-! ## vocabulary and helpers for `clip_segment_segment` -/

/-- projection of `p` on the direction of `seg1 = (a1, b1)`, unnormalised: `π(p) = (p - a1)·(b1 - a1)`;
`π(a1) = 0`, `π(b1) = |b1 - a1|²` -/
def proj1 (a1 b1 p : V2 K) : K := (p.x - a1.x) * (b1.x - a1.x) + (p.y - a1.y) * (b1.y - a1.y)

/-- the point `a + t (b - a)` (2-D) -/
def segPt2 (a b : V2 K) (t : K) : V2 K := ⟨a.x + (b.x - a.x) * t, a.y + (b.y - a.y) * t⟩

theorem proj1_segPt2 (a1 b1 a b : V2 K) (t : K) :
    proj1 a1 b1 (segPt2 a b t) = proj1 a1 b1 a + t * (proj1 a1 b1 b - proj1 a1 b1 a) := by
  simp only [proj1, segPt2]; ring

theorem mem_segPt2 (a b : V2 K) (t : K) (h0 : 0 ≤ t) (h1 : t ≤ 1) :
    letI := fieldNum K sq
    (Segment2.mk a b).Mem (segPt2 a b t) := ⟨t, h0, h1, rfl⟩

theorem mem_segPt2_rev (a b : V2 K) (t : K) (h0 : 0 ≤ t) (h1 : t ≤ 1) :
    letI := fieldNum K sq
    (Segment2.mk a b).Mem (segPt2 b a t) := by
  refine ⟨1 - t, by linarith, by linarith, ?_⟩
  simp only [segPt2, V2.add, V2.sub, V2.smul, V2.mk.injEq]
  constructor <;> ring


/-- lower clipping pair, for `seg2` given by its end points sorted by projection (`r20 < r21`) -/
theorem ss_ca (a1 b1 s20 s21 : V2 K) (S r20 r21 : K) (hS : proj1 a1 b1 b1 = S) (h20 : proj1 a1 b1 s20 = r20)
    (h21 : proj1 a1 b1 s21 = r21) (hlt : r20 < r21) (hov1 : r20 ≤ S) (hov2 : 0 ≤ r21) :
    letI := fieldNum K sq
    (0 < r20 → (∃ t, 0 ≤ t ∧ t ≤ 1 ∧ a1.add ((b1.sub a1).smul ((r20 - 0) / (S - 0))) = segPt2 a1 b1 t) ∧
        proj1 a1 b1 (a1.add ((b1.sub a1).smul ((r20 - 0) / (S - 0)))) = r20 ∧ r20 = max 0 r20) ∧
    (¬ 0 < r20 → (∃ u, 0 ≤ u ∧ u ≤ 1 ∧ s20.add ((s21.sub s20).smul ((0 - r20) / (r21 - r20))) = segPt2 s20 s21 u) ∧
        proj1 a1 b1 (s20.add ((s21.sub s20).smul ((0 - r20) / (r21 - r20)))) = 0 ∧ (0 : K) = max 0 r20) := by
  letI : Num K := fieldNum K sq
  have ea : proj1 a1 b1 a1 = 0 := by simp only [proj1]; ring
  constructor
  · intro hpos
    have hSpos : 0 < S := lt_of_lt_of_le hpos hov1
    refine ⟨⟨(r20 - 0) / (S - 0), ?_, ?_, rfl⟩, ?_, (max_eq_right hpos.le).symm⟩
    · apply div_nonneg <;> linarith
    · rw [div_le_one (by linarith)]; linarith
    · have : a1.add ((b1.sub a1).smul ((r20 - 0) / (S - 0))) = segPt2 a1 b1 ((r20 - 0) / (S - 0)) := rfl
      rw [this, proj1_segPt2, ea, hS]; field_simp; ring
  · intro hneg
    push Not at hneg
    have hd : 0 < r21 - r20 := by linarith
    refine ⟨⟨(0 - r20) / (r21 - r20), ?_, ?_, rfl⟩, ?_, (max_eq_left hneg).symm⟩
    · apply div_nonneg <;> linarith
    · rw [div_le_one hd]; linarith
    · have : s20.add ((s21.sub s20).smul ((0 - r20) / (r21 - r20))) = segPt2 s20 s21 ((0 - r20) / (r21 - r20)) := rfl
      rw [this, proj1_segPt2, h20, h21]; field_simp; ring

/-- upper clipping pair -/
theorem ss_cb (a1 b1 s20 s21 : V2 K) (S r20 r21 : K) (hS : proj1 a1 b1 b1 = S) (h20 : proj1 a1 b1 s20 = r20)
    (h21 : proj1 a1 b1 s21 = r21) (hlt : r20 < r21) (hov1 : r20 ≤ S) (hov2 : 0 ≤ r21) :
    letI := fieldNum K sq
    (r21 < S → (∃ t, 0 ≤ t ∧ t ≤ 1 ∧ a1.add ((b1.sub a1).smul ((r21 - 0) / (S - 0))) = segPt2 a1 b1 t) ∧
        proj1 a1 b1 (a1.add ((b1.sub a1).smul ((r21 - 0) / (S - 0)))) = r21 ∧ r21 = min S r21) ∧
    (¬ r21 < S → (∃ u, 0 ≤ u ∧ u ≤ 1 ∧ s20.add ((s21.sub s20).smul ((S - r20) / (r21 - r20))) = segPt2 s20 s21 u) ∧
        proj1 a1 b1 (s20.add ((s21.sub s20).smul ((S - r20) / (r21 - r20)))) = S ∧ S = min S r21) := by
  letI : Num K := fieldNum K sq
  have ea : proj1 a1 b1 a1 = 0 := by simp only [proj1]; ring
  constructor
  · intro hpos
    have hSpos : 0 < S := lt_of_le_of_lt hov2 hpos
    refine ⟨⟨(r21 - 0) / (S - 0), ?_, ?_, rfl⟩, ?_, (min_eq_right hpos.le).symm⟩
    · apply div_nonneg <;> linarith
    · rw [div_le_one (by linarith)]; linarith
    · have : a1.add ((b1.sub a1).smul ((r21 - 0) / (S - 0))) = segPt2 a1 b1 ((r21 - 0) / (S - 0)) := rfl
      rw [this, proj1_segPt2, ea, hS]; field_simp; ring
  · intro hneg
    push Not at hneg
    have hd : 0 < r21 - r20 := by linarith
    refine ⟨⟨(S - r20) / (r21 - r20), ?_, ?_, rfl⟩, ?_, (min_eq_left hneg).symm⟩
    · apply div_nonneg <;> linarith
    · rw [div_le_one hd]; linarith
    · have : s20.add ((s21.sub s20).smul ((S - r20) / (r21 - r20))) = segPt2 s20 s21 ((S - r20) / (r21 - r20)) := rfl
      rw [this, proj1_segPt2, h20, h21]; field_simp; ring


end ss


section sides
variable (sq : K → K)
set_option linter.style.haveILetI false

/-! ## side indices of `clip_aabb_line` -/

/-- the side index `s` names a face that the point `o + t·d` lies on: `k+1` = the `mins` face of axis `k`,
`-(k+1)` = its `maxs` face; `0` = no face (no axis has constrained the parameter, which is then still `unconstrained`) -/
def FaceHit (b : Aabb3 K) (o d : V3 K) (t : K) (s : Int) (unconstrained : K) : Prop :=
  (s = 0 ∧ t = unconstrained) ∨
  ∃ k : Fin 3, (s = (k.val : Int) + 1 ∧ o.get k.val + d.get k.val * t = b.mins.get k.val) ∨
               (s = -((k.val : Int) + 1) ∧ o.get k.val + d.get k.val * t = b.maxs.get k.val)

theorem clipUpdate_sides (b : Aabb3 K) (o d : V3 K) (st st' : ClipState K) (near far : K) (flip : Bool) (i : Fin 3)
    (hn : o.get i.val + d.get i.val * near = (if flip then b.maxs.get i.val else b.mins.get i.val))
    (hf : o.get i.val + d.get i.val * far = (if flip then b.mins.get i.val else b.maxs.get i.val))
    (h1 : FaceHit b o d st.tmin st.nearSide (-big K)) (h2 : FaceHit b o d st.tmax st.farSide (big K))
    (h : @clipUpdate K (fieldNum K sq) st near far flip i = some st') :
    FaceHit b o d st'.tmin st'.nearSide (-big K) ∧ FaceHit b o d st'.tmax st'.farSide (big K) := by
  simp only [clipUpdate] at h
  cases flip <;> simp only [Bool.false_eq_true, if_false, if_true, Bool.not_false, Bool.not_true] at h hn hf <;>
    split_ifs at h <;> simp only [Option.some.injEq] at h <;> subst h <;> (try simp only []) <;>
    first
    | exact ⟨h1, h2⟩
    | exact ⟨Or.inr ⟨i, Or.inl ⟨rfl, hn⟩⟩, h2⟩
    | exact ⟨Or.inr ⟨i, Or.inr ⟨rfl, hn⟩⟩, h2⟩
    | exact ⟨h1, Or.inr ⟨i, Or.inl ⟨rfl, hf⟩⟩⟩
    | exact ⟨h1, Or.inr ⟨i, Or.inr ⟨rfl, hf⟩⟩⟩
    | exact ⟨Or.inr ⟨i, Or.inl ⟨rfl, hn⟩⟩, Or.inr ⟨i, Or.inr ⟨rfl, hf⟩⟩⟩
    | exact ⟨Or.inr ⟨i, Or.inr ⟨rfl, hn⟩⟩, Or.inr ⟨i, Or.inl ⟨rfl, hf⟩⟩⟩


theorem clipStep_sides (b : Aabb3 K) (o d : V3 K) (st st' : ClipState K) (i : Fin 3)
    (h1 : FaceHit b o d st.tmin st.nearSide (-big K)) (h2 : FaceHit b o d st.tmax st.farSide (big K))
    (h : @clipStepC K (fieldNum K sq) b o d st i = some st') :
    FaceHit b o d st'.tmin st'.nearSide (-big K) ∧ FaceHit b o d st'.tmax st'.farSide (big K) := by
  simp only [clipStepC] at h
  by_cases hz : @neq K (fieldNum K sq) (d.get i.val) 0 = true
  · rw [if_pos hz] at h
    split_ifs at h with hout
    simp only [Option.some.injEq] at h; subst h; exact ⟨h1, h2⟩
  · rw [if_neg hz] at h
    have hd : d.get i.val ≠ 0 := by
      intro h0; apply hz; simp [neq, h0]
    refine clipUpdate_sides sq b o d st st' _ _ _ i ?_ ?_ h1 h2 h
    · split_ifs <;> field_simp <;> ring
    · split_ifs <;> field_simp <;> ring


end sides


section replay
variable (sq : K → K)
set_option linter.style.haveILetI false
set_option linter.unnecessarySeqFocus false

/-! ## replaying the cut sequence of `difference_with_cut_sequence` -/

/-- axis named by a cut index `±1, ±2, ±3` -/
def cutAxis (n : Int) : Option (Fin 3) :=
  if n = 1 ∨ n = -1 then some 0 else if n = 2 ∨ n = -2 then some 1 else if n = 3 ∨ n = -3 then some 2 else none

/-- replay of one cut `(index, bias)` of the cut sequence on `rest`, as documented for `difference_with_cut_sequence`:
the plane has outward normal `sign(index)·e_axis` and passes through `normal * bias`; the fragment is the piece of `rest` in its
negative half-space, the other piece is the new `rest`. Computed with the model of `Aabb::canonical_split` (epsilon `0`),
whose plane normal is `+e_axis` (so for a negative index the bias is negated and the two pieces are exchanged). -/
def replayCut (rest : Aabb3 K) (c : Int × K) : Option (Aabb3 K × Aabb3 K) :=
  letI := fieldNum K sq
  match cutAxis c.1 with
  | none => none
  | some ax =>
    if 0 < c.1 then
      match rest.canonicalSplit ax c.2 0 with
      | .pair l r => some (l, r)
      | _ => none
    else
      match rest.canonicalSplit ax (-c.2) 0 with
      | .pair l r => some (r, l)
      | _ => none

/-- replay of a whole cut sequence from `a`: the fragments in order and what is left -/
def replayCuts (a : Aabb3 K) (cuts : List (Int × K)) : Option (List (Aabb3 K) × Aabb3 K) :=
  cuts.foldl (fun acc c => acc.bind fun st => (replayCut sq st.2 c).map fun fr => (st.1 ++ [fr.1], fr.2)) (some ([], a))

theorem cutAxis_pos (i : Fin 3) : cutAxis ((i.val : Int) + 1) = some i := by
  rcases i with ⟨_ | _ | _ | n, hi⟩ <;> simp [cutAxis] <;> omega
theorem cutAxis_neg (i : Fin 3) : cutAxis (-((i.val : Int) + 1)) = some i := by
  rcases i with ⟨_ | _ | _ | n, hi⟩ <;> simp [cutAxis] <;> omega

theorem replayCut_min (rest : Aabb3 K) (i : Fin 3) (c : K) (h1 : rest.mins.get i.val < c) (h2 : c < rest.maxs.get i.val) :
    replayCut sq rest ((i.val : Int) + 1, c) = some (⟨rest.mins, rest.maxs.set i.val c⟩, ⟨rest.mins.set i.val c, rest.maxs⟩) := by
  have hpos : (0 : Int) < (i.val : Int) + 1 := by omega
  simp only [replayCut, cutAxis_pos, hpos, if_true, Aabb3.canonicalSplit, sub_zero, add_zero]
  rw [if_neg (not_le.mpr h1), if_neg (not_le.mpr h2)]

theorem replayCut_max (rest : Aabb3 K) (i : Fin 3) (c : K) (h1 : rest.mins.get i.val < c) (h2 : c < rest.maxs.get i.val) :
    replayCut sq rest (-((i.val : Int) + 1), -c) = some (⟨rest.mins.set i.val c, rest.maxs⟩, ⟨rest.mins, rest.maxs.set i.val c⟩) := by
  have hneg : ¬ ((0 : Int) < -((i.val : Int) + 1)) := by omega
  simp only [replayCut, cutAxis_neg, hneg, if_false, Aabb3.canonicalSplit, sub_zero, add_zero, neg_neg]
  rw [if_neg (not_le.mpr h1), if_neg (not_le.mpr h2)]

theorem replayCuts_snoc (a : Aabb3 K) (cuts : List (Int × K)) (c : Int × K) (ps : List (Aabb3 K)) (r f r' : Aabb3 K)
    (h : replayCuts sq a cuts = some (ps, r)) (hc : replayCut sq r c = some (f, r')) :
    replayCuts sq a (cuts ++ [c]) = some (ps ++ [f], r') := by
  simp only [replayCuts] at h ⊢
  rw [List.foldl_append, h]
  simp [hc]


theorem diffStep_replay (a rhs : Aabb3 K) (st : Aabb3.DiffState K) (i : Fin 3)
    (hrep : replayCuts sq a st.cuts = some (st.pieces, st.rest))
    (H1 : st.rest.mins.get i.val < rhs.maxs.get i.val) (H2 : rhs.mins.get i.val < st.rest.maxs.get i.val)
    (H3 : rhs.mins.get i.val < rhs.maxs.get i.val) :
    letI := fieldNum K sq
    replayCuts sq a (Aabb3.diffStep rhs st i).cuts = some ((Aabb3.diffStep rhs st i).pieces, (Aabb3.diffStep rhs st i).rest) := by
  letI : Num K := fieldNum K sq
  simp only [Aabb3.diffStep]
  by_cases c1 : st.rest.mins.get i.val < rhs.mins.get i.val
  · simp only [c1, if_true]
    have r1 := replayCuts_snoc sq a st.cuts _ st.pieces st.rest _ _ hrep (replayCut_min sq st.rest i _ c1 H2)
    by_cases c2 : rhs.maxs.get i.val < st.rest.maxs.get i.val
    · simp only [c2, if_true]
      refine replayCuts_snoc sq a _ _ _ _ _ _ r1 ?_
      refine replayCut_max sq _ i _ ?_ c2
      simp only [get_set, if_true]; exact H3
    · simp only [c2, if_false]; exact r1
  · simp only [c1, if_false]
    by_cases c2 : rhs.maxs.get i.val < st.rest.maxs.get i.val
    · simp only [c2, if_true]
      exact replayCuts_snoc sq a _ _ _ _ _ _ hrep (replayCut_max sq _ i _ H1 c2)
    · simp only [c2, if_false]; exact hrep


end replay

end C17
