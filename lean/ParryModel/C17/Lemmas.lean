import ParryModel.Field
import ParryModel.C09.Theorems
import ParryModel.C17.Model
/-!
# C17 helper lemmas (not property obligations): coordinate access, per-axis form of box membership.
-/
namespace C17
open Model C09

set_option linter.unusedSectionVars false
set_option linter.unusedTactic false
set_option linter.unreachableTactic false

variable {K : Type} [Field K] [LinearOrder K] [IsStrictOrderedRing K]

theorem get_set (v : V3 K) (i j : Fin 3) (x : K) : (v.set i.val x).get j.val = if j = i then x else v.get j.val := by
  rcases i with ⟨_ | _ | _ | n, hi⟩ <;> rcases j with ⟨_ | _ | _ | m, hj⟩ <;> simp [V3.get, V3.set] <;> omega

theorem get_add_smul (sq : K → K) (o d : V3 K) (t : K) (i : Fin 3) :
    letI := fieldNum K sq
    (o.add (d.smul t)).get i.val = o.get i.val + d.get i.val * t := by
  rcases i with ⟨_ | _ | _ | n, hi⟩ <;> simp [V3.get, V3.add, V3.smul] <;> omega

/-- box membership, axis by axis -/
theorem bmem_iff (b : Aabb3 K) (p : V3 K) :
    BMem b p ↔ ∀ i : Fin 3, b.mins.get i.val ≤ p.get i.val ∧ p.get i.val ≤ b.maxs.get i.val := by
  constructor
  · rintro ⟨h1, h2, h3⟩ i
    rcases i with ⟨_ | _ | _ | n, hi⟩ <;> simp [V3.get] <;> first | exact h1 | exact h2 | exact h3 | omega
  · intro h
    have h0 := h 0; have h1 := h 1; have h2 := h 2
    simp [V3.get] at h0 h1 h2
    exact ⟨h0, h1, h2⟩


section clip
variable (sq : K → K)

/-! ## specification vocabulary and loop lemmas for `clip_aabb_line` -/

/-- a box is valid (non-empty as a point set) -/
def ValidBox (b : Aabb3 K) : Prop := ∀ i : Fin 3, b.mins.get i.val ≤ b.maxs.get i.val

/-- the slab condition of axis `i` for the point `o + t·d` -/
def Slab (b : Aabb3 K) (o d : V3 K) (i : Fin 3) (t : K) : Prop :=
  b.mins.get i.val ≤ o.get i.val + d.get i.val * t ∧ o.get i.val + d.get i.val * t ≤ b.maxs.get i.val

theorem clipUpdate_spec (st : ClipState K) (near far : K) (flip : Bool) (i : Fin 3) :
    letI := fieldNum K sq
    match clipUpdate st near far flip i with
    | some st' => st'.tmin = max st.tmin near ∧ st'.tmax = min st.tmax far ∧ st'.tmin ≤ st'.tmax
    | none => min st.tmax far < max st.tmin near := by
  simp only [clipUpdate]
  split_ifs with h1 h2 h3 h4 h5 h6 h7 h8 h9 h10 h11 h12 <;> simp only [] <;>
    (try push Not at *) <;>
    first
    | (refine ⟨?_, ?_, ?_⟩ <;> (try simp only [max_def, min_def]) <;> (try split_ifs) <;> (try linarith) <;> rfl)
    | (simp only [max_def, min_def]; split_ifs <;> linarith)


/-- for `d ≠ 0` and `mins ≤ maxs` the slab of axis `i` is the interval between the two plane parameters -/
theorem slab_iff (b : Aabb3 K) (o d : V3 K) (i : Fin 3) (t : K) (hd : d.get i.val ≠ 0)
    (hb : b.mins.get i.val ≤ b.maxs.get i.val) :
    Slab b o d i t ↔
      min ((b.mins.get i.val - o.get i.val) * (1 / d.get i.val)) ((b.maxs.get i.val - o.get i.val) * (1 / d.get i.val)) ≤ t ∧
      t ≤ max ((b.mins.get i.val - o.get i.val) * (1 / d.get i.val)) ((b.maxs.get i.val - o.get i.val) * (1 / d.get i.val)) := by
  unfold Slab
  generalize b.mins.get i.val = m at *
  generalize b.maxs.get i.val = M at *
  generalize o.get i.val = x at *
  generalize d.get i.val = e at *
  rcases lt_or_gt_of_ne hd with h | h
  · have hi : 1 / e < 0 := one_div_neg.mpr h
    have e1 : (m - x) * (1 / e) = (m - x) / e := by ring
    have e2 : (M - x) * (1 / e) = (M - x) / e := by ring
    rw [e1, e2]
    have hle : (M - x) / e ≤ (m - x) / e := by
      apply div_le_div_of_nonpos_of_le h.le; linarith
    rw [min_eq_right hle, max_eq_left hle, div_le_iff_of_neg h, le_div_iff_of_neg h]
    constructor <;> rintro ⟨a, c⟩ <;> constructor <;> nlinarith
  · have e1 : (m - x) * (1 / e) = (m - x) / e := by ring
    have e2 : (M - x) * (1 / e) = (M - x) / e := by ring
    rw [e1, e2]
    have hle : (m - x) / e ≤ (M - x) / e := by
      apply div_le_div_of_nonneg_right _ h.le; linarith
    rw [min_eq_left hle, max_eq_right hle, div_le_iff₀ h, le_div_iff₀ h]
    constructor <;> rintro ⟨a, c⟩ <;> constructor <;> nlinarith

/-- one loop iteration narrows the parameter interval by exactly the slab of its axis; `none` ⇔ nothing is left -/
theorem clipStep_spec (b : Aabb3 K) (o d : V3 K) (st : ClipState K) (i : Fin 3) (hb : b.mins.get i.val ≤ b.maxs.get i.val) :
    letI := fieldNum K sq
    match clipStep b o d st i with
    | some st' => (st.tmin ≤ st.tmax → st'.tmin ≤ st'.tmax) ∧
        ∀ t, (st'.tmin ≤ t ∧ t ≤ st'.tmax) ↔ ((st.tmin ≤ t ∧ t ≤ st.tmax) ∧ Slab b o d i t)
    | none => ∀ t, ¬ ((st.tmin ≤ t ∧ t ≤ st.tmax) ∧ Slab b o d i t) := by
  simp only [clipStep]
  by_cases hd : d.get i.val = 0
  · have hz : @neq K (fieldNum K sq) (d.get i.val) 0 = true := by simp [neq, hd]
    rw [if_pos hz]
    split_ifs with h
    · intro t ⟨_, s1, s2⟩
      rw [hd] at s1 s2
      simp only [Bool.or_eq_true, decide_eq_true_eq] at h
      rcases h with h | h <;> linarith
    · refine ⟨id, ?_⟩
      intro t
      simp only [Bool.or_eq_true, decide_eq_true_eq, not_or, not_lt] at h
      unfold Slab; rw [hd]
      constructor
      · intro ht; exact ⟨ht, by linarith [h.1], by linarith [h.2]⟩
      · exact fun ht => ht.1
  · have hz : ¬ (@neq K (fieldNum K sq) (d.get i.val) 0 = true) := by
      simp only [neq, Bool.and_eq_true, decide_eq_true_eq, not_and, not_le]
      intro h1; exact lt_of_le_of_ne h1 hd
    rw [if_neg hz]
    have hs := slab_iff b o d i
    have key := clipUpdate_spec sq st
      (if decide ((b.maxs.get i.val - o.get i.val) * (1 / d.get i.val) < (b.mins.get i.val - o.get i.val) * (1 / d.get i.val)) = true
        then (b.maxs.get i.val - o.get i.val) * (1 / d.get i.val) else (b.mins.get i.val - o.get i.val) * (1 / d.get i.val))
      (if decide ((b.maxs.get i.val - o.get i.val) * (1 / d.get i.val) < (b.mins.get i.val - o.get i.val) * (1 / d.get i.val)) = true
        then (b.mins.get i.val - o.get i.val) * (1 / d.get i.val) else (b.maxs.get i.val - o.get i.val) * (1 / d.get i.val))
      (decide ((b.maxs.get i.val - o.get i.val) * (1 / d.get i.val) < (b.mins.get i.val - o.get i.val) * (1 / d.get i.val))) i
    generalize (b.mins.get i.val - o.get i.val) * (1 / d.get i.val) = n0 at *
    generalize (b.maxs.get i.val - o.get i.val) * (1 / d.get i.val) = f0 at *
    have hnear : (if decide (f0 < n0) = true then f0 else n0) = min n0 f0 := by
      simp only [decide_eq_true_eq]; split_ifs with h
      · exact (min_eq_right h.le).symm
      · exact (min_eq_left (not_lt.mp h)).symm
    have hfar : (if decide (f0 < n0) = true then n0 else f0) = max n0 f0 := by
      simp only [decide_eq_true_eq]; split_ifs with h
      · exact (max_eq_left h.le).symm
      · exact (max_eq_right (not_lt.mp h)).symm
    rw [hnear, hfar] at key ⊢
    revert key
    cases @clipUpdate K (fieldNum K sq) st (min n0 f0) (max n0 f0) (decide (f0 < n0)) i with
    | none =>
      intro key t ⟨⟨a1, a2⟩, hsl⟩
      have := (hs t hd hb).mp hsl
      have h1 : max st.tmin (min n0 f0) ≤ t := max_le a1 this.1
      have h2 : t ≤ min st.tmax (max n0 f0) := le_min a2 this.2
      simp only [] at key
      linarith
    | some st' =>
      intro key
      simp only [] at key
      refine ⟨fun _ => key.2.2, ?_⟩
      intro t
      rw [key.1, key.2.1, hs t hd hb, max_le_iff, le_min_iff]
      tauto


/-- the point `o + t·d` -/
def lineAt (o d : V3 K) (t : K) : V3 K := ⟨o.x + d.x * t, o.y + d.y * t, o.z + d.z * t⟩

theorem lineAt_eq (o d : V3 K) (t : K) : letI := fieldNum K sq; o.add (d.smul t) = lineAt o d t := rfl

theorem bmem_lineAt_iff (b : Aabb3 K) (o d : V3 K) (t : K) :
    BMem b (lineAt o d t) ↔ (Slab b o d 0 t ∧ Slab b o d 1 t ∧ Slab b o d 2 t) := by
  simp [BMem, Slab, lineAt, V3.get]

/-- `f64::MAX` as an element of `K` -/
def big (K : Type) [Field K] : K := ((2 : K) ^ 1024 - (2 : K) ^ 971)

theorem f64Max_eq : @f64Max K (fieldNum K sq) = big K := by
  simp only [f64Max, fieldNum_ofRat, big]
  rw [Rat.mkRat_one]
  push_cast
  rfl

theorem one_le_big : (1 : K) ≤ big K := by
  unfold big
  have h : (2 : K) ^ 1024 = 2 ^ 971 * 2 ^ 53 := by rw [← pow_add]
  rw [h]
  have h1 : (1 : K) ≤ 2 ^ 971 := one_le_pow₀ (by norm_num)
  have h2 : (2 : K) ≤ 2 ^ 53 := by
    calc (2 : K) = 2 ^ 1 := by norm_num
      _ ≤ 2 ^ 53 := pow_le_pow_right₀ (by norm_num) (by norm_num)
  generalize (2 : K) ^ 971 = a at *
  generalize (2 : K) ^ 53 = c at *
  nlinarith [mul_nonneg (sub_nonneg.2 h1) (sub_nonneg.2 h2)]

theorem clipLoop_spec (b : Aabb3 K) (o d : V3 K) (hb : ValidBox b) :
    letI := fieldNum K sq
    match clipLoop b o d with
    | some st => st.tmin ≤ st.tmax ∧
        ∀ t, (st.tmin ≤ t ∧ t ≤ st.tmax) ↔ ((-big K ≤ t ∧ t ≤ big K) ∧ BMem b (lineAt o d t))
    | none => ∀ t, ¬ ((-big K ≤ t ∧ t ≤ big K) ∧ BMem b (lineAt o d t)) := by
  have hbig : (0 : K) ≤ big K := le_trans zero_le_one one_le_big
  simp only [clipLoop, Option.bind_some]
  have s0 := clipStep_spec sq b o d (@clipInit K (fieldNum K sq)) 0 (hb 0)
  have hi1 : (@clipInit K (fieldNum K sq)).tmin = -big K := by simp [clipInit, f64Max_eq]
  have hi2 : (@clipInit K (fieldNum K sq)).tmax = big K := by simp [clipInit, f64Max_eq]
  rw [hi1, hi2] at s0
  revert s0
  cases @clipStep K (fieldNum K sq) b o d (@clipInit K (fieldNum K sq)) 0 with
  | none =>
    intro s0 t ⟨ht, hm⟩
    exact s0 t ⟨ht, ((bmem_lineAt_iff b o d t).mp hm).1⟩
  | some st0 =>
    intro s0
    simp only [Option.bind_some]
    have s1 := clipStep_spec sq b o d st0 1 (hb 1)
    revert s1
    cases @clipStep K (fieldNum K sq) b o d st0 1 with
    | none =>
      intro s1 t ⟨ht, hm⟩
      have hm' := (bmem_lineAt_iff b o d t).mp hm
      exact s1 t ⟨(s0.2 t).mpr ⟨ht, hm'.1⟩, hm'.2.1⟩
    | some st1 =>
      intro s1
      simp only [Option.bind_some]
      have s2 := clipStep_spec sq b o d st1 2 (hb 2)
      revert s2
      cases @clipStep K (fieldNum K sq) b o d st1 2 with
      | none =>
        intro s2 t ⟨ht, hm⟩
        have hm' := (bmem_lineAt_iff b o d t).mp hm
        exact s2 t ⟨(s1.2 t).mpr ⟨(s0.2 t).mpr ⟨ht, hm'.1⟩, hm'.2.1⟩, hm'.2.2⟩
      | some st2 =>
        intro s2
        simp only [] at s2 ⊢
        refine ⟨s2.1 (s1.1 (s0.1 (by linarith))), ?_⟩
        intro t
        rw [s2.2 t, s1.2 t, s0.2 t, bmem_lineAt_iff]
        tauto



end clip

end C17
