import ParryModel.C17.CutLemmas
/-!
# C17 property theorems, part 8 (fu5): `TriMesh::intersection_with_local_plane` never panics, and its adjacency lists are well formed

Model: `Model.Section.localSection` (CutModel.lean). `none` of the model = an `assert!` / `unreachable!()` / out-of-range access of
the Rust routine. The only assertion that is specific to the section routine is `assert!(idx_a <= index_adjacencies.len())` in
`add_segment_adjacencies`: it holds because every triangle creates at most two new polyline vertices and immediately links them,
smallest index first (`add_segment_adjacencies_symmetric`), so `index_adjacencies.len() == new_vertices.len()` after every triangle.
-/
namespace C17
open Model Model.Cut

set_option linter.unusedSectionVars false
set_option linter.unusedTactic false
set_option linter.unreachableTactic false
set_option linter.style.haveILetI false
set_option linter.unusedVariables false

variable {K : Type} [Field K] [LinearOrder K] [IsStrictOrderedRing K] (sq : K → K)

/-- the two look-up tables only hold indices of existing polyline vertices -/
def TablesOK {K : Type} (st : Section.State K) : Prop :=
  (∀ k v, st.found.lookup k = some v → v < st.verts.size) ∧ (∀ k v, st.existing.lookup k = some v → v < st.verts.size)

/-- `st'` is `st` after one `entry(..).or_insert_with(push)`: the adjacency lists are untouched, the returned index `o` is valid,
and if a vertex was created it is the last one and `o` names it -/
def Alloc {K : Type} (st st' : Section.State K) (o : Nat) : Prop :=
  st'.adj = st.adj ∧ TablesOK st' ∧ o < st'.verts.size ∧
  (st'.verts.size = st.verts.size ∨ (st'.verts.size = st.verts.size + 1 ∧ o = st.verts.size))

/-- every adjacency entry names an existing polyline vertex (`< m`) -/
def EntriesLt (adj : Array (List Nat)) (m : Nat) : Prop := ∀ l ∈ adj.toList, ∀ j ∈ l, j < m

/-- invariant of the triangle loop of the section routine -/
structure SInv {K : Type} (st : Section.State K) : Prop where
  size : st.adj.size = st.verts.size
  tables : TablesOK st
  entries : EntriesLt st.adj st.verts.size

private theorem lookup_cons_lt {α} [BEq α] (key : α) (v m : Nat) (T : List (α × Nat))
    (hT : ∀ k w, T.lookup k = some w → w < m) (hv : v < m + 1) :
    ∀ k w, List.lookup k ((key, v) :: T) = some w → w < m + 1 := by
  intro k w h
  simp only [List.lookup_cons] at h
  split at h
  · simp only [Option.some.injEq] at h; omega
  · have := hT k w h; omega

private theorem alloc_existing {K : Type} [Num K] (V0 : Array (V3 K)) (st : Section.State K) (id : Nat) (h : TablesOK st) :
    Alloc st (Section.existingVertex V0 st id).1 (Section.existingVertex V0 st id).2 := by
  cases hl : st.existing.lookup id with
  | some k =>
    have e : Section.existingVertex V0 st id = (st, k) := by simp only [Section.existingVertex, hl]
    rw [e]; exact ⟨rfl, h, h.2 _ _ hl, Or.inl rfl⟩
  | none =>
    have e : Section.existingVertex V0 st id =
        ({ st with verts := st.verts.push (V0.getD id V3.zero), existing := (id, st.verts.size) :: st.existing }, st.verts.size) := by
      simp only [Section.existingVertex, hl]
    rw [e]
    refine ⟨rfl, ⟨?_, ?_⟩, by simp, Or.inr ⟨by simp, rfl⟩⟩
    · intro k v hk
      have := h.1 k v hk
      show v < (st.verts.push _).size
      simp; omega
    · intro k v hk
      show v < (st.verts.push _).size
      rw [Array.size_push]
      exact lookup_cons_lt id st.verts.size st.verts.size st.existing h.2 (by omega) k v hk

private theorem alloc_isect {K : Type} [Num K] (n : V3 K) (bias : K) (V0 : Array (V3 K)) (st : Section.State K) (a b : Nat)
    (h : TablesOK st) :
    Alloc st (Section.intersectEdge n bias V0 st a b).1 (Section.intersectEdge n bias V0 st a b).2 := by
  cases hl : st.found.lookup (sortedPair a b) with
  | some k =>
    have e : Section.intersectEdge n bias V0 st a b = (st, k) := by simp only [Section.intersectEdge, hl]
    rw [e]; exact ⟨rfl, h, h.1 _ _ hl, Or.inl rfl⟩
  | none =>
    have e : Section.intersectEdge n bias V0 st a b =
        ({ st with verts := st.verts.push (crossing n bias (V0.getD a V3.zero) (V0.getD b V3.zero)),
                   found := (sortedPair a b, st.verts.size) :: st.found }, st.verts.size) := by
      simp only [Section.intersectEdge, hl]
    rw [e]
    refine ⟨rfl, ⟨?_, ?_⟩, by simp, Or.inr ⟨by simp, rfl⟩⟩
    · intro k v hk
      show v < (st.verts.push _).size
      rw [Array.size_push]
      exact lookup_cons_lt (sortedPair a b) st.verts.size st.verts.size st.found h.1 (by omega) k v hk
    · intro k v hk
      have := h.2 k v hk
      show v < (st.verts.push _).size
      simp; omega

/-- `add_segment_adjacencies(a, b)` with `a ≤ len`: no assert; the list grows by one exactly when `a = len` -/
private theorem addAdj_ok (adj : Array (List Nat)) (a b m : Nat) (ha : a ≤ adj.size) (hE : EntriesLt adj m) (hb : b < m) :
    ∃ adj', Section.addAdj adj a b = some adj' ∧ adj'.size = max adj.size (a + 1) ∧ EntriesLt adj' m := by
  simp only [Section.addAdj, if_neg (not_lt.mpr ha)]
  by_cases h : a < adj.size
  · simp only [if_pos h]
    refine ⟨_, rfl, by simp; omega, ?_⟩
    intro l hl j hj
    rw [Array.toList_setIfInBounds] at hl
    rcases List.mem_or_eq_of_mem_set hl with hl | rfl
    · exact hE l hl j hj
    · simp only [List.mem_append, List.mem_singleton] at hj
      rcases hj with hj | rfl
      · refine hE (adj.getD a []) ?_ j hj
        rw [Array.getD_eq_getD_getElem?, Array.getElem?_eq_getElem h]
        simp
      · exact hb
  · simp only [if_neg h]
    refine ⟨_, rfl, by simp; omega, ?_⟩
    intro l hl j hj
    simp only [Array.toList_push, List.mem_append, List.mem_singleton] at hl
    rcases hl with hl | rfl
    · exact hE l hl j hj
    · simp only [List.mem_singleton] at hj; subst hj; exact hb

/-- `add_segment_adjacencies_symmetric(o1, o2)` right after the (at most two) vertices `k, k+1` were created: no assert, and the
adjacency list has again one entry per polyline vertex -/
private theorem addAdjSym_ok (adj : Array (List Nat)) (o1 o2 m : Nat) (h1 : o1 < m) (h2 : o2 < m) (hE : EntriesLt adj m)
    (hm : m = adj.size ∨ (m = adj.size + 1 ∧ (o1 = adj.size ∨ o2 = adj.size)) ∨
      (m = adj.size + 2 ∧ ((o1 = adj.size ∧ o2 = adj.size + 1) ∨ (o1 = adj.size + 1 ∧ o2 = adj.size)))) :
    ∃ adj', Section.addAdjSym adj o1 o2 = some adj' ∧ adj'.size = m ∧ EntriesLt adj' m := by
  simp only [Section.addAdjSym]
  by_cases hlt : o1 < o2
  · simp only [if_pos hlt]
    obtain ⟨a1, e1, s1, E1⟩ := addAdj_ok adj o1 o2 m (by omega) hE h2
    obtain ⟨a2, e2, s2, E2⟩ := addAdj_ok a1 o2 o1 m (by omega) E1 h1
    exact ⟨a2, by simp only [e1, Option.bind_some, e2], by omega, E2⟩
  · simp only [if_neg hlt]
    obtain ⟨a1, e1, s1, E1⟩ := addAdj_ok adj o2 o1 m (by omega) hE h1
    obtain ⟨a2, e2, s2, E2⟩ := addAdj_ok a1 o1 o2 m (by omega) E1 h2
    exact ⟨a2, by simp only [e1, Option.bind_some, e2], by omega, E2⟩

/-- two allocations followed by the symmetric link keep the invariant -/
private theorem link_ok {K : Type} (st st1 st2 : Section.State K) (o1 o2 : Nat) (hI : SInv st)
    (A1 : Alloc st st1 o1) (A2 : Alloc st1 st2 o2) (swap : Bool) :
    ∃ st', (Section.addAdjSym st2.adj (if swap then o2 else o1) (if swap then o1 else o2)).map
        (fun adj => ({ st2 with adj := adj } : Section.State K)) = some st' ∧ SInv st' := by
  obtain ⟨a1, t1, l1, g1⟩ := A1
  obtain ⟨a2, t2, l2, g2⟩ := A2
  have hs := hI.size
  have hadj : st2.adj = st.adj := by rw [a2, a1]
  have hE : EntriesLt st2.adj st2.verts.size := by
    rw [hadj]; intro l hl j hj; have := hI.entries l hl j hj; omega
  have hsz : st2.adj.size = st.verts.size := by rw [hadj, hs]
  have ho1 : o1 < st2.verts.size := by omega
  cases swap
  · obtain ⟨adj', e, s, E⟩ := addAdjSym_ok st2.adj o1 o2 st2.verts.size ho1 l2 hE (by omega)
    refine ⟨{ st2 with adj := adj' }, by simp [e], ⟨s, t2, E⟩⟩
  · obtain ⟨adj', e, s, E⟩ := addAdjSym_ok st2.adj o2 o1 st2.verts.size l2 ho1 hE (by omega)
    refine ⟨{ st2 with adj := adj' }, by simp [e], ⟨s, t2, E⟩⟩

private theorem stepTri_ok (n : V3 K) (bias : K) (V0 : Array (V3 K)) (colors : Array Nat) (st : Section.State K) (idx : Tri)
    (hlt : ∀ k, colors.getD (idx.get k) 0 < 3) (hI : SInv st) :
    letI := fieldNum K sq
    ∃ st', Section.stepTri n bias V0 colors st idx = some st' ∧ SInv st' := by
  letI : Num K := fieldNum K sq
  have h0 : colors.getD idx.1 0 < 3 := by simpa [Tri.get] using hlt 0
  have h1 : colors.getD idx.2.1 0 < 3 := by simpa [Tri.get] using hlt 1
  have h2 : colors.getD idx.2.2 0 < 3 := by simpa [Tri.get] using hlt 2
  have hcl := classify_pos (fun i => colors.getD i 0) idx
  have hOK := classify_table ⟨_, h0⟩ ⟨_, h1⟩ ⟨_, h2⟩
  simp only at hOK hcl
  rw [← hcl] at hOK
  generalize Tri.get (colors.getD idx.1 0, colors.getD idx.2.1 0, colors.getD idx.2.2 0) = c at hOK
  simp only [Section.stepTri]
  generalize classify (fun i => colors.getD i 0) idx = r at hOK
  rcases r with ⟨f0, f1⟩
  cases f0 <;> cases f1 <;> simp only [ClassifyOK] at hOK
  · exact ⟨st, rfl, hI⟩
  · exact ⟨st, rfl, hI⟩
  · rename_i iv1 iv2
    have A1 := alloc_existing V0 st (idx.get iv1) hI.tables
    have A2 := alloc_existing V0 (Section.existingVertex V0 st (idx.get iv1)).1 (idx.get iv2) A1.2.1
    exact link_ok st _ _ _ _ hI A1 A2 false
  · rename_i iv ie
    obtain ⟨hiv, hie, hcz, hopp⟩ := hOK
    subst hiv
    simp only [ne_eq, not_true_eq_false, if_false]
    have A1 := alloc_isect n bias V0 st (idx.get ie) (idx.get ((ie + 1) % 3)) hI.tables
    have A2 := alloc_existing V0 (Section.intersectEdge n bias V0 st (idx.get ie) (idx.get ((ie + 1) % 3))).1 (idx.get ((ie + 2) % 3)) A1.2.1
    exact link_ok st _ _ _ _ hI A1 A2 true
  · rename_i ie iv
    obtain ⟨hiv, hie, hcz, hopp⟩ := hOK
    subst hiv
    simp only [ne_eq, not_true_eq_false, if_false]
    have A1 := alloc_isect n bias V0 st (idx.get ie) (idx.get ((ie + 1) % 3)) hI.tables
    have A2 := alloc_existing V0 (Section.intersectEdge n bias V0 st (idx.get ie) (idx.get ((ie + 1) % 3))).1 (idx.get ((ie + 2) % 3)) A1.2.1
    exact link_ok st _ _ _ _ hI A1 A2 true
  · rename_i e1 e2
    dsimp only
    generalize (if e2 ≠ (e1 + 1) % 3 then e1 else e2) = e at hOK
    have A1 := alloc_isect n bias V0 st (idx.get ((e + 2) % 3)) (idx.get e) hI.tables
    have A2 := alloc_isect n bias V0 (Section.intersectEdge n bias V0 st (idx.get ((e + 2) % 3)) (idx.get e)).1 (idx.get e)
      (idx.get ((e + 1) % 3)) A1.2.1
    exact link_ok st _ _ _ _ hI A1 A2 false

private theorem stepLoop_ok (n : V3 K) (bias : K) (V0 : Array (V3 K)) (colors : Array Nat) (tris : List Tri)
    (hlt : ∀ t ∈ tris, ∀ k, colors.getD (t.get k) 0 < 3) :
    letI := fieldNum K sq
    ∀ st : Section.State K, SInv st → ∃ st', Section.stepLoop n bias V0 colors st tris = some st' ∧ SInv st' := by
  letI : Num K := fieldNum K sq
  induction tris with
  | nil => intro st hI; exact ⟨st, rfl, hI⟩
  | cons t rest ih =>
    intro st hI
    obtain ⟨st1, e1, I1⟩ := stepTri_ok sq n bias V0 colors st t (hlt t (by simp)) hI
    obtain ⟨st2, e2, I2⟩ := ih (fun x hx => hlt x (by simp [hx])) st1 I1
    exact ⟨st2, by simp only [Section.stepLoop, e1, e2], I2⟩

/-- result of the triangle loop of the section routine on a valid mesh: it does not panic and its adjacency lists are well formed -/
private theorem section_core (verts : List (V3 K)) (tris : List Tri) (n : V3 K) (bias eps : K)
    (hv : validMesh verts.length tris = true) :
    letI := fieldNum K sq
    ∃ st, Section.stepLoop n bias verts.toArray (verts.map (vertexColour n bias eps)).toArray ⟨#[], [], [], #[]⟩ tris = some st ∧
      SInv st := by
  letI : Num K := fieldNum K sq
  refine stepLoop_ok sq n bias _ _ tris ?_ _ ⟨rfl, ⟨by intro k v h; simp at h, by intro k v h; simp at h⟩, by intro l hl; simp at hl⟩
  intro t ht k
  simp only [validMesh, List.all_eq_true, Bool.and_eq_true, decide_eq_true_eq] at hv
  obtain ⟨⟨a, b⟩, c⟩ := hv t ht
  have hk : t.get k < verts.length := get_lt t _ k ⟨a, b, c⟩
  have : (verts.map (vertexColour n bias eps)).toArray.getD (t.get k) 0 = vertexColour n bias eps (verts.toArray.getD (t.get k) V3.zero) := by
    simp [Array.getD_eq_getD_getElem?, List.getElem?_map, List.getElem?_eq_getElem hk]
  rw [this]; exact vertexColour_lt sq _ _ _ _

/-- **C17 (plane section, totality)**: on a mesh whose triangles index existing vertices (open, closed, non-manifold, degenerate
or repeated triangles) `intersection_with_local_plane` never reaches an `assert!` / `unreachable!()` / out-of-range access, for any
plane and any `eps`: every triangle classifies into a handled feature pair, and `add_segment_adjacencies` is always called with
`idx_a ≤ index_adjacencies.len()`. (Termination of the orientation walk is part of the model: its fuel is the number of adjacency
entries + 1 and the bit-exact leg `tm_section_m` compares the complete segment list.) -/
theorem section_never_panics (verts : List (V3 K)) (tris : List Tri) (n : V3 K) (bias eps : K)
    (hv : validMesh verts.length tris = true) :
    letI := fieldNum K sq
    (Section.localSection verts tris n bias eps).isSome = true := by
  letI : Num K := fieldNum K sq
  obtain ⟨st, e, _⟩ := section_core sq verts tris n bias eps hv
  simp only [Section.localSection, hv, Bool.not_true, Bool.false_eq_true, if_false]
  cases meshVerdict verts n bias eps with
  | negative => rfl
  | positive => rfl
  | pair _ _ => simp only [e]; rfl

end C17
