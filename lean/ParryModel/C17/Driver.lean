import ParryModel.Proto
import ParryModel.C17.Model
import ParryModel.C17.CutModel
import ParryModel.C17.SplitModel
/-! C17 protocol handlers: model evaluation at `Float` and exact-`Rat` oracles on implementation output. -/
namespace C17
open Model Proto

def paabb3 : P (Aabb3 Float) := do let a ← pv3; let b ← pv3; pure ⟨a, b⟩
def faabb3 (b : Aabb3 Float) : String := s!"{fv3 b.mins} {fv3 b.maxs}"
def qaabb3 (b : Aabb3 Float) : Aabb3 Rat := ⟨q3 b.mins, q3 b.maxs⟩
def pov3 : P (V3 Float) := do let a ← pfo; let b ← pfo; let c ← pfo; pure ⟨a, b, c⟩
def poaabb3 : P (Aabb3 Float) := do let a ← pov3; let b ← pov3; pure ⟨a, b⟩
def finiteBox (b : Aabb3 Float) : Bool := finite3 b.mins && finite3 b.maxs
def paxis : P (Fin 3) := do let n ← pnat; if h : n < 3 then pure ⟨n, h⟩ else failure

instance : Inhabited (Aabb3 Rat) := ⟨⟨⟨0, 0, 0⟩, ⟨0, 0, 0⟩⟩⟩
instance : BEq (V3 Rat) := ⟨fun a b => a.x == b.x && a.y == b.y && a.z == b.z⟩
def corners3 (b : Aabb3 Rat) : List (V3 Rat) :=
  [b.mins.x, b.maxs.x].flatMap fun x => [b.mins.y, b.maxs.y].flatMap fun y =>
    [b.mins.z, b.maxs.z].map fun z => ⟨x, y, z⟩
def eqV3 (a b : V3 Rat) : Bool := a.x == b.x && a.y == b.y && a.z == b.z
def eqBox (a b : Aabb3 Rat) : Bool := eqV3 a.mins b.mins && eqV3 a.maxs b.maxs
def volR (b : Aabb3 Rat) : Rat := (b.maxs.x - b.mins.x) * (b.maxs.y - b.mins.y) * (b.maxs.z - b.mins.z)
def validBoxR (b : Aabb3 Rat) : Bool := b.mins.x ≤ b.maxs.x && b.mins.y ≤ b.maxs.y && b.mins.z ≤ b.maxs.z

def fsplitBox : Split (Aabb3 Float) → String
  | .negative => "neg"
  | .positive => "pos"
  | .pair l r => s!"pair {faabb3 l} {faabb3 r}"

/-- oracle for `Aabb::canonical_split`, by the definition of the property on the eight corners:
`pos` ⇒ every corner has `p[axis] ≥ bias - eps`; `neg` ⇒ every corner has `p[axis] ≤ bias + eps` (and `pos` did not apply);
`pair` ⇒ the box has corners strictly beyond both `bias ± eps`, the pieces are the box cut at `bias`
(same extent on the other axes, share the face `p[axis] = bias`), lie in their closed half-spaces and their volumes add up. -/
def aabbSplitOracle (b : Aabb3 Float) (axis : Fin 3) (bias eps : Float) (o : List String) : String :=
  if !(finiteBox b && FloatIO.isFinite bias && FloatIO.isFinite eps) then "skip nonfinite-input" else
  let B := qaabb3 b; let bi := q bias; let e := q eps
  if !validBoxR B then "skip invalid-box" else
  if e < 0 then "skip negative-epsilon" else
  let cs := (corners3 B).map (·.get axis.val)
  -- verdicts within rounding tolerance (the code rounds `bias ± eps`): `…Loose` = holds up to tolerance, `…Strict` = holds with margin
  let allPos := cs.all (fun c => leTol (bi - e) c tolDefault)
  let allNeg := cs.all (fun c => leTol c (bi + e) tolDefault)
  let allPosStrict := cs.all (fun c => !leTol c (bi - e) tolDefault)
  let allNegStrict := cs.all (fun c => !leTol (bi + e) c tolDefault)
  match o with
  | "panic" :: _ => "fail panic"
  | ["pos"] => if allPos then "pass" else "fail positive-but-corner-below-plane"
  | ["neg"] => if !allNeg then "fail negative-but-corner-above-plane"
               else if allPosStrict then "fail negative-but-positive-has-priority" else "pass"
  | "pair" :: rest =>
    match run (do let l ← poaabb3; let r ← poaabb3; pend; pure (l, r)) rest with
    | none => "fail unparsable-output"
    | some (l, r) =>
      if !(finiteBox l && finiteBox r) then "fail nonfinite-output" else
      let L := qaabb3 l; let R := qaabb3 r
      if allPosStrict || allNegStrict then "fail pair-but-box-on-one-side" else
      if !((corners3 L).all fun p => p.get axis.val ≤ bi) then "fail negative-piece-crosses-plane" else
      if !((corners3 R).all fun p => bi ≤ p.get axis.val) then "fail positive-piece-crosses-plane" else
      -- union = box: same cross-section, extents [mins,bias] and [bias,maxs]
      let okOther := (List.range 3).all fun i => i == axis.val ||
        (L.mins.get i == B.mins.get i && R.mins.get i == B.mins.get i && L.maxs.get i == B.maxs.get i && R.maxs.get i == B.maxs.get i)
      if !okOther then "fail pieces-change-cross-section" else
      if !(L.mins.get axis.val == B.mins.get axis.val && R.maxs.get axis.val == B.maxs.get axis.val &&
           L.maxs.get axis.val == bi && R.mins.get axis.val == bi) then "fail pieces-do-not-cover-box" else
      if volR L + volR R != volR B then "fail volumes-do-not-add-up" else "pass"
  | _ => "fail unparsable-output"


/-! ### shared exact helpers -/
def tol : Rat := tolDefault
def nearR (a b : Rat) (scale : Rat := 1) : Bool := rabs (a - b) ≤ tol * (scale + rabs a + rabs b)
def nearV3 (a b : V3 Rat) (scale : Rat := 1) : Bool := nearR a.x b.x scale && nearR a.y b.y scale && nearR a.z b.z scale
def nearV2 (a b : V2 Rat) (scale : Rat := 1) : Bool := nearR a.x b.x scale && nearR a.y b.y scale
def inBoxTol (b : Aabb3 Rat) (p : V3 Rat) : Bool :=
  (List.range 3).all fun i => leTol (b.mins.get i) (p.get i) tol && leTol (p.get i) (b.maxs.get i) tol
def inBoxExact (b : Aabb3 Rat) (p : V3 Rat) : Bool :=
  (List.range 3).all fun i => b.mins.get i ≤ p.get i && p.get i ≤ b.maxs.get i
def maxAbs3 (v : V3 Rat) : Rat := max (rabs v.x) (max (rabs v.y) (rabs v.z))
def boxScale (b : Aabb3 Rat) : Rat := max (maxAbs3 b.mins) (maxAbs3 b.maxs)
def pov2 : P (V2 Float) := do let a ← pfo; let b ← pfo; pure ⟨a, b⟩
def finite2 (v : V2 Float) : Bool := FloatIO.isFinite v.x && FloatIO.isFinite v.y
def fInt (i : Int) : String := toString i
def ppts : P (List (V3 Float)) := plist pv3
def popts : P (List (V3 Float)) := plist pov3
def fpts (l : List (V3 Float)) : String := l.foldl (fun s p => s ++ " " ++ fv3 p) (toString l.length)

/-! ### Segment split -/
def fseg (s : Segment3 Float) : String := s!"{fv3 s.a} {fv3 s.b}"
def fsegSplit (r : Split (Segment3 Float) × Option (V3 Float × Float)) : String :=
  let a := match r.1 with
    | .negative => "neg" | .positive => "pos" | .pair l r => s!"pair {fseg l} {fseg r}"
  let b := match r.2 with
    | none => "none" | some (p, t) => s!"some {fv3 p} {ff t}"
  a ++ " " ++ b

/-- oracle for `Segment::local_split_and_get_intersection`, from the property: with `s(p) = n·p - bias` (exact),
* `neg` ⇒ both end points have `s ≤ eps` (so the whole segment has); `pos` ⇒ both have `s ≥ -eps`;
* both end points strictly on one side ⇒ that verdict (no `pair`);
* end points farther than `eps` from the plane on opposite sides ⇒ `pair`;
* `pair l r` ⇒ the end points are strictly on opposite sides, `l = [x, I]`/`r = [I, y]` share the reported point `I = a + t(b-a)`,
  `0 < t < 1` (hence the two lengths add up to the segment's), `s(I) = 0`, `l` is the piece on the non-positive side. -/
def segSplitOracle (a b n : V3 Float) (bias eps : Float) (o : List String) : String :=
  if !(finite3 a && finite3 b && finite3 n && FloatIO.isFinite bias && FloatIO.isFinite eps) then "skip nonfinite-input" else
  let A := q3 a; let B := q3 b; let N := q3 n; let bi := q bias; let e := q eps
  if e < 0 then "skip negative-epsilon" else
  if !nearR N.normSq 1 then "skip non-unit-normal" else
  let sc := 1 + maxAbs3 A + maxAbs3 B + rabs bi
  let t := tol * sc
  let sa := N.dot A - bi; let sb := N.dot B - bi
  let pfin := do
    let r ← tok
    let res ← (if r = "pair" then do let x ← pov3; let y ← pov3; let z ← pov3; let w ← pov3; pure (some (x, y, z, w)) else pure none)
    let i ← tok
    let inter ← (if i = "some" then do let p ← pov3; let tt ← pfo; pure (some (p, tt)) else pure none)
    pend
    pure (r, res, i, inter)
  match o with
  | "panic" :: _ => "fail panic"
  | _ =>
  match run pfin o with
  | none => "fail unparsable-output"
  | some (r, res, i, inter) =>
    let mustPair := (sa < -e - t && sb > e + t) || (sb < -e - t && sa > e + t)
    if r = "neg" then
      if i != "none" then "fail verdict-without-pair-has-intersection" else
      if mustPair then "fail negative-but-end-points-beyond-epsilon-on-both-sides" else
      if sa > e + t || sb > e + t then s!"fail negative-but-end-point-beyond-epsilon sa={sa} sb={sb} eps={e}" else
      if sa > t && sb > t then "fail negative-but-strictly-positive" else "pass"
    else if r = "pos" then
      if i != "none" then "fail verdict-without-pair-has-intersection" else
      if mustPair then "fail positive-but-end-points-beyond-epsilon-on-both-sides" else
      if sa < -e - t || sb < -e - t then s!"fail positive-but-end-point-beyond-epsilon sa={sa} sb={sb} eps={e}" else
      if sa < -t && sb < -t then "fail positive-but-strictly-negative" else "pass"
    else match res, inter with
      | some (x, y, z, w), some (p, tt) =>
        if !(finite3 x && finite3 y && finite3 z && finite3 w && finite3 p && FloatIO.isFinite tt) then "fail nonfinite-output" else
        let X := q3 x; let Y := q3 y; let Z := q3 z; let W := q3 w; let I := q3 p; let T := q tt
        if (sa > t && sb > t) || (sa < -t && sb < -t) then "fail pair-but-end-points-on-the-same-side" else
        if !(0 < T && T < 1) then "fail intersection-parameter-outside-(0,1)" else
        if !nearV3 I (A.add ((B.sub A).smul T)) sc then "fail intersection-not-at-reported-parameter" else
        if rabs (N.dot I - bi) > t * 1000 then "fail intersection-off-plane" else
        -- first piece = non-positive side
        let aNeg := if rabs sa ≥ rabs sb then decide (sa < 0) else decide (sb > 0)
        let (n0, n1, p0, p1) := if aNeg then (A, I, I, B) else (I, B, A, I)
        if !(eqV3 X n0 && eqV3 Y n1 && eqV3 Z p0 && eqV3 W p1) then "fail pieces-are-not-[a,I],[I,b]-in-side-order" else "pass"
      | _, _ => "fail pair-without-intersection"

/-! ### Aabb difference -/
def pcuts : P (List (Int × Float)) := plist (do let a ← pint; let b ← pfo; pure (a, b))
def fdiff (r : List (Aabb3 Float) × List (Int × Float)) : String :=
  let a := r.1.foldl (fun s b => s ++ " " ++ faabb3 b) (toString r.1.length)
  r.2.foldl (fun s c => s ++ s!" {c.1} {ff c.2}") (a ++ " " ++ toString r.2.length)

def interiorsMeet (a b : Aabb3 Rat) : Bool :=
  (List.range 3).all fun i => max (a.mins.get i) (b.mins.get i) < min (a.maxs.get i) (b.maxs.get i)

/-- arrangement sample values on one axis: all box coordinates and the mid-points between consecutive ones (one point per cell) -/
def cellSamples (vals : List Rat) : List Rat :=
  let s := (vals.toArray.qsort (· < ·)).toList.eraseDups
  s ++ (s.zip (s.drop 1)).map fun (a, b) => (a + b) / 2

/-- oracle for `Aabb::difference_with_cut_sequence` (exact, decides the set identities on the cell arrangement of the two boxes):
every fragment ⊆ self; fragments pairwise interior-disjoint and interior-disjoint from rhs; every arrangement cell of self is in a
fragment or in rhs (so fragments ∪ (self ∩ rhs) = self); volumes add up; replaying the cut sequence on self with exact plane
cuts reproduces the fragments in order. -/
def diffOracle (a rhs : Aabb3 Float) (o : List String) : String :=
  if !(finiteBox a && finiteBox rhs) then "skip nonfinite-input" else
  let A := qaabb3 a; let R := qaabb3 rhs
  if !(validBoxR A && validBoxR R) then "skip invalid-box" else
  match o with
  | "panic" :: _ => "fail panic"
  | _ =>
  match run (do let ps ← plist poaabb3; let cs ← pcuts; pend; pure (ps, cs)) o with
  | none => "fail unparsable-output"
  | some (ps, cs) =>
    if !(ps.all finiteBox) then "fail nonfinite-output" else
    let P := ps.map qaabb3
    if !(P.all validBoxR) then "fail invalid-fragment" else
    if !(P.all fun f => (corners3 f).all (inBoxExact A)) then "fail fragment-not-inside-self" else
    if P.any (fun f => interiorsMeet f R) then "fail fragment-overlaps-rhs" else
    let idx := List.range P.length
    let arr := P.toArray
    if idx.any (fun i => idx.any fun j => i < j && interiorsMeet arr[i]! arr[j]!) then "fail fragments-overlap" else
    let xs := cellSamples [A.mins.x, A.maxs.x, R.mins.x, R.maxs.x]
    let ys := cellSamples [A.mins.y, A.maxs.y, R.mins.y, R.maxs.y]
    let zs := cellSamples [A.mins.z, A.maxs.z, R.mins.z, R.maxs.z]
    let uncovered := xs.any fun x => ys.any fun y => zs.any fun z =>
      let p : V3 Rat := ⟨x, y, z⟩
      inBoxExact A p && !(inBoxExact R p || P.any (fun f => inBoxExact f p))
    if uncovered then "fail self-not-covered-by-fragments-and-rhs" else
    let inter : Rat := (List.range 3).foldl (fun v i =>
      v * max 0 (min (A.maxs.get i) (R.maxs.get i) - max (A.mins.get i) (R.mins.get i))) 1
    if (P.foldl (fun v f => v + volR f) 0) + inter != volR A then "fail volumes-do-not-add-up" else
    -- replay of the cut sequence
    if cs.isEmpty then
      (if P.length == 1 && eqBox (P.head!) A && inter == 0 then "pass"
       else if P.isEmpty && inter == volR A then "pass" else "fail empty-cut-sequence-but-fragments")
    else if cs.length != P.length then "fail cut-count-differs-from-fragment-count" else
    if !(cs.all fun c => FloatIO.isFinite c.2 && (c.1.natAbs ≥ 1 && c.1.natAbs ≤ 3)) then "fail bad-cut" else
    let (_, ok) := (cs.zip P).foldl (fun (st : Aabb3 Rat × Bool) (c, f) =>
      let (rest, ok) := st
      let ax := c.1.natAbs - 1
      let b := q c.2
      -- plane normal sign(c.1)·e_ax, bias b: negative half-space = {sign·p[ax] ≤ b}
      let (negPart, posPart) : Aabb3 Rat × Aabb3 Rat :=
        if c.1 > 0 then (⟨rest.mins, rest.maxs.set ax b⟩, ⟨rest.mins.set ax b, rest.maxs⟩)
        else (⟨rest.mins.set ax (-b), rest.maxs⟩, ⟨rest.mins, rest.maxs.set ax (-b)⟩)
      (posPart, ok && eqBox negPart f && validBoxR negPart && validBoxR posPart)) (A, true)
    if ok then "pass" else "fail cut-sequence-does-not-reproduce-fragments"

/-! ### clip_aabb_line & co -/
/-- exact parameter set `{t | o + t d ∈ box}`: `none` = empty because a zero-direction axis is outside its slab,
`some (lo?, hi?)` = `[lo, hi]` with `none` bounds = unbounded; empty when `lo > hi` -/
def exactLineClip (B : Aabb3 Rat) (O D : V3 Rat) : Option (Option Rat × Option Rat) :=
  (List.range 3).foldl (fun (acc : Option (Option Rat × Option Rat)) i =>
    match acc with
    | none => none
    | some (lo, hi) =>
      let d := D.get i; let o := O.get i
      if d == 0 then (if B.mins.get i ≤ o && o ≤ B.maxs.get i then some (lo, hi) else none)
      else
        let t1 := (B.mins.get i - o) / d; let t2 := (B.maxs.get i - o) / d
        let a := min t1 t2; let b := max t1 t2
        let lo' := match lo with | none => a | some l => max l a
        let hi' := match hi with | none => b | some h => min h b
        some (some lo', some hi')) (some (none, none))

def bigR : Rat := (2 : Rat) ^ 1024 - (2 : Rat) ^ 971

/-- compare a reported interval with the exact one (restricted to `[lo0, hi0]`, e.g. `[0,1]` for a segment, `[0,∞)` for a ray) -/
def intervalVerdict (ex : Option (Option Rat × Option Rat)) (lo0 hi0 : Option Rat) (rep : Option (Rat × Rat)) (what : String) : String :=
  let clampLo (x : Option Rat) : Option Rat := match x, lo0 with
    | none, l => l | some v, none => some v | some v, some l => some (max v l)
  let clampHi (x : Option Rat) : Option Rat := match x, hi0 with
    | none, h => h | some v, none => some v | some v, some h => some (min v h)
  -- exact restricted interval [a, b] (possibly a > b = empty), `none` = hard empty
  let ab : Option (Rat × Rat) := ex.map fun (l, h) => ((clampLo l).getD (-bigR), (clampHi h).getD bigR)
  match ab, rep with
  | none, none => "pass"
  | none, some _ => s!"fail {what}-some-but-empty"
  | some (a, b), none =>
    -- `None` is right when the exact set is empty, tolerated when it is thinner than the rounding tolerance
    if b - a ≤ tol * (1 + rabs a + rabs b) then "pass" else s!"fail {what}-none-but-nonempty [{a},{b}]"
  | some (a, b), some (t0, t1) =>
    -- `Some` is right when the exact set is non-empty, tolerated when it is empty by less than the rounding tolerance
    if a - b > tol * (1 + rabs a + rabs b) then s!"fail {what}-some-but-empty" else
    if t0 > t1 then s!"fail {what}-reversed-interval" else
    if nearR t0 a && nearR t1 b then "pass" else s!"fail {what}-wrong-interval got=[{t0},{t1}] exact=[{a},{b}]"

def pclipLineOut : P (Option ((Float × V3 Float × Int) × (Float × V3 Float × Int))) := do
  let t ← tok
  if t = "none" then do pend; pure none else do
    let t0 ← pfo; let n0 ← pov3; let s0 ← pint; let t1 ← pfo; let n1 ← pov3; let s1 ← pint; pend
    pure (some ((t0, n0, s0), (t1, n1, s1)))

def fclipLine (r : Option ((Float × V3 Float × Int) × (Float × V3 Float × Int))) : String :=
  match r with
  | none => "none"
  | some ((t0, n0, s0), (t1, n1, s1)) => s!"some {ff t0} {fv3 n0} {s0} {ff t1} {fv3 n1} {s1}"

/-- oracle for `clip_aabb_line`: interval = exact `{t | o+t·d ∈ box}` (∩ `[-f64::MAX, f64::MAX]`), `None ⇔` empty; the points at
the two parameters are in the box; the side indices name a face that the point lies on (`k+1` = `mins` face, `-(k+1)` = `maxs` face
of axis `k`); non-diagonal normals are `∓e_k` opposing `dir`; side `0` only when no axis constrains. -/
def clipLineOracle (b : Aabb3 Float) (o d : V3 Float) (out : List String) : String :=
  if !(finiteBox b && finite3 o && finite3 d) then "skip nonfinite-input" else
  let B := qaabb3 b; let O := q3 o; let D := q3 d
  if !validBoxR B then "skip invalid-box" else
  match out with
  | "panic" :: _ => "fail panic"
  | _ =>
  match run pclipLineOut out with
  | none => "fail unparsable-output"
  | some r =>
    let ex := exactLineClip B O D
    let v := intervalVerdict ex (some (-bigR)) (some bigR) (r.map fun c => (q c.1.1, q c.2.1)) "line"
    if v != "pass" then v else
    match r with
    | none => "pass"
    | some ((t0, n0, s0), (t1, n1, s1)) =>
      if !(FloatIO.isFinite t0 && FloatIO.isFinite t1 && finite3 n0 && finite3 n1) then "fail nonfinite-output" else
      let T0 := q t0; let T1 := q t1
      let sc := 1 + boxScale B + maxAbs3 O
      let checkSide (T : Rat) (s : Int) (n : V3 Float) (isNear : Bool) : String :=
        if s == 0 then (if D.x == 0 && D.y == 0 && D.z == 0 then "pass" else "pass") else
        let k := s.natAbs - 1
        if k ≥ 3 then "fail side-index-out-of-range" else
        let pk := O.get k + T * D.get k
        let face := if s > 0 then B.mins.get k else B.maxs.get k
        if !nearR pk face sc then s!"fail side-face-not-hit" else
        let N := q3 n
        if B.mins.get k != B.maxs.get k && N.dot D > tol * (1 + maxAbs3 D) then "fail normal-does-not-oppose-dir" else
        -- a non-diagonal normal is ∓e_k
        let isAxis := (List.range 3).all fun j => if j == k then rabs (N.get j) == 1 else N.get j == 0
        let isDiag := nearR N.normSq 1 && nearR ((N.dot D) * (N.dot D)) (D.normSq) (1 + D.normSq)
        if isAxis || isDiag then (if isNear then "pass" else "pass") else "fail normal-neither-face-normal-nor-minus-dir"
      if rabs T0 < bigR / 2 && !(inBoxTol B (O.add (D.smul T0))) then "fail near-point-outside-box" else
      if rabs T1 < bigR / 2 && !(inBoxTol B (O.add (D.smul T1))) then "fail far-point-outside-box" else
      let c0 := checkSide T0 s0 n0 true
      if c0 != "pass" then c0 else checkSide T1 s1 n1 false

def pparamsOut : P (Option (Float × Float)) := do
  let t ← tok
  if t = "none" then do pend; pure none else do let a ← pfo; let b ← pfo; pend; pure (some (a, b))
def fparams (r : Option (Float × Float)) : String :=
  match r with | none => "none" | some (a, b) => s!"some {ff a} {ff b}"

def paramsOracle (ray : Bool) (b : Aabb3 Float) (o d : V3 Float) (out : List String) : String :=
  if !(finiteBox b && finite3 o && finite3 d) then "skip nonfinite-input" else
  let B := qaabb3 b; let O := q3 o; let D := q3 d
  if !validBoxR B then "skip invalid-box" else
  match out with
  | "panic" :: _ => "fail panic"
  | _ =>
  match run pparamsOut out with
  | none => "fail unparsable-output"
  | some r =>
    if (match r with | some (a, b) => !(FloatIO.isFinite a && FloatIO.isFinite b) | none => false) then "fail nonfinite-output" else
    intervalVerdict (exactLineClip B O D) (some (if ray then 0 else -bigR)) (some bigR) (r.map fun c => (q c.1, q c.2))
      (if ray then "ray" else "line")

/-- oracle for `Aabb::clip_segment`: `None ⇔` `[pa,pb] ∩ box = ∅`; otherwise the two end points are `pa + t·(pb-pa)` at the exact
extreme parameters of the intersection (so: inside the box, on the segment, and nothing of the segment inside the box is cut off). -/
def clipSegOracle (b : Aabb3 Float) (pa pb : V3 Float) (out : List String) : String :=
  if !(finiteBox b && finite3 pa && finite3 pb) then "skip nonfinite-input" else
  let B := qaabb3 b; let A := q3 pa; let Bp := q3 pb
  if !validBoxR B then "skip invalid-box" else
  let D := Bp.sub A
  let ex := exactLineClip B A D
  let exSeg : Option (Rat × Rat) := match ex with
    | none => none
    | some (l, h) =>
      let a := max (l.getD 0) 0; let b := min (h.getD 1) 1
      if a ≤ b then some (a, b) else none
  let sc := 1 + boxScale B + maxAbs3 A + maxAbs3 Bp
  match out with
  | "panic" :: _ => "fail panic"
  | ["none"] =>
    (match exSeg with
     | none => "pass"
     | some (a, b) => if (b - a) * (1 + maxAbs3 D) ≤ tol * sc then "pass" else s!"fail none-but-segment-meets-box t∈[{a},{b}]")
  | "some" :: rest =>
    (match run (do let x ← pov3; let y ← pov3; pend; pure (x, y)) rest with
     | none => "fail unparsable-output"
     | some (x, y) =>
       if !(finite3 x && finite3 y) then "fail nonfinite-output" else
       let X := q3 x; let Y := q3 y
       match exSeg with
       | none =>
         -- tolerated only if the segment misses the box by less than the tolerance
         if inBoxTol B X && inBoxTol B Y then "pass" else "fail some-but-segment-misses-box"
       | some (a, b) =>
         if !(inBoxTol B X && inBoxTol B Y) then "fail end-point-outside-box" else
         if nearV3 X (A.add (D.smul a)) sc && nearV3 Y (A.add (D.smul b)) sc then "pass" else "fail wrong-end-points")
  | _ => "fail unparsable-output"

/-- oracle for the segment constructors `Aabb::clip_line` (`ray = false`) / `Aabb::clip_ray` (`ray = true`): with `[a, b]` the exact
parameter interval of the line (`|t| ≤ f64::MAX`) / ray (`0 ≤ t ≤ f64::MAX`) inside the box, `None ⇔` empty, otherwise the end points
are `o + a·d` and `o + b·d` (inside the box, on the line, nothing cut off). -/
def lineSegOracle (ray : Bool) (b : Aabb3 Float) (o d : V3 Float) (out : List String) : String :=
  if !(finiteBox b && finite3 o && finite3 d) then "skip nonfinite-input" else
  let B := qaabb3 b; let O := q3 o; let D := q3 d
  if !validBoxR B then "skip invalid-box" else
  let lo0 : Rat := if ray then 0 else -bigR
  let exSeg : Option (Rat × Rat) := match exactLineClip B O D with
    | none => none
    | some (l, h) =>
      let a := max (l.getD lo0) lo0; let b := min (h.getD bigR) bigR
      if a ≤ b then some (a, b) else none
  let sc := 1 + boxScale B + maxAbs3 O + maxAbs3 D
  match out with
  | "panic" :: _ => "fail panic"
  | ["none"] =>
    (match exSeg with
     | none => "pass"
     | some (a, b) => if (b - a) * (1 + maxAbs3 D) ≤ tol * sc then "pass" else s!"fail none-but-line-meets-box t∈[{a},{b}]")
  | "some" :: rest =>
    (match run (do let x ← pov3; let y ← pov3; pend; pure (x, y)) rest with
     | none => "fail unparsable-output"
     | some (x, y) =>
       if !(finite3 x && finite3 y) then "fail nonfinite-output" else
       let X := q3 x; let Y := q3 y
       match exSeg with
       | none => if inBoxTol B X && inBoxTol B Y then "pass" else "fail some-but-line-misses-box"
       | some (a, b) =>
         if !(inBoxTol B X && inBoxTol B Y) then "fail end-point-outside-box" else
         if nearV3 X (O.add (D.smul a)) sc && nearV3 Y (O.add (D.smul b)) sc then "pass" else "fail wrong-end-points")
  | _ => "fail unparsable-output"

/-! ### polygon clipping -/
/-- `q` lies on the closed segment `[a,b]` (within tolerance) -/
def onSegment (a b p : V3 Rat) (sc : Rat) : Bool :=
  let d := b.sub a
  let l2 := d.normSq
  if l2 == 0 then nearV3 p a sc else
  let t := (p.sub a).dot d / l2
  let t' := if t < 0 then 0 else if t > 1 then 1 else t
  nearV3 p (a.add (d.smul t')) sc

def cyclicEdges (l : List (V3 Rat)) : List (V3 Rat × V3 Rat) :=
  match l.getLast? with
  | none => []
  | some last => (last :: l).zip l

/-- oracle for `clip_halfspace_polygon` (Sutherland–Hodgman step), with `s(p) = n·(p - c)`:
soundness — every output vertex has `s ≤ 0` and is an input vertex or lies on an input edge (hence in the polygon's hull);
completeness — every input vertex with `s < 0` is output, in cyclic order, and every edge whose end points are strictly on
opposite sides contributes a point with `s = 0`; nothing else is output (`|out| ≤ kept + crossings`). -/
def hsPolyOracle (c n : V3 Float) (poly : List (V3 Float)) (out : List String) : String :=
  if !(finite3 c && finite3 n && poly.all finite3) then "skip nonfinite-input" else
  let C := q3 c; let N := q3 n; let Ps := poly.map q3
  if N.normSq == 0 then "skip zero-normal" else
  let sc := 1 + maxAbs3 C + Ps.foldl (fun m p => max m (maxAbs3 p)) 0
  let s (p : V3 Rat) : Rat := (p.sub C).dot N
  let st := tol * sc * (1 + maxAbs3 N)
  match out with
  | "panic" :: _ => "fail panic"
  | _ =>
  match run (do let l ← popts; pend; pure l) out with
  | none => "fail unparsable-output"
  | some outF =>
    if !(outF.all finite3) then "fail nonfinite-output" else
    let Q := outF.map q3
    let edges := cyclicEdges Ps
    if Q.any (fun p => s p > st * 1000) then "fail output-vertex-outside-half-space" else
    if Q.any (fun p => !(Ps.any (eqV3 p) || edges.any fun (a, b) => onSegment a b p sc)) then "fail output-vertex-not-on-polygon" else
    -- `keep_point` is evaluated in floating point: vertices within the rounding tolerance of the plane may go either way
    let kept := Ps.filter fun p => s p < -st
    let keptLoose := Ps.filter fun p => s p ≤ st
    if kept.any (fun p => !Q.any (eqV3 p)) then "fail kept-vertex-missing" else
    let crossing := edges.filter fun (a, b) => (s a < -st && s b > st) || (s a > st && s b < -st)
    let nearPar := crossing.any fun (a, b) => rabs (N.dot (b.sub a)) ≤ (1 / 1000000000000 : Rat)
    if !nearPar && crossing.any (fun (a, b) => !Q.any fun p => onSegment a b p sc && rabs (s p) ≤ st * 1000) then "fail crossing-point-missing" else
    let allCross := edges.filter fun (a, b) => !((s a < -st && s b < -st) || (s a > st && s b > st))
    if Q.length > keptLoose.length + allCross.length then "fail too-many-output-vertices" else
    -- cyclic order of the kept vertices is preserved (checked when no vertex is within tolerance of the plane)
    let keptOut := Q.filter fun p => kept.any (eqV3 p)
    let rotations := (List.range (max 1 kept.length)).map fun k => kept.drop k ++ kept.take k
    if kept.length == keptLoose.length && kept.eraseDups.length == kept.length && keptOut.length == kept.length &&
       !(rotations.any fun r => (r.zip keptOut).all fun (a, b) => eqV3 a b) then "fail kept-vertices-reordered" else "pass"

/-- `p` in triangle `(a,b,c)` (3-D, within tolerance: barycentric coordinates and distance to the plane) -/
def inTriangle3 (a b c p : V3 Rat) (sc : Rat) : Bool :=
  let v0 := b.sub a; let v1 := c.sub a; let v2 := p.sub a
  let d00 := v0.dot v0; let d01 := v0.dot v1; let d11 := v1.dot v1
  let d20 := v2.dot v0; let d21 := v2.dot v1
  let den := d00 * d11 - d01 * d01
  if den == 0 then onSegment a b p sc || onSegment a c p sc || onSegment b c p sc else
  let v := (d11 * d20 - d01 * d21) / den
  let w := (d00 * d21 - d01 * d20) / den
  let t : Rat := 1 / 1000000
  v ≥ -t && w ≥ -t && v + w ≤ 1 + t && nearV3 p ((a.add (v0.smul v)).add (v1.smul w)) (sc * 1000)

/-- oracle for `Aabb::clip_polygon` on a convex planar polygon: every output vertex is inside the box and inside the polygon
(fan triangles); every input vertex strictly inside the box is kept; if the whole polygon is inside the box it is returned unchanged
(as a cyclic sequence); if an interior sample point of the polygon is strictly inside the box the output is non-empty. -/
def clipPolyOracle (b : Aabb3 Float) (poly : List (V3 Float)) (out : List String) : String :=
  if !(finiteBox b && poly.all finite3) then "skip nonfinite-input" else
  let B := qaabb3 b; let Ps := poly.map q3
  if !validBoxR B then "skip invalid-box" else
  let sc := 1 + boxScale B + Ps.foldl (fun m p => max m (maxAbs3 p)) 0
  match out with
  | "panic" :: _ => "fail panic"
  | _ =>
  match run (do let l ← popts; pend; pure l) out with
  | none => "fail unparsable-output"
  | some outF =>
    if !(outF.all finite3) then "fail nonfinite-output" else
    let Q := outF.map q3
    if Q.any (fun p => !inBoxTol B p) then "fail output-vertex-outside-box" else
    let fan : List (V3 Rat × V3 Rat × V3 Rat) := match Ps with
      | p0 :: rest => (rest.zip (rest.drop 1)).map fun (x, y) => (p0, x, y)
      | [] => []
    let inPoly (p : V3 Rat) : Bool := match Ps with
      | [] => false
      | [a] => nearV3 p a sc
      | [a, b] => onSegment a b p sc
      | _ => fan.any fun (a, b, c) => inTriangle3 a b c p sc
    if Q.any (fun p => !inPoly p) then "fail output-vertex-outside-polygon" else
    let strictlyIn (p : V3 Rat) : Bool := (List.range 3).all fun i => B.mins.get i < p.get i && p.get i < B.maxs.get i
    if (Ps.filter strictlyIn).any (fun p => !Q.any (eqV3 p)) then "fail inside-vertex-dropped" else
    let cent : Option (V3 Rat) := match Ps with
      | [] => none
      | _ => some ((Ps.foldl V3.add ⟨0, 0, 0⟩).smul (1 / (Ps.length : Rat)))
    if (match cent with | some g => strictlyIn g | none => false) && Q.isEmpty then "fail centroid-inside-box-but-empty-output" else
    if Ps.all strictlyIn then
      let rotations := (List.range (max 1 Ps.length)).map fun k => Ps.drop k ++ Ps.take k
      if Q.length == Ps.length && rotations.any (fun r => (r.zip Q).all fun (x, y) => eqV3 x y) then "pass"
      else "fail polygon-inside-box-but-changed"
    else "pass"

/-! ### clip_segment_segment (2-D) -/
structure CP where
  p1 : V2 Float
  p2 : V2 Float
  f1 : Nat
  f2 : Nat
def pcp : P CP := do let a ← pov2; let b ← pov2; let f ← pnat; let g ← pnat; pure ⟨a, b, f, g⟩
def fcp (c : ClipPts Float) : String := s!"{fv2 c.p1} {fv2 c.p2} {c.f1} {c.f2}"
def eqV2 (a b : V2 Rat) : Bool := a.x == b.x && a.y == b.y
def onSegment2 (a b p : V2 Rat) (sc : Rat) : Bool :=
  let d := b.sub a
  let l2 := d.normSq
  if l2 == 0 then nearV2 p a sc else
  let t := (p.sub a).dot d / l2
  let t' := if t < 0 then 0 else if t > 1 then 1 else t
  nearV2 p (a.add (d.smul t')) sc

/-- oracle for `clip_segment_segment` (2-D): with `π(p) = (p - a1)·(b1 - a1)` the projection on `seg1`'s direction,
`None ⇔` the projected ranges `π(seg1) = [0, |t|²]` and `π(seg2)` are disjoint; otherwise for both clipping points `p1 ∈ seg1`,
`p2 ∈ seg2`, `π(p1) = π(p2)`, the first pair sits at the lower end of the overlap and the second at the upper end, and a feature
code `0`/`2` means the point *is* that end point of the (original, unswapped) segment. -/
def segSegOracle (a1 b1 a2 b2 : V2 Float) (out : List String) : String :=
  if !(finite2 a1 && finite2 b1 && finite2 a2 && finite2 b2) then "skip nonfinite-input" else
  let A1 := q2 a1; let B1 := q2 b1; let A2 := q2 a2; let B2 := q2 b2
  let T := B1.sub A1
  let pr (p : V2 Rat) : Rat := (p.sub A1).dot T
  let l1 := T.normSq
  if l1 == 0 then "skip degenerate-seg1" else
  let lo2 := min (pr A2) (pr B2); let hi2 := max (pr A2) (pr B2)
  let sc := 1 + max (max (rabs A1.x) (rabs A1.y)) (max (max (rabs B1.x) (rabs B1.y)) (max (max (rabs A2.x) (rabs A2.y)) (max (rabs B2.x) (rabs B2.y))))
  let pt := tol * sc * sc * 10
  let lo := max 0 lo2; let hi := min l1 hi2
  match out with
  | "panic" :: _ => "fail panic"
  | ["none"] => if hi - lo > pt then "fail none-but-projections-overlap" else "pass"
  | "some" :: rest =>
    (match run (do let x ← pcp; let y ← pcp; pend; pure (x, y)) rest with
     | none => "fail unparsable-output"
     | some (ca, cb) =>
       if lo - hi > pt then "fail some-but-projections-disjoint" else
       if hi2 - lo2 ≤ pt then "skip seg2-projects-to-a-point" else
       if !([ca, cb].all fun c => finite2 c.p1 && finite2 c.p2) then "fail nonfinite-output" else
       let chk (c : CP) (target : Rat) : String :=
         let P1 := q2 c.p1; let P2 := q2 c.p2
         if !onSegment2 A1 B1 P1 sc then "fail p1-not-on-seg1" else
         if !onSegment2 A2 B2 P2 sc then "fail p2-not-on-seg2" else
         if rabs (pr P1 - pr P2) > pt then "fail projections-differ" else
         if rabs (pr P1 - target) > pt then "fail not-at-overlap-end" else
         if c.f1 == 0 && !eqV2 P1 A1 then "fail feature-0-but-not-first-vertex" else
         if c.f1 == 2 && !eqV2 P1 B1 then "fail feature-2-but-not-second-vertex" else
         if c.f2 == 0 && !eqV2 P2 A2 then "fail feature-0-but-not-first-vertex" else
         if c.f2 == 2 && !eqV2 P2 B2 then "fail feature-2-but-not-second-vertex" else
         if c.f1 > 2 || c.f2 > 2 then "fail bad-feature" else "pass"
       let r := chk ca lo
       if r != "pass" then r else chk cb hi)
  | _ => "fail unparsable-output"

/-- oracle for `clip_segment_segment_with_normal` (2-D): with `τ(p) = p·(-n.y, n.x)`: `None ⇔` the `τ`-ranges of the two segments
are disjoint; otherwise `p1 ∈ seg1`, `p2 ∈ seg2`, `τ(p1) = τ(p2)` = lower end of the overlap for the first pair, upper end for the
second; feature codes `0`/`2` name the first/second vertex of the segment. -/
def segSegNormalOracle (a1 b1 a2 b2 n : V2 Float) (out : List String) : String :=
  if !(finite2 a1 && finite2 b1 && finite2 a2 && finite2 b2 && finite2 n) then "skip nonfinite-input" else
  let A1 := q2 a1; let B1 := q2 b1; let A2 := q2 a2; let B2 := q2 b2; let N := q2 n
  let T : V2 Rat := ⟨-N.y, N.x⟩
  let pr (p : V2 Rat) : Rat := p.dot T
  let lo1 := min (pr A1) (pr B1); let hi1 := max (pr A1) (pr B1)
  let lo2 := min (pr A2) (pr B2); let hi2 := max (pr A2) (pr B2)
  let sc := 1 + max (max (rabs A1.x) (rabs A1.y)) (max (max (rabs B1.x) (rabs B1.y)) (max (max (rabs A2.x) (rabs A2.y)) (max (rabs B2.x) (rabs B2.y))))
  let pt := tol * sc * (1 + rabs N.x + rabs N.y) * 10
  let lo := max lo1 lo2; let hi := min hi1 hi2
  match out with
  | "panic" :: _ => "fail panic"
  | ["none"] => if hi - lo > pt then "fail none-but-ranges-overlap" else "pass"
  | "some" :: rest =>
    (match run (do let x ← pcp; let y ← pcp; pend; pure (x, y)) rest with
     | none => "fail unparsable-output"
     | some (ca, cb) =>
       if lo - hi > pt then "fail some-but-ranges-disjoint" else
       if !([ca, cb].all fun c => finite2 c.p1 && finite2 c.p2) then "fail nonfinite-output" else
       -- a segment whose `τ`-extent is within rounding of zero has no well-conditioned interpolation parameter
       if (hi1 - lo1 ≤ pt && hi1 != lo1) || (hi2 - lo2 ≤ pt && hi2 != lo2) then "skip nearly-degenerate-range" else
       let chk (c : CP) (target : Rat) : String :=
         let P1 := q2 c.p1; let P2 := q2 c.p2
         if !onSegment2 A1 B1 P1 sc then "fail p1-not-on-seg1" else
         if !onSegment2 A2 B2 P2 sc then "fail p2-not-on-seg2" else
         if rabs (pr P1 - pr P2) > pt then "fail tangent-coordinates-differ" else
         if rabs (pr P1 - target) > pt then "fail not-at-overlap-end" else
         if c.f1 == 0 && !eqV2 P1 A1 then "fail feature-0-but-not-first-vertex" else
         if c.f1 == 2 && !eqV2 P1 B1 then "fail feature-2-but-not-second-vertex" else
         if c.f2 == 0 && !eqV2 P2 A2 then "fail feature-0-but-not-first-vertex" else
         if c.f2 == 2 && !eqV2 P2 B2 then "fail feature-2-but-not-second-vertex" else
         if c.f1 > 2 || c.f2 > 2 then "fail bad-feature" else "pass"
       let r := chk ca lo
       if r != "pass" then r else chk cb hi)
  | _ => "fail unparsable-output"

/-! ### TriMesh split / plane section (oracle-only: `relations.json` kind none) -/
abbrev Tri := Nat × Nat × Nat
structure MeshF where
  oriented : Bool
  pts : List (V3 Float)
  tris : List Tri
def ptris : P (List Tri) := plist (do let a ← pnat; let b ← pnat; let c ← pnat; pure (a, b, c))
def pmeshIn : P MeshF := do let o ← pbool; let p ← ppts; let t ← ptris; pure ⟨o, p, t⟩
def pmeshOut : P (List (V3 Float) × List Tri) := do let p ← popts; let t ← ptris; pure (p, t)

instance : Inhabited (V3 Rat) := ⟨⟨0, 0, 0⟩⟩

def triPts (P : Array (V3 Rat)) (t : Tri) : V3 Rat × V3 Rat × V3 Rat := (P[t.1]!, P[t.2.1]!, P[t.2.2]!)
/-- triangle area (approximate square root, absolute error 2⁻⁴⁰) -/
def triArea (P : Array (V3 Rat)) (t : Tri) : Rat :=
  let (a, b, c) := triPts P t
  Rat.sqrtApprox (((b.sub a).cross (c.sub a)).normSq) / 2
def signedVol6 (P : Array (V3 Rat)) (tris : List Tri) : Rat :=
  tris.foldl (fun acc t => let (a, b, c) := triPts P t; acc + a.dot (b.cross c)) 0
/-- closed + consistently oriented: every directed edge occurs exactly once and so does its reverse -/
def closedOriented (tris : List Tri) : Bool :=
  let edges := tris.flatMap fun (a, b, c) => [(a, b), (b, c), (c, a)]
  edges.all fun (a, b) => a != b && (edges.filter (· == (a, b))).length == 1 && (edges.filter (· == (b, a))).length == 1
/-- total vector area `Σ (b-a)×(c-a)` (twice the usual one); zero for a closed surface -/
def vecArea (P : Array (V3 Rat)) (tris : List Tri) : V3 Rat :=
  tris.foldl (fun acc t => let (a, b, c) := triPts P t; acc.add ((b.sub a).cross (c.sub a))) ⟨0, 0, 0⟩
def validIdx (n : Nat) (tris : List Tri) : Bool := tris.all fun (a, b, c) => a < n && b < n && c < n

/-- colour of a signed distance: 1 below `-eps`, 2 above `eps`, 0 within; `none` when within the rounding tolerance of `±eps` -/
def colourOf (s e t : Rat) : Option Nat :=
  if rabs (rabs s - e) ≤ t then none else if s < -e then some 1 else if s > e then some 2 else some 0

/-- the vertex colour computed by `local_split` / `intersection_with_local_plane`, bit-exactly:
`dist = pt.coords.dot(axis) - bias; if dist < -eps {1} else if dist > eps {2} else {0}` -/
def colourFloat (n : V3 Float) (bias eps : Float) (p : V3 Float) : Nat :=
  let d := p.x * n.x + p.y * n.y + p.z * n.z - bias
  if d < -eps then 1 else if d > eps then 2 else 0

/-- common part of the split / section oracles: exact signed distances of the input vertices, verdict consistency -/
def verdictCheck (S : List Rat) (e t : Rat) (verdict : String) : String :=
  let anyNeg := S.any (· < -e - t); let anyPos := S.any (· > e + t)
  let noNeg := S.all (· > -e + t); let noPos := S.all (· < e - t)
  if verdict = "neg" then (if anyPos then "fail negative-but-vertex-beyond-epsilon-on-positive-side" else
                           if noNeg then "fail negative-but-no-negative-vertex" else "pass")
  else if verdict = "pos" then (if anyNeg then "fail positive-but-vertex-beyond-epsilon-on-negative-side" else "pass")
  else (if noNeg then "fail split-but-no-negative-vertex" else if noPos then "fail split-but-no-positive-vertex" else "pass")

/-- oracle for `TriMesh::local_split` / `split`. `sd` = exact signed distance to the plane of a (local) point.
`Negative`/`Positive`: as coded, `Positive` when no vertex is below `-eps`, else `Negative` when none is above `eps`.
`Pair(l, r)`: every vertex of `l` has `sd ≤ eps`, of `r` `sd ≥ -eps`; the triangles not lying in the plane conserve area
(`area*(l) + area*(r) = area*(mesh)`); without caps (mesh not flagged oriented) the in-plane triangles conserve area too
(an in-plane face must not be emitted into both halves); for a closed oriented input each half is closed and consistently
oriented with positive volume and `vol(l) + vol(r) = vol(mesh)`. -/
def splitOracle (m : MeshF) (sd : V3 Rat → Rat) (colF : Option (V3 Float → Nat)) (e : Rat) (scale : Rat) (o : List String) : String :=
  let P := (m.pts.map q3).toArray
  if !validIdx P.size m.tris || m.tris.isEmpty then "skip bad-mesh" else
  let t := tol * scale
  let S := P.toList.map sd
  -- a vertex is ambiguous when the colour the code gives it in floating point (replayed bit-exactly when `colF` is given)
  -- is not the one its exact distance has beyond the rounding tolerance
  let ambiguous : Bool := match colF with
    | some cf => (m.pts.zip S).any fun (pf, sx) => let c := cf pf; (c != 0 && rabs sx ≤ e + t) || (c == 0 && rabs sx > e + t)
    | none => S.any fun sx => (colourOf sx e t).isNone
  match o with
  | "panic" :: _ => "fail panic"
  | ["neg"] => verdictCheck S e t "neg"
  | ["pos"] => verdictCheck S e t "pos"
  | "pair" :: rest =>
    (match run (do let l ← pmeshOut; let r ← pmeshOut; pend; pure (l, r)) rest with
     | none => "fail unparsable-output"
     | some ((lp, lt), (rp, rt)) =>
       if !(lp.all finite3 && rp.all finite3) then "fail nonfinite-output" else
       let L := (lp.map q3).toArray; let R := (rp.map q3).toArray
       if !(validIdx L.size lt && validIdx R.size rt) then "fail index-out-of-range" else
       if lt.isEmpty || rt.isEmpty then "fail empty-half" else
       let v := verdictCheck S e t "pair"
       if v != "pass" then v else
       match L.toList.filter (fun p => sd p > e + t) with
       | p :: _ => s!"fail negative-half-vertex-on-positive-side sd={sd p}"
       | [] =>
       match R.toList.filter (fun p => sd p < -e - t) with
       | p :: _ => s!"fail positive-half-vertex-on-negative-side sd={sd p}"
       | [] =>
       -- the rest needs unambiguous colours
       if ambiguous then "pass" else
       let inPlane (A : Array (V3 Rat)) (tr : Tri) : Bool :=
         let (a, b, c) := triPts A tr
         rabs (sd a) ≤ e + t && rabs (sd b) ≤ e + t && rabs (sd c) ≤ e + t
       let areaOf (A : Array (V3 Rat)) (ts : List Tri) : Rat := ts.foldl (fun s tr => s + triArea A tr) 0
       let mOut := areaOf P (m.tris.filter (!inPlane P ·)); let mIn := areaOf P (m.tris.filter (inPlane P ·))
       let lOut := areaOf L (lt.filter (!inPlane L ·)); let lIn := areaOf L (lt.filter (inPlane L ·))
       let rOut := areaOf R (rt.filter (!inPlane R ·)); let rIn := areaOf R (rt.filter (inPlane R ·))
       let atol := (1 / 100000000 : Rat) * (1 + mOut + mIn)
       if rabs (lOut + rOut - mOut) > atol then s!"fail area-not-conserved halves={lOut + rOut} mesh={mOut}" else
       if !m.oriented && rabs (lIn + rIn - mIn) > atol then s!"fail in-plane-area-not-conserved halves={lIn + rIn} mesh={mIn}" else
       if m.oriented && closedOriented m.tris then
         -- a closed surface has zero total vector area (triangulation-independent, tolerant to T-junctions of the cap):
         -- the cap must fill the section loop exactly
         let va := vecArea L lt; let vb := vecArea R rt
         -- vertices within `eps` of the plane are kept as they are, so the caps are planar only up to `eps`
         let vtol := ((1 / 10000000 : Rat) + 8 * e) * (1 + mOut + mIn)
         if maxAbs3 va > vtol then s!"fail negative-half-not-closed vector-area=({va.x},{va.y},{va.z})" else
         if maxAbs3 vb > vtol then s!"fail positive-half-not-closed vector-area=({vb.x},{vb.y},{vb.z})" else
         let vm := signedVol6 P m.tris; let vl := signedVol6 L lt; let vr := signedVol6 R rt
         let vt := ((1 / 10000000 : Rat) + 8 * e) * (1 + rabs vm + mOut + mIn) * (1 + scale)
         if vl ≤ -vt || vr ≤ -vt then "fail half-with-negative-volume" else
         if rabs (vl + vr - vm) > vt then s!"fail volume-not-additive {vl}+{vr} vs {vm}" else "pass"
       else "pass")
  | _ => "fail unparsable-output"

def meshScale (m : MeshF) (bias : Rat) : Rat := 1 + rabs bias + (m.pts.map q3).foldl (fun s p => max s (maxAbs3 p)) 0

/-- oracle for `TriMesh::intersection_with_local_plane`: verdicts as for the split; every polyline vertex lies in the plane
(within `eps`) and on the mesh (a vertex or on an edge); every segment joins two points of one mesh triangle; no segment is
repeated; for a closed input mesh the polyline is closed and consistently oriented at every crossing point (a polyline vertex
inside a mesh edge has exactly one incoming and one outgoing segment);
every mesh edge whose end points are beyond `eps` on opposite sides carries a polyline vertex that is used by a segment. -/
def sectionOracle (m : MeshF) (sd : V3 Rat → Rat) (colF : Option (V3 Float → Nat)) (e : Rat) (scale : Rat) (o : List String) : String :=
  let P := (m.pts.map q3).toArray
  if !validIdx P.size m.tris || m.tris.isEmpty then "skip bad-mesh" else
  let t := tol * scale
  let S := P.toList.map sd
  -- a vertex is ambiguous when the colour the code gives it in floating point (replayed bit-exactly when `colF` is given)
  -- is not the one its exact distance has beyond the rounding tolerance
  let ambiguous : Bool := match colF with
    | some cf => (m.pts.zip S).any fun (pf, sx) => let c := cf pf; (c != 0 && rabs sx ≤ e + t) || (c == 0 && rabs sx > e + t)
    | none => S.any fun sx => (colourOf sx e t).isNone
  match o with
  | "panic" :: _ => "fail panic"
  | ["hang"] => "fail hang-or-unbounded-allocation"
  | ["neg"] => verdictCheck S e t "neg"
  | ["pos"] => verdictCheck S e t "pos"
  | "poly" :: rest =>
    (match run (do let p ← popts; let s ← plist (do let a ← pnat; let b ← pnat; pure (a, b)); pend; pure (p, s)) rest with
     | none => "fail unparsable-output"
     | some (vp, segs) =>
       if !(vp.all finite3) then "fail nonfinite-output" else
       let V := (vp.map q3).toArray
       let v := verdictCheck S e t "pair"
       if v != "pass" then v else
       -- a zero-length segment `[a, a]` is the chord of a degenerate input triangle (repeated vertex index); otherwise an error
       let degTri := m.tris.any fun (a, b, c) => a == b || b == c || c == a
       if segs.any (fun (a, b) => a ≥ V.size || b ≥ V.size || (a == b && !degTri)) then "fail bad-segment-index" else
       if V.toList.any (fun p => rabs (sd p) > e + t * 1000) then "fail polyline-vertex-off-plane" else
       let edges := m.tris.flatMap fun (a, b, c) => [(a, b), (b, c), (c, a)]
       let onMesh (p : V3 Rat) : Bool := edges.any fun (a, b) => onSegment P[a]! P[b]! p scale
       if V.toList.any (fun p => !onMesh p) then "fail polyline-vertex-off-mesh" else
       let inTri (p : V3 Rat) (tr : Tri) : Bool := let (a, b, c) := triPts P tr; inTriangle3 a b c p scale
       if segs.any (fun (a, b) => !m.tris.any fun tr => inTri V[a]! tr && inTri V[b]! tr) then "fail segment-not-on-one-triangle" else
       let und := segs.map fun (a, b) => if a < b then (a, b) else (b, a)
       if und.eraseDups.length != und.length then "fail repeated-segment" else
       -- closedness is required of clean sections: closed manifold input without coincident vertices, and no vertex strictly
       -- inside the `eps` band without being on the plane (the band then has no well-defined section curve)
       let closedIn := closedOriented m.tris && (P.toList.eraseDups.length == P.size) && S.all (fun s => rabs s ≤ t || rabs s > e)
       -- degrees are counted on positions (coincident polyline vertices are one point)
       let rep (k : Nat) : Nat := ((List.range V.size).find? fun j => eqV3 V[j]! V[k]!).getD k
       let deg (k : Nat) : Nat × Nat := ((segs.filter (rep ·.1 == k)).length, (segs.filter (rep ·.2 == k)).length)
       if ambiguous then "pass" else
       -- closed: a polyline point in the interior of a crossed mesh edge (not a mesh vertex) is shared by the two triangles
       -- of that edge, so exactly two segments meet there, one entering and one leaving (consistent orientation).
       -- Mesh vertices on the plane may be pinch points, or ends of an edge where the plane merely touches the mesh.
       let reps := (List.range V.size).filter fun k => rep k == k && !(P.toList.any fun p => eqV3 p V[k]!)
       if closedIn && reps.any (fun k => (deg k).1 + (deg k).2 != 2) then "fail polyline-not-closed" else
       if closedIn && reps.any (fun k => (deg k).1 != (deg k).2) then "fail polyline-not-consistently-oriented" else
       if S.any (fun s => (colourOf s e t).isNone) then "pass" else
       let crossing := edges.filter fun (a, b) => a < b && ((sd P[a]! < -e && sd P[b]! > e) || (sd P[a]! > e && sd P[b]! < -e))
       let used (k : Nat) : Bool := segs.any fun (a, b) => a == k || b == k
       if crossing.any (fun (a, b) => !(List.range V.size).any fun k => used k && onSegment P[a]! P[b]! V[k]! scale && rabs (sd V[k]!) ≤ t * 1000)
       then "fail crossed-edge-without-polyline-vertex" else "pass")
  | _ => "fail unparsable-output"

/-! ### the cutting part of `TriMesh::local_split` (modelled: `Model.Cut.localSplitUncapped`) -/

instance : Inhabited (V3 Float) := ⟨⟨0, 0, 0⟩⟩

def fmeshOut (m : List (V3 Float) × List Tri) : String :=
  m.2.foldl (fun s t => s ++ s!" {t.1} {t.2.1} {t.2.2}") (fpts m.1 ++ s!" {m.2.length}")

def fsectionM : Option (Section.Result Float) → String
  | none => "panic" | some .negative => "neg" | some .positive => "pos"
  | some (.intersect v sg) => sg.foldl (fun s e => s ++ s!" {e.1} {e.2}") (s!"poly {fpts v} {sg.length}")

def fcut : Option (Split (Cut.MeshOut Float)) → String
  | none => "panic"
  | some .negative => "neg"
  | some .positive => "pos"
  | some (.pair l r) => s!"pair {fmeshOut l} {fmeshOut r}"

/-- oracle for the cutting part of `TriMesh::local_split` on a mesh without caps (clause "pieces lie in their own closed
half-space and their total area equals the original's", per triangle). First everything `splitOracle` asks (verdicts, sides, total
area). Then, when the floating-point colours are the exact ones:
* every output vertex is an input vertex (bit-identical) or lies on the plane and on an input edge whose end points are beyond
  `eps` on opposite sides;
* crossing points are shared: each half has exactly (its input vertices) + (number of crossed undirected edges) vertices;
* every output triangle lies in exactly one input triangle (skipped when input faces overlap), has the orientation of that
  triangle, and the vector areas `(b-a)×(c-a)` of the pieces of each input triangle (both halves together) add up to the
  triangle's. -/
def cutOracle (m : MeshF) (sd : V3 Rat → Rat) (colF : V3 Float → Nat) (e : Rat) (scale : Rat) (o : List String) : String :=
  let base := splitOracle { m with oriented := false } sd (some colF) e scale o
  if base != "pass" then base else
  match o with
  | "pair" :: rest =>
    (match run (do let l ← pmeshOut; let r ← pmeshOut; pend; pure (l, r)) rest with
     | none => "fail unparsable-output"
     | some ((lp, lt), (rp, rt)) =>
       let P := (m.pts.map q3).toArray
       let L := (lp.map q3).toArray; let R := (rp.map q3).toArray
       let t := tol * scale
       let S := P.toList.map sd
       let cols := (m.pts.map colF).toArray
       let ambiguous := (cols.toList.zip S).any fun (c, sx) => (c != 0 && rabs sx ≤ e + t) || (c == 0 && rabs sx > e + t)
       if ambiguous then "pass" else
       let und := (m.tris.flatMap fun (a, b, c) => [(a, b), (b, c), (c, a)]).map fun (a, b) => if a < b then (a, b) else (b, a)
       let crossed := und.eraseDups.filter fun (a, b) => (cols[a]! == 1 && cols[b]! == 2) || (cols[a]! == 2 && cols[b]! == 1)
       -- pre-filters in floating point (same numbers): exact equality with an input vertex; bounding box of the edge with a slack
       let slackE : Float := (Float.ofScientific 1 true 4) * (1 + (m.pts.foldl (fun s p => s + p.x.abs + p.y.abs + p.z.abs) 0))
       let isInputF (p : V3 Float) : Bool := m.pts.any fun v => v.x == p.x && v.y == p.y && v.z == p.z
       let PFe := m.pts.toArray
       let nearSeg (a b p : V3 Float) : Bool :=
         (if a.x < b.x then a.x else b.x) - slackE ≤ p.x && p.x ≤ (if a.x < b.x then b.x else a.x) + slackE &&
         (if a.y < b.y then a.y else b.y) - slackE ≤ p.y && p.y ≤ (if a.y < b.y then b.y else a.y) + slackE &&
         (if a.z < b.z then a.z else b.z) - slackE ≤ p.z && p.z ≤ (if a.z < b.z then b.z else a.z) + slackE
       let isCrossing (pf : V3 Float) : Bool := let p := q3 pf
         rabs (sd p) ≤ t * 1000 && crossed.any fun (a, b) => nearSeg PFe[a]! PFe[b]! pf && onSegment P[a]! P[b]! p scale
       if (lp ++ rp).any (fun p => !isInputF p && !isCrossing p) then "fail new-vertex-not-a-plane-crossing-of-a-crossed-edge" else
       let nl := (cols.toList.filter (· != 2)).length + crossed.length
       let nr := (cols.toList.filter (· != 1)).length + crossed.length
       if L.size != nl || R.size != nr then s!"fail crossing-points-not-shared l={L.size}/{nl} r={R.size}/{nr}" else
       let outs : List (V3 Rat × V3 Rat × V3 Rat) := (lt.map (triPts L)) ++ (rt.map (triPts R))
       let ins : List (V3 Rat × V3 Rat × V3 Rat) := m.tris.map (triPts P)
       let nrm (x : V3 Rat × V3 Rat × V3 Rat) : V3 Rat := (x.2.1.sub x.1).cross (x.2.2.sub x.1)
       -- bounding-box pre-filter in floating point (the coordinates are the same numbers; the slack is 100× the tolerance)
       let slackF : Float := (Float.ofScientific 1 true 4) * (1 + (m.pts.foldl (fun s p => s + p.x.abs + p.y.abs + p.z.abs) 0))
       let fmin (a b : Float) : Float := if a < b then a else b
       let fmax (a b : Float) : Float := if a < b then b else a
       let bbF (A : Array (V3 Float)) (tr : Tri) : V3 Float × V3 Float :=
         let a := A[tr.1]!; let b := A[tr.2.1]!; let c := A[tr.2.2]!
         (⟨fmin a.x (fmin b.x c.x), fmin a.y (fmin b.y c.y), fmin a.z (fmin b.z c.z)⟩,
          ⟨fmax a.x (fmax b.x c.x), fmax a.y (fmax b.y c.y), fmax a.z (fmax b.z c.z)⟩)
       let PF := m.pts.toArray; let LF := lp.toArray; let RF := rp.toArray
       let insB : Array ((V3 Rat × V3 Rat × V3 Rat) × (V3 Float × V3 Float)) :=
         ((ins.zip m.tris).map fun (T, tr) => (T, bbF PF tr)).toArray
       let outsB : List ((V3 Rat × V3 Rat × V3 Rat) × (V3 Float × V3 Float)) :=
         ((lt.map fun tr => (triPts L tr, bbF LF tr)) ++ (rt.map fun tr => (triPts R tr, bbF RF tr)))
       let inT (T : V3 Rat × V3 Rat × V3 Rat) (p : V3 Rat) : Bool :=
         eqV3 p T.1 || eqV3 p T.2.1 || eqV3 p T.2.2 || inTriangle3 T.1 T.2.1 T.2.2 p scale
       let inside (TB : (V3 Rat × V3 Rat × V3 Rat) × (V3 Float × V3 Float)) (x : V3 Rat × V3 Rat × V3 Rat) (xb : V3 Float × V3 Float) : Bool :=
         let T := TB.1; let (lo, hi) := TB.2
         lo.x - slackF ≤ xb.1.x && xb.2.x ≤ hi.x + slackF && lo.y - slackF ≤ xb.1.y && xb.2.y ≤ hi.y + slackF &&
         lo.z - slackF ≤ xb.1.z && xb.2.z ≤ hi.z + slackF &&
         inT T x.1 && inT T x.2.1 && inT T x.2.2
       let owners := outsB.map fun (x, xb) => (x, (List.range insB.size).filter fun k => inside insB[k]! x xb)
       if owners.any (fun (_, ks) => ks.isEmpty) then "fail piece-outside-every-input-triangle" else
       if owners.any (fun (x, ks) => ks.length > 1 && maxAbs3 (nrm x) > t) then "pass overlapping-faces" else
       let atol := (1 / 100000000 : Rat) * scale * scale
       let bad := (List.range ins.length).filter fun k =>
         let N := nrm ins[k]!
         let mine := (owners.filter fun (x, ks) => ks == [k] ).map (·.1)
         let sum := mine.foldl (fun acc x => acc.add (nrm x)) (⟨0, 0, 0⟩ : V3 Rat)
         maxAbs3 (sum.sub N) > atol || mine.any fun x => (nrm x).dot N < -atol * (1 + maxAbs3 N)
       match bad with
       | k :: _ => s!"fail triangle-area-not-conserved-by-its-pieces tri={k}"
       | [] => "pass")
  | _ => "pass"

/-! ### intersect_meshes and TriMesh::intersection_with_{local_cuboid, cuboid, aabb} (oracle-only) -/

/-- a closed solid operand: its mesh in local coordinates, its pose, and — when it is not convex — boxes whose union it is -/
structure Solid where
  pose : Iso3 Rat
  pts : Array (V3 Rat)
  tris : List Tri
  parts : List (Aabb3 Rat)
  /-- face planes `(n, n·a, n·n)` with `n = (b-a)×(c-a)` the outward scaled normal -/
  planes : List (V3 Rat × Rat × Rat)

def facePlanes (pts : Array (V3 Rat)) (tris : List Tri) : List (V3 Rat × Rat × Rat) :=
  tris.filter (fun (a, b, c) => a < pts.size && b < pts.size && c < pts.size) |>.map fun t =>
    let (a, b, c) := triPts pts t
    let n := (b.sub a).cross (c.sub a)
    (n, n.dot a, n.normSq)

def psolid : P (Bool × List (V3 Float) × List Tri × List (Aabb3 Float)) := do
  let cc ← pbool; let p ← ppts; let t ← ptris; let parts ← plist paabb3; pure (cc, p, t, parts)

def boxMesh (he : V3 Rat) : Array (V3 Rat) × List Tri :=
  -- corners indexed by bits (x, y, z); faces outward
  let c : List (V3 Rat) := [0, 1, 2, 3, 4, 5, 6, 7].map fun k =>
    ⟨if k % 2 == 0 then -he.x else he.x, if (k / 2) % 2 == 0 then -he.y else he.y, if k / 4 == 0 then -he.z else he.z⟩
  (c.toArray, [(0, 2, 1), (1, 2, 3), (4, 5, 6), (5, 7, 6), (0, 1, 4), (1, 5, 4), (2, 6, 3), (3, 6, 7), (0, 4, 2), (2, 4, 6), (1, 3, 5), (3, 7, 5)])

namespace Solid
def volume6 (s : Solid) : Rat := signedVol6 s.pts s.tris
def world (s : Solid) : List (V3 Rat) := s.pts.toList.map s.pose.act
/-- signed excess of the local point `p` over the face planes, compared with `margin` (a length):
`∀ faces, n·(p - a) ≤ margin·|n|` decided on squares -/
def inFaces (s : Solid) (p : V3 Rat) (margin : Rat) : Bool :=
  let m2 := margin * margin
  s.planes.all fun (n, na, nn) =>
    let d := n.dot p - na
    if margin ≥ 0 then d ≤ 0 || d * d ≤ m2 * nn
    else d < 0 && d * d ≥ m2 * nn
def inPart (b : Aabb3 Rat) (p : V3 Rat) (margin : Rat) : Bool :=
  (List.range 3).all fun i => b.mins.get i - margin ≤ p.get i && p.get i ≤ b.maxs.get i + margin
/-- convex ⇔ every vertex is on the inner side of every face plane -/
def isConvex (s : Solid) : Bool := s.pts.toList.all fun p => s.inFaces p (1 / 1000000000)
/-- the world point `p` is in the solid, enlarged (`margin > 0`) or shrunk (`margin < 0`) by `margin`; `none` = cannot tell -/
def mem (s : Solid) (p : V3 Rat) (margin : Rat) : Bool :=
  let q := s.pose.invAct p
  if s.parts.isEmpty then s.inFaces q margin else s.parts.any fun b => inPart b q margin
/-- all of the given world points are strictly inside one convex piece of `s` (so their hull is) -/
def containsAll (s : Solid) (ps : List (V3 Rat)) (margin : Rat) : Bool :=
  let qs := ps.map s.pose.invAct
  if s.parts.isEmpty then qs.all fun q => s.inFaces q (-margin)
  else s.parts.any fun b => qs.all fun q => inPart b q (-margin)
end Solid

def bbox (ps : List (V3 Rat)) : Aabb3 Rat :=
  match ps with
  | [] => ⟨⟨0, 0, 0⟩, ⟨0, 0, 0⟩⟩
  | p :: rest => rest.foldl (fun b q => ⟨⟨min b.mins.x q.x, min b.mins.y q.y, min b.mins.z q.z⟩, ⟨max b.maxs.x q.x, max b.maxs.y q.y, max b.maxs.z q.z⟩⟩) ⟨p, p⟩
/-- the solid is (in world space) exactly the axis-aligned box of its 8 vertices -/
def isWorldBox (s : Solid) : Bool :=
  let w := s.world
  let b := bbox w
  w.length == 8 && s.tris.length == 12 && w.eraseDups.length == 8 && s.isConvex &&
    w.all fun p => (List.range 3).all fun i => p.get i == b.mins.get i || p.get i == b.maxs.get i

/-- reference value of `vol(A ∩ B)·6` decided from the operands alone: exact (`lo = hi`) when one operand is strictly inside
the other (all its vertices inside one convex piece), when their bounding boxes are disjoint, or when both are axis-aligned
boxes in world space; for two convex operands in general position a rigorous interval: upper bound `min(vol A, vol B)`, lower
bound the total volume of the cells of an 8×8×8 grid whose eight corners are strictly inside both (convexity). -/
def refVolume6 (A B : Solid) (scale : Rat) : Option (Rat × Rat × String) :=
  let m := scale / 1000000
  let wa := A.world; let wb := B.world
  let ba := bbox wa; let bb := bbox wb
  let ov (i : Nat) : Rat := min (ba.maxs.get i) (bb.maxs.get i) - max (ba.mins.get i) (bb.mins.get i)
  if (List.range 3).any (fun i => ov i < -m) then some (0, 0, "disjoint") else
  if B.containsAll wa m then some (A.volume6, A.volume6, "nested") else
  if A.containsAll wb m then some (B.volume6, B.volume6, "nested") else
  if isWorldBox A && isWorldBox B then
    (if (List.range 3).any (fun i => rabs (ov i) ≤ m) then none
     else let v := 6 * ov 0 * ov 1 * ov 2; some (v, v, "box-box"))
  else if A.parts.isEmpty && B.parts.isEmpty && A.isConvex && B.isConvex then
    let lo : V3 Rat := ⟨max ba.mins.x bb.mins.x, max ba.mins.y bb.mins.y, max ba.mins.z bb.mins.z⟩
    let n : Nat := 8
    let step : V3 Rat := ⟨ov 0 / (n : Rat), ov 1 / (n : Rat), ov 2 / (n : Rat)⟩
    let inside : Array Bool := ((List.range ((n + 1) * (n + 1) * (n + 1))).map fun k =>
      let p : V3 Rat := ⟨lo.x + step.x * ((k % (n + 1) : Nat) : Rat), lo.y + step.y * (((k / (n + 1)) % (n + 1) : Nat) : Rat), lo.z + step.z * ((k / ((n + 1) * (n + 1)) : Nat) : Rat)⟩
      A.mem p (-m) && B.mem p (-m)).toArray
    let cells := (List.range (n * n * n)).filter fun c =>
      let (i, j, k) := (c % n, (c / n) % n, c / (n * n))
      [0, 1].all fun di => [0, 1].all fun dj => [0, 1].all fun dk =>
        inside[(i + di) + (n + 1) * ((j + dj) + (n + 1) * (k + dk))]!
    some (6 * step.x * step.y * step.z * (cells.length : Rat), min A.volume6 B.volume6, "convex-pair")
  else none

/-- oracle for `intersect_meshes` / `intersection_with_*cuboid*`: `frame` maps the result's coordinates to world space.
`None` ⇒ the reference volume must allow an empty intersection. `Some(mesh)` ⇒ finite, valid indices, closed and consistently
oriented (every directed edge once, its opposite once), positive volume, every vertex within `1e-6` of both operands, and the
volume equal to the reference (relative `1e-6`) or inside the reference interval. -/
def isectOracle (A B : Solid) (frame : Iso3 Rat) (o : List String) : String :=
  let scale := 1 + (A.world ++ B.world).foldl (fun s p => max s (maxAbs3 p)) 0
  if !(validIdx A.pts.size A.tris && validIdx B.pts.size B.tris) then "skip bad-mesh" else
  if A.volume6 ≤ 0 || B.volume6 ≤ 0 then "skip operand-not-outward-oriented" else
  match refVolume6 A B scale with
  | none => "skip no-reference-volume"
  | some (lo, hi, kind) =>
  let vtol := (1 / 1000000 : Rat) * (hi + 6 / 1000000)
  match o with
  | "panic" :: _ => s!"fail panic[{kind}]"
  | "err" :: e => s!"fail error-{String.intercalate "-" e}[{kind}]"
  | ["none"] => if lo > vtol then s!"fail none-but-intersection-has-volume[{kind}] vol>={lo / 6}" else s!"pass {kind}-empty"
  | "some" :: rest =>
    (match run (do let m ← pmeshOut; pend; pure m) rest with
     | none => "fail unparsable-output"
     | some (vp, ts) =>
       if !(vp.all finite3) then "fail nonfinite-output" else
       let V := (vp.map q3).toArray
       if !validIdx V.size ts then "fail index-out-of-range" else
       if ts.isEmpty then "fail empty-mesh" else
       if hi ≤ vtol && kind == "disjoint" then s!"fail some-but-operands-disjoint[{kind}]" else
       if !closedOriented ts then
         -- a hole is a *sliver* when two end points of its unmatched edges (nearly) coincide and the missing area is
         -- negligible: the tolerance-driven deletion of near-degenerate sub-triangles (KNOWN_FINDINGS); any other hole is not
         let edges := ts.flatMap fun (a, b, c) => [(a, b), (b, c), (c, a)]
         let bad := edges.filter fun (a, b) => (edges.filter (· == (a, b))).length != 1 || (edges.filter (· == (b, a))).length != 1
         let U := (bad.flatMap fun (a, b) => [a, b]).eraseDups
         let bb := bbox V.toList
         let d2 := (bb.maxs.sub bb.mins).normSq
         let close := U.any fun i => U.any fun j => i < j && (V[i]!.sub V[j]!).normSq * 1000000 ≤ d2
         let va := vecArea V ts
         if close && bad.length ≤ 24 && maxAbs3 va * 2000 ≤ d2 then s!"fail result-not-closed-oriented[sliver-hole] [{kind}]"
         else s!"fail result-not-closed-oriented[{kind}]" else
       let v6 := signedVol6 V ts
       if v6 ≤ 0 then s!"fail result-volume-not-positive[{kind}]" else
       let W := V.toList.map frame.act
       let m := scale / 1000000
       match W.filter (fun p => !A.mem p m) with
       | p :: _ => s!"fail vertex-outside-first-operand[{kind}] ({p.x},{p.y},{p.z})"
       | [] =>
       match W.filter (fun p => !B.mem p m) with
       | p :: _ => s!"fail vertex-outside-second-operand[{kind}] ({p.x},{p.y},{p.z})"
       | [] =>
       if v6 < lo - vtol || v6 > hi + vtol then s!"fail wrong-volume[{kind}] got={v6 / 6} expected∈[{lo / 6},{hi / 6}]" else s!"pass {kind}")
  | _ => "fail unparsable-output"

def mkSolid (x : Bool × List (V3 Float) × List Tri × List (Aabb3 Float)) (pose : Iso3 Float) : Solid :=
  let pts := (x.2.1.map q3).toArray
  ⟨qiso3 pose, pts, x.2.2.1, x.2.2.2.map qaabb3, facePlanes pts x.2.2.1⟩
def unitQ (m : Iso3 Float) : Bool :=
  let M := qiso3 m; nearR (M.qi * M.qi + M.qj * M.qj + M.qk * M.qk + M.qw * M.qw) 1


/-! ### world-space / canonical-axis wrappers -/

def fsegSplit1 : Split (Segment3 Float) → String
  | .negative => "neg" | .positive => "pos" | .pair l r => s!"pair {fseg l} {fseg r}"

/-- oracle for `Segment::canonical_split(axis, bias, eps)`, from the property with the exact `s(p) = p[axis] - bias`
(computed without any normal vector): `neg` ⇒ both end points have `s ≤ eps` and are not both strictly positive; `pos` ⇒ both have
`s ≥ -eps` and are not both strictly negative; end points farther than `eps` on opposite sides ⇒ `pair`; `pair l r` ⇒ the end points
are not on the same side, `l`/`r` are `[a, I]`, `[I, b]` in side order (first = non-positive side) sharing one point `I` that lies on
the plane and strictly between `a` and `b` on the segment (so the lengths add up). -/
def segCanonOracle (a b : V3 Float) (axis : Fin 3) (bias eps : Float) (o : List String) : String :=
  if !(finite3 a && finite3 b && FloatIO.isFinite bias && FloatIO.isFinite eps) then "skip nonfinite-input" else
  let A := q3 a; let B := q3 b; let bi := q bias; let e := q eps
  if e < 0 then "skip negative-epsilon" else
  let sc := 1 + maxAbs3 A + maxAbs3 B + rabs bi
  let t := tol * sc
  let sa := A.get axis.val - bi; let sb := B.get axis.val - bi
  let mustPair := (sa < -e - t && sb > e + t) || (sb < -e - t && sa > e + t)
  match o with
  | "panic" :: _ => "fail panic"
  | ["neg"] =>
    if mustPair then "fail negative-but-end-points-beyond-epsilon-on-both-sides" else
    if sa > e + t || sb > e + t then s!"fail negative-but-end-point-beyond-epsilon sa={sa} sb={sb} eps={e}" else
    if sa > t && sb > t then "fail negative-but-strictly-positive" else "pass"
  | ["pos"] =>
    if mustPair then "fail positive-but-end-points-beyond-epsilon-on-both-sides" else
    if sa < -e - t || sb < -e - t then s!"fail positive-but-end-point-beyond-epsilon sa={sa} sb={sb} eps={e}" else
    if sa < -t && sb < -t then "fail positive-but-strictly-negative" else "pass"
  | "pair" :: rest =>
    (match run (do let x ← pov3; let y ← pov3; let z ← pov3; let w ← pov3; pend; pure (x, y, z, w)) rest with
     | none => "fail unparsable-output"
     | some (x, y, z, w) =>
       if !(finite3 x && finite3 y && finite3 z && finite3 w) then "fail nonfinite-output" else
       let X := q3 x; let Y := q3 y; let Z := q3 z; let W := q3 w
       if (sa > t && sb > t) || (sa < -t && sb < -t) then "fail pair-but-end-points-on-the-same-side" else
       let aNeg := if rabs sa ≥ rabs sb then decide (sa < 0) else decide (sb > 0)
       let I := if aNeg then Y else X
       let okShape := if aNeg then eqV3 X A && eqV3 Z I && eqV3 W B else eqV3 Y B && eqV3 Z A && eqV3 W I
       if !okShape then "fail pieces-are-not-[a,I],[I,b]-in-side-order" else
       if rabs (I.get axis.val - bi) > t * 1000 then "fail intersection-off-plane" else
       let D := B.sub A
       if D.normSq == 0 then "fail pair-of-a-degenerate-segment" else
       let T := (I.sub A).dot D / D.normSq
       if !(0 < T && T < 1) then "fail intersection-parameter-outside-(0,1)" else
       if !nearV3 I (A.add (D.smul T)) sc then "fail intersection-not-on-segment" else "pass")
  | _ => "fail unparsable-output"

/-- is `(la, lb)` the plane `{x | n·x = bias}` seen from the local frame of `M`? Judged by the definition, in exact arithmetic:
the signed distances `la·p - lb` and `n·(M p) - bias` agree at the origin, the three basis points and every given point. -/
def samePlane (M : Iso3 Rat) (N : V3 Rat) (bi : Rat) (LA : V3 Rat) (LB : Rat) (pts : List (V3 Rat)) (scale : Rat) : Bool :=
  let probes : List (V3 Rat) := [⟨0, 0, 0⟩, ⟨1, 0, 0⟩, ⟨0, 1, 0⟩, ⟨0, 0, 1⟩] ++ pts
  probes.all fun p => rabs ((LA.dot p - LB) - (N.dot (M.act p) - bi)) ≤ tol * (scale + maxAbs3 p)

def planeVerdict (o : List String) : String :=
  match o with
  | "panic" :: _ => "fail panic"
  | ["hang"] => "fail hang-or-unbounded-allocation"
  | ["split:same", "section:same"] => "pass"
  | [a, b] => if (a == "split:same" || a == "split:diff") && (b == "section:same" || b == "section:diff")
              then s!"fail wrapper-differs-from-local-function-on-the-transformed-plane {a} {b}" else "fail unparsable-output"
  | _ => "fail unparsable-output"

def fverdict : Split Unit → String
  | .negative => "neg" | .positive => "pos" | .pair _ _ => "cut"

/-- oracle for the `Negative` / `Positive` / cut decision of a mesh cut (both the split and the section routine), from the exact
signed distances `S` of the (placed) vertices: `neg` ⇒ no vertex beyond `eps` on the positive side and some vertex on the negative
side; `pos` ⇒ no vertex beyond `eps` on the negative side; cut ⇒ vertices on both sides (all within the rounding tolerance). -/
def verdictOracle (S : List Rat) (e t : Rat) (o : List String) : String :=
  match o with
  | "panic" :: _ => "fail panic"
  | ["hang"] => "fail hang-or-unbounded-allocation"
  | [k1, k2] =>
    let one (k : String) : String :=
      if k == "neg" || k == "pos" then verdictCheck S e t k else if k == "cut" then verdictCheck S e t "pair" else "fail unparsable-output"
    let r := one k1
    if r != "pass" then r else one k2
  | _ => "fail unparsable-output"

/-! ### `Aabb::split_at_center` (fu5) -/
def fboxes (l : List (Aabb3 Float)) : String := l.foldl (fun s b => s ++ " " ++ faabb3 b) (toString l.length)
def intDisjR (a b : Aabb3 Rat) : Bool :=
  a.maxs.x ≤ b.mins.x || b.maxs.x ≤ a.mins.x || a.maxs.y ≤ b.mins.y || b.maxs.y ≤ a.mins.y || a.maxs.z ≤ b.mins.z || b.maxs.z ≤ a.mins.z
def insideR (a b : Aabb3 Rat) : Bool :=
  b.mins.x ≤ a.mins.x && a.maxs.x ≤ b.maxs.x && b.mins.y ≤ a.mins.y && a.maxs.y ≤ b.maxs.y && b.mins.z ≤ a.mins.z && a.maxs.z ≤ b.maxs.z
def ptInR (b : Aabb3 Rat) (p : V3 Rat) : Bool :=
  b.mins.x ≤ p.x && p.x ≤ b.maxs.x && b.mins.y ≤ p.y && p.y ≤ b.maxs.y && b.mins.z ≤ p.z && p.z ≤ b.maxs.z
def pairsAll {α} (p : α → α → Bool) : List α → Bool
  | [] => true
  | x :: r => r.all (p x) && pairsAll p r
def halfOf (lo hi plo phi : Rat) : Bool := nearR ((hi - lo) / 2) (phi - plo) (1 + rabs lo + rabs hi)

/-- oracle for `Aabb::split_at_center` (3-D), from the definition of an octree split: eight valid boxes inside the input, pairwise
interior-disjoint, whose volumes add up *exactly* to the input's (so they cover it), every corner and the exact centre of the input
in some piece, and every piece has half the extent of the input on every axis (tolerance for the one rounding of the centre). -/
def splitCenterOracle (b : Aabb3 Float) (o : List String) : String :=
  if !finiteBox b then "skip nonfinite-input" else
  let B := qaabb3 b
  if !validBoxR B then "skip invalid-box" else
  match o with
  | "panic" :: _ => "fail panic"
  | _ =>
  match run (do let l ← plist poaabb3; pend; pure l) o with
  | none => "fail unparsable-output"
  | some l =>
    if l.length != 8 then "fail not-eight-pieces" else
    if !(l.all finiteBox) then "fail nonfinite-output" else
    let L := l.map qaabb3
    if !(L.all validBoxR) then "fail invalid-piece" else
    if !(L.all (insideR · B)) then "fail piece-outside-box" else
    if !(pairsAll intDisjR L) then "fail pieces-overlap" else
    if (L.map volR).sum != volR B then "fail volumes-do-not-add-up" else
    let ctr : V3 Rat := ⟨(B.mins.x + B.maxs.x) / 2, (B.mins.y + B.maxs.y) / 2, (B.mins.z + B.maxs.z) / 2⟩
    if !((corners3 B).all fun c => L.any fun p => ptInR p c) then "fail corner-not-covered" else
    if !(L.all fun p => halfOf B.mins.x B.maxs.x p.mins.x p.maxs.x && halfOf B.mins.y B.maxs.y p.mins.y p.maxs.y &&
          halfOf B.mins.z B.maxs.z p.mins.z p.maxs.z) then "fail not-split-at-the-centre" else
    let _ := ctr
    "pass"

def paabb2' : P (Aabb2 Float) := do let a ← pv2; let b ← pv2; pure ⟨a, b⟩
def poaabb2' : P (Aabb2 Float) := do let a ← pov2; let b ← pov2; pure ⟨a, b⟩
def faabb2' (b : Aabb2 Float) : String := s!"{fv2 b.mins} {fv2 b.maxs}"
def fboxes2 (l : List (Aabb2 Float)) : String := l.foldl (fun s b => s ++ " " ++ faabb2' b) (toString l.length)
def finite2' (v : V2 Float) : Bool := FloatIO.isFinite v.x && FloatIO.isFinite v.y

/-- oracle for `Aabb::split_at_center` (2-D): four valid boxes inside the input, pairwise interior-disjoint, areas adding up exactly,
corners covered, half extents. -/
def splitCenter2Oracle (b : Aabb2 Float) (o : List String) : String :=
  if !(finite2' b.mins && finite2' b.maxs) then "skip nonfinite-input" else
  let B : Aabb2 Rat := ⟨q2 b.mins, q2 b.maxs⟩
  if !(B.mins.x ≤ B.maxs.x && B.mins.y ≤ B.maxs.y) then "skip invalid-box" else
  match o with
  | "panic" :: _ => "fail panic"
  | _ =>
  match run (do let l ← plist poaabb2'; pend; pure l) o with
  | none => "fail unparsable-output"
  | some l =>
    if l.length != 4 then "fail not-four-pieces" else
    if !(l.all fun p => finite2' p.mins && finite2' p.maxs) then "fail nonfinite-output" else
    let L : List (Aabb2 Rat) := l.map fun p => ⟨q2 p.mins, q2 p.maxs⟩
    let area (p : Aabb2 Rat) : Rat := (p.maxs.x - p.mins.x) * (p.maxs.y - p.mins.y)
    if !(L.all fun p => p.mins.x ≤ p.maxs.x && p.mins.y ≤ p.maxs.y) then "fail invalid-piece" else
    if !(L.all fun p => B.mins.x ≤ p.mins.x && p.maxs.x ≤ B.maxs.x && B.mins.y ≤ p.mins.y && p.maxs.y ≤ B.maxs.y) then "fail piece-outside-box" else
    if !(pairsAll (fun (a c : Aabb2 Rat) => a.maxs.x ≤ c.mins.x || c.maxs.x ≤ a.mins.x || a.maxs.y ≤ c.mins.y || c.maxs.y ≤ a.mins.y) L)
      then "fail pieces-overlap" else
    if (L.map area).sum != area B then "fail areas-do-not-add-up" else
    let cs : List (V2 Rat) := [⟨B.mins.x, B.mins.y⟩, ⟨B.maxs.x, B.mins.y⟩, ⟨B.mins.x, B.maxs.y⟩, ⟨B.maxs.x, B.maxs.y⟩]
    if !(cs.all fun c => L.any fun p => p.mins.x ≤ c.x && c.x ≤ p.maxs.x && p.mins.y ≤ c.y && c.y ≤ p.maxs.y) then "fail corner-not-covered" else
    if !(L.all fun p => halfOf B.mins.x B.maxs.x p.mins.x p.maxs.x && halfOf B.mins.y B.maxs.y p.mins.y p.maxs.y)
      then "fail not-split-at-the-centre" else "pass"

/-! ### frame glue of the mesh ∩ box wrappers (fu5) -/
def fiso3' (m : Iso3 Float) : String := s!"{ff m.qi} {ff m.qj} {ff m.qk} {ff m.qw} {fv3 m.t}"
def frameVerdict (o : List String) : String :=
  match o with
  | "panic" :: _ => "fail panic"
  | ["same"] => "pass"
  | ["diff"] => "fail wrapper-differs-from-inner-function-on-the-transferred-frame"
  | _ => "fail unparsable-output"
def boxCorners (he : V3 Rat) : List (V3 Rat) :=
  [0, 1, 2, 3, 4, 5, 6, 7].map fun k =>
    ⟨if k % 2 == 0 then -he.x else he.x, if (k / 2) % 2 == 0 then -he.y else he.y, if k / 4 == 0 then -he.z else he.z⟩

def handler (fn : String) : Option Handler :=
  match fn with
  | "aabb_split" => some {
      model := fun a => run (do let b ← paabb3; let ax ← pnat; let bias ← pf; let eps ← pf
                                if h : ax < 3 then pure (fsplitBox (b.canonicalSplit ⟨ax, h⟩ bias eps)) else pure "panic") a
      oracle := fun a o => match run (do let b ← paabb3; let ax ← paxis; let bias ← pf; let eps ← pf; pure (b, ax, bias, eps)) a with
        | some (b, ax, bias, eps) => aabbSplitOracle b ax bias eps o
        | none => "skip bad-args" }
  | "seg_split" => some {
      model := fun a => run (do let p ← pv3; let p' ← pv3; let n ← pv3; let bias ← pf; let eps ← pf
                                pure (fsegSplit ((Segment3.mk p p').localSplit n bias eps))) a
      oracle := fun a o => match run (do let p ← pv3; let p' ← pv3; let n ← pv3; let bias ← pf; let eps ← pf; pure (p, p', n, bias, eps)) a with
        | some (p, p', n, bias, eps) => segSplitOracle p p' n bias eps o
        | none => "skip bad-args" }
  | "aabb_diff" => some {
      model := fun a => run (do let x ← paabb3; let y ← paabb3; pure (fdiff (x.differenceWithCutSequence y))) a
      oracle := fun a o => match run (do let x ← paabb3; let y ← paabb3; pure (x, y)) a with
        | some (x, y) => diffOracle x y o
        | none => "skip bad-args" }
  | "clip_line" => some {
      model := fun a => run (do let b ← paabb3; let o ← pv3; let d ← pv3; pure (fclipLine (clipAabbLineC b o d))) a
      oracle := fun a o => match run (do let b ← paabb3; let p ← pv3; let d ← pv3; pure (b, p, d)) a with
        | some (b, p, d) => clipLineOracle b p d o
        | none => "skip bad-args" }
  | "clip_line_params" => some {
      model := fun a => run (do let b ← paabb3; let o ← pv3; let d ← pv3; pure (fparams (clipLineParameters b o d))) a
      oracle := fun a o => match run (do let b ← paabb3; let p ← pv3; let d ← pv3; pure (b, p, d)) a with
        | some (b, p, d) => paramsOracle false b p d o
        | none => "skip bad-args" }
  | "clip_ray_params" => some {
      model := fun a => run (do let b ← paabb3; let o ← pv3; let d ← pv3; pure (fparams (clipRayParameters b o d))) a
      oracle := fun a o => match run (do let b ← paabb3; let p ← pv3; let d ← pv3; pure (b, p, d)) a with
        | some (b, p, d) => paramsOracle true b p d o
        | none => "skip bad-args" }
  | "clip_line_seg" => some {
      model := fun a => run (do let b ← paabb3; let o ← pv3; let d ← pv3
                                pure (match clipLine b o d with | none => "none" | some s => "some " ++ fseg s)) a
      oracle := fun a o => match run (do let b ← paabb3; let p ← pv3; let d ← pv3; pure (b, p, d)) a with
        | some (b, p, d) => lineSegOracle false b p d o
        | none => "skip bad-args" }
  | "clip_ray_seg" => some {
      model := fun a => run (do let b ← paabb3; let o ← pv3; let d ← pv3
                                pure (match clipRay b o d with | none => "none" | some s => "some " ++ fseg s)) a
      oracle := fun a o => match run (do let b ← paabb3; let p ← pv3; let d ← pv3; pure (b, p, d)) a with
        | some (b, p, d) => lineSegOracle true b p d o
        | none => "skip bad-args" }
  | "clip_seg" => some {
      model := fun a => run (do let b ← paabb3; let p ← pv3; let p' ← pv3
                                pure (match clipSegment b p p' with | none => "none" | some s => "some " ++ fseg s)) a
      oracle := fun a o => match run (do let b ← paabb3; let p ← pv3; let p' ← pv3; pure (b, p, p')) a with
        | some (b, p, p') => clipSegOracle b p p' o
        | none => "skip bad-args" }
  | "clip_hs_poly" => some {
      model := fun a => run (do let c ← pv3; let n ← pv3; let l ← ppts; pure (fpts (clipHalfspacePolygon c n l))) a
      oracle := fun a o => match run (do let c ← pv3; let n ← pv3; let l ← ppts; pure (c, n, l)) a with
        | some (c, n, l) => hsPolyOracle c n l o
        | none => "skip bad-args" }
  | "clip_poly" => some {
      model := fun a => run (do let b ← paabb3; let l ← ppts; pure (fpts (b.clipPolygon l))) a
      oracle := fun a o => match run (do let b ← paabb3; let l ← ppts; pure (b, l)) a with
        | some (b, l) => clipPolyOracle b l o
        | none => "skip bad-args" }
  | "clip_seg_seg" => some {
      model := fun a => run (do let a1 ← pv2; let b1 ← pv2; let a2 ← pv2; let b2 ← pv2
                                pure (match clipSegmentSegment a1 b1 a2 b2 with
                                  | none => "none" | some (ca, cb) => s!"some {fcp ca} {fcp cb}")) a
      oracle := fun a o => match run (do let a1 ← pv2; let b1 ← pv2; let a2 ← pv2; let b2 ← pv2; pure (a1, b1, a2, b2)) a with
        | some (a1, b1, a2, b2) => segSegOracle a1 b1 a2 b2 o
        | none => "skip bad-args" }
  | "clip_seg_seg_n" => some {
      model := fun a => run (do let a1 ← pv2; let b1 ← pv2; let a2 ← pv2; let b2 ← pv2; let n ← pv2
                                pure (match clipSegmentSegmentWithNormal a1 b1 a2 b2 n with
                                  | none => "none" | some (ca, cb) => s!"some {fcp ca} {fcp cb}")) a
      oracle := fun a o => match run (do let a1 ← pv2; let b1 ← pv2; let a2 ← pv2; let b2 ← pv2; let n ← pv2; pure (a1, b1, a2, b2, n)) a with
        | some (a1, b1, a2, b2, n) => segSegNormalOracle a1 b1 a2 b2 n o
        | none => "skip bad-args" }
  | "tm_section_m" => some {
      model := fun a => run (do let m ← pmeshIn; let n ← pv3; let bias ← pf; let eps ← pf; pend
                                pure (fsectionM (Section.localSection m.pts m.tris n bias eps))) a
      oracle := fun a o => match run (do let m ← pmeshIn; let n ← pv3; let bias ← pf; let eps ← pf; pend; pure (m, n, bias, eps)) a with
        | some (m, n, bias, eps) =>
          if !(m.pts.all finite3 && finite3 n && FloatIO.isFinite bias && FloatIO.isFinite eps) then "skip nonfinite-input" else
          let N := q3 n; let bi := q bias
          if q eps < 0 then "skip negative-epsilon" else
          if !nearR N.normSq 1 then "skip non-unit-normal" else
          sectionOracle m (fun p => N.dot p - bi) (some (colourFloat n bias eps)) (q eps) (meshScale m bi) o
        | none => "skip bad-args" }
  | "tm_section_m_pos" => some {
      model := fun a => run (do let m ← pmeshIn; let pos ← piso3; let n ← pv3; let bias ← pf; let eps ← pf; pend
                                pure (fsectionM (Section.sectionPos m.pts m.tris pos n bias eps))) a
      oracle := fun a o => match run (do let m ← pmeshIn; let pos ← piso3; let n ← pv3; let bias ← pf; let eps ← pf; pend; pure (m, pos, n, bias, eps)) a with
        | some (m, pos, n, bias, eps) =>
          if !(m.pts.all finite3 && finite3 n && finite3 pos.t && FloatIO.isFinite bias && FloatIO.isFinite eps) then "skip nonfinite-input" else
          let N := q3 n; let bi := q bias; let M := qiso3 pos
          if q eps < 0 then "skip negative-epsilon" else
          if !nearR N.normSq 1 then "skip non-unit-normal" else
          if !unitQ pos then "skip non-unit-quaternion" else
          let (la, lb) := planeToLocal pos n bias
          sectionOracle m (fun p => N.dot (M.act p) - bi) (some (colourFloat la lb eps)) (q eps) (meshScale m bi + maxAbs3 M.t) o
        | none => "skip bad-args" }
  | "tm_section_m_canon" => some {
      model := fun a => run (do let m ← pmeshIn; let ax ← pnat; let bias ← pf; let eps ← pf; pend
                                if h : ax < 3 then pure (fsectionM (Section.sectionCanonical m.pts m.tris ⟨ax, h⟩ bias eps)) else pure "panic") a
      oracle := fun a o => match run (do let m ← pmeshIn; let ax ← paxis; let bias ← pf; let eps ← pf; pend; pure (m, ax, bias, eps)) a with
        | some (m, ax, bias, eps) =>
          if !(m.pts.all finite3 && FloatIO.isFinite bias && FloatIO.isFinite eps) then "skip nonfinite-input" else
          let bi := q bias
          if q eps < 0 then "skip negative-epsilon" else
          sectionOracle m (fun p => p.get ax.val - bi) (some (colourFloat (ithAxis ax) bias eps)) (q eps) (meshScale m bi) o
        | none => "skip bad-args" }
  | "tm_split" => some {
      model := fun _ => some "oracle-only"
      oracle := fun a o => match run (do let m ← pmeshIn; let n ← pv3; let bias ← pf; let eps ← pf; pend; pure (m, n, bias, eps)) a with
        | some (m, n, bias, eps) =>
          if !(m.pts.all finite3 && finite3 n && FloatIO.isFinite bias && FloatIO.isFinite eps) then "skip nonfinite-input" else
          let N := q3 n; let bi := q bias
          if q eps < 0 then "skip negative-epsilon" else
          if !nearR N.normSq 1 then "skip non-unit-normal" else
          splitOracle m (fun p => N.dot p - bi) (some (colourFloat n bias eps)) (q eps) (meshScale m bi) o
        | none => "skip bad-args" }
  | "tm_cut" => some {
      model := fun a => run (do let m ← pmeshIn; let n ← pv3; let bias ← pf; let eps ← pf; pend
                                pure (fcut (Cut.localSplitUncapped m.pts m.tris n bias eps))) a
      oracle := fun a o => match run (do let m ← pmeshIn; let n ← pv3; let bias ← pf; let eps ← pf; pend; pure (m, n, bias, eps)) a with
        | some (m, n, bias, eps) =>
          if !(m.pts.all finite3 && finite3 n && FloatIO.isFinite bias && FloatIO.isFinite eps) then "skip nonfinite-input" else
          let N := q3 n; let bi := q bias
          if q eps < 0 then "skip negative-epsilon" else
          if !nearR N.normSq 1 then "skip non-unit-normal" else
          cutOracle m (fun p => N.dot p - bi) (colourFloat n bias eps) (q eps) (meshScale m bi) o
        | none => "skip bad-args" }
  | "tm_cut_pos" => some {
      model := fun a => run (do let m ← pmeshIn; let pos ← piso3; let n ← pv3; let bias ← pf; let eps ← pf; pend
                                pure (fcut (Cut.splitUncapped m.pts m.tris pos n bias eps))) a
      oracle := fun a o => match run (do let m ← pmeshIn; let pos ← piso3; let n ← pv3; let bias ← pf; let eps ← pf; pend; pure (m, pos, n, bias, eps)) a with
        | some (m, pos, n, bias, eps) =>
          if !(m.pts.all finite3 && finite3 n && finite3 pos.t && FloatIO.isFinite bias && FloatIO.isFinite eps) then "skip nonfinite-input" else
          let N := q3 n; let bi := q bias; let M := qiso3 pos
          if q eps < 0 then "skip negative-epsilon" else
          if !nearR N.normSq 1 then "skip non-unit-normal" else
          if !unitQ pos then "skip non-unit-quaternion" else
          -- the halves are expressed in the mesh's local frame; they are judged against the *world* plane through the pose
          let (la, lb) := planeToLocal pos n bias
          cutOracle m (fun p => N.dot (M.act p) - bi) (colourFloat la lb eps) (q eps) (meshScale m bi + maxAbs3 M.t) o
        | none => "skip bad-args" }
  | "tm_cut_canon" => some {
      model := fun a => run (do let m ← pmeshIn; let ax ← pnat; let bias ← pf; let eps ← pf; pend
                                if h : ax < 3 then pure (fcut (Cut.canonicalSplitUncapped m.pts m.tris ⟨ax, h⟩ bias eps)) else pure "panic") a
      oracle := fun a o => match run (do let m ← pmeshIn; let ax ← paxis; let bias ← pf; let eps ← pf; pend; pure (m, ax, bias, eps)) a with
        | some (m, ax, bias, eps) =>
          if !(m.pts.all finite3 && FloatIO.isFinite bias && FloatIO.isFinite eps) then "skip nonfinite-input" else
          let bi := q bias
          if q eps < 0 then "skip negative-epsilon" else
          cutOracle m (fun p => p.get ax.val - bi) (colourFloat (ithAxis ax) bias eps) (q eps) (meshScale m bi) o
        | none => "skip bad-args" }
  | "tm_split_pos" => some {
      model := fun _ => some "oracle-only"
      oracle := fun a o => match run (do let m ← pmeshIn; let pos ← piso3; let n ← pv3; let bias ← pf; let eps ← pf; pend; pure (m, pos, n, bias, eps)) a with
        | some (m, pos, n, bias, eps) =>
          if !(m.pts.all finite3 && finite3 n && FloatIO.isFinite bias && FloatIO.isFinite eps) then "skip nonfinite-input" else
          let N := q3 n; let bi := q bias; let M := qiso3 pos
          if q eps < 0 then "skip negative-epsilon" else
          if !nearR N.normSq 1 then "skip non-unit-normal" else
          if !nearR (M.qi * M.qi + M.qj * M.qj + M.qk * M.qk + M.qw * M.qw) 1 then "skip non-unit-quaternion" else
          -- Float colours are replayed on the model's local plane (tied to the code by `tm_plane_pos`)
          let (la, lb) := planeToLocal pos n bias
          splitOracle m (fun p => N.dot (M.act p) - bi) (some (colourFloat la lb eps)) (q eps) (meshScale m bi + maxAbs3 M.t) o
        | none => "skip bad-args" }
  | "tm_section" => some {
      model := fun _ => some "oracle-only"
      oracle := fun a o => match run (do let m ← pmeshIn; let n ← pv3; let bias ← pf; let eps ← pf; pend; pure (m, n, bias, eps)) a with
        | some (m, n, bias, eps) =>
          if !(m.pts.all finite3 && finite3 n && FloatIO.isFinite bias && FloatIO.isFinite eps) then "skip nonfinite-input" else
          let N := q3 n; let bi := q bias
          if q eps < 0 then "skip negative-epsilon" else
          if !nearR N.normSq 1 then "skip non-unit-normal" else
          sectionOracle m (fun p => N.dot p - bi) (some (colourFloat n bias eps)) (q eps) (meshScale m bi) o
        | none => "skip bad-args" }
  | "tm_verdict" => some {
      model := fun a => run (do let m ← pmeshIn; let n ← pv3; let bias ← pf; let eps ← pf; pend
                                let k := fverdict (meshVerdict m.pts n bias eps); pure s!"{k} {k}") a
      oracle := fun a o => match run (do let m ← pmeshIn; let n ← pv3; let bias ← pf; let eps ← pf; pend; pure (m, n, bias, eps)) a with
        | some (m, n, bias, eps) =>
          if !(m.pts.all finite3 && finite3 n && FloatIO.isFinite bias && FloatIO.isFinite eps) then "skip nonfinite-input" else
          let N := q3 n; let bi := q bias
          if q eps < 0 then "skip negative-epsilon" else
          if !nearR N.normSq 1 then "skip non-unit-normal" else
          verdictOracle ((m.pts.map q3).map fun p => N.dot p - bi) (q eps) (tol * meshScale m bi) o
        | none => "skip bad-args" }
  | "tm_verdict_pos" => some {
      model := fun a => run (do let m ← pmeshIn; let pos ← piso3; let n ← pv3; let bias ← pf; let eps ← pf; pend
                                let k := fverdict (meshVerdictPos m.pts pos n bias eps); pure s!"{k} {k}") a
      oracle := fun a o => match run (do let m ← pmeshIn; let pos ← piso3; let n ← pv3; let bias ← pf; let eps ← pf; pend; pure (m, pos, n, bias, eps)) a with
        | some (m, pos, n, bias, eps) =>
          if !(m.pts.all finite3 && finite3 n && finite3 pos.t && FloatIO.isFinite bias && FloatIO.isFinite eps) then "skip nonfinite-input" else
          let N := q3 n; let bi := q bias; let M := qiso3 pos
          if q eps < 0 then "skip negative-epsilon" else
          if !nearR N.normSq 1 then "skip non-unit-normal" else
          if !unitQ pos then "skip non-unit-quaternion" else
          verdictOracle ((m.pts.map q3).map fun p => N.dot (M.act p) - bi) (q eps) (tol * (meshScale m bi + maxAbs3 M.t)) o
        | none => "skip bad-args" }
  | "tm_verdict_canon" => some {
      model := fun a => run (do let m ← pmeshIn; let ax ← pnat; let bias ← pf; let eps ← pf; pend
                                if h : ax < 3 then (let k := fverdict (meshVerdictCanonical m.pts ⟨ax, h⟩ bias eps); pure s!"{k} {k}") else pure "panic") a
      oracle := fun a o => match run (do let m ← pmeshIn; let ax ← paxis; let bias ← pf; let eps ← pf; pend; pure (m, ax, bias, eps)) a with
        | some (m, ax, bias, eps) =>
          if !(m.pts.all finite3 && FloatIO.isFinite bias && FloatIO.isFinite eps) then "skip nonfinite-input" else
          let bi := q bias
          if q eps < 0 then "skip negative-epsilon" else
          verdictOracle ((m.pts.map q3).map fun p => p.get ax.val - bi) (q eps) (tol * meshScale m bi) o
        | none => "skip bad-args" }
  | "seg_canon_split" => some {
      model := fun a => run (do let p ← pv3; let p' ← pv3; let ax ← pnat; let bias ← pf; let eps ← pf
                                if h : ax < 3 then pure (fsegSplit1 ((Segment3.mk p p').canonicalSplit ⟨ax, h⟩ bias eps)) else pure "panic") a
      oracle := fun a o => match run (do let p ← pv3; let p' ← pv3; let ax ← paxis; let bias ← pf; let eps ← pf; pure (p, p', ax, bias, eps)) a with
        | some (p, p', ax, bias, eps) => segCanonOracle p p' ax bias eps o
        | none => "skip bad-args" }
  | "tm_section_pos" => some {
      model := fun _ => some "oracle-only"
      oracle := fun a o => match run (do let m ← pmeshIn; let pos ← piso3; let n ← pv3; let bias ← pf; let eps ← pf; pend; pure (m, pos, n, bias, eps)) a with
        | some (m, pos, n, bias, eps) =>
          if !(m.pts.all finite3 && finite3 n && finite3 pos.t && FloatIO.isFinite bias && FloatIO.isFinite eps) then "skip nonfinite-input" else
          let N := q3 n; let bi := q bias; let M := qiso3 pos
          if q eps < 0 then "skip negative-epsilon" else
          if !nearR N.normSq 1 then "skip non-unit-normal" else
          if !unitQ pos then "skip non-unit-quaternion" else
          -- the polyline is expressed in the mesh's local frame; it is judged against the *world* plane through the pose.
          -- Float colours are replayed on the model's local plane (tied to the code by `tm_plane_pos`)
          let (la, lb) := planeToLocal pos n bias
          sectionOracle m (fun p => N.dot (M.act p) - bi) (some (colourFloat la lb eps)) (q eps) (meshScale m bi + maxAbs3 M.t) o
        | none => "skip bad-args" }
  | "tm_canon_split" => some {
      model := fun _ => some "oracle-only"
      oracle := fun a o => match run (do let m ← pmeshIn; let ax ← paxis; let bias ← pf; let eps ← pf; pend; pure (m, ax, bias, eps)) a with
        | some (m, ax, bias, eps) =>
          if !(m.pts.all finite3 && FloatIO.isFinite bias && FloatIO.isFinite eps) then "skip nonfinite-input" else
          let bi := q bias
          if q eps < 0 then "skip negative-epsilon" else
          splitOracle m (fun p => p.get ax.val - bi) (some (colourFloat (ithAxis ax) bias eps)) (q eps) (meshScale m bi) o
        | none => "skip bad-args" }
  | "tm_canon_section" => some {
      model := fun _ => some "oracle-only"
      oracle := fun a o => match run (do let m ← pmeshIn; let ax ← paxis; let bias ← pf; let eps ← pf; pend; pure (m, ax, bias, eps)) a with
        | some (m, ax, bias, eps) =>
          if !(m.pts.all finite3 && FloatIO.isFinite bias && FloatIO.isFinite eps) then "skip nonfinite-input" else
          let bi := q bias
          if q eps < 0 then "skip negative-epsilon" else
          sectionOracle m (fun p => p.get ax.val - bi) (some (colourFloat (ithAxis ax) bias eps)) (q eps) (meshScale m bi) o
        | none => "skip bad-args" }
  | "tm_plane_pos" => some {
      model := fun a => run (do let _ ← pmeshIn; let pos ← piso3; let n ← pv3; let bias ← pf; let _ ← pf; let la ← pv3; let lb ← pf; pend
                                let (la', lb') := planeToLocal pos n bias
                                pure (if fv3 la' == fv3 la && ff lb' == ff lb then "split:same section:same" else s!"plane {fv3 la'} {ff lb'}")) a
      oracle := fun a o => match run (do let m ← pmeshIn; let pos ← piso3; let n ← pv3; let bias ← pf; let eps ← pf; let la ← pv3; let lb ← pf; pend
                                         pure (m, pos, n, bias, eps, la, lb)) a with
        | some (m, pos, n, bias, _, la, lb) =>
          if !(m.pts.all finite3 && finite3 n && finite3 pos.t && finite3 la && FloatIO.isFinite bias && FloatIO.isFinite lb) then "skip nonfinite-input" else
          if !unitQ pos then "skip non-unit-quaternion" else
          let M := qiso3 pos; let bi := q bias
          if !samePlane M (q3 n) bi (q3 la) (q lb) (m.pts.map q3) (meshScale m bi + maxAbs3 M.t) then "fail transferred-plane-is-not-the-same-plane" else
          planeVerdict o
        | none => "skip bad-args" }
  | "tm_plane_canon" => some {
      model := fun a => run (do let _ ← pmeshIn; let ax ← pnat; let _ ← pf; let _ ← pf; let la ← pv3; pend
                                if h : ax < 3 then pure (if fv3 (ithAxis (K := Float) ⟨ax, h⟩) == fv3 la then "split:same section:same" else s!"axis {fv3 (ithAxis (K := Float) ⟨ax, h⟩)}")
                                else pure "panic") a
      oracle := fun a o => match run (do let m ← pmeshIn; let ax ← paxis; let bias ← pf; let eps ← pf; let la ← pv3; pend; pure (m, ax, bias, eps, la)) a with
        | some (m, ax, _, _, la) =>
          if !(m.pts.all finite3 && finite3 la) then "skip nonfinite-input" else
          let LA := q3 la
          if !((List.range 3).all fun i => LA.get i == (if i == ax.val then 1 else 0)) then "fail local-axis-is-not-the-canonical-axis" else
          planeVerdict o
        | none => "skip bad-args" }
  | "mesh_isect" => some {
      model := fun _ => some "oracle-only"
      oracle := fun a o => match run (do let s1 ← psolid; let p1 ← piso3; let s2 ← psolid; let p2 ← piso3; pend; pure (s1, p1, s2, p2)) a with
        | some (s1, p1, s2, p2) =>
          if !(s1.2.1.all finite3 && s2.2.1.all finite3 && finite3 p1.t && finite3 p2.t) then "skip nonfinite-input" else
          if !(unitQ p1 && unitQ p2) then "skip non-unit-quaternion" else
          -- the result of `intersect_meshes` is expressed in world space
          isectOracle (mkSolid s1 p1) (mkSolid s2 p2) Iso3.identity o
        | none => "skip bad-args" }
  | "isect_cuboid" => some {
      model := fun _ => some "oracle-only"
      oracle := fun a o => match run (do let v ← pnat; let s ← psolid; let pm ← piso3; let he ← pv3; let pc ← piso3; pend; pure (v, s, pm, he, pc)) a with
        | some (_, s, pm, he, pc) =>
          if !(s.2.1.all finite3 && finite3 pm.t && finite3 pc.t && finite3 he) then "skip nonfinite-input" else
          if !(unitQ pm && unitQ pc) then "skip non-unit-quaternion" else
          let (bp, bt) := boxMesh (q3 he)
          -- the result is expressed in the local space of the mesh
          isectOracle (mkSolid s pm) ⟨qiso3 pc, bp, bt, [], facePlanes bp bt⟩ (qiso3 pm) o
        | none => "skip bad-args" }
  | "aabb_split_center" => some {
      model := fun a => run (do let b ← paabb3; pend; pure (fboxes b.splitAtCenter)) a
      oracle := fun a o => match run (do let b ← paabb3; pend; pure b) a with
        | some b => splitCenterOracle b o
        | none => "skip bad-args" }
  | "aabb2_split_center" => some {
      model := fun a => run (do let b ← paabb2'; pend; pure (fboxes2 b.splitAtCenter)) a
      oracle := fun a o => match run (do let b ← paabb2'; pend; pure b) a with
        | some b => splitCenter2Oracle b o
        | none => "skip bad-args" }
  | "cuboid_frame" => some {
      model := fun a => run (do let _ ← psolid; let pm ← piso3; let _ ← pv3; let pc ← piso3; let lp ← piso3; pend
                                let lp' := cuboidToLocal pm pc
                                pure (if fiso3' lp' == fiso3' lp then "same" else s!"pose {fiso3' lp'}")) a
      oracle := fun a o => match run (do let s ← psolid; let pm ← piso3; let he ← pv3; let pc ← piso3; let lp ← piso3; pend; pure (s, pm, he, pc, lp)) a with
        | some (s, pm, he, pc, lp) =>
          if !(s.2.1.all finite3 && finite3 pm.t && finite3 pc.t && finite3 lp.t && finite3 he) then "skip nonfinite-input" else
          if !(unitQ pm && unitQ pc) then "skip non-unit-quaternion" else
          let PM := qiso3 pm; let PC := qiso3 pc; let LP := qiso3 lp
          let sc := 1 + maxAbs3 PM.t + maxAbs3 PC.t + maxAbs3 (q3 he)
          -- the local pose is the same placement: mesh pose ∘ local pose = cuboid pose on the cuboid's corners (and its centre)
          if !((⟨0, 0, 0⟩ :: boxCorners (q3 he)).all fun c => nearV3 (PM.act (LP.act c)) (PC.act c) sc) then "fail local-cuboid-pose-is-not-the-same-placement" else
          frameVerdict o
        | none => "skip bad-args" }
  | "aabb_frame" => some {
      model := fun a => run (do let _ ← psolid; let _ ← piso3; let b ← paabb3; let he ← pv3; let c ← pv3; pend
                                let r := aabbAsCuboid b
                                pure (if fv3 r.1 == fv3 he && fv3 r.2.t == fv3 c then "same" else s!"cuboid {fv3 r.1} {fv3 r.2.t}")) a
      oracle := fun a o => match run (do let s ← psolid; let pm ← piso3; let b ← paabb3; let he ← pv3; let c ← pv3; pend; pure (s, pm, b, he, c)) a with
        | some (s, pm, b, he, c) =>
          if !(s.2.1.all finite3 && finite3 pm.t && finiteBox b && finite3 he && finite3 c) then "skip nonfinite-input" else
          let B := qaabb3 b
          if !validBoxR B then "skip invalid-box" else
          let sc := 1 + boxScale B
          -- centre ± half extents = the box
          if !(nearV3 ((q3 c).sub (q3 he)) B.mins sc && nearV3 ((q3 c).add (q3 he)) B.maxs sc) then "fail cuboid-is-not-the-box" else
          frameVerdict o
        | none => "skip bad-args" }
  | _ => none

end C17
